(* Model of zone transactions (property C10).  Definitions only; proofs live in Proofs/Txn*.v.

   Mirrors, function by function:
     dns/set.py + dns/rdataset.py   Set.add/discard/union/intersection/difference, Rdataset.update_ttl/add/
                                    union_update/intersection_update/__eq__, from_rdata, RRset.to_rdataset
     dns/node.py                    NodeKind.classify, Node._append_rdataset/find_rdataset/delete_rdataset/replace_rdataset
     dns/zone.py                    _validate_name, Version.get_node/get_rdataset, WritableVersion.__init__/
                                    _maybe_cow_with_name/put_rdataset/delete_rdataset/delete_node,
                                    Transaction._end_transaction/_changed, Zone.reader/writer/_commit_version
     dns/transaction.py             Transaction.get/get_node/add/replace/delete/delete_exact/name_exists/changed/
                                    update_serial/commit/rollback/__exit__, _rdataset_from_args/_add/_delete/_end
     dns/serial.py                  Serial.__init__/__add__
   dns.versioned.Zone and dns.btreezone.Zone run the same dns.zone.Transaction over the same WritableVersion
   logic (btreezone overrides add node flags and a delegation index, which are C20); at the value level the
   three zone classes are one model.  Rdata values are abstract (body, aux) pairs: aux is the serial of an SOA
   and the covered type of an RRSIG.

   The high-level transaction code (dns.transaction.Transaction) is written once, over an abstract low-level
   store, exactly as in Python (the base class calls _get_rdataset/_put_rdataset/...).  It is instantiated
   with the zone version model (`zstore`) and with the flat reference store (`rstore`). *)
From DV Require Import Base.Prelude Model.NameM.
Open Scope Z_scope.

(* exception codes (Name codes 1..12 are NameM's) *)
Definition eDeleteNotExact := 20.   (* dns.transaction.DeleteNotExact *)
Definition eReadOnly := 21.         (* dns.transaction.ReadOnly *)
Definition eAlreadyEnded := 22.     (* dns.transaction.AlreadyEnded *)
Definition eKeyError := 30.
Definition eValueError := 31.
Definition eTypeError := 32.
Definition eUnknownRdatatype := 33.
Definition eAssertion := 36.
Definition eAttributeError := 37.
Definition eInjected := 77.         (* the exception raised by the caller inside the with-block *)
Definition eBadCase := 999.

Definition cIN := 1.
Definition tCNAME := 5.  Definition tSOA := 6.   Definition tSIG := 24.  Definition tKEY := 25.
Definition tNXT := 30.   Definition tDNAME := 39. Definition tRRSIG := 46. Definition tNSEC := 47.
Definition tNSEC3 := 50.
Definition MAX_TTL := 4294967295.

(* ---------------------------------------------------------------- rdatasets (dns/set.py, dns/rdataset.py) *)
Definition rdata := (Z * Z)%type.
Definition rdata_eqb (a b : rdata) : bool := (fst a =? fst b) && (snd a =? snd b).

Record rds := mkRds { r_cls : Z; r_ty : Z; r_cov : Z; r_ttl : Z; r_items : list rdata }.

Definition set_items (r : rds) (l : list rdata) : rds := mkRds (r_cls r) (r_ty r) (r_cov r) (r_ttl r) l.
Definition set_ttl (r : rds) (t : Z) : rds := mkRds (r_cls r) (r_ty r) (r_cov r) t (r_items r).

(* `item in self.items` *)
Fixpoint mem (x : rdata) (l : list rdata) : bool :=
  match l with
  | [] => false
  | y :: r => rdata_eqb x y || mem x r
  end.

(* Set.add: `if item not in self.items: self.items[item] = None` (dict keeps insertion order) *)
Definition set_add (x : rdata) (l : list rdata) : list rdata := if mem x l then l else l ++ [x].

(* Set.discard: self.items.pop(item, None) *)
Fixpoint discard (x : rdata) (l : list rdata) : list rdata :=
  match l with
  | [] => []
  | y :: r => if rdata_eqb x y then r else y :: discard x r
  end.

Definition is_singleton (ty : Z) : bool :=
  (ty =? tSOA) || (ty =? tNXT) || (ty =? tDNAME) || (ty =? tNSEC) || (ty =? tCNAME).

(* Rdataset.update_ttl *)
Definition update_ttl (r : rds) (ttl : Z) : rds :=
  match r_items r with
  | [] => set_ttl r ttl
  | _ => if ttl <? r_ttl r then set_ttl r ttl else r
  end.

(* Rdataset.add(rd) with ttl=None; class/type/covers agree by construction of the arguments *)
Definition rds_add (r : rds) (x : rdata) : rds :=
  let items := match r_items r with
               | [] => []
               | _ => if is_singleton (r_ty r) then [] else r_items r
               end in
  set_items r (set_add x items).

(* Set.union = _clone + Rdataset.union_update (update_ttl, then add every item of other) *)
Definition rds_union (a b : rds) : rds := fold_left rds_add (r_items b) (update_ttl a (r_ttl b)).

(* Set.intersection = _clone + Rdataset.intersection_update *)
Definition rds_intersection (a b : rds) : rds :=
  let a' := update_ttl a (r_ttl b) in
  set_items a' (filter (fun x => mem x (r_items b)) (r_items a')).

(* Set.difference = _clone + Set.difference_update (no TTL change) *)
Definition rds_difference (a b : rds) : rds :=
  set_items a (fold_left (fun acc x => discard x acc) (r_items b) (r_items a)).

(* dict equality of the items: same length and every key of a is a key of b *)
Definition items_eqb (a b : list rdata) : bool :=
  Nat.eqb (length a) (length b) && forallb (fun x => mem x b) a.

(* Rdataset.__eq__ *)
Definition rds_eqb (a b : rds) : bool :=
  (r_cls a =? r_cls b) && (r_ty a =? r_ty b) && (r_cov a =? r_cov b) && items_eqb (r_items a) (r_items b).

Definition is_sig (ty : Z) : bool := (ty =? tRRSIG) || (ty =? tSIG).

(* dns.rdataset.from_rdata(ttl, rd) *)
Definition from_rdata (ttl ty body aux cls : Z) : rds :=
  mkRds cls ty (if is_sig ty then aux else 0) ttl [(body, aux)].

(* RRset.to_rdataset = from_rdata_list(self.ttl, list(self)) *)
Definition to_rdataset (r : rds) : res rds :=
  match r_items r with
  | [] => Lib eValueError
  | _ => Ok (fold_left rds_add (r_items r) (mkRds (r_cls r) (r_ty r) (r_cov r) (r_ttl r) []))
  end.

(* ---------------------------------------------------------------- nodes (dns/node.py) *)
Definition node := list rds.

Definition rds_match (r : rds) (cls ty cov : Z) : bool :=
  (r_cls r =? cls) && (r_ty r =? ty) && (r_cov r =? cov).

(* Node.find_rdataset / get_rdataset (create=False) *)
Fixpoint node_find (n : node) (cls ty cov : Z) : option rds :=
  match n with
  | [] => None
  | r :: t => if rds_match r cls ty cov then Some r else node_find t cls ty cov
  end.

(* Node.delete_rdataset: get_rdataset, then list.remove(rds); the first element equal to the first
   match is the first match itself *)
Fixpoint node_delete (n : node) (cls ty cov : Z) : node :=
  match n with
  | [] => []
  | r :: t => if rds_match r cls ty cov then t else r :: node_delete t cls ty cov
  end.

Inductive nkind := KRegular | KNeutral | KCname.

Definition nkind_eqb (a b : nkind) : bool :=
  match a, b with
  | KRegular, KRegular | KNeutral, KNeutral | KCname, KCname => true
  | _, _ => false
  end.

Definition in_cname_types (t : Z) : bool := t =? tCNAME.
Definition in_neutral_types (t : Z) : bool := (t =? tNSEC) || (t =? tNSEC3) || (t =? tKEY).

(* NodeKind.classify *)
Definition classify (ty cov : Z) : nkind :=
  if in_cname_types ty || ((ty =? tRRSIG) && in_cname_types cov) then KCname
  else if in_neutral_types ty || ((ty =? tRRSIG) && in_neutral_types cov) then KNeutral
  else KRegular.

Definition classify_rds (r : rds) : nkind := classify (r_ty r) (r_cov r).

(* Node._append_rdataset *)
Definition node_append (n : node) (r : rds) : node :=
  match n with
  | [] => [r]
  | _ =>
      match classify_rds r with
      | KCname => filter (fun x => negb (nkind_eqb (classify_rds x) KRegular)) n ++ [r]
      | KRegular => filter (fun x => negb (nkind_eqb (classify_rds x) KCname)) n ++ [r]
      | KNeutral => n ++ [r]
      end
  end.

(* Node.replace_rdataset *)
Definition node_replace (n : node) (r : rds) : node :=
  node_append (node_delete n (r_cls r) (r_ty r) (r_cov r)) r.

(* ---------------------------------------------------------------- zone configuration, name validation *)
Record cfg := mkCfg { c_kind : Z; c_rel : bool; c_origin : name }.

(* dns.zone._validate_name (origin is not None) *)
Definition validate_name (c : cfg) (n : name) : res name :=
  if is_absolute n then
    if negb (is_subdomain n (c_origin c)) then Lib eKeyError
    else if c_rel c then relativize n (c_origin c) else Ok n
  else
    match derelativize n (c_origin c) with
    | Ok a => if c_rel c then Ok n else Ok a
    | Lib e => if e =? eNameTooLong then Lib eKeyError else Lib e
    | Internal e => Internal e
    end.

(* ---------------------------------------------------------------- the node map (dict / BTreeDict keyed by Name) *)
Definition nmap := list (name * node).

Fixpoint map_get (m : nmap) (k : name) : option node :=
  match m with
  | [] => None
  | (k', v) :: r => if name_eqb k' k then Some v else map_get r k
  end.

(* d[k] = v : an existing key keeps its position (and its key object) *)
Fixpoint map_set (m : nmap) (k : name) (v : node) : nmap :=
  match m with
  | [] => [(k, v)]
  | (k', v') :: r => if name_eqb k' k then (k', v) :: r else (k', v') :: map_set r k v
  end.

Definition map_has (m : nmap) (k : name) : bool :=
  match map_get m k with Some _ => true | None => false end.

Fixpoint map_remove (m : nmap) (k : name) : nmap :=
  match m with
  | [] => []
  | (k', v) :: r => if name_eqb k' k then map_remove r k else (k', v) :: map_remove r k
  end.

(* del d[k] : KeyError when absent *)
Definition map_del (m : nmap) (k : name) : res nmap :=
  if map_has m k then Ok (map_remove m k) else Internal eKeyError.

(* ---------------------------------------------------------------- Version / WritableVersion (dns/zone.py) *)
Record version := mkVer { v_nodes : nmap; v_changed : list name }.

Definition changed_has (l : list name) (k : name) : bool := existsb (fun x => name_eqb x k) l.
Definition changed_add (l : list name) (k : name) : list name := if changed_has l k then l else l ++ [k].

(* Version.get_node *)
Definition get_node (c : cfg) (v : version) (n : name) : res (option node) :=
  do k <- validate_name c n; Ok (map_get (v_nodes v) k).

(* Version.get_rdataset *)
Definition get_rdataset (c : cfg) (v : version) (n : name) (ty cov : Z) : res (option rds) :=
  do on <- get_node c v n;
  Ok (match on with None => None | Some nd => node_find nd cIN ty cov end).

(* WritableVersion._maybe_cow_with_name: returns the (possibly new) node, stored in the map, and the
   validated name *)
Definition maybe_cow (c : cfg) (v : version) (n : name) : res (version * node * name) :=
  do k <- validate_name c n;
  match map_get (v_nodes v) k with
  | Some nd =>
      if changed_has (v_changed v) k then Ok (v, nd, k)
      else Ok (mkVer (map_set (v_nodes v) k nd) (changed_add (v_changed v) k), nd, k)
  | None => Ok (mkVer (map_set (v_nodes v) k []) (changed_add (v_changed v) k), [], k)
  end.

(* WritableVersion.put_rdataset: the node object in the map is mutated in place *)
Definition put_rdataset (c : cfg) (v : version) (n : name) (r : rds) : res version :=
  do x <- maybe_cow c v n;
  let '(v1, nd, k) := x in
  Ok (mkVer (map_set (v_nodes v1) k (node_replace nd r)) (v_changed v1)).

(* WritableVersion.delete_rdataset (after fix 2d6b3bb: the emptied node is deleted under the validated name) *)
Definition delete_rdataset (c : cfg) (v : version) (n : name) (ty cov : Z) : res version :=
  do x <- maybe_cow c v n;
  let '(v1, nd, k) := x in
  let nd' := node_delete nd cIN ty cov in
  match nd' with
  | [] => do m <- map_del (v_nodes v1) k; Ok (mkVer m (v_changed v1))
  | _ => Ok (mkVer (map_set (v_nodes v1) k nd') (v_changed v1))
  end.

(* WritableVersion.delete_node *)
Definition delete_node (c : cfg) (v : version) (n : name) : res version :=
  do k <- validate_name c n;
  if map_has (v_nodes v) k then Ok (mkVer (map_remove (v_nodes v) k) (changed_add (v_changed v) k))
  else Ok v.

(* ---------------------------------------------------------------- the low-level store interface
   (the abstract methods of dns.transaction.Transaction) *)
Record store (P S : Type) := mkStore {
  s_begin : P -> bool -> S;                       (* Zone.writer(replacement) / reader: the private state *)
  s_publish : S -> P;                             (* Zone._commit_version *)
  s_get : S -> name -> Z -> Z -> res (option rds);   (* _get_rdataset *)
  s_put : S -> name -> rds -> res S;                 (* _put_rdataset *)
  s_del_name : S -> name -> res S;                   (* _delete_name *)
  s_del_rds : S -> name -> Z -> Z -> res S;          (* _delete_rdataset *)
  s_exists : S -> name -> res bool;                  (* _name_exists *)
  s_node : S -> name -> res (option node);           (* _get_node *)
  s_changed : S -> bool;                             (* len(version.changed) > 0 *)
  s_count : S -> Z * Z                               (* number of names, number of rdatasets *)
}.
Arguments s_begin {P S}. Arguments s_publish {P S}. Arguments s_get {P S}. Arguments s_put {P S}.
Arguments s_del_name {P S}. Arguments s_del_rds {P S}. Arguments s_exists {P S}. Arguments s_node {P S}.
Arguments s_changed {P S}. Arguments s_count {P S}.

(* dns.zone.Transaction over a WritableVersion *)
Definition zstore (c : cfg) : store nmap version := {|
  s_begin := fun z replacement => mkVer (if replacement then [] else z) [];
  s_publish := fun v => v_nodes v;
  s_get := get_rdataset c;
  s_put := put_rdataset c;
  s_del_name := delete_node c;
  s_del_rds := delete_rdataset c;
  s_exists := fun v n => do on <- get_node c v n; Ok (match on with Some _ => true | None => false end);
  s_node := get_node c;
  s_changed := fun v => match v_changed v with [] => false | _ => true end;
  s_count := fun v => (zlen (v_nodes v), fold_right (fun kn acc => zlen (snd kn) + acc) 0 (v_nodes v))
|}.

(* ---------------------------------------------------------------- the reference store (the "simple model")
   a flat list of records  (absolute owner, rdataset); no nodes, no copy-on-write, no relativization *)
Record entry := mkEntry { e_name : name; e_rds : rds }.
Record rstate := mkRst { rs_entries : list entry; rs_dirty : bool }.

(* the absolute spelling of an owner name, or KeyError *)
Definition canon (c : cfg) (n : name) : res name :=
  if is_absolute n then
    if is_subdomain n (c_origin c) then Ok n else Lib eKeyError
  else
    match mk_name (n ++ c_origin c) with
    | Ok a => Ok a
    | Lib e => if e =? eNameTooLong then Lib eKeyError else Lib e
    | Internal e => Internal e
    end.

Definition at_name (a : name) (e : entry) : bool := name_eqb (e_name e) a.
Definition at_key (a : name) (ty cov : Z) (e : entry) : bool :=
  at_name a e && rds_match (e_rds e) cIN ty cov.

(* CNAME / other-data exclusivity: does storing something of kind k evict e? *)
Definition evicts (k : nkind) (e : entry) : bool :=
  match k with
  | KCname => nkind_eqb (classify_rds (e_rds e)) KRegular
  | KRegular => nkind_eqb (classify_rds (e_rds e)) KCname
  | KNeutral => false
  end.

Definition entries_at (a : name) (l : list entry) : node := map e_rds (filter (at_name a) l).

Definition r_get (c : cfg) (s : rstate) (n : name) (ty cov : Z) : res (option rds) :=
  do a <- canon c n;
  Ok (match find (at_key a ty cov) (rs_entries s) with Some e => Some (e_rds e) | None => None end).

Definition r_put (c : cfg) (s : rstate) (n : name) (r : rds) : res rstate :=
  do a <- canon c n;
  Ok (mkRst (filter (fun e => negb (at_name a e &&
                                     (rds_match (e_rds e) (r_cls r) (r_ty r) (r_cov r) || evicts (classify_rds r) e)))
                    (rs_entries s) ++ [mkEntry a r]) true).

Definition r_del_name (c : cfg) (s : rstate) (n : name) : res rstate :=
  do a <- canon c n;
  if existsb (at_name a) (rs_entries s)
  then Ok (mkRst (filter (fun e => negb (at_name a e)) (rs_entries s)) true)
  else Ok s.

Definition r_del_rds (c : cfg) (s : rstate) (n : name) (ty cov : Z) : res rstate :=
  do a <- canon c n;
  Ok (mkRst (filter (fun e => negb (at_key a ty cov e)) (rs_entries s)) true).

Definition r_exists (c : cfg) (s : rstate) (n : name) : res bool :=
  do a <- canon c n; Ok (existsb (at_name a) (rs_entries s)).

Definition r_node (c : cfg) (s : rstate) (n : name) : res (option node) :=
  do a <- canon c n;
  Ok (match entries_at a (rs_entries s) with [] => None | l => Some l end).

Fixpoint distinct_names (l : list entry) : list name :=
  match l with
  | [] => []
  | e :: r => let d := distinct_names r in
              if existsb (fun x => name_eqb x (e_name e)) d then d else e_name e :: d
  end.

Definition rstore (c : cfg) : store (list entry) rstate := {|
  s_begin := fun z replacement => mkRst (if replacement then [] else z) false;
  s_publish := rs_entries;
  s_get := r_get c;
  s_put := r_put c;
  s_del_name := r_del_name c;
  s_del_rds := r_del_rds c;
  s_exists := r_exists c;
  s_node := r_node c;
  s_changed := rs_dirty;
  s_count := fun s => (zlen (distinct_names (rs_entries s)), zlen (rs_entries s))
|}.

(* ---------------------------------------------------------------- dns.transaction.Transaction (high level) *)
Inductive arg :=
| AName (n : name)                      (* a dns.name.Name *)
| AStr (n : name)                       (* a str, converted with dns.name.from_text(arg, None) *)
| ARds (r : rds)                        (* a dns.rdataset.Rdataset *)
| ARRset (n : name) (r : rds)           (* a dns.rrset.RRset *)
| AInt (z : Z)
| ARdata (ty body aux cls : Z)          (* a dns.rdata.Rdata *)
| ATyStr (ty : Z)                       (* a str naming an rdata type *)
| ANone.                                (* any other object *)

Inductive op :=
| OAdd (a : list arg) | OReplace (a : list arg) | ODelete (a : list arg) | ODeleteExact (a : list arg)
| OSerial (value : Z) (relative : bool) (n : option arg)
| OGet (n : arg) (ty cov : Z) | OExists (n : arg) | OChanged | OIter | OGetNode (n : arg)
| OCommit | ORollback.

Inductive out := RNone | RBool (b : bool) | RRds (o : option rds) | RNode (o : option node) | RPair (a b : Z).

(* Serial(v) + delta, as an int *)
Definition serial_add (v delta : Z) : res Z :=
  if Z.abs delta >? 2147483647 then Lib eValueError else Ok ((v mod 4294967296 + delta) mod 4294967296).

(* RdataType.make(arg) *)
Definition make_type (a : arg) : res Z :=
  match a with
  | AInt z => if (z <? 0) || (z >? 65535) then Lib eValueError else Ok z
  | ATyStr t => Ok t
  | AStr _ => Lib eUnknownRdatatype
  | _ => Lib eTypeError
  end.

(* the SOA owner test of _add (after fix e445852): name == effective origin, or the absolute origin, or
   the empty name *)
Definition origin_ok (c : cfg) (n : name) : bool :=
  let effective := if c_rel c then NameM.empty else c_origin c in
  negb (negb (name_eqb n effective) && (negb (name_eqb n (c_origin c)) && negb (name_eqb n NameM.empty))).

(* Transaction._rdataset_from_args: the rdataset (None only when deleting with no more arguments) and
   the arguments left in the deque *)
Definition rdataset_from_args (deleting : bool) (args : list arg) : res (option rds * list arg) :=
  match args with
  | [] => if deleting then Ok (None, []) else Lib eTypeError
  | ARRset _ r :: rest => do r' <- to_rdataset r; Ok (Some r', rest)
  | ARds r :: rest => Ok (Some r, rest)
  | a :: rest =>
      do x <- (if deleting then Ok (0, a, rest)
               else match a with
                    | AInt ttl =>
                        if ttl >? MAX_TTL then Lib eValueError
                        else match rest with
                             | [] => Lib eTypeError
                             | a2 :: rest2 => Ok (ttl, a2, rest2)
                             end
                    | _ => Lib eTypeError
                    end);
      let '(ttl, a1, rest1) := x in
      match a1 with
      | ARdata ty body aux cls => Ok (Some (from_rdata ttl ty body aux cls), rest1)
      | _ => Lib eTypeError
      end
  end.

(* isinstance(arg, int) or isinstance(arg, str) *)
Definition is_type_arg (a : arg) : bool :=
  match a with AInt _ | ATyStr _ | AStr _ => true | _ => false end.

(* the first part of Transaction._add: owner name, rdataset, arguments left *)
Definition add_parse (a : arg) (rest : list arg) : res (name * rds * list arg) :=
  match a with
  | AName n | AStr n =>
      do y <- rdataset_from_args false rest;
      match fst y with
      | Some r => Ok (n, r, snd y)
      | None => Internal eAssertion
      end
  | ARRset n r => do r' <- to_rdataset r; Ok (n, r', rest)
  | _ => Lib eTypeError
  end.

Section HighLevel.
  Context {P S : Type}.
  Variable st : store P S.
  Variable c : cfg.

  (* Transaction._add *)
  Definition hl_add (replace : bool) (args : list arg) (s : S) : res S :=
    match args with
    | [] => Lib eTypeError
    | a :: rest =>
        do x <- add_parse a rest;
        let '(n, r, rest1) := x in
        if negb (r_cls r =? cIN) then Lib eValueError
        else if (r_ty r =? tSOA) && negb (origin_ok c n) then Lib eValueError
        else match rest1 with
             | _ :: _ => Lib eTypeError
             | [] =>
                 do r2 <- (if replace then Ok r
                           else do ex <- s_get st s n (r_ty r) (r_cov r);
                                Ok (match ex with Some e => rds_union e r | None => r end));
                 s_put st s n r2
             end
    end.

  (* the part of _delete after the owner name and the optional rdataset are known *)
  Definition hl_delete_common (exact : bool) (n : name) (ord : option rds) (rest : list arg) (s : S) : res S :=
    match rest with
    | _ :: _ => Lib eTypeError
    | [] =>
        match ord with
        | Some (mkRds cls ty cov ttl (i :: items)) =>
            let r := mkRds cls ty cov ttl (i :: items) in
            if negb (cls =? cIN) then Lib eValueError
            else
              do ex <- s_get st s n ty cov;
              match ex with
              | Some e =>
                  if exact && negb (rds_eqb (rds_intersection e r) r) then Lib eDeleteNotExact
                  else
                    let d := rds_difference e r in
                    match r_items d with
                    | [] => s_del_rds st s n (r_ty d) (r_cov d)
                    | _ => s_put st s n d
                    end
              | None => if exact then Lib eDeleteNotExact else Ok s
              end
        | _ =>
            if exact then
              do ex <- s_exists st s n;
              if negb ex then Lib eDeleteNotExact else s_del_name st s n
            else s_del_name st s n
        end
    end.

  (* _delete, "deleting by type and (optionally) covers" *)
  Definition hl_delete_bytype (exact : bool) (n : name) (t : arg) (rest1 : list arg) (s : S) : res S :=
    do ty <- make_type t;
    do x <- match rest1 with
            | [] => Ok (0, [])
            | c0 :: rest2 => do cv <- make_type c0; Ok (cv, rest2)
            end;
    let '(cov, rest2) := x in
    match rest2 with
    | _ :: _ => Lib eTypeError
    | [] =>
        do ex <- s_get st s n ty cov;
        match ex with
        | None => if exact then Lib eDeleteNotExact else Ok s
        | Some _ => s_del_rds st s n ty cov
        end
    end.

  (* Transaction._delete *)
  Definition hl_delete (exact : bool) (args : list arg) (s : S) : res S :=
    match args with
    | [] => Lib eTypeError
    | a :: rest =>
        match a with
        | AName n | AStr n =>
            (* len(args) > 0 and (isinstance(args[0], int) or isinstance(args[0], str)) *)
            match rest with
            | t :: rest1 =>
                if is_type_arg t then hl_delete_bytype exact n t rest1 s
                else do y <- rdataset_from_args true rest; hl_delete_common exact n (fst y) (snd y) s
            | [] => do y <- rdataset_from_args true rest; hl_delete_common exact n (fst y) (snd y) s
            end
        | ARRset n r => hl_delete_common exact n (Some r) rest s
        | _ => Lib eTypeError
        end
    end.

  Record txn := mkTxn { t_st : S; t_ro : bool; t_ended : bool }.

  Definition with_st (t : txn) (s : S) : txn := mkTxn s (t_ro t) (t_ended t).

  Definition name_of_arg (a : arg) : res name :=
    match a with
    | AName n | AStr n => Ok n
    | _ => Internal eAttributeError
    end.

  (* add / replace / delete / delete_exact: _check_ended, _check_read_only, then the worker *)
  Definition hl_write (f : S -> res S) (t : txn) : res txn :=
    if t_ended t then Lib eAlreadyEnded
    else if t_ro t then Lib eReadOnly
    else do s <- f (t_st t); Ok (with_st t s).

  (* Transaction.update_serial *)
  Definition hl_update_serial (value : Z) (relative : bool) (nm : option arg) (t : txn) : res txn :=
    if t_ended t then Lib eAlreadyEnded
    else if value <? 0 then Lib eValueError
    else
      do n <- match nm with None => Ok NameM.empty | Some a => name_of_arg a end;
      do ex <- s_get st (t_st t) n tSOA 0;
      match ex with
      | None => Lib eKeyError
      | Some e =>
          match r_items e with
          | [] => Lib eKeyError
          | (body, serial) :: _ =>
              do ser <- (if relative then serial_add serial value else Ok (value mod 4294967296));
              let ser := if ser =? 0 then 1 else ser in
              let new := mkRds cIN tSOA 0 (r_ttl e) [(body, ser)] in
              hl_write (hl_add true [AName n; ARds new]) t
          end
      end.

  (* Transaction._end + zone.Transaction._end_transaction: the published state and the ended txn *)
  Definition hl_end (commit : bool) (z : P) (t : txn) : res (P * txn) :=
    if t_ended t then Lib eAlreadyEnded
    else
      let z' := if negb (t_ro t) && commit && s_changed st (t_st t) then s_publish st (t_st t) else z in
      Ok (z', mkTxn (t_st t) (t_ro t) true).

  (* one public method call *)
  Definition step (o : op) (z : P) (t : txn) : res (out * P * txn) :=
    match o with
    | OAdd a => do t' <- hl_write (hl_add false a) t; Ok (RNone, z, t')
    | OReplace a => do t' <- hl_write (hl_add true a) t; Ok (RNone, z, t')
    | ODelete a => do t' <- hl_write (hl_delete false a) t; Ok (RNone, z, t')
    | ODeleteExact a => do t' <- hl_write (hl_delete true a) t; Ok (RNone, z, t')
    | OSerial v r n => do t' <- hl_update_serial v r n t; Ok (RNone, z, t')
    | OGet a ty cov =>
        if t_ended t then Lib eAlreadyEnded
        else do n <- name_of_arg a; do ty' <- make_type (AInt ty); do cov' <- make_type (AInt cov);
             do r <- s_get st (t_st t) n ty' cov'; Ok (RRds r, z, t)
    | OExists a =>
        if t_ended t then Lib eAlreadyEnded
        else do n <- name_of_arg a; do b <- s_exists st (t_st t) n; Ok (RBool b, z, t)
    | OChanged =>
        if t_ended t then Lib eAlreadyEnded
        else Ok (RBool (if t_ro t then false else s_changed st (t_st t)), z, t)
    | OIter =>
        if t_ended t then Lib eAlreadyEnded
        else let '(a, b) := s_count st (t_st t) in Ok (RPair a b, z, t)
    | OGetNode a =>
        if t_ended t then Lib eAlreadyEnded
        else do n <- name_of_arg a; do r <- s_node st (t_st t) n; Ok (RNode r, z, t)
    | OCommit => do x <- hl_end true z t; Ok (RNone, fst x, snd x)
    | ORollback => do x <- hl_end false z t; Ok (RNone, fst x, snd x)
    end.

  (* Transaction.__exit__: nothing if ended, else commit (clean) or rollback (exception) *)
  Definition hl_exit (clean : bool) (z : P) (t : txn) : P :=
    match hl_end clean z t with
    | Ok (z', _) => z'
    | _ => z
    end.

  (* the caller catches every exception of a method call and goes on; a transaction still open at the
     end is rolled back *)
  Fixpoint run_manual (ops : list op) (z : P) (t : txn) : list (res out) * P :=
    match ops with
    | [] => ([], hl_exit false z t)
    | o :: r =>
        match step o z t with
        | Ok (x, z', t') => let '(outs, zf) := run_manual r z' t' in (Ok x :: outs, zf)
        | Lib e => let '(outs, zf) := run_manual r z t in (Lib e :: outs, zf)
        | Internal e => let '(outs, zf) := run_manual r z t in (Internal e :: outs, zf)
        end
    end.

  (* `with zone.writer() as txn:` - the first exception leaves the block; `fault` = number of calls
     after which the caller's own exception is raised *)
  Fixpoint run_with (ops : list op) (fault : option nat) (z : P) (t : txn) : list (res out) * P :=
    match fault with
    | Some O => ([Lib eInjected], hl_exit false z t)
    | _ =>
        match ops with
        | [] => match fault with
                | Some _ => ([Lib eInjected], hl_exit false z t)
                | None => ([], hl_exit true z t)
                end
        | o :: r =>
            match step o z t with
            | Ok (x, z', t') =>
                let '(outs, zf) := run_with r (match fault with Some (Datatypes.S k) => Some k | _ => None end) z' t' in
                (Ok x :: outs, zf)
            | Lib e => ([Lib e], hl_exit false z t)
            | Internal e => ([Internal e], hl_exit false z t)
            end
        end
    end.

  Record txnspec := mkSpec { x_mode : Z; x_style : Z; x_ops : list op; x_fault : option nat }.

  (* Zone.writer() / writer(replacement=True) / reader() *)
  Definition open_txn (mode : Z) (z : P) : txn :=
    if mode =? 2 then mkTxn (s_begin st z false) true false
    else mkTxn (s_begin st z (mode =? 1)) false false.

  Definition run_txn (x : txnspec) (z : P) : list (res out) * P :=
    if x_style x =? 1 then run_with (x_ops x) (x_fault x) z (open_txn (x_mode x) z)
    else run_manual (x_ops x) z (open_txn (x_mode x) z).

  (* a history of transactions, one after the other: results and the published state after each *)
  Fixpoint run_hist (h : list txnspec) (z : P) : list (list (res out) * P) :=
    match h with
    | [] => []
    | x :: r => let '(outs, z') := run_txn x z in (outs, z') :: run_hist r z'
    end.
End HighLevel.

Arguments mkTxn {S}. Arguments t_st {S}. Arguments t_ro {S}. Arguments t_ended {S}.

(* the implementation model and the reference model of a history *)
Definition impl_hist (c : cfg) (h : list txnspec) (z : nmap) := run_hist (zstore c) c h z.
Definition spec_hist (c : cfg) (h : list txnspec) (z : list entry) := run_hist (rstore c) c h z.

(* Zone.get_node(name) on the published zone: KeyError -> None *)
Definition zone_get_node (c : cfg) (z : nmap) (n : name) : option node :=
  match validate_name c n with
  | Ok k => map_get z k
  | _ => None
  end.

(* ---------------------------------------------------------------- the object-level model (aliasing)
   Nodes are objects.  The node map of a version maps names to object ids; `heap` is the store of node
   objects (id = position; allocation appends).  WritableVersion.__init__ copies the *map* (`nodes.update(
   zone.nodes)`), so an open version shares every node object with the published zone until
   _maybe_cow_with_name replaces it by a fresh copy; put_rdataset / delete_rdataset then mutate that object
   in place.  Rdataset objects are never mutated by this code (union / difference clone), so a node object
   is modelled as the list of rdataset values it holds. *)
Definition heap := list node.
Definition hmap := list (name * nat).

Fixpoint amap_get (m : hmap) (k : name) : option nat :=
  match m with
  | [] => None
  | (k', v) :: r => if name_eqb k' k then Some v else amap_get r k
  end.

Fixpoint amap_set (m : hmap) (k : name) (v : nat) : hmap :=
  match m with
  | [] => [(k, v)]
  | (k', v') :: r => if name_eqb k' k then (k', v) :: r else (k', v') :: amap_set r k v
  end.

Definition amap_has (m : hmap) (k : name) : bool :=
  match amap_get m k with Some _ => true | None => false end.

Fixpoint amap_remove (m : hmap) (k : name) : hmap :=
  match m with
  | [] => []
  | (k', v) :: r => if name_eqb k' k then amap_remove r k else (k', v) :: amap_remove r k
  end.

Definition amap_del (m : hmap) (k : name) : res hmap :=
  if amap_has m k then Ok (amap_remove m k) else Internal eKeyError.

(* the object with this id (ids held by a map always exist: Proofs/TxnHeap.v) *)
Definition hnode (h : heap) (id : nat) : node := nth id h [].

(* in-place mutation of one object *)
Fixpoint hset (h : heap) (id : nat) (nd : node) : heap :=
  match h, id with
  | [], _ => []
  | _ :: r, O => nd :: r
  | x :: r, Datatypes.S i => x :: hset r i nd
  end.

Record hver := mkHver { hv_heap : heap; hv_nodes : hmap; hv_changed : list name }.

Definition h_get_node (c : cfg) (v : hver) (n : name) : res (option node) :=
  do k <- validate_name c n;
  Ok (match amap_get (hv_nodes v) k with Some id => Some (hnode (hv_heap v) id) | None => None end).

Definition h_get_rdataset (c : cfg) (v : hver) (n : name) (ty cov : Z) : res (option rds) :=
  do on <- h_get_node c v n;
  Ok (match on with None => None | Some nd => node_find nd cIN ty cov end).

(* _maybe_cow_with_name: `new_node = node_factory(); new_node.rdatasets.extend(node.rdatasets)` *)
Definition h_maybe_cow (c : cfg) (v : hver) (n : name) : res (hver * nat * name) :=
  do k <- validate_name c n;
  let fresh := length (hv_heap v) in
  match amap_get (hv_nodes v) k with
  | Some id =>
      if changed_has (hv_changed v) k then Ok (v, id, k)
      else Ok (mkHver (hv_heap v ++ [hnode (hv_heap v) id]) (amap_set (hv_nodes v) k fresh)
                      (changed_add (hv_changed v) k), fresh, k)
  | None => Ok (mkHver (hv_heap v ++ [[]]) (amap_set (hv_nodes v) k fresh)
                       (changed_add (hv_changed v) k), fresh, k)
  end.

Definition h_put_rdataset (c : cfg) (v : hver) (n : name) (r : rds) : res hver :=
  do x <- h_maybe_cow c v n;
  let '(v1, id, k) := x in
  Ok (mkHver (hset (hv_heap v1) id (node_replace (hnode (hv_heap v1) id) r)) (hv_nodes v1) (hv_changed v1)).

Definition h_delete_rdataset (c : cfg) (v : hver) (n : name) (ty cov : Z) : res hver :=
  do x <- h_maybe_cow c v n;
  let '(v1, id, k) := x in
  let nd' := node_delete (hnode (hv_heap v1) id) cIN ty cov in
  let h' := hset (hv_heap v1) id nd' in
  match nd' with
  | [] => do m <- amap_del (hv_nodes v1) k; Ok (mkHver h' m (hv_changed v1))
  | _ => Ok (mkHver h' (hv_nodes v1) (hv_changed v1))
  end.

Definition h_delete_node (c : cfg) (v : hver) (n : name) : res hver :=
  do k <- validate_name c n;
  if amap_has (hv_nodes v) k
  then Ok (mkHver (hv_heap v) (amap_remove (hv_nodes v) k) (changed_add (hv_changed v) k))
  else Ok v.

(* the published zone is a map plus the objects it points to; a transaction that does not commit leaves
   both (the objects it allocated are garbage) *)
Definition hzone := (heap * hmap)%type.

Definition hstore (c : cfg) : store hzone hver := {|
  s_begin := fun z replacement => mkHver (fst z) (if replacement then [] else snd z) [];
  s_publish := fun v => (hv_heap v, hv_nodes v);
  s_get := h_get_rdataset c;
  s_put := h_put_rdataset c;
  s_del_name := h_delete_node c;
  s_del_rds := h_delete_rdataset c;
  s_exists := fun v n => do on <- h_get_node c v n; Ok (match on with Some _ => true | None => false end);
  s_node := h_get_node c;
  s_changed := fun v => match hv_changed v with [] => false | _ => true end;
  s_count := fun v => (zlen (hv_nodes v),
                       fold_right (fun kn acc => zlen (hnode (hv_heap v) (snd kn)) + acc) 0 (hv_nodes v))
|}.

Definition heap_hist (c : cfg) (h : list txnspec) (z : hzone) := run_hist (hstore c) c h z.

(* the value of a published object-level zone *)
Definition deref (z : hzone) : nmap := map (fun kn => (fst kn, hnode (fst z) (snd kn))) (snd z).

(* Zone.get_node(name) on the object level: the id of the node object *)
Definition hzone_node_id (c : cfg) (z : hzone) (n : name) : option nat :=
  match validate_name c n with
  | Ok k => amap_get (snd z) k
  | _ => None
  end.

(* ---------------------------------------------------------------- rdataset objects (second object level)
   Rdataset / ImmutableRdataset objects have identity too.  A node object holds references to rdataset
   objects (`node.rdatasets`); copy-on-write of a node copies the list (`new_node.rdatasets.extend(
   node.rdatasets)`), so the new node SHARES its rdataset objects with the published node; in a plain
   dns.zone.Zone these are ordinary mutable Rdatasets.  The transaction code therefore never edits an existing
   rdataset: Set.union / intersection / difference clone first (`_clone`) and apply the in-place
   *_update to the clone; `_add` first copies an ImmutableRdataset into a fresh Rdataset (`trds.update(existing)`).
   Here every such step is explicit: `ralloc` creates an object, `o_inplace` mutates one. *)
Record robj := mkRobj { ro_val : rds; ro_imm : bool }.
Definition rheap := list robj.
Definition robj0 := mkRobj (mkRds 0 0 0 0 []) false.

Definition rval (h : rheap) (id : nat) : rds := ro_val (nth id h robj0).
Definition rimm (h : rheap) (id : nat) : bool := ro_imm (nth id h robj0).
Definition ralloc (h : rheap) (v : rds) (imm : bool) : rheap * nat := (h ++ [mkRobj v imm], length h).

Fixpoint lset {A} (l : list A) (i : nat) (x : A) : list A :=
  match l, i with
  | [], _ => []
  | _ :: r, O => x :: r
  | y :: r, Datatypes.S j => y :: lset r j x
  end.

(* an in-place method (update_ttl / add / union_update / intersection_update / difference_update / update) on
   the object `id`; ImmutableRdataset raises TypeError("immutable") *)
Definition o_inplace (h : rheap) (id : nat) (f : rds -> rds) : res rheap :=
  if rimm h id then Internal eTypeError
  else Ok (lset h id (mkRobj (f (rval h id)) false)).

(* Set._clone: a new object of class _clone_class (Rdataset for both Rdataset and ImmutableRdataset) *)
Definition o_clone (h : rheap) (id : nat) : rheap * nat := ralloc h (rval h id) false.

(* Set.union / intersection / difference on object `a` (the other operand is only read): clone, update the
   clone in place; ImmutableRdataset wraps the result in a new ImmutableRdataset *)
Definition o_setop (f : rds -> rds) (h : rheap) (a : nat) : res (rheap * nat) :=
  let '(h1, cid) := o_clone h a in
  do h2 <- o_inplace h1 cid f;
  if rimm h a then Ok (ralloc h2 (rval h2 cid) true) else Ok (h2, cid).

Definition o_union (h : rheap) (a : nat) (other : rds) := o_setop (fun v => rds_union v other) h a.
Definition o_intersection (h : rheap) (a : nat) (other : rds) := o_setop (fun v => rds_intersection v other) h a.
Definition o_difference (h : rheap) (a : nat) (other : rds) := o_setop (fun v => rds_difference v other) h a.

(* node objects: lists of rdataset ids *)
Definition onode := list nat.

Fixpoint onode_find (rh : rheap) (nd : onode) (cls ty cov : Z) : option nat :=
  match nd with
  | [] => None
  | i :: t => if rds_match (rval rh i) cls ty cov then Some i else onode_find rh t cls ty cov
  end.

Fixpoint onode_delete (rh : rheap) (nd : onode) (cls ty cov : Z) : onode :=
  match nd with
  | [] => []
  | i :: t => if rds_match (rval rh i) cls ty cov then t else i :: onode_delete rh t cls ty cov
  end.

Definition onode_append (rh : rheap) (nd : onode) (rid : nat) : onode :=
  match nd with
  | [] => [rid]
  | _ =>
      match classify_rds (rval rh rid) with
      | KCname => filter (fun x => negb (nkind_eqb (classify_rds (rval rh x)) KRegular)) nd ++ [rid]
      | KRegular => filter (fun x => negb (nkind_eqb (classify_rds (rval rh x)) KCname)) nd ++ [rid]
      | KNeutral => nd ++ [rid]
      end
  end.

Definition onode_replace (rh : rheap) (nd : onode) (rid : nat) : onode :=
  let r := rval rh rid in
  onode_append rh (onode_delete rh nd (r_cls r) (r_ty r) (r_cov r)) rid.

Record over := mkOver { ov_rh : rheap; ov_nh : list onode; ov_nodes : hmap; ov_changed : list name }.

Definition onode_of (v : over) (nid : nat) : onode := nth nid (ov_nh v) [].
Definition with_rh (v : over) (rh : rheap) : over := mkOver rh (ov_nh v) (ov_nodes v) (ov_changed v).

Definition o_get_node (c : cfg) (v : over) (n : name) : res (option nat) :=
  do k <- validate_name c n; Ok (amap_get (ov_nodes v) k).

Definition o_get_rdataset (c : cfg) (v : over) (n : name) (ty cov : Z) : res (option nat) :=
  do on <- o_get_node c v n;
  Ok (match on with None => None | Some nid => onode_find (ov_rh v) (onode_of v nid) cIN ty cov end).

Definition o_maybe_cow (c : cfg) (v : over) (n : name) : res (over * nat * name) :=
  do k <- validate_name c n;
  let fresh := length (ov_nh v) in
  match amap_get (ov_nodes v) k with
  | Some nid =>
      if changed_has (ov_changed v) k then Ok (v, nid, k)
      else Ok (mkOver (ov_rh v) (ov_nh v ++ [onode_of v nid]) (amap_set (ov_nodes v) k fresh)
                      (changed_add (ov_changed v) k), fresh, k)
  | None => Ok (mkOver (ov_rh v) (ov_nh v ++ [[]]) (amap_set (ov_nodes v) k fresh)
                       (changed_add (ov_changed v) k), fresh, k)
  end.

Definition o_put_rdataset (c : cfg) (v : over) (n : name) (rid : nat) : res over :=
  do x <- o_maybe_cow c v n;
  let '(v1, nid, k) := x in
  Ok (mkOver (ov_rh v1) (lset (ov_nh v1) nid (onode_replace (ov_rh v1) (onode_of v1 nid) rid))
             (ov_nodes v1) (ov_changed v1)).

Definition o_delete_rdataset (c : cfg) (v : over) (n : name) (ty cov : Z) : res over :=
  do x <- o_maybe_cow c v n;
  let '(v1, nid, k) := x in
  let nd' := onode_delete (ov_rh v1) (onode_of v1 nid) cIN ty cov in
  let nh' := lset (ov_nh v1) nid nd' in
  match nd' with
  | [] => do m <- amap_del (ov_nodes v1) k; Ok (mkOver (ov_rh v1) nh' m (ov_changed v1))
  | _ => Ok (mkOver (ov_rh v1) nh' (ov_nodes v1) (ov_changed v1))
  end.

Definition o_delete_node (c : cfg) (v : over) (n : name) : res over :=
  do k <- validate_name c n;
  if amap_has (ov_nodes v) k
  then Ok (mkOver (ov_rh v) (ov_nh v) (amap_remove (ov_nodes v) k) (changed_add (ov_changed v) k))
  else Ok v.

(* Transaction._add on objects *)
Definition o_add (c : cfg) (replace : bool) (args : list arg) (v : over) : res over :=
  match args with
  | [] => Lib eTypeError
  | a :: rest =>
      do x <- add_parse a rest;
      let '(n, r, rest1) := x in
      if negb (r_cls r =? cIN) then Lib eValueError
      else if (r_ty r =? tSOA) && negb (origin_ok c n) then Lib eValueError
      else match rest1 with
           | _ :: _ => Lib eTypeError
           | [] =>
               (* the rdataset object handed over by the caller (or built by from_rdata / to_rdataset) *)
               let '(rh1, rid) := ralloc (ov_rh v) r false in
               let v1 := with_rh v rh1 in
               do y <- (if replace then Ok (v1, rid)
                        else
                          do ex <- o_get_rdataset c v1 n (r_ty r) (r_cov r);
                          match ex with
                          | None => Ok (v1, rid)
                          | Some e =>
                              (* if isinstance(existing, ImmutableRdataset): trds = Rdataset(...); trds.update(existing) *)
                              do z <- (if rimm rh1 e then
                                         let ev := rval rh1 e in
                                         let '(rh2, t) := ralloc rh1 (mkRds (r_cls ev) (r_ty ev) (r_cov ev) 0 []) false in
                                         do rh3 <- o_inplace rh2 t (fun tv => fold_left rds_add (r_items ev) (update_ttl tv (r_ttl ev)));
                                         Ok (rh3, t)
                                       else Ok (rh1, e));
                              let '(rh4, e') := z in
                              do u <- o_union rh4 e' (rval rh4 rid);
                              Ok (with_rh v (fst u), snd u)
                          end);
               o_put_rdataset c (fst y) n (snd y)
           end
  end.

Definition o_delete_common (c : cfg) (exact : bool) (n : name) (ord : option rds) (rest : list arg) (v : over) : res over :=
  match rest with
  | _ :: _ => Lib eTypeError
  | [] =>
      match ord with
      | Some (mkRds cls ty cov ttl (i :: items)) =>
          let r := mkRds cls ty cov ttl (i :: items) in
          if negb (cls =? cIN) then Lib eValueError
          else
            do ex <- o_get_rdataset c v n ty cov;
            match ex with
            | Some e =>
                do y <- (if exact then
                           do w <- o_intersection (ov_rh v) e r;
                           if negb (rds_eqb (rval (fst w) (snd w)) r) then Lib eDeleteNotExact else Ok (fst w)
                         else Ok (ov_rh v));
                do d <- o_difference y e r;
                let v2 := with_rh v (fst d) in
                let dv := rval (fst d) (snd d) in
                match r_items dv with
                | [] => o_delete_rdataset c v2 n (r_ty dv) (r_cov dv)
                | _ => o_put_rdataset c v2 n (snd d)
                end
            | None => if exact then Lib eDeleteNotExact else Ok v
            end
      | _ =>
          if exact then
            do on <- o_get_node c v n;
            match on with None => Lib eDeleteNotExact | Some _ => o_delete_node c v n end
          else o_delete_node c v n
      end
  end.

Definition o_delete_bytype (c : cfg) (exact : bool) (n : name) (t : arg) (rest1 : list arg) (v : over) : res over :=
  do ty <- make_type t;
  do x <- match rest1 with
          | [] => Ok (0, [])
          | c0 :: rest2 => do cv <- make_type c0; Ok (cv, rest2)
          end;
  let '(cov, rest2) := x in
  match rest2 with
  | _ :: _ => Lib eTypeError
  | [] =>
      do ex <- o_get_rdataset c v n ty cov;
      match ex with
      | None => if exact then Lib eDeleteNotExact else Ok v
      | Some _ => o_delete_rdataset c v n ty cov
      end
  end.

Definition o_delete (c : cfg) (exact : bool) (args : list arg) (v : over) : res over :=
  match args with
  | [] => Lib eTypeError
  | a :: rest =>
      match a with
      | AName n | AStr n =>
          match rest with
          | t :: rest1 =>
              if is_type_arg t then o_delete_bytype c exact n t rest1 v
              else do y <- rdataset_from_args true rest; o_delete_common c exact n (fst y) (snd y) v
          | [] => do y <- rdataset_from_args true rest; o_delete_common c exact n (fst y) (snd y) v
          end
      | ARRset n r => o_delete_common c exact n (Some r) rest v
      | _ => Lib eTypeError
      end
  end.

Definition o_write (f : over -> res over) (t : txn (S:=over)) : res (txn (S:=over)) :=
  if t_ended t then Lib eAlreadyEnded
  else if t_ro t then Lib eReadOnly
  else do s <- f (t_st t); Ok (mkTxn s (t_ro t) (t_ended t)).

Definition o_update_serial (c : cfg) (value : Z) (relative : bool) (nm : option arg) (t : txn (S:=over)) : res (txn (S:=over)) :=
  if t_ended t then Lib eAlreadyEnded
  else if value <? 0 then Lib eValueError
  else
    do n <- match nm with None => Ok NameM.empty | Some a => name_of_arg a end;
    do ex <- o_get_rdataset c (t_st t) n tSOA 0;
    match ex with
    | None => Lib eKeyError
    | Some e =>
        let ev := rval (ov_rh (t_st t)) e in
        match r_items ev with
        | [] => Lib eKeyError
        | (body, serial) :: _ =>
            do ser <- (if relative then serial_add serial value else Ok (value mod 4294967296));
            let ser := if ser =? 0 then 1 else ser in
            o_write (o_add c true [AName n; ARds (mkRds cIN tSOA 0 (r_ttl ev) [(body, ser)])]) t
        end
    end.

(* the published zone at this level *)
Definition ozone := (rheap * list onode * hmap)%type.

(* ImmutableVersion.__init__ (versioned and B-tree zones commit through it): every changed node still in the
   map is replaced by an ImmutableVersionedNode - a new node object holding new ImmutableRdataset objects *)
Fixpoint o_wrap_rdatasets (rh : rheap) (ids : list nat) : rheap * list nat :=
  match ids with
  | [] => (rh, [])
  | i :: r => let '(rh1, j) := ralloc rh (rval rh i) true in
              let '(rh2, js) := o_wrap_rdatasets rh1 r in (rh2, j :: js)
  end.

Fixpoint o_make_immutable (names : list name) (z : ozone) : ozone :=
  match names with
  | [] => z
  | k :: r =>
      let '(rh, nh, m) := z in
      match amap_get m k with
      | Some nid =>
          match nth nid nh [] with
          | [] => o_make_immutable r z                  (* `if node:` is false for an empty node *)
          | ids =>
              let '(rh1, ids') := o_wrap_rdatasets rh ids in
              o_make_immutable r (rh1, nh ++ [ids'], amap_set m k (length nh))
          end
      | None => o_make_immutable r z
      end
  end.

Definition o_publish (c : cfg) (v : over) : ozone :=
  if c_kind c =? 0 then (ov_rh v, ov_nh v, ov_nodes v)
  else o_make_immutable (ov_changed v) (ov_rh v, ov_nh v, ov_nodes v).

Definition o_begin (z : ozone) (replacement : bool) : over :=
  let '(rh, nh, m) := z in mkOver rh nh (if replacement then [] else m) [].

Definition o_changed (v : over) : bool := match ov_changed v with [] => false | _ => true end.

Definition o_end (c : cfg) (commit : bool) (z : ozone) (t : txn (S:=over)) : res (ozone * txn (S:=over)) :=
  if t_ended t then Lib eAlreadyEnded
  else
    let z' := if negb (t_ro t) && commit && o_changed (t_st t) then o_publish c (t_st t) else z in
    Ok (z', mkTxn (t_st t) (t_ro t) true).

Definition onode_val (v : over) (nid : nat) : node := map (rval (ov_rh v)) (onode_of v nid).

Definition o_step (c : cfg) (o : op) (z : ozone) (t : txn (S:=over)) : res (out * ozone * txn (S:=over)) :=
  match o with
  | OAdd a => do t' <- o_write (o_add c false a) t; Ok (RNone, z, t')
  | OReplace a => do t' <- o_write (o_add c true a) t; Ok (RNone, z, t')
  | ODelete a => do t' <- o_write (o_delete c false a) t; Ok (RNone, z, t')
  | ODeleteExact a => do t' <- o_write (o_delete c true a) t; Ok (RNone, z, t')
  | OSerial v r n => do t' <- o_update_serial c v r n t; Ok (RNone, z, t')
  | OGet a ty cov =>
      if t_ended t then Lib eAlreadyEnded
      else do n <- name_of_arg a; do ty' <- make_type (AInt ty); do cov' <- make_type (AInt cov);
           do r <- o_get_rdataset c (t_st t) n ty' cov';
           Ok (RRds (match r with Some i => Some (rval (ov_rh (t_st t)) i) | None => None end), z, t)
  | OExists a =>
      if t_ended t then Lib eAlreadyEnded
      else do n <- name_of_arg a; do on <- o_get_node c (t_st t) n;
           Ok (RBool (match on with Some _ => true | None => false end), z, t)
  | OChanged =>
      if t_ended t then Lib eAlreadyEnded
      else Ok (RBool (if t_ro t then false else o_changed (t_st t)), z, t)
  | OIter =>
      if t_ended t then Lib eAlreadyEnded
      else Ok (RPair (zlen (ov_nodes (t_st t)))
                     (fold_right (fun kn acc => zlen (onode_of (t_st t) (snd kn)) + acc) 0 (ov_nodes (t_st t))), z, t)
  | OGetNode a =>
      if t_ended t then Lib eAlreadyEnded
      else do n <- name_of_arg a; do on <- o_get_node c (t_st t) n;
           Ok (RNode (match on with Some nid => Some (onode_val (t_st t) nid) | None => None end), z, t)
  | OCommit => do x <- o_end c true z t; Ok (RNone, fst x, snd x)
  | ORollback => do x <- o_end c false z t; Ok (RNone, fst x, snd x)
  end.

Definition o_exit (c : cfg) (clean : bool) (z : ozone) (t : txn (S:=over)) : ozone :=
  match o_end c clean z t with
  | Ok (z', _) => z'
  | _ => z
  end.

Fixpoint o_run_manual (c : cfg) (ops : list op) (z : ozone) (t : txn (S:=over)) : list (res out) * ozone :=
  match ops with
  | [] => ([], o_exit c false z t)
  | o :: r =>
      match o_step c o z t with
      | Ok (x, z', t') => let '(outs, zf) := o_run_manual c r z' t' in (Ok x :: outs, zf)
      | Lib e => let '(outs, zf) := o_run_manual c r z t in (Lib e :: outs, zf)
      | Internal e => let '(outs, zf) := o_run_manual c r z t in (Internal e :: outs, zf)
      end
  end.

Fixpoint o_run_with (c : cfg) (ops : list op) (fault : option nat) (z : ozone) (t : txn (S:=over)) : list (res out) * ozone :=
  match fault with
  | Some O => ([Lib eInjected], o_exit c false z t)
  | _ =>
      match ops with
      | [] => match fault with
              | Some _ => ([Lib eInjected], o_exit c false z t)
              | None => ([], o_exit c true z t)
              end
      | o :: r =>
          match o_step c o z t with
          | Ok (x, z', t') =>
              let '(outs, zf) := o_run_with c r (match fault with Some (Datatypes.S k) => Some k | _ => None end) z' t' in
              (Ok x :: outs, zf)
          | Lib e => ([Lib e], o_exit c false z t)
          | Internal e => ([Internal e], o_exit c false z t)
          end
      end
  end.

Definition o_open (mode : Z) (z : ozone) : txn (S:=over) :=
  if mode =? 2 then mkTxn (o_begin z false) true false
  else mkTxn (o_begin z (mode =? 1)) false false.

Definition o_run_txn (c : cfg) (x : txnspec) (z : ozone) : list (res out) * ozone :=
  if x_style x =? 1 then o_run_with c (x_ops x) (x_fault x) z (o_open (x_mode x) z)
  else o_run_manual c (x_ops x) z (o_open (x_mode x) z).

Fixpoint obj_hist (c : cfg) (h : list txnspec) (z : ozone) : list (list (res out) * ozone) :=
  match h with
  | [] => []
  | x :: r => let '(outs, z') := o_run_txn c x z in (outs, z') :: obj_hist c r z'
  end.

(* the value of a published object-level zone *)
Definition oderef (z : ozone) : nmap :=
  let '(rh, nh, m) := z in map (fun kn => (fst kn, map (rval rh) (nth (snd kn) nh []))) m.

Definition ozone_node_id (c : cfg) (z : ozone) (n : name) : option nat :=
  match validate_name c n with
  | Ok k => amap_get (snd z) k
  | _ => None
  end.

(* ---------------------------------------------------------------- the B-tree zone's WritableVersion
   dns.btreezone.WritableVersion overrides _maybe_cow_with_name / put_rdataset / delete_rdataset / delete_node
   to maintain node flags (ORIGIN, DELEGATION, GLUE) and a delegation index, and update_glue_flag re-creates
   (copy-on-write) the nodes beneath a cut.  A fourth store instance with exactly this bookkeeping; that it
   leaves the *content* alone is a theorem (Proofs/TxnBtree.v), and its flags are compared with the real
   B-tree zone on every run.  The node map is kept in canonical order (BTreeDict), which is what the
   cursor walk of update_glue_flag relies on. *)
Definition fORIGIN := 1. Definition fDELEGATION := 2. Definition fGLUE := 4.
Definition tNS := 2.

Record bnode := mkBn { bn_flags : Z; bn_rds : node }.
Definition bmap := list (name * bnode).

Fixpoint bmap_get (m : bmap) (k : name) : option bnode :=
  match m with
  | [] => None
  | (k', v) :: r => if name_eqb k' k then Some v else bmap_get r k
  end.

(* insertion keeps the canonical order of the keys *)
Fixpoint bmap_set (m : bmap) (k : name) (v : bnode) : bmap :=
  match m with
  | [] => [(k, v)]
  | (k', v') :: r =>
      if name_eqb k' k then (k', v) :: r
      else if order k k' <? 0 then (k, v) :: (k', v') :: r
      else (k', v') :: bmap_set r k v
  end.

Fixpoint bmap_remove (m : bmap) (k : name) : bmap :=
  match m with
  | [] => []
  | (k', v) :: r => if name_eqb k' k then bmap_remove r k else (k', v) :: bmap_remove r k
  end.

Definition bmap_del (m : bmap) (k : name) : res bmap :=
  match bmap_get m k with Some _ => Ok (bmap_remove m k) | None => Internal eKeyError end.

Definition deleg_has (d : list name) (k : name) : bool := existsb (fun x => name_eqb x k) d.
Definition deleg_add (d : list name) (k : name) : list name := if deleg_has d k then d else d ++ [k].
Definition deleg_discard (d : list name) (k : name) : list name := filter (fun x => negb (name_eqb x k)) d.

(* Delegations.get_delegation: the greatest delegation point <= name (cursor.seek(name, before=False); prev) *)
Definition deleg_pred (d : list name) (n : name) : option name :=
  fold_left (fun best e => if order e n <=? 0
                           then match best with
                                | None => Some e
                                | Some b => if order b e <? 0 then Some e else best
                                end
                           else best) d None.

Definition deleg_is_glue (d : list name) (n : name) : bool :=
  match deleg_pred d n with
  | Some cut => reln n cut =? rSUB
  | None => false
  end.

Record bver := mkBver { bv_nodes : bmap; bv_deleg : list name; bv_changed : list name }.

Definition b_is_origin (c : cfg) (k : name) : bool :=
  if c_rel c then name_eqb k NameM.empty else name_eqb k (c_origin c).

Definition b_get_node (c : cfg) (v : bver) (n : name) : res (option node) :=
  do k <- validate_name c n;
  Ok (match bmap_get (bv_nodes v) k with Some bn => Some (bn_rds bn) | None => None end).

Definition b_get_rdataset (c : cfg) (v : bver) (n : name) (ty cov : Z) : res (option rds) :=
  do on <- b_get_node c v n;
  Ok (match on with None => None | Some nd => node_find nd cIN ty cov end).

(* _maybe_cow_with_name: the base class copies (a new node has no flags), then the flags are re-derived *)
Definition b_maybe_cow (c : cfg) (v : bver) (n : name) : res (bver * bnode * name) :=
  do k <- validate_name c n;
  let '(nodes1, changed1, nd) :=
    match bmap_get (bv_nodes v) k with
    | Some bn =>
        if changed_has (bv_changed v) k then (bv_nodes v, bv_changed v, bn)
        else (bmap_set (bv_nodes v) k (mkBn 0 (bn_rds bn)), changed_add (bv_changed v) k, mkBn 0 (bn_rds bn))
    | None => (bmap_set (bv_nodes v) k (mkBn 0 []), changed_add (bv_changed v) k, mkBn 0 [])
    end in
  let fl := bn_flags nd in
  let fl' := if b_is_origin c k then Z.lor fl fORIGIN
             else if deleg_is_glue (bv_deleg v) k then Z.lor fl fGLUE
             else if deleg_has (bv_deleg v) k then Z.lor fl fDELEGATION
             else fl in
  let nd' := mkBn fl' (bn_rds nd) in
  Ok (mkBver (bmap_set nodes1 k nd') (bv_deleg v) changed1, nd', k).

Fixpoint drop_upto (n : name) (m : bmap) : bmap :=
  match m with
  | [] => []
  | (k, v) :: r => if order k n <=? 0 then drop_upto n r else m
  end.

(* the loop of update_glue_flag over the entries after `name` while they are subdomains of it *)
Fixpoint ugf_loop (n : name) (is_glue : bool) (after : bmap) (exposed : option name)
         (deleg : list name) (changed : list name) (updates : list (name * bnode))
  : list name * list name * list (name * bnode) :=
  match after with
  | [] => (deleg, changed, updates)
  | (ename, bn) :: r =>
      if negb (is_subdomain ename n) then (deleg, changed, updates)
      else
        let '(bn1, changed1) := if changed_has changed ename then (bn, changed)
                                else (mkBn 0 (bn_rds bn), changed_add changed ename) in
        if is_glue then
          ugf_loop n is_glue r exposed (deleg_discard deleg ename) changed1 (updates ++ [(ename, mkBn fGLUE (bn_rds bn1))])
        else if match exposed with Some x => is_subdomain ename x | None => false end then
          ugf_loop n is_glue r exposed deleg changed1 (updates ++ [(ename, mkBn fGLUE (bn_rds bn1))])
        else match node_find (bn_rds bn1) cIN tNS 0 with
             | Some _ => ugf_loop n is_glue r (Some ename) (deleg_add deleg ename) changed1
                                  (updates ++ [(ename, mkBn fDELEGATION (bn_rds bn1))])
             | None => ugf_loop n is_glue r exposed deleg changed1 (updates ++ [(ename, mkBn 0 (bn_rds bn1))])
             end
  end.

Definition b_update_glue (v : bver) (n : name) (is_glue : bool) : bver :=
  let '(deleg, changed, updates) := ugf_loop n is_glue (drop_upto n (bv_nodes v)) None (bv_deleg v) (bv_changed v) [] in
  mkBver (fold_left (fun m kn => bmap_set m (fst kn) (snd kn)) updates (bv_nodes v)) deleg changed.

Definition b_put_rdataset (c : cfg) (v : bver) (n : name) (r : rds) : res bver :=
  do x <- b_maybe_cow c v n;
  let '(v1, nd, k) := x in
  let '(v2, fl) :=
    if (r_ty r =? tNS) && (Z.land (bn_flags nd) (Z.lor fORIGIN fGLUE) =? 0) then
      let fl := Z.lor (bn_flags nd) fDELEGATION in
      if deleg_has (bv_deleg v1) k then (v1, fl)
      else (b_update_glue (mkBver (bv_nodes v1) (deleg_add (bv_deleg v1) k) (bv_changed v1)) k true, fl)
    else (v1, bn_flags nd) in
  let rds' := node_replace (bn_rds nd) r in
  (* replace_rdataset may have evicted the NS rdataset (a CNAME replaces all other data): the node
     then stops being a delegation point, as in delete_rdataset *)
  if negb (Z.land fl fDELEGATION =? 0) && (match node_find rds' cIN tNS 0 with None => true | Some _ => false end) then
    Ok (b_update_glue (mkBver (bmap_set (bv_nodes v2) k (mkBn (Z.ldiff fl fDELEGATION) rds'))
                              (deleg_discard (bv_deleg v2) k) (bv_changed v2)) k false)
  else Ok (mkBver (bmap_set (bv_nodes v2) k (mkBn fl rds')) (bv_deleg v2) (bv_changed v2)).

Definition b_delete_rdataset (c : cfg) (v : bver) (n : name) (ty cov : Z) : res bver :=
  do x <- b_maybe_cow c v n;
  let '(v1, nd, k) := x in
  let '(v2, fl) :=
    if (ty =? tNS) && deleg_has (bv_deleg v1) k then
      (b_update_glue (mkBver (bv_nodes v1) (deleg_discard (bv_deleg v1) k) (bv_changed v1)) k false,
       Z.ldiff (bn_flags nd) fDELEGATION)
    else (v1, bn_flags nd) in
  let rds' := node_delete (bn_rds nd) cIN ty cov in
  match rds' with
  | [] => do m <- bmap_del (bv_nodes v2) k; Ok (mkBver m (bv_deleg v2) (bv_changed v2))
  | _ => Ok (mkBver (bmap_set (bv_nodes v2) k (mkBn fl rds')) (bv_deleg v2) (bv_changed v2))
  end.

Definition b_delete_node (c : cfg) (v : bver) (n : name) : res bver :=
  do k <- validate_name c n;
  match bmap_get (bv_nodes v) k with
  | Some bn =>
      let v2 := if Z.land (bn_flags bn) fDELEGATION =? 0 then v
                else b_update_glue (mkBver (bv_nodes v) (deleg_discard (bv_deleg v) k) (bv_changed v)) k false in
      Ok (mkBver (bmap_remove (bv_nodes v2) k) (bv_deleg v2) (changed_add (bv_changed v2) k))
  | None => Ok v
  end.

Definition bzone := (bmap * list name)%type.

Definition bstore (c : cfg) : store bzone bver := {|
  s_begin := fun z replacement => if replacement then mkBver [] [] [] else mkBver (fst z) (snd z) [];
  s_publish := fun v => (bv_nodes v, bv_deleg v);
  s_get := b_get_rdataset c;
  s_put := b_put_rdataset c;
  s_del_name := b_delete_node c;
  s_del_rds := b_delete_rdataset c;
  s_exists := fun v n => do on <- b_get_node c v n; Ok (match on with Some _ => true | None => false end);
  s_node := b_get_node c;
  s_changed := fun v => match bv_changed v with [] => false | _ => true end;
  s_count := fun v => (zlen (bv_nodes v), fold_right (fun kn acc => zlen (bn_rds (snd kn)) + acc) 0 (bv_nodes v))
|}.

Definition btree_hist (c : cfg) (h : list txnspec) (z : bzone) := run_hist (bstore c) c h z.

Definition bzone_node (c : cfg) (z : bzone) (n : name) : option bnode :=
  match validate_name c n with
  | Ok k => bmap_get (fst z) k
  | _ => None
  end.

(* ---------------------------------------------------------------- check_put_rdataset / check_delete_* hooks
   Transaction._checked_put_rdataset / _checked_delete_rdataset / _checked_delete_name call the registered
   check functions before the low-level operation; a check objects by raising.  Checks may make non-mutating
   transaction calls.  They sit exactly between the front end and the store, so they are modelled as a store
   transformer: every theorem about an arbitrary store holds with checks installed.  The check functions
   themselves are data (the harness registers the same ones on the real transaction). *)
Definition eHookVeto := 40.

Inductive hook :=
| HRejectType (ty : Z)          (* objects when the rdataset / deleted type is ty *)
| HRejectTtlAbove (ttl : Z)     (* objects when the rdataset to be stored has a larger TTL *)
| HRejectName (n : name)        (* objects when the name argument equals n (as given, no validation) *)
| HNeedsType (ty : Z).          (* calls txn.get(name, ty): objects unless the name already has that type *)

Record hooks := mkHooks { hk_put : list hook; hk_del_rds : list hook; hk_del_name : list hook }.

Section Hooked.
  Context {P S : Type}.
  Variable st : store P S.

  Definition run_hook (s : S) (n : name) (ty ttl : Z) (h : hook) : res unit :=
    match h with
    | HRejectType t => if ty =? t then Lib eHookVeto else Ok tt
    | HRejectTtlAbove x => if ttl >? x then Lib eHookVeto else Ok tt
    | HRejectName m => if name_eqb n m then Lib eHookVeto else Ok tt
    | HNeedsType t => do r <- s_get st s n t 0; match r with Some _ => Ok tt | None => Lib eHookVeto end
    end.

  Fixpoint run_hooks (l : list hook) (s : S) (n : name) (ty ttl : Z) : res unit :=
    match l with
    | [] => Ok tt
    | h :: r => do _ <- run_hook s n ty ttl h; run_hooks r s n ty ttl
    end.

  Definition hooked (hk : hooks) : store P S := {|
    s_begin := s_begin st;
    s_publish := s_publish st;
    s_get := s_get st;
    s_put := fun s n r => do _ <- run_hooks (hk_put hk) s n (r_ty r) (r_ttl r); s_put st s n r;
    s_del_name := fun s n => do _ <- run_hooks (hk_del_name hk) s n 0 0; s_del_name st s n;
    s_del_rds := fun s n ty cov => do _ <- run_hooks (hk_del_rds hk) s n ty 0; s_del_rds st s n ty cov;
    s_exists := s_exists st;
    s_node := s_node st;
    s_changed := s_changed st;
    s_count := s_count st
  |}.
End Hooked.

(* ---------------------------------------------------------------- harness interface *)
Definition obs_of_rdata (x : rdata) : obs := L [I (fst x); I (snd x)].
Definition obs_of_rds (r : rds) : obs := L [I (r_ty r); I (r_cov r); I (r_ttl r); L (map obs_of_rdata (r_items r))].
Definition obs_of_node (n : node) : obs := L (map obs_of_rds n).

Definition obs_of_out (r : res out) : obs :=
  match r with
  | Ok RNone => N
  | Ok (RBool b) => ob b
  | Ok (RRds None) => N
  | Ok (RRds (Some r)) => obs_of_rds r
  | Ok (RNode None) => N
  | Ok (RNode (Some n)) => obs_of_node n
  | Ok (RPair a b) => L [I a; I b]
  | Lib e => E e
  | Internal e => E e
  end.

Fixpoint items_of_obs (l : list obs) : option (list rdata) :=
  match l with
  | [] => Some []
  | L [I b; I a] :: r => match items_of_obs r with Some t => Some ((b, a) :: t) | None => None end
  | _ => None
  end.

Definition rds_of_obs (o : obs) : option rds :=
  match o with
  | L [I ty; I cov; I ttl; L items; I cls] =>
      match items_of_obs items with Some l => Some (mkRds cls ty cov ttl l) | None => None end
  | _ => None
  end.

Definition arg_of_obs (o : obs) : option arg :=
  match o with
  | L [I 0; L n] => match name_of_obs n with Some n => Some (AName n) | None => None end
  | L [I 1; L n] => match name_of_obs n with Some n => Some (AStr n) | None => None end
  | L [I 2; r] => match rds_of_obs r with Some r => Some (ARds r) | None => None end
  | L [I 3; L n; r] => match name_of_obs n, rds_of_obs r with
                       | Some n, Some r => Some (ARRset n r) | _, _ => None end
  | L [I 4; I z] => Some (AInt z)
  | L [I 5; L [I ty; I _; I body; I aux; I cls]] => Some (ARdata ty body aux cls)
  | L [I 6; I ty] => Some (ATyStr ty)
  | L [I 7] => Some ANone
  | _ => None
  end.

Fixpoint args_of_obs (l : list obs) : option (list arg) :=
  match l with
  | [] => Some []
  | a :: r => match arg_of_obs a, args_of_obs r with
              | Some a, Some r => Some (a :: r) | _, _ => None end
  end.

Definition op_of_obs (o : obs) : option op :=
  match o with
  | L [I 1; L a] => option_map OAdd (args_of_obs a)
  | L [I 2; L a] => option_map OReplace (args_of_obs a)
  | L [I 3; L a] => option_map ODelete (args_of_obs a)
  | L [I 4; L a] => option_map ODeleteExact (args_of_obs a)
  | L [I 5; I v; I r; N] => Some (OSerial v (r =? 1) None)
  | L [I 5; I v; I r; a] => option_map (fun a => OSerial v (r =? 1) (Some a)) (arg_of_obs a)
  | L [I 6; a; I ty; I cov] => option_map (fun a => OGet a ty cov) (arg_of_obs a)
  | L [I 6; a; I ty; I cov; I _] => option_map (fun a => OGet a ty cov) (arg_of_obs a)   (* rdtype / covers given as text *)
  | L [I 7; a] => option_map OExists (arg_of_obs a)
  | L [I 8] => Some OChanged
  | L [I 9] => Some OIter
  | L [I 10; a] => option_map OGetNode (arg_of_obs a)
  | L [I 11] => Some OCommit
  | L [I 12] => Some ORollback
  | _ => None
  end.

Fixpoint ops_of_obs (l : list obs) : option (list op) :=
  match l with
  | [] => Some []
  | a :: r => match op_of_obs a, ops_of_obs r with
              | Some a, Some r => Some (a :: r) | _, _ => None end
  end.

Definition spec_of_obs (o : obs) : option txnspec :=
  match o with
  | L [I mode; I style; L ops; I fault] =>
      option_map (fun ops => mkSpec mode style ops (if fault <? 0 then None else Some (Z.to_nat fault)))
                 (ops_of_obs ops)
  | _ => None
  end.

Fixpoint hist_of_obs (l : list obs) : option (list txnspec) :=
  match l with
  | [] => Some []
  | a :: r => match spec_of_obs a, hist_of_obs r with
              | Some a, Some r => Some (a :: r) | _, _ => None end
  end.

Definition obs_of_probe (c : cfg) (z : nmap) (p : name) : obs :=
  match zone_get_node c z p with Some n => obs_of_node n | None => N end.

(* is the node object of this name the same object as before the transaction? *)
Definition obs_of_identity (c : cfg) (before after : hzone) (p : name) : obs :=
  match hzone_node_id c before p, hzone_node_id c after p with
  | Some i, Some j => ob (Nat.eqb i j)
  | _, _ => N
  end.

Definition obs_of_txn (c : cfg) (probes : list name) (x : list (res out) * nmap) : obs :=
  L [L (map obs_of_out (fst x)); L [I (zlen (snd x)); L (map (obs_of_probe c (snd x)) probes)]].

Fixpoint obs_of_htxns (c : cfg) (probes : list name) (before : hzone) (l : list (list (res out) * hzone)) : list obs :=
  match l with
  | [] => []
  | x :: r =>
      L [L (map obs_of_out (fst x));
         L [I (zlen (snd (snd x))); L (map (obs_of_probe c (deref (snd x))) probes)];
         L (map (obs_of_identity c before (snd x)) probes)]
      :: obs_of_htxns c probes (snd x) r
  end.

Fixpoint drop_identity (l : list obs) : list obs :=
  match l with
  | [] => []
  | L [a; b; _] :: r => L [a; b] :: drop_identity r
  | x :: r => x :: drop_identity r
  end.

Definition eModelsDisagree := 998.

(* rdataset objects of the node of p after the transaction: same object as the rdataset of the same
   (type, covers) in the node before the transaction?  immutable? *)
Definition obs_of_rds_identity (c : cfg) (before after : ozone) (p : name) : obs :=
  match ozone_node_id c after p with
  | None => N
  | Some j =>
      let '(rha, nha, _) := after in
      let '(rhb, nhb, _) := before in
      let bnode := match ozone_node_id c before p with Some i => nth i nhb [] | None => [] end in
      L (map (fun rid =>
                let r := rval rha rid in
                L [match onode_find rhb bnode (r_cls r) (r_ty r) (r_cov r) with
                   | Some old => ob (Nat.eqb old rid)
                   | None => N
                   end;
                   ob (rimm rha rid)])
             (nth j nha []))
  end.

Definition obs_of_onode_identity (c : cfg) (before after : ozone) (p : name) : obs :=
  match ozone_node_id c before p, ozone_node_id c after p with
  | Some i, Some j => ob (Nat.eqb i j)
  | _, _ => N
  end.

Fixpoint obs_of_otxns (c : cfg) (probes : list name) (before : ozone) (l : list (list (res out) * ozone)) : list obs :=
  match l with
  | [] => []
  | x :: r =>
      L [L (map obs_of_out (fst x));
         L [I (zlen (snd (snd x))); L (map (obs_of_probe c (oderef (snd x))) probes)];
         L (map (obs_of_onode_identity c before (snd x)) probes);
         L (map (obs_of_rds_identity c before (snd x)) probes)]
      :: obs_of_otxns c probes (snd x) r
  end.

Fixpoint drop_rds_identity (l : list obs) : list obs :=
  match l with
  | [] => []
  | L [a; b; i; _] :: r => L [a; b; i] :: drop_rds_identity r
  | x :: r => x :: drop_rds_identity r
  end.

Definition obs_of_bprobe (c : cfg) (z : bzone) (p : name) : obs :=
  match bzone_node c z p with Some bn => obs_of_node (bn_rds bn) | None => N end.

Definition obs_of_bflags (c : cfg) (z : bzone) (p : name) : obs :=
  match bzone_node c z p with Some bn => I (bn_flags bn) | None => N end.

Definition obs_of_btxn (c : cfg) (probes : list name) (x : list (res out) * bzone) : obs :=
  L [L (map obs_of_out (fst x)); L [I (zlen (fst (snd x))); L (map (obs_of_bprobe c (snd x)) probes)]].

(* append the node flags of the B-tree model to the observation of every transaction *)
Fixpoint add_flags (c : cfg) (probes : list name) (l : list obs) (b : list (list (res out) * bzone)) : list obs :=
  match l, b with
  | L xs :: r, x :: rb => L (xs ++ [L (map (obs_of_bflags c (snd x)) probes)]) :: add_flags c probes r rb
  | _, _ => l
  end.

(* All implementation models are evaluated on every case.  The rdataset-object model gives the
   observation (results, zone content, node-object identities, rdataset-object identities and mutability);
   the node-object model must agree on results, content and node identities, the value-level model (the one
   `refines` is about) on results and content, and - for a B-tree zone - the B-tree model (flags, delegation
   index, glue bookkeeping) on results and content too; it contributes the node flags to the observation.
   The reference store of `refines` is evaluated as well and must give the same result for every call.
   Otherwise the case is reported as a disagreement. *)
Definition run_case (kind rel : Z) (origin probes hist : list obs) (idobs : bool) : obs :=
  match name_of_obs origin, names_of_obs probes, hist_of_obs hist with
  | Some origin, Some probes, Some h =>
      let c := mkCfg kind (rel =? 1) origin in
      let oo := obs_of_otxns c probes ([], [], []) (obj_hist c h ([], [], [])) in
      let oh := obs_of_htxns c probes ([], []) (heap_hist c h ([], [])) in
      let ov := map (obs_of_txn c probes) (impl_hist c h []) in
      let bh := if kind =? 2 then btree_hist c h ([], []) else [] in
      let results_of {Z0} (l : list (list (res out) * Z0)) := L (map (fun x => L (map obs_of_out (fst x))) l) in
      if obs_eqb (L (drop_rds_identity oo)) (L oh) && obs_eqb (L (drop_identity oh)) (L ov)
         && (if kind =? 2 then obs_eqb (L (map (obs_of_btxn c probes) bh)) (L ov) else true)
         && obs_eqb (results_of (spec_hist c h [])) (results_of (impl_hist c h []))   (* the reference store, too *)
      then
        let base := if idobs then oo else drop_identity oh in
        L (if kind =? 2 then add_flags c probes base bh else base)
      else E eModelsDisagree
  | _, _, _ => E eBadCase
  end.

(* cfg = [kind; relativize; origin] or [kind; relativize; origin; identity observed?].  Identity is not
   observed for B-tree zones whose history touches NS records: btreezone's delegation / glue bookkeeping
   re-creates the node objects below a cut to update their flags. *)
Definition hook_of_obs (o : obs) : option hook :=
  match o with
  | L [I 0; I ty] => Some (HRejectType ty)
  | L [I 1; I ttl] => Some (HRejectTtlAbove ttl)
  | L [I 2; L n] => option_map HRejectName (name_of_obs n)
  | L [I 3; I ty] => Some (HNeedsType ty)
  | _ => None
  end.

Fixpoint hooklist_of_obs (l : list obs) : option (list hook) :=
  match l with
  | [] => Some []
  | a :: r => match hook_of_obs a, hooklist_of_obs r with
              | Some a, Some r => Some (a :: r) | _, _ => None end
  end.

Definition hooks_of_obs (o : obs) : option hooks :=
  match o with
  | L [L a; L b; L d] =>
      match hooklist_of_obs a, hooklist_of_obs b, hooklist_of_obs d with
      | Some a, Some b, Some d => Some (mkHooks a b d)
      | _, _, _ => None
      end
  | _ => None
  end.

(* a history with check functions registered on every transaction: value-level, node-object and (B-tree zone)
   B-tree models with the checks installed must agree; the observation is results + content *)
Definition run_hooked (kind rel : Z) (origin probes hist : list obs) (hko : obs) : obs :=
  match name_of_obs origin, names_of_obs probes, hist_of_obs hist, hooks_of_obs hko with
  | Some origin, Some probes, Some h, Some hk =>
      let c := mkCfg kind (rel =? 1) origin in
      let ov := map (obs_of_txn c probes) (run_hist (hooked (zstore c) hk) c h []) in
      let oh := obs_of_htxns c probes ([], []) (run_hist (hooked (hstore c) hk) c h ([], [])) in
      let ob := if kind =? 2 then map (obs_of_btxn c probes) (run_hist (hooked (bstore c) hk) c h ([], [])) else ov in
      if obs_eqb (L (drop_identity oh)) (L ov) && obs_eqb (L ob) (L ov) then L ov else E eModelsDisagree
  | _, _, _, _ => E eBadCase
  end.

Definition run (o : obs) : obs :=
  match o with
  | L [L [I kind; I rel; L origin; I _]; L probes; L hist; hk] => run_hooked kind rel origin probes hist hk
  | L [L [I kind; I rel; L origin]; L probes; L hist] => run_case kind rel origin probes hist true
  | L [L [I kind; I rel; L origin; I idobs]; L probes; L hist] => run_case kind rel origin probes hist (idobs =? 1)
  (* a 5th cfg element: the branching parameter t of the B-tree holding the node map (harness only: the
     balancing of the map is invisible at the level of content and identity of nodes) *)
  | L [L [I kind; I rel; L origin; I idobs; I _]; L probes; L hist] => run_case kind rel origin probes hist (idobs =? 1)
  | _ => E eBadCase
  end.
