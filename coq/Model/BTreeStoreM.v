(* C19 - store-level model of dns/btree.py: nodes live in a store (id -> node), every node
   carries the creator tag of the BTree that made it, in-place mutation is a store write,
   maybe_cow / maybe_cow_child / clone / BTree(original=) allocate.  Same algorithms as
   Model/BTreeM.v, statement by statement in the Python order (so that aliasing, if there were
   any, would behave as in Python).  Definitions only.  Ids are allocation serial numbers: the
   harness numbers the real _Node objects in creation order and compares. *)
From DV Require Import Base.Prelude Model.BTreeM.

Record snode := mkS { s_cr : nat; s_leaf : bool; s_elts : list elt; s_kids : list nat }.
Definition store := list snode.

Definition sget (s : store) (id : nat) : res snode :=
  match nth_error s id with Some n => Ok n | None => Internal eIndex end.
Definition sset (s : store) (id : nat) (n : snode) : store := set_nth id n s.
Definition alloc (s : store) (n : snode) : store * nat := (s ++ [n], length s).

Definition w_elts (n : snode) (es : list elt) : snode := mkS (s_cr n) (s_leaf n) es (s_kids n).
Definition w_kids (n : snode) (ks : list nat) : snode := mkS (s_cr n) (s_leaf n) (s_elts n) ks.

(* read-modify-write of one node *)
Definition upd (s : store) (id : nat) (f : snode -> snode) : res store :=
  do n <- sget s id; Ok (sset s id (f n)).

Definition eForeign : Z := 997.

Definition is_maximal_l (t l : nat) : res bool :=
  if (t_max t <? l)%nat then Internal eAssert else Ok (l =? t_max t)%nat.
Definition is_minimal_l (t l : nat) : res bool :=
  if (l <? t_min t)%nat then Internal eAssert else Ok (l =? t_min t)%nat.

(* _Node.maybe_cow / clone: returns the id to use (the old one when already owned) *)
Definition s_maybe_cow (s : store) (id c : nat) : res (store * nat) :=
  do n <- sget s id;
  if (s_cr n =? c)%nat then Ok (s, id)
  else Ok (alloc s (mkS c (s_leaf n) (s_elts n) (if s_leaf n then [] else s_kids n))).

Definition s_maybe_cow_child (s : store) (pid index : nat) : res (store * nat) :=
  do p <- sget s pid;
  if s_leaf p then Internal eAssert
  else
    do (ka, cid, kb) <- split_at index (s_kids p);
    do (s1, cid') <- s_maybe_cow s cid (s_cr p);
    if (cid' =? cid)%nat then Ok (s1, cid)
    else do s2 <- upd s1 pid (fun p => w_kids p (ka ++ cid' :: kb)); Ok (s2, cid').

(* split(): right is allocated first, then self is cut *)
Definition s_split (t : nat) (s : store) (id : nat) : res (store * elt * nat) :=
  do n <- sget s id;
  do mx <- is_maximal_l t (length (s_elts n));
  if negb mx then Internal eAssert
  else
    let m := t_min t in
    let '(s1, rid) := alloc s (mkS (s_cr n) (s_leaf n) (skipn (S m) (s_elts n))
                                 (if s_leaf n then [] else skipn (S m) (s_kids n))) in
    match nth_error (s_elts n) m with
    | None => Internal eIndex
    | Some mid =>
        do s2 <- upd s1 id (fun n => mkS (s_cr n) (s_leaf n) (firstn m (s_elts n))
                                       (if s_leaf n then s_kids n else firstn (S m) (s_kids n)));
        Ok (s2, mid, rid)
    end.

Definition s_adopt (t : nat) (s : store) (pid lid : nat) (mid : elt) (rid : nat) : res store :=
  do p <- sget s pid;
  do mx <- is_maximal_l t (length (s_elts p));
  if mx then Internal eAssert
  else if s_leaf p then Internal eAssert
  else
    do (i, eq) <- search (fst mid) (s_elts p);
    if eq then Internal eAssert
    else
      match s_kids p with
      | [] => Ok (sset s pid (mkS (s_cr p) (s_leaf p) (insert_at i mid (s_elts p)) [lid; rid]))
      | _ =>
          match nth_error (s_kids p) i with
          | None => Internal eIndex
          | Some x =>
              if (x =? lid)%nat
              then Ok (sset s pid (mkS (s_cr p) (s_leaf p) (insert_at i mid (s_elts p)) (insert_at (S i) rid (s_kids p))))
              else Internal eAssert
          end
      end.

Definition s_try_left_steal (t : nat) (s : store) (selfid pid index : nat) : res (store * bool) :=
  match index with
  | O => Ok (s, false)
  | S im =>
      do p <- sget s pid;
      do (_, lid0, _) <- split_at im (s_kids p);
      do l0 <- sget s lid0;
      do mn <- is_minimal_l t (length (s_elts l0));
      if mn then Ok (s, false)
      else
        do (s1, lid) <- s_maybe_cow_child s pid im;
        do p1 <- sget s1 pid;
        do (ea, pe, eb) <- split_at im (s_elts p1);
        do l <- sget s1 lid;
        do (les', le) <- pop_last (s_elts l);
        do s2 <- upd s1 lid (fun l => w_elts l les');
        do s3 <- upd s2 pid (fun p => w_elts p (ea ++ le :: eb));
        do s4 <- upd s3 selfid (fun n => w_elts n (pe :: s_elts n));
        do l' <- sget s4 lid;
        if s_leaf l' then Ok (s4, true)
        else
          do self <- sget s4 selfid;
          if s_leaf self then Internal eAssert
          else
            do (lks', lc) <- pop_last (s_kids l');
            do s5 <- upd s4 lid (fun l => w_kids l lks');
            do s6 <- upd s5 selfid (fun n => w_kids n (lc :: s_kids n));
            Ok (s6, true)
  end.

Definition s_try_right_steal (t : nat) (s : store) (selfid pid index : nat) : res (store * bool) :=
  do p <- sget s pid;
  match nth_error (s_kids p) (S index) with
  | None => Ok (s, false)
  | Some rid0 =>
      do r0 <- sget s rid0;
      do mn <- is_minimal_l t (length (s_elts r0));
      if mn then Ok (s, false)
      else
        do (s1, rid) <- s_maybe_cow_child s pid (S index);
        do p1 <- sget s1 pid;
        do (ea, pe, eb) <- split_at index (s_elts p1);
        do r <- sget s1 rid;
        match s_elts r with
        | [] => Internal eIndex
        | re :: res' =>
            do s2 <- upd s1 rid (fun r => w_elts r res');
            do s3 <- upd s2 pid (fun p => w_elts p (ea ++ re :: eb));
            do s4 <- upd s3 selfid (fun n => w_elts n (s_elts n ++ [pe]));
            do r' <- sget s4 rid;
            if s_leaf r' then Ok (s4, true)
            else
              do self <- sget s4 selfid;
              if s_leaf self then Internal eAssert
              else
                match s_kids r' with
                | [] => Internal eIndex
                | rc :: rks' =>
                    do s5 <- upd s4 rid (fun r => w_kids r rks');
                    do s6 <- upd s5 selfid (fun n => w_kids n (s_kids n ++ [rc]));
                    Ok (s6, true)
                end
        end
  end.

(* self.merge(parent, index) *)
Definition s_merge (s : store) (selfid pid index : nat) : res store :=
  do p <- sget s pid;
  do (ka, rid, kb) <- split_at (S index) (s_kids p);
  do s1 <- upd s pid (fun p => w_kids p (ka ++ kb));
  do p1 <- sget s1 pid;
  do (ea, pe, eb) <- split_at index (s_elts p1);
  do s2 <- upd s1 pid (fun p => w_elts p (ea ++ eb));
  do r <- sget s2 rid;
  do s3 <- upd s2 selfid (fun n => w_elts n (s_elts n ++ pe :: s_elts r));
  do self <- sget s3 selfid;
  if s_leaf self then Ok s3
  else upd s3 selfid (fun n => w_kids n (s_kids n ++ s_kids r)).

Definition s_balance (t : nat) (s : store) (selfid pid index : nat) : res store :=
  do p <- sget s pid;
  if s_leaf p then Internal eAssert
  else
    do (s1, ok1) <- s_try_left_steal t s selfid pid index;
    if ok1 then Ok s1
    else
      do (s2, ok2) <- s_try_right_steal t s1 selfid pid index;
      if ok2 then Ok s2
      else match index with
           | O => s_merge s2 selfid pid 0
           | S im =>
               do (s3, lid) <- s_maybe_cow_child s2 pid im;
               s_merge s3 lid pid im
           end.

Fixpoint s_opt_loop (fuel t : nat) (s : store) (lid pid li : nat) : res store :=
  match fuel with
  | O => Internal eFuel
  | S f =>
      do l <- sget s lid;
      if (length (s_elts l) <? t_max t)%nat then
        do (s', ok) <- s_try_right_steal t s lid pid li;
        if ok then s_opt_loop f t s' lid pid li else Ok s'
      else Ok s
  end.

Definition s_optimize (t : nat) (s : store) (pid index : nat) : res store :=
  match index with
  | O => Ok s
  | S li =>
      do p <- sget s pid;
      do (_, lid0, _) <- split_at li (s_kids p);
      do l0 <- sget s lid0;
      if (length (s_elts l0) =? t_max t)%nat then Ok s
      else
        do (s1, lid) <- s_maybe_cow_child s pid li;
        s_opt_loop (S (t_max t)) t s1 lid pid li
  end.

Definition s_ins_iter (t : nat) (io : bool)
    (rec : store -> nat -> res (store * option elt)) (again : store -> res (store * option elt))
    (s : store) (id : nat) (e : elt) : res (store * option elt) :=
  do n <- sget s id;
  do (i, eq) <- search (fst e) (s_elts n);
  if eq then
    do (a, old, b) <- split_at i (s_elts n);
    Ok (sset s id (w_elts n (a ++ e :: b)), Some old)
  else if s_leaf n then Ok (sset s id (w_elts n (insert_at i e (s_elts n))), None)
  else
    do (s1, cid) <- s_maybe_cow_child s id i;
    do c <- sget s1 cid;
    do mx <- is_maximal_l t (length (s_elts c));
    if mx then
      do (s2, mid, rid) <- s_split t s1 cid;
      do s3 <- s_adopt t s2 id cid mid rid;
      again s3
    else
      do (s2, o) <- rec s1 cid;
      if io then do s3 <- s_optimize t s2 id i; Ok (s3, o) else Ok (s2, o).

Fixpoint s_ins (t fuel : nat) (io : bool) (s : store) (id : nat) (e : elt) : res (store * option elt) :=
  match fuel with
  | O => Internal eFuel
  | S f =>
      do n <- sget s id;
      do mx <- is_maximal_l t (length (s_elts n));
      if mx then Internal eAssert
      else
        let rec := fun s c => s_ins t f io s c e in
        s_ins_iter t io rec (fun s1 => s_ins_iter t io rec (fun _ => Internal eFuel) s1 id e) s id e
  end.

Fixpoint s_depth (fuel : nat) (s : store) (id : nat) : nat :=
  match fuel with
  | O => O
  | S f => match nth_error s id with
           | Some n => match s_kids n with [] => 1%nat | k :: _ => S (s_depth f s k) end
           | None => 1%nat
           end
  end.

Fixpoint s_minimum (fuel : nat) (s : store) (id : nat) : res elt :=
  match fuel with
  | O => Internal eFuel
  | S f =>
      do n <- sget s id;
      if s_leaf n then match s_elts n with e :: _ => Ok e | [] => Internal eIndex end
      else match s_kids n with k :: _ => s_minimum f s k | [] => Internal eIndex end
  end.

(* node, i = self._get_node(key) (copy-on-write on the way down); swap node.elts[i] *)
Fixpoint s_replace_key (fuel : nat) (s : store) (id : nat) (k : Z) (e : elt) : res (store * elt) :=
  match fuel with
  | O => Internal eFuel
  | S f =>
      do n <- sget s id;
      do (i, eq) <- search k (s_elts n);
      if eq then do (a, old, b) <- split_at i (s_elts n); Ok (sset s id (w_elts n (a ++ e :: b)), old)
      else if s_leaf n then Internal eAssert
      else
        do (s1, cid) <- s_maybe_cow_child s id i;
        s_replace_key f s1 cid k e
  end.

Definition s_del_down (t : nat) (rec : store -> nat -> Z -> option Z -> res (store * dout))
    (s : store) (id : nat) (key : Z) (i : nat) (exact : option Z) : res (store * dout) :=
  do (s1, cid) <- s_maybe_cow_child s id i;
  do c <- sget s1 cid;
  do mn <- is_minimal_l t (length (s_elts c));
  do (s2, cid2) <-
     (if mn then
        do s2 <- s_balance t s1 cid id i;
        do n2 <- sget s2 id;
        do (i1, eq1) <- search key (s_elts n2);
        if eq1 then Internal eAssert
        else
          do (_, cid2, _) <- split_at i1 (s_kids n2);
          do c2 <- sget s2 cid2;
          (* ghost check, no Python counterpart: the child found again after rebalancing is
             written to without maybe_cow_child; were it not owned, Python would silently
             modify another tree's node - the model stops with eForeign instead *)
          if negb (s_cr c2 =? s_cr n2)%nat then Internal eForeign
          else
            do mn2 <- is_minimal_l t (length (s_elts c2));
            if mn2 then Internal eAssert else Ok (s2, cid2)
      else Ok (s1, cid));
  rec s2 cid2 key exact.

Fixpoint s_del (t fuel : nat) (isroot : bool) (s : store) (id : nat) (key : Z) (exact : option Z)
  : res (store * dout) :=
  match fuel with
  | O => Internal eFuel
  | S f =>
      do n <- sget s id;
      do mn <- (if isroot then Ok false else is_minimal_l t (length (s_elts n)));
      if mn then Internal eAssert
      else
        do (i, eq) <- search key (s_elts n);
        let rec := fun s c k ex => s_del t f false s c k ex in
        if eq then
          do (ea, found, eb) <- split_at i (s_elts n);
          if exact_mismatch exact found then Ok (s, DMismatch)
          else if s_leaf n then Ok (sset s id (w_elts n (ea ++ eb)), DDel found)
          else
            do (_, rk, _) <- split_at (S i) (s_kids n);
            do succ <- s_minimum fuel s rk;
            do (s1, o) <- s_del_down t rec s id (fst succ) (S i) None;
            match o with
            | DDel selt =>
                do (s2, old) <- s_replace_key fuel s1 id key selt;
                Ok (s2, DDel old)
            | _ => Internal eAssert
            end
        else if s_leaf n then Ok (s, match exact with Some _ => DNoMatch | None => DNone end)
        else s_del_down t rec s id key i exact
  end.

Fixpoint s_get (fuel : nat) (s : store) (id : nat) (k : Z) : res (option elt) :=
  match fuel with
  | O => Internal eFuel
  | S f =>
      do n <- sget s id;
      do (i, eq) <- search k (s_elts n);
      if eq then do (_, x, _) <- split_at i (s_elts n); Ok (Some x)
      else if s_leaf n then Ok None
      else do (_, c, _) <- split_at i (s_kids n); s_get f s c k
  end.

(* ---- BTree handle on the store *)

Record sbtree := mkSB { sb_t : nat; sb_root : nat; sb_cr : nat; sb_size : Z; sb_immut : bool; sb_inorder : bool }.

Definition s_insert_element (s : store) (b : sbtree) (e : elt) (io : bool) : res (store * sbtree * option elt) :=
  if sb_immut b then Lib eImmutable
  else
    do (s1, root1) <- s_maybe_cow s (sb_root b) (sb_cr b);
    do r1 <- sget s1 root1;
    do mx <- is_maximal_l (sb_t b) (length (s_elts r1));
    do (s2, root2) <-
       (if mx then
          let '(s', nr) := alloc s1 (mkS (sb_cr b) false [] []) in
          do (s'', mid, rid) <- s_split (sb_t b) s' root1;
          do s3 <- s_adopt (sb_t b) s'' nr root1 mid rid;
          Ok (s3, nr)
        else Ok (s1, root1));
    do (s3, o) <- s_ins (sb_t b) (s_depth (length s2) s2 root2) io s2 root2 e;
    Ok (s3, mkSB (sb_t b) root2 (sb_cr b) (match o with None => sb_size b + 1 | Some _ => sb_size b end) false (sb_inorder b), o).

Definition s_delete (s : store) (b : sbtree) (key : Z) (exact : option Z) : res (store * sbtree * dout) :=
  if sb_immut b then Lib eImmutable
  else
    do (s1, root1) <- s_maybe_cow s (sb_root b) (sb_cr b);
    do (s2, o) <- s_del (sb_t b) (s_depth (length s1) s1 root1) true s1 root1 key exact;
    do r2 <- sget s2 root1;
    do root2 <- (match s_elts r2 with
                 | [] => if s_leaf r2 then Ok root1
                         else match s_kids r2 with [k] => Ok k | _ => Internal eAssert end
                 | _ => Ok root1
                 end);
    Ok (s2, mkSB (sb_t b) root2 (sb_cr b) (match o with DDel _ => sb_size b - 1 | _ => sb_size b end) false (sb_inorder b), o).

(* ---- abstraction to the value level, and the store dump *)

Fixpoint abs (fuel : nat) (s : store) (id : nat) : option tree :=
  match fuel with
  | O => None
  | S f =>
      match nth_error s id with
      | None => None
      | Some n =>
          let kids := (fix go (ks : list nat) : option (list tree) :=
                         match ks with
                         | [] => Some []
                         | k :: r => match abs f s k, go r with
                                     | Some k', Some r' => Some (k' :: r')
                                     | _, _ => None
                                     end
                         end) (s_kids n) in
          match kids with
          | Some ks => Some (Node (s_leaf n) (s_elts n) ks)
          | None => None
          end
      end
  end.

Fixpoint tree_eqb (a b : tree) : bool :=
  let '(Node la ea ka) := a in
  let '(Node lb eb kb) := b in
  Bool.eqb la lb &&
  (fix ee (x y : list elt) : bool :=
     match x, y with
     | [], [] => true
     | (k, v) :: x', (k', v') :: y' => (k =? k') && (v =? v') && ee x' y'
     | _, _ => false
     end) ea eb &&
  (fix go (x : list tree) (y : list tree) : bool :=
     match x, y with
     | [], [] => true
     | u :: x', w :: y' => tree_eqb u w && go x' y'
     | _, _ => false
     end) ka kb.

(* preorder list of [id; creator; leaf; flat elts; kid ids] *)
Fixpoint sdump (fuel : nat) (s : store) (id : nat) : list obs :=
  match fuel with
  | O => [E eFuel]
  | S f =>
      match nth_error s id with
      | None => [E eIndex]
      | Some n =>
          L [I (Z.of_nat id); I (Z.of_nat (s_cr n)); ob (s_leaf n);
             L (flat_map (fun e => [I (fst e); I (snd e)]) (s_elts n));
             L (map (fun k => I (Z.of_nat k)) (s_kids n))]
          :: flat_map (sdump f s) (s_kids n)
      end
  end.

(* ---- world: the value-level world of BTreeM (results, cursors) and the store side by side *)

Record sworld := mkSW { sw_store : store; sw_trees : list sbtree }.

Definition s_with_tree (w : sworld) (ti : Z) (f : nat -> sbtree -> sworld * obs) : sworld * obs :=
  match nth_error (sw_trees w) (Z.to_nat ti) with
  | Some b => f (Z.to_nat ti) b
  | None => (w, E eBadCase)
  end.

Definition s_mutate (w : sworld) (ti : nat) (r : res (store * sbtree * obs)) : sworld * obs :=
  match r with
  | Ok (s', b', o) => (mkSW s' (set_nth ti b' (sw_trees w)), o)
  | Lib e => (w, E e)
  | Internal e => (w, E e)
  end.

Definition s_new (w : sworld) (t : Z) (io : Z) : sworld * obs :=
  if (Z.to_nat t <? 3)%nat then (w, E eBadT)
  else
    let c := length (sw_trees w) in
    let '(s', root) := alloc (sw_store w) (mkS c true [] []) in
    (mkSW s' (sw_trees w ++ [mkSB (Z.to_nat t) root c 0 false (bool_of io)]), N).

Definition s_clone (w : sworld) (b : sbtree) (io : bool) : sworld * obs :=
  if sb_immut b
  then (mkSW (sw_store w) (sw_trees w ++ [mkSB (sb_t b) (sb_root b) (length (sw_trees w)) (sb_size b) false io]), N)
  else (w, E eNotImmutable).

(* the store-relevant operations, decoded from the history syntax *)
Inductive sop :=
| SNew (t io : Z)
| SIns (ti k v : Z) (io : option bool) (report : bool)      (* io = None: the tree's own in_order *)
| SDel (ti k : Z) (exact : option Z) (mode : nat)             (* 0 element / 1 KeyError / 2 None *)
| SFreeze (ti : Z)
| SClone (ti : Z) (io : bool)
(* the collections.abc mixins: compositions of the primitives above on the same tree *)
| SPop (ti k : Z)                 (* pop(k) / remove(k): delete only if the key is present *)
| SPopFirst (ti : Z)              (* popitem() / set.pop(): delete the first key, if any *)
| SClear (ti : Z)                 (* clear(): delete the first key until empty *)
| SSetDefault (ti k v : Z).       (* setdefault(k, v): insert only if absent *)

Definition decode (op : obs) : option sop :=
  match op with
  | L [I 1; I t; I io] => Some (SNew t io)
  | L [I 26; I t; I io] => Some (SNew t io)
  | L [I 2; I ti; I k; I v; I io] => Some (SIns ti k v (Some (bool_of io)) true)
  | L [I 3; I ti; I k] => Some (SDel ti k None 0)
  | L [I 4; I ti; I k; I v] => Some (SDel ti k (Some v) 0)
  | L [I 8; I ti] => Some (SFreeze ti)
  | L [I 9; I ti; I io] => Some (SClone ti (bool_of io))
  | L [I 27; I ti] => Some (SClone ti false)
  | L [I 20; I ti; I k; I v] => Some (SIns ti k v None false)
  | L [I 22; I ti; I k] => Some (SDel ti k None 1)
  | L [I 23; I ti; I k] => Some (SIns ti k 0 None false)
  | L [I 24; I ti; I k] => Some (SDel ti k None 2)
  | L [I 40; I ti; I k] => Some (SPop ti k)
  | L [I 41; I ti] => Some (SPopFirst ti)
  | L [I 42; I ti] => Some (SClear ti)
  | L [I 43; I ti; I k; I v] => Some (SSetDefault ti k v)
  | L [I 44; I ti; I k; I v] => Some (SIns ti k v None false)
  | L [I 45; I ti; I k] => Some (SPop ti k)
  | L [I 46; I ti] => Some (SPopFirst ti)
  | L [I 47; I ti] => Some (SClear ti)
  | _ => None
  end.

Definition exec_prim (w : sworld) (x : sop) : sworld * obs :=
  match x with
  | SNew t io => s_new w t io
  | SIns ti k v io report =>
      s_with_tree w ti (fun i b =>
        s_mutate w i (do (s', b', o) <- s_insert_element (sw_store w) b (k, v)
                                          (match io with Some x => x | None => sb_inorder b end);
                      Ok (s', b', if report then obs_of_oelt o else N)))
  | SDel ti k exact mode =>
      s_with_tree w ti (fun i b =>
        s_mutate w i (do (s', b', o) <- s_delete (sw_store w) b k exact;
                      Ok (s', b', match mode with
                                  | O => obs_of_dout o
                                  | S O => match o with DDel _ => N | _ => E eKey end
                                  | _ => N
                                  end)))
  | SFreeze ti =>
      s_with_tree w ti (fun i b =>
        (mkSW (sw_store w) (set_nth i (mkSB (sb_t b) (sb_root b) (sb_cr b) (sb_size b) true (sb_inorder b)) (sw_trees w)), N))
  | SClone ti io => s_with_tree w ti (fun i b => s_clone w b io)
  | _ => (w, N)
  end.

Definition s_lookup (w : sworld) (ti k : Z) : option elt :=
  match nth_error (sw_trees w) (Z.to_nat ti) with
  | Some b => match s_get (S (length (sw_store w))) (sw_store w) (sb_root b) k with Ok o => o | _ => None end
  | None => None
  end.

Definition s_first (w : sworld) (ti : Z) : option elt :=
  match nth_error (sw_trees w) (Z.to_nat ti) with
  | Some b => match s_minimum (S (length (sw_store w))) (sw_store w) (sb_root b) with Ok e => Some e | _ => None end
  | None => None
  end.

Fixpoint s_clear (fuel : nat) (w : sworld) (ti : Z) : sworld :=
  match fuel with
  | O => w
  | S f => match s_first w ti with
           | Some e => s_clear f (fst (exec_prim w (SDel ti (fst e) None 2))) ti
           | None => w
           end
  end.

Definition tree_size (w : sworld) (ti : Z) : nat :=
  match nth_error (sw_trees w) (Z.to_nat ti) with Some b => Z.to_nat (sb_size b) | None => O end.

Definition exec (w : sworld) (x : sop) : sworld * obs :=
  match x with
  | SPop ti k => match s_lookup w ti k with Some _ => exec_prim w (SDel ti k None 2) | None => (w, N) end
  | SPopFirst ti => match s_first w ti with Some e => exec_prim w (SDel ti (fst e) None 2) | None => (w, N) end
  | SClear ti => (s_clear (S (tree_size w ti)) w ti, N)
  | SSetDefault ti k v => match s_lookup w ti k with Some _ => (w, N) | None => exec_prim w (SIns ti k v None false) end
  | _ => exec_prim w x
  end.

Definition sstep (w : sworld) (op : obs) : sworld * obs :=
  match decode op with
  | Some x => exec w x
  | None => (w, N)
  end.

Definition is_store_op (op : obs) : bool :=
  match op with
  | L (I c :: _) => existsb (Z.eqb c) [1; 26; 2; 3; 4; 8; 9; 27; 20; 22; 23; 24]
  | _ => false
  end.

(* every tree of the store abstracts to the corresponding value-level tree *)
Definition consistent (sw : sworld) (w : world) : bool :=
  (length (sw_trees sw) =? length (w_trees w))%nat &&
  forallb (fun p : sbtree * btree =>
             let '(sb, b) := p in
             match abs (S (length (sw_store sw))) (sw_store sw) (sb_root sb) with
             | Some tr => tree_eqb tr (b_root b) && (sb_size sb =? b_size b) && Bool.eqb (sb_immut sb) (b_immut b)
             | None => false
             end) (combine (sw_trees sw) (w_trees w)).

Definition eStoreDiffers : Z := 998.

Fixpoint steps2 (sw : sworld) (w : world) (ops : list obs) : list obs :=
  match ops with
  | [] => []
  | op :: r =>
      let '(w', o) := step w op in
      let '(sw', so) := sstep sw op in
      let o' :=
        match op with
        | L [I 16; I ti] =>
            (* dump: value-level structure + wf flag, store-level nodes with ids and creators,
               and whether every tree of the store abstracts to its value-level tree *)
            match nth_error (sw_trees sw) (Z.to_nat ti) with
            | Some sb => L [o; L (sdump (S (length (sw_store sw))) (sw_store sw) (sb_root sb)); ob (consistent sw w)]
            | None => o
            end
        | _ => if is_store_op op then (if obs_eqb o so then o else E eStoreDiffers) else o
        end in
      o' :: steps2 sw' w' r
  end.

Definition run (c : obs) : obs :=
  match c with
  | L (I 0 :: ops) => L (steps2 (mkSW [] []) (mkW [] []) ops)
  | _ => BTreeM.run c
  end.
