(* Model of dns/tsig.py (_digest, _maybe_start_digest, sign, validate, get_context, HMACTSig),
   dns/rdtypes/ANY/TSIG.py (_to_wire, from_wire_parser), the TSIG path of dns/message.py
   (_WireReader.read/_get_question/_get_section, Message._parse_special_rr_header, keyring
   dispatch, multi-message chaining) and the TSIG record writer of dns/renderer.py /
   Message.to_wire.  Definitions only; proofs are in Proofs/Tsig*.v.

   The keyed hash is a Section variable  H : hashid -> key octets -> message octets -> digest;
   nothing is assumed about it.  An HMAC context (hmac.new / update / digest) is modelled by
   the octets it has been fed: the context's digest is H applied to their concatenation. *)
From DV Require Import Base.Prelude.
From DV Require Model.NameM.
Open Scope Z_scope.

Definition bytes := list Z.
Definition name := NameM.name.

(* ---------- exception codes ---------- *)
Definition eNameTooLong := NameM.eNameTooLong.     (* 2  FormError family *)
Definition eBadPointer := NameM.eBadPointer.       (* 5  FormError family *)
Definition eBadLabelType := NameM.eBadLabelType.   (* 6  FormError family *)
Definition eFormError := NameM.eFormError.         (* 7  dns.exception.FormError *)
Definition eNeedAbsolute := NameM.eNeedAbsolute.   (* 8 *)
Definition eBadTime := 20.
Definition eBadSignature := 21.
Definition eBadKey := 22.
Definition eBadAlgorithm := 23.
Definition ePeerError := 24.           (* PeerError("unknown TSIG error code") *)
Definition ePeerBadKey := 25.
Definition ePeerBadSignature := 26.
Definition ePeerBadTime := 27.
Definition ePeerBadTruncation := 28.
Definition eNotImplemented := 29.      (* NotImplementedError: algorithm not supported (documented) *)
Definition eValueError := 30.          (* ValueError (documented for other data; rdata constructor) *)
Definition eUnknownTSIGKey := 31.
Definition eBadTSIG := 32.             (* dns.message.BadTSIG  (FormError family) *)
Definition eBadEDNS := 33.             (* dns.message.BadEDNS  (FormError family) *)
Definition eShortHeader := 34.         (* dns.message.ShortHeader (FormError family) *)
Definition eTrailingJunk := 35.        (* dns.message.TrailingJunk (FormError family) *)
Definition eUnsupported := 90.         (* outside the model: GSS-TSIG, UPDATE opcode, callable keyring *)
Definition iStructError := 101.
Definition iAssert := 104.

(* the FormError family (isinstance(e, dns.exception.FormError)) among the codes above *)
Definition is_formerror (e : Z) : bool :=
  (e =? eNameTooLong) || (e =? eBadPointer) || (e =? eBadLabelType) || (e =? eFormError)
  || (e =? eBadTSIG) || (e =? eBadEDNS) || (e =? eShortHeader) || (e =? eTrailingJunk).

(* ---------- algorithms (dns.tsig constants, HMACTSig._hashes) ---------- *)
Inductive hashid := MD5 | SHA1 | SHA224 | SHA256 | SHA384 | SHA512.

Definition hash_code (h : hashid) : Z :=
  match h with MD5 => 1 | SHA1 => 2 | SHA224 => 3 | SHA256 => 4 | SHA384 => 5 | SHA512 => 6 end.

Definition nHMAC_MD5 : name := [[72;77;65;67;45;77;68;53]; [83;73;71;45;65;76;71]; [82;69;71]; [73;78;84]; []].
Definition nHMAC_SHA1 : name := [[104;109;97;99;45;115;104;97;49]; []].
Definition nHMAC_SHA224 : name := [[104;109;97;99;45;115;104;97;50;50;52]; []].
Definition nHMAC_SHA256 : name := [[104;109;97;99;45;115;104;97;50;53;54]; []].
Definition nHMAC_SHA256_128 : name := [[104;109;97;99;45;115;104;97;50;53;54;45;49;50;56]; []].
Definition nHMAC_SHA384 : name := [[104;109;97;99;45;115;104;97;51;56;52]; []].
Definition nHMAC_SHA384_192 : name := [[104;109;97;99;45;115;104;97;51;56;52;45;49;57;50]; []].
Definition nHMAC_SHA512 : name := [[104;109;97;99;45;115;104;97;53;49;50]; []].
Definition nHMAC_SHA512_256 : name := [[104;109;97;99;45;115;104;97;53;49;50;45;50;53;54]; []].
Definition nGSS_TSIG : name := [[103;115;115;45;116;115;105;103]; []].

(* HMACTSig._hashes: algorithm name -> (hash, optional size in bits) *)
Definition hashes : list (name * (hashid * option Z)) :=
  [ (nHMAC_SHA1, (SHA1, None)); (nHMAC_SHA224, (SHA224, None)); (nHMAC_SHA256, (SHA256, None));
    (nHMAC_SHA256_128, (SHA256, Some 128)); (nHMAC_SHA384, (SHA384, None));
    (nHMAC_SHA384_192, (SHA384, Some 192)); (nHMAC_SHA512, (SHA512, None));
    (nHMAC_SHA512_256, (SHA512, Some 256)); (nHMAC_MD5, (MD5, None)) ].

(* dns.tsig.mac_sizes (octets) *)
Definition mac_sizes : list (name * Z) :=
  [ (nHMAC_SHA1, 20); (nHMAC_SHA224, 28); (nHMAC_SHA256, 32); (nHMAC_SHA256_128, 16);
    (nHMAC_SHA384, 48); (nHMAC_SHA384_192, 24); (nHMAC_SHA512, 64); (nHMAC_SHA512_256, 32);
    (nHMAC_MD5, 16); (nGSS_TSIG, 128) ].

(* dict lookup with Name keys: hash + __eq__, i.e. the entry whose key equals n *)
Fixpoint assoc_name {A} (t : list (name * A)) (n : name) : option A :=
  match t with
  | [] => None
  | (k, v) :: r => if NameM.name_eqb k n then Some v else assoc_name r n
  end.

(* ---------- objects ---------- *)
Record key := { kname : name; ksecret : bytes; kalg : name }.

Record tsig := { t_alg : name; t_time : Z; t_fudge : Z; t_mac : bytes;
                 t_oid : Z; t_error : Z; t_other : bytes }.

(* an HMACTSig object: which hash, the truncation (bits), the key and everything fed so far *)
Record hctx := { c_hash : hashid; c_size : option Z; c_key : bytes; c_data : bytes }.

Definition update (c : hctx) (d : bytes) : hctx :=
  {| c_hash := c_hash c; c_size := c_size c; c_key := c_key c; c_data := c_data c ++ d |}.

(* struct.pack("!H", v) etc.: struct.error outside the range *)
Definition u16 (v : Z) : bytes := [v / 256; v mod 256].
Definition u32 (v : Z) : bytes := [v / 16777216; (v / 65536) mod 256; (v / 256) mod 256; v mod 256].
Definition in_u16 (v : Z) : bool := (0 <=? v) && (v <? 65536).
Definition in_u32 (v : Z) : bool := (0 <=? v) && (v <? 4294967296).
Definition in_u48 (v : Z) : bool := (0 <=? v) && (v <? 281474976710656).
Definition pack_u16 (v : Z) : res bytes := if in_u16 v then Ok (u16 v) else Internal iStructError.

(* Python slice l[a:b] for 0 <= a, 0 <= b *)
Definition slice (l : bytes) (a b : nat) : bytes := firstn (b - a) (skipn a l).

(* TSIG rdata constructor (dns.rdtypes.ANY.TSIG.TSIG.__init__): field validation *)
Definition mk_tsig (alg : name) (time fudge : Z) (mac : bytes) (oid err : Z) (other : bytes) : res tsig :=
  if negb (in_u48 time) then Lib eValueError
  else if negb (in_u16 fudge) then Lib eValueError
  else if negb (in_u16 oid) then Lib eValueError
  else if negb ((0 <=? err) && (err <=? 4095)) then Lib eValueError   (* Rcode.make *)
  else Ok {| t_alg := alg; t_time := time; t_fudge := fudge; t_mac := mac;
             t_oid := oid; t_error := err; t_other := other |}.

Section WithH.
  Variable H : hashid -> bytes -> bytes -> bytes.

  (* HMACTSig.sign: digest(), truncated to size // 8 octets for the -NNN variants *)
  Definition ctx_sign (c : hctx) : bytes :=
    let d := H (c_hash c) (c_key c) (c_data c) in
    match c_size c with
    | Some s => firstn (Z.to_nat (s / 8)) d
    | None => d
    end.

  (* HMACTSig.verify: hmac.compare_digest(mac, expected) *)
  Definition ctx_verify (c : hctx) (expected : bytes) : res unit :=
    if zlist_eqb (ctx_sign c) expected then Ok tt else Lib eBadSignature.

  (* get_context(key) / HMACTSig.__init__ *)
  Definition get_context (k : key) : res hctx :=
    if NameM.name_eqb (kalg k) nGSS_TSIG then Lib eUnsupported
    else match assoc_name hashes (kalg k) with
         | Some (h, sz) => Ok {| c_hash := h; c_size := sz; c_key := ksecret k; c_data := [] |}
         | None => Lib eNotImplemented
         end.

  (* struct.pack("!HIH", (time >> 32) & 0xFFFF, time & 0xFFFFFFFF, fudge) *)
  Definition time_encoded (time fudge : Z) : res bytes :=
    let upper := (time / 4294967296) mod 65536 in
    let lower := time mod 4294967296 in
    if in_u16 fudge then Ok (u16 upper ++ u32 lower ++ u16 fudge) else Internal iStructError.

  (* _digest(wire, key, rdata, time, request_mac, ctx, multi) *)
  Definition digest (wire : bytes) (k : key) (rd : tsig) (time : option Z) (rmac : bytes)
             (ctx : option hctx) (multi : bool) : res hctx :=
    let first := negb (match ctx with Some _ => multi | None => false end) in
    do c0 <- (if first then
                do c <- get_context k;
                match rmac with
                | [] => Ok c
                | _ => do l <- pack_u16 (zlen rmac); Ok (update (update c l) rmac)
                end
              else match ctx with Some c => Ok c | None => Internal iAssert end);
    do oid <- pack_u16 (t_oid rd);
    let c1 := update (update c0 oid) (skipn 2 wire) in
    do c2 <- (if first then
                do kn <- NameM.to_wire (kname k) None true;     (* key.name.to_digestable() *)
                Ok (update (update (update c1 kn) (u16 255)) (u32 0))
              else Ok c1);
    let t := match time with Some t => t | None => t_time rd end in
    do te <- time_encoded t (t_fudge rd);
    let other_len := zlen (t_other rd) in
    if other_len >? 65535 then Lib eValueError
    else if first then
      do an <- NameM.to_wire (kalg k) None true;               (* key.algorithm.to_digestable() *)
      if in_u16 (t_error rd) then
        Ok (update (update c2 (an ++ te)) (u16 (t_error rd) ++ u16 other_len ++ t_other rd))
      else Internal iStructError
    else Ok (update c2 te).

  (* _maybe_start_digest(key, mac, multi) *)
  Definition maybe_start_digest (k : key) (mac : bytes) (multi : bool) : res (option hctx) :=
    if multi then
      do c <- get_context k;
      do l <- pack_u16 (zlen mac);
      Ok (Some (update (update c l) mac))
    else Ok None.

  (* sign(wire, key, rdata, time, request_mac, ctx, multi) -> (tsig, ctx) *)
  Definition sign (wire : bytes) (k : key) (rd : tsig) (time : option Z) (rmac : bytes)
             (ctx : option hctx) (multi : bool) : res (tsig * option hctx) :=
    do c <- digest wire k rd time rmac ctx multi;
    let mac := ctx_sign c in
    (* rdata.replace(time_signed=time, mac=mac): the constructor validates again *)
    do t' <- (match time with
              | None => Lib eValueError
              | Some t => mk_tsig (t_alg rd) t (t_fudge rd) mac (t_oid rd) (t_error rd) (t_other rd)
              end);
    do c' <- maybe_start_digest k mac multi;
    Ok (t', c').

  (* the error -> exception mapping of validate *)
  Definition peer_error (err : Z) : Z :=
    if err =? 16 then ePeerBadSignature
    else if err =? 17 then ePeerBadKey
    else if err =? 18 then ePeerBadTime
    else if err =? 22 then ePeerBadTruncation
    else ePeerError.

  (* wire[0:10] + pack("!H", adcount - 1) + wire[12:tsig_start] *)
  Definition strip_tsig (wire : bytes) (adcount : Z) (tsig_start : nat) : bytes :=
    slice wire 0 10 ++ u16 (adcount - 1) ++ slice wire 12 tsig_start.

  Definition get_adcount (wire : bytes) : res Z :=
    match slice wire 10 12 with
    | [a; b] => Ok (a * 256 + b)
    | _ => Internal iStructError         (* struct.unpack on a short slice *)
    end.

  (* validate(wire, key, owner, rdata, now, request_mac, tsig_start, ctx, multi):
     everything before the digest is computed; yields the message octets to digest *)
  Definition validate_pre (wire : bytes) (k : key) (owner : name) (rd : tsig) (now : Z)
             (tsig_start : nat) : res bytes :=
    do adcount <- get_adcount wire;
    if adcount =? 0 then Lib eFormError
    else
      let new_wire := strip_tsig wire adcount tsig_start in
      if negb (t_error rd =? 0) then Lib (peer_error (t_error rd))
      else if Z.abs (t_time rd - now) >? t_fudge rd then Lib eBadTime
      else if negb (NameM.name_eqb (kname k) owner) then Lib eBadKey
      else if negb (NameM.name_eqb (kalg k) (t_alg rd)) then Lib eBadAlgorithm
      else Ok new_wire.

  Definition unimplemented_is_badalg {A} (r : res A) : res A :=
    match r with
    | Lib e => if e =? eNotImplemented then Lib eBadAlgorithm else Lib e
    | x => x
    end.

  Definition validate (wire : bytes) (k : key) (owner : name) (rd : tsig) (now : Z) (rmac : bytes)
             (tsig_start : nat) (ctx : option hctx) (multi : bool) : res (option hctx) :=
    do new_wire <- validate_pre wire k owner rd now tsig_start;
    (* try: _digest(...) except NotImplementedError: raise BadAlgorithm *)
    do c <- unimplemented_is_badalg (digest new_wire k rd None rmac ctx multi);
    do _ <- ctx_verify c (t_mac rd);
    (* try: return _maybe_start_digest(...) except NotImplementedError: raise BadAlgorithm *)
    unimplemented_is_badalg (maybe_start_digest k (t_mac rd) multi).

  (* the query validate puts to the keyed hash (hash, key, octets), when it gets that far;
     used by the correspondence to see that the harness supplied the digest for exactly the
     octets the model hashes, and by the theorems *)
  Definition validate_query (wire : bytes) (k : key) (owner : name) (rd : tsig) (now : Z) (rmac : bytes)
             (tsig_start : nat) (ctx : option hctx) (multi : bool) : option (hashid * bytes * bytes) :=
    match validate_pre wire k owner rd now tsig_start with
    | Ok new_wire =>
        match digest new_wire k rd None rmac ctx multi with
        | Ok c => Some (c_hash c, c_key c, c_data c)
        | _ => None
        end
    | _ => None
    end.

  (* ---------- TSIG rdata <-> wire (dns/rdtypes/ANY/TSIG.py) ---------- *)

  (* TSIG._to_wire *)
  Definition tsig_to_wire (t : tsig) : res bytes :=
    do an <- NameM.to_wire (t_alg t) None false;
    if negb (in_u16 (t_fudge t) && in_u16 (zlen (t_mac t))) then Internal iStructError
    else if negb (in_u16 (t_oid t) && in_u16 (t_error t) && in_u16 (zlen (t_other t))) then Internal iStructError
    else Ok (an ++ u16 ((t_time t / 4294967296) mod 65536) ++ u32 (t_time t mod 4294967296)
                ++ u16 (t_fudge t) ++ u16 (zlen (t_mac t)) ++ t_mac t
                ++ u16 (t_oid t) ++ u16 (t_error t) ++ u16 (zlen (t_other t)) ++ t_other t).

  (* one TSIG RR with an uncompressed owner: Renderer._write_tsig / Rdataset.to_wire *)
  Definition tsig_rr (owner : name) (t : tsig) : res bytes :=
    do on <- NameM.to_wire owner None false;
    do rd <- tsig_to_wire t;
    if zlen rd >? 65535 then Lib eFormError     (* prefixed_length overflow *)
    else Ok (on ++ u16 250 ++ u16 255 ++ u32 0 ++ u16 (zlen rd) ++ rd).

  (* Message.to_wire / Renderer.add_tsig for the TSIG part: `wire` is the rendered message
     with its final header and without TSIG; sign it, append the RR, bump ARCOUNT *)
  Definition sign_message (wire : bytes) (k : key) (owner : name) (rd : tsig) (now : Z) (rmac : bytes)
             (ctx : option hctx) (multi : bool) : res (bytes * tsig * option hctx) :=
    do tc <- sign wire k rd (Some now) rmac ctx multi;
    do rr <- tsig_rr owner (fst tc);
    do ad <- get_adcount wire;
    do adb <- pack_u16 (ad + 1);
    Ok (slice wire 0 10 ++ adb ++ skipn 12 wire ++ rr, fst tc, snd tc).

  (* A Message object that is rendered several times (size probe, retransmission): to_wire
     replaces self.tsig by the signed rdata and, for multi, stores the returned context in
     self.tsig_ctx; the stored context is NOT an input of a later render - dns.tsig.sign gets the
     tsig_ctx *argument* of that call.  One render per element of `nows` (the clock). *)
  Record mobj := { o_tsig : tsig; o_ctx : option hctx }.

  Definition render (wire : bytes) (k : key) (owner : name) (rmac : bytes) (ctx_arg : option hctx)
             (multi : bool) (now : Z) (o : mobj) : res (bytes * mobj) :=
    do r <- sign_message wire k owner (o_tsig o) now rmac ctx_arg multi;
    Ok (fst (fst r), {| o_tsig := snd (fst r); o_ctx := if multi then snd r else o_ctx o |}).

  Fixpoint render_seq (wire : bytes) (k : key) (owner : name) (rmac : bytes) (ctx_arg : option hctx)
           (multi : bool) (nows : list Z) (o : mobj) : list (res (bytes * option hctx)) :=
    match nows with
    | [] => []
    | now :: r =>
        match render wire k owner rmac ctx_arg multi now o with
        | Ok (w, o') => Ok (w, o_ctx o') :: render_seq wire k owner rmac ctx_arg multi r o'
        | Lib e => [Lib e]
        | Internal e => [Internal e]
        end
    end.

  (* a signed query and the response dns.message.make_response builds for it: the response is
     signed under the same key with request_mac = the query's MAC, whatever its TSIG error
     (`qwire` / `rbody`: the rendered query / response without TSIG) *)
  Definition sign_exchange (qwire rbody : bytes) (k : key) (rdq rdr : tsig) (now : Z)
    : res (bytes * bytes) :=
    do q <- sign_message qwire k (kname k) rdq now [] None false;
    do r <- sign_message rbody k (kname k) rdr (now + 1) (t_mac (snd (fst q))) None false;
    Ok (fst (fst q), fst (fst r)).

  (* ---------- wire parsing (dns.wirebase.Parser); sequential, so furthest = current ---------- *)

  (* parser.get_bytes(n) with parser.end = endp *)
  Definition get_bytes (w : bytes) (endp pos n : nat) : res (bytes * nat) :=
    if Nat.ltb (endp - pos) n then Lib eFormError
    else Ok (firstn n (skipn pos w), (pos + n)%nat).

  Fixpoint be_val (l : bytes) (acc : Z) : Z :=
    match l with [] => acc | b :: r => be_val r (acc * 256 + b) end.

  Definition get_uint (w : bytes) (endp pos n : nat) : res (Z * nat) :=
    do bp <- get_bytes w endp pos n; Ok (be_val (fst bp) 0, snd bp).

  (* parser.get_name(): pointers are followed inside wire[0:end) *)
  Definition get_name (w : bytes) (endp pos : nat) : res (name * nat) :=
    do nc <- NameM.from_wire (firstn endp w) pos; Ok (fst nc, (pos + snd nc)%nat).

  (* parser.get_counted_bytes(2) *)
  Definition get_counted2 (w : bytes) (endp pos : nat) : res (bytes * nat) :=
    do lp <- get_uint w endp pos 2; get_bytes w endp (snd lp) (Z.to_nat (fst lp)).

  (* dns.exception.ExceptionWrapper(FormError): anything that is not a FormError becomes one *)
  Definition wrap_formerror {A} (r : res A) : res A :=
    match r with
    | Ok a => Ok a
    | Lib e => if is_formerror e then Lib e else Lib eFormError
    | Internal _ => Lib eFormError
    end.

  (* TSIG.from_wire_parser between pos and endp (the restrict_to window); the window must be
     consumed exactly *)
  Definition tsig_from_wire (w : bytes) (endp pos : nat) : res tsig :=
    do t <- wrap_formerror (
      do ap <- get_name w endp pos;
      do tp <- get_uint w endp (snd ap) 6;
      do fp <- get_uint w endp (snd tp) 2;
      do mp <- get_counted2 w endp (snd fp);
      do ip <- get_uint w endp (snd mp) 2;
      do ep <- get_uint w endp (snd ip) 2;
      do op <- get_counted2 w endp (snd ep);
      do t <- mk_tsig (fst ap) (fst tp) (fst fp) (fst mp) (fst ip) (fst ep) (fst op);
      Ok (t, snd op));
    if Nat.eqb (snd t) endp then Ok (fst t) else Lib eFormError.

  (* ---------- the TSIG path of dns.message._WireReader ---------- *)
  Inductive keyring :=
  | KR_None                                   (* None: signed messages are refused *)
  | KR_True
  | KR_False                                  (* False: no validation *)
  | KR_Key (k : key)
  | KR_Dict (d : list (name * (key + bytes))).

  Record rst := { r_pos : nat;                           (* parser.current *)
                  r_tsig : option (name * tsig);         (* message.tsig *)
                  r_ctx : option hctx;                   (* message.tsig_ctx *)
                  r_recs : list (Z * Z * Z * nat);       (* (section, type, class, start) of every RR read, reversed *)
                  r_opt : bool;                          (* message.opt is set *)
                  r_origin : option name }.              (* message.origin (from_wire(origin=...)); constant *)

  (* OPT.from_wire_parser between pos and endp: option code, option length, option data;
     the model covers options whose data is opaque (GenericOption: get_remaining) *)
  Fixpoint opt_options (w : bytes) (endp pos : nat) (fuel : nat) : res unit :=
    if Nat.leb endp pos then Ok tt
    else match fuel with
         | O => Internal iAssert
         | S f =>
             do tp <- get_uint w endp pos 2;
             do lp <- get_uint w endp (snd tp) 2;
             let olen := Z.to_nat (fst lp) in
             if Nat.ltb (endp - snd lp) olen then Lib eFormError
             else opt_options w endp (snd lp + olen) f
         end.

  (* _get_question: names and 4 octets each; nothing TSIG-specific can happen here *)
  Fixpoint get_question (w : bytes) (n : nat) (pos : nat) : res nat :=
    match n with
    | O => Ok pos
    | S n' =>
        do np <- get_name w (length w) pos;
        do sp <- get_bytes w (length w) (snd np) 4;
        get_question w n' (snd sp)
    end.

  Definition TSIG := 250.
  Definition OPT := 41.
  Definition ANY := 255.

  (* the keyring dispatch of _get_section; Some None = "key is falsy": validation skipped *)
  Definition find_key (kr : keyring) (owner : name) (alg : name) : res (option key) :=
    match kr with
    | KR_None | KR_True => Lib eUnknownTSIGKey
    | KR_False => Ok None
    | KR_Key k => Ok (Some k)
    | KR_Dict d =>
        match assoc_name d owner with
        | None => Lib eUnknownTSIGKey
        | Some (inl k) => Ok (Some k)
        | Some (inr secret) => Ok (Some {| kname := owner; ksecret := secret; kalg := alg |})
        end
    end.

  (* one iteration of the `for i in range(count)` loop of _get_section *)
  Definition get_rr (w : bytes) (kr : keyring) (rmac : bytes) (now : Z) (multi : bool)
             (section : Z) (count i : Z) (st : rst) : res rst :=
    let rr_start := r_pos st in
    do np <- get_name w (length w) rr_start;
    let owner := fst np in                          (* absolute_name *)
    (* name = absolute_name.relativize(origin): only the OPT owner test and messages use it; the
       keyring lookup, validate and message.tsig take the absolute name *)
    do nrel <- (match r_origin st with
                | Some o => NameM.relativize owner o
                | None => Ok owner
                end);
    do tp <- get_uint w (length w) (snd np) 2;
    do cp <- get_uint w (length w) (snd tp) 2;
    do lp <- get_uint w (length w) (snd cp) 4;
    do dp <- get_uint w (length w) (snd lp) 2;
    let rdtype := fst tp in let rdclass := fst cp in
    let rdlen := Z.to_nat (fst dp) in let rdata_start := snd dp in
    let recs := (section, rdtype, rdclass, rr_start) :: r_recs st in
    if rdtype =? OPT then
      (* _parse_special_rr_header: ADDITIONAL only, at most one, owner must be the root *)
      if negb (section =? 3) || r_opt st || negb (NameM.name_eqb nrel NameM.root) then Lib eBadEDNS
      else if Nat.ltb (length w - rdata_start) rdlen then Lib eFormError
      else
        do _ <- wrap_formerror (opt_options w (rdata_start + rdlen) rdata_start (S rdlen));
        Ok {| r_pos := (rdata_start + rdlen)%nat; r_tsig := r_tsig st;
              r_ctx := r_ctx st; r_recs := recs; r_opt := true; r_origin := r_origin st |}
    else if rdtype =? TSIG then
      (* _parse_special_rr_header *)
      if negb (section =? 3) || negb (rdclass =? ANY) || negb (i =? count - 1) then Lib eBadTSIG
      else
        (* with parser.restrict_to(rdlen): *)
        if Nat.ltb (length w - rdata_start) rdlen then Lib eFormError
        else
          do rd <- tsig_from_wire w (rdata_start + rdlen) rdata_start;
          if negb (fst lp =? 0) then Lib eBadTSIG      (* RFC 8945 4.2: TTL MUST be 0 *)
          else
          do ko <- find_key kr owner (t_alg rd);
          do ctx' <- (match ko with
                      | Some k => validate w k owner rd now rmac rr_start (r_ctx st) multi
                      | None => Ok (r_ctx st)
                      end);
          Ok {| r_pos := (rdata_start + rdlen)%nat; r_tsig := Some (owner, rd);
                r_ctx := ctx'; r_recs := recs; r_opt := r_opt st; r_origin := r_origin st |}
    else
      (* any other type: the model covers types whose rdata is opaque (get_remaining) *)
      if Nat.ltb (length w - rdata_start) rdlen then Lib eFormError
      else Ok {| r_pos := (rdata_start + rdlen)%nat; r_tsig := r_tsig st;
                 r_ctx := r_ctx st; r_recs := recs; r_opt := r_opt st; r_origin := r_origin st |}.

  Fixpoint get_section (w : bytes) (kr : keyring) (rmac : bytes) (now : Z) (multi : bool)
           (section : Z) (count : Z) (rem : nat) (st : rst) : res rst :=
    match rem with
    | O => Ok st
    | S rem' =>
        do st' <- get_rr w kr rmac now multi section count (count - Z.of_nat rem) st;
        get_section w kr rmac now multi section count rem' st'
    end.

  Record rmsg := { m_had_tsig : bool; m_tsig : option (name * tsig); m_ctx : option hctx;
                   m_recs : list (Z * Z * Z * nat) }.

  (* _WireReader.read (question_only, ignore_trailing, continue_on_error all False;
     from_wire(wire, keyring, request_mac, tsig_ctx, multi), clock = now) *)
  Definition read_gen (origin : option name) (w : bytes) (kr : keyring) (rmac : bytes)
             (ctx : option hctx) (multi : bool) (now : Z) : res rmsg :=
    if Nat.ltb (length w) 12 then Lib eShortHeader
    else
      do fl <- get_uint w (length w) 2 2;
      do qd <- get_uint w (length w) 4 2;
      do an <- get_uint w (length w) 6 2;
      do au <- get_uint w (length w) 8 2;
      do ad <- get_uint w (length w) 10 2;
      if (fst fl / 2048) mod 16 =? 5 then Lib eUnsupported      (* UPDATE messages: not modelled *)
      else
        do p <- get_question w (Z.to_nat (fst qd)) 12;
        let st0 := {| r_pos := p; r_tsig := None; r_ctx := ctx; r_recs := []; r_opt := false;
                      r_origin := origin |} in
        do st1 <- get_section w kr rmac now multi 1 (fst an) (Z.to_nat (fst an)) st0;
        do st2 <- get_section w kr rmac now multi 2 (fst au) (Z.to_nat (fst au)) st1;
        do st3 <- get_section w kr rmac now multi 3 (fst ad) (Z.to_nat (fst ad)) st2;
        if negb (Nat.eqb (r_pos st3) (length w)) then Lib eTrailingJunk
        else
          let had := match r_tsig st3 with Some _ => true | None => false end in
          let ctx' := match r_ctx st3 with
                      | Some c => if multi && negb had then Some (update c w) else Some c
                      | None => None
                      end in
          Ok {| m_had_tsig := had; m_tsig := r_tsig st3; m_ctx := ctx'; m_recs := rev (r_recs st3) |}.

  (* from_wire without an origin *)
  Definition read := read_gen None.

  (* a multi-message exchange as the transfer code drives it (dns.query.inbound_xfr /
     dns.xfr users): every envelope goes through from_wire(..., tsig_ctx=previous, multi=True) *)
  Fixpoint read_stream_gen (origin : option name) (ws : list bytes) (kr : keyring) (rmac : bytes)
           (ctx : option hctx) (now : Z) : list (res rmsg) :=
    match ws with
    | [] => []
    | w :: r =>
        match read_gen origin w kr rmac ctx true now with
        | Ok m => Ok m :: read_stream_gen origin r kr rmac (m_ctx m) now
        | e => [e]
        end
    end.

  Definition read_stream := read_stream_gen None.

  (* the sending side of the same exchange: Message.to_wire(multi=True, tsig_ctx=previous) for
     signed envelopes, ctx.update(wire) for the ones sent without TSIG *)
  Fixpoint sign_stream (ms : list (bytes * option (tsig * Z))) (k : key) (rmac : bytes)
           (ctx : option hctx) : list (res bytes) :=
    match ms with
    | [] => []
    | (w, None) :: r =>
        Ok w :: sign_stream r k rmac (match ctx with Some c => Some (update c w) | None => None end)
    | (w, Some (rd, now)) :: r =>
        match sign_message w k (kname k) rd now rmac ctx true with
        | Ok (w', _, c') => Ok w' :: sign_stream r k rmac c'
        | Lib e => [Lib e]
        | Internal e => [Internal e]
        end
    end.
End WithH.

(* ---------- harness interface ---------- *)
Definition eBadCase := 999.

Fixpoint name_of_obs (l : list obs) : option name :=
  match l with
  | [] => Some []
  | B x :: r => match name_of_obs r with Some n => Some (x :: n) | None => None end
  | _ => None
  end.

Definition obs_of_name (n : name) : obs := L (map B n).

Definition key_of_obs (o : obs) : option key :=
  match o with
  | L [L n; B s; L a] =>
      match name_of_obs n, name_of_obs a with
      | Some n, Some a => Some {| kname := n; ksecret := s; kalg := a |}
      | _, _ => None
      end
  | _ => None
  end.

(* rdata as constructor arguments; the constructor validates *)
Definition tsig_of_obs (o : obs) : option (res tsig) :=
  match o with
  | L [L a; I time; I fudge; B mac; I oid; I err; B other] =>
      match name_of_obs a with
      | Some a => Some (mk_tsig a time fudge mac oid err other)
      | None => None
      end
  | _ => None
  end.

Definition obs_of_tsig (t : tsig) : obs :=
  L [obs_of_name (t_alg t); I (t_time t); I (t_fudge t); B (t_mac t); I (t_oid t); I (t_error t); B (t_other t)].

(* the keyed hash of a run: a finite table supplied with the case (computed by Python's hmac);
   an octet string outside the table hashes to the non-octet [-1], which no MAC can equal *)
Definition htable := list (Z * bytes * bytes * bytes).

Fixpoint htable_of_obs (l : list obs) : option htable :=
  match l with
  | [] => Some []
  | L [I h; B k; B d; B v] :: r =>
      match htable_of_obs r with Some t => Some ((h, k, d, v) :: t) | None => None end
  | _ => None
  end.

Fixpoint tab_get (t : htable) (h : Z) (k d : bytes) : option bytes :=
  match t with
  | [] => None
  | (h', k', d', v) :: r =>
      if (h' =? h) && zlist_eqb k' k && zlist_eqb d' d then Some v else tab_get r h k d
  end.

Definition H_tab (t : htable) (h : hashid) (k d : bytes) : bytes :=
  match tab_get t (hash_code h) k d with Some v => v | None => [-1] end.

Definition missed (t : htable) (q : option (hashid * bytes * bytes)) : bool :=
  match q with
  | Some (h, k, d) => match tab_get t (hash_code h) k d with Some _ => false | None => true end
  | None => false
  end.

(* an existing context handed to sign/validate: N, or [key; octets already fed] *)
Definition ctx_of_obs (o : obs) : option (res (option hctx)) :=
  match o with
  | N => Some (Ok None)
  | L [k; B d] =>
      match key_of_obs k with
      | Some k => Some (match get_context k with
                        | Ok c => Ok (Some (update c d))
                        | Lib e => Lib e
                        | Internal e => Internal e
                        end)
      | None => None
      end
  | _ => None
  end.

(* what the harness can see of a returned context: ctx.sign() *)
Definition probe (t : htable) (c : option hctx) : obs :=
  match c with Some c => B (ctx_sign (H_tab t) c) | None => N end.

Definition obs_of_res {A} (f : A -> obs) (r : res A) : obs :=
  match r with Ok a => f a | Lib e => E e | Internal e => E e end.

Definition otime_of_obs (o : obs) : option (option Z) :=
  match o with N => Some None | I t => Some (Some t) | _ => None end.

Fixpoint dict_of_obs (l : list obs) : option (list (name * (key + bytes))) :=
  match l with
  | [] => Some []
  | L [L n; B s] :: r =>
      match name_of_obs n, dict_of_obs r with
      | Some n, Some d => Some ((n, inr s) :: d) | _, _ => None end
  | L [L n; k] :: r =>
      match name_of_obs n, key_of_obs k, dict_of_obs r with
      | Some n, Some k, Some d => Some ((n, inl k) :: d) | _, _, _ => None end
  | _ => None
  end.

Definition oname_of_obs (o : obs) : option (option name) :=
  match o with
  | N => Some None
  | L l => option_map Some (name_of_obs l)
  | _ => None
  end.

Definition keyring_of_obs (o : obs) : option keyring :=
  match o with
  | N => Some KR_None
  | I 1 => Some KR_True
  | I 0 => Some KR_False
  | L [I 1; k] => match key_of_obs k with Some k => Some (KR_Key k) | None => None end
  | L [I 2; L ents] => option_map KR_Dict (dict_of_obs ents)
  (* a callable  lambda message, name: d.get(name)  over a dict of Key objects: the reader calls
     it with the absolute owner name, i.e. the same lookup *)
  | L [I 3; L ents] => option_map KR_Dict (dict_of_obs ents)
  | _ => None
  end.

Definition obs_of_rmsg (t : htable) (m : rmsg) : obs :=
  L [ob (m_had_tsig m);
     match m_tsig m with Some (o, rd) => L [obs_of_name o; obs_of_tsig rd] | None => N end;
     probe t (m_ctx m)].

Fixpoint wires_of_obs (l : list obs) : option (list bytes) :=
  match l with
  | [] => Some []
  | B w :: r => match wires_of_obs r with Some ws => Some (w :: ws) | None => None end
  | _ => None
  end.

(* envelopes to send: [wire; N] unsigned, [wire; rdata; now] signed *)
Fixpoint envs_of_obs (l : list obs) : option (res (list (bytes * option (tsig * Z)))) :=
  match l with
  | [] => Some (Ok [])
  | L [B w; N] :: r =>
      match envs_of_obs r with
      | Some (Ok es) => Some (Ok ((w, None) :: es))
      | x => x
      end
  | L [B w; rd; I now] :: r =>
      match tsig_of_obs rd, envs_of_obs r with
      | Some (Ok rd), Some (Ok es) => Some (Ok ((w, Some (rd, now)) :: es))
      | Some (Lib e), Some _ => Some (Lib e)
      | Some (Internal e), Some _ => Some (Internal e)
      | Some _, Some x => Some x
      | _, _ => None
      end
  | _ => None
  end.

Definition obs_of_opt_size (o : option Z) : obs := match o with Some s => I s | None => N end.

Definition run (c : obs) : obs :=
  match c with
  (* 0: the algorithm tables *)
  | L [I 0] =>
      L [L (map (fun e => L [obs_of_name (fst e); I (hash_code (fst (snd e))); obs_of_opt_size (snd (snd e))]) hashes);
         L (map (fun e => L [obs_of_name (fst e); I (snd e)]) mac_sizes)]
  (* 1: dns.tsig.sign *)
  | L [I 1; B wire; k; rd; time; B rmac; ctx; I multi; L tab] =>
      match key_of_obs k, tsig_of_obs rd, otime_of_obs time, ctx_of_obs ctx, htable_of_obs tab with
      | Some k, Some rd, Some time, Some ctx, Some t =>
          obs_of_res (fun tc => L [obs_of_tsig (fst tc); probe t (snd tc)])
            (do rd <- rd; do ctx <- ctx; sign (H_tab t) wire k rd time rmac ctx (multi =? 1))
      | _, _, _, _, _ => E eBadCase
      end
  (* 2: dns.tsig.validate *)
  | L [I 2; B wire; k; L owner; rd; I now; B rmac; I tsig_start; ctx; I multi; L tab] =>
      match key_of_obs k, name_of_obs owner, tsig_of_obs rd, ctx_of_obs ctx, htable_of_obs tab with
      | Some k, Some owner, Some rd, Some ctx, Some t =>
          match rd, ctx with
          | Ok rd, Ok ctx =>
              L [obs_of_res (fun c => L [probe t c])
                   (validate (H_tab t) wire k owner rd now rmac (Z.to_nat tsig_start) ctx (multi =? 1));
                 ob (missed t (validate_query wire k owner rd now rmac (Z.to_nat tsig_start) ctx (multi =? 1)))]
          | Lib e, _ | Internal e, _ => E e
          | _, Lib e | _, Internal e => E e
          end
      | _, _, _, _, _ => E eBadCase
      end
  (* 3: TSIG rdata to wire *)
  | L [I 3; rd] =>
      match tsig_of_obs rd with
      | Some rd => obs_of_res B (do rd <- rd; tsig_to_wire rd)
      | None => E eBadCase
      end
  (* 4: TSIG rdata from wire (dns.rdata.from_wire(ANY, TSIG, wire, start, len)) *)
  | L [I 4; B w; I start; I len] =>
      if Nat.ltb (length w - Z.to_nat start) (Z.to_nat len) then E eFormError
      else obs_of_res obs_of_tsig (tsig_from_wire w (Z.to_nat start + Z.to_nat len) (Z.to_nat start))
  (* 5: sign a rendered message and append the TSIG RR *)
  | L [I 5; B wire; k; L owner; rd; I now; B rmac; ctx; I multi; L tab; I _] =>
      match key_of_obs k, name_of_obs owner, tsig_of_obs rd, ctx_of_obs ctx, htable_of_obs tab with
      | Some k, Some owner, Some rd, Some ctx, Some t =>
          obs_of_res (fun r => L [B (fst (fst r)); obs_of_tsig (snd (fst r)); probe t (snd r)])
            (do rd <- rd; do ctx <- ctx; sign_message (H_tab t) wire k owner rd now rmac ctx (multi =? 1))
      | _, _, _, _, _ => E eBadCase
      end
  (* 6: dns.message.from_wire of one message *)
  | L [I 6; B w; kr; B rmac; ctx; I multi; I now; L tab; origin] =>
      match keyring_of_obs kr, ctx_of_obs ctx, htable_of_obs tab, oname_of_obs origin with
      | Some kr, Some ctx, Some t, Some origin =>
          obs_of_res (obs_of_rmsg t) (do ctx <- ctx; read_gen (H_tab t) origin w kr rmac ctx (multi =? 1) now)
      | _, _, _, _ => E eBadCase
      end
  (* 7: a multi-message exchange, receiving side *)
  | L [I 7; L ws; kr; B rmac; I now; L tab; origin] =>
      match wires_of_obs ws, keyring_of_obs kr, htable_of_obs tab, oname_of_obs origin with
      | Some ws, Some kr, Some t, Some origin =>
          L (map (obs_of_res (obs_of_rmsg t)) (read_stream_gen (H_tab t) origin ws kr rmac None now))
      | _, _, _, _ => E eBadCase
      end
  (* 8: a multi-message exchange, sending side *)
  | L [I 8; L es; k; B rmac; L tab] =>
      match envs_of_obs es, key_of_obs k, htable_of_obs tab with
      | Some es, Some k, Some t =>
          match es with
          | Ok es => L (map (obs_of_res B) (sign_stream (H_tab t) es k rmac None))
          | Lib e | Internal e => E e
          end
      | _, _, _ => E eBadCase
      end
  (* 12: the same Message object rendered several times *)
  | L [I 12; B wire; k; L owner; rd; L nows; B rmac; ctx; I multi; L tab] =>
      match key_of_obs k, name_of_obs owner, tsig_of_obs rd, ctx_of_obs ctx, htable_of_obs tab with
      | Some k, Some owner, Some rd, Some ctx, Some t =>
          match rd, ctx with
          | Ok rd, Ok ctx =>
              L (map (obs_of_res (fun wc => L [B (fst wc); probe t (snd wc)]))
                   (render_seq (H_tab t) wire k owner rmac ctx (multi =? 1)
                      (flat_map (fun o => match o with I z => [z] | _ => [] end) nows)
                      {| o_tsig := rd; o_ctx := None |}))
          | Lib e, _ | Internal e, _ => E e
          | _, Lib e | _, Internal e => E e
          end
      | _, _, _, _, _ => E eBadCase
      end
  (* 11: signed query -> make_response(query, tsig_error) -> rendered response *)
  | L [I 11; B qwire; B rbody; k; rdq; rdr; I now; L tab] =>
      match key_of_obs k, tsig_of_obs rdq, tsig_of_obs rdr, htable_of_obs tab with
      | Some k, Some rdq, Some rdr, Some t =>
          obs_of_res (fun qr => L [B (fst qr); B (snd qr)])
            (do rdq <- rdq; do rdr <- rdr; sign_exchange (H_tab t) qwire rbody k rdq rdr now)
      | _, _, _, _ => E eBadCase
      end
  | _ => E eBadCase
  end.
