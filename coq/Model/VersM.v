(* C11 - model of the version bookkeeping of dns/versioned.py (class Zone):
   _versions, _readers, _pruning_policy, _write_txn (single-threaded view), reader(id=, serial=),
   _end_read, _commit_version_unlocked, _end_write_unlocked, _prune_versions_unlocked,
   set_max_versions, set_pruning_policy, _get_next_version_id, and the part of
   dns/zone.py WritableVersion / Transaction._end_transaction that decides whether a commit
   creates a version (`changed` non-empty) and what its content is.
   Definitions only; proofs are in Proofs/Vers*.v.

   Zone content is abstracted to a sorted association list key -> value:
     key 0 = SOA serial at the origin, key 1 = TXT at the origin, key k>=2 = one rdataset of some
     other name (the harness maps keys to (name, type) pairs, including names below a delegation).
   Python partial operations are explicit: deque[0] / deque[-1] on an empty deque, `assert`,
   set.remove of a missing element yield `Internal`; KeyError / ValueError / AlreadyEnded raised
   on purpose by the code are `Lib`. *)
From DV Require Import Base.Prelude.

Module VersM.

(* ---------------------------------------------------------------- content *)

Definition content := list (Z * Z).

Fixpoint c_get (k : Z) (c : content) : option Z :=
  match c with
  | [] => None
  | (k', v) :: r => if k =? k' then Some v else c_get k r
  end.

Fixpoint c_put (k v : Z) (c : content) : content :=
  match c with
  | [] => [(k, v)]
  | (k', v') :: r =>
      if k <? k' then (k, v) :: c
      else if k =? k' then (k, v) :: r
      else (k', v') :: c_put k v r
  end.

Fixpoint c_del (k : Z) (c : content) : content :=
  match c with
  | [] => []
  | (k', v') :: r => if k =? k' then r else (k', v') :: c_del k r
  end.

Definition c_mem (k : Z) (c : content) : bool :=
  match c_get k c with Some _ => true | None => false end.

(* ---------------------------------------------------------------- state *)

Record version := mkV { vid : Z; vcont : content }.

(* pruning policy: callable (zone, version) -> bool; what it can see of the zone that matters
   for the property is the current deque (set_max_versions reads len(zone._versions)) *)
Definition pol := list version -> version -> bool.

Definition pol_default : pol := fun _ _ => true.                 (* _default_pruning_policy *)
Definition pol_never : pol := fun _ _ => false.                  (* set_max_versions(None) *)
Definition pol_max (n : Z) : pol := fun vs _ => zlen vs >? n.    (* set_max_versions(n) *)

(* the write transaction of the (single) writer: version under construction *)
Record wtx := mkW { wid : Z; wcont : content; wchanged : bool }.

Record reader := mkR { rh : Z; rvid : Z }.   (* handle (identity of the txn object), version id *)

Record st := mkSt {
  versions : list version;      (* zone._versions, oldest first *)
  readers : list reader;        (* zone._readers (a set; kept in opening order) *)
  policy : pol;                 (* zone._pruning_policy *)
  wtxn : option wtx;            (* zone._write_txn *)
  next_h : Z;                   (* fresh reader handles *)
  hist : list version           (* ghost: every version ever committed, oldest first *)
}.

(* error codes *)
Definition eKeyError := 1.        (* Lib: reader(id=)/reader(serial=) not found *)
Definition eValueError := 2.      (* Lib: set_max_versions(<1) *)
Definition eAlreadyEnded := 3.    (* Lib: ending a transaction twice *)
Definition eWouldBlock := 4.      (* harness: writer() while a write txn is open (single thread) *)
Definition eNoTxn := 5.           (* harness: write op without open write txn *)
Definition eIndexError := 101.    (* Internal *)
Definition eAssertion := 102.     (* Internal *)
Definition eSetRemove := 103.     (* Internal: set.remove KeyError *)
Definition eBadCase := 999.

(* ---------------------------------------------------------------- pruning *)

Fixpoint last_opt {A} (l : list A) : option A :=
  match l with
  | [] => None
  | [x] => Some x
  | _ :: r => last_opt r
  end.

Fixpoint min_list (x : Z) (l : list Z) : Z :=
  match l with
  | [] => x
  | y :: r => min_list (Z.min x y) r
  end.

(* least_kept of _prune_versions_unlocked *)
Definition least_kept (vs : list version) (rs : list reader) : res Z :=
  match rs with
  | r :: rs' => Ok (min_list (rvid r) (map rvid rs'))
  | [] => match last_opt vs with
          | Some v => Ok (vid v)
          | None => Internal eIndexError
          end
  end.

(* while self._versions[0].id < least_kept and policy(self, self._versions[0]): popleft() *)
Fixpoint prune_loop (p : pol) (least : Z) (vs : list version) : res (list version) :=
  match vs with
  | [] => Internal eIndexError
  | v :: rest =>
      if (vid v <? least) && p vs v then prune_loop p least rest else Ok vs
  end.

Definition prune (p : pol) (vs : list version) (rs : list reader) : res (list version) :=
  match vs with
  | [] => Internal eAssertion
  | _ => do least <- least_kept vs rs; prune_loop p least vs
  end.

(* _get_next_version_id *)
Definition next_id (vs : list version) : Z :=
  match last_opt vs with
  | Some v => vid v + 1
  | None => 1
  end.

(* ---------------------------------------------------------------- operations *)

Inductive op :=
| OpenLatest
| OpenId (i : Z)
| OpenSerial (s : Z)
| OpenBoth (i s : Z)        (* reader(id=i, serial=s): refused *)
| Close (h : Z)
| WBegin (replacement : bool)
| WPut (k v : Z)
| WDel (k : Z)
| WCommit
| WRollback
| SetMax (n : option Z)
| SetPolicy (p : pol).

Inductive result :=
| ROpened (h : Z) (i : Z) (c : content)
| RUnit.

(* for v in reversed(self._versions): if v.id == id: ... *)
Fixpoint find_id_rev (i : Z) (rvs : list version) : option version :=
  match rvs with
  | [] => None
  | v :: r => if vid v =? i then Some v else find_id_rev i r
  end.

Definition serial_of (c : content) : option Z := c_get 0 c.

Fixpoint find_serial_rev (s : Z) (rvs : list version) : option version :=
  match rvs with
  | [] => None
  | v :: r =>
      match serial_of (vcont v) with
      | Some s' => if s' =? s then Some v else find_serial_rev s r
      | None => find_serial_rev s r
      end
  end.

Definition register (s : st) (v : version) : st * result :=
  (mkSt (versions s) (readers s ++ [mkR (next_h s) (vid v)]) (policy s) (wtxn s)
        (next_h s + 1) (hist s),
   ROpened (next_h s) (vid v) (vcont v)).

Fixpoint has_reader (h : Z) (rs : list reader) : bool :=
  match rs with
  | [] => false
  | r :: rs' => (rh r =? h) || has_reader h rs'
  end.

Fixpoint remove_reader (h : Z) (rs : list reader) : list reader :=
  match rs with
  | [] => []
  | r :: rs' => if rh r =? h then rs' else r :: remove_reader h rs'
  end.

Definition set_policy (s : st) (p : pol) : res (st * result) :=
  do vs <- prune p (versions s) (readers s);
  Ok (mkSt vs (readers s) p (wtxn s) (next_h s) (hist s), RUnit).

Definition step (s : st) (o : op) : res (st * result) :=
  match o with
  | OpenLatest =>
      match last_opt (versions s) with
      | Some v => Ok (register s v)
      | None => Internal eIndexError
      end
  | OpenId i =>
      match find_id_rev i (rev (versions s)) with
      | Some v => Ok (register s v)
      | None => Lib eKeyError
      end
  | OpenSerial x =>
      match find_serial_rev x (rev (versions s)) with
      | Some v => Ok (register s v)
      | None => Lib eKeyError
      end
  | OpenBoth _ _ => Lib eValueError   (* "cannot specify both id and serial", before the lock is taken *)
  | Close h =>
      (* Transaction._end: _check_ended; then Zone._end_read: remove, prune *)
      if h <? next_h s then
        if has_reader h (readers s) then
          let rs := remove_reader h (readers s) in
          do vs <- prune (policy s) (versions s) rs;
          Ok (mkSt vs rs (policy s) (wtxn s) (next_h s) (hist s), RUnit)
        else Lib eAlreadyEnded
      else Lib eBadCase
  | WBegin repl =>
      match wtxn s with
      | Some _ => Lib eWouldBlock
      | None =>
          (* Transaction created, then _setup_version: WritableVersion(zone, replacement) *)
          let base := if repl then []
                      else match last_opt (versions s) with Some v => vcont v | None => [] end in
          Ok (mkSt (versions s) (readers s) (policy s)
                   (Some (mkW (next_id (versions s)) base false)) (next_h s) (hist s), RUnit)
      end
  | WPut k v =>
      match wtxn s with
      | None => Lib eNoTxn
      | Some w =>
          Ok (mkSt (versions s) (readers s) (policy s)
                   (Some (mkW (wid w) (c_put k v (wcont w)) true)) (next_h s) (hist s), RUnit)
      end
  | WDel k =>
      match wtxn s with
      | None => Lib eNoTxn
      | Some w =>
          Ok (mkSt (versions s) (readers s) (policy s)
                   (Some (mkW (wid w) (c_del k (wcont w)) (wchanged w || c_mem k (wcont w))))
                   (next_h s) (hist s), RUnit)
      end
  | WCommit =>
      match wtxn s with
      | None => Lib eNoTxn
      | Some w =>
          if wchanged w then
            (* _commit_version_unlocked: append, prune, (nodes :=), _end_write_unlocked *)
            let nv := mkV (wid w) (wcont w) in
            do vs <- prune (policy s) (versions s ++ [nv]) (readers s);
            Ok (mkSt vs (readers s) (policy s) None (next_h s) (hist s ++ [nv]), RUnit)
          else
            (* nothing changed: _end_write *)
            Ok (mkSt (versions s) (readers s) (policy s) None (next_h s) (hist s), RUnit)
      end
  | WRollback =>
      match wtxn s with
      | None => Lib eNoTxn
      | Some w => Ok (mkSt (versions s) (readers s) (policy s) None (next_h s) (hist s), RUnit)
      end
  | SetMax None => set_policy s pol_never
  | SetMax (Some n) => if n <? 1 then Lib eValueError else set_policy s (pol_max n)
  | SetPolicy p => set_policy s p
  end.

(* Zone.__init__: commits the empty version with id 1 *)
Definition init : st :=
  let v1 := mkV 1 [] in
  mkSt [v1] [] pol_default None 0 [v1].

(* a failing operation leaves the zone as it was *)
Definition step_st (s : st) (o : op) : st :=
  match step s o with
  | Ok (s', _) => s'
  | _ => s
  end.

Definition run_ops (s : st) (ops : list op) : st := fold_left step_st ops s.

(* what a reader sees now: the content of the retained version carrying its id *)
Fixpoint find_reader (h : Z) (rs : list reader) : option reader :=
  match rs with
  | [] => None
  | r :: rs' => if rh r =? h then Some r else find_reader h rs'
  end.

Fixpoint find_version (i : Z) (vs : list version) : option version :=
  match vs with
  | [] => None
  | v :: r => if vid v =? i then Some v else find_version i r
  end.

Definition read (s : st) (h : Z) : option content :=
  match find_reader h (readers s) with
  | None => None
  | Some r => match find_version (rvid r) (versions s) with
              | Some v => Some (vcont v)
              | None => None
              end
  end.

(* ---------------------------------------------------------------- observations *)

Definition obs_of_content (c : content) : obs :=
  L (map (fun kv => L [I (fst kv); I (snd kv)]) c).

Definition obs_of_ocontent (c : option content) : obs :=
  match c with Some c => obs_of_content c | None => N end.

Definition view (s : st) : obs :=
  L [ L (map (fun v => I (vid v)) (versions s));
      L (map (fun r => L [I (rh r); I (rvid r); obs_of_ocontent (read s (rh r))]) (readers s));
      ob (match wtxn s with Some _ => true | None => false end);
      match last_opt (versions s) with Some v => obs_of_content (vcont v) | None => N end;
      I 0 (* number of mutable objects found in the retained versions: the harness counts them *) ].

Definition obs_of_result (r : result) : obs :=
  match r with
  | ROpened h i c => L [I h; I i; obs_of_content c]
  | RUnit => N
  end.

(* policies selectable from a case *)
Definition pol_id_below (k : Z) : pol := fun _ v => vid v <? k.
Definition pol_even : pol := fun _ v => Z.even (vid v).
Definition pol_has_key (k : Z) : pol := fun _ v => c_mem k (vcont v).
Definition pol_max_and_serial (n : Z) : pol :=
  fun vs v => (zlen vs >? n) && match serial_of (vcont v) with Some _ => true | None => false end.

Definition op_of_obs (o : obs) : option op :=
  match o with
  | L [I 0] => Some OpenLatest
  | L [I 1; I i] => Some (OpenId i)
  | L [I 2; I s] => Some (OpenSerial s)
  | L [I 3; I h] => Some (Close h)
  | L [I 11; I i; I s] => Some (OpenBoth i s)
  (* every way of leaving a read transaction - rollback(), commit(), leaving its `with` block normally, by an
     Exception or by a BaseException - is the same Close *)
  | L [I 12; I h; I _] => Some (Close h)
  | L [I 4; I r] => Some (WBegin (r =? 1))
  | L [I 5; I k; I v] => Some (WPut k v)
  | L [I 6; I k] => Some (WDel k)
  | L [I 7] => Some WCommit
  | L [I 8] => Some WRollback
  | L [I 9; N] => Some (SetMax None)
  | L [I 9; I n] => Some (SetMax (Some n))
  | L [I 10; I 0] => Some (SetPolicy pol_default)
  | L [I 10; I 1] => Some (SetPolicy pol_never)
  | L [I 10; I 2; I k] => Some (SetPolicy (pol_id_below k))
  | L [I 10; I 3] => Some (SetPolicy pol_even)
  | L [I 10; I 4; I k] => Some (SetPolicy (pol_has_key k))
  | L [I 10; I 5; I n] => Some (SetPolicy (pol_max_and_serial n))
  | _ => None
  end.

Fixpoint run_obs (s : st) (ops : list obs) : list obs :=
  match ops with
  | [] => []
  | o :: r =>
      match op_of_obs o with
      | None => [E eBadCase]
      | Some o' =>
          match step s o' with
          | Ok (s', res) => L [obs_of_result res; view s'] :: run_obs s' r
          | Lib e => L [E e; view s] :: run_obs s r
          | Internal e => L [E e; view s] :: run_obs s r
          end
      end
  end.

(* case = [zone kind (ignored: the same model for dns.versioned.Zone and dns.btreezone.Zone);
           list of ops]; result = one observation per op *)
Definition run (c : obs) : obs :=
  match c with
  | L [I _; L ops] => L (run_obs init ops)
  | _ => E eBadCase
  end.

End VersM.
