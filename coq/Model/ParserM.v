(* Functional image of dns/wirebase.py (class Parser) and of dns/name.py from_wire_parser /
   dns/wire.py Parser.get_name.  Definitions only; proofs are in Proofs/Parser*.v.

   A Python Parser object is mutable and survives the exceptions it raises (the message reader
   seeks on it again after a failure), so a computation is a state transformer that returns the
   state in both outcomes:      M A := pstate -> out A * pstate.
   Exceptions are XLib code (the library's hierarchy) or XInt code (Python's own: AssertionError,
   struct.error, ...).  Offsets are Z exactly as Python ints (remaining() may be negative). *)
From DV Require Import Base.Prelude Model.NameM.
Open Scope Z_scope.

Definition iAssertion := 103.     (* AssertionError *)

Record pstate := mkP { pcur : Z; pend : Z; pfur : Z }.

Inductive exn := XLib (e : Z) | XInt (e : Z).
Inductive out (A : Type) := Val (a : A) | Exn (x : exn).
Arguments Val {A}. Arguments Exn {A}.

Definition M (A : Type) := pstate -> out A * pstate.

Definition ret {A} (a : A) : M A := fun s => (Val a, s).
Definition raise {A} (x : exn) : M A := fun s => (Exn x, s).
Definition mbind {A B} (m : M A) (k : A -> M B) : M B :=
  fun s => match m s with
           | (Val a, s1) => k a s1
           | (Exn x, s1) => (Exn x, s1)
           end.
Notation "'dom' x <- m ; k" := (mbind m (fun x => k)) (at level 200, x name, m at level 100, k at level 200).

(* a `res` (value-level result of NameM) raised into the parser monad *)
Definition lift_res {A} (r : res A) : M A :=
  match r with Ok a => ret a | Lib e => raise (XLib e) | Internal e => raise (XInt e) end.

Definition set_cur (s : pstate) (c : Z) := mkP c (pend s) (pfur s).
Definition set_end (s : pstate) (e : Z) := mkP (pcur s) e (pfur s).

(* big-endian value of an octet string: int.from_bytes(b, "big") *)
Definition be_decode (l : list Z) : Z := fold_left (fun a b => a * 256 + b) l 0.

(* struct.unpack(fmt, data) for the "!" formats made of B/H/I: one width per field.
   None = struct.error (data length differs from calcsize) *)
Fixpoint unpack (widths : list Z) (data : list Z) : option (list Z) :=
  match widths with
  | [] => match data with [] => Some [] | _ => None end
  | w :: r =>
      if zlen data <? w then None
      else match unpack r (skipn (Z.to_nat w) data) with
           | Some vs => Some (be_decode (firstn (Z.to_nat w) data) :: vs)
           | None => None
           end
  end.
Definition calcsize (widths : list Z) : Z := fold_right Z.add 0 widths.

Section Parser.
  Variable wire : list Z.

  (* wire[a : a+n]  for a, n >= 0 *)
  Definition slice (a n : Z) : list Z := firstn (Z.to_nat n) (skipn (Z.to_nat a) wire).

  Definition remaining (s : pstate) : Z := pend s - pcur s.

  (* Parser.get_bytes *)
  Definition get_bytes (size : Z) : M (list Z) := fun s =>
    if size <? 0 then (Exn (XInt iAssertion), s)
    else if size >? remaining s then (Exn (XLib eFormError), s)
    else
      let c := pcur s + size in
      (Val (slice (pcur s) size), mkP c (pend s) (Z.max (pfur s) c)).

  (* Parser.get_struct(format) *)
  Definition get_struct (widths : list Z) : M (list Z) :=
    dom data <- get_bytes (calcsize widths);
    match unpack widths data with
    | Some vs => ret vs
    | None => raise (XInt iStructError)
    end.

  Definition get_uint (w : Z) : M Z :=
    dom vs <- get_struct [w];
    match vs with [v] => ret v | _ => raise (XInt iIndexError) end.
  Definition get_uint8 := get_uint 1.
  Definition get_uint16 := get_uint 2.
  Definition get_uint32 := get_uint 4.
  (* get_uint48 uses int.from_bytes, which accepts any length *)
  Definition get_uint48 : M Z := dom data <- get_bytes 6; ret (be_decode data).

  (* Parser.get_counted_bytes(length_size) *)
  Definition get_counted_bytes (length_size : Z) : M (list Z) :=
    dom lb <- get_bytes length_size; get_bytes (be_decode lb).

  (* Parser.get_remaining *)
  Definition get_remaining : M (list Z) := fun s => get_bytes (remaining s) s.

  (* Parser.seek *)
  Definition seek (wh : Z) : M unit := fun s =>
    if (wh <? 0) || (wh >? pend s) then (Exn (XLib eFormError), s)
    else (Val tt, set_cur s wh).

  (* Parser.restrict_to (context manager): the body runs with end = current + size; afterwards
     the old end is restored whatever happened; a body that returns normally must have consumed
     exactly `size` octets *)
  Definition restrict_to {A} (size : Z) (body : M A) : M A := fun s =>
    if size <? 0 then (Exn (XInt iAssertion), s)
    else if size >? remaining s then (Exn (XLib eFormError), s)
    else
      let saved := pend s in
      match body (set_end s (pcur s + size)) with
      | (Exn x, s1) => (Exn x, set_end s1 saved)
      | (Val a, s1) =>
          if pcur s1 =? pend s1 then (Val a, set_end s1 saved)
          else (Exn (XLib eFormError), set_end s1 saved)
      end.

  (* Parser.restore_furthest (context manager): finally current = furthest *)
  Definition restore_furthest {A} (body : M A) : M A := fun s =>
    match body s with
    | (r, s1) => (r, set_cur s1 (pfur s1))
    end.

  (* Parser.__init__(wire, current) *)
  Definition parser_init (current : Z) : out pstate :=
    let s0 := mkP 0 (zlen wire) current in
    if current =? 0 then Val s0
    else match seek current s0 with
         | (Val _, s1) => Val s1
         | (Exn x, _) => Exn x
         end.

  (* ---------- dns.name.from_wire_parser ---------- *)
  (* the `while count != 0` loop; `count` has just been read; acc is reversed *)
  Fixpoint nm_loop (fuel : nat) (count : Z) (biggest : Z) (acc : list label) : M (list label) :=
    match fuel with
    | O => raise (XInt iFuel)
    | S f =>
        if count =? 0 then ret (rev ([] :: acc))
        else if count <? 64 then
          dom l <- get_bytes count;
          dom c <- get_uint8;
          nm_loop f c biggest (l :: acc)
        else if count >=? 192 then
          dom lo <- get_uint8;
          let current := (Z.land count 63) * 256 + lo in
          if current >=? biggest then raise (XLib eBadPointer)
          else
            dom _ <- seek current;
            dom c <- get_uint8;
            nm_loop f c current acc
        else raise (XLib eBadLabelType)
    end.

  Definition nm_fuel (s : pstate) : nat := S (S (Z.to_nat ((pcur s + 2) * (pend s + 2)))).

  Definition from_wire_parser : M name := fun s =>
    (dom labels <- restore_furthest (dom c <- get_uint8; nm_loop (nm_fuel s) c (pcur s) []);
     lift_res (mk_name labels)) s.

  (* dns.wire.Parser.get_name(origin); `if origin:` is Name.__len__ *)
  Definition get_name (origin : option name) : M name :=
    dom n <- from_wire_parser;
    match origin with
    | Some (x :: o) => lift_res (relativize n (x :: o))
    | _ => ret n
    end.

  (* dns.name.from_wire(message, current) -> (name, consumed) *)
  Definition name_from_wire (current : Z) : res (name * Z) :=
    match parser_init current with
    | Exn (XLib e) => Lib e
    | Exn (XInt e) => Internal e
    | Val s0 =>
        match from_wire_parser s0 with
        | (Val n, s1) => Ok (n, pcur s1 - current)
        | (Exn (XLib e), _) => Lib e
        | (Exn (XInt e), _) => Internal e
        end
    end.

  (* ---------- a small op language: programs against the Parser API ----------
     used by the correspondence (the same op list is run on a real dns.wire.Parser) and by
     the theorems (no program over the API can produce a Python-level exception) *)
  Inductive op :=
  | OBytes (n : Z)
  | OU8 | OU16 | OU32 | OU48
  | OStruct (widths : list Z)
  | OCounted (k : Z)
  | ORemaining
  | OSeek (w : Z)
  | ORem
  | OName (origin : option name)
  | ORestrict (n : Z) (body : list op)
  | ORestore (body : list op).

  Definition emit {A} (m : M A) (f : A -> obs) : M (list obs) := dom a <- m; ret [f a].

  Fixpoint exec_op (o : op) : M (list obs) :=
    match o with
    | OBytes n => emit (get_bytes n) B
    | OU8 => emit get_uint8 I
    | OU16 => emit get_uint16 I
    | OU32 => emit get_uint32 I
    | OU48 => emit get_uint48 I
    | OStruct ws => emit (get_struct ws) (fun vs => L (map I vs))
    | OCounted k => emit (get_counted_bytes k) B
    | ORemaining => emit get_remaining B
    | OSeek w => emit (seek w) (fun _ => N)
    | ORem => fun s => (Val [I (remaining s)], s)
    | OName o => emit (get_name o) obs_of_name
    | ORestrict n body =>
        restrict_to n
          ((fix go (l : list op) : M (list obs) :=
              match l with
              | [] => ret []
              | x :: r => dom a <- exec_op x; dom b <- go r; ret (a ++ b)
              end) body)
    | ORestore body =>
        restore_furthest
          ((fix go (l : list op) : M (list obs) :=
              match l with
              | [] => ret []
              | x :: r => dom a <- exec_op x; dom b <- go r; ret (a ++ b)
              end) body)
    end.

  Fixpoint exec (l : list op) : M (list obs) :=
    match l with
    | [] => ret []
    | x :: r => dom a <- exec_op x; dom b <- exec r; ret (a ++ b)
    end.
End Parser.

(* ---------- harness interface ---------- *)
Definition obs_of_exn (x : exn) : obs := match x with XLib e => E e | XInt e => E e end.
Definition obs_of_state (s : pstate) : obs := L [I (pcur s); I (pend s); I (pfur s)].

Fixpoint zs_of_obs (l : list obs) : option (list Z) :=
  match l with
  | [] => Some []
  | I z :: r => match zs_of_obs r with Some zs => Some (z :: zs) | None => None end
  | _ => None
  end.

(* ops arrive as  L [I tag; args...] *)
Fixpoint op_of_obs (o : obs) : option op :=
  match o with
  | L [I 0; I n] => Some (OBytes n)
  | L [I 1] => Some OU8
  | L [I 2] => Some OU16
  | L [I 3] => Some OU32
  | L [I 4] => Some OU48
  | L [I 5; L ws] => match zs_of_obs ws with Some ws => Some (OStruct ws) | None => None end
  | L [I 6; I k] => Some (OCounted k)
  | L [I 7] => Some ORemaining
  | L [I 8; I w] => Some (OSeek w)
  | L [I 9] => Some ORem
  | L [I 10; o] => match oname_of_obs o with Some o => Some (OName o) | None => None end
  | L [I 11; I n; L body] =>
      match (fix go (l : list obs) : option (list op) :=
               match l with
               | [] => Some []
               | x :: r => match op_of_obs x, go r with
                           | Some a, Some b => Some (a :: b)
                           | _, _ => None
                           end
               end) body with
      | Some b => Some (ORestrict n b)
      | None => None
      end
  | L [I 12; L body] =>
      match (fix go (l : list obs) : option (list op) :=
               match l with
               | [] => Some []
               | x :: r => match op_of_obs x, go r with
                           | Some a, Some b => Some (a :: b)
                           | _, _ => None
                           end
               end) body with
      | Some b => Some (ORestore b)
      | None => None
      end
  | _ => None
  end.

Fixpoint ops_of_obs (l : list obs) : option (list op) :=
  match l with
  | [] => Some []
  | x :: r => match op_of_obs x, ops_of_obs r with
              | Some a, Some b => Some (a :: b)
              | _, _ => None
              end
  end.

(* run a program on Parser(wire, current): [outcome; state] *)
Definition run_parser (wire : list Z) (current : Z) (ops : list op) : obs :=
  match parser_init wire current with
  | Exn x => L [obs_of_exn x; N]
  | Val s0 =>
      match exec wire ops s0 with
      | (Val tr, s1) => L [L tr; obs_of_state s1]
      | (Exn x, s1) => L [obs_of_exn x; obs_of_state s1]
      end
  end.
