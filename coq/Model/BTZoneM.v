(* Model of dns/btreezone.py (with the parts of dns/zone.py, dns/transaction.py and the
   dns/btree.py cursor interface it uses).  Definitions only; proofs live in Proofs/BTZone*.v.

   - The documentation-level specification: flags_of / delegations_of / bounds_spec.
   - The incremental model: WritableVersion (_maybe_cow_with_name, update_glue_flag,
     delete_node, put_rdataset, delete_rdataset), Delegations.get_delegation / is_glue,
     ImmutableVersion.bounds, the add/replace/delete dispatch of dns.transaction.Transaction
     and commit/rollback of dns.zone.Transaction.
   - BTreeDict / BTreeSet are strictly sorted association lists; a cursor is a zipper
     (elements before the position, reversed; elements after it).
   - rdata are abstract ids (Z); an rdataset is (rdtype, list of ids) in insertion order. *)
From DV Require Import Base.Prelude Model.NameM.
Open Scope Z_scope.

Definition fORIGIN := 1.
Definition fDELEGATION := 2.
Definition fGLUE := 4.
Definition tNS := 2.

Definition eKey := 21.      (* KeyError of dns.zone._validate_name *)
Definition eAssert := 31.   (* AssertionError: bounds() found no left neighbour *)
Definition iKeyError := 121. (* KeyError of `del self.nodes[name]` on a missing key (proved unreachable) *)
Definition eBadCase := 999.

Record node := mkNode { nflags : Z; nrds : list (Z * list Z) }.
Record cfg := mkCfg { c_rel : bool; c_origin : name }.

(* ---------- BTreeDict / BTreeSet as sorted association lists ---------- *)
Section AL.
  Context {V : Type}.
  Definition al := list (name * V).

  (* BTree.get_element *)
  Fixpoint al_get (k : name) (l : al) : option V :=
    match l with
    | [] => None
    | (k', v) :: r => if name_eqb k k' then Some v else al_get k r
    end.

  Definition al_mem (k : name) (l : al) : bool :=
    match al_get k l with Some _ => true | None => false end.

  (* BTreeDict.__setitem__ / BTreeSet.add: insert_element replaces the whole element
     (key spelling included) when the key is present *)
  Fixpoint al_set (k : name) (v : V) (l : al) : al :=
    match l with
    | [] => [(k, v)]
    | (k', v') :: r =>
        let c := order k k' in
        if c =? 0 then (k, v) :: r
        else if c <? 0 then (k, v) :: (k', v') :: r
        else (k', v') :: al_set k v r
    end.

  (* in-place mutation of the value object stored under k: the stored key is untouched *)
  Fixpoint al_update (k : name) (v : V) (l : al) : al :=
    match l with
    | [] => []
    | (k', v') :: r => if name_eqb k k' then (k', v) :: r else (k', v') :: al_update k v r
    end.

  (* BTree.delete_key: None when the key is missing *)
  Fixpoint al_del (k : name) (l : al) : option al :=
    match l with
    | [] => None
    | (k', v') :: r =>
        if name_eqb k k' then Some r
        else match al_del k r with Some r' => Some ((k', v') :: r') | None => None end
    end.

  (* MutableSet.discard / dict deletion that ignores a missing key *)
  Definition al_discard (k : name) (l : al) : al :=
    match al_del k l with Some l' => l' | None => l end.

  (* Cursor: (elements before the position, nearest first; elements after it) *)
  Definition cursor := (al * al)%type.

  (* Cursor.seek(key, before=False): just after key if present, else after its greatest predecessor *)
  Fixpoint seek_after (k : name) (before after : al) : cursor :=
    match after with
    | [] => (before, [])
    | (k', v) :: r => if order k' k <=? 0 then seek_after k ((k', v) :: before) r else (before, after)
    end.

  Definition c_seek (l : al) (k : name) : cursor := seek_after k [] l.

  Definition c_next (c : cursor) : option (name * V) * cursor :=
    match snd c with
    | [] => (None, c)
    | e :: a => (Some e, (e :: fst c, a))
    end.

  Definition c_prev (c : cursor) : option (name * V) * cursor :=
    match fst c with
    | [] => (None, c)
    | e :: b => (Some e, (b, e :: snd c))
    end.
End AL.

Definition nodes_t := @al node.
Definition delegs_t := @al unit.

Record ver := mkVer { v_nodes : nodes_t; v_delegs : delegs_t; v_changed : list name }.

(* ---------- dns.node.Node rdataset list ---------- *)
Fixpoint rds_get (t : Z) (rds : list (Z * list Z)) : option (list Z) :=
  match rds with
  | [] => None
  | (t', x) :: r => if t' =? t then Some x else rds_get t r
  end.

(* Node.delete_rdataset: remove the (first) rdataset of that type *)
Fixpoint rds_remove (t : Z) (rds : list (Z * list Z)) : list (Z * list Z) :=
  match rds with
  | [] => []
  | (t', x) :: r => if t' =? t then r else (t', x) :: rds_remove t r
  end.

(* rdataset keys: a type id t < sigBase is the rdtype itself (covers NONE); sigBase + c is
   RRSIG covering c *)
Definition sigBase := 1000000.
Definition tCNAME := 5.
Definition base_type (t : Z) : Z := if t >=? sigBase then t - sigBase else t.

(* dns.node.NodeKind.classify: 2 = CNAME (CNAME, RRSIG(CNAME)); 1 = NEUTRAL (NSEC, NSEC3, KEY and
   their RRSIGs); 0 = REGULAR ("other data") *)
Definition kind (t : Z) : Z :=
  let b := base_type t in
  if b =? tCNAME then 2
  else if (b =? 47) || (b =? 50) || (b =? 25) then 1
  else 0.

(* Node._append_rdataset: a CNAME evicts the other data, other data evicts a CNAME *)
Definition rds_append (t : Z) (x : list Z) (rds : list (Z * list Z)) : list (Z * list Z) :=
  match rds with
  | [] => [(t, x)]
  | _ =>
      (if kind t =? 2 then filter (fun r => negb (kind (fst r) =? 0)) rds
       else if kind t =? 0 then filter (fun r => negb (kind (fst r) =? 2)) rds
       else rds) ++ [(t, x)]
  end.

(* Node.replace_rdataset: delete the old one, append the new one *)
Definition rds_replace (t : Z) (x : list Z) (rds : list (Z * list Z)) := rds_append t x (rds_remove t rds).

(* dns.rdatatype.is_singleton: SOA, NXT, DNAME, NSEC, CNAME *)
Definition singleton (t : Z) : bool := (t =? 6) || (t =? 30) || (t =? 39) || (t =? 47) || (t =? 5).

Definition has_ns (nd : node) : bool := match rds_get tNS (nrds nd) with Some _ => true | None => false end.

Definition zmem (x : Z) (l : list Z) : bool := existsb (Z.eqb x) l.
(* dns.set.Set.union / difference on rdata ids (first-insertion order) *)
Definition ids_union (a b : list Z) : list Z := fold_left (fun acc x => if zmem x acc then acc else acc ++ [x]) b a.
Definition ids_diff (a b : list Z) : list Z := filter (fun x => negb (zmem x b)) a.
(* Rdataset.union: every add() to a singleton type clears the set first *)
Definition rd_union (t : Z) (a b : list Z) : list Z :=
  if singleton t then match rev b with [] => a | y :: _ => [y] end else ids_union a b.

(* ---------- the specification, from the documentation ---------- *)
Definition is_apex (c : cfg) (n : name) : bool :=
  if c_rel c then name_eqb n empty else name_eqb n (c_origin c).

Definition strictly_beneath (n m : name) : bool := is_subdomain n m && negb (name_eqb n m).

(* m owns an NS rdataset and is not the apex *)
Definition ns_owner (c : cfg) (e : name * node) : bool := has_ns (snd e) && negb (is_apex c (fst e)).

(* "a non-apex NS owner that is not beneath another one" *)
Definition deleg_point (c : cfg) (content : nodes_t) (e : name * node) : bool :=
  ns_owner c e && negb (existsb (fun e' => ns_owner c e' && strictly_beneath (fst e) (fst e')) content).

(* "strictly beneath such an owner" *)
Definition glue_name (c : cfg) (content : nodes_t) (n : name) : bool :=
  existsb (fun e => deleg_point c content e && strictly_beneath n (fst e)) content.

Definition flags_of (c : cfg) (content : nodes_t) (e : name * node) : Z :=
  if is_apex c (fst e) then fORIGIN
  else if glue_name c content (fst e) then fGLUE
  else if deleg_point c content e then fDELEGATION
  else 0.

Definition delegations_of (c : cfg) (content : nodes_t) : list name :=
  map fst (filter (deleg_point c content) content).

(* names that are visible to bounds(): everything that is not glue *)
Definition visible (c : cfg) (content : nodes_t) : list name :=
  map fst (filter (fun e => negb (glue_name c content (fst e))) content).

Definition name_le (a b : name) : bool := order a b <=? 0.
Definition name_lt (a b : name) : bool := order a b <? 0.

(* the suffixes of q, longest first: q, parent q, ... , [] *)
Fixpoint suffixes (q : name) : list name :=
  match q with
  | [] => [[]]
  | _ :: r => q :: suffixes r
  end.

Record bounds := mkBounds {
  b_left : name; b_right : option name; b_encloser : name; b_equal : bool; b_deleg : bool }.

(* left: a visible name <= q such that no visible name lies strictly between; right likewise;
   encloser: the longest suffix of q that is at or above some visible name (a node or an empty
   non-terminal); deleg: q is at or below a delegation point *)
Definition bounds_spec (c : cfg) (content : nodes_t) (q : name) (b : bounds) : Prop :=
  let vis := visible c content in
  (In (b_left b) vis /\ name_le (b_left b) q = true /\
   forall v, In v vis -> name_le v q = true -> name_le v (b_left b) = true) /\
  (match b_right b with
   | Some r => In r vis /\ name_lt q r = true /\
               forall v, In v vis -> name_lt q v = true -> name_le r v = true
   | None => forall v, In v vis -> name_lt q v = false
   end) /\
  (In (b_encloser b) (suffixes q) /\
   (exists v, In v vis /\ is_subdomain v (b_encloser b) = true) /\
   forall s, In s (suffixes q) -> (exists v, In v vis /\ is_subdomain v s = true) ->
             (length s <= length (b_encloser b))%nat) /\
  b_equal b = name_eqb (b_left b) q /\
  b_deleg b = existsb (fun d => is_subdomain q d) (delegations_of c content).

(* ---------- dns.zone._validate_name (the origin is known) ---------- *)
Definition validate_name (c : cfg) (n : name) : res name :=
  if is_absolute n then
    if negb (is_subdomain n (c_origin c)) then Lib eKey
    else if c_rel c then relativize n (c_origin c) else Ok n
  else
    match derelativize n (c_origin c) with
    | Ok abs_name => if negb (c_rel c) then Ok abs_name else Ok n
    | Lib e => if e =? eNameTooLong then Lib eKey else Lib e
    | Internal e => Internal e
    end.

(* ---------- Delegations ---------- *)
(* Delegations.get_delegation *)
Definition get_delegation (d : delegs_t) (n : name) : option name * bool :=
  match c_prev (c_seek d n) with
  | (None, _) => (None, false)
  | (Some (cut, _), _) =>
      let r := reln n cut in
      let is_sub := r =? rSUB in
      if is_sub || (r =? rEQUAL) then (Some cut, is_sub) else (None, false)
  end.

(* Delegations.is_glue *)
Definition deleg_is_glue (d : delegs_t) (n : name) : bool :=
  match get_delegation d n with
  | (None, _) => false
  | (Some _, is_sub) => is_sub
  end.

(* ---------- WritableVersion ---------- *)
Definition name_in (n : name) (l : list name) : bool := existsb (name_eqb n) l.
Definition changed_add (n : name) (l : list name) : list name := if name_in n l then l else n :: l.

(* WritableVersion._is_origin (name already validated) *)
Definition is_origin (c : cfg) (n : name) : bool :=
  if c_rel c then name_eqb n empty else name_eqb n (c_origin c).

(* dns.zone.WritableVersion._maybe_cow_with_name followed by the btreezone override;
   n is already validated.  Returns the version and the (value of the) node object. *)
Definition maybe_cow (c : cfg) (v : ver) (n : name) : ver * node :=
  let '(v1, nd) :=
    match al_get n (v_nodes v) with
    | Some nd0 =>
        if name_in n (v_changed v) then (v, nd0)
        else
          let nn := mkNode 0 (nrds nd0) in
          (mkVer (al_set n nn (v_nodes v)) (v_delegs v) (changed_add n (v_changed v)), nn)
    | None =>
        let nn := mkNode 0 [] in
        (mkVer (al_set n nn (v_nodes v)) (v_delegs v) (changed_add n (v_changed v)), nn)
    end in
  let nd' :=
    if is_origin c n then mkNode (Z.lor (nflags nd) fORIGIN) (nrds nd)
    else if deleg_is_glue (v_delegs v1) n then mkNode (Z.lor (nflags nd) fGLUE) (nrds nd)
    else if al_mem n (v_delegs v1) then mkNode (Z.lor (nflags nd) fDELEGATION) (nrds nd)
    else nd in
  (mkVer (al_update n nd' (v_nodes v1)) (v_delegs v1) (v_changed v1), nd').

(* the `while True` loop of update_glue_flag over the elements after the cursor; returns the
   delegations, the changed set and the `updates` list (in loop order) *)
Fixpoint ugf_loop (n : name) (is_glue : bool) (after : nodes_t) (exposed : option name)
         (d : delegs_t) (ch : list name) : delegs_t * list name * nodes_t :=
  match after with
  | [] => (d, ch, [])
  | (ename, nd) :: r =>
      if negb (is_subdomain ename n) then (d, ch, [])
      else
        let ch' := changed_add ename ch in
        let '(fl, exposed', d1) :=
          if is_glue then (fGLUE, exposed, al_discard ename d)
          else if match exposed with Some x => is_subdomain ename x | None => false end
               then (fGLUE, exposed, d)
          else if has_ns nd then (fDELEGATION, Some ename, al_set ename tt d)
          else (0, exposed, d) in
        let '(d2, ch2, ups) := ugf_loop n is_glue r exposed' d1 ch' in
        (d2, ch2, (ename, mkNode fl (nrds nd)) :: ups)
  end.

(* WritableVersion.update_glue_flag *)
Definition update_glue_flag (v : ver) (n : name) (is_glue : bool) : ver :=
  let '(_, after) := c_seek (v_nodes v) n in
  let '(d, ch, updates) := ugf_loop n is_glue after None (v_delegs v) (v_changed v) in
  mkVer (fold_left (fun nodes u => al_set (fst u) (snd u) nodes) updates (v_nodes v)) d ch.

(* WritableVersion.delete_node (n validated) *)
Definition delete_node (c : cfg) (v : ver) (n : name) : res ver :=
  match al_get n (v_nodes v) with
  | None => Ok v
  | Some nd =>
      let v1 :=
        if negb (Z.land (nflags nd) fDELEGATION =? 0) then
          update_glue_flag (mkVer (v_nodes v) (al_discard n (v_delegs v)) (v_changed v)) n false
        else v in
      match al_del n (v_nodes v1) with
      | None => Internal iKeyError
      | Some nodes' => Ok (mkVer nodes' (v_delegs v1) (changed_add n (v_changed v1)))
      end
  end.

(* WritableVersion.put_rdataset (n validated) *)
Definition put_rdataset (c : cfg) (v : ver) (n : name) (t : Z) (x : list Z) : ver :=
  let '(v1, nd) := maybe_cow c v n in
  let '(v2, nd2) :=
    if (t =? tNS) && (Z.land (nflags nd) (Z.lor fORIGIN fGLUE) =? 0) then
      let nd2 := mkNode (Z.lor (nflags nd) fDELEGATION) (nrds nd) in
      let v2 := mkVer (al_update n nd2 (v_nodes v1)) (v_delegs v1) (v_changed v1) in
      if negb (al_mem n (v_delegs v2)) then
        (update_glue_flag (mkVer (v_nodes v2) (al_set n tt (v_delegs v2)) (v_changed v2)) n true, nd2)
      else (v2, nd2)
    else (v1, nd) in
  let nd3 := mkNode (nflags nd2) (rds_replace t x (nrds nd2)) in
  if negb (Z.land (nflags nd3) fDELEGATION =? 0) && negb (has_ns nd3) then
    (* a CNAME evicted the NS rdataset of a delegation point *)
    let nd4 := mkNode (Z.land (nflags nd3) (Z.lnot fDELEGATION)) (nrds nd3) in
    update_glue_flag (mkVer (al_update n nd4 (v_nodes v2)) (al_discard n (v_delegs v2)) (v_changed v2)) n false
  else mkVer (al_update n nd3 (v_nodes v2)) (v_delegs v2) (v_changed v2).

(* WritableVersion.delete_rdataset (n validated) *)
Definition delete_rdataset (c : cfg) (v : ver) (n : name) (t : Z) : res ver :=
  let '(v1, nd) := maybe_cow c v n in
  let '(v2, nd2) :=
    if (t =? tNS) && al_mem n (v_delegs v1) then
      let nd2 := mkNode (Z.land (nflags nd) (Z.lnot fDELEGATION)) (nrds nd) in
      let v2 := mkVer (al_update n nd2 (v_nodes v1)) (al_discard n (v_delegs v1)) (v_changed v1) in
      (update_glue_flag v2 n false, nd2)
    else (v1, nd) in
  let nd3 := mkNode (nflags nd2) (rds_remove t (nrds nd2)) in
  match nrds nd3 with
  | [] =>
      match al_del n (v_nodes v2) with
      | None => Internal iKeyError
      | Some nodes' => Ok (mkVer nodes' (v_delegs v2) (v_changed v2))
      end
  | _ => Ok (mkVer (al_update n nd3 (v_nodes v2)) (v_delegs v2) (v_changed v2))
  end.

(* ---------- version-level operations (names validated) ---------- *)
Inductive vop :=
| VPut (n : name) (t : Z) (x : list Z)
| VDelRds (n : name) (t : Z)
| VDelNode (n : name).

Definition vstep (c : cfg) (v : ver) (o : vop) : res ver :=
  match o with
  | VPut n t x => Ok (put_rdataset c v n t x)
  | VDelRds n t => delete_rdataset c v n t
  | VDelNode n => delete_node c v n
  end.

(* ---------- dns.transaction.Transaction on top of the version ---------- *)
Inductive top :=
| TAdd (n : name) (t : Z) (x : list Z)
| TReplace (n : name) (t : Z) (x : list Z)
| TDelName (n : name)
| TDelType (n : name) (t : Z)
| TDelRdatas (n : name) (t : Z) (x : list Z).

(* Version.get_rdataset (n validated) *)
Definition get_rdataset (v : ver) (n : name) (t : Z) : option (list Z) :=
  match al_get n (v_nodes v) with
  | None => None
  | Some nd => rds_get t (nrds nd)
  end.

(* the version-level calls a transaction operation makes, given the current version *)
Definition dispatch (c : cfg) (v : ver) (o : top) : res (list vop) :=
  match o with
  | TAdd n t x =>
      do n' <- validate_name c n;
      match get_rdataset v n' t with
      | Some ex => Ok [VPut n' t (rd_union t ex x)]
      | None => Ok [VPut n' t x]
      end
  | TReplace n t x => do n' <- validate_name c n; Ok [VPut n' t x]
  | TDelName n => do n' <- validate_name c n; Ok [VDelNode n']
  | TDelType n t =>
      do n' <- validate_name c n;
      match get_rdataset v n' t with
      | Some _ => Ok [VDelRds n' t]
      | None => Ok []
      end
  | TDelRdatas n t x =>
      do n' <- validate_name c n;
      match x with
      | [] => Ok [VDelNode n']          (* `if rdataset:` is false for an empty rdataset *)
      | _ =>
          match get_rdataset v n' t with
          | Some ex =>
              let rest := ids_diff ex x in
              match rest with
              | [] => Ok [VDelRds n' t]
              | _ => Ok [VPut n' t rest]
              end
          | None => Ok []
          end
      end
  end.

Fixpoint vsteps (c : cfg) (v : ver) (os : list vop) : res ver :=
  match os with
  | [] => Ok v
  | o :: r => do v' <- vstep c v o; vsteps c v' r
  end.

Definition tstep (c : cfg) (v : ver) (o : top) : res ver :=
  do os <- dispatch c v o; vsteps c v os.

(* ---------- zone = the newest committed version ---------- *)
Record zone := mkZone { z_nodes : nodes_t; z_delegs : delegs_t }.
Definition zone0 := mkZone [] [].

Definition begin_txn (z : zone) (replacement : bool) : ver :=
  if replacement then mkVer [] [] [] else mkVer (z_nodes z) (z_delegs z) [].

(* Transaction._end_transaction: publish only when committing and something changed *)
(* ImmutableVersion.__init__: `for name in version.changed: node = version.nodes.get(name);
   if node: version.nodes[name] = ImmutableNode(node)` - the key is re-inserted with the
   spelling kept in the changed set *)
Definition freeze_nodes (nodes : nodes_t) (changed : list name) : nodes_t :=
  fold_left (fun ns n => match al_get n ns with Some nd => al_set n nd ns | None => ns end) changed nodes.

Definition end_txn (z : zone) (v : ver) (commit : bool) : zone :=
  if commit then
    match v_changed v with
    | [] => z
    | _ => mkZone (freeze_nodes (v_nodes v) (v_changed v)) (v_delegs v)
    end
  else z.

(* operations that raise leave the version as it was *)
Fixpoint run_ops (c : cfg) (v : ver) (os : list top) : ver * list (option Z) :=
  match os with
  | [] => (v, [])
  | o :: r =>
      match tstep c v o with
      | Ok v' => let '(vf, rs) := run_ops c v' r in (vf, None :: rs)
      | Lib e => let '(vf, rs) := run_ops c v r in (vf, Some e :: rs)
      | Internal e => let '(vf, rs) := run_ops c v r in (vf, Some e :: rs)
      end
  end.

Record txn := mkTxn { t_repl : bool; t_commit : bool; t_ops : list top }.

Definition run_txn (c : cfg) (z : zone) (t : txn) : zone * list (option Z) :=
  let '(v, rs) := run_ops c (begin_txn z (t_repl t)) (t_ops t) in
  (end_txn z v (t_commit t), rs).

Definition exec (c : cfg) (h : list txn) : zone :=
  fold_left (fun z t => fst (run_txn c z t)) h zone0.

(* ---------- ImmutableVersion.bounds ---------- *)
Definition node_is_glue (nd : node) : bool := negb (Z.land (nflags nd) fGLUE =? 0).

(* `while left.value().is_glue(): left = c.prev(); assert left is not None` *)
Fixpoint skip_glue_left (lft : name * node) (cur : @cursor node) (before : nodes_t) {struct before}
  : res ((name * node) * @cursor node) :=
  if node_is_glue (snd lft) then
    match before with
    | [] => Internal eAssert
    | e :: b => skip_glue_left e (b, e :: snd cur) b
    end
  else Ok (lft, cur).

(* `while True: right = c.next(); if right is None or not right.value().is_glue(): break` *)
Fixpoint skip_glue_right (after : nodes_t) : option (name * node) :=
  match after with
  | [] => None
  | e :: a => if node_is_glue (snd e) then skip_glue_right a else Some e
  end.

(* name[len(name) - n :] *)
Definition py_suffix (q : name) (n : Z) : name :=
  let start := zlen q - n in
  if 0 <=? start then skipn (Z.to_nat start) q
  else skipn (Z.to_nat (Z.max 0 (zlen q + start))) q.

Definition bounds_v (c : cfg) (z : zone) (q0 : name) : res bounds :=
  do o <- validate_name c (c_origin c);
  do q <- validate_name c q0;
  let '(cut, _) := get_delegation (z_delegs z) q in
  let '(target, is_deleg) := match cut with Some d => (d, true) | None => (q, false) end in
  let cur := c_seek (z_nodes z) target in
  match c_prev cur with
  | (None, _) => Internal eAssert
  | (Some left0, cur1) =>
      do lc <- skip_glue_left left0 cur1 (fst cur1);
      let '(lft, cur2) := lc in
      let '(_, cur3) := c_next cur2 in
      let rgt := skip_glue_right (snd cur3) in
      let lcmp := fullcompare (fst lft) q in
      let rcommon := match rgt with Some r => common (fst r) q | None => zlen o end in
      let n := Z.max (snd lcmp) rcommon in
      Ok (mkBounds (fst lft) (option_map fst rgt) (py_suffix q n)
                   (fst (fst lcmp) =? rEQUAL) is_deleg)
  end.

(* ---------- harness interface ---------- *)
Definition obs_of_node (e : name * node) : obs :=
  L [obs_of_name (fst e); I (nflags (snd e));
     L (map (fun r => L [I (fst r); L (map I (snd r))]) (nrds (snd e)))].

Definition obs_of_zone (z : zone) : obs :=
  L [L (map obs_of_node (z_nodes z)); L (map (fun e => obs_of_name (fst e)) (z_delegs z))].

Definition obs_of_oname (o : option name) : obs := match o with Some n => obs_of_name n | None => N end.

Definition obs_of_query (c : cfg) (z : zone) (q : name) : obs :=
  match bounds_v c z q with
  | Ok b =>
      match validate_name c q with
      | Ok q' =>
          let '(cut, sub) := get_delegation (z_delegs z) q' in
          L [obs_of_name (b_left b); obs_of_oname (b_right b); obs_of_name (b_encloser b);
             ob (b_equal b); ob (b_deleg b); obs_of_oname cut; ob sub]
      | Lib e => E e
      | Internal e => E e
      end
  | Lib e => E e
  | Internal e => E e
  end.

Fixpoint ids_of_obs (l : list obs) : option (list Z) :=
  match l with
  | [] => Some []
  | I x :: r => match ids_of_obs r with Some y => Some (x :: y) | None => None end
  | _ => None
  end.

Definition top_of_obs (o : obs) : option top :=
  match o with
  | L [I 1; L n; I t; L x] =>
      match name_of_obs n, ids_of_obs x with Some n, Some x => Some (TAdd n t x) | _, _ => None end
  | L [I 2; L n; I t; L x] =>
      match name_of_obs n, ids_of_obs x with Some n, Some x => Some (TReplace n t x) | _, _ => None end
  | L [I 3; L n] => match name_of_obs n with Some n => Some (TDelName n) | None => None end
  | L [I 4; L n; I t] => match name_of_obs n with Some n => Some (TDelType n t) | None => None end
  | L [I 5; L n; I t; L x] =>
      match name_of_obs n, ids_of_obs x with Some n, Some x => Some (TDelRdatas n t x) | _, _ => None end
  | _ => None
  end.

Fixpoint tops_of_obs (l : list obs) : option (list top) :=
  match l with
  | [] => Some []
  | o :: r => match top_of_obs o, tops_of_obs r with Some a, Some b => Some (a :: b) | _, _ => None end
  end.

Definition obs_of_opres (r : option Z) : obs := match r with None => I 0 | Some e => E e end.

(* one transaction: [replacement; commit; ops; queries] *)
Definition run_txn_obs (c : cfg) (z : zone) (o : obs) : zone * obs :=
  match o with
  | L [I repl; I commit; L ops; L qs] =>
      match tops_of_obs ops, names_of_obs qs with
      | Some ops, Some qs =>
          let '(z', rs) := run_txn c z (mkTxn (repl =? 1) (commit =? 1) ops) in
          (z', L [L (map obs_of_opres rs); obs_of_zone z'; L (map (obs_of_query c z') qs)])
      | _, _ => (z, E eBadCase)
      end
  | _ => (z, E eBadCase)
  end.

Fixpoint run_txns (c : cfg) (z : zone) (l : list obs) : list obs :=
  match l with
  | [] => []
  | o :: r => let '(z', out) := run_txn_obs c z o in out :: run_txns c z' r
  end.

(* case = [relativize; origin; transactions], [...; t] or [...; t; rdclass] (rdclass = the zone's class
   IN/CH/HS: nothing in the model depends on it, so the implementation must not either) where t is
   the branching parameter of the B-trees the implementation is run with (the model does not
   depend on it: the observable behaviour must not either) *)
Definition run (case : obs) : obs :=
  match case with
  | L [I rel; L origin; L txns] | L [I rel; L origin; L txns; I _] | L [I rel; L origin; L txns; I _; I _] =>
      match name_of_obs origin with
      | Some o => L (run_txns (mkCfg (rel =? 1) o) zone0 txns)
      | None => E eBadCase
      end
  | _ => E eBadCase
  end.
