(* Model of the zone-file text codec of dnspython:
     dns/ttl.py (from_text), dns/grange.py (from_text), dns/tokenizer.py (Tokenizer.get as a
     logical-line lexer), dns/zonefile.py (Reader.read, _rr_line, _generate_line, _parse_modify,
     _format_index, _check_cname_and_other_data), the parts of dns/transaction.py / dns/zone.py /
     dns/node.py / dns/rdataset.py used by Reader (txn.add, put_rdataset, replace_rdataset,
     _append_rdataset, classify, check_origin) and the printer (Zone.to_styled_file,
     Node.to_styled_text, Rdataset.to_styled_text, justify).
   RDATA is a parameter of the property: it is modelled as a list of fields (domain names, which
   the zone-file machinery relativizes, and verbatim tokens) for a fixed table of types.
   Definitions only; proofs live in Proofs/ZoneText*.v. *)
From DV Require Import Base.Prelude Model.NameM.
Open Scope Z_scope.

(* ---------- result codes ---------- *)
Definition eSyntax := 1.         (* dns.exception.SyntaxError (all subclasses are re-raised as this by Reader.read) *)
Definition eNameTooLongZ := 2.   (* dns.name.NameTooLong escaping from an owner / $ORIGIN name *)
Definition eUnknownOrigin := 3.  (* dns.zone.UnknownOrigin *)
Definition eCNAMEAndOther := 4.  (* dns.zonefile.CNAMEAndOtherData *)
Definition eNoSOA := 5.          (* dns.zone.NoSOA *)
Definition eNoNS := 6.           (* dns.zone.NoNS *)
Definition eBadTTL := 10.        (* dns.ttl.BadTTL (stand-alone ttl.from_text) *)
Definition iValueError := 107.   (* Python ValueError *)
Definition iAssertion := 108.    (* Python AssertionError *)
Definition iFuelZ := 199.        (* model artefact; proved unreachable *)
Definition eUnmodelled := 998.   (* input outside the modelled fragment *)

(* ---------- small list helpers ---------- *)
Definition upper (c : Z) : Z := if (97 <=? c) && (c <=? 122) then c - 32 else c.
Definition upper_l (l : list Z) : list Z := map upper l.

Fixpoint is_prefix (p s : list Z) : bool :=
  match p, s with
  | [], _ => true
  | x :: p', y :: s' => (x =? y) && is_prefix p' s'
  | _ :: _, [] => false
  end.

Fixpoint join_sp (ls : list (list Z)) : list Z :=
  match ls with
  | [] => []
  | [x] => x
  | x :: r => x ++ 32 :: join_sp r
  end.

Definition all_digits (l : list Z) : bool := forallb is_digit l.

(* int() of a digit string, as the left-to-right loops of the Python code compute it *)
Definition int_of_digits (l : list Z) : Z := fold_left (fun a c => a * 10 + (c - 48)) l 0.

(* digits of n >= 0 in the given base; lower-case letters for digits >= 10 when up = false *)
Definition digit_char (up : bool) (d : Z) : Z := if d <? 10 then 48 + d else if up then 55 + d else 87 + d.

Fixpoint digits_fuel (base : Z) (up : bool) (fuel : nat) (n : Z) : list Z :=
  match fuel with
  | O => []
  | S f => if n <? base then [digit_char up n]
           else digits_fuel base up f (n / base) ++ [digit_char up (n mod base)]
  end.

Definition digits (base : Z) (up : bool) (n : Z) : list Z :=
  digits_fuel base up (S (Z.to_nat (Z.log2 n))) n.

(* str(n) for n >= 0 *)
Definition dec (n : Z) : list Z := digits 10 false n.

(* ---------- dns.ttl.from_text ---------- *)
Definition MAX_TTL := 4294967295.

Fixpoint ttl_loop (t : list Z) (total current : Z) (need_digit : bool) : res Z :=
  match t with
  | [] => if negb (current =? 0) then Lib eBadTTL else Ok total
  | c :: r =>
      if is_digit c then ttl_loop r total (current * 10 + (c - 48)) false
      else if need_digit then Lib eBadTTL
      else
        let c' := lower c in
        if c' =? 119 then ttl_loop r (total + current * 604800) 0 true
        else if c' =? 100 then ttl_loop r (total + current * 86400) 0 true
        else if c' =? 104 then ttl_loop r (total + current * 3600) 0 true
        else if c' =? 109 then ttl_loop r (total + current * 60) 0 true
        else if c' =? 115 then ttl_loop r (total + current) 0 true
        else Lib eBadTTL
  end.

Definition ttl_from_text (t : list Z) : res Z :=
  do total <- (match t with
               | [] => Lib eBadTTL
               | _ => if all_digits t then Ok (int_of_digits t) else ttl_loop t 0 0 true
               end);
  if (total <? 0) || (total >? MAX_TTL) then Lib eBadTTL else Ok total.

(* ---------- dns.grange.from_text ---------- *)
Inductive gstate := G0 | G1 | G2.

(* int(cur): ValueError on the empty string *)
Definition py_int (cur : list Z) : res Z :=
  match cur with [] => Internal iValueError | _ => Ok (int_of_digits cur) end.

(* cur is kept reversed *)
Fixpoint grange_loop (t : list Z) (start stop : Z) (cur : list Z) (st : gstate)
  : res (Z * Z * list Z * gstate) :=
  match t with
  | [] => Ok (start, stop, cur, st)
  | c :: r =>
      if (c =? 45) && (match st with G0 => true | _ => false end) then
        do v <- py_int (rev cur); grange_loop r v stop [] G1
      else if c =? 47 then
        do v <- py_int (rev cur); grange_loop r start v [] G2
      else if is_digit c then grange_loop r start stop (c :: cur) st
      else Lib eSyntax
  end.

Definition grange_from_text (t : list Z) : res (Z * Z * Z) :=
  match t with
  | 45 :: _ => Lib eSyntax
  | _ =>
      do (start, stop, cur, st) <- grange_loop t (-1) (-1) [] G0;
      do (stop, step) <-
         (match st with
          | G0 => Lib eSyntax
          | G1 => do v <- py_int (rev cur); Ok (v, 1)
          | G2 => do v <- py_int (rev cur); Ok (stop, v)
          end);
      if negb (step >=? 1) then Internal iAssertion
      else if negb (start >=? 0) then Internal iAssertion
      else if start >? stop then Lib eSyntax
      else Ok (start, stop, step)
  end.

(* ---------- dns.tokenizer.Tokenizer.get, as a lexer of one logical line ---------- *)
Inductive tok := TId (v : list Z) | TQ (v : list Z).
Definition tokval (t : tok) : list Z := match t with TId v => v | TQ v => v end.

Inductive lterm := TEol | TEof | TErr.
Inductive lmode :=
| MSkip                          (* between tokens *)
| MId (acc : list Z)             (* inside an identifier (reversed) *)
| MQ (acc : list Z)              (* inside a quoted string (reversed) *)
| MEsc (q : bool) (acc : list Z) (* just after a backslash *)
| MCom.                          (* inside a comment *)

Definition is_delim (c : Z) : bool :=
  (c =? 32) || (c =? 9) || (c =? 10) || (c =? 59) || (c =? 40) || (c =? 41) || (c =? 34).

(* Returns the tokens of the logical line that starts here, how it ended, and the rest of the
   input.  TErr: the tokenizer raises a SyntaxError (UnexpectedEnd, unbalanced parentheses,
   newline in a quoted string) when asked for the token after the ones returned. *)
Fixpoint lex (t : list Z) (ml : nat) (m : lmode) (acc : list tok) : list tok * lterm * list Z :=
  match t with
  | [] =>
      match m with
      | MSkip | MCom => (rev acc, match ml with O => TEof | _ => TErr end, [])
      | MId a => (rev (TId (rev a) :: acc), match ml with O => TEof | _ => TErr end, [])
      | MQ _ | MEsc _ _ => (rev acc, TErr, [])
      end
  | c :: r =>
      let skip := fun (acc' : list tok) =>
        if (c =? 32) || (c =? 9) then lex r ml MSkip acc'
        else if c =? 10 then
          match ml with O => (rev acc', TEol, r) | _ => lex r ml MSkip acc' end
        else if c =? 40 then lex r (S ml) MSkip acc'
        else if c =? 41 then
          match ml with O => (rev acc', TErr, r) | S k => lex r k MSkip acc' end
        else if c =? 34 then lex r ml (MQ []) acc'
        else if c =? 59 then lex r ml MCom acc'
        else if c =? 92 then lex r ml (MEsc false [92]) acc'
        else lex r ml (MId [c]) acc' in
      match m with
      | MSkip => skip acc
      | MCom =>
          if c =? 10 then
            match ml with O => (rev acc, TEol, r) | _ => lex r ml MSkip acc end
          else lex r ml MCom acc
      | MQ a =>
          if c =? 34 then lex r ml MSkip (TQ (rev a) :: acc)
          else if c =? 10 then (rev acc, TErr, r)
          else if c =? 92 then lex r ml (MEsc true (92 :: a)) acc
          else lex r ml (MQ (c :: a)) acc
      | MEsc q a =>
          if (c =? 10) && negb q then (rev acc, TErr, r)
          else lex r ml (if q then MQ (c :: a) else MId (c :: a)) acc
      | MId a =>
          if is_delim c then skip (TId (rev a) :: acc)
          else if c =? 92 then lex r ml (MEsc false (92 :: a)) acc
          else lex r ml (MId (c :: a)) acc
      end
  end.

Definition starts_ws (t : list Z) : bool :=
  match t with c :: _ => (c =? 32) || (c =? 9) | [] => false end.

(* ---------- RDATA (parameter of the property): fields ---------- *)
Inductive fkind :=
| KName            (* domain name: tok.get_name(origin, relativize, relativize_to) *)
| KTok             (* an identifier kept verbatim (after Token.unescape): IPv6 addresses, algorithm numbers, times *)
| KIPv4            (* dns.ipv4.inet_aton: dotted quad, no leading zeros *)
| KU (max : Z)     (* tok.get_uintN(): decimal, printed canonically *)
| KTtl             (* tok.get_ttl() *)
| KType            (* an rdatatype mnemonic (RRSIG type covered) *)
| KStrs            (* one or more character-strings (octets after unescape_to_bytes) *)
| KRest (allow_empty : bool). (* tok.concatenate_remaining_identifiers / type lists: verbatim *)

Inductive fval :=
| VName (n : name)
| VTok (v : list Z)
| VInt (z : Z)
| VStrs (l : list (list Z))
| VRest (l : list (list Z)).

Definition rdata := list fval.

(* the modelled types: code, mnemonic, fields *)
Definition tA := 1. Definition tNS := 2. Definition tCNAME := 5. Definition tSOA := 6.
Definition tPTR := 12. Definition tMX := 15. Definition tTXT := 16. Definition tKEY := 25.
Definition tAAAA := 28. Definition tSRV := 33. Definition tDNAME := 39. Definition tRRSIG := 46.
Definition tNSEC := 47. Definition tNSEC3 := 50.

Definition type_table : list (Z * list Z * list fkind) :=
  [ (tA, [65], [KIPv4]);
    (tNS, [78; 83], [KName]);
    (tCNAME, [67; 78; 65; 77; 69], [KName]);
    (tSOA, [83; 79; 65], [KName; KName; KU 4294967295; KTtl; KTtl; KTtl; KTtl]);
    (tPTR, [80; 84; 82], [KName]);
    (tMX, [77; 88], [KU 65535; KName]);
    (tTXT, [84; 88; 84], [KStrs]);
    (tKEY, [75; 69; 89], [KU 65535; KU 255; KTok; KRest false]);
    (tAAAA, [65; 65; 65; 65], [KTok]);
    (tSRV, [83; 82; 86], [KU 65535; KU 65535; KU 65535; KName]);
    (tDNAME, [68; 78; 65; 77; 69], [KName]);
    (tRRSIG, [82; 82; 83; 73; 71], [KType; KTok; KTok; KTtl; KTok; KTok; KTok; KName; KRest false]);
    (tNSEC, [78; 83; 69; 67], [KName; KRest true]) ].

Fixpoint tbl_by_code (t : list (Z * list Z * list fkind)) (code : Z) : option (list Z * list fkind) :=
  match t with
  | [] => None
  | (c, m, s) :: r => if c =? code then Some (m, s) else tbl_by_code r code
  end.

Fixpoint tbl_by_name (t : list (Z * list Z * list fkind)) (m : list Z) : option Z :=
  match t with
  | [] => None
  | (c, m', _) :: r => if zlist_eqb m m' then Some c else tbl_by_name r m
  end.

Definition sTYPE : list Z := [84; 89; 80; 69].
Definition sCLASS : list Z := [67; 76; 65; 83; 83].

(* dns.rdatatype.from_text restricted to the modelled mnemonics and the TYPEnnn form *)
Definition type_from_text (v : list Z) : option Z :=
  let u := upper_l v in
  match tbl_by_name type_table u with
  | Some c => Some c
  | None =>
      if is_prefix sTYPE u then
        let d := skipn 4 u in
        match d with
        | [] => None
        | _ => if all_digits d && (int_of_digits d <=? 65535) then Some (int_of_digits d) else None
        end
      else None
  end.

Definition type_to_text (code : Z) : list Z :=
  match tbl_by_code type_table code with
  | Some (m, _) => m
  | None => sTYPE ++ dec code
  end.

(* dns.rdataclass.from_text; None = any exception other than SyntaxError (none is raised) *)
Definition class_names : list (list Z * Z) :=
  [ ([82; 69; 83; 69; 82; 86; 69; 68; 48], 0); ([73; 78], 1); ([73; 78; 84; 69; 82; 78; 69; 84], 1);
    ([67; 72], 3); ([67; 72; 65; 79; 83], 3); ([72; 83], 4); ([72; 69; 83; 73; 79; 68], 4);
    ([78; 79; 78; 69], 254); ([65; 78; 89], 255) ].

Fixpoint assoc_l (t : list (list Z * Z)) (m : list Z) : option Z :=
  match t with
  | [] => None
  | (m', c) :: r => if zlist_eqb m m' then Some c else assoc_l r m
  end.

Definition class_from_text (v : list Z) : option Z :=
  let u := upper_l v in
  match assoc_l class_names u with
  | Some c => Some c
  | None =>
      if is_prefix sCLASS u then
        let d := skipn 5 u in
        match d with
        | [] => None
        | _ => if all_digits d && (int_of_digits d <=? 65535) then Some (int_of_digits d) else None
        end
      else None
  end.

Definition class_to_text (c : Z) : list Z :=
  if c =? 0 then [82; 69; 83; 69; 82; 86; 69; 68; 48]
  else if c =? 1 then [73; 78] else if c =? 3 then [67; 72] else if c =? 4 then [72; 83]
  else if c =? 254 then [78; 79; 78; 69] else if c =? 255 then [65; 78; 89]
  else sCLASS ++ dec c.

(* rdata field equality: names in the RFC 4034 6.2 types compare case-insensitively, as the
   DNSSEC canonical form that Rdata.__eq__ uses lower-cases them; NSEC does not (RFC 6840) *)
Definition canon_names (ty : Z) : bool := negb (ty =? tNSEC).

Fixpoint zll_eqb (a b : list (list Z)) : bool :=
  match a, b with
  | [], [] => true
  | x :: a', y :: b' => zlist_eqb x y && zll_eqb a' b'
  | _, _ => false
  end.

Definition fval_eqb (canon : bool) (a b : fval) : bool :=
  match a, b with
  | VName x, VName y =>
      Bool.eqb (is_absolute x) (is_absolute y) &&
      (if canon then name_eqb x y else zll_eqb x y)
  | VTok x, VTok y => zlist_eqb x y
  | VInt x, VInt y => x =? y
  | VStrs x, VStrs y => zll_eqb x y
  | VRest x, VRest y => zll_eqb x y
  | _, _ => false
  end.

Fixpoint rdata_eqb (canon : bool) (a b : rdata) : bool :=
  match a, b with
  | [], [] => true
  | x :: a', y :: b' => fval_eqb canon x y && rdata_eqb canon a' b'
  | _, _ => false
  end.

(* ---------- the zone: insertion-ordered dict name -> node; node = list of rdatasets ---------- *)
Record rdataset := mkrds { rtype : Z; rcovers : Z; rttl : Z; rdatas : list rdata }.
Definition node := list rdataset.
Definition zone := list (name * node).

Fixpoint zfind (z : zone) (n : name) : option node :=
  match z with
  | [] => None
  | (k, nd) :: r => if name_eqb k n then Some nd else zfind r n
  end.

(* dict[name] = node: an existing key keeps its position (and its spelling) *)
Fixpoint zset (z : zone) (n : name) (nd : node) : zone :=
  match z with
  | [] => [(n, nd)]
  | (k, nd') :: r => if name_eqb k n then (k, nd) :: r else (k, nd') :: zset r n nd
  end.

Definition rds_match (r : rdataset) (ty cov : Z) : bool := (rtype r =? ty) && (rcovers r =? cov).

Fixpoint nfind (nd : node) (ty cov : Z) : option rdataset :=
  match nd with
  | [] => None
  | r :: rest => if rds_match r ty cov then Some r else nfind rest ty cov
  end.

Fixpoint nremove (nd : node) (ty cov : Z) : node :=
  match nd with
  | [] => []
  | r :: rest => if rds_match r ty cov then rest else r :: nremove rest ty cov
  end.

(* dns.node.NodeKind *)
Inductive nkind := KRegular | KNeutral | KCname.
Definition nkind_eqb (a b : nkind) : bool :=
  match a, b with KRegular, KRegular | KNeutral, KNeutral | KCname, KCname => true | _, _ => false end.

Definition classify (ty cov : Z) : nkind :=
  if (ty =? tCNAME) || ((ty =? tRRSIG) && (cov =? tCNAME)) then KCname
  else if (ty =? tNSEC) || (ty =? tNSEC3) || (ty =? tKEY) ||
          ((ty =? tRRSIG) && ((cov =? tNSEC) || (cov =? tNSEC3) || (cov =? tKEY))) then KNeutral
  else KRegular.

Definition rds_kind (r : rdataset) : nkind := classify (rtype r) (rcovers r).

(* Node.classify: the kind of the first non-neutral rdataset *)
Fixpoint node_kind (nd : node) : nkind :=
  match nd with
  | [] => KNeutral
  | r :: rest => match rds_kind r with KNeutral => node_kind rest | k => k end
  end.

(* Node._append_rdataset *)
Definition append_rdataset (nd : node) (r : rdataset) : node :=
  let nd' :=
    match nd with
    | [] => nd
    | _ =>
        match rds_kind r with
        | KCname => filter (fun x => negb (nkind_eqb (rds_kind x) KRegular)) nd
        | KRegular => filter (fun x => negb (nkind_eqb (rds_kind x) KCname)) nd
        | KNeutral => nd
        end
    end in
  nd' ++ [r].

(* Node.replace_rdataset *)
Definition replace_rdataset (nd : node) (r : rdataset) : node :=
  append_rdataset (nremove nd (rtype r) (rcovers r)) r.

Definition is_singleton (ty : Z) : bool :=
  (ty =? tSOA) || (ty =? 30) || (ty =? tDNAME) || (ty =? tNSEC) || (ty =? tCNAME).

Definition covers_of (ty : Z) (rd : rdata) : Z :=
  if (ty =? tRRSIG) || (ty =? 24) then match rd with VInt c :: _ => c | _ => 0 end else 0.

(* existing.union(from_rdata(ttl, rd)): update_ttl (minimum), then Rdataset.add *)
Definition rds_union (e : rdataset) (ttl : Z) (rd : rdata) : rdataset :=
  let ttl' := match rdatas e with [] => ttl | _ => if ttl <? rttl e then ttl else rttl e end in
  let rs :=
    if is_singleton (rtype e) && negb (match rdatas e with [] => true | _ => false end) then [rd]
    else if existsb (rdata_eqb (canon_names (rtype e)) rd) (rdatas e) then rdatas e
    else rdatas e ++ [rd] in
  mkrds (rtype e) (rcovers e) ttl' rs.

(* dns.zonefile._check_cname_and_other_data *)
Definition cname_check (z : zone) (n : name) (r : rdataset) : res unit :=
  match zfind z n with
  | None => Ok tt
  | Some nd =>
      match node_kind nd, rds_kind r with
      | KCname, KRegular => Lib eCNAMEAndOther
      | KRegular, KCname => Lib eCNAMEAndOther
      | _, _ => Ok tt
      end
  end.

(* WritableVersion.put_rdataset *)
Definition zput (z : zone) (n : name) (r : rdataset) : zone :=
  match zfind z n with
  | None => z ++ [(n, replace_rdataset [] r)]
  | Some nd => zset z n (replace_rdataset nd r)
  end.

(* Transaction._add(replace=False, (name, ttl, rd)) as called by the Reader.
   zo = the (absolute) origin, rel = zone.relativize *)
Definition txn_add (zo : name) (rel : bool) (z : zone) (n : name) (ttl ty : Z) (rd : rdata) : res zone :=
  let cov := covers_of ty rd in
  let eff := if rel then [] else zo in
  if (ty =? tSOA) && negb (name_eqb n eff) && (negb (name_eqb n zo) && negb (name_eqb n []))
  then Internal iValueError
  else
    let existing := match zfind z n with Some nd => nfind nd ty cov | None => None end in
    let r := match existing with
             | None => mkrds ty cov ttl [rd]
             | Some e => rds_union e ttl rd
             end in
    do _ <- cname_check z n r;
    Ok (zput z n r).

(* ---------- names in zone files ---------- *)
Definition name_err {A} (e : Z) (escapes : bool) : res A :=
  if e =? eNameTooLong then (if escapes then Lib eNameTooLongZ else Lib eSyntax)
  else if (e =? eLabelTooLong) || (e =? eEmptyLabel) || (e =? eBadEscape) then Lib eSyntax
  else Internal e.

Definition lift_name {A} (escapes : bool) (r : res A) : res A :=
  match r with
  | Ok a => Ok a
  | Lib e => name_err e escapes
  | Internal e => Internal e
  end.

(* tok.as_name(token, origin, relativize, relativize_to) on an identifier value *)
Definition as_name (escapes : bool) (v : list Z) (origin : option name) (relativize : bool)
           (relativize_to : option name) : res name :=
  do n <- lift_name escapes (NameM.from_text v origin);
  lift_name escapes
    (choose_relativity n (match relativize_to with Some o => Some o | None => origin end) relativize).

(* Name.to_styled_text(style) *)
Definition name_text (origin : option name) (relativize omit_dot : bool) (n : name) : res (list Z) :=
  do n' <- choose_relativity n origin relativize;
  Ok (if omit_dot then to_text_omit n' else NameM.to_text n').

(* ---------- rdata from tokens / to text ---------- *)
Definition dquote (s : list Z) : list Z := 34 :: s ++ [34].

Fixpoint all_ids (l : list tok) : option (list (list Z)) :=
  match l with
  | [] => Some []
  | TId v :: r => match all_ids r with Some vs => Some (v :: vs) | None => None end
  | TQ _ :: _ => None
  end.

(* Token.unescape / Token.unescape_to_bytes on ASCII input: \DDD is one octet, \c is c *)
Fixpoint tok_unescape (s : list Z) : res (list Z) :=
  match s with
  | [] => Ok []
  | c :: r =>
      if c =? 92 then
        match r with
        | [] => Lib eSyntax
        | c1 :: r1 =>
            if is_digit c1 then
              match r1 with
              | c2 :: c3 :: r3 =>
                  if is_digit c2 && is_digit c3 then
                    let cp := (c1 - 48) * 100 + (c2 - 48) * 10 + (c3 - 48) in
                    if cp >? 255 then Lib eSyntax
                    else do t <- tok_unescape r3; Ok (cp :: t)
                  else Lib eSyntax
              | _ => Lib eSyntax
              end
            else do t <- tok_unescape r1; Ok (c1 :: t)
        end
      else do t <- tok_unescape r; Ok (c :: t)
  end.

(* dns.rdata._escapify *)
Definition esc_qoctet (c : Z) : list Z :=
  if (c =? 34) || (c =? 92) then [92; c]
  else if (32 <=? c) && (c <? 127) then [c]
  else [92; 48 + c / 100; 48 + (c / 10) mod 10; 48 + c mod 10].
Definition escapify_q (s : list Z) : list Z := flat_map esc_qoctet s.

(* bytes.split(b".") *)
Fixpoint split_dot (s : list Z) (cur : list Z) : list (list Z) :=
  match s with
  | [] => [rev cur]
  | c :: r => if c =? 46 then rev cur :: split_dot r [] else split_dot r (c :: cur)
  end.

(* dns.ipv4.inet_aton accepts exactly these *)
Definition ipv4_ok (v : list Z) : bool :=
  match split_dot v [] with
  | [a; b; c; d] =>
      forallb (fun p => negb (zlen p =? 0) && all_digits p &&
                        negb ((1 <? zlen p) && (match p with 48 :: _ => true | _ => false end)) &&
                        (int_of_digits p <=? 255)) [a; b; c; d]
  | _ => false
  end.

(* co = current origin, rel/zo = relativize / relativize_to.  Every failure inside rdata parsing
   is a SyntaxError for the caller (zonefile.py wraps all exceptions). *)
Fixpoint parse_fields (ks : list fkind) (toks : list tok) (co : name) (rel : bool) (zo : name)
  : res rdata :=
  match ks with
  | [] => match toks with [] => Ok [] | _ => Lib eSyntax end   (* tok.get_eol() *)
  | k :: ks' =>
      match k with
      | KStrs =>
          match toks with
          | [] => Lib eSyntax
          | _ =>
              do strs <- (fix go (l : list tok) : res (list (list Z)) :=
                            match l with
                            | [] => Ok []
                            | t :: l' => do b <- tok_unescape (tokval t);
                                         if zlen b >? 255 then Lib eSyntax
                                         else do rest <- go l'; Ok (b :: rest)
                            end) toks;
              Ok [VStrs strs]
          end
      | KRest allow_empty =>
          match all_ids toks with
          | None => Lib eSyntax
          | Some [] => if allow_empty then Ok [VRest []] else Lib eSyntax
          | Some vs => Ok [VRest vs]
          end
      | _ =>
          match toks with
          | [] => Lib eSyntax
          | t :: toks' =>
              do v <-
                 (match k, t with
                  | KName, TId v =>
                      match as_name false v (Some co) rel (Some zo) with
                      | Ok n => Ok (VName n)
                      | _ => Lib eSyntax
                      end
                  | KTok, _ => do u <- tok_unescape (tokval t);
                               match t with TId _ => Ok (VTok u) | TQ _ => Lib eSyntax end
                  | KIPv4, TId v => do u <- tok_unescape v;
                                    if ipv4_ok u then Ok (VTok u) else Lib eSyntax
                  | KU mx, TId v =>
                      do u <- tok_unescape v;
                      if all_digits u && negb (zlen u =? 0) && (int_of_digits u <=? mx)
                      then Ok (VInt (int_of_digits u)) else Lib eSyntax
                  | KTtl, TId v =>
                      do u <- tok_unescape v;
                      match ttl_from_text u with Ok z => Ok (VInt z) | _ => Lib eSyntax end
                  | KType, _ =>
                      match type_from_text (tokval t) with Some c => Ok (VInt c) | None => Lib eSyntax end
                  | _, _ => Lib eSyntax
                  end);
              do rest <- parse_fields ks' toks' co rel zo;
              Ok (v :: rest)
          end
      end
  end.

Definition is_hex (c : Z) : bool :=
  is_digit c || ((97 <=? c) && (c <=? 102)) || ((65 <=? c) && (c <=? 70)).

(* GenericRdata.from_text: \# len hex...; the hex is kept lower-cased and concatenated *)
Fixpoint unescape_all (vs : list (list Z)) : res (list (list Z)) :=
  match vs with
  | [] => Ok []
  | v :: r => do u <- tok_unescape v; do us <- unescape_all r; Ok (u :: us)
  end.

Definition parse_generic (toks : list tok) : res rdata :=
  match toks with
  | TId [92; 35] :: TId l0 :: rest =>
      do l <- tok_unescape l0;
      if all_digits l && negb (zlen l =? 0) then
        match all_ids rest with
        | None => Lib eSyntax
        | Some vs0 =>
            do vs <- unescape_all vs0;
            let h := concat vs in
            if forallb is_hex h && (zlen h =? 2 * int_of_digits l)
            then Ok [VTok [92; 35]; VInt (int_of_digits l); VRest (match h with [] => [] | _ => [lower_l h] end)]
            else Lib eSyntax
        end
      else Lib eSyntax
  | _ => Lib eSyntax
  end.

(* A known type in RFC 3597 syntax (dns.rdata.from_text, generic branch): GenericRdata.from_text gives the
   octets, from_wire decodes them with origin = relativize_to (the zone origin) when relativizing, and the
   result must encode back to the same octets (so no compression pointers).  Modelled for the layouts made
   of names, unsigned integers and IPv4 addresses; every failure is a SyntaxError for the zone reader. *)
Definition hexval (c : Z) : Z := if is_digit c then c - 48 else c - 87.

Fixpoint hex_bytes (h : list Z) : list Z :=
  match h with
  | a :: b :: r => (hexval a * 16 + hexval b) :: hex_bytes r
  | _ => []
  end.

Fixpoint wire_name (fuel : nat) (bs : list Z) (acc : list (list Z)) : option (name * list Z) :=
  match fuel with
  | O => None
  | S f =>
      match bs with
      | [] => None
      | l :: r =>
          if l =? 0 then Some (rev ([] :: acc), r)
          else if (l <=? 63) && (l <=? zlen r)
          then wire_name f (skipn (Z.to_nat l) r) (firstn (Z.to_nat l) r :: acc)
          else None
      end
  end.

Definition take_uint (w : nat) (bs : list Z) : option (Z * list Z) :=
  if Nat.ltb (length bs) w then None
  else Some (fold_left (fun a b => a * 256 + b) (firstn w bs) 0, skipn w bs).

Definition dotted (bs : list Z) : list Z :=
  match bs with
  | [a; b; c; d] => dec a ++ 46 :: dec b ++ 46 :: dec c ++ 46 :: dec d
  | _ => []
  end.

Fixpoint wire_fields (ks : list fkind) (bs : list Z) (rel : bool) (zo : name) : res rdata :=
  match ks with
  | [] => match bs with [] => Ok [] | _ => Lib eSyntax end
  | k :: ks' =>
      do (v, rest) <-
         (match k with
          | KName =>
              match wire_name (S (length bs)) bs [] with
              | Some (n, rest) =>
                  if zlen bs - zlen rest >? 255 then Lib eSyntax
                  else match choose_relativity n (Some zo) rel with
                       | Ok n' => Ok (VName n', rest)
                       | _ => Lib eSyntax
                       end
              | None => Lib eSyntax
              end
          | KU mx =>
              match take_uint (if mx =? 255 then 1 else if mx =? 65535 then 2 else 4) bs with
              | Some (z, rest) => Ok (VInt z, rest)
              | None => Lib eSyntax
              end
          | KTtl => match take_uint 4 bs with Some (z, rest) => Ok (VInt z, rest) | None => Lib eSyntax end
          | KIPv4 => if Nat.ltb (length bs) 4 then Lib eSyntax
                     else Ok (VTok (dotted (firstn 4 bs)), skipn 4 bs)
          | _ => Lib eUnmodelled
          end);
      do r <- wire_fields ks' rest rel zo;
      Ok (v :: r)
  end.

Definition wire_modelled (ks : list fkind) : bool :=
  forallb (fun k => match k with KName | KU _ | KTtl | KIPv4 => true | _ => false end) ks.

Definition parse_rdata (ty : Z) (toks : list tok) (lerr : bool) (co : name) (rel : bool) (zo : name)
  : res rdata :=
  match tbl_by_code type_table ty with
  | Some (_, ks) =>
      match toks with
      | TId [92; 35] :: _ =>
          if wire_modelled ks then
            do g <- parse_generic toks;
            match g with
            | [_; _; VRest hs] =>
                do rd <- wire_fields ks (hex_bytes (concat hs)) rel zo;
                if lerr then Lib eSyntax else Ok rd
            | _ => Lib eSyntax
            end
          else Lib eUnmodelled     (* the other layouts need more of the wire codec *)
      | _ => do rd <- parse_fields ks toks co rel zo; if lerr then Lib eSyntax else Ok rd
      end
  | None => do rd <- parse_generic toks; if lerr then Lib eSyntax else Ok rd
  end.

(* rdata.to_styled_text(style): names follow style.origin / style.relativize *)
Fixpoint fvals_text (origin : option name) (relativize omit_dot : bool) (rd : rdata)
  : res (list (list Z)) :=
  match rd with
  | [] => Ok []
  | f :: r =>
      do rest <- fvals_text origin relativize omit_dot r;
      match f with
      | VName n => do t <- name_text origin relativize omit_dot n; Ok (t :: rest)
      | VTok v => Ok (v :: rest)
      | VInt z => Ok (dec z :: rest)
      | VStrs l => Ok (map (fun x => dquote (escapify_q x)) l ++ rest)
      | VRest l => Ok (l ++ rest)
      end
  end.

Definition rdata_text (ty : Z) (origin : option name) (relativize omit_dot : bool) (rd : rdata)
  : res (list Z) :=
  do fs <- fvals_text origin relativize omit_dot rd;
  match tbl_by_code type_table ty, rd with
  | None, [VTok h; VInt n; VRest l] =>
      (* GenericRdata.to_styled_text: rf"\# {len} " + hex, also when the hex is empty *)
      Ok (h ++ 32 :: dec n ++ 32 :: concat l)
  | _, _ =>
  match rd, fs with
  | VInt c :: _, _ :: rest =>
      (* RRSIG prints the covered type as a mnemonic *)
      if ty =? tRRSIG then Ok (join_sp (type_to_text c :: rest)) else Ok (join_sp fs)
  | _, _ => Ok (join_sp fs)
  end
  end.

(* ---------- $GENERATE ---------- *)
Fixpoint span_digits (s : list Z) : list Z * list Z :=
  match s with
  | c :: r => if is_digit c then let '(d, r') := span_digits r in (c :: d, r') else ([], s)
  | [] => ([], [])
  end.

Record gmod := { g_mod : list Z; g_sign : list Z; g_off : list Z; g_width : list Z; g_base : Z }.

(* the three regular expressions of _parse_modify, matched at a position that starts with "$" *)
Definition mod_at (which : nat) (s : list Z) : option gmod :=
  match s with
  | 36 :: 123 :: r =>
      let '(sign, r1) := match r with
                         | 43 :: r' => ([43], r')
                         | 45 :: r' => ([45], r')
                         | _ => ([], r)
                         end in
      let '(d1, r2) := span_digits r1 in
      match d1 with
      | [] => None
      | _ =>
          match which with
          | 2%nat =>
              match r2 with
              | 125 :: _ => Some {| g_mod := 123 :: sign ++ d1 ++ [125]; g_sign := sign; g_off := d1;
                                    g_width := [48]; g_base := 100 |}
              | _ => None
              end
          | _ =>
              match r2 with
              | 44 :: r3 =>
                  let '(d2, r4) := span_digits r3 in
                  match d2 with
                  | [] => None
                  | _ =>
                      match which, r4 with
                      | 3%nat, 125 :: _ =>
                          Some {| g_mod := 123 :: sign ++ d1 ++ 44 :: d2 ++ [125]; g_sign := sign;
                                  g_off := d1; g_width := d2; g_base := 100 |}
                      | 1%nat, 44 :: b :: 125 :: _ =>
                          if b =? 10 then None
                          else Some {| g_mod := 123 :: sign ++ d1 ++ 44 :: d2 ++ [44; b; 125];
                                       g_sign := sign; g_off := d1; g_width := d2; g_base := b |}
                      | _, _ => None
                      end
                  end
              | _ => None
              end
          end
      end
  | _ => None
  end.

(* "^.*" is greedy: the last position at which the rest of the pattern matches *)
Fixpoint find_last {A} (f : list Z -> option A) (s : list Z) : option A :=
  match s with
  | [] => None
  | _ :: r => match find_last f r with Some x => Some x | None => f s end
  end.

(* _parse_modify: (mod, negative?, offset, width, base) *)
Definition parse_modify (side : list Z) : res (list Z * bool * Z * Z * Z) :=
  let g :=
    match find_last (mod_at 1) side with
    | Some g => g
    | None =>
        match find_last (mod_at 2) side with
        | Some g => g
        | None =>
            match find_last (mod_at 3) side with
            | Some g => g
            | None => {| g_mod := []; g_sign := [43]; g_off := [48]; g_width := [48]; g_base := 100 |}
            end
        end
    end in
  let b := g_base g in
  if negb ((b =? 100) || (b =? 111) || (b =? 120) || (b =? 88) || (b =? 110) || (b =? 78))
  then Lib eSyntax
  else Ok (g_mod g, zlist_eqb (g_sign g) [45], int_of_digits (g_off g), int_of_digits (g_width g), b).

Definition zfill (s : list Z) (width : Z) : list Z :=
  let pad := fun body => repeat 48 (Z.to_nat (width - zlen s)) ++ body in
  match s with
  | 45 :: body => 45 :: pad body
  | 43 :: body => 43 :: pad body
  | _ => pad s
  end.

Definition format_int (index : Z) (base : Z) : list Z :=
  let b := if base =? 100 then 10 else if base =? 111 then 8 else 16 in
  let up := base =? 88 in
  if index <? 0 then 45 :: digits b up (- index) else digits b up index.

Fixpoint join_dots (s : list Z) : list Z :=
  match s with
  | [] => []
  | [c] => [c]
  | c :: r => c :: 46 :: join_dots r
  end.

(* _format_index *)
Definition format_index (index base width : Z) : list Z :=
  if (base =? 100) || (base =? 111) || (base =? 120) || (base =? 88)
  then zfill (format_int index base) width
  else
    let hexa := zfill (format_int index 120) width in
    let nib := firstn (Z.to_nat width) (join_dots (rev hexa)) in
    if base =? 78 then upper_l nib else nib.

(* str.replace(pat, rep) for a non-empty pat *)
Fixpoint replace_go (pat rep s : list Z) (skip : nat) : list Z :=
  match s with
  | [] => []
  | c :: r =>
      match skip with
      | S k => replace_go pat rep r k
      | O => if is_prefix pat s then rep ++ replace_go pat rep r (length pat - 1)
             else c :: replace_go pat rep r 0
      end
  end.
Definition replace_all (pat rep s : list Z) : list Z := replace_go pat rep s 0.

(* ---------- the Reader ---------- *)
Record cfg := mkcfg {
  c_origin : option name;      (* origin argument of from_text *)
  c_rel : bool;                (* relativize *)
  c_class : Z;                 (* rdclass *)
  c_check : bool }.            (* check_origin *)

Record rstate := mkst {
  zorigin : option name;       (* Reader.zone_origin == version.origin *)
  corigin : option name;       (* current_origin *)
  lastname : option name;
  lttl : Z; lttl_known : bool;
  dttl : Z; dttl_known : bool;
  zn : zone }.

Definition init_state (c : cfg) : rstate :=
  mkst (c_origin c) (c_origin c) (c_origin c) 0 false 0 false [].

Definition set_last (s : rstate) (n : name) : rstate :=
  mkst (zorigin s) (corigin s) (Some n) (lttl s) (lttl_known s) (dttl s) (dttl_known s) (zn s).
Definition set_lttl (s : rstate) (t : Z) : rstate :=
  mkst (zorigin s) (corigin s) (lastname s) t true (dttl s) (dttl_known s) (zn s).
Definition set_dttl (s : rstate) (t : Z) : rstate :=
  mkst (zorigin s) (corigin s) (lastname s) (lttl s) (lttl_known s) t true (zn s).
Definition set_zn (s : rstate) (z : zone) : rstate :=
  mkst (zorigin s) (corigin s) (lastname s) (lttl s) (lttl_known s) (dttl s) (dttl_known s) z.
Definition set_origin (s : rstate) (o : name) : rstate :=
  mkst (match zorigin s with Some z => Some z | None => Some o end) (Some o) (lastname s)
       (lttl s) (lttl_known s) (dttl s) (dttl_known s) (zn s).

(* Reader._get_identifier *)
Definition get_ident (toks : list tok) : res (list Z * list tok) :=
  match toks with
  | TId v :: r => Ok (v, r)
  | _ => Lib eSyntax
  end.

(* _eat_line / get_eol at the end of a logical line *)
Definition eol_ok (lerr : bool) (s : rstate) : res rstate := if lerr then Lib eSyntax else Ok s.

(* the part of _rr_line after the owner name is known: ttl / class / ttl / type / rdata / add *)
Definition rr_fields (c : cfg) (s : rstate) (co zo : name) (n : name) (toks : list tok) (lerr : bool)
  : res rstate :=
  (* TTL *)
  do (v1, r1) <- get_ident toks;
  let '(ttl, s1, toks1) :=
    match ttl_from_text v1 with
    | Ok t => (Some t, set_lttl s t, r1)
    | _ => (None, s, toks)
    end in
  (* class *)
  do (v2, r2) <- get_ident toks1;
  let '(cls, toks2) :=
    match class_from_text v2 with
    | Some k => (k, r2)
    | None => (c_class c, toks1)
    end in
  if negb (cls =? c_class c) then Lib eSyntax
  else
    (* <class> <ttl> <type> *)
    do (ttl, s2, toks3) <-
       (match ttl with
        | Some t => Ok (Some t, s1, toks2)
        | None =>
            do (v3, r3) <- get_ident toks2;
            match ttl_from_text v3 with
            | Ok t => Ok (Some t, set_lttl s1 t, r3)
            | _ =>
                Ok ((if dttl_known s1 then Some (dttl s1)
                     else if lttl_known s1 then Some (lttl s1) else None), s1, toks2)
            end
        end);
    (* type *)
    do (v4, toks4) <- get_ident toks3;
    match type_from_text v4 with
    | None => Lib eSyntax
    | Some ty =>
        do rd <- parse_rdata ty toks4 lerr co (c_rel c) zo;
        (* SOA minimum as the default TTL *)
        let '(ttl, s3) :=
          if negb (dttl_known s2) && (ty =? tSOA) then
            match nth_error rd 6 with
            | Some (VInt m) => ((match ttl with Some t => Some t | None => Some m end), set_dttl s2 m)
            | _ => (ttl, s2)
            end
          else (ttl, s2) in
        match ttl with
        | None => Lib eSyntax
        | Some t =>
            do z' <- txn_add zo (c_rel c) (zn s3) n t ty rd;
            Ok (set_zn s3 z')
        end
    end.

(* Reader._rr_line on one logical line *)
Definition rr_line (c : cfg) (s : rstate) (lead : bool) (toks : list tok) (lerr : bool) : res rstate :=
  match corigin s with
  | None => Lib eUnknownOrigin
  | Some co =>
      do (s1, toks1, blank) <-
         (if lead then
            match toks with
            | [] => Ok (s, toks, true)
            | _ => Ok (s, toks, false)
            end
          else
            match toks with
            | TId v :: r => do n <- as_name true v (Some co) false None; Ok (set_last s n, r, false)
            | _ => Lib eSyntax
            end);
      if blank then eol_ok lerr s1
      else
        match lastname s1 with
        | None => Lib eSyntax
        | Some name =>
            match zorigin s1 with
            | None => Internal iAssertion
            | Some zo =>
                if negb (is_subdomain name zo) then eol_ok lerr s1
                else
                  do n <- (if c_rel c then lift_name true (relativize name zo) else Ok name);
                  rr_fields c s1 co zo n toks1 lerr
            end
        end
  end.

(* the `for i in range(start, stop + 1, step)` loop of _generate_line.
   Returns None in the second component when an out-of-zone name ended the statement. *)
Fixpoint gen_loop (count : nat) (i step : Z) (c : cfg) (s : rstate) (co zo : name)
         (lhs rhs : list Z) (lm rm : list Z * bool * Z * Z * Z) (ttl ty : Z) : res (rstate * bool) :=
  match count with
  | O => Ok (s, false)
  | S k =>
      let '(lmod, lneg, loff, lwidth, lbase) := lm in
      let '(rmod, rneg, roff, rwidth, rbase) := rm in
      let lindex := i + (if lneg then - loff else loff) in
      let rindex := i + (if rneg then - roff else roff) in
      let nametext := replace_all (36 :: lmod) (format_index lindex lbase lwidth) lhs in
      let rdtext := replace_all (36 :: rmod) (format_index rindex rbase rwidth) rhs in
      do nm <- lift_name true (NameM.from_text nametext (Some co));
      let s1 := set_last s nm in
      if negb (is_subdomain nm zo) then Ok (s1, true)
      else
        do n <- (if c_rel c then lift_name true (relativize nm zo) else Ok nm);
        let '(toks, term, _) := lex rdtext 0 MSkip [] in
        do rd <- parse_rdata ty toks (match term with TErr => true | _ => false end) co (c_rel c) zo;
        do z' <- txn_add zo (c_rel c) (zn s1) n ttl ty rd;
        gen_loop k (i + step) step c (set_zn s1 z') co zo lhs rhs lm rm ttl ty
  end.

(* Reader._generate_line; toks = the tokens after "$GENERATE".  Returns the state and the
   tokens of the line that were not consumed (None when _eat_line consumed them). *)
Definition generate_line (c : cfg) (s : rstate) (toks : list tok) (lerr : bool)
  : res (rstate * option (list tok)) :=
  match corigin s with
  | None => Lib eUnknownOrigin
  | Some co =>
      match toks with
      | [] => Lib eSyntax
      | t0 :: toks0 =>
          match grange_from_text (tokval t0) with
          | Ok (start, stop, step) =>
              do (lhs, toks1) <- get_ident toks0;
              do (v1, r1) <- get_ident toks1;
              (* TTL *)
              do (ttl, s1, v2, r2) <-
                 (match ttl_from_text v1 with
                  | Ok t => do (v, r) <- get_ident r1; Ok (t, set_lttl s t, v, r)
                  | _ =>
                      if dttl_known s then Ok (dttl s, s, v1, r1)
                      else if lttl_known s then Ok (lttl s, s, v1, r1)
                      else Lib eSyntax
                  end);
              (* class *)
              do (cls, v3, r3) <-
                 (match class_from_text v2 with
                  | Some k => do (v, r) <- get_ident r2; Ok (k, v, r)
                  | None => Ok (c_class c, v2, r2)
                  end);
              if negb (cls =? c_class c) then Lib eSyntax
              else
                match type_from_text v3 with
                | None => Lib eSyntax
                | Some ty =>
                    do (rhs, r4) <- get_ident r3;
                    do lm <- parse_modify lhs;
                    do rm <- parse_modify rhs;
                    match zorigin s1 with
                    | None => Internal iAssertion
                    | Some zo =>
                        let count := Z.to_nat ((stop - start) / step + 1) in
                        do (s2, eaten) <- gen_loop count start step c s1 co zo lhs rhs lm rm ttl ty;
                        if eaten then (if lerr then Lib eSyntax else Ok (s2, None))
                        else Ok (s2, Some r4)
                    end
                end
          | _ => Lib eSyntax
          end
      end
  end.

Definition sORIGIN : list Z := [36; 79; 82; 73; 71; 73; 78].
Definition sTTL : list Z := [36; 84; 84; 76].
Definition sGENERATE : list Z := [36; 71; 69; 78; 69; 82; 65; 84; 69].
Definition sUNICODE : list Z := [36; 85; 78; 73; 67; 79; 68; 69].

(* one iteration of the `while 1` loop of Reader.read, on one logical line
   (directives as with allow_directives=True, allow_include=False) *)
Definition process_line (c : cfg) (s : rstate) (lead : bool) (toks : list tok) (lerr : bool)
  : res rstate :=
  if lead then rr_line c s true toks lerr
  else
    match toks with
    | [] => eol_ok lerr s
    | t :: rest =>
        match tokval t with
        | 36 :: _ =>
            let d := upper_l (tokval t) in
            if zlist_eqb d sTTL then
              do (v, r) <- get_ident rest;
              match ttl_from_text v with
              | Ok ttl => match r with [] => eol_ok lerr (set_dttl s ttl) | _ => Lib eSyntax end
              | _ => Lib eSyntax
              end
            else if zlist_eqb d sORIGIN then
              do (v, r) <- get_ident rest;
              do o <- as_name true v None false None;
              match r with
              | [] =>
                  if lerr then Lib eSyntax
                  else if is_absolute o then Ok (set_origin s o) else Lib eUnmodelled
              | _ => Lib eSyntax
              end
            else if zlist_eqb d sGENERATE then
              do (s', lft) <- generate_line c s rest lerr;
              match lft with
              | None => Ok s'
              | Some [] => eol_ok lerr s'
              | Some l => rr_line c s' true l lerr
              end
            else if zlist_eqb d sUNICODE then
              match all_ids rest with
              | Some _ => eol_ok lerr s
              | None => Lib eSyntax
              end
            else Lib eSyntax
        | _ => rr_line c s false toks lerr
        end
    end.

Fixpoint read_loop (fuel : nat) (c : cfg) (s : rstate) (text : list Z) : res rstate :=
  match fuel with
  | O => Internal iFuelZ
  | S f =>
      let '(toks, term, rest) := lex text 0 MSkip [] in
      do s' <- process_line c s (starts_ws text) toks (match term with TErr => true | _ => false end);
      match term with
      | TEof => Ok s'
      | TEol => read_loop f c s' rest
      | TErr => Lib eSyntax
      end
  end.

(* Zone.check_origin *)
Definition check_origin (c : cfg) (origin : option name) (z : zone) : res unit :=
  let has := fun (n : name) (ty : Z) =>
    match zfind z n with Some nd => match nfind nd ty 0 with Some _ => true | None => false end | None => false end in
  match (if c_rel c then (match origin with Some _ => Some [] | None => None end) else origin) with
  | None => Lib eNoSOA
  | Some n => if negb (has n tSOA) then Lib eNoSOA else if negb (has n tNS) then Lib eNoNS else Ok tt
  end.

(* dns.zone.from_text(text, origin, rdclass, relativize, check_origin=...) *)
Definition from_text (c : cfg) (text : list Z) : res (option name * zone) :=
  do s <- read_loop (S (length text)) c (init_state c) text;
  let origin := match zn s with [] => c_origin c | _ => zorigin s end in
  do _ <- (if c_check c then check_origin c origin (zn s) else Ok tt);
  Ok (origin, zn s).

(* ---------- dns.zonefile.read_rrsets(text, rdclass=None, origin=..., relativize=...) ----------
   The same Reader with allow_directives=False (a "$..." first token is an owner name) writing into
   an RRsetsReaderTransaction: a dict (name, rdtype, covers) -> rdataset, no nodes.  The dict is
   kept as a list of (name, rdataset); the record-line logic is that of rr_line / rr_fields. *)
Definition rrstore := list (name * rdataset).

Fixpoint rrs_find (st : rrstore) (n : name) (ty cov : Z) : option rdataset :=
  match st with
  | [] => None
  | (k, r) :: rest => if name_eqb k n && rds_match r ty cov then Some r else rrs_find rest n ty cov
  end.

Fixpoint rrs_set (st : rrstore) (n : name) (r : rdataset) : rrstore :=
  match st with
  | [] => [(n, r)]
  | (k, r0) :: rest =>
      if name_eqb k n && rds_match r0 (rtype r) (rcovers r) then (k, r) :: rest
      else (k, r0) :: rrs_set rest n r
  end.

(* _get_node: the rdatasets of that name, in dict order *)
Definition rrs_node (st : rrstore) (n : name) : node :=
  map snd (filter (fun e => name_eqb (fst e) n) st).

Definition rrs_add (zo : name) (rel : bool) (st : rrstore) (n : name) (ttl ty : Z) (rd : rdata) : res rrstore :=
  let cov := covers_of ty rd in
  let eff := if rel then [] else zo in
  if (ty =? tSOA) && negb (name_eqb n eff) && (negb (name_eqb n zo) && negb (name_eqb n []))
  then Internal iValueError
  else
    let r := match rrs_find st n ty cov with
             | None => mkrds ty cov ttl [rd]
             | Some e => rds_union e ttl rd
             end in
    do _ <- (match rrs_node st n with
             | [] => Ok tt
             | nd => match node_kind nd, rds_kind r with
                     | KCname, KRegular => Lib eCNAMEAndOther
                     | KRegular, KCname => Lib eCNAMEAndOther
                     | _, _ => Ok tt
                     end
             end);
    Ok (rrs_set st n r).

Record rrstate := mkrr {
  rr_last : option name; rr_lttl : Z; rr_lttl_known : bool; rr_dttl : Z; rr_dttl_known : bool;
  rr_store : rrstore }.

(* the part of _rr_line after the owner name, with the RRsets transaction *)
Definition rrs_fields (c : cfg) (zo : name) (s : rrstate) (last : option name) (n : name)
           (toks1 : list tok) (lerr : bool) : res rrstate :=
  (* TTL *)
  do (v1, r1) <- get_ident toks1;
  let '(ttl, lt, ltk, toksa) :=
    match ttl_from_text v1 with
    | Ok t => (Some t, t, true, r1)
    | _ => (None, rr_lttl s, rr_lttl_known s, toks1)
    end in
  (* class *)
  do (v2, r2) <- get_ident toksa;
  let '(cls, toksb) :=
    match class_from_text v2 with
    | Some k => (k, r2)
    | None => (c_class c, toksa)
    end in
  if negb (cls =? c_class c) then Lib eSyntax
  else
    do (ttl, lt, ltk, toksc) <-
       (match ttl with
        | Some t => Ok (Some t, lt, ltk, toksb)
        | None =>
            do (v3, r3) <- get_ident toksb;
            match ttl_from_text v3 with
            | Ok t => Ok (Some t, t, true, r3)
            | _ => Ok ((if rr_dttl_known s then Some (rr_dttl s)
                        else if ltk then Some lt else None), lt, ltk, toksb)
            end
        end);
    do (v4, toksd) <- get_ident toksc;
    match type_from_text v4 with
    | None => Lib eSyntax
    | Some ty =>
        do rd <- parse_rdata ty toksd lerr zo (c_rel c) zo;
        let '(ttl, dt, dtk) :=
          if negb (rr_dttl_known s) && (ty =? tSOA) then
            match nth_error rd 6 with
            | Some (VInt m) => ((match ttl with Some t => Some t | None => Some m end), m, true)
            | _ => (ttl, rr_dttl s, rr_dttl_known s)
            end
          else (ttl, rr_dttl s, rr_dttl_known s) in
        match ttl with
        | None => Lib eSyntax
        | Some t =>
            do st' <- rrs_add zo (c_rel c) (rr_store s) n t ty rd;
            Ok (mkrr last lt ltk dt dtk st')
        end
    end.

(* _rr_line with the RRsets transaction (origin co = zone origin zo, never changed) *)
Definition rrs_line (c : cfg) (zo : name) (s : rrstate) (lead : bool) (toks : list tok) (lerr : bool)
  : res rrstate :=
  do (last, toks1, blank) <-
     (if lead then
        match toks with
        | [] => Ok (rr_last s, toks, true)
        | _ => Ok (rr_last s, toks, false)
        end
      else
        match toks with
        | TId v :: r => do n <- as_name true v (Some zo) false None; Ok (Some n, r, false)
        | _ => Lib eSyntax
        end);
  let s0 := mkrr last (rr_lttl s) (rr_lttl_known s) (rr_dttl s) (rr_dttl_known s) (rr_store s) in
  if blank then (if lerr then Lib eSyntax else Ok s0)
  else
    match last with
    | None => Lib eSyntax
    | Some name =>
        if negb (is_subdomain name zo) then (if lerr then Lib eSyntax else Ok s0)
        else
          do n <- (if c_rel c then lift_name true (relativize name zo) else Ok name);
          rrs_fields c zo s last n toks1 lerr
    end.

Fixpoint rrs_loop (fuel : nat) (c : cfg) (zo : name) (s : rrstate) (text : list Z) : res rrstate :=
  match fuel with
  | O => Internal iFuelZ
  | S f =>
      let '(toks, term, rest) := lex text 0 MSkip [] in
      let lerr := match term with TErr => true | _ => false end in
      do s' <- (if starts_ws text then rrs_line c zo s true toks lerr
                else match toks with
                     | [] => if lerr then Lib eSyntax else Ok s
                     | _ => rrs_line c zo s false toks lerr
                     end);
      match term with
      | TEof => Ok s'
      | TEol => rrs_loop f c zo s' rest
      | TErr => Lib eSyntax
      end
  end.

Definition read_rrsets (c : cfg) (zo : name) (text : list Z) : res rrstore :=
  do s <- rrs_loop (S (length text)) c zo (mkrr (Some zo) 0 false 0 false []) text;
  Ok (rr_store s).

(* ---------- the printer ---------- *)
Record style := mkstyle {
  st_sorted : bool;
  st_want_origin : bool;
  st_default_ttl : option Z;
  st_dedup : bool;
  st_first_dup : bool;
  st_omit_class : bool;
  st_omit_ttl : bool;
  st_generic : bool;
  st_name_just : Z; st_ttl_just : Z; st_class_just : Z; st_type_just : Z;
  st_origin : option name;
  st_relativize : bool;
  st_omit_dot : bool }.

Definition spaces (n : Z) : list Z := repeat 32 (Z.to_nat n).

(* dns.rdataset.justify *)
Definition justify (text : list Z) (amount : Z) : list Z :=
  if amount =? 0 then text
  else if amount <? 0 then text ++ spaces (- amount - zlen text)
  else spaces (amount - zlen text) ++ text.

Definition blank4 : list Z := [32; 32; 32; 32].

(* ---------- want_generic: rd.to_generic(style.origin).to_styled_text(style) ----------
   The RFC 3597 form is made from the wire form; modelled for the field kinds with a fixed wire
   encoding (names uncompressed, big-endian integers, IPv4, character-strings). *)
Fixpoint be_bytes (k : nat) (z : Z) : list Z :=
  match k with
  | O => []
  | S k' => be_bytes k' (z / 256) ++ [z mod 256]
  end.

Definition hex_digit (d : Z) : Z := if d <? 10 then 48 + d else 87 + d.
Definition hexlify (data : list Z) : list Z :=
  flat_map (fun b => [hex_digit (b / 16); hex_digit (b mod 16)]) data.

(* _wordbreak(data, 128, " ") *)
Fixpoint wordbreak (fuel : nat) (l : list Z) : list Z :=
  match fuel with
  | O => l
  | S f =>
      match skipn (Z.to_nat 128) l with
      | [] => l
      | more => firstn (Z.to_nat 128) l ++ 32 :: wordbreak f more
      end
  end.

Definition field_wire (origin : option name) (k : fkind) (f : fval) : res (list Z) :=
  match k, f with
  | KName, VName n => NameM.to_wire n origin false
  | KU mx, VInt z => Ok (be_bytes (if mx <=? 255 then 1%nat else if mx <=? 65535 then 2%nat else 4%nat) z)
  | KTtl, VInt z => Ok (be_bytes 4 z)
  | KIPv4, VTok v => Ok (map int_of_digits (split_dot v []))
  | KStrs, VStrs l => Ok (flat_map (fun s => zlen s :: s) l)
  | _, _ => Lib eUnmodelled
  end.

Fixpoint fields_wire (origin : option name) (ks : list fkind) (rd : rdata) : res (list Z) :=
  match ks, rd with
  | [], [] => Ok []
  | k :: ks', f :: rd' =>
      do w <- field_wire origin k f;
      do ws <- fields_wire origin ks' rd';
      Ok (w ++ ws)
  | _, _ => Lib eUnmodelled
  end.

Definition generic_text (ty : Z) (origin : option name) (rd : rdata) : res (list Z) :=
  match tbl_by_code type_table ty with
  | None => rdata_text ty None false false rd
  | Some (_, ks) =>
      do w <- fields_wire origin ks rd;
      let h := hexlify w in
      Ok ([92; 35; 32] ++ dec (zlen w) ++ 32 :: wordbreak (length h) h)
  end.

(* the lines of Rdataset.to_styled_text(style, name); dup = deduplicate_names && first_name_is_duplicate *)
Fixpoint rds_lines (st : style) (ntext ttl cls ty : list Z) (r : rdataset) (rds : list rdata)
  : res (list (list Z)) :=
  match rds with
  | [] => Ok []
  | rd :: rest =>
      do rt <- (if st_generic st then generic_text (rtype r) (st_origin st) rd
                else rdata_text (rtype r) (st_origin st) (st_relativize st) (st_omit_dot st) rd);
      let line := ntext ++ ttl ++ cls ++ ty ++ 32 :: rt in
      let ntext' := if st_dedup st then justify blank4 (st_name_just st) else ntext in
      do more <- rds_lines st ntext' ttl cls ty r rest;
      Ok (line :: more)
  end.

Definition rds_text_lines (st : style) (zclass : Z) (first_dup : bool) (n : name) (r : rdataset)
  : res (list (list Z)) :=
  do nt <- (if st_dedup st && first_dup then Ok blank4
            else do t <- name_text (st_origin st) (st_relativize st) (st_omit_dot st) n; Ok (t ++ [32]));
  let ntext := justify nt (st_name_just st) in
  let cls := if st_omit_class st then []
             else if st_generic st then sCLASS ++ dec zclass ++ [32]
             else class_to_text zclass ++ [32] in
  let cls := justify cls (st_class_just st) in
  let ty := if st_generic st then sTYPE ++ dec (rtype r) else type_to_text (rtype r) in
  let ty := justify ty (st_type_just st) in
  let ttl := if st_omit_ttl st || (match st_default_ttl st with Some d => rttl r =? d | None => false end)
             then [] else dec (rttl r) ++ [32] in
  let ttl := justify ttl (st_ttl_just st) in
  rds_lines st ntext ttl cls ty r (rdatas r).

(* Node.to_styled_text: the lines of all non-empty rdatasets *)
Fixpoint node_lines (st : style) (zclass : Z) (first_dup : bool) (n : name) (nd : node)
  : res (list (list Z)) :=
  match nd with
  | [] => Ok []
  | r :: rest =>
      match rdatas r with
      | [] => node_lines st zclass first_dup n rest
      | _ =>
          do l <- rds_text_lines st zclass first_dup n r;
          do more <- node_lines st zclass (first_dup || st_dedup st) n rest;
          Ok (l ++ more)
      end
  end.

(* names.sort(): insertion sort with Name.__lt__ *)
Fixpoint zinsert (e : name * node) (z : zone) : zone :=
  match z with
  | [] => [e]
  | x :: r => if order (fst x) (fst e) <? 0 then x :: zinsert e r else e :: z
  end.
Fixpoint zsort (z : zone) : zone :=
  match z with
  | [] => []
  | e :: r => zinsert e (zsort r)
  end.

Fixpoint nodes_lines (st : style) (zclass : Z) (z : zone) : res (list (list Z)) :=
  match z with
  | [] => Ok []
  | (n, nd) :: r =>
      do l <- node_lines st zclass (st_first_dup st) n nd;
      do more <- nodes_lines st zclass r;
      (* an empty node still produces one (empty) line *)
      Ok ((match l with [] => [[]] | _ => l end) ++ more)
  end.

Record pzone := mkpz { pz_origin : option name; pz_rel : bool; pz_class : Z; pz_nodes : zone }.

(* Zone.to_styled_file (no $UNICODE): the list of output lines *)
Definition zone_lines (st : style) (z : pzone) : res (list (list Z)) :=
  let st := if st_generic st && (match st_origin st with None => true | _ => false end) && pz_rel z
            then mkstyle (st_sorted st) (st_want_origin st) (st_default_ttl st) (st_dedup st)
                   (st_first_dup st) (st_omit_class st) (st_omit_ttl st) (st_generic st)
                   (st_name_just st) (st_ttl_just st) (st_class_just st) (st_type_just st)
                   (pz_origin z) true (st_omit_dot st)
            else st in
  do l1 <- (if st_want_origin st then
              match pz_origin z with
              | None => Internal iAssertion
              | Some o => do t <- name_text None (st_relativize st) (st_omit_dot st) o;
                          Ok [[36; 79; 82; 73; 71; 73; 78; 32] ++ t]
              end
            else Ok []);
  let l2 := match st_default_ttl st with
            | Some d => [[36; 84; 84; 76; 32] ++ dec d]
            | None => []
            end in
  do l3 <- nodes_lines st (pz_class z) (if st_sorted st then zsort (pz_nodes z) else pz_nodes z);
  Ok (l1 ++ l2 ++ l3).

Definition zone_text (st : style) (z : pzone) : res (list Z) :=
  do ls <- zone_lines st z;
  Ok (concat (map (fun l => l ++ [10]) ls)).

(* ---------- harness interface ---------- *)
Definition obs_res {A} (f : A -> obs) (r : res A) : obs :=
  match r with Ok a => f a | Lib e => E e | Internal e => E e end.

Definition rdata_dump (ty : Z) (rd : rdata) : obs :=
  obs_res B (rdata_text ty None false false rd).

Definition rds_dump (r : rdataset) : obs :=
  L [I (rtype r); I (rcovers r); I (rttl r); L (map (rdata_dump (rtype r)) (rdatas r))].

Definition zone_dump (oz : option name * zone) : obs :=
  L [match fst oz with Some o => obs_of_name o | None => N end;
     L (map (fun e => L [obs_of_name (fst e); L (map rds_dump (snd e))]) (snd oz))].

Definition obool (o : obs) : option bool :=
  match o with I 0 => Some false | I 1 => Some true | _ => None end.

(* zones given by the harness for printing: fields tagged by kind *)
Fixpoint bytes_list (l : list obs) : option (list (list Z)) :=
  match l with
  | [] => Some []
  | B x :: r => match bytes_list r with Some xs => Some (x :: xs) | None => None end
  | _ => None
  end.

Definition fval_of_obs (o : obs) : option fval :=
  match o with
  | L [I 0; L ls] => match name_of_obs ls with Some n => Some (VName n) | None => None end
  | L [I 1; B v] => Some (VTok v)
  | L [I 2; I z] => Some (VInt z)
  | L [I 3; L l] => match bytes_list l with Some x => Some (VStrs x) | None => None end
  | L [I 4; L l] => match bytes_list l with Some x => Some (VRest x) | None => None end
  | _ => None
  end.

Fixpoint opt_map {A B} (f : A -> option B) (l : list A) : option (list B) :=
  match l with
  | [] => Some []
  | x :: r => match f x, opt_map f r with Some y, Some ys => Some (y :: ys) | _, _ => None end
  end.

Definition rdata_of_obs (o : obs) : option rdata :=
  match o with L fs => opt_map fval_of_obs fs | _ => None end.

Definition rds_of_obs (o : obs) : option rdataset :=
  match o with
  | L [I ty; I cov; I ttl; L rds] =>
      match opt_map rdata_of_obs rds with Some l => Some (mkrds ty cov ttl l) | None => None end
  | _ => None
  end.

Definition node_of_obs (o : obs) : option (name * node) :=
  match o with
  | L [L n; L rs] =>
      match name_of_obs n, opt_map rds_of_obs rs with
      | Some n, Some rs => Some (n, rs)
      | _, _ => None
      end
  | _ => None
  end.

Definition oint (o : obs) : option (option Z) :=
  match o with N => Some None | I z => Some (Some z) | _ => None end.

Definition style_of_obs (o : obs) : option style :=
  match o with
  | L [I so; I wo; dt; I dd; I fd; I oc; I ot; I ge; I nj; I tj; I cj; I yj; org; I rl; I od] =>
      match oint dt, oname_of_obs org with
      | Some dt, Some org =>
          Some (mkstyle (so =? 1) (wo =? 1) dt (dd =? 1) (fd =? 1) (oc =? 1) (ot =? 1) (ge =? 1)
                        nj tj cj yj org (rl =? 1) (od =? 1))
      | _, _ => None
      end
  | _ => None
  end.

Definition run (c : obs) : obs :=
  match c with
  | L [I 1; o; I rel; I chk; B text] =>
      match oname_of_obs o with
      | Some o => obs_res zone_dump (from_text (mkcfg o (rel =? 1) 1 (chk =? 1)) text)
      | None => E eBadCase
      end
  | L [I 2; o; I rel; L nodes; st] =>
      match oname_of_obs o, opt_map node_of_obs nodes, style_of_obs st with
      | Some o, Some z, Some st => obs_res B (zone_text st (mkpz o (rel =? 1) 1 z))
      | _, _, _ => E eBadCase
      end
  | L [I 6; L o; I rel; B text] =>
      match name_of_obs o with
      | Some o =>
          obs_res (fun st => L (map (fun e => L [obs_of_name (fst e); rds_dump (snd e)]) st))
                  (read_rrsets (mkcfg (Some o) (rel =? 1) 1 false) o text)
      | None => E eBadCase
      end
  | L [I 3; B t] => obs_res I (ttl_from_text t)
  | L [I 4; B t] => obs_res (fun '(a, b, s) => L [I a; I b; I s]) (grange_from_text t)
  | _ => E eBadCase
  end.
