(* C12 - the writer admission protocol of dns/versioned.py as a transition system.
   One step = one lock / event operation of one thread (acquire, the critical section executed while
   holding the lock, release, Event.wait returning) or one piece of unlocked thread-local work
   (_get_next_version_id, copying the latest nodes, one edit, reading).  Any number of threads.

   Mirrors  Zone.writer (loop: with lock: test / grant / enqueue; event.wait()),
            Transaction._setup_version -> WritableVersion.__init__ (two unlocked reads),
            Transaction._end_transaction -> Zone._commit_version / Zone._end_write
            (_commit_version_unlocked, _end_write_unlocked, _maybe_wakeup_one_waiter_unlocked),
            Zone.reader / Zone._end_read, Zone.set_pruning_policy.
   The version deque, readers, policy and pruning are the C11 model (VersM), reused as is.
   Definitions only. *)
From DV Require Import Base.Prelude Model.VersM.

Module WritersM.
Import VersM.

Inductive edit := EPut (k v : Z) | EDel (k : Z).

Inductive rsel := SelLatest | SelId (i : Z) | SelSerial (s : Z).

Inductive prog :=
| PWriter (replacement : bool) (edits : list edit) (commit : bool)   (* commit=false: rollback *)
| PReader (sel : rsel)
| PPolicy (p : pol)
| PNone.

(* critical sections (code executed between acquiring and releasing _version_lock) *)
Inductive crit :=
| CWriterTest (ev : option nat)        (* body of the `with` in writer(); ev = local variable `event` *)
| CEndWrite (id : Z) (c : content) (commit : bool)   (* _commit_version (true) / _end_write (false) *)
| CReaderOpen (sel : rsel)
| CReaderEnd (h : Z)
| CSetPolicy (p : pol).

Inductive pc :=
| Acq (c : crit)                 (* at `with self._version_lock:`; lock not yet held *)
| Crit (c : crit)                (* lock held, section not yet executed *)
| Rel (next : pc)                (* lock held, section executed, about to release; then `next` *)
| Wait (e : nat)                 (* event.wait() *)
| SetupId                        (* WritableVersion.__init__: zone._get_next_version_id(), no lock *)
| SetupBase (id : Z)             (* ... copy of the latest version's nodes, no lock *)
| Body (id : Z) (c : content) (changed : bool) (todo : list edit)
| RBody (h : Z) (i : Z) (c : content)   (* reader: snapshot in hand *)
| Done.

Record st := mkSt {
  prg : nat -> prog;             (* never changes *)
  pcs : nat -> pc;
  lock : option nat;             (* _version_lock holder *)
  wtxn : option nat;             (* _write_txn (identified by its thread) *)
  wevent : option nat;           (* _write_event *)
  waiters : list nat;            (* _write_waiters, FIFO *)
  evset : list nat;              (* events that have been set() *)
  nextev : nat;                  (* events created so far *)
  vz : VersM.st;                 (* _versions, _readers, _pruning_policy (+ ghost history) *)
  failed : option Z;             (* an Internal error (assert / IndexError) occurred *)
  (* ghost *)
  wq : list nat;                 (* threads owning the events of  _write_event ++ _write_waiters *)
  arrivals : list nat;           (* writers in the order of their first critical section in writer() *)
  granted : list nat;           (* writers in the order they were granted *)
  ended : list nat               (* writers in the order their transaction ended *)
}.

Definition upd {A} (f : nat -> A) (t : nat) (x : A) : nat -> A :=
  fun t' => if Nat.eqb t' t then x else f t'.

Definition oeqb (a b : option nat) : bool :=
  match a, b with
  | None, None => true
  | Some x, Some y => Nat.eqb x y
  | _, _ => false
  end.

Definition mem (e : nat) (l : list nat) : bool := existsb (Nat.eqb e) l.

Definition holds_lock (p : pc) : bool :=
  match p with Crit _ | Rel _ => true | _ => false end.

Definition enabled (s : st) (t : nat) : bool :=
  match pcs s t with
  | Acq _ => match lock s with None => true | Some _ => false end
  | Crit _ | Rel _ => true
  | Wait e => mem e (evset s)
  | SetupId | SetupBase _ | Body _ _ _ _ | RBody _ _ _ => true
  | Done => false
  end.

Definition apply_edit (e : edit) (cc : content * bool) : content * bool :=
  match e with
  | EPut k v => (c_put k v (fst cc), true)
  | EDel k => (c_del k (fst cc), snd cc || c_mem k (fst cc))
  end.

Definition commit_flag (p : prog) : bool :=
  match p with PWriter _ _ c => c | _ => false end.

(* where a writer goes when its remaining edits are `todo` *)
Definition body_pc (p : prog) (id : Z) (c : content) (ch : bool) (todo : list edit) : pc :=
  match todo with
  | [] => Acq (CEndWrite id c (commit_flag p && ch))   (* _end_transaction: commit iff asked and changed *)
  | _ => Body id c ch todo
  end.

Definition vz_set_wtxn (z : VersM.st) (w : option wtx) : VersM.st :=
  VersM.mkSt (versions z) (readers z) (policy z) w (next_h z) (hist z).

(* _maybe_wakeup_one_waiter_unlocked on the shared fields *)
Definition wakeup (s : st) : st :=
  match waiters s with
  | [] => s
  | e :: rest =>
      mkSt (prg s) (pcs s) (lock s) (wtxn s) (Some e) rest (e :: evset s) (nextev s) (vz s) (failed s)
           (wq s) (arrivals s) (granted s) (ended s)
  end.

Definition set_vz (s : st) (z : VersM.st) : st :=
  mkSt (prg s) (pcs s) (lock s) (wtxn s) (wevent s) (waiters s) (evset s) (nextev s) z (failed s)
       (wq s) (arrivals s) (granted s) (ended s).

Definition set_pc (s : st) (t : nat) (p : pc) : st :=
  mkSt (prg s) (upd (pcs s) t p) (lock s) (wtxn s) (wevent s) (waiters s) (evset s) (nextev s) (vz s)
       (failed s) (wq s) (arrivals s) (granted s) (ended s).

Definition set_failed (s : st) (e : Z) : st :=
  mkSt (prg s) (pcs s) (lock s) (wtxn s) (wevent s) (waiters s) (evset s) (nextev s) (vz s)
       (Some e) (wq s) (arrivals s) (granted s) (ended s).

Definition sel_op (x : rsel) : op :=
  match x with SelLatest => OpenLatest | SelId i => OpenId i | SelSerial v => OpenSerial v end.

(* the critical sections; thread t holds the lock.  Result: new shared state and t's next pc
   (always a Rel: the `with` block releases the lock on the way out, also on an exception) *)
Definition exec_crit (s : st) (t : nat) (c : crit) : st :=
  match c with
  | CWriterTest ev =>
      let arr := match ev with None => arrivals s ++ [t] | Some _ => arrivals s end in
      if (match wtxn s with None => true | Some _ => false end) && oeqb ev (wevent s) then
        (* granted: self._write_txn = Transaction(...); self._write_event = None; break *)
        let wq' := match ev with None => wq s | Some _ => tl (wq s) end in
        mkSt (prg s) (upd (pcs s) t (Rel SetupId)) (lock s) (Some t) None (waiters s) (evset s)
             (nextev s) (vz s) (failed s) wq' arr (granted s ++ [t]) (ended s)
      else
        (* event = threading.Event(); self._write_waiters.append(event) *)
        let e := nextev s in
        mkSt (prg s) (upd (pcs s) t (Rel (Wait e))) (lock s) (wtxn s) (wevent s) (waiters s ++ [e])
             (evset s) (S e) (vz s) (failed s) (wq s ++ [t]) arr (granted s) (ended s)
  | CEndWrite id c commit =>
      (* _commit_version_unlocked: append, prune, nodes := ...; then _end_write_unlocked *)
      let r := if commit
               then VersM.step (vz_set_wtxn (vz s) (Some (mkW id c true))) WCommit
               else Ok (vz s, RUnit) in
      match r with
      | Ok (z, _) =>
          (* _end_write_unlocked: assert self._write_txn == txn *)
          match wtxn s with
          | Some t' =>
              if Nat.eqb t' t then
                wakeup (mkSt (prg s) (upd (pcs s) t (Rel Done)) (lock s) None (wevent s) (waiters s)
                             (evset s) (nextev s) z (failed s) (wq s) (arrivals s) (granted s)
                             (ended s ++ [t]))
              else set_failed (set_pc s t (Rel Done)) eAssertion
          | None => set_failed (set_pc s t (Rel Done)) eAssertion
          end
      | Lib e | Internal e => set_failed (set_pc s t (Rel Done)) e
      end
  | CReaderOpen sel =>
      match VersM.step (vz s) (sel_op sel) with
      | Ok (z, ROpened h i c) => set_vz (set_pc s t (Rel (RBody h i c))) z
      | Ok (z, RUnit) => set_failed (set_pc s t (Rel Done)) eBadCase
      | Lib _ => set_pc s t (Rel Done)                       (* KeyError: propagates, lock released *)
      | Internal e => set_failed (set_pc s t (Rel Done)) e
      end
  | CReaderEnd h =>
      match VersM.step (vz s) (Close h) with
      | Ok (z, _) => set_vz (set_pc s t (Rel Done)) z
      | Lib e | Internal e => set_failed (set_pc s t (Rel Done)) e
      end
  | CSetPolicy p =>
      match VersM.step (vz s) (SetPolicy p) with
      | Ok (z, _) => set_vz (set_pc s t (Rel Done)) z
      | Lib e | Internal e => set_failed (set_pc s t (Rel Done)) e
      end
  end.

Definition set_lock (s : st) (l : option nat) : st :=
  mkSt (prg s) (pcs s) l (wtxn s) (wevent s) (waiters s) (evset s) (nextev s) (vz s) (failed s)
       (wq s) (arrivals s) (granted s) (ended s).

Definition base_content (p : prog) (z : VersM.st) : content :=
  match p with
  | PWriter true _ _ => []
  | _ => match last_opt (versions z) with Some v => vcont v | None => [] end
  end.

Definition edits_of (p : prog) : list edit :=
  match p with PWriter _ es _ => es | _ => [] end.

(* one step of thread t (only meaningful when enabled s t) *)
Definition step (s : st) (t : nat) : st :=
  match pcs s t with
  | Acq c => set_lock (set_pc s t (Crit c)) (Some t)
  | Crit c => exec_crit s t c
  | Rel next => set_lock (set_pc s t next) None
  | Wait e => set_pc s t (Acq (CWriterTest (Some e)))
  | SetupId => set_pc s t (SetupBase (next_id (versions (vz s))))
  | SetupBase id => set_pc s t (body_pc (prg s t) id (base_content (prg s t) (vz s)) false (edits_of (prg s t)))
  | Body id c ch [] => set_pc s t (body_pc (prg s t) id c ch [])
  | Body id c ch (e :: todo) =>
      let cc := apply_edit e (c, ch) in
      set_pc s t (body_pc (prg s t) id (fst cc) (snd cc) todo)
  | RBody h i c => set_pc s t (Acq (CReaderEnd h))
  | Done => s
  end.

Definition start_pc (p : prog) : pc :=
  match p with
  | PWriter _ _ _ => Acq (CWriterTest None)
  | PReader sel => Acq (CReaderOpen sel)
  | PPolicy p => Acq (CSetPolicy p)
  | PNone => Done
  end.

Definition init (progs : nat -> prog) : st :=
  mkSt progs (fun t => start_pc (progs t)) None None None [] [] 0%nat VersM.init None [] [] [] [].

(* a schedule is a list of thread ids; a disabled choice is skipped (the harness never makes one) *)
Definition sched_step (s : st) (t : nat) : st := if enabled s t then step s t else s.
Definition run_sched (s : st) (sch : list nat) : st := fold_left sched_step sch s.

(* ---------------------------------------------------------------- specification side *)

Definition run_edits (es : list edit) (cc : content * bool) : content * bool :=
  fold_left (fun acc e => apply_edit e acc) es cc.

(* serial application of one write transaction to the history of versions *)
Definition apply_txn (h : list version) (p : prog) : list version :=
  match p with
  | PWriter repl es commit =>
      let base := if repl then [] else match last_opt h with Some v => vcont v | None => [] end in
      let cc := run_edits es (base, false) in
      if commit && snd cc then h ++ [mkV (next_id h) (fst cc)] else h
  | _ => h
  end.

Definition serial (ps : list prog) : list version := fold_left apply_txn ps [mkV 1 []].

(* ---------------------------------------------------------------- observation / run *)

Definition obs_of_onat (o : option nat) : obs :=
  match o with Some n => I (Z.of_nat n) | None => N end.

Definition obs_of_nats (l : list nat) : obs := L (map (fun n => I (Z.of_nat n)) l).

Definition pc_code (p : pc) : obs :=
  match p with
  | Acq (CWriterTest ev) => L [I 1; obs_of_onat ev]
  | Crit (CWriterTest ev) => L [I 2; obs_of_onat ev]
  | Rel SetupId => L [I 3]
  | Rel (Wait e) => L [I 4; I (Z.of_nat e)]
  | Wait e => L [I 5; I (Z.of_nat e)]
  | SetupId => L [I 6]
  | SetupBase _ => L [I 7]
  | Body _ _ _ todo => L [I 8; I (zlen todo)]
  | Acq (CEndWrite _ _ cm) => L [I 9; ob cm]
  | Crit (CEndWrite _ _ cm) => L [I 10; ob cm]
  | Acq (CReaderOpen _) => L [I 11]
  | Crit (CReaderOpen _) => L [I 12]
  | Rel (RBody _ _ _) => L [I 13]
  | RBody _ i c => L [I 14; I i; obs_of_content c]
  | Acq (CReaderEnd _) => L [I 15]
  | Crit (CReaderEnd _) => L [I 16]
  | Acq (CSetPolicy _) => L [I 17]
  | Crit (CSetPolicy _) => L [I 18]
  | Rel Done => L [I 19]
  | Done => L [I 20]
  | Rel _ => L [I 21]
  end.

Definition view (n : nat) (s : st) : obs :=
  L [ obs_of_onat (lock s); obs_of_onat (wtxn s); obs_of_onat (wevent s); obs_of_nats (waiters s);
      obs_of_nats (rev (evset s));
      L (map (fun v => I (vid v)) (versions (vz s)));
      L (map (fun r => L [I (rh r); I (rvid r)]) (readers (vz s)));
      match last_opt (versions (vz s)) with Some v => obs_of_content (vcont v) | None => N end;
      L (map (fun t => pc_code (pcs s t)) (seq 0 n));
      L (map (fun t => ob (enabled s t)) (seq 0 n));
      match failed s with Some e => E e | None => N end;
      obs_of_nats (arrivals s); obs_of_nats (granted s); obs_of_nats (ended s) ].

Fixpoint edits_of_obs (l : list obs) : option (list edit) :=
  match l with
  | [] => Some []
  | L [I 0; I k; I v] :: r => match edits_of_obs r with Some es => Some (EPut k v :: es) | None => None end
  | L [I 1; I k] :: r => match edits_of_obs r with Some es => Some (EDel k :: es) | None => None end
  | _ => None
  end.

Definition prog_of_obs (o : obs) : option prog :=
  match o with
  | L [I 0; I repl; L es; I cm] =>
      match edits_of_obs es with Some es => Some (PWriter (repl =? 1) es (cm =? 1)) | None => None end
  | L [I 1; N] => Some (PReader SelLatest)
  | L [I 1; I 0; I i] => Some (PReader (SelId i))
  | L [I 1; I 1; I v] => Some (PReader (SelSerial v))
  | L [I 2; N] => Some (PPolicy pol_never)
  | L [I 2; I n] => Some (PPolicy (pol_max n))
  | _ => None
  end.

Fixpoint progs_of_obs (l : list obs) : option (list prog) :=
  match l with
  | [] => Some []
  | o :: r => match prog_of_obs o, progs_of_obs r with
              | Some p, Some ps => Some (p :: ps)
              | _, _ => None
              end
  end.

(* one harness step = one gate-to-gate run of the real thread.  The implementation has no gate
   inside _setup_version, so releasing the lock after admission also performs the two unlocked
   reads; everything else is one model step. *)
Definition macro_step (s : st) (t : nat) : st :=
  match pcs s t with
  | Rel SetupId => step (step (step s t) t) t
  | _ => step s t
  end.

Fixpoint run_obs (n : nat) (s : st) (sch : list obs) : list obs :=
  match sch with
  | [] => []
  | I z :: r =>
      let t := Z.to_nat z in
      if enabled s t then let s' := macro_step s t in view n s' :: run_obs n s' r
      else [E eWouldBlock]
  | _ => [E eBadCase]
  end.

Definition run (c : obs) : obs :=
  match c with
  | L [I _; L ps; L sch] =>
      match progs_of_obs ps with
      | Some ps => let n := length ps in
                   L (run_obs n (init (fun t => nth t ps PNone)) sch)
      | None => E eBadCase
      end
  | _ => E eBadCase
  end.

End WritersM.
