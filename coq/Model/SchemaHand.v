(* Hand models of the irregular RDATA codecs (outside the idiom set of the translator):
     HIP       dns/rdtypes/ANY/HIP.py        lengths packed in the header, data later
     IPSECKEY  dns/rdtypes/IN/IPSECKEY.py    Gateway helper (dns/rdtypes/util.py): branch on a header octet
     AMTRELAY  dns/rdtypes/ANY/AMTRELAY.py   Gateway helper + D bit packed into the type octet
     APL       dns/rdtypes/IN/APL.py         item loop, trailing-zero trimming of the address
   Same parser primitives and value type as SchemaM.  Definitions only. *)
From DV Require Import Base.Prelude Model.NameM Model.SchemaM.
Open Scope Z_scope.

Inductive hid := HHip | HIpseckey | HAmtrelay | HApl | HSvcb | HLoc | HOpt.

Definition get_u (wire : list Z) (endp cur w : nat) : res (Z * nat) :=
  do bc <- get_bytes wire endp cur w; Ok (be_decode (fst bc), snd bc).

Definition name_ok (n : name) : bool :=
  match validate_labels n with Ok _ => true | _ => false end.

(* ------------------------------------------------------------------ HIP *)
(* from_wire_parser: lh, algorithm, lk = get_struct("!BBH"); hit = get_bytes(lh);
   key = get_bytes(lk); servers = [] ; while remaining() > 0: get_name(origin) *)
Definition hip_dec (wire : list Z) (o : option name) (endp cur : nat) : res (list val * nat) :=
  do lh <- get_u wire endp cur 1;
  do alg <- get_u wire endp (snd lh) 1;
  do lk <- get_u wire endp (snd alg) 2;
  do hit <- get_bytes wire endp (snd lk) (Z.to_nat (fst lh));
  do key <- get_bytes wire endp (snd hit) (Z.to_nat (fst lk));
  do srv <- dec_rows wire o (S (endp - snd key)) [FName true] endp (snd key);
  Ok ([VS (VB (fst hit)); VS (VI (fst alg)); VS (VB (fst key)); VL (fst srv)], snd srv).

(* constructor: hit at most 255 octets, algorithm uint8, key at most 65535 octets (fix bbfd526),
   servers names *)
Definition hip_valid (vs : list val) : bool :=
  match vs with
  | [VS (VB hit); VS (VI alg); VS (VB key); VL srv] =>
      (zlen hit <=? 255) && (0 <=? alg) && (alg <=? 255) && (zlen key <=? 65535)
      && forallb (valid_row [FName true]) srv
  | _ => false
  end.

(* _to_wire: pack("!BBH", lh, algorithm, lk) hit key, then every server uncompressed *)
Definition hip_enc (o : option name) (vs : list val) : res (list Z) :=
  match vs with
  | [VS (VB hit); VS (VI alg); VS (VB key); VL srv] =>
      if (zlen hit <? 256) && (0 <=? alg) && (alg <? 256) && (zlen key <? 65536) then
        do s <- enc_rows o [FName true] srv;
        Ok (be_encode 1 (zlen hit) ++ be_encode 1 alg ++ be_encode 2 (zlen key) ++ hit ++ key ++ s)
      else Internal iStructError
  | _ => Internal eBadCase
  end.

(* ------------------------------------------------------------------ Gateway (util.py) *)
(* value of the gateway field: VL [] (None), VS (VB 4 octets), VS (VB 16 octets), VS (VN name) *)
Definition gw_dec (wire : list Z) (o : option name) (gt : Z) (endp cur : nat) : res (val * nat) :=
  if gt =? 0 then Ok (VL [], cur)
  else if gt =? 1 then do bc <- get_bytes wire endp cur 4; Ok (VS (VB (fst bc)), snd bc)
  else if gt =? 2 then do bc <- get_bytes wire endp cur 16; Ok (VS (VB (fst bc)), snd bc)
  else if gt =? 3 then do nc <- get_name wire o true endp cur; Ok (VS (VN (fst nc)), snd nc)
  else Lib eFormError.

(* Gateway._check *)
Definition gw_valid (gt : Z) (g : val) : bool :=
  match g with
  | VL [] => gt =? 0
  | VS (VB b) => ((gt =? 1) && Nat.eqb (length b) 4) || ((gt =? 2) && Nat.eqb (length b) 16)
  | VS (VN n) => (gt =? 3) && name_ok n
  | _ => false
  end.

Definition gw_enc (o : option name) (g : val) : res (list Z) :=
  match g with
  | VL [] => Ok []
  | VS (VB b) => Ok b
  | VS (VN n) => NameM.to_wire n o false
  | _ => Internal eBadCase
  end.

(* ------------------------------------------------------------------ IPSECKEY *)
Definition ipseckey_dec (wire : list Z) (o : option name) (endp cur : nat) : res (list val * nat) :=
  do prec <- get_u wire endp cur 1;
  do gt <- get_u wire endp (snd prec) 1;
  do alg <- get_u wire endp (snd gt) 1;
  do gw <- gw_dec wire o (fst gt) endp (snd alg);
  do key <- get_bytes wire endp (snd gw) (endp - snd gw);
  Ok ([VS (VI (fst prec)); VS (VI (fst gt)); VS (VI (fst alg)); fst gw; VS (VB (fst key))], snd key).

Definition u8_ok (z : Z) : bool := (0 <=? z) && (z <=? 255).

Definition ipseckey_valid (vs : list val) : bool :=
  match vs with
  | [VS (VI prec); VS (VI gt); VS (VI alg); gw; VS (VB key)] =>
      u8_ok prec && u8_ok gt && u8_ok alg && gw_valid gt gw
  | _ => false
  end.

Definition ipseckey_enc (o : option name) (vs : list val) : res (list Z) :=
  match vs with
  | [VS (VI prec); VS (VI gt); VS (VI alg); gw; VS (VB key)] =>
      if u8_ok prec && u8_ok gt && u8_ok alg then
        do g <- gw_enc o gw;
        Ok (be_encode 1 prec ++ be_encode 1 gt ++ be_encode 1 alg ++ g ++ key)
      else Internal iStructError
  | _ => Internal eBadCase
  end.

(* ------------------------------------------------------------------ AMTRELAY *)
(* precedence, relay_type = get_struct("!BB"); discovery_optional = bool(relay_type >> 7);
   relay_type &= 0x7F *)
Definition amtrelay_dec (wire : list Z) (o : option name) (endp cur : nat) : res (list val * nat) :=
  do prec <- get_u wire endp cur 1;
  do rt <- get_u wire endp (snd prec) 1;
  let d := fst rt / 128 in
  let ty := fst rt mod 128 in
  do gw <- gw_dec wire o ty endp (snd rt);
  Ok ([VS (VI (fst prec)); VS (VI d); VS (VI ty); fst gw], snd gw).

Definition amtrelay_valid (vs : list val) : bool :=
  match vs with
  | [VS (VI prec); VS (VI d); VS (VI ty); gw] =>
      u8_ok prec && ((d =? 0) || (d =? 1)) && u8_ok ty && gw_valid ty gw
  | _ => false
  end.

Definition amtrelay_enc (o : option name) (vs : list val) : res (list Z) :=
  match vs with
  | [VS (VI prec); VS (VI d); VS (VI ty); gw] =>
      if u8_ok prec && u8_ok (ty + 128 * d) then
        do g <- gw_enc o gw;
        Ok (be_encode 1 prec ++ be_encode 1 (ty + 128 * d) ++ g)
      else Internal iStructError
  | _ => Internal eBadCase
  end.

(* ------------------------------------------------------------------ APL *)
Fixpoint drop_zeros (r : list Z) : list Z :=
  match r with
  | 0 :: r' => drop_zeros r'
  | _ => r
  end.
(* APLItem.to_wire: truncate least significant zero octets *)
Definition strip0 (b : list Z) : list Z := rev (drop_zeros (rev b)).

Definition pad_to (n : nat) (b : list Z) : list Z := b ++ repeat 0 (n - length b).

(* one item of the while loop in APL.from_wire_parser (values before validation) *)
Definition apl_item_dec (wire : list Z) (endp cur : nat) : res (list sval * nat) :=
  do fam <- get_u wire endp cur 2;
  do pre <- get_u wire endp (snd fam) 1;
  do afd <- get_u wire endp (snd pre) 1;
  let neg := if fst afd >? 127 then 1 else 0 in
  let len := if fst afd >? 127 then fst afd - 128 else fst afd in
  do a <- get_bytes wire endp (snd afd) (Z.to_nat len);
  let addr :=
    if fst fam =? 1 then (if Nat.ltb (length (fst a)) 4 then pad_to 4 (fst a) else fst a)
    else if fst fam =? 2 then (if Nat.ltb (length (fst a)) 16 then pad_to 16 (fst a) else fst a)
    else fst a in
  Ok ([VI (fst fam); VI neg; VB addr; VI (fst pre)], snd a).

(* APLItem.__init__ *)
Definition apl_item_valid (r : list sval) : bool :=
  match r with
  | [VI fam; VI neg; VB addr; VI prefix] =>
      (0 <=? fam) && (fam <=? 65535) && ((neg =? 0) || (neg =? 1)) && (0 <=? prefix)
      && (if fam =? 1 then Nat.eqb (length addr) 4 && (prefix <=? 32)
          else if fam =? 2 then Nat.eqb (length addr) 16 && (prefix <=? 128)
          else (2 * zlen addr <=? 127) && (prefix <=? 255))
  | _ => false
  end.

Fixpoint apl_items_dec (fuel : nat) (wire : list Z) (endp cur : nat) : res (list (list sval) * nat) :=
  if Nat.leb endp cur then Ok ([], cur)
  else
    match fuel with
    | O => Internal iFuel
    | S fuel' =>
        do ic <- apl_item_dec wire endp cur;
        (* the item object is constructed (validated) inside the loop *)
        if negb (apl_item_valid (fst ic)) then Lib eFormError
        else
          do rest <- apl_items_dec fuel' wire endp (snd ic);
          Ok (fst ic :: fst rest, snd rest)
    end.

Definition apl_dec (wire : list Z) (o : option name) (endp cur : nat) : res (list val * nat) :=
  do ic <- apl_items_dec (S (endp - cur)) wire endp cur; Ok ([VL (fst ic)], snd ic).

Definition apl_valid (vs : list val) : bool :=
  match vs with
  | [VL items] => forallb apl_item_valid items
  | _ => false
  end.

Definition apl_item_enc (r : list sval) : res (list Z) :=
  match r with
  | [VI fam; VI neg; VB addr; VI prefix] =>
      let a := strip0 addr in
      if (zlen a <? 128) && (0 <=? fam) && (fam <? 65536) && u8_ok prefix then
        Ok (be_encode 2 fam ++ be_encode 1 prefix ++ be_encode 1 (zlen a + 128 * neg) ++ a)
      else Internal iStructError
  | _ => Internal eBadCase
  end.

Fixpoint apl_items_enc (items : list (list sval)) : res (list Z) :=
  match items with
  | [] => Ok []
  | r :: rr => do a <- apl_item_enc r; do b <- apl_items_enc rr; Ok (a ++ b)
  end.

Definition apl_enc (o : option name) (vs : list val) : res (list Z) :=
  match vs with
  | [VL items] => apl_items_enc items
  | _ => Internal eBadCase
  end.

(* ------------------------------------------------------------------ SVCB / HTTPS *)
(* dns/rdtypes/svcbbase.py.  Value: [VS (VI priority); VS (VN target); VL [[VI key; VB value]...]]
   where `value` is the wire form of the parameter value (every Param class re-emits exactly the
   octets it accepted, so the per-key parsers are modelled as acceptance predicates). *)

Fixpoint u16s (b : list Z) : option (list Z) :=
  match b with
  | [] => Some []
  | hi :: lo :: r => match u16s r with Some l => Some (hi * 256 + lo :: l) | None => None end
  | _ => None
  end.

Fixpoint strictly_asc (last : Z) (l : list Z) : bool :=
  match l with
  | [] => true
  | x :: r => (last <? x) && strictly_asc x r
  end.

(* MandatoryParam: uint16 keys, ascending on the wire, no duplicates, never key 0 *)
Definition mandatory_keys (raw : list Z) : option (list Z) :=
  match u16s raw with
  | Some ks => if strictly_asc 0 ks then Some ks else None
  | None => None
  end.

(* _StringList / ALPNParam: counted strings, none empty, exactly filling the value *)
Fixpoint strlist_ok (fuel : nat) (b : list Z) : bool :=
  match b with
  | [] => true
  | n :: r =>
      match fuel with
      | O => false
      | S f => (0 <? n) && (n <=? zlen r) && strlist_ok f (skipn (Z.to_nat n) r)
      end
  end.

Definition svcb_param_ok (key : Z) (raw : list Z) : bool :=
  if key =? 0 then match mandatory_keys raw with Some _ => true | None => false end
  else if (key =? 1) || (key =? 10) then strlist_ok (length raw) raw
  else if (key =? 2) || (key =? 8) then Nat.eqb (length raw) 0
  else if key =? 3 then Nat.eqb (length raw) 2
  else if key =? 4 then Nat.eqb (length raw mod 4) 0
  else if key =? 6 then Nat.eqb (length raw mod 16) 0
  else true.

(* the while loop of SVCBBase.from_wire_parser; prior = last key seen (starts at -1) *)
Fixpoint svcb_params_dec (fuel : nat) (wire : list Z) (endp cur : nat) (prior : Z)
  : res (list (list sval) * nat) :=
  if Nat.leb endp cur then Ok ([], cur)
  else
    match fuel with
    | O => Internal iFuel
    | S fuel' =>
        do key <- get_u wire endp cur 2;
        if fst key <? prior then Lib eFormError
        else
          do vlen <- get_u wire endp (snd key) 2;
          (* restrict_to(vlen) + the parameter's own parser, which must consume exactly vlen *)
          do raw <- get_bytes wire endp (snd vlen) (Z.to_nat (fst vlen));
          if negb (svcb_param_ok (fst key) (fst raw)) then Lib eFormError
          else
            do rest <- svcb_params_dec fuel' wire endp (snd raw) (fst key);
            Ok ([VI (fst key); VB (fst raw)] :: fst rest, snd rest)
    end.

(* params[pkey] = value : a repeated key keeps the last value; to_wire emits sorted keys *)
Fixpoint dedupe_last (l : list (list sval)) : list (list sval) :=
  match l with
  | [VI k; v] :: (([VI k'; _] :: _) as r) => if k =? k' then dedupe_last r else [VI k; v] :: dedupe_last r
  | x :: r => x :: dedupe_last r
  | [] => []
  end.

Definition svcb_keys (ps : list (list sval)) : list Z :=
  flat_map (fun r => match r with VI k :: _ => [k] | _ => [] end) ps.

Definition mem_z (k : Z) (l : list Z) : bool := existsb (Z.eqb k) l.

(* SVCBBase.__init__: mandatory keys present; no-default-alpn needs alpn *)
Definition svcb_record_ok (ps : list (list sval)) : bool :=
  let keys := svcb_keys ps in
  forallb (fun r => match r with
                    | [VI 0; VB raw] => match mandatory_keys raw with
                                        | Some ks => forallb (fun k => mem_z k keys) ks
                                        | None => false
                                        end
                    | _ => true
                    end) ps
  && (negb (mem_z 2 keys) || mem_z 1 keys).

Definition svcb_param_row_ok (r : list sval) : bool :=
  match r with
  | [VI k; VB raw] => (0 <=? k) && (k <=? 65535) && (zlen raw <=? 65535) && svcb_param_ok k raw
  | _ => false
  end.

Definition svcb_valid (vs : list val) : bool :=
  match vs with
  | [VS (VI prio); VS (VN target); VL ps] =>
      (0 <=? prio) && (prio <=? 65535) && name_ok target
      && forallb svcb_param_row_ok ps && strictly_asc (-1) (svcb_keys ps) && svcb_record_ok ps
  | _ => false
  end.

Definition svcb_dec (wire : list Z) (o : option name) (endp cur : nat) : res (list val * nat) :=
  do prio <- get_u wire endp cur 2;
  do tgt <- get_name wire o true endp (snd prio);
  if (fst prio =? 0) && negb (Nat.eqb (endp - snd tgt) 0) then Lib eFormError
  else
    do ps <- svcb_params_dec (S (endp - snd tgt)) wire endp (snd tgt) (-1);
    Ok ([VS (VI (fst prio)); VS (VN (fst tgt)); VL (dedupe_last (fst ps))], snd ps).

Fixpoint svcb_params_enc (ps : list (list sval)) : res (list Z) :=
  match ps with
  | [] => Ok []
  | [VI k; VB raw] :: r =>
      if (0 <=? k) && (k <? 65536) && (zlen raw <? 65536) then
        do rest <- svcb_params_enc r;
        Ok (be_encode 2 k ++ be_encode 2 (zlen raw) ++ raw ++ rest)
      else Internal iStructError
  | _ => Internal eBadCase
  end.

Definition svcb_enc (o : option name) (vs : list val) : res (list Z) :=
  match vs with
  | [VS (VI prio); VS (VN target); VL ps] =>
      if (0 <=? prio) && (prio <? 65536) then
        do t <- NameM.to_wire target o false;
        do p <- svcb_params_enc ps;
        Ok (be_encode 2 prio ++ t ++ p)
      else Internal iStructError
  | _ => Internal eBadCase
  end.

Definition svcb_shape : list fld :=
  [FS (FU 2 65535); FS (FName true); FRepeat false false [FU 2 65535; FCounted 2 0 65535]].

(* ------------------------------------------------------------------ LOC (integer skeleton) *)
(* dns/rdtypes/ANY/LOC.py.  Value:
     [VL [[VI d; VI m; VI s; VI ms; VI sign]]; VL [[... longitude ...]]; VS (VI altitude_cm);
      VS (VI size_cm); VS (VI hprec_cm); VS (VI vprec_cm)]
   The float detour of the reader (x / 3600000, then round(x * 3600000) in _float_to_tuple) is
   exact for |x| <= 180 degrees, so the model works on integers; the correspondence checks that. *)
Definition two31 := 2147483648.

Definition coord_of_wire (v : Z) : list sval :=
  let sign := if v >=? two31 then 1 else -1 in
  let ms := Z.abs (v - two31) in
  [VI (ms / 3600000); VI ((ms mod 3600000) / 60000); VI ((ms mod 60000) / 1000); VI (ms mod 1000); VI sign].

(* _decode_size *)
Definition loc_decode_size (b : Z) : res Z :=
  let e := b mod 16 in
  let base := b / 16 in
  if e >? 9 then Lib eFormError else if base >? 9 then Lib eFormError
  else Ok (base * 10 ^ e).

Definition loc_dec (wire : list Z) (o : option name) (endp cur : nat) : res (list val * nat) :=
  do ver <- get_u wire endp cur 1;
  do size <- get_u wire endp (snd ver) 1;
  do hp <- get_u wire endp (snd size) 1;
  do vp <- get_u wire endp (snd hp) 1;
  do lat <- get_u wire endp (snd vp) 4;
  do lon <- get_u wire endp (snd lat) 4;
  do alt <- get_u wire endp (snd lon) 4;
  if negb (fst ver =? 0) then Lib eFormError
  else if (fst lat <? two31 - 90 * 3600000) || (fst lat >? two31 + 90 * 3600000) then Lib eFormError
  else if (fst lon <? two31 - 180 * 3600000) || (fst lon >? two31 + 180 * 3600000) then Lib eFormError
  else
    do s <- loc_decode_size (fst size);
    do h <- loc_decode_size (fst hp);
    do v <- loc_decode_size (fst vp);
    Ok ([VL [coord_of_wire (fst lat)]; VL [coord_of_wire (fst lon)]; VS (VI (fst alt - 10000000));
         VS (VI s); VS (VI h); VS (VI v)], snd alt).

(* _check_coordinate_list *)
Definition coord_valid (lim : Z) (c : list sval) : bool :=
  match c with
  | [VI d; VI m; VI s; VI ms; VI sg] =>
      (- lim <=? d) && (d <=? lim) && (0 <=? m) && (m <=? 59) && (0 <=? s) && (s <=? 59)
      && (0 <=? ms) && (ms <=? 999) && ((sg =? 1) || (sg =? -1))
  | _ => false
  end.

Definition loc_valid (vs : list val) : bool :=
  match vs with
  | [VL [lat]; VL [lon]; VS (VI _); VS (VI _); VS (VI _); VS (VI _)] => coord_valid 90 lat && coord_valid 180 lon
  | _ => false
  end.

Definition coord_to_wire (c : list sval) : Z :=
  match c with
  | [VI d; VI m; VI s; VI ms; VI sg] => two31 + (d * 3600000 + m * 60000 + s * 1000 + ms) * sg
  | _ => 0
  end.

(* _exponent_of / _encode_size: SyntaxError (a DNSException) when the value is out of bounds *)
Definition eDNSException := 800.
Fixpoint exponent_of (i : nat) (what : Z) : option Z :=
  (* smallest k in 0..i-... : searched upwards; i counts the remaining powers *)
  match i with
  | O => None
  | S i' => if what <? 10 ^ (11 - Z.of_nat i) then Some (11 - Z.of_nat i - 1) else exponent_of i' what
  end.

Definition loc_encode_size (what : Z) : res Z :=
  if what =? 0 then Ok 0
  else match exponent_of 11 what with
       | Some e => if e <? 0 then Lib eDNSException else Ok ((what / 10 ^ e) mod 16 * 16 + e mod 16)
       | None => Lib eDNSException
       end.

Definition loc_enc (o : option name) (vs : list val) : res (list Z) :=
  match vs with
  | [VL [lat]; VL [lon]; VS (VI alt); VS (VI size); VS (VI hp); VS (VI vp)] =>
      do s <- loc_encode_size size;
      do h <- loc_encode_size hp;
      do v <- loc_encode_size vp;
      let la := coord_to_wire lat in
      let lo := coord_to_wire lon in
      let al := alt + 10000000 in
      if (0 <=? la) && (la <? 4294967296) && (0 <=? lo) && (lo <? 4294967296) && (0 <=? al) && (al <? 4294967296) then
        Ok ([0; s; h; v] ++ be_encode 4 la ++ be_encode 4 lo ++ be_encode 4 al)
      else Internal iStructError
  | _ => Internal eBadCase
  end.

(* ------------------------------------------------------------------ OPT / EDNS options *)
(* dns/rdtypes/ANY/OPT.py + dns/edns.py.  Value: [VL [[VI otype; VB payload]...]] where payload is
   the option's own to_wire() (the harness reads it back like that), i.e. the NORMALISED option
   data: ECS address bits beyond the source prefix cleared, trailing NULs of EDE text dropped,
   a REPORTCHANNEL name uncompressed. *)

Definition cont (b : Z) : bool := (128 <=? b) && (b <=? 191).

(* bytes.decode("utf8"), strict: shortest form, no surrogates, at most U+10FFFF *)
Fixpoint utf8_ok (fuel : nat) (b : list Z) : bool :=
  match fuel with
  | O => match b with [] => true | _ => false end
  | S f =>
      match b with
      | [] => true
      | b0 :: r =>
          if (0 <=? b0) && (b0 <? 128) then utf8_ok f r
          else if (194 <=? b0) && (b0 <=? 223) then
            match r with b1 :: r1 => cont b1 && utf8_ok f r1 | _ => false end
          else if (224 <=? b0) && (b0 <=? 239) then
            match r with
            | b1 :: b2 :: r2 =>
                cont b1 && cont b2
                && (negb (b0 =? 224) || (160 <=? b1))
                && (negb (b0 =? 237) || (b1 <=? 159))
                && utf8_ok f r2
            | _ => false
            end
          else if (240 <=? b0) && (b0 <=? 244) then
            match r with
            | b1 :: b2 :: b3 :: r3 =>
                cont b1 && cont b2 && cont b3
                && (negb (b0 =? 240) || (144 <=? b1))
                && (negb (b0 =? 244) || (b1 <=? 143))
                && utf8_ok f r3
            | _ => false
            end
          else false
      end
  end.

Definition utf8 (b : list Z) : bool := utf8_ok (length b) b.

(* clear the low (8 - nbits) bits of an octet:  x & (0xFF << (8 - nbits)) *)
Definition mask_bits (x nbits : Z) : Z := x / 2 ^ (8 - nbits) * 2 ^ (8 - nbits).

Definition mask_last (addr : list Z) (nbits : Z) : list Z :=
  if nbits =? 0 then addr
  else match rev addr with
       | [] => []
       | l :: r => rev (mask_bits l nbits :: r)
       end.

(* one option: acceptance and normalised payload, given its octets `d` (ECS, EDE, NSID, COOKIE,
   the text options, generic).  REPORTCHANNEL needs the message (name) and is handled apart. *)
Definition opt_norm (ot : Z) (d : list Z) : option (list Z) :=
  if ot =? 8 then
    match d with
    | f1 :: f2 :: src :: scope :: addr =>
        let fam := f1 * 256 + f2 in
        let alen := (src + 7) / 8 in
        let full := if fam =? 1 then 4 else 16 in
        if ((fam =? 1) || (fam =? 2)) && (zlen addr =? alen) && (alen <=? full)
           && (src <=? 8 * full) && (scope <=? 8 * full)
        then Some (f1 :: f2 :: src :: scope :: mask_last addr (src mod 8))
        else None
    | _ => None
    end
  else if ot =? 15 then
    match d with
    | c1 :: c2 :: text =>
        (* text.rstrip(b"\x00") (after fix e554dd4; before, only ONE trailing NUL was dropped and
           the option's own encoding decoded to a different option) *)
        let text' := strip0 text in
        if utf8 text' then Some (c1 :: c2 :: text') else None
    | _ => None
    end
  else if ot =? 10 then
    let n := zlen d in
    if (n =? 8) || ((16 <=? n) && (n <=? 40)) then Some d else None
  else if (22 <=? ot) && (ot <=? 25) then (if utf8 d then Some d else None)
  else Some d.

Fixpoint opt_items_dec (fuel : nat) (wire : list Z) (endp cur : nat) : res (list (list sval) * nat) :=
  if Nat.leb endp cur then Ok ([], cur)
  else
    match fuel with
    | O => Internal iFuel
    | S fuel' =>
        do ot <- get_u wire endp cur 2;
        do ol <- get_u wire endp (snd ot) 2;
        (* restrict_to(olen) *)
        if Nat.ltb (endp - snd ol) (Z.to_nat (fst ol)) then Lib eFormError
        else
          let oend := (snd ol + Z.to_nat (fst ol))%nat in
          do payload <-
            (if fst ot =? 18 then
               (* ReportChannelOption: parser.get_name(), must fill the option exactly *)
               match get_name wire None false oend (snd ol) with
               | Ok (n, c) => if Nat.eqb c oend then Ok (wire_labels false n) else Lib eFormError
               | Lib e => Lib e
               | Internal e => Internal e
               end
             else
               do d <- get_bytes wire oend (snd ol) (Z.to_nat (fst ol));
               match opt_norm (fst ot) (fst d) with
               | Some p => Ok p
               | None => Lib eFormError
               end);
          do rest <- opt_items_dec fuel' wire endp oend;
          Ok ([VI (fst ot); VB payload] :: fst rest, snd rest)
    end.

Definition opt_dec (wire : list Z) (o : option name) (endp cur : nat) : res (list val * nat) :=
  do ic <- opt_items_dec (S (endp - cur)) wire endp cur; Ok ([VL (fst ic)], snd ic).

(* a payload in normal form (what the option classes hold and re-emit) *)
Definition opt_payload_ok (ot : Z) (p : list Z) : bool :=
  if ot =? 18 then
    match NameM.from_wire p 0 with
    | Ok (n, c) => Nat.eqb c (length p) && zlist_eqb (wire_labels false n) p
    | _ => false
    end
  else match opt_norm ot p with
       | Some q => zlist_eqb q p
       | None => false
       end.

Definition opt_row_ok (r : list sval) : bool :=
  match r with
  | [VI ot; VB p] => (0 <=? ot) && (ot <=? 65535) && opt_payload_ok ot p
  | _ => false
  end.

Definition opt_valid (vs : list val) : bool :=
  match vs with
  | [VL items] => forallb opt_row_ok items
  | _ => false
  end.

Fixpoint opt_items_enc (items : list (list sval)) : res (list Z) :=
  match items with
  | [] => Ok []
  | [VI ot; VB p] :: r =>
      if (0 <=? ot) && (ot <? 65536) && (zlen p <? 65536) then
        do rest <- opt_items_enc r;
        Ok (be_encode 2 ot ++ be_encode 2 (zlen p) ++ p ++ rest)
      else Internal iStructError
  | _ => Internal eBadCase
  end.

Definition opt_enc (o : option name) (vs : list val) : res (list Z) :=
  match vs with
  | [VL items] => opt_items_enc items
  | _ => Internal eBadCase
  end.

Definition opt_shape : list fld := [FRepeat false false [FU 2 65535; FCounted 2 0 65535]].

(* ------------------------------------------------------------------ dispatch *)
Definition hand_dec (h : hid) := match h with HHip => hip_dec | HIpseckey => ipseckey_dec | HAmtrelay => amtrelay_dec | HApl => apl_dec | HSvcb => svcb_dec | HLoc => loc_dec | HOpt => opt_dec end.
Definition hand_valid (h : hid) := match h with HHip => hip_valid | HIpseckey => ipseckey_valid | HAmtrelay => amtrelay_valid | HApl => apl_valid | HSvcb => svcb_valid | HLoc => loc_valid | HOpt => opt_valid end.
Definition hand_enc (h : hid) := match h with HHip => hip_enc | HIpseckey => ipseckey_enc | HAmtrelay => amtrelay_enc | HApl => apl_enc | HSvcb => svcb_enc | HLoc => loc_enc | HOpt => opt_enc end.

(* dns.rdata.from_wire for a hand-modelled class (same frame as SchemaM.decode_rdata) *)
Definition hand_decode_rdata (h : hid) (origin : option name) (wire : list Z) (cur rdlen : nat)
  : res (list val) :=
  if Nat.ltb (length wire) cur then Lib eFormError
  else if Nat.ltb (length wire - cur) rdlen then Lib eFormError
  else
    let endp := (cur + rdlen)%nat in
    do vc <- hand_dec h wire origin endp cur;
    if negb (hand_valid h (fst vc)) then Lib eFormError
    else if Nat.eqb (snd vc) endp then Ok (fst vc) else Lib eFormError.

Definition hand_encode_rdata (h : hid) (origin : option name) (vs : list val) : res (list Z) :=
  if hand_valid h vs then hand_enc h origin vs else Lib eValueError.

(* ------------------------------------------------------------------ obs interface *)
Definition gw_of_obs (o : obs) : option val :=
  match o with
  | N => Some (VL [])
  | B b => Some (VS (VB b))
  | L l => match name_of_obs l with Some n => Some (VS (VN n)) | None => None end
  | _ => None
  end.
Definition obs_of_gw (g : val) : obs :=
  match g with
  | VS x => obs_of_sval x
  | VL _ => N
  end.

Definition hip_shape : list fld := [FS (FCounted 1 0 255); FS (FU 1 255); FS (FCounted 2 0 65535); FRepeat false false [FName true]].
Definition apl_shape : list fld := [FRepeat false false [FU 2 65535; FU 1 1; FCounted 1 0 127; FU 1 255]].

Definition hand_vals_of_obs (h : hid) (os : list obs) : option (list val) :=
  match h with
  | HHip => vals_of_obs hip_shape os
  | HApl => vals_of_obs apl_shape os
  | HSvcb => vals_of_obs svcb_shape os
  | HOpt => vals_of_obs opt_shape os
  | HLoc =>
      match os with
      | [L [I d; I m; I s; I ms; I sg]; L [I d2; I m2; I s2; I ms2; I sg2]; I alt; I sz; I hp; I vp] =>
          Some [VL [[VI d; VI m; VI s; VI ms; VI sg]]; VL [[VI d2; VI m2; VI s2; VI ms2; VI sg2]];
                VS (VI alt); VS (VI sz); VS (VI hp); VS (VI vp)]
      | _ => None
      end
  | HIpseckey =>
      match os with
      | [I p; I g; I a; gw; B k] =>
          match gw_of_obs gw with Some x => Some [VS (VI p); VS (VI g); VS (VI a); x; VS (VB k)] | None => None end
      | _ => None
      end
  | HAmtrelay =>
      match os with
      | [I p; I d; I t; gw] =>
          match gw_of_obs gw with Some x => Some [VS (VI p); VS (VI d); VS (VI t); x] | None => None end
      | _ => None
      end
  end.

Definition obs_of_hand_vals (h : hid) (vs : list val) : obs :=
  match h, vs with
  | HIpseckey, [p; g; a; gw; k] => L [obs_of_val p; obs_of_val g; obs_of_val a; obs_of_gw gw; obs_of_val k]
  | HAmtrelay, [p; d; t; gw] => L [obs_of_val p; obs_of_val d; obs_of_val t; obs_of_gw gw]
  | HLoc, [VL [lat]; VL [lon]; a; s; h; v] =>
      L [L (map obs_of_sval lat); L (map obs_of_sval lon); obs_of_val a; obs_of_val s; obs_of_val h; obs_of_val v]
  | _, _ => L (map obs_of_val vs)
  end.

