(* C17 - the vocabulary of the theorems: monotone clocks, the ideal map (key -> most recently
   stored answer that was neither flushed nor evicted), the event history with recency ages and
   counters, runs that carry this ghost state, reachable worlds.  Definitions only.
   `run` (end of file) prints the ghost after every step, so the harness can compare these
   definitions with the property oracle's own bookkeeping on real histories. *)
From DV Require Import Base.Prelude Model.CacheM Model.CacheAnsM.

(* ------------------------------------------------------------------ monotone clock *)
Definition nonneg (ds : list Z) : Prop := Forall (fun d => 0 <= d) ds.
Definition mono_item (it : item) : Prop :=
  match it with Call _ ds => nonneg ds | Adv d => 0 <= d end.
Definition mono (its : list item) : Prop := Forall mono_item its.


(* ------------------------------------------------------------------ the ideal map *)
Definition imap := Z -> option ans.

(* hb / ha : which keys the cache holds before / after the call.  A key that a put or a
   set_max_size makes disappear (other than the key being put) was evicted. *)
Definition ideal_upd (cl : call) (hb ha : Z -> bool) (m : imap) : imap :=
  fun x =>
    match cl with
    | Put k v => if x =? k then Some v else if hb x && negb (ha x) then None else m x
    | SetMax _ => if hb x && negb (ha x) then None else m x
    | Flush (Some k) => if x =? k then None else m x
    | Flush None => None
    | _ => m x
    end.

(* what a lookup must return given the ideal map and the clock reading of the lookup *)
Definition expected (m : imap) (key : Z) (t : Z) : ret :=
  match m key with
  | Some v => if a_exp v <=? t then RNone else RAns v
  | None => RNone
  end.


(* ------------------------------------------------------------------ recency: who was used last *)
Definition event := (call * ret)%type.

(* a call uses key k if it stores k or successfully looks k up *)
Definition uses (ev : event) (k : Z) : bool :=
  match ev with
  | (Put k' _, _) => k' =? k
  | (Get k', RAns _) => k' =? k
  | _ => false
  end.

(* history: most recent event first.  age h k = how many events ago k was last used *)
Fixpoint age (h : list event) (k : Z) : option nat :=
  match h with
  | [] => None
  | ev :: r => if uses ev k then Some 0%nat else option_map S (age r k)
  end.

Definition younger (h : list event) (k k' : Z) : Prop :=
  exists n n', age h k = Some n /\ age h k' = Some n' /\ (n < n')%nat.


(* ------------------------------------------------------------------ counters as functions of the history *)
(* (hits, misses) since the last reset_statistics: one per lookup *)
Fixpoint stats_of (h : list event) : Z * Z :=
  match h with
  | [] => (0, 0)
  | (ResetStats, _) :: _ => (0, 0)
  | (Get _, RAns _) :: r => (fst (stats_of r) + 1, snd (stats_of r))
  | (Get _, _) :: r => (fst (stats_of r), snd (stats_of r) + 1)
  | _ :: r => stats_of r
  end.

(* successful lookups of k since k was last stored *)
Fixpoint key_hits (h : list event) (k : Z) : Z :=
  match h with
  | [] => 0
  | (Put k' _, _) :: r => if k' =? k then 0 else key_hits r k
  | (Get k', RAns _) :: r => (if k' =? k then 1 else 0) + key_hits r k
  | _ :: r => key_hits r k
  end.


(* get_hits_for_key: the hits of the stored answer if it is still there and unexpired, else 0 *)
Definition expected_hits (m : imap) (h : list event) (key : Z) (t : Z) : ret :=
  match m key with
  | Some v => if a_exp v <=? t then RInt 0 else RInt (key_hits h key)
  | None => RInt 0
  end.


(* ------------------------------------------------------------------ how the key set can change *)
(* a key leaves the cache only through flush, through a lookup of that key finding it expired,
   or through eviction by put / set_max_size; it enters only through put *)
Definition keyset_rule (cl : call) (hb ha : Z -> bool) (x : Z) : Prop :=
  match cl with
  | Get key => x <> key -> ha x = hb x
  | Put key _ => (x = key -> ha x = true) /\ (x <> key -> hb x = false -> ha x = false)
  | Flush (Some key) => ha x = if x =? key then false else hb x
  | Flush None => ha x = false
  | SetMax _ => hb x = false -> ha x = false
  | HitsFor _ | Hits | Misses | Snapshot | ResetStats => ha x = hb x
  end.


(* ------------------------------------------------------------------ runs with ghost state *)
Section Ghost.
  Context {St G : Type}.
  Variable step : call -> St -> clk -> res (ret * St * clk).
  Variable gupd : call -> St -> ret -> St -> G -> G.

  Definition gnext (it : item) (w : St * Z) (x : option ret * (St * Z)) (g : G) : G :=
    match it, fst x with
    | Call c _, Some rt => gupd c (fst w) rt (fst (snd x)) g
    | _, _ => g
    end.

  Fixpoint grun (its : list item) (w : St * Z) (g : G) : res (G * (St * Z)) :=
    match its with
    | [] => Ok (g, w)
    | it :: r => do x <- wstep step it w; grun r (snd x) (gnext it w x g)
    end.

End Ghost.

(* ------------------------------------------------------------------ LRUCache *)
Definition has (c : lru) (x : Z) : bool :=
  match dget (l_dict c) x with Some _ => true | None => false end.

(* ghost: ideal map, event history (most recent first) *)
Definition lghost := (imap * list event)%type.
Definition lru_gupd (cl : call) (c : lru) (r : ret) (c' : lru) (g : lghost) : lghost :=
  (ideal_upd cl (has c) (has c') (fst g), (cl, r) :: snd g).
Definition lghost0 : lghost := (fun _ => None, []).

Definition lru_grun := grun lru_step lru_gupd.


(* a reachable world of LRUCache(m) created at clock t0, with its ghost state *)
Definition lru_reach (m t0 : Z) (its : list item) (g : lghost) (w : lru * Z) : Prop :=
  exists c0, lru_init m = Ok c0 /\ lru_grun its (c0, t0) lghost0 = Ok (g, w).


(* ------------------------------------------------------------------ Cache *)
Definition nohas : Z -> bool := fun _ => false.
Definition cache_gupd (cl : call) (c : cache) (r : ret) (c' : cache) (g : lghost) : lghost :=
  (ideal_upd cl nohas nohas (fst g), (cl, r) :: snd g).
Definition cache_grun := grun cache_step cache_gupd.


Definition cache_call (cl : call) : Prop :=
  match cl with SetMax _ | HitsFor _ => False | _ => True end.


Definition cache_item (it : item) : Prop :=
  match it with Call c _ => cache_call c | Adv _ => True end.


(* Cache(interval) created while the clock shows t0 (ds0: the increment seen by the read in
   __init__), then the history *)
Definition cache_reach (interval t0 : Z) (ds0 : list Z) (its : list item) (g : lghost) (w : cache * Z) : Prop :=
  cache_grun its (fst (cache_init interval (mkClk t0 ds0)), now (snd (cache_init interval (mkClk t0 ds0))))
             lghost0 = Ok (g, w).


(* ------------------------------------------------------------------ harness interface: runs that print the ghost *)
(* for each key of the case's key universe: what a lookup at the current reading would have to
   return, the age of its last use, its hit count; and the counters of the history *)
Definition ghost_obs (g : lghost) (keys : list Z) (t : Z) : obs :=
  L [L (map (fun k => obs_of_ret (expected (fst g) k t)) keys);
     L (map (fun k => match age (snd g) k with Some n => I (Z.of_nat n) | None => N end) keys);
     L [I (fst (stats_of (snd g))); I (snd (stats_of (snd g)))];
     L (map (fun k => I (key_hits (snd g) k)) keys)].

Section GObs.
  Context {St : Type}.
  Variable step : call -> St -> clk -> res (ret * St * clk).
  Variable show : St -> Z -> obs.
  Variable decode : obs -> option hop.
  Variable gupd : call -> St -> ret -> St -> lghost -> lghost.

  Definition hstep_g (h : hop) (w : St * Z) (g : lghost) : res (ret * (St * Z) * lghost) :=
    match h with
    | HAdv d => Ok (RNone, (fst w, snd w + d), g)
    | HCall c ds =>
        do x <- step c (fst w) (mkClk (snd w) ds);
        let '(r, s', k') := x in Ok (r, (s', now k'), gupd c (fst w) r s' g)
    | HPutAns key mk ds =>
        let (t, k1) := tick (mkClk (snd w) ds) in
        do a <- mk t;
        do x <- step (Put key a) (fst w) k1;
        let '(r, s', k') := x in Ok (r, (s', now k'), gupd (Put key a) (fst w) r s' g)
    end.

  Fixpoint hrun_g (keys : list Z) (ops : list obs) (w : St * Z) (g : lghost) : list obs :=
    match ops with
    | [] => []
    | o :: r =>
        match decode o with
        | None => [E eBadCase]
        | Some h =>
            match hstep_g h w g with
            | Ok (rt, w', g') =>
                L [obs_of_ret rt; show (fst w') (snd w'); ghost_obs g' keys (snd w')] :: hrun_g keys r w' g'
            | Lib e => [E e]
            | Internal e => [E e]
            end
        end
    end.
End GObs.

(* case kinds 2 / 3 = kinds 0 / 1 with a key universe: every step also prints the ghost *)
Definition run (c : obs) : obs :=
  match c with
  | L (I 2 :: I interval :: I t0 :: L ds0 :: L ops :: L keys :: _) =>
      match zs_of_obs ds0, zs_of_obs keys with
      | Some ds, Some keys =>
          let (c0, k0) := cache_init interval (mkClk t0 ds) in
          L (obs_of_cache c0 (now k0)
             :: hrun_g cache_step obs_of_cache hop_of_obs_msg cache_gupd keys ops (c0, now k0) lghost0)
      | _, _ => E eBadCase
      end
  | L (I 3 :: I max_size :: I t0 :: L ops :: L keys :: _) =>
      match lru_init max_size, zs_of_obs keys with
      | Ok st, Some keys =>
          L (obs_of_lru st t0 :: hrun_g lru_step obs_of_lru hop_of_obs_msg lru_gupd keys ops (st, t0) lghost0)
      | Lib e, _ => E e
      | Internal e, _ => E e
      | _, None => E eBadCase
      end
  | _ => CacheAnsM.run c
  end.
