(* C20, layer C: the documentation-level specification in terms of keys:
   "glue" = strictly beneath some non-apex NS owner (the topmost such owner is a delegation point). *)
From DV Require Import Base.Prelude Model.NameM Model.BTZoneM Proofs.BTZoneOrder Proofs.BTZoneList.
Open Scope Z_scope.

(* a at or beneath b / strictly beneath b, on keys *)
Definition below (a b : key) : Prop := prefix b a.
Definition sbelow (a b : key) : Prop := prefix b a /\ a <> b.

Lemma below_refl : forall a, below a a.
Proof. intros; apply prefix_refl. Qed.

Lemma below_trans : forall a b c, below a b -> below b c -> below a c.
Proof. unfold below; intros; eapply prefix_trans; eauto. Qed.

Lemma sbelow_below : forall a b, sbelow a b -> below a b.
Proof. intros a b [H _]; auto. Qed.

Lemma sbelow_below_trans : forall a b c, sbelow a b -> below b c -> sbelow a c.
Proof.
  intros a b c [H1 H2] H3. split; [eapply prefix_trans; eauto|].
  intros ->. apply H2. apply prefix_antisym; auto.
Qed.

Lemma below_sbelow_trans : forall a b c, below a b -> sbelow b c -> sbelow a c.
Proof.
  intros a b c H1 [H2 H3]. split; [eapply prefix_trans; eauto|].
  intros ->. apply H3. apply prefix_antisym; auto.
Qed.

Lemma sbelow_irrefl : forall a, ~ sbelow a a.
Proof. intros a [_ H]; auto. Qed.

Lemma sbelow_length : forall a b, sbelow a b -> (length b < length a)%nat.
Proof.
  intros a b [[s H] Hn]. subst a. rewrite app_length. destruct s; [rewrite app_nil_r in Hn; congruence|].
  cbn; lia.
Qed.

Lemma sbelow_klt : forall a b, sbelow a b -> klt b a.
Proof. intros a b [H Hn]. apply prefix_kcmp_lt; auto. Qed.

Lemma below_kle : forall a b, below a b -> kcmp b a <> Gt.
Proof. intros a b H. apply prefix_kcmp_le; auto. Qed.

Lemma below_dec_eq : forall a b, below a b -> a = b \/ sbelow a b.
Proof.
  intros a b H. destruct (list_eq_dec (list_eq_dec Z.eq_dec) a b); auto. right; split; auto.
Qed.

Lemma is_subdomain_below : forall n m, is_subdomain n m = true <-> below (K n) (K m).
Proof. intros. apply is_subdomain_prefix. Qed.

Lemma is_subdomain_false_below : forall n m, is_subdomain n m = false <-> ~ below (K n) (K m).
Proof. intros. rewrite <- is_subdomain_below. destruct (is_subdomain n m); split; congruence. Qed.

Lemma strictly_beneath_iff : forall n m, strictly_beneath n m = true <-> sbelow (K n) (K m).
Proof.
  intros. unfold strictly_beneath, sbelow. rewrite andb_true_iff, negb_true_iff.
  rewrite is_subdomain_below, name_eqb_false_ekey. reflexivity.
Qed.

Lemma strictly_beneath_ext : forall n n' m m', K n = K n' -> K m = K m' ->
    strictly_beneath n m = strictly_beneath n' m'.
Proof.
  intros n n' m m' E1 E2.
  destruct (strictly_beneath n m) eqn:A; destruct (strictly_beneath n' m') eqn:B; auto.
  - apply strictly_beneath_iff in A. rewrite E1, E2 in A. apply strictly_beneath_iff in A. congruence.
  - apply strictly_beneath_iff in B. rewrite <- E1, <- E2 in B. apply strictly_beneath_iff in B. congruence.
Qed.

Lemma name_eqb_ext : forall a a' b b', K a = K a' -> K b = K b' -> name_eqb a b = name_eqb a' b'.
Proof.
  intros a a' b b' E1 E2.
  destruct (name_eqb a b) eqn:A; destruct (name_eqb a' b') eqn:B; auto.
  - apply name_eqb_ekey in A. apply name_eqb_false_ekey in B. congruence.
  - apply name_eqb_ekey in B. apply name_eqb_false_ekey in A. congruence.
Qed.

Lemma is_apex_ext : forall c a b, K a = K b -> is_apex c a = is_apex c b.
Proof. intros c a b E. unfold is_apex. destruct (c_rel c); apply name_eqb_ext; auto. Qed.

(* ---------- owners / occluded ---------- *)
Definition occluded (c : cfg) (content : nodes_t) (n : name) : bool :=
  existsb (fun e => ns_owner c e && strictly_beneath n (fst e)) content.

Definition owner (c : cfg) (content : nodes_t) (k : key) : Prop :=
  exists m nd, In (m, nd) content /\ ns_owner c (m, nd) = true /\ K m = k.

Definition occk (c : cfg) (content : nodes_t) (k : key) : Prop :=
  exists o, owner c content o /\ sbelow k o.

Lemma occluded_iff : forall c l n, occluded c l n = true <-> occk c l (K n).
Proof.
  intros. unfold occluded, occk, owner. rewrite existsb_exists. split.
  - intros ([m nd] & Hin & H). apply andb_true_iff in H as [H1 H2]. apply strictly_beneath_iff in H2.
    exists (K m). split; auto. exists m, nd. auto.
  - intros (o & (m & nd & Hin & H1 & <-) & H2). exists (m, nd). split; auto.
    apply andb_true_iff. split; auto. apply strictly_beneath_iff; auto.
Qed.

Lemma occluded_false_iff : forall c l n, occluded c l n = false <-> ~ occk c l (K n).
Proof. intros. rewrite <- occluded_iff. destruct (occluded c l n); split; congruence. Qed.

Lemma occluded_ext : forall c l a b, K a = K b -> occluded c l a = occluded c l b.
Proof.
  intros c l a b E. destruct (occluded c l a) eqn:A; destruct (occluded c l b) eqn:B; auto.
  - apply occluded_iff in A. rewrite E in A. apply occluded_iff in A. congruence.
  - apply occluded_iff in B. rewrite <- E in B. apply occluded_iff in B. congruence.
Qed.

(* occluded only depends on the owner set *)
Lemma occluded_owner_ext : forall c l l' n,
    (forall k, owner c l k <-> owner c l' k) -> occluded c l n = occluded c l' n.
Proof.
  intros c l l' n H. destruct (occluded c l n) eqn:A; destruct (occluded c l' n) eqn:B; auto.
  - apply occluded_iff in A. destruct A as (o & Ho & Hs). apply H in Ho.
    assert (occluded c l' n = true) by (apply occluded_iff; exists o; auto). congruence.
  - apply occluded_iff in B. destruct B as (o & Ho & Hs). apply H in Ho.
    assert (occluded c l n = true) by (apply occluded_iff; exists o; auto). congruence.
Qed.

Lemma deleg_point_eq : forall c l e, deleg_point c l e = ns_owner c e && negb (occluded c l (fst e)).
Proof. reflexivity. Qed.

(* every owner is at or beneath an owner that is not occluded *)
Lemma topmost_owner : forall c l (n : nat) o,
    (length o <= n)%nat -> owner c l o -> exists o0, owner c l o0 /\ below o o0 /\ ~ occk c l o0.
Proof.
  induction n as [|n IH]; intros o Hlen Ho.
  - destruct Ho as (m & nd & _ & _ & E). unfold ekey in E. subst o. cbn in Hlen. lia.
  - pose proof Ho as (m & nd & Hin & Hns & E).
    destruct (occluded c l m) eqn:Occ.
    + apply occluded_iff in Occ. rewrite E in Occ. destruct Occ as (o' & Ho' & Hs).
      pose proof (sbelow_length _ _ Hs).
      destruct (IH o') as (o0 & H0 & H1 & H2); [lia|auto|].
      exists o0. repeat split; auto. eapply below_trans; [apply sbelow_below; eauto|auto].
    + apply occluded_false_iff in Occ. rewrite E in Occ. exists o. repeat split; auto. apply below_refl.
Qed.

Lemma glue_name_occluded : forall c l n, glue_name c l n = occluded c l n.
Proof.
  intros c l n. destruct (occluded c l n) eqn:Occ.
  - apply occluded_iff in Occ. destruct Occ as (o & Ho & Hs).
    destruct (topmost_owner c l (length o) o (le_n _) Ho) as (o0 & (m0 & nd0 & Hin & Hns & E) & Hb & Hn).
    unfold glue_name. apply existsb_exists. exists (m0, nd0). split; auto.
    rewrite deleg_point_eq, Hns. cbn [fst andb].
    apply andb_true_iff. split.
    + apply negb_true_iff. apply occluded_false_iff. rewrite E; auto.
    + apply strictly_beneath_iff. rewrite E. eapply sbelow_below_trans; eauto.
  - unfold glue_name. apply not_true_is_false. intros H. apply existsb_exists in H as ([m nd] & Hin & H).
    rewrite deleg_point_eq in H. apply andb_true_iff in H as [H1 H2]. apply andb_true_iff in H1 as [H1 _].
    assert (occluded c l n = true); [|congruence].
    unfold occluded. apply existsb_exists. exists (m, nd). split; auto. apply andb_true_iff; auto.
Qed.

Lemma flags_of_eq : forall c l n nd,
    flags_of c l (n, nd) =
    if is_apex c n then fORIGIN else if occluded c l n then fGLUE else if has_ns nd then fDELEGATION else 0.
Proof.
  intros. unfold flags_of. cbn [fst]. destruct (is_apex c n) eqn:A; auto.
  rewrite glue_name_occluded. destruct (occluded c l n) eqn:O; auto.
  rewrite deleg_point_eq. cbn [fst snd]. unfold ns_owner. cbn [fst snd]. rewrite A, O.
  destruct (has_ns nd); reflexivity.
Qed.

(* the keys of the documented delegation set *)
Lemma delegations_of_in : forall c l k,
    In k (map K (delegations_of c l)) <-> (owner c l k /\ ~ occk c l k).
Proof.
  intros c l k. unfold delegations_of. rewrite map_map. rewrite in_map_iff. split.
  - intros ([m nd] & E & Hin). apply filter_In in Hin as [Hin H]. rewrite deleg_point_eq in H.
    apply andb_true_iff in H as [H1 H2]. apply negb_true_iff, occluded_false_iff in H2. cbn [fst] in *.
    subst k. split; auto. exists m, nd. auto.
  - intros ((m & nd & Hin & Hns & E) & Hn). exists (m, nd). split; auto.
    apply filter_In. split; auto. rewrite deleg_point_eq, Hns. cbn [fst andb].
    apply negb_true_iff, occluded_false_iff. rewrite E; auto.
Qed.

Lemma ksorted_filter_map : forall (l : nodes_t) f, sorted l -> ksorted (map K (map fst (filter f l))).
Proof.
  induction l as [|[k v] l IH]; intros f S; cbn; [exact Logic.I|].
  apply sorted_cons in S as [S1 S2]. destruct (f (k, v)); cbn; auto. split; auto.
  intros k' Hk'. rewrite map_map in Hk'. apply in_map_iff in Hk' as ([k2 v2] & <- & Hin).
  apply filter_In in Hin as [Hin _]. cbn. eauto.
Qed.

Lemma delegations_of_sorted : forall c l, sorted l -> ksorted (map K (delegations_of c l)).
Proof. intros. apply ksorted_filter_map; auto. Qed.
