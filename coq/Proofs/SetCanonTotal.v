(* Every valid record whose names are absolute has a canonical encoding (C02's enc_fields_total),
   so the field-level characterisation of == needs no hypothesis about the digests. *)
From DV Require Import Base.Prelude Model.NameM Model.SchemaM Model.SetM Model.SetCanonM.
From DV Require Import Proofs.NameOrder Proofs.SchemaCodec Proofs.SchemaFix Proofs.SetCanon.
Open Scope Z_scope.

Lemma nok_s_low low f v : nok_s abs_name f v -> nok_s abs_name f (lows low v).
Proof.
  destruct f, v; cbn; auto. destruct low; cbn; auto. unfold abs_name. now rewrite is_absolute_lower.
Qed.

Lemma nok_row_low low : forall fs vs, nok_row abs_name fs vs -> nok_row abs_name fs (map (lows low) vs).
Proof.
  induction fs as [|f fr IH]; intros [|v vr]; cbn; auto.
  intros [H1 H2]. split; [apply nok_s_low, H1|apply IH, H2].
Qed.

Lemma nok_f_low low f v : nok_f abs_name f v -> nok_f abs_name f (lowv low v).
Proof.
  destruct f as [s| | | |m a row]; destruct v as [x|rows]; cbn; auto.
  - apply nok_s_low.
  - intros H. apply Forall_map. eapply Forall_impl; [|exact H]. intros r. apply nok_row_low.
Qed.

Lemma nok_fields_low low : forall fs vs,
  nok_fields abs_name fs vs -> nok_fields abs_name fs (lowvals low vs).
Proof.
  induction fs as [|f fr IH]; intros [|v vr]; cbn; auto.
  intros [H1 H2]. split; [apply nok_f_low, H1|apply IH, H2].
Qed.

(* a valid record with absolute names always has a digest *)
Theorem s_digest_total r :
  schema_wf (sfs r) = true -> valid_fields (sfs r) (svs r) = true ->
  nok_fields abs_name (sfs r) (svs r) ->
  exists d, s_digest r None = Ok d.
Proof.
  intros Hwf Hv Hn. unfold s_digest. rewrite (cenc_fields_low None (slow r) Logic.I).
  apply enc_fields_total; [exact Hwf|rewrite valid_fields_low; exact Hv|apply nok_fields_low, Hn].
Qed.

(* == on valid records with absolute names, from the field values alone *)
Theorem s_eq_iff_fields_abs a b :
  schema_wf (sfs a) = true ->
  scls a = scls b -> styp a = styp b -> sfs b = sfs a -> slow b = slow a ->
  valid_fields (sfs a) (svs a) = true -> valid_fields (sfs a) (svs b) = true ->
  nok_fields abs_name (sfs a) (svs a) -> nok_fields abs_name (sfs a) (svs b) ->
  (s_eq a b = Ok true <-> vals_ci (slow a) (svs a) (svs b)).
Proof.
  intros Hwf Hc Ht Hfs Hlow Va Vb Na Nb.
  destruct (s_digest_total a Hwf Va Na) as [da Da].
  destruct (s_digest_total b) as [db Db]; [rewrite Hfs; exact Hwf|rewrite Hfs; exact Vb|rewrite Hfs; exact Nb|].
  exact (s_eq_iff_fields a b da db Hwf Hc Ht Hfs Hlow Va Vb Da Db).
Qed.
