(* Rdata.to_digestable of a record with fields (Model/SetCanonM.v) is the RFC 4034 6.2 canonical
   RDATA of C15's reference (Proofs/DnssecRef.v: rfc4034_canonical_rdata, imported read-only),
   hence ==, hash and order are statements about canonical RDATA octets. *)
From DV Require Import Base.Prelude Model.NameM Model.SchemaM Model.DnssecM Model.SetM Model.SetCanonM.
From DV Require Import Proofs.DnssecCanon Proofs.SetRdata Proofs.SetCanon.
Open Scope Z_scope.

(* the record as the sequence of things its _to_wire writes: raw octets and names *)
Definition tf_s (f : sfld) (v : sval) : res (list field) :=
  match f, v with
  | SchemaM.FName _, VN n => Ok [DnssecM.FName n]
  | _, _ => do b <- enc_s None f v; Ok [FRaw b]
  end.

Fixpoint tf_row (fs : list sfld) (vs : list sval) : res (list field) :=
  match fs, vs with
  | [], [] => Ok []
  | f :: fr, v :: vr => do a <- tf_s f v; do b <- tf_row fr vr; Ok (a ++ b)
  | _, _ => Internal NameM.eBadCase
  end.

Fixpoint tf_rows (row : list sfld) (rows : list (list sval)) : res (list field) :=
  match rows with
  | [] => Ok []
  | r :: rr => do a <- tf_row row r; do b <- tf_rows row rr; Ok (a ++ b)
  end.

Definition tf_f (f : fld) (v : val) : res (list field) :=
  match f, v with
  | FS s, VS x => tf_s s x
  | FRepeat _ _ row, VL rows => tf_rows row rows
  | _, _ => do b <- enc_f None f v; Ok [FRaw b]
  end.

Fixpoint tf_fields (fs : list fld) (vs : list val) : res (list field) :=
  match fs, vs with
  | [], [] => Ok []
  | f :: fr, v :: vr => do a <- tf_f f v; do b <- tf_fields fr vr; Ok (a ++ b)
  | _, _ => Internal NameM.eBadCase
  end.

(* the reference with the down-casing decision as a parameter *)
Fixpoint rfcL (low : bool) (fs : list field) (origin : option name) : res bytes :=
  match fs with
  | [] => Ok []
  | FRaw b :: r => do rest <- rfcL low r origin; Ok (b ++ rest)
  | DnssecM.FName n :: r =>
      do a <- rfc_expand n origin;
      do rest <- rfcL low r origin;
      Ok (rfc_name_wire low a ++ rest)
  end.

Lemma rfcL_is_rfc ty fs origin : rfcL (rfc_downcased ty) fs origin = rfc4034_canonical_rdata ty fs origin.
Proof.
  induction fs as [|f r IH]; [reflexivity|]. destruct f as [b|n]; cbn [rfcL rfc4034_canonical_rdata].
  - rewrite IH. reflexivity.
  - destruct (rfc_expand n origin); cbn [bind]; try reflexivity. rewrite IH. reflexivity.
Qed.

Lemma rfcL_app low o : forall f1 f2,
  rfcL low (f1 ++ f2) o = (do a <- rfcL low f1 o; do b <- rfcL low f2 o; Ok (a ++ b)).
Proof.
  induction f1 as [|f r IH]; intros f2; cbn [app rfcL].
  - cbn. destruct (rfcL low f2 o); reflexivity.
  - destruct f as [b|n].
    + rewrite IH. destruct (rfcL low r o) as [x| |]; cbn; try reflexivity.
      destruct (rfcL low f2 o) as [y| |]; cbn; try reflexivity. rewrite app_assoc. reflexivity.
    + destruct (rfc_expand n o) as [a| |]; cbn; try reflexivity.
      rewrite IH. destruct (rfcL low r o) as [x| |]; cbn; try reflexivity.
      destruct (rfcL low f2 o) as [y| |]; cbn; try reflexivity. rewrite app_assoc. reflexivity.
Qed.

Lemma enc_s_origin_free o f v : (forall n, v <> VN n) -> enc_s o f v = enc_s None f v.
Proof. destruct f, v; cbn; intros H; try reflexivity. exfalso. eapply H. reflexivity. Qed.

Lemma tf_s_ok o low f v fl : tf_s f v = Ok fl -> cenc_s o low f v = rfcL low fl o.
Proof.
  destruct f as [w m|n|w lo hi|rel]; destruct v as [z|b|nm]; cbn;
    try (destruct (enc_s None _ _) eqn:E; cbn; try discriminate; intros H; inversion H; subst; cbn;
         rewrite app_nil_r; cbn in E; exact E);
    try discriminate.
  all: try (intros H; inversion H; subst; cbn; rewrite to_wire_rfc;
            destruct (rfc_expand nm o); cbn; rewrite ?app_nil_r; reflexivity).
  all: try (destruct ((0 <=? z) && (z <? pow256 w)); cbn; try discriminate;
            intros H; inversion H; subst; cbn; rewrite app_nil_r; reflexivity).
  all: try (intros H; inversion H; subst; cbn; rewrite app_nil_r; reflexivity).
  all: try (destruct (zlen b <? pow256 w); cbn; try discriminate;
            intros H; inversion H; subst; cbn; rewrite app_nil_r; reflexivity).
Qed.

Lemma tf_row_ok o low : forall fs vs fl, tf_row fs vs = Ok fl -> cenc_row o low fs vs = rfcL low fl o.
Proof.
  induction fs as [|f fr IH]; intros [|v vr] fl; cbn; try discriminate.
  - intros H; inversion H; reflexivity.
  - destruct (tf_s f v) as [a| |] eqn:Ea; cbn; try discriminate.
    destruct (tf_row fr vr) as [b| |] eqn:Eb; cbn; try discriminate.
    intros H; inversion H; subst. rewrite rfcL_app, (tf_s_ok o low f v a Ea), (IH vr b Eb).
    reflexivity.
Qed.

Lemma tf_rows_ok o low row : forall rows fl,
  tf_rows row rows = Ok fl -> cenc_rows o low row rows = rfcL low fl o.
Proof.
  induction rows as [|r rr IH]; intros fl; cbn.
  - intros H; inversion H; reflexivity.
  - destruct (tf_row row r) as [a| |] eqn:Ea; cbn; try discriminate.
    destruct (tf_rows row rr) as [b| |] eqn:Eb; cbn; try discriminate.
    intros H; inversion H; subst. rewrite rfcL_app, (tf_row_ok o low row r a Ea), (IH b eq_refl).
    reflexivity.
Qed.

Lemma enc_f_origin_free o f v :
  (forall s, f <> FS s) -> (forall m a r, f <> FRepeat m a r) -> enc_f o f v = enc_f None f v.
Proof.
  intros H1 H2. destruct f as [s| | | |m a r].
  - exfalso. eapply H1. reflexivity.
  - destruct v as [x|rows]; reflexivity.
  - destruct v as [x|rows]; reflexivity.
  - destruct v as [x|rows]; [|reflexivity]. destruct x as [z|b|n]; reflexivity.
  - exfalso. eapply H2. reflexivity.
Qed.

Lemma tf_f_ok o low f v fl : tf_f f v = Ok fl -> cenc_f o low f v = rfcL low fl o.
Proof.
  assert (Fall : forall f v, (forall s, f <> FS s) -> (forall m a r, f <> FRepeat m a r) ->
            (do b <- enc_f None f v; Ok [FRaw b]) = Ok fl -> enc_f o f v = rfcL low fl o).
  { intros f0 v0 H1 H2. rewrite (enc_f_origin_free o f0 v0 H1 H2).
    destruct (enc_f None f0 v0) as [b| |]; cbn; try discriminate.
    intros H; inversion H; subst; cbn. rewrite app_nil_r. reflexivity. }
  destruct f as [s|lo|n|hi|m a row]; destruct v as [x|rows]; cbn [tf_f cenc_f].
  - apply tf_s_ok.
  - cbn. discriminate.
  - apply Fall; intros; discriminate.
  - apply Fall; intros; discriminate.
  - apply Fall; intros; discriminate.
  - apply Fall; intros; discriminate.
  - apply Fall; intros; discriminate.
  - apply Fall; intros; discriminate.
  - cbn. discriminate.
  - apply tf_rows_ok.
Qed.

Lemma tf_fields_ok o low : forall fs vs fl,
  tf_fields fs vs = Ok fl -> cenc_fields o low fs vs = rfcL low fl o.
Proof.
  induction fs as [|f fr IH]; intros [|v vr] fl; cbn; try discriminate.
  - intros H; inversion H; reflexivity.
  - destruct (tf_f f v) as [a| |] eqn:Ea; cbn; try discriminate.
    destruct (tf_fields fr vr) as [b| |] eqn:Eb; cbn; try discriminate.
    intros H; inversion H; subst. rewrite rfcL_app, (tf_f_ok o low f v a Ea), (IH vr b Eb).
    reflexivity.
Qed.

(* to_digestable(origin) is the RFC 4034 6.2 canonical RDATA of the record, for every origin
   (including the failure when a relative name has no origin or does not fit), whenever the
   type's canonicalize flag is the RFC's list *)
Theorem s_digest_is_rfc4034 r origin fl :
  slow r = rfc_downcased (styp r) -> tf_fields (sfs r) (svs r) = Ok fl ->
  s_digest r origin = rfc4034_canonical_rdata (styp r) fl origin.
Proof.
  intros Hl Hf. unfold s_digest. rewrite (tf_fields_ok origin (slow r) _ _ fl Hf), Hl.
  apply rfcL_is_rfc.
Qed.

(* every type of the table hands canonicalize to its names exactly when RFC 4034 6.2 (as amended
   by RFC 6840 5.1) lists it *)
Theorem table_flags_are_rfc4034 :
  forallb (fun ct => match schema_of (fst ct) (snd ct) with
                     | Some (_, low) => Bool.eqb low (rfc_downcased (snd ct))
                     | None => false
                     end) table_types = true.
Proof. vm_compute. reflexivity. Qed.

Theorem table_schemas_wf :
  forallb (fun ct => match schema_of (fst ct) (snd ct) with
                     | Some (fs, _) => schema_wf fs
                     | None => false
                     end) table_types = true.
Proof. vm_compute. reflexivity. Qed.

(* == / order on canonical RDATA: for two absolute records of one class and type of the table *)
Theorem s_eq_is_canonical_equality a b fa fb da db :
  scls a = scls b -> styp a = styp b ->
  slow a = rfc_downcased (styp a) -> slow b = rfc_downcased (styp b) ->
  tf_fields (sfs a) (svs a) = Ok fa -> tf_fields (sfs b) (svs b) = Ok fb ->
  rfc4034_canonical_rdata (styp a) fa None = Ok da ->
  rfc4034_canonical_rdata (styp b) fb None = Ok db ->
  s_eq a b = Ok (zlist_eqb da db) /\
  s_cmp a b = Ok (match cmp_bytes da db with Eq => 0 | Gt => 1 | Lt => -1 end) /\
  s_hashkey a = Ok da /\ s_hashkey b = Ok db.
Proof.
  intros Hc Ht La Lb Fa Fb Ra Rb.
  assert (Da : s_digest a None = Ok da) by (rewrite (s_digest_is_rfc4034 a None fa La Fa); exact Ra).
  assert (Db : s_digest b None = Ok db) by (rewrite (s_digest_is_rfc4034 b None fb Lb Fb); exact Rb).
  assert (Ea : s_digest_rel a = Ok (da, false)) by (unfold s_digest_rel; rewrite Da; reflexivity).
  assert (Eb : s_digest_rel b = Ok (db, false)) by (unfold s_digest_rel; rewrite Db; reflexivity).
  repeat split.
  - unfold s_eq. rewrite Hc, Ht, !Z.eqb_refl, Ea, Eb. reflexivity.
  - unfold s_cmp. rewrite Ea, Eb. reflexivity.
  - apply cenc_fields_any_origin, Da.
  - apply cenc_fields_any_origin, Db.
Qed.
