(* C04 for the message text reader (Model/UntrustedTextM.v = dns.message._TextReader): every
   character string ends in a message or in a documented library error, for an ARBITRARY per-type
   text parser (it runs under ExceptionWrapper(SyntaxError)). *)
From DV Require Import Base.Prelude Model.NameM Proofs.NameValid.
From DV Require Model.TokM Model.RdTextM Proofs.UntrustedText.
From DV Require Import Model.UntrustedTextM.
Open Scope Z_scope.

(* SyntaxError family (SyntaxError, UnexpectedEnd, BadTTL, LabelTooLong, EmptyLabel, BadEscape),
   NameTooLong, UngetBufferFull, UnknownHeaderField, NoPreviousName, UnknownOpcode, UnknownRcode,
   UnknownRdatatype, FormError (UPDATE section rules) *)
Definition mt_lib (e : Z) : Prop :=
  T.in_syntax_family e = true \/ e = eNameTooLong \/ e = T.eUngetFull \/ e = eUnknownHeaderField
  \/ e = eNoPreviousName \/ e = eUnknownOpcode \/ e = eUnknownRcode \/ e = eUnknownRdatatype \/ e = eFormError.

Definition Nice {A} (r : res A) : Prop :=
  match r with Ok _ => True | Lib e => mt_lib e | Internal e => e = iFuelT end.
(* no Internal at all *)
Definition Fine {A} (r : res A) : Prop :=
  match r with Ok _ => True | Lib e => mt_lib e | Internal _ => False end.

Lemma fine_nice {A} (r : res A) : Fine r -> Nice r.
Proof. destruct r; cbn; auto; contradiction. Qed.
Lemma fine_bind {A B} (r : res A) (k : A -> res B) : Fine r -> (forall a, Fine (k a)) -> Fine (bind r k).
Proof. destruct r as [a|e|e]; cbn [bind]; auto. Qed.
Lemma nice_bind {A B} (r : res A) (k : A -> res B) : Nice r -> (forall a, r = Ok a -> Nice (k a)) -> Nice (bind r k).
Proof. destruct r as [a|e|e]; cbn [bind]; auto. Qed.

Lemma syn_mt : mt_lib T.eSyntax. Proof. left; reflexivity. Qed.
Lemma uend_mt : mt_lib T.eUnexpectedEnd. Proof. left; reflexivity. Qed.
Ltac ml := first [ exact syn_mt | exact uend_mt | reflexivity | left; reflexivity | right; ml ].

(* ---------- tokenizer helpers ---------- *)
Lemma fine_get st wl wc : Fine (T.get st wl wc).
Proof.
  pose proof (UntrustedText.tokenizer_get_family st wl wc) as H.
  destruct (T.get st wl wc) as [a|e|e]; cbn; auto. destruct H as [-> | ->]; ml.
Qed.

Lemma fine_unget st t : Fine (T.unget st t).
Proof. unfold T.unget. destruct (T.ungot st); cbn; auto. ml. Qed.

Lemma fine_unescape t : Fine (T.unescape t).
Proof.
  pose proof (UntrustedText.unescape_family t) as H.
  destruct (T.unescape t) as [a|e|e]; cbn; auto. destruct H as [-> | ->]; ml.
Qed.

Lemma fine_get_unescaped st : Fine (T.get_unescaped st).
Proof.
  unfold T.get_unescaped. apply fine_bind; [apply fine_get|]. intros ts.
  apply fine_bind; [apply fine_unescape|]. intros; exact Logic.I.
Qed.

Lemma fine_as_uint m t b : Fine (T.as_uint m t b).
Proof.
  unfold T.as_uint, T.as_int. destruct (negb (T.is_identifier t)); cbn [bind]; [ml|].
  destruct (T.py_int b (T.tvalue t)) as [v|]; cbn [bind]; [|ml].
  destruct (v <? 0); cbn [bind]; [ml|]. destruct ((v <? 0) || (v >? m)); [ml|exact Logic.I].
Qed.

Lemma fine_get_uint m st b : Fine (T.get_uint m st b).
Proof.
  unfold T.get_uint. apply fine_bind; [apply fine_get_unescaped|]. intros ts.
  apply fine_bind; [apply fine_as_uint|]. intros; exact Logic.I.
Qed.

Lemma fine_get_string st m : Fine (T.get_string st m).
Proof.
  unfold T.get_string. apply fine_bind; [apply fine_get_unescaped|]. intros ts.
  apply fine_bind; [|intros; exact Logic.I].
  unfold T.as_string. destruct (negb _); [ml|]. destruct (_ && _); [ml|exact Logic.I].
Qed.

Lemma fine_get_eol_tok st : Fine (T.get_eol_as_token st).
Proof.
  unfold T.get_eol_as_token. apply fine_bind; [apply fine_get|]. intros ts.
  destruct (negb (T.is_eol_or_eof (fst ts))); [ml|exact Logic.I].
Qed.

Lemma fine_get_eol st : Fine (get_eol st).
Proof. unfold get_eol. apply fine_bind; [apply fine_get_eol_tok|]. intros; exact Logic.I. Qed.

(* tok.as_name: SyntaxError or one of the four name errors *)
Lemma fine_as_name pctx tk : Fine (RdTextM.as_name pctx tk).
Proof.
  unfold RdTextM.as_name. destruct (negb (T.is_identifier tk)); [ml|].
  pose proof (UntrustedText.name_from_text_family (T.tvalue tk) (RdTextM.p_origin pctx)) as F.
  destruct (NameM.from_text (T.tvalue tk) (RdTextM.p_origin pctx)) as [n|e|e]; cbn [bind]; [| |contradiction].
  2:{ destruct F as [-> | [-> | [-> | ->]]]; cbn; try (left; reflexivity). right; left; reflexivity. }
  unfold choose_relativity. destruct (RdTextM.relto_or_origin pctx) as [[|x o]|]; try exact Logic.I.
  destruct (RdTextM.p_relativize pctx).
  - unfold relativize. destruct (is_subdomain n (x :: o)); [|exact Logic.I].
    pose proof (UntrustedText.mk_name_family (drop_last (length (x :: o)) n)) as M.
    destruct (mk_name _) as [m|e|e]; cbn; auto.
    destruct M as [-> | [-> | ->]]; cbn; try (left; reflexivity). right; left; reflexivity.
  - unfold derelativize. destruct (negb (is_absolute n)) eqn:E; [|exact Logic.I].
    unfold concatenate. apply negb_true_iff in E. rewrite E. cbn [andb].
    pose proof (UntrustedText.mk_name_family (n ++ x :: o)) as M.
    destruct (mk_name _) as [m|e|e]; cbn; auto.
    destruct M as [-> | [-> | ->]]; cbn; try (left; reflexivity). right; left; reflexivity.
Qed.

Lemma fine_parse_rr_header m sec c t : Fine (parse_rr_header m sec c t).
Proof.
  unfold parse_rr_header. destruct (negb (tm_update m)); [exact Logic.I|].
  destruct (sec =? 0).
  - match goal with |- Fine (if ?b then _ else _) => destruct b; [ml|exact Logic.I] end.
  - destruct (rev (tm_q m)) as [|[[? ?] zc] ?]; [ml|].
    destruct ((c =? 255) || (c =? 254)); exact Logic.I.
Qed.

Section Reader.
  Variable per_type_text : Z -> Z -> T.tstate -> res (unit * T.tstate).
  Variable pctx : RdTextM.pctx.
  Variable type_from_text : list Z -> res Z.
  (* dns.rdatatype.from_text raises UnknownRdatatype (or ValueError, which the reader converts) *)
  Hypothesis type_lib : forall v e, type_from_text v = Lib e -> e = eUnknownRdatatype.

  (* dns.rdata.from_text: whatever the per-type parser does, a value or the SyntaxError family *)
  Lemma fine_rdata_from_tok c t st : Fine (rdata_from_tok per_type_text c t st).
  Proof.
    unfold rdata_from_tok, T.wrap_syntax.
    match goal with |- Fine (match ?x with _ => _ end) => destruct x as [a|e|e] end; cbn; auto; try ml.
    destruct (T.in_syntax_family e) eqn:E; cbn; [left; exact E|ml].
  Qed.

  Lemma nice_flags_loop : forall fuel tbl st acc, Nice (flags_loop fuel tbl st acc).
  Proof.
    induction fuel as [|f IH]; intros tbl st acc; cbn [flags_loop]; [reflexivity|].
    apply nice_bind; [apply fine_nice, fine_get|]. intros ts _.
    destruct (negb (T.is_identifier (fst ts))).
    - apply fine_nice. apply fine_bind; [apply fine_unget|intros; exact Logic.I].
    - destruct (flags_from_text tbl (T.tvalue (fst ts))); [apply IH|ml|ml].
  Qed.

  Lemma nice_header_line r : Nice (header_line r).
  Proof.
    unfold header_line. apply nice_bind; [apply fine_nice, fine_get|]. intros [tk st] _.
    apply nice_bind; [|intros r' _; apply fine_nice; apply fine_bind; [apply fine_get_eol|intros; exact Logic.I]].
    repeat match goal with |- Nice (if zlist_eqb ?a ?b then _ else _) => destruct (zlist_eqb a b) end.
    - apply fine_nice, fine_bind; [apply fine_get_uint|intros; exact Logic.I].
    - apply nice_bind; [apply nice_flags_loop|intros; exact Logic.I].
    - apply fine_nice, fine_bind; [apply fine_get_uint|intros; exact Logic.I].
    - apply nice_bind; [apply nice_flags_loop|intros; exact Logic.I].
    - apply fine_nice, fine_bind; [apply fine_get_uint|intros; exact Logic.I].
    - apply fine_nice, fine_bind; [apply fine_get_string|]. intros v.
      unfold opcode_from_text, enum_from_text. cbv zeta.
      destruct (assoc _ _); [exact Logic.I|].
      destruct (strip_prefix _ _) as [d|]; [|do 5 right; left; reflexivity].
      destruct (all_decimal d); [|do 5 right; left; reflexivity].
      destruct (dec_value d >? 15); [ml|exact Logic.I].
    - apply fine_nice, fine_bind; [apply fine_get_string|]. intros v.
      unfold rcode_from_text, enum_from_text. cbv zeta.
      destruct (assoc _ _); [exact Logic.I|].
      destruct (strip_prefix _ _) as [d|]; [|do 6 right; left; reflexivity].
      destruct (all_decimal d); [|do 6 right; left; reflexivity].
      destruct (dec_value d >? 4095); [ml|exact Logic.I].
    - do 3 right; left; reflexivity.
  Qed.

  Lemma fine_owner r : Fine (owner pctx r).
  Proof.
    unfold owner. apply fine_bind; [apply fine_get|]. intros [tk st].
    apply fine_bind.
    - destruct (negb (T.ttype tk =? T.tWS)); [|exact Logic.I].
      apply fine_bind; [apply fine_as_name|intros; exact Logic.I].
    - intros r1. destruct (t_last r1); [exact Logic.I|]. do 4 right; left; reflexivity.
  Qed.

  Lemma fine_class_column tk st : Fine (class_column tk st).
  Proof.
    unfold class_column. destruct (class_from_text (T.tvalue tk)); try exact Logic.I.
    destruct (T.get0 st) as [[tk2 st2]|e|e]; try exact Logic.I.
    - destruct (negb (T.is_identifier tk2)); [ml|exact Logic.I].
    - destruct (T.in_syntax_family e); [ml|exact Logic.I].
  Qed.

  Lemma fine_type_column tk : Fine (type_column type_from_text tk).
  Proof.
    unfold type_column. destruct (type_from_text (T.tvalue tk)) as [v|e|e] eqn:E; cbn; auto; [|ml].
    rewrite (type_lib _ _ E). do 7 right; left; reflexivity.
  Qed.

  Lemma fine_question_line r m sec : Fine (question_line pctx type_from_text r m sec).
  Proof.
    unfold question_line. apply fine_bind; [apply fine_owner|]. intros [r1 n].
    apply fine_bind; [apply fine_get|]. intros ts.
    destruct (negb (T.is_identifier (fst ts))); [ml|].
    apply fine_bind; [apply fine_class_column|]. intros [[rdclass tk] st].
    apply fine_bind; [apply fine_type_column|]. intros rdtype.
    apply fine_bind; [apply fine_parse_rr_header|]. intros hd. cbv zeta.
    apply fine_bind; [apply fine_get_eol|]. intros; exact Logic.I.
  Qed.

  Lemma fine_rr_line r m sec : Fine (rr_line per_type_text pctx type_from_text r m sec).
  Proof.
    unfold rr_line. apply fine_bind; [apply fine_owner|]. intros [r1 n].
    apply fine_bind; [apply fine_get|]. intros ts.
    destruct (negb (T.is_identifier (fst ts))); [ml|].
    apply fine_bind.
    { destruct (int0 (T.tvalue (fst ts))) as [v|]; [|exact Logic.I].
      destruct ((v <? 0) || (v >? 4294967295)); [ml|].
      destruct (T.get0 (snd ts)) as [[tk2 st2]|e|e]; try exact Logic.I.
      - destruct (negb (T.is_identifier tk2)); [ml|exact Logic.I].
      - destruct (T.in_syntax_family e); [ml|exact Logic.I]. }
    intros [[ttl tk1] st1].
    apply fine_bind; [apply fine_class_column|]. intros [[rdclass tk] st].
    apply fine_bind; [apply fine_type_column|]. intros rdtype.
    apply fine_bind; [apply fine_parse_rr_header|]. intros [[rdclass' deleting] empty].
    apply fine_bind; [apply fine_get|]. intros ts3. cbv zeta.
    destruct (empty && negb (T.is_eol_or_eof (fst ts3))); [ml|].
    destruct (negb empty && T.is_eol_or_eof (fst ts3)); [ml|].
    apply fine_bind.
    { destruct (negb (T.is_eol_or_eof (fst ts3))); [|exact Logic.I].
      apply fine_bind; [apply fine_unget|]. intros st4.
      apply fine_bind; [apply fine_rdata_from_tok|]. intros; exact Logic.I. }
    intros [have_rd st5]. exact Logic.I.
  Qed.

  (* the line method can only be a section method once a message exists *)
  Definition linv (r : rdr) (lm : lmeth) : Prop := lm = LHeader \/ t_msg r <> None.

  Lemma header_line_msg r r' : header_line r = Ok r' -> t_msg r' = t_msg r.
  Proof.
    unfold header_line. intros H.
    destruct (T.get0 (t_tok r)) as [[tk st]|e|e]; cbn [bind] in H; try discriminate.
    match type of H with bind ?X _ = _ => destruct X as [r1|e|e] eqn:E1 end; cbn [bind] in H; try discriminate.
    assert (M : t_msg r1 = t_msg r).
    { revert E1.
      repeat match goal with |- (if zlist_eqb ?a ?b then _ else _) = _ -> _ => destruct (zlist_eqb a b) end;
        intros E1;
        repeat match type of E1 with
               | bind ?X _ = _ => destruct X as [?|?|?]; cbn [bind] in E1; try discriminate
               | match ?X with _ => _ end = _ => destruct X; try discriminate
               end;
        inversion E1; subst; reflexivity. }
    destruct (get_eol (t_tok r1)); cbn [bind] in H; try discriminate. inversion H; subst. cbn. exact M.
  Qed.

  Lemma question_line_msg r m sec r' : question_line pctx type_from_text r m sec = Ok r' -> t_msg r' <> None.
  Proof.
    unfold question_line. intros H.
    repeat match type of H with
           | bind ?X _ = _ => destruct X as [?|?|?]; cbn [bind] in H; try discriminate
           | (let '(_, _) := ?X in _) = _ => destruct X
           | (if ?b then _ else _) = _ => destruct b; try discriminate
           end.
    cbv zeta in H.
    repeat match type of H with
           | bind ?X _ = _ => destruct X as [?|?|?]; cbn [bind] in H; try discriminate
           end.
    inversion H; subst. cbn. discriminate.
  Qed.

  Lemma rr_line_msg r m sec r' : rr_line per_type_text pctx type_from_text r m sec = Ok r' -> t_msg r' <> None.
  Proof.
    unfold rr_line. intros H.
    repeat match type of H with
           | bind ?X _ = _ => destruct X as [?|?|?]; cbn [bind] in H; try discriminate
           | (let '(_, _) := ?X in _) = _ => destruct X
           | (if ?b then _ else _) = _ => destruct b; try discriminate
           end.
    all: cbv zeta in H.
    all: repeat match type of H with
           | bind ?X _ = _ => destruct X as [?|?|?]; cbn [bind] in H; try discriminate
           | (let '(_, _) := ?X in _) = _ => destruct X
           | (if ?b then _ else _) = _ => destruct b; try discriminate
           end.
    all: inversion H; subst; cbn; discriminate.
  Qed.

  (* _TextReader.read *)
  Lemma nice_read_loop : forall fuel r lm sec, linv r lm -> Nice (read_loop per_type_text pctx type_from_text fuel r lm sec).
  Proof.
    induction fuel as [|f IH]; intros r lm sec I; cbn [read_loop]; [reflexivity|].
    apply nice_bind; [apply fine_nice, fine_get|]. intros [tk st] _.
    destruct (T.is_eol_or_eof tk); [exact Logic.I|].
    destruct (T.ttype tk =? T.tCOMMENT).
    - cbv zeta.
      match goal with |- context [enum_from_text ?a ?b ?c ?d ?e] => destruct (enum_from_text a b c d e) as [sn|?|?] end.
      + apply nice_bind; [apply fine_nice, fine_get_eol|]. intros st' _. apply IH.
        right. destruct (t_msg r) eqn:M; cbn; [rewrite M|]; discriminate.
      + apply nice_bind; [apply fine_nice, fine_get_eol|]. intros st' _. apply IH.
        destruct (zlist_eqb _ _); [left; reflexivity|]. destruct I as [->|I]; [left; reflexivity|right; exact I].
      + apply nice_bind; [apply fine_nice, fine_get_eol|]. intros st' _. apply IH.
        destruct (zlist_eqb _ _); [left; reflexivity|]. destruct I as [->|I]; [left; reflexivity|right; exact I].
    - apply nice_bind; [apply fine_nice, fine_unget|]. intros st1 _. cbv zeta.
      destruct lm.
      + apply nice_bind; [apply nice_header_line|]. intros r' E. apply IH. left; reflexivity.
      + destruct I as [I|I]; [discriminate|]. cbn [t_msg set_tok].
        destruct (t_msg r) as [m|] eqn:M; [|contradiction].
        apply nice_bind; [apply fine_nice, fine_question_line|]. intros r' E. apply IH.
        right. eapply question_line_msg; eauto.
      + destruct I as [I|I]; [discriminate|]. cbn [t_msg set_tok].
        destruct (t_msg r) as [m|] eqn:M; [|contradiction].
        apply nice_bind; [apply fine_nice, fine_rr_line|]. intros r' E. apply IH.
        right. eapply rr_line_msg; eauto.
  Qed.

  (* dns.message.from_text *)
  Theorem message_from_text_outcome text orps :
    match from_text per_type_text pctx type_from_text text orps with
    | Ok _ => True
    | Lib e => mt_lib e
    | Internal e => e = iFuelT
    end.
  Proof.
    unfold from_text.
    pose proof (nice_read_loop (S (S (length text))) (r0 text orps) LHeader 0 (or_introl eq_refl)) as N.
    destruct (read_loop _ _ _ _ _ _ _); cbn [bind]; auto.
  Qed.
End Reader.

(* the instance used by `run`: dns.rdatatype.from_text raises UnknownRdatatype or ValueError only *)
Lemma type_from_text_run_lib v e : type_from_text_run v = Lib e -> e = eUnknownRdatatype.
Proof.
  unfold type_from_text_run. destruct (RdTextM.rdtype_from_text v); intros H; inversion H; reflexivity.
Qed.
