(* C09: zone_roundtrip with purely structural hypotheses, for zones over the modelled field-list
   types (RRSIG excepted) and the default name style. *)
From DV Require Import Base.Prelude Model.NameM Model.ZoneTextM.
From DV Require Import Proofs.NameValid Proofs.NameText.
From DV Require Import Proofs.ZoneTextBase Proofs.ZoneTextAcc Proofs.ZoneTextRecord Proofs.ZoneTextSweep
  Proofs.ZoneTextRoundtrip Proofs.ZoneTextNames Proofs.ZoneTextWf Proofs.ZoneTextRdata.
From Coq Require Import Permutation.
Open Scope Z_scope.

Lemma tbl_code_range ty m ks : tbl_by_code type_table ty = Some (m, ks) ->
  0 <= ty <= 65535 /\ (ty =? 24) = false.
Proof.
  unfold tbl_by_code, type_table.
  repeat match goal with
         | |- context [if ?k =? ty then _ else _] =>
             destruct (Z.eqb_spec k ty); [subst ty; intros _; split; [vm_compute; split; discriminate|reflexivity]|]
         end.
  discriminate.
Qed.

Section Struct.
  Variable c : cfg.
  Variable st : style.
  Variable zo : name.
  Hypothesis Hzo : Valid zo /\ AllBytes zo /\ is_absolute zo = true.
  Hypothesis Hplain : st_origin st = None.
  Local Notation rel := (c_rel c).

  (* an owner name as the zone stores it *)
  Definition owner_stored_ok (n : name) : Prop :=
    Valid n /\ AllBytes n /\
    if rel then is_absolute n = false /\ Valid (n ++ zo)
    else is_absolute n = true /\ is_subdomain n zo = true.

  (* one record of a modelled type: a field-list type, RRSIG (first field = covered type), or an
     unknown type in the RFC 3597 form with non-empty data *)
  Definition rd_struct (ty cov : Z) (rd : rdata) : Prop :=
    (exists m ks, tbl_by_code type_table ty = Some (m, ks) /\ ty <> tRRSIG /\ cov = 0 /\ rdata_fits rel zo ks rd) \/
    (ty = tRRSIG /\ 0 <= cov <= 65535 /\ exists rest, rd = VInt cov :: rest /\ rdata_fits rel zo rrsig_tail rest) \/
    (tbl_by_code type_table ty = None /\ (ty =? 24) = false /\ cov = 0 /\
     exists n h, rd = [VTok [92; 35]; VInt n; VRest [h]] /\ 0 < n /\ hex_lower h = true /\ zlen h = 2 * n).

  Lemma rd_struct_ok ty cov rd : rd_struct ty cov rd ->
    covers_of ty rd = cov /\ exists toks, rdata_ok c st zo ty rd toks.
  Proof.
    intros [(m & ks & Htbl & Hrr & Hc & Hf)|[(Ety & Hc & rest & Erd & Hf)|(Htbl & H24 & Hc & n & h & Erd & Hn & Hh & Hl)]].
    - destruct (tbl_code_range _ _ _ Htbl) as [_ H24]. split.
      + unfold covers_of. replace (ty =? tRRSIG) with false by (symmetry; apply Z.eqb_neq; exact Hrr).
        rewrite H24. symmetry. exact Hc.
      + exists (rd_toks rd). eapply rdata_ok_fits_proof; eauto.
    - subst ty rd. split; [reflexivity|].
      eexists. apply rdata_ok_rrsig_proof; eauto.
    - subst rd cov. split.
      + unfold covers_of. rewrite H24.
        destruct (Z.eqb_spec ty tRRSIG) as [E|E]; [subst ty; discriminate Htbl|reflexivity].
      + eexists. apply rdata_ok_generic_proof; eauto.
  Qed.

  Fixpoint rdatas_struct (ty cov : Z) (rdone rds : list rdata) : Prop :=
    match rds with
    | [] => True
    | rd :: r =>
        rd_struct ty cov rd /\
        existsb (rdata_eqb (canon_names ty) rd) rdone = false /\
        rdatas_struct ty cov (rdone ++ [rd]) r
    end.

  Definition rds_struct (n : name) (r : rdataset) : Prop :=
    0 <= rtype r <= 65535 /\
    rdatas r <> [] /\ 0 <= rttl r <= MAX_TTL /\ soa_ok zo rel n (rtype r) /\
    (is_singleton (rtype r) = true -> exists rd, rdatas r = [rd]) /\
    rdatas_struct (rtype r) (rcovers r) [] (rdatas r).

  Fixpoint rdss_struct (n : name) (ndone rest : node) : Prop :=
    match rest with
    | [] => True
    | r :: rest' =>
        rds_fresh ndone (rtype r) (rcovers r) /\ compat ndone (rds_kind r) /\ rds_struct n r /\
        rdss_struct n (ndone ++ [r]) rest'
    end.

  Definition node_struct (e : name * node) : Prop :=
    snd e <> [] /\ owner_stored_ok (fst e) /\ rdss_struct (fst e) [] (snd e).

  Definition zone_struct (z : zone) : Prop := keys_distinct z /\ Forall node_struct z.

  Lemma rdatas_wf_struct ty cov : forall rds rdone,
    rdatas_struct ty cov rdone rds -> rdatas_wf c st zo ty cov rdone rds.
  Proof.
    induction rds as [|rd rds IH]; intros rdone H; cbn [rdatas_wf]; [exact Logic.I|].
    destruct H as (Hf & Hd & Hr). destruct (rd_struct_ok _ _ _ Hf) as [Hcov Hok].
    split; [exact Hcov|]. split; [exact Hd|]. split; [exact Hok|]. apply IH. exact Hr.
  Qed.

  Lemma rdss_wf_struct n : forall rest ndone, rdss_struct n ndone rest -> rdss_wf c st zo n ndone rest.
  Proof.
    induction rest as [|r rest IH]; intros ndone H; cbn [rdss_wf]; [exact Logic.I|].
    destruct H as (Hf & Hc & (Hty & Hne & Httl & Hsoa & Hsing & Hrd) & Hrest).
    split; [exact Hf|]. split; [exact Hc|]. split; [|apply IH; exact Hrest].
    unfold rds_wf. split; [exact Hne|]. split; [exact Httl|].
    split; [exact Hty|]. split; [exact Hsoa|]. split; [exact Hsing|].
    apply rdatas_wf_struct. exact Hrd.
  Qed.

  Lemma node_wf_struct e : node_struct e -> node_wf c st zo e.
  Proof.
    intros (Hne & (V & B & Ho) & Hr). unfold node_wf. split; [exact Hne|]. split; [|apply rdss_wf_struct; exact Hr].
    assert (Hcases : (c_rel c = true /\ is_absolute (fst e) = false /\ Valid (fst e ++ zo)) \/
                     (c_rel c = false /\ is_absolute (fst e) = true /\ is_subdomain (fst e) zo = true)).
    { destruct (c_rel c); [left|right]; tauto. }
    destruct Hcases as [(Er & A & Vn)|(Er & A & Hs)].
    - exists (to_text (fst e)), (fst e ++ zo). apply owner_ok_relativized; auto.
    - exists (to_text (fst e)), (fst e). apply owner_ok_absolute; auto.
  Qed.

  Lemma zone_wf_struct z : zone_struct z -> zone_wf c st zo z.
  Proof.
    intros [Hk Hn]. split; [exact Hk|]. eapply Forall_impl; [|exact Hn]. intros e. apply node_wf_struct.
  Qed.

  Theorem zone_roundtrip_fields_proof nodes :
    lossless st -> 0 <= c_class c <= 65535 ->
    (c_origin c = Some zo \/ (c_origin c = None /\ st_want_origin st = true)) ->
    zone_struct nodes ->
    (c_check c = true -> check_origin c (Some zo) (printed_order st nodes) = Ok tt) ->
    exists text,
      zone_text st (mkpz (Some zo) (c_rel c) (c_class c) nodes) = Ok text /\
      from_text c text = Ok (match printed_order st nodes with [] => c_origin c | _ => Some zo end,
                             printed_order st nodes).
  Proof.
    intros Hl Hcl Ho Hs Hchk.
    apply (zone_roundtrip_proof c st zo Hl Hcl nodes (printed_order st nodes) eq_refl Ho).
    - intros _. apply origin_ok_valid. exact Hzo.
    - apply (nodes_wf_any_order c st zo nodes).
      + unfold printed_order. destruct (st_sorted st); [apply zsort_perm|reflexivity].
      + apply zone_wf_struct. exact Hs.
    - exact Hchk.
  Qed.
End Struct.
