(* C17 - list-level facts: invariants of the specification `alru_step`, the ideal map
   (key -> most recently stored answer that was neither flushed nor evicted), recency ages. *)
From Coq Require Import Sorting.Sorted.
From DV Require Import Base.Prelude Model.CacheM Model.CacheSpecM Proofs.CacheDict.

(* ------------------------------------------------------------------ monotone clock *)
Lemma tick_spec : forall k t k', tick k = (t, k') -> nonneg (pend k) ->
  now k <= t /\ now k' = t /\ nonneg (pend k').
Proof.
  intros k t k' H Hn. unfold tick in H. destruct (pend k) as [|d q] eqn:E.
  - inversion H; subst. rewrite E. repeat split; [lia|constructor].
  - inversion H; subst. cbn. apply Forall_cons_iff in Hn. destruct Hn. repeat split; [lia|auto].
Qed.

(* ------------------------------------------------------------------ invariants of the specification *)
Definition ahas (a : alru) (x : Z) : bool :=
  match afind (a_list a) x with Some _ => true | None => false end.

Lemma akeys_firstn : forall n l, akeys (firstn n l) = firstn n (akeys l).
Proof. intros. unfold akeys. symmetry. apply firstn_map. Qed.

Lemma nodup_put : forall l key v n, NoDup (akeys l) ->
  NoDup (akeys (mkEnt key v 0 :: firstn n (aremove l key))).
Proof.
  intros l key v n H. cbn. constructor.
  - rewrite akeys_firstn. intros Hin. apply in_firstn in Hin. eapply aremove_notin; eauto.
  - rewrite akeys_firstn. apply nodup_firstn. apply nodup_aremove. exact H.
Qed.

Lemma akeys_nodup_step : forall cl a k, NoDup (akeys (a_list a)) ->
  NoDup (akeys (a_list (snd (fst (alru_step cl a k))))).
Proof.
  intros cl a k H. destruct cl as [key|key v|[key|]|m|key| | | |]; cbn; auto.
  - destruct (afind (a_list a) key) as [e|] eqn:E; [|exact H].
    destruct (tick k) as [t k1]. destruct (a_exp (e_val e) <=? t); cbn.
    + apply nodup_aremove; auto.
    + constructor; [apply aremove_notin; auto|apply nodup_aremove; auto].
  - apply (nodup_put (a_list a) key v _ H).
  - apply nodup_aremove; auto.
  - constructor.
  - unfold atrim. rewrite akeys_firstn. apply nodup_firstn. exact H.
  - destruct (afind (a_list a) key) as [e|]; [|exact H].
    destruct (tick k) as [t k1]. destruct (a_exp (e_val e) <=? t); exact H.
Qed.

Lemma length_aremove_le : forall l k, (length (aremove l k) <= length l)%nat.
Proof.
  induction l as [|e l IH]; intros k; cbn; [lia|].
  destruct (e_key e =? k); cbn; [lia|]. specialize (IH k). lia.
Qed.

Lemma length_aremove_found : forall l k e, afind l k = Some e -> S (length (aremove l k)) = length l.
Proof.
  induction l as [|x l IH]; intros k e H; cbn in *; [discriminate|].
  destruct (e_key x =? k); cbn; [reflexivity|]. rewrite (IH _ _ H). reflexivity.
Qed.

(* the LRU bound, list level: |list| <= max and max >= 1, after every call *)
Definition abound (a : alru) : Prop := zlen (a_list a) <= a_max a /\ 1 <= a_max a.

Lemma abound_step : forall cl a k, abound a -> abound (snd (fst (alru_step cl a k))).
Proof.
  unfold abound, zlen. intros cl a k [H1 H2].
  destruct cl as [key|key v|[key|]|m|key| | | |]; cbn; auto.
  - destruct (afind (a_list a) key) as [e|] eqn:E; [|auto].
    destruct (tick k) as [t k1]. pose proof (length_aremove_found _ _ _ E) as L.
    destruct (a_exp (e_val e) <=? t); cbn; lia.
  - unfold atrim. rewrite firstn_length. pose proof (length_aremove_le (a_list a) key). lia.
  - pose proof (length_aremove_le (a_list a) key). lia.
  - lia.
  - unfold atrim. rewrite firstn_length. destruct (m <? 1) eqn:E; [lia|apply Z.ltb_ge in E; lia].
  - destruct (afind (a_list a) key) as [e|]; [|auto].
    destruct (tick k) as [t k1]. destruct (a_exp (e_val e) <=? t); auto.
Qed.

(* put keeps as many of the old entries as the limit allows: no needless eviction *)
Lemma put_length : forall a key v k,
  length (a_list (snd (fst (alru_step (Put key v) a k)))) =
  S (Nat.min (Z.to_nat (a_max a - 1)) (length (aremove (a_list a) key))).
Proof. intros. cbn. unfold atrim. rewrite firstn_length. reflexivity. Qed.

(* the clock only moves forward *)
Lemma alru_step_time : forall cl a k, nonneg (pend k) ->
  now k <= now (snd (alru_step cl a k)).
Proof.
  intros cl a k Hn. destruct cl as [key|key v|[key|]|m|key| | | |]; cbn; try lia.
  - destruct (afind (a_list a) key) as [e|]; [|cbn; lia].
    destruct (tick k) as [t k1] eqn:Et. destruct (tick_spec _ _ _ Et Hn) as [A [B _]].
    destruct (a_exp (e_val e) <=? t); cbn; lia.
  - destruct (afind (a_list a) key) as [e|]; [|cbn; lia].
    destruct (tick k) as [t k1] eqn:Et. destruct (tick_spec _ _ _ Et Hn) as [A [B _]].
    destruct (a_exp (e_val e) <=? t); cbn; lia.
Qed.

(* ------------------------------------------------------------------ the ideal map *)
Record J (a : alru) (t : Z) (m : imap) : Prop := mkJ {
  J_in : forall k e, afind (a_list a) k = Some e -> m k = Some (e_val e);
  J_out : forall k v, m k = Some v ->
          (exists e, afind (a_list a) k = Some e /\ e_val e = v) \/ a_exp v <= t }.

Lemma afind_firstn_some : forall n l k e, afind (firstn n l) k = Some e -> afind l k = Some e.
Proof.
  induction n as [|n IH]; intros l k e H; cbn in H; [discriminate|].
  destruct l as [|x l]; cbn in *; [discriminate|].
  destruct (e_key x =? k); [exact H|auto].
Qed.

Lemma ahas_true : forall a x, ahas a x = true <-> exists e, afind (a_list a) x = Some e.
Proof.
  intros a x. unfold ahas. destruct (afind (a_list a) x) as [e|]; split; intros H; eauto; try discriminate.
  destruct H; discriminate.
Qed.

Lemma J_get : forall a key k m, J a (now k) m -> nonneg (pend k) ->
  fst (fst (alru_step (Get key) a k)) = expected m key (now (snd (alru_step (Get key) a k))).
Proof.
  intros a key k m HJ Hn. unfold expected. cbn.
  destruct (afind (a_list a) key) as [e|] eqn:E.
  - rewrite (J_in _ _ _ HJ _ _ E).
    destruct (tick k) as [t k1] eqn:Et. destruct (tick_spec _ _ _ Et Hn) as [A [B _]].
    destruct (a_exp (e_val e) <=? t) eqn:Ex; cbn; rewrite B, Ex; reflexivity.
  - cbn. destruct (m key) as [v|] eqn:Em; [|reflexivity].
    destruct (J_out _ _ _ HJ _ _ Em) as [[e [H _]]|H]; [congruence|].
    apply Z.leb_le in H. rewrite H. reflexivity.
Qed.

Lemma J_weaken : forall a t t' m, J a t m -> t <= t' -> J a t' m.
Proof.
  intros a t t' m [A B] Ht. constructor; [exact A|].
  intros k v H. destruct (B k v H) as [H1|H1]; [left; exact H1|right; lia].
Qed.

Lemma J_ext : forall a a' t t' m m', J a t m ->
  a_list a' = a_list a -> (forall x, m' x = m x) -> t <= t' -> J a' t' m'.
Proof.
  intros a a' t t' m m' [A B] Hl Hm Ht. constructor.
  - intros k e H. rewrite Hl in H. rewrite Hm. auto.
  - intros k v H. rewrite Hm in H. rewrite Hl. destruct (B k v H) as [H1|H1]; [left; exact H1|right; lia].
Qed.

Lemma J_step : forall cl a k m,
  NoDup (akeys (a_list a)) -> nonneg (pend k) -> J a (now k) m ->
  J (snd (fst (alru_step cl a k))) (now (snd (alru_step cl a k)))
    (ideal_upd cl (ahas a) (ahas (snd (fst (alru_step cl a k)))) m).
Proof.
  intros cl a k m Hnd Hn HJ.
  pose proof (alru_step_time cl a k Hn) as Ht.
  destruct cl as [key|key v|[key|]|mx|key| | | |];
    try (cbn in *; eapply J_ext; [exact HJ|reflexivity|reflexivity|exact Ht]).
  - (* Get *)
    cbn in *. destruct (afind (a_list a) key) as [e|] eqn:E.
    2:{ cbn in *. eapply J_ext; [exact HJ|reflexivity|reflexivity|lia]. }
    destruct (tick k) as [t k1] eqn:Et. destruct (tick_spec _ _ _ Et Hn) as [A [B _]].
    destruct (a_exp (e_val e) <=? t) eqn:Ex; cbn in *.
    + apply Z.leb_le in Ex. constructor; cbn.
      * intros k0 e0 H. rewrite afind_aremove in H by exact Hnd.
        destruct (key =? k0); [discriminate|]. apply (J_in _ _ _ HJ). exact H.
      * intros k0 v0 H. rewrite afind_aremove by exact Hnd.
        destruct (J_out _ _ _ HJ _ _ H) as [[e0 [H1 H2]]|H1]; [|right; lia].
        destruct (key =? k0) eqn:E0.
        -- apply Z.eqb_eq in E0. subst k0. right. rewrite E in H1. inversion H1; subst. lia.
        -- left. eauto.
    + constructor; cbn.
      * intros k0 e0 H. destruct (key =? k0) eqn:E0.
        -- apply Z.eqb_eq in E0. subst k0. inversion H; subst. cbn. apply (J_in _ _ _ HJ). exact E.
        -- rewrite afind_aremove, E0 in H by exact Hnd. apply (J_in _ _ _ HJ). exact H.
      * intros k0 v0 H. destruct (J_out _ _ _ HJ _ _ H) as [[e0 [H1 H2]]|H1]; [|right; lia].
        left. destruct (key =? k0) eqn:E0.
        -- apply Z.eqb_eq in E0. subst k0. rewrite E in H1. inversion H1; subst. eexists; split; [reflexivity|reflexivity].
        -- rewrite afind_aremove, E0 by exact Hnd. eauto.
  - (* Put *)
    cbn in *. constructor; cbn.
    + intros k0 e0 H. destruct (key =? k0) eqn:E0.
      * apply Z.eqb_eq in E0. subst k0. inversion H; subst. cbn. rewrite Z.eqb_refl. reflexivity.
      * rewrite Z.eqb_sym, E0. unfold atrim in *.
        assert (Ha' : ahas (alru_set_list a (mkEnt key v 0 :: firstn (Z.to_nat (a_max a - 1)) (aremove (a_list a) key))) k0 = true).
        { apply ahas_true. exists e0. cbn. rewrite E0. exact H. }
        rewrite Ha'. rewrite andb_false_r. apply afind_firstn_some in H.
        rewrite afind_aremove, E0 in H by exact Hnd. apply (J_in _ _ _ HJ). exact H.
    + intros k0 v0 H. destruct (k0 =? key) eqn:E0.
      * apply Z.eqb_eq in E0. subst k0. inversion H; subst. left. rewrite Z.eqb_refl. eexists; split; reflexivity.
      * rewrite Z.eqb_sym, E0.
        destruct (ahas a k0 && negb _) eqn:E1; [discriminate|].
        destruct (J_out _ _ _ HJ _ _ H) as [[e0 [H1 H2]]|H1]; [|right; exact H1].
        left. assert (Hb : ahas a k0 = true) by (apply ahas_true; eauto).
        rewrite Hb in E1. cbn in E1. apply negb_false_iff in E1.
        apply ahas_true in E1. destruct E1 as [e1 E1]. cbn in E1. rewrite Z.eqb_sym, E0 in E1.
        exists e1. split; [exact E1|].
        unfold atrim in E1. apply afind_firstn_some in E1.
        rewrite afind_aremove in E1 by exact Hnd. rewrite Z.eqb_sym, E0 in E1. congruence.
  - (* Flush key *)
    cbn in *. constructor; cbn.
    + intros k0 e0 H. rewrite afind_aremove in H by exact Hnd. rewrite (Z.eqb_sym k0 key).
      destruct (key =? k0); [discriminate|]. apply (J_in _ _ _ HJ). exact H.
    + intros k0 v0 H. rewrite afind_aremove by exact Hnd. rewrite (Z.eqb_sym k0 key) in H.
      destruct (key =? k0); [discriminate|]. apply (J_out _ _ _ HJ). exact H.
  - (* Flush all *)
    cbn in *. constructor; cbn; intros; discriminate.
  - (* SetMax *)
    cbn in *. set (m' := if mx <? 1 then 1 else mx) in *. constructor; cbn.
    + intros k0 e0 H.
      assert (Ha' : ahas (mkALru (atrim (a_list a) m') m' (a_hits a) (a_miss a)) k0 = true).
      { apply ahas_true. eauto. }
      rewrite Ha', andb_false_r. unfold atrim in H. apply afind_firstn_some in H.
      apply (J_in _ _ _ HJ). exact H.
    + intros k0 v0 H.
      destruct (ahas a k0 && negb _) eqn:E1; [discriminate|].
      destruct (J_out _ _ _ HJ _ _ H) as [[e0 [H1 H2]]|H1]; [|right; exact H1].
      left. assert (Hb : ahas a k0 = true) by (apply ahas_true; eauto).
      rewrite Hb in E1. cbn in E1. apply negb_false_iff in E1.
      apply ahas_true in E1. destruct E1 as [e1 E1]. cbn in E1.
      exists e1. split; [exact E1|].
      unfold atrim in E1. apply afind_firstn_some in E1. congruence.
  - (* HitsFor *)
    cbn in *. destruct (afind (a_list a) key) as [e|]; [|cbn in *; eapply J_ext; [exact HJ|reflexivity|reflexivity|lia]].
    destruct (tick k) as [t k1] eqn:Et.
    destruct (a_exp (e_val e) <=? t); cbn in *; (eapply J_ext; [exact HJ|reflexivity|reflexivity|exact Ht]).
Qed.

(* ------------------------------------------------------------------ recency: who was used last *)
Definition recency_ok (h : list event) (ks : list Z) : Prop :=
  StronglySorted (younger h) ks /\ Forall (fun k => age h k <> None) ks.

Lemma younger_shift : forall ev h k k', uses ev k = false -> uses ev k' = false ->
  younger h k k' -> younger (ev :: h) k k'.
Proof.
  intros ev h k k' U1 U2 [n [n' [A [B C]]]]. exists (S n), (S n'). cbn. rewrite U1, U2, A, B.
  cbn. repeat split; lia.
Qed.

Lemma ss_impl_in : forall {A} (R R' : A -> A -> Prop) l,
  (forall x y, In x l -> In y l -> R x y -> R' x y) -> StronglySorted R l -> StronglySorted R' l.
Proof.
  intros A R R' l. induction l as [|a l IH]; intros H Hs; [constructor|].
  apply StronglySorted_inv in Hs. destruct Hs as [Hs F]. constructor.
  - apply IH; [|exact Hs]. intros x y Hx Hy. apply H; right; auto.
  - rewrite Forall_forall in *. intros y Hy. apply H; [left; auto|right; auto|auto].
Qed.

Lemma recency_unused : forall ev h ks, (forall k, In k ks -> uses ev k = false) ->
  recency_ok h ks -> recency_ok (ev :: h) ks.
Proof.
  intros ev h ks U [Hs F]. split.
  - eapply ss_impl_in; [|exact Hs]. intros x y Hx Hy. apply younger_shift; auto.
  - rewrite Forall_forall in *. intros k Hk. cbn. rewrite (U k Hk).
    specialize (F k Hk). destruct (age h k); [discriminate|congruence].
Qed.

Lemma recency_front : forall ev h key ks,
  uses ev key = true -> (forall k, In k ks -> uses ev k = false) ->
  recency_ok h ks -> recency_ok (ev :: h) (key :: ks).
Proof.
  intros ev h key ks U0 U HR. destruct (recency_unused ev h ks U HR) as [Hs F]. split.
  - constructor; [exact Hs|]. rewrite Forall_forall in *. intros k Hk.
    specialize (F k Hk). cbn in F. rewrite (U k Hk) in F.
    destruct (age h k) as [n|] eqn:E; [|cbn in F; congruence].
    exists 0%nat, (S n). cbn. rewrite U0, (U k Hk), E. cbn. repeat split; lia.
  - constructor; [|exact F]. cbn. rewrite U0. discriminate.
Qed.

Lemma ss_firstn : forall {A} (R : A -> A -> Prop) n l, StronglySorted R l -> StronglySorted R (firstn n l).
Proof.
  intros A R n. induction n as [|n IH]; intros l Hs; cbn; [constructor|].
  destruct l as [|x l]; [constructor|]. apply StronglySorted_inv in Hs. destruct Hs as [Hs F].
  constructor; [auto|]. rewrite Forall_forall in *. intros y Hy. apply F. eapply in_firstn; eauto.
Qed.

Lemma ss_aremove : forall R l k, StronglySorted R (akeys l) -> StronglySorted R (akeys (aremove l k)).
Proof.
  intros R l k. induction l as [|e l IH]; intros Hs; cbn in *; [constructor|].
  apply StronglySorted_inv in Hs. destruct Hs as [Hs F].
  destruct (e_key e =? k); [exact Hs|]. cbn. constructor; [auto|].
  rewrite Forall_forall in *. intros y Hy. apply F. eapply akeys_aremove_incl; eauto.
Qed.

Lemma ss_app_lt : forall {A} (R : A -> A -> Prop) l1 l2 x y,
  StronglySorted R (l1 ++ l2) -> In x l1 -> In y l2 -> R x y.
Proof.
  intros A R l1. induction l1 as [|a l1 IH]; intros l2 x y Hs Hx Hy; [destruct Hx|].
  cbn in Hs. apply StronglySorted_inv in Hs. destruct Hs as [Hs F]. destruct Hx as [->|Hx].
  - rewrite Forall_forall in F. apply F. apply in_or_app. auto.
  - eapply IH; eauto.
Qed.

Lemma recency_aremove : forall h l k, recency_ok h (akeys l) -> recency_ok h (akeys (aremove l k)).
Proof.
  intros h l k [Hs F]. split; [apply ss_aremove; exact Hs|].
  rewrite Forall_forall in *. intros x Hx. apply F. eapply akeys_aremove_incl; eauto.
Qed.

Lemma recency_firstn : forall h n l, recency_ok h (akeys l) -> recency_ok h (akeys (firstn n l)).
Proof.
  intros h n l [Hs F]. rewrite akeys_firstn. split; [apply ss_firstn; exact Hs|].
  rewrite Forall_forall in *. intros x Hx. apply F. eapply in_firstn; eauto.
Qed.

Lemma recency_step : forall cl a k h,
  NoDup (akeys (a_list a)) -> recency_ok h (akeys (a_list a)) ->
  recency_ok ((cl, fst (fst (alru_step cl a k))) :: h) (akeys (a_list (snd (fst (alru_step cl a k))))).
Proof.
  intros cl a k h Hnd HR.
  destruct cl as [key|key v|[key|]|mx|key| | | |]; cbn [alru_step].
  - destruct (afind (a_list a) key) as [e|] eqn:E.
    2:{ cbn. apply recency_unused; [reflexivity|exact HR]. }
    destruct (tick k) as [t k1]. destruct (a_exp (e_val e) <=? t); cbn.
    + apply recency_unused; [reflexivity|]. apply recency_aremove. exact HR.
    + change (key :: map e_key (aremove (a_list a) key)) with (key :: akeys (aremove (a_list a) key)).
      apply recency_front; [cbn; apply Z.eqb_refl| |apply recency_aremove; exact HR].
      intros x Hx. cbn. apply Z.eqb_neq. intros ->. eapply aremove_notin; eauto.
  - cbn. change (key :: map e_key (atrim (aremove (a_list a) key) (a_max a - 1)))
      with (key :: akeys (atrim (aremove (a_list a) key) (a_max a - 1))).
    apply recency_front; [cbn; apply Z.eqb_refl| |unfold atrim; apply recency_firstn, recency_aremove; exact HR].
    intros x Hx. cbn. apply Z.eqb_neq. intros ->. unfold atrim in Hx. rewrite akeys_firstn in Hx.
    apply in_firstn in Hx. eapply aremove_notin; eauto.
  - cbn. apply recency_unused; [reflexivity|]. apply recency_aremove. exact HR.
  - cbn. split; constructor.
  - cbn. apply recency_unused; [reflexivity|]. unfold atrim. apply recency_firstn. exact HR.
  - destruct (afind (a_list a) key) as [e|]; [|cbn; apply recency_unused; [reflexivity|exact HR]].
    destruct (tick k) as [t k1]. destruct (a_exp (e_val e) <=? t); cbn; (apply recency_unused; [reflexivity|exact HR]).
  - cbn. apply recency_unused; [reflexivity|exact HR].
  - cbn. apply recency_unused; [reflexivity|exact HR].
  - cbn. apply recency_unused; [reflexivity|exact HR].
  - cbn. apply recency_unused; [reflexivity|exact HR].
Qed.

Lemma ahas_in : forall a x, ahas a x = true <-> In x (akeys (a_list a)).
Proof.
  intros a x. rewrite <- afind_in. unfold ahas. destruct (afind (a_list a) x); split; intros; congruence.
Qed.

(* what trimming drops is older than what it keeps *)
Lemma trim_order : forall h l n g kept,
  recency_ok h (akeys l) -> In g (akeys l) -> ~ In g (akeys (firstn n l)) ->
  In kept (akeys (firstn n l)) -> younger h kept g.
Proof.
  intros h l n g kept [Hs _] Hg Hng Hk.
  rewrite <- (firstn_skipn n l) in Hs, Hg. unfold akeys in Hs, Hg. rewrite map_app in Hs, Hg.
  apply in_app_or in Hg. destruct Hg as [Hg|Hg]; [contradiction|].
  eapply ss_app_lt; eauto.
Qed.

(* strict LRU eviction, list level: every entry that a put / set_max_size evicts was used less
   recently than every entry it keeps *)
Lemma evict_order : forall cl a k h g kept,
  NoDup (akeys (a_list a)) -> recency_ok h (akeys (a_list a)) ->
  (match cl with Put key _ => g <> key /\ kept <> key | SetMax _ => True | _ => False end) ->
  ahas a g = true -> ahas (snd (fst (alru_step cl a k))) g = false ->
  ahas (snd (fst (alru_step cl a k))) kept = true ->
  younger h kept g.
Proof.
  intros cl a k h g kept Hnd HR Hcl Hg Hg' Hk.
  destruct cl as [key|key v|[key|]|mx|key| | | |]; try contradiction.
  - destruct Hcl as [Hgk Hkk]. cbn in Hg', Hk. unfold atrim in *.
    assert (Hgn : ahas _ g <> true) by (rewrite Hg'; discriminate).
    rewrite ahas_in in Hg, Hk, Hgn. cbn in Hk, Hgn.
    destruct Hk as [Hk|Hk]; [congruence|].
    apply (trim_order h (aremove (a_list a) key) (Z.to_nat (a_max a - 1))).
    + apply recency_aremove. exact HR.
    + apply afind_in. rewrite afind_aremove by exact Hnd.
      destruct (key =? g) eqn:E; [apply Z.eqb_eq in E; congruence|]. apply afind_in. exact Hg.
    + intros H. apply Hgn. right. exact H.
    + exact Hk.
  - cbn in Hg', Hk. unfold atrim in *.
    assert (Hgn : ahas _ g <> true) by (rewrite Hg'; discriminate).
    rewrite ahas_in in Hg, Hk, Hgn. cbn in Hk, Hgn.
    eapply trim_order; eauto.
Qed.

(* ------------------------------------------------------------------ counters as functions of the history *)
Lemma astats_step : forall cl a k h,
  (a_hits a, a_miss a) = stats_of h ->
  (a_hits (snd (fst (alru_step cl a k))), a_miss (snd (fst (alru_step cl a k)))) =
  stats_of ((cl, fst (fst (alru_step cl a k))) :: h).
Proof.
  intros cl a k h H.
  assert (H1 : a_hits a = fst (stats_of h)) by (rewrite <- H; reflexivity).
  assert (H2 : a_miss a = snd (stats_of h)) by (rewrite <- H; reflexivity).
  Ltac fin H H1 H2 := cbn; first [exact H | rewrite H1, H2; reflexivity | reflexivity].
  destruct cl as [key|key v|[key|]|mx|key| | | |]; cbn [alru_step]; try (fin H H1 H2).
  - destruct (afind (a_list a) key) as [e|]; [|fin H H1 H2].
    destruct (tick k) as [t k1]. destruct (a_exp (e_val e) <=? t); fin H H1 H2.
  - destruct (afind (a_list a) key) as [e|]; [|fin H H1 H2].
    destruct (tick k) as [t k1]. destruct (a_exp (e_val e) <=? t); fin H H1 H2.
Qed.

Definition khits_ok (h : list event) (l : list aent) : Prop :=
  Forall (fun e => e_hits e = key_hits h (e_key e)) l.

Lemma khits_sub : forall h l l', (forall e, In e l' -> In e l) -> khits_ok h l -> khits_ok h l'.
Proof. unfold khits_ok. intros h l l' H F. rewrite Forall_forall in *. auto. Qed.

Lemma in_aremove : forall l k e, In e (aremove l k) -> In e l.
Proof.
  induction l as [|x l IH]; intros k e H; cbn in *; [auto|].
  destruct (e_key x =? k); cbn in *; [auto|]. destruct H; eauto.
Qed.

Lemma khits_unused : forall ev h l,
  (forall e, In e l -> key_hits (ev :: h) (e_key e) = key_hits h (e_key e)) ->
  khits_ok h l -> khits_ok (ev :: h) l.
Proof.
  unfold khits_ok. intros ev h l H F. rewrite Forall_forall in *. intros e He.
  rewrite (H e He). auto.
Qed.

Lemma in_aremove_key : forall l k e, NoDup (akeys l) -> In e (aremove l k) -> e_key e <> k.
Proof.
  intros l k e Hnd He Hk. subst k. apply (aremove_notin l (e_key e) Hnd). unfold akeys. apply in_map. exact He.
Qed.

Lemma khits_step : forall cl a k h,
  NoDup (akeys (a_list a)) -> khits_ok h (a_list a) ->
  khits_ok ((cl, fst (fst (alru_step cl a k))) :: h) (a_list (snd (fst (alru_step cl a k)))).
Proof.
  intros cl a k h Hnd HK.
  destruct cl as [key|key v|[key|]|mx|key| | | |]; cbn [alru_step].
  - destruct (afind (a_list a) key) as [e|] eqn:E.
    2:{ cbn. apply khits_unused; [reflexivity|exact HK]. }
    destruct (tick k) as [t k1]. destruct (a_exp (e_val e) <=? t); cbn.
    + apply khits_unused; [reflexivity|]. eapply khits_sub; [|exact HK]. intros x. apply in_aremove.
    + constructor.
      * cbn. rewrite Z.eqb_refl. destruct (afind_key _ _ _ E) as [Hk Hin].
        unfold khits_ok in HK. rewrite Forall_forall in HK. rewrite (HK e Hin), Hk. lia.
      * apply khits_unused.
        -- intros x Hx. cbn. pose proof (in_aremove_key _ _ _ Hnd Hx) as Hne.
           destruct (key =? e_key x) eqn:E1; [apply Z.eqb_eq in E1; congruence|]. lia.
        -- eapply khits_sub; [|exact HK]. intros x. apply in_aremove.
  - cbn. constructor.
    + cbn. rewrite Z.eqb_refl. reflexivity.
    + apply khits_unused.
      * intros x Hx. cbn. unfold atrim in Hx. apply in_firstn in Hx.
        pose proof (in_aremove_key _ _ _ Hnd Hx) as Hne.
        destruct (key =? e_key x) eqn:E1; [apply Z.eqb_eq in E1; congruence|]. reflexivity.
      * eapply khits_sub; [|exact HK]. intros x Hx. unfold atrim in Hx. apply in_firstn in Hx.
        eapply in_aremove; eauto.
  - cbn. apply khits_unused; [reflexivity|]. eapply khits_sub; [|exact HK]. intros x. apply in_aremove.
  - cbn. constructor.
  - cbn. apply khits_unused; [reflexivity|]. eapply khits_sub; [|exact HK]. intros x Hx.
    unfold atrim in Hx. eapply in_firstn; eauto.
  - destruct (afind (a_list a) key) as [e|]; [|cbn; apply khits_unused; [reflexivity|exact HK]].
    destruct (tick k) as [t k1]. destruct (a_exp (e_val e) <=? t); cbn; (apply khits_unused; [reflexivity|exact HK]).
  - cbn. apply khits_unused; [reflexivity|exact HK].
  - cbn. apply khits_unused; [reflexivity|exact HK].
  - cbn. apply khits_unused; [reflexivity|exact HK].
  - cbn. apply khits_unused; [reflexivity|exact HK].
Qed.

Lemma J_hitsfor : forall a key k m h, J a (now k) m -> khits_ok h (a_list a) -> nonneg (pend k) ->
  fst (fst (alru_step (HitsFor key) a k)) =
  expected_hits m h key (now (snd (alru_step (HitsFor key) a k))).
Proof.
  intros a key k m h HJ HK Hn. unfold expected_hits. cbn.
  destruct (afind (a_list a) key) as [e|] eqn:E.
  - rewrite (J_in _ _ _ HJ _ _ E).
    destruct (tick k) as [t k1] eqn:Et. destruct (tick_spec _ _ _ Et Hn) as [A [B _]].
    destruct (afind_key _ _ _ E) as [Hk Hin].
    unfold khits_ok in HK. rewrite Forall_forall in HK. rewrite (HK e Hin), Hk.
    destruct (a_exp (e_val e) <=? t) eqn:Ex; cbn; rewrite B, Ex; reflexivity.
  - cbn. destruct (m key) as [v|] eqn:Em; [|reflexivity].
    destruct (J_out _ _ _ HJ _ _ Em) as [[e [H _]]|H]; [congruence|].
    apply Z.leb_le in H. rewrite H. reflexivity.
Qed.

(* ------------------------------------------------------------------ how the key set can change *)
Lemma ahas_false : forall a x, ahas a x = false <-> afind (a_list a) x = None.
Proof.
  intros a x. unfold ahas. destruct (afind (a_list a) x); split; intros; congruence.
Qed.

Lemma afind_firstn_none : forall n l k, afind l k = None -> afind (firstn n l) k = None.
Proof.
  intros n l k H. destruct (afind (firstn n l) k) eqn:E; [|reflexivity].
  apply afind_firstn_some in E. congruence.
Qed.

Lemma keyset_step : forall cl a k x, NoDup (akeys (a_list a)) ->
  keyset_rule cl (ahas a) (ahas (snd (fst (alru_step cl a k)))) x.
Proof.
  intros cl a k x Hnd. destruct cl as [key|key v|[key|]|mx|key| | | |]; cbn [keyset_rule alru_step].
  - intros Hne. destruct (afind (a_list a) key) as [e|] eqn:E; [|reflexivity].
    destruct (tick k) as [t k1]. destruct (a_exp (e_val e) <=? t); cbn [fst snd]; unfold ahas, alru_miss, alru_set_list; cbn [a_list].
      rewrite afind_aremove by exact Hnd. destruct (key =? x) eqn:E1; [apply Z.eqb_eq in E1; congruence|reflexivity].
    + cbn [afind e_key]. destruct (key =? x) eqn:E1; [apply Z.eqb_eq in E1; congruence|].
      rewrite afind_aremove, E1 by exact Hnd. reflexivity.
  - cbn [fst snd]. unfold ahas, alru_miss, alru_set_list. cbn [a_list afind e_key]. split.
    + intros ->. rewrite Z.eqb_refl. reflexivity.
    + intros Hne Hb. destruct (key =? x) eqn:E1; [apply Z.eqb_eq in E1; congruence|].
      destruct (afind (a_list a) x) eqn:E2; [discriminate|].
      unfold atrim. rewrite afind_firstn_none; [reflexivity|].
      rewrite afind_aremove, E1 by exact Hnd. exact E2.
  - cbn [fst snd]. unfold ahas, alru_miss, alru_set_list. cbn [a_list]. rewrite afind_aremove by exact Hnd.
    rewrite (Z.eqb_sym x key). destruct (key =? x); reflexivity.
  - reflexivity.
  - cbn [fst snd]. unfold ahas, alru_miss, alru_set_list. cbn [a_list]. intros Hb.
    destruct (afind (a_list a) x) eqn:E2; [discriminate|].
    unfold atrim. rewrite afind_firstn_none by exact E2. reflexivity.
  - destruct (afind (a_list a) key) as [e|]; [|reflexivity].
    destruct (tick k) as [t k1]. destruct (a_exp (e_val e) <=? t); reflexivity.
  - reflexivity.
  - reflexivity.
  - reflexivity.
  - reflexivity.
Qed.
