(* Programs over the Parser API (reads, counted strings, names, nested restrict_to) never end in
   a Python-level exception; dns.name.from_wire is total and fails only in the documented family. *)
From DV Require Import Base.Prelude Model.NameM Model.ParserM Proofs.NameValid Proofs.ParserSafe.
Open Scope Z_scope.

(* programs as a per-type parser writes them: sizes are values read from octets or constants
   (>= 0); the parser is not re-positioned by hand (raw seek / restore_furthest are what
   get_name uses internally) *)
Fixpoint op_ok (o : op) : Prop :=
  match o with
  | OBytes n => 0 <= n
  | OStruct ws => Forall (fun w => 0 <= w) ws
  | OCounted k => 0 <= k
  | OSeek _ => False
  | ORestore _ => False
  | ORestrict n body => 0 <= n /\ (fix all (l : list op) : Prop := match l with [] => True | x :: r => op_ok x /\ all r end) body
  | _ => True
  end.

Fixpoint ops_ok (l : list op) : Prop := match l with [] => True | x :: r => op_ok x /\ ops_ok r end.

Lemma op_ok_restrict n body : op_ok (ORestrict n body) <-> 0 <= n /\ ops_ok body.
Proof.
  cbn [op_ok]. split; intros [H1 H2]; split; auto; induction body; cbn in *; auto; destruct H2; auto.
Qed.

Fixpoint op_size (o : op) : nat :=
  match o with
  | ORestrict _ b => S (fold_right (fun x a => op_size x + a)%nat 0%nat b)
  | ORestore b => S (fold_right (fun x a => op_size x + a)%nat 0%nat b)
  | _ => 1%nat
  end.
Definition ops_size (l : list op) : nat := fold_right (fun x a => op_size x + a)%nat 0%nat l.

Lemma op_size_pos o : (1 <= op_size o)%nat.
Proof. destruct o; cbn; lia. Qed.

Section Prog.
  Variable wire : list Z.
  Hypothesis Hwire : bytes_ok wire.

  Lemma exec_inner body :
    (fix go (l : list op) : M (list obs) :=
       match l with
       | [] => ret []
       | x :: r => dom a <- exec_op wire x; dom b <- go r; ret (a ++ b)
       end) body = exec wire body.
  Proof. induction body as [|x r IH]; cbn; [reflexivity|]. rewrite IH. reflexivity. Qed.

  Lemma exec_op_restrict n body : exec_op wire (ORestrict n body) = restrict_to n (exec wire body).
  Proof. cbn [exec_op]. rewrite exec_inner. reflexivity. Qed.

  (* between API calls of such a program: furthest <= current <= end *)
  Definition inv (s : pstate) : Prop := pfur s <= pcur s <= pend s.

  Definition G {A} (s : pstate) (r : out A * pstate) : Prop :=
    good wire 0 isNameErr s r (fun _ s' => inv s').

  Lemma G_emit {A} (m : M A) (f : A -> obs) s (Q : A -> pstate -> Prop) :
    good wire 0 isNameErr s (m s) Q -> (forall a s', Q a s' -> inv s') -> G s (emit m f s).
  Proof.
    intros H HQ. unfold G, emit. eapply good_bind; [exact H|].
    intros a s1 W1 E1 F1 Qa. apply good_ret; [assumption|]. eapply HQ; eauto.
  Qed.

  Lemma form_name e : isForm e -> isNameErr e.
  Proof. intros ->. left. left. reflexivity. Qed.

  Lemma exec_good : forall n,
    (forall o, (op_size o < n)%nat -> op_ok o -> forall s, wf wire s -> inv s -> G s (exec_op wire o s)) /\
    (forall l, (ops_size l < n)%nat -> ops_ok l -> forall s, wf wire s -> inv s -> G s (exec wire l s)).
  Proof.
    induction n as [|n [IHo IHl]]; [split; intros; lia|].
    assert (Hop : forall o, (op_size o < S n)%nat -> op_ok o -> forall s, wf wire s -> inv s -> G s (exec_op wire o s)).
    { intros o Hsz Hok s W I. unfold inv in I.
      destruct o; cbn [op_ok] in Hok; try contradiction.
      - (* OBytes *) cbn [exec_op]. eapply G_emit.
        + eapply good_weaken; [apply good_get_bytes; auto; try lia| apply form_name | intros; eassumption].
        + intros a s' (? & ? & ? & ? & ?). unfold inv. lia.
      - cbn [exec_op]. eapply G_emit.
        + eapply good_weaken; [apply good_get_uint; auto; try lia| apply form_name | intros; eassumption].
        + intros a s' (? & ? & ? & ?). unfold inv. lia.
      - cbn [exec_op]. eapply G_emit.
        + eapply good_weaken; [apply good_get_uint; auto; try lia| apply form_name | intros; eassumption].
        + intros a s' (? & ? & ? & ?). unfold inv. lia.
      - cbn [exec_op]. eapply G_emit.
        + eapply good_weaken; [apply good_get_uint; auto; try lia| apply form_name | intros; eassumption].
        + intros a s' (? & ? & ? & ?). unfold inv. lia.
      - cbn [exec_op]. eapply G_emit.
        + eapply good_weaken; [apply good_get_uint48; auto; try lia| apply form_name | intros; eassumption].
        + intros a s' (? & ? & ? & ?). unfold inv. lia.
      - (* OStruct *) cbn [exec_op]. eapply G_emit.
        + eapply good_weaken; [apply good_get_struct; auto; try lia| apply form_name | intros; eassumption].
        + intros a s' (? & ? & Hc & ? & ?). pose proof (calcsize_nonneg _ Hok). unfold inv. lia.
      - (* OCounted *) cbn [exec_op]. eapply G_emit.
        + eapply good_weaken; [apply good_get_counted; auto; try lia| apply form_name | intros; eassumption].
        + intros a s' (? & ? & ? & ?). unfold inv. lia.
      - (* ORemaining *) cbn [exec_op]. eapply G_emit.
        + eapply good_weaken; [apply good_get_remaining; auto; try lia| apply form_name | intros; eassumption].
        + intros a s' (? & ? & ? & ? & ?). unfold inv. lia.
      - (* ORem *) cbn [exec_op]. unfold G, good. cbn. split; auto. split; auto. split; [lia|exact I].
      - (* OName *) cbn [exec_op]. eapply G_emit.
        + apply good_get_name; auto; lia.
        + intros a s' (? & ? & Hg). unfold inv. lia.
      - (* ORestrict *)
        rename n0 into sz.
        assert (Hok' : op_ok (ORestrict sz body)) by exact Hok.
        apply op_ok_restrict in Hok' as [Hn Hb]. rewrite exec_op_restrict.
        unfold G. eapply good_weaken.
        + apply (good_restrict_to wire 0 isNameErr sz (exec wire body) s (fun _ s' => inv s')); auto; try lia.
          * left. left. reflexivity.
          * intros s0 W0 E0 C0 F0. apply IHl; auto.
            -- cbn [op_size] in Hsz. unfold ops_size. lia.
            -- unfold inv. lia.
        + auto.
        + intros a s' W' E' F' (s1 & I1 & -> & C1 & E1 & L1). unfold inv in *. cbn. lia. }
    split; [exact Hop|].
    intros l Hsz Hok s W I. destruct l as [|x r]; cbn [exec].
    - unfold G. apply good_ret; auto.
    - destruct Hok as [Hx Hr]. unfold ops_size in Hsz; cbn [fold_right] in Hsz.
      unfold G. eapply good_bind; [apply Hop; auto; lia|].
      intros a s1 W1 E1 F1 I1. eapply good_bind; [apply IHl; auto|].
      + fold (ops_size r) in Hsz. pose proof (op_size_pos x). lia.
      + intros b s2 W2 E2 F2 I2. apply good_ret; auto.
  Qed.
End Prog.

(* ---------- closed statements ---------- *)
Lemma parser_init_spec wire current :
  match parser_init wire current with
  | Val s0 => wf wire s0 /\ pfur s0 = pcur s0 /\ pcur s0 = current /\ pcur s0 <= pend s0 /\ pend s0 = zlen wire
  | Exn x => x = XLib eFormError
  end.
Proof.
  unfold parser_init, seek, wf, wfl. pose proof (zlen_nonneg wire) as Hz.
  destruct (current =? 0) eqn:E0; cbn.
  - assert (current = 0) by lia. subst. repeat split; lia.
  - destruct ((current <? 0) || (current >? zlen wire)) eqn:E; cbn; [reflexivity|].
    apply orb_false_iff in E as [E1 E2]. repeat split; lia.
Qed.

(* any program of API calls, on any octet string, from any starting offset *)
Theorem parser_program_never_internal wire current ops :
  bytes_ok wire -> ops_ok ops ->
  match parser_init wire current with
  | Exn x => x = XLib eFormError
  | Val s0 =>
      match exec wire ops s0 with
      | (Val _, s1) => pfur s1 <= pcur s1 <= pend s1 /\ pend s1 = zlen wire
      | (Exn (XLib e), s1) => isNameErr e /\ pend s1 = zlen wire
      | (Exn (XInt _), _) => False
      end
  end.
Proof.
  intros Hw Hok. pose proof (parser_init_spec wire current) as Hi.
  destruct (parser_init wire current) as [s0|x]; [|exact Hi].
  destruct Hi as (W & Hf & Hc & Hle & He).
  destruct (exec_good wire Hw (S (ops_size ops))) as [_ Hl].
  specialize (Hl ops (Nat.lt_succ_diag_r _) Hok s0 W). unfold G, good, inv in Hl.
  specialize (Hl ltac:(lia)).
  destruct (exec wire ops s0) as [[a|[e|e]] s1]; auto.
  - destruct Hl as (_ & E & _ & I). split; [exact I|congruence].
  - destruct Hl as (P & _ & E & _). split; [exact P|congruence].
Qed.

(* dns.name.from_wire: total; a valid name and a positive consumed count inside the message,
   or FormError / BadPointer / BadLabelType / NameTooLong *)
Theorem name_from_wire_total wire current :
  bytes_ok wire ->
  match name_from_wire wire current with
  | Ok (n, c) => Valid n /\ 0 < c /\ current + c <= zlen wire
  | Lib e => isNameErr e
  | Internal _ => False
  end.
Proof.
  intros Hw. unfold name_from_wire. pose proof (parser_init_spec wire current) as Hi.
  destruct (parser_init wire current) as [s0|x]; [|subst x; left; left; reflexivity].
  destruct Hi as (W & Hf & Hc & Hle & He).
  pose proof (good_from_wire_parser wire Hw 0 s0 ltac:(lia) W) as G. unfold good in G.
  destruct (from_wire_parser wire s0) as [[n|[e|e]] s1]; auto.
  - destruct G as (W1 & E1 & F1 & V & C1 & Lt & Hg). split; [exact V|]. split; lia.
  - destruct G as (P & _). exact P.
Qed.
