(* C17 - the simple Cache: every history keeps the dict consistent with the ideal map
   (latest stored answer per key, not flushed), lookups return exactly the unexpired ideal
   answer, counters count every lookup once.  Cleaning only ever drops expired entries, which
   no later lookup could return because the clock is monotone. *)
From DV Require Import Base.Prelude Model.CacheM Model.CacheSpecM Proofs.CacheDict Proofs.CacheSpec Proofs.CacheThm.

Lemma dget_filter : forall (p : Z * ans -> bool) d k, NoDup (dkeys d) ->
  dget (filter p d) k =
  match dget d k with Some v => if p (k, v) then Some v else None | None => None end.
Proof.
  unfold dkeys. intros p d k. induction d as [|[x w] d IH]; intros Hnd; cbn; [reflexivity|].
  cbn in Hnd. apply NoDup_cons_iff in Hnd. destruct Hnd as [Hx Hnd].
  destruct (x =? k) eqn:E.
  - apply Z.eqb_eq in E. subst x. destruct (p (k, w)) eqn:Ep; cbn.
    + rewrite Z.eqb_refl. reflexivity.
    + rewrite IH by exact Hnd. destruct (dget d k) eqn:Ed; [|reflexivity].
      exfalso. apply Hx. apply (proj1 (dget_in d k)). congruence.
  - destruct (p (x, w)); cbn; [rewrite E|]; apply IH; exact Hnd.
Qed.

Lemma nodup_filter_keys : forall (p : Z * ans -> bool) d, NoDup (dkeys d) -> NoDup (dkeys (filter p d)).
Proof.
  unfold dkeys. intros p d. induction d as [|[x w] d IH]; intros Hnd; cbn; [constructor|].
  cbn in Hnd. apply NoDup_cons_iff in Hnd. destruct Hnd as [Hx Hnd].
  destruct (p (x, w)); cbn; [|auto]. constructor; [|auto].
  intros Hin. apply Hx. apply in_map_iff in Hin. destruct Hin as [[y v] [Hy Hin]]. cbn in Hy. subst y.
  apply filter_In in Hin. destruct Hin as [Hin _]. apply in_map_iff. exists (x, v). auto.
Qed.

Record CJ (c : cache) (t : Z) (m : imap) : Prop := mkCJ {
  CJ_nodup : NoDup (dkeys (c_data c));
  CJ_in : forall k v, dget (c_data c) k = Some v -> m k = Some v;
  CJ_out : forall k v, m k = Some v -> dget (c_data c) k = Some v \/ a_exp v <= t }.

Definition CInv (w : cache * Z) (g : lghost) : Prop :=
  CJ (fst w) (snd w) (fst g) /\ (c_hits (fst w), c_miss (fst w)) = stats_of (snd g).

Lemma maybe_clean_spec : forall c k m c1 k1,
  CJ c (now k) m -> nonneg (pend k) -> maybe_clean c k = (c1, k1) ->
  CJ c1 (now k1) m /\ now k <= now k1 /\ nonneg (pend k1) /\
  c_hits c1 = c_hits c /\ c_miss c1 = c_miss c.
Proof.
  intros c k m c1 k1 HJ Hn H. unfold maybe_clean in H.
  destruct (tick k) as [t k'] eqn:Et. destruct (tick_spec _ _ _ Et Hn) as [A [B Hn']].
  destruct (c_next c <=? t).
  - destruct (tick k') as [t2 k2] eqn:Et2. destruct (tick_spec _ _ _ Et2 Hn') as [A2 [B2 Hn2]].
    inversion H; subst c1 k1. clear H. cbn [c_hits c_miss]. split; [|repeat split; auto; lia].
    destruct HJ as [N I O]. constructor; cbn [c_data].
    + apply nodup_filter_keys. exact N.
    + intros key v H. rewrite dget_filter in H by exact N.
      destruct (dget (c_data c) key) as [v0|] eqn:E; [|discriminate].
      destruct (negb (expired_at t (key, v0))); [|discriminate]. inversion H; subst. auto.
    + intros key v H. destruct (O key v H) as [H1|H1]; [|right; lia].
      rewrite dget_filter, H1 by exact N. unfold expired_at. cbn [snd].
      destruct (a_exp v <=? t) eqn:Ex; cbn; [right; apply Z.leb_le in Ex; lia|left; reflexivity].
  - inversion H; subst c1 k1. split; [|repeat split; auto; lia].
    destruct HJ as [N I O]. constructor; auto.
    intros key v H'. destruct (O key v H') as [H1|H1]; [left; auto|right; lia].
Qed.

Lemma stats_pair : forall (h m : Z) l, (h, m) = stats_of l -> h = fst (stats_of l) /\ m = snd (stats_of l).
Proof. intros h m l H. rewrite <- H. auto. Qed.

Lemma cinv_call : forall cl ds c t g,
  CInv (c, t) g -> nonneg ds -> cache_call cl ->
  exists r c' k',
    cache_step cl c (mkClk t ds) = Ok (r, c', k') /\
    CInv (c', now k') (cache_gupd cl c r c' g) /\ t <= now k' /\
    (forall key, cl = Get key -> r = expected (fst g) key (now k')).
Proof.
  intros cl ds c t g [HJ HS] Hn Hcl. cbn [fst snd] in *.
  destruct (stats_pair _ _ _ HS) as [S1 S2].
  destruct cl as [key|key v|[key|]|mx|key| | | |]; try contradiction; unfold cache_step, CInv, cache_gupd;
    cbn [fst snd].
  - (* Get *)
    destruct (maybe_clean c (mkClk t ds)) as [c1 k1] eqn:Em.
    destruct (maybe_clean_spec c (mkClk t ds) (fst g) c1 k1 HJ Hn Em) as [HJ1 [T1 [Hn1 [Hh Hm]]]].
    cbn [now] in T1.
    destruct (dget (c_data c1) key) as [v|] eqn:Ed.
    + destruct (tick k1) as [t2 k2] eqn:Et. destruct (tick_spec _ _ _ Et Hn1) as [A [B _]].
      pose proof (CJ_in _ _ _ HJ1 _ _ Ed) as Hi.
      destruct (a_exp v <=? t2) eqn:Ex.
      * eexists _, _, _. split; [reflexivity|]. split; [|split; [lia|]].
        -- split; [|cbn; rewrite Hh, Hm, S1, S2; reflexivity].
           destruct HJ1 as [N I O]. constructor; cbn; auto.
           intros k0 v0 H. destruct (O k0 v0 H); [left; auto|right; lia].
        -- intros key' Hk. inversion Hk; subst key'. unfold expected. rewrite Hi, B, Ex. reflexivity.
      * eexists _, _, _. split; [reflexivity|]. split; [|split; [lia|]].
        -- split; [|cbn; rewrite Hh, Hm, S1, S2; reflexivity].
           destruct HJ1 as [N I O]. constructor; cbn; auto.
           intros k0 v0 H. destruct (O k0 v0 H); [left; auto|right; lia].
        -- intros key' Hk. inversion Hk; subst key'. unfold expected. rewrite Hi, B, Ex. reflexivity.
    + eexists _, _, _. split; [reflexivity|]. split; [|split; [lia|]].
      * split; [|cbn; rewrite Hh, Hm, S1, S2; reflexivity].
        destruct HJ1 as [N I O]. constructor; cbn; auto.
      * intros key' Hk. inversion Hk; subst key'. unfold expected.
        destruct (fst g key) as [v|] eqn:Eg; [|reflexivity].
        destruct (CJ_out _ _ _ HJ1 _ _ Eg) as [H|H]; [congruence|].
        apply Z.leb_le in H. rewrite H. reflexivity.
  - (* Put *)
    destruct (maybe_clean c (mkClk t ds)) as [c1 k1] eqn:Em.
    destruct (maybe_clean_spec c (mkClk t ds) (fst g) c1 k1 HJ Hn Em) as [HJ1 [T1 [Hn1 [Hh Hm]]]].
    cbn [now] in T1.
    eexists _, _, _. split; [reflexivity|]. split; [|split; [lia|intros; discriminate]].
    split; [|cbn; rewrite Hh, Hm; exact HS].
    destruct HJ1 as [N I O]. constructor; cbn.
    + apply nodup_dset. exact N.
    + intros k0 v0 H. rewrite dget_dset in H. rewrite (Z.eqb_sym k0 key).
      destruct (key =? k0); [exact H|auto].
    + intros k0 v0 H. rewrite dget_dset. rewrite (Z.eqb_sym k0 key) in H.
      destruct (key =? k0); [left; exact H|auto].
  - (* Flush key *)
    destruct (ddel (c_data c) key) as [d|] eqn:Ed.
    + eexists _, _, _. split; [reflexivity|]. cbn [now]. split; [|split; [lia|intros; discriminate]].
      split; [|cbn; exact HS].
      destruct HJ as [N I O]. destruct (ddel_spec _ _ _ Ed N) as [Dg [Dn _]]. constructor; cbn.
      * exact Dn.
      * intros k0 v0 H. rewrite Dg in H. rewrite (Z.eqb_sym k0 key).
        destruct (key =? k0); [discriminate|auto].
      * intros k0 v0 H. rewrite Dg. rewrite (Z.eqb_sym k0 key) in H.
        destruct (key =? k0); [discriminate|auto].
    + eexists _, _, _. split; [reflexivity|]. cbn [now]. split; [|split; [lia|intros; discriminate]].
      split; [|cbn; exact HS].
      destruct HJ as [N I O]. constructor; cbn; auto.
      * intros k0 v0 H. rewrite (Z.eqb_sym k0 key). destruct (key =? k0) eqn:E; [|auto].
        apply Z.eqb_eq in E. subst k0. exfalso.
        assert (Hn0 : dget (c_data c) key = None).
        { destruct (dget (c_data c) key) eqn:E2; [|reflexivity].
          destruct (ddel_some _ _ _ E2) as [d' Hd]. congruence. }
        congruence.
      * intros k0 v0 H. destruct (k0 =? key); [discriminate|auto].
  - (* Flush all *)
    destruct (tick (mkClk t ds)) as [t2 k2] eqn:Et. destruct (tick_spec _ _ _ Et Hn) as [A [B _]].
    cbn [now] in A.
    eexists _, _, _. split; [reflexivity|]. split; [|split; [lia|intros; discriminate]].
    split; [|cbn; exact HS].
    constructor; cbn; [constructor|intros; discriminate|intros; discriminate].
  - eexists _, _, _. split; [reflexivity|]. cbn [now]. split; [|split; [lia|intros; discriminate]].
    split; [|cbn; exact HS]. destruct HJ as [N I O]. constructor; auto.
  - eexists _, _, _. split; [reflexivity|]. cbn [now]. split; [|split; [lia|intros; discriminate]].
    split; [|cbn; exact HS]. destruct HJ as [N I O]. constructor; auto.
  - eexists _, _, _. split; [reflexivity|]. cbn [now]. split; [|split; [lia|intros; discriminate]].
    split; [|cbn; exact HS]. destruct HJ as [N I O]. constructor; auto.
  - eexists _, _, _. split; [reflexivity|]. cbn [now]. split; [|split; [lia|intros; discriminate]].
    split; [|cbn; reflexivity]. destruct HJ as [N I O]. constructor; auto.
Qed.

Lemma cinv_item : forall it c t g,
  CInv (c, t) g -> mono_item it -> cache_item it ->
  exists x, wstep cache_step it (c, t) = Ok x /\ CInv (snd x) (gnext cache_gupd it (c, t) x g) /\
            t <= snd (snd x).
Proof.
  intros it c t g HI Hm Hc. destruct it as [cl ds|d].
  - destruct (cinv_call cl ds c t g HI Hm Hc) as [r [c' [k' [E [HI' [Ht _]]]]]].
    eexists. split; [cbn [wstep fst snd]; rewrite E; reflexivity|]. split; [exact HI'|exact Ht].
  - eexists. split; [reflexivity|]. cbn in Hm. cbn [snd fst gnext]. split; [|lia].
    destruct HI as [[N I O] HS]. split; [|exact HS]. constructor; auto.
    intros k v H. cbn [snd]. destruct (O k v H) as [H1|H1]; [left; auto|right; cbn in H1; lia].
Qed.

Lemma cinv_run : forall its c t g,
  CInv (c, t) g -> mono its -> Forall cache_item its ->
  exists g' w', cache_grun its (c, t) g = Ok (g', w') /\ CInv w' g' /\ t <= snd w'.
Proof.
  induction its as [|it its IH]; intros c t g HI Hm Hc.
  - exists g, (c, t). split; [reflexivity|]. split; [exact HI|cbn; lia].
  - apply Forall_cons_iff in Hm. destruct Hm as [Hm1 Hm2].
    apply Forall_cons_iff in Hc. destruct Hc as [Hc1 Hc2].
    destruct (cinv_item it c t g HI Hm1 Hc1) as [x [E [HI' Ht]]].
    destruct x as [r [c' t']]. cbn [snd fst] in *.
    destruct (IH c' t' _ HI' Hm2 Hc2) as [g' [w' [E' [HI'' Ht']]]].
    exists g', w'. unfold cache_grun in *. cbn [grun]. rewrite E. cbn [bind snd]. split; [exact E'|].
    split; [exact HI''|lia].
Qed.

Lemma cinv_init : forall interval t0 ds0,
  CInv (fst (cache_init interval (mkClk t0 ds0)), now (snd (cache_init interval (mkClk t0 ds0)))) lghost0.
Proof.
  intros. unfold cache_init. destruct (tick (mkClk t0 ds0)) as [t k1]. cbn [fst snd].
  split; [|reflexivity]. constructor; cbn; [constructor|intros; discriminate|intros; discriminate].
Qed.

Lemma cache_reach_inv : forall interval t0 ds0 its g w,
  mono its -> Forall cache_item its -> cache_reach interval t0 ds0 its g w -> CInv w g.
Proof.
  intros interval t0 ds0 its g w Hm Hc Hr. unfold cache_reach in Hr.
  destruct (cinv_run its _ _ lghost0 (cinv_init interval t0 ds0) Hm Hc) as [g' [w' [E [HI _]]]].
  rewrite Hr in E. inversion E; subst. exact HI.
Qed.

Lemma cache_total_c : forall interval t0 ds0 its, mono its -> Forall cache_item its ->
  exists rs w, wrun cache_step its
    (fst (cache_init interval (mkClk t0 ds0)), now (snd (cache_init interval (mkClk t0 ds0)))) = Ok (rs, w).
Proof.
  intros interval t0 ds0 its Hm Hc.
  destruct (cinv_run its _ _ lghost0 (cinv_init interval t0 ds0) Hm Hc) as [g' [w' [E _]]].
  destruct (grun_wrun _ _ _ _ _ _ _ E) as [rs Ers]. eauto.
Qed.

Lemma cache_get_c : forall interval t0 ds0 its g w key ds r w',
  mono its -> Forall cache_item its -> cache_reach interval t0 ds0 its g w -> nonneg ds ->
  wstep cache_step (Call (Get key) ds) w = Ok (Some r, w') ->
  r = expected (fst g) key (snd w').
Proof.
  intros interval t0 ds0 its g [c t] key ds r w' Hm Hc Hr Hn E.
  pose proof (cache_reach_inv _ _ _ _ _ _ Hm Hc Hr) as HI.
  destruct (cinv_call (Get key) ds c t g HI Hn Logic.I) as [r' [c' [k' [E' [_ [_ Hx]]]]]].
  cbn [wstep fst snd] in E. rewrite E' in E. inversion E; subst. cbn [snd]. apply (Hx key). reflexivity.
Qed.

Lemma cache_stats_c : forall interval t0 ds0 its g w,
  mono its -> Forall cache_item its -> cache_reach interval t0 ds0 its g w ->
  (c_hits (fst w), c_miss (fst w)) = stats_of (snd g).
Proof.
  intros interval t0 ds0 its g w Hm Hc Hr. apply (cache_reach_inv _ _ _ _ _ _ Hm Hc Hr).
Qed.

Lemma cache_stat_calls : forall c k,
  cache_step Hits c k = Ok (RInt (c_hits c), c, k) /\
  cache_step Misses c k = Ok (RInt (c_miss c), c, k) /\
  cache_step Snapshot c k = Ok (RStats (c_hits c) (c_miss c), c, k).
Proof. intros. repeat split. Qed.

(* the simple cache never drops an unexpired answer either (cleaning removes expired entries only) *)
Lemma cache_live_present_c : forall interval t0 ds0 its g w key v,
  mono its -> Forall cache_item its -> cache_reach interval t0 ds0 its g w ->
  fst g key = Some v -> snd w < a_exp v -> dget (c_data (fst w)) key = Some v.
Proof.
  intros interval t0 ds0 its g w key v Hm Hc Hr Hi Hx.
  destruct (cache_reach_inv _ _ _ _ _ _ Hm Hc Hr) as [HJ _].
  destruct (CJ_out _ _ _ HJ _ _ Hi) as [H|H]; [exact H|lia].
Qed.
