(* Lemmas about the TSIG model (coq/Model/TsigM.v): encodings, the digest input is the
   RFC 8945 input (Proofs/TsigSpec.v), validate's acceptance condition, sign-then-validate. *)
From DV Require Import Base.Prelude.
From DV Require Model.NameM.
From DV Require Proofs.NameOrder.
From DV Require Import Model.TsigM Proofs.TsigSpec.
Open Scope Z_scope.
Ltac Zify.zify_post_hook ::= Z.to_euclidean_division_equations.

Ltac ok_inv E :=
  match type of E with
  | Ok ?a = Ok ?b => let h := fresh in assert (h : a = b) by congruence; clear E; try subst b
  end.

(* ---------- encodings ---------- *)

Lemma be_app : forall m n v, be (n + m) v = be n (v / 256 ^ Z.of_nat m) ++ be m v.
Proof.
  induction m; intros.
  - rewrite Nat.add_0_r. cbn [be]. rewrite app_nil_r. change (256 ^ Z.of_nat 0) with 1. now rewrite Z.div_1_r.
  - rewrite Nat.add_succ_r. cbn [be]. rewrite IHm, <- app_assoc. f_equal.
    rewrite Z.div_div by lia. f_equal. rewrite Nat2Z.inj_succ, Z.pow_succ_r by lia. reflexivity.
Qed.

Lemma be_length : forall n v, length (be n v) = n.
Proof. induction n; intros; cbn [be]; [reflexivity|]. rewrite app_length, IHn. cbn. lia. Qed.

Lemma in_u16_iff : forall v, in_u16 v = true <-> 0 <= v < 65536.
Proof. intros. unfold in_u16. rewrite andb_true_iff, Z.leb_le, Z.ltb_lt. tauto. Qed.

Lemma u16_be : forall v, in_u16 v = true -> u16 v = be 2 v.
Proof.
  intros v Hv. apply in_u16_iff in Hv. unfold u16. cbn [be app]. f_equal. lia.
Qed.

Lemma u32_be0 : u32 0 = be 4 0.
Proof. reflexivity. Qed.

Lemma time_be : forall t,
  u16 ((t / 4294967296) mod 65536) ++ u32 (t mod 4294967296) = be 6 t.
Proof.
  intros. change 6%nat with (2 + 4)%nat. rewrite be_app.
  change (256 ^ Z.of_nat 4) with 4294967296.
  f_equal.
  - unfold u16. cbn [be app]. f_equal; [lia|]. f_equal. lia.
  - unfold u32. cbn [be app]. repeat (f_equal; try lia).
Qed.

(* be is injective on its range *)
Lemma be_inj : forall n a b,
  0 <= a < 256 ^ Z.of_nat n -> 0 <= b < 256 ^ Z.of_nat n -> be n a = be n b -> a = b.
Proof.
  induction n; intros a b Ha Hb E.
  - change (256 ^ Z.of_nat 0) with 1 in *. lia.
  - cbn [be] in E. apply app_inj_tail in E as [E1 E2].
    rewrite Nat2Z.inj_succ, Z.pow_succ_r in Ha, Hb by lia.
    apply IHn in E1; [|lia|lia].
    rewrite (Z.div_mod a 256), (Z.div_mod b 256) by lia. congruence.
Qed.

Lemma zlist_eqb_eq : forall a b, zlist_eqb a b = true <-> a = b.
Proof.
  induction a; destruct b; cbn; split; intros E; try reflexivity; try discriminate.
  - apply andb_true_iff in E as [E1 E2]. apply Z.eqb_eq in E1. apply IHa in E2. congruence.
  - inversion E; subst. rewrite Z.eqb_refl. cbn. now apply IHa.
Qed.

Lemma zlist_eqb_refl : forall a, zlist_eqb a a = true.
Proof. intros. now apply zlist_eqb_eq. Qed.

(* ---------- names ---------- *)

Lemma canonical_name_wire : forall n, canonical_name n = NameM.wire_labels true n.
Proof.
  intros. unfold canonical_name, NameM.wire_labels. rewrite flat_map_concat_map. reflexivity.
Qed.

Lemma to_digestable_ok : forall n b,
  NameM.to_wire n None true = Ok b -> b = canonical_name n /\ NameM.is_absolute n = true.
Proof.
  intros n b E. unfold NameM.to_wire in E. destruct (NameM.is_absolute n); [|discriminate].
  inversion E. now rewrite canonical_name_wire.
Qed.

(* Name.__eq__ is reflexive (C06: order_refl) *)
Lemma name_eqb_refl : forall n, NameM.name_eqb n n = true.
Proof. intros. unfold NameM.name_eqb. rewrite NameOrder.order_refl. reflexivity. Qed.

(* ---------- the digest input is the RFC 8945 input ---------- *)

Definition vars_of (k : key) (rd : tsig) (t : Z) : tsig_variables :=
  {| v_name := kname k; v_alg := kalg k; v_time := t; v_fudge := t_fudge rd;
     v_error := t_error rd; v_other := t_other rd |}.

Definition time_of (rd : tsig) (time : option Z) : Z :=
  match time with Some t => t | None => t_time rd end.

Definition omac (rmac : bytes) : option octets := match rmac with [] => None | _ => Some rmac end.

Lemma get_context_ok : forall k c,
  get_context k = Ok c ->
  assoc_name hashes (kalg k) = Some (c_hash c, c_size c) /\ c_key c = ksecret k /\ c_data c = [].
Proof.
  intros k c E. unfold get_context in E.
  destruct (NameM.name_eqb (kalg k) nGSS_TSIG); [discriminate|].
  destruct (assoc_name hashes (kalg k)) as [[h sz]|]; [|discriminate].
  inversion E. cbn. auto.
Qed.

Lemma pack_u16_ok : forall v b, pack_u16 v = Ok b -> b = be 2 v /\ in_u16 v = true.
Proof.
  intros v b E. unfold pack_u16 in E. destruct (in_u16 v) eqn:I; [|discriminate].
  inversion E. split; [now apply u16_be | reflexivity].
Qed.

Lemma time_encoded_ok : forall t f b,
  time_encoded t f = Ok b -> b = be 6 t ++ be 2 f /\ in_u16 f = true.
Proof.
  intros t f b E. unfold time_encoded in E. destruct (in_u16 f) eqn:I; [|discriminate].
  ok_inv E. split; [|reflexivity].
  rewrite (u16_be f) by assumption.
  change (u16 (t / 4294967296 mod 65536) ++ u32 (t mod 4294967296) ++ be 2 f)
    with (u16 (t / 4294967296 mod 65536) ++ (u32 (t mod 4294967296) ++ be 2 f)).
  rewrite app_assoc. now rewrite time_be.
Qed.

Lemma first_prefix : forall c0 (rmac : bytes) c1,
  (match rmac with
   | [] => Ok c0
   | _ :: _ => do l <- pack_u16 (zlen rmac); Ok (update (update c0 l) rmac)
   end) = Ok c1 ->
  c_data c1 = c_data c0 ++ (match omac rmac with Some m => rfc_request_mac m | None => [] end)
  /\ c_key c1 = c_key c0 /\ c_hash c1 = c_hash c0 /\ c_size c1 = c_size c0.
Proof.
  intros c0 rmac c1 E. destruct rmac as [|r0 rm].
  - ok_inv E. cbn [omac]. rewrite app_nil_r. auto.
  - destruct (pack_u16 (zlen (r0 :: rm))) as [l| |] eqn:PK; cbn [bind] in E; try discriminate.
    apply pack_u16_ok in PK as [-> _]. ok_inv E.
    cbn [update c_data c_key c_hash c_size omac]. unfold rfc_request_mac, olen, zlen.
    rewrite <- app_assoc. auto.
Qed.

(* first form: request (no request MAC) or response / first envelope (request MAC) *)
Lemma digest_first_is_rfc : forall wire k rd time rmac ctx multi c,
  (ctx = None \/ multi = false) ->
  digest wire k rd time rmac ctx multi = Ok c ->
  c_data c = rfc8945_input (omac rmac) (t_oid rd) wire (vars_of k rd (time_of rd time))
  /\ c_key c = ksecret k
  /\ assoc_name hashes (kalg k) = Some (c_hash c, c_size c).
Proof.
  intros wire k rd time rmac ctx multi c Hf E.
  unfold digest in E.
  assert (F : negb (match ctx with Some _ => multi | None => false end) = true)
    by (destruct Hf; subst; [reflexivity | now destruct ctx]).
  rewrite F in E. clear F Hf.
  destruct (get_context k) as [c0| |] eqn:G; cbn [bind] in E; try discriminate.
  apply get_context_ok in G as (Gh & Gk & Gd).
  destruct (match rmac with
            | [] => Ok c0
            | _ :: _ => do l <- pack_u16 (zlen rmac); Ok (update (update c0 l) rmac)
            end) as [c1| |] eqn:E1; cbn [bind] in E; try discriminate.
  apply first_prefix in E1 as (D1 & K1 & H1 & S1). rewrite Gd in D1. cbn [app] in D1.
  destruct (pack_u16 (t_oid rd)) as [oid| |] eqn:PO; cbn [bind] in E; try discriminate.
  apply pack_u16_ok in PO as [-> _].
  destruct (NameM.to_wire (kname k) None true) as [kn| |] eqn:KN; cbn [bind] in E; try discriminate.
  apply to_digestable_ok in KN as [-> _].
  destruct (time_encoded _ _) as [te| |] eqn:TE; cbn [bind] in E; try discriminate.
  apply time_encoded_ok in TE as [-> FU].
  destruct (zlen (t_other rd) >? 65535) eqn:OL; [discriminate|].
  destruct (NameM.to_wire (kalg k) None true) as [an| |] eqn:AN; cbn [bind] in E; try discriminate.
  apply to_digestable_ok in AN as [-> _].
  destruct (in_u16 (t_error rd)) eqn:IE; [|discriminate].
  ok_inv E.
  cbn [update c_data c_key c_hash c_size].
  rewrite D1, K1, Gk, H1, S1. split; [|split; [reflexivity|assumption]].
  unfold rfc8945_input, rfc_dns_message, rfc_tsig_variables, vars_of, time_of, CLASS_ANY.
  cbn [v_name v_alg v_time v_fudge v_error v_other].
  assert (OLb : in_u16 (zlen (t_other rd)) = true).
  { apply in_u16_iff. rewrite Z.gtb_ltb in OL. apply Z.ltb_ge in OL. unfold zlen in *. lia. }
  rewrite !u16_be by (assumption || reflexivity).
  rewrite u32_be0. unfold olen, zlen.
  repeat rewrite <- app_assoc. reflexivity.
Qed.

(* subsequent form: an existing context in a multi-message exchange *)
Lemma digest_subsequent_is_rfc : forall wire k rd time rmac c0 c,
  digest wire k rd time rmac (Some c0) true = Ok c ->
  c_data c = c_data c0 ++ rfc_dns_message (t_oid rd) wire
             ++ rfc_tsig_timers (time_of rd time) (t_fudge rd)
  /\ c_key c = c_key c0 /\ c_hash c = c_hash c0 /\ c_size c = c_size c0.
Proof.
  intros wire k rd time rmac c0 c E. unfold digest in E. cbn [negb bind] in E.
  destruct (pack_u16 (t_oid rd)) as [oid| |] eqn:PO; cbn [bind] in E; try discriminate.
  apply pack_u16_ok in PO as [-> _].
  destruct (time_encoded _ _) as [te| |] eqn:TE; cbn [bind] in E; try discriminate.
  apply time_encoded_ok in TE as [-> FU].
  destruct (zlen (t_other rd) >? 65535); [discriminate|].
  ok_inv E. cbn [update c_data c_key c_hash c_size].
  unfold rfc_dns_message, rfc_tsig_timers, time_of.
  repeat rewrite <- app_assoc. auto.
Qed.

(* the context returned for the next envelope starts with the length-prefixed MAC *)
Lemma maybe_start_digest_ok : forall k mac c,
  maybe_start_digest k mac true = Ok (Some c) ->
  c_data c = rfc_request_mac mac /\ c_key c = ksecret k
  /\ assoc_name hashes (kalg k) = Some (c_hash c, c_size c).
Proof.
  intros k mac c E. unfold maybe_start_digest in E.
  destruct (get_context k) as [c0| |] eqn:G; cbn [bind] in E; try discriminate.
  apply get_context_ok in G as (Gh & Gk & Gd).
  destruct (pack_u16 (zlen mac)) as [l| |] eqn:PK; cbn [bind] in E; try discriminate.
  apply pack_u16_ok in PK as [-> _]. inversion E; subst c.
  cbn [update c_data c_key c_hash c_size]. rewrite Gd. cbn [app]. unfold rfc_request_mac, olen, zlen. auto.
Qed.

Lemma maybe_start_digest_single : forall k mac r,
  maybe_start_digest k mac false = r -> r = Ok None.
Proof. intros. now subst. Qed.

(* ---------- validate ---------- *)

(* the truncation the model applies, in the words of the specification *)
Definition trunc_of (sz : option Z) : option nat :=
  match sz with Some s => Some (Z.to_nat (s / 8)) | None => None end.

Lemma ctx_sign_spec : forall H c,
  ctx_sign H c = rfc_truncate (trunc_of (c_size c)) (H (c_hash c) (c_key c) (c_data c)).
Proof. intros. unfold ctx_sign, rfc_truncate, trunc_of. now destruct (c_size c). Qed.

Section WithH.
  Variable H : hashid -> bytes -> bytes -> bytes.

  Definition pre_ok (wire : bytes) (k : key) (owner : name) (rd : tsig) (now : Z) (adcount : Z) : Prop :=
    get_adcount wire = Ok adcount /\ adcount <> 0 /\ t_error rd = 0
    /\ rfc_time_ok now (t_time rd) (t_fudge rd)
    /\ NameM.name_eqb (kname k) owner = true
    /\ NameM.name_eqb (kalg k) (t_alg rd) = true.

  Lemma validate_pre_iff : forall wire k owner rd now start nw,
    validate_pre wire k owner rd now start = Ok nw <->
    exists adcount, pre_ok wire k owner rd now adcount /\ nw = strip_tsig wire adcount start.
  Proof.
    intros. unfold validate_pre, pre_ok, rfc_time_ok. split.
    - intros E. destruct (get_adcount wire) as [ad| |]; cbn [bind] in E; try discriminate.
      destruct (ad =? 0) eqn:A; [discriminate|].
      destruct (t_error rd =? 0) eqn:B; cbn [negb] in E; [|discriminate].
      destruct (Z.abs (t_time rd - now) >? t_fudge rd) eqn:C; [discriminate|].
      destruct (NameM.name_eqb (kname k) owner) eqn:D; cbn [negb] in E; [|discriminate].
      destruct (NameM.name_eqb (kalg k) (t_alg rd)) eqn:F; cbn [negb] in E; [|discriminate].
      inversion E. exists ad. apply Z.eqb_neq in A. apply Z.eqb_eq in B.
      rewrite Z.gtb_ltb in C. apply Z.ltb_ge in C.
      repeat split; auto. lia.
    - intros (ad & (G & A & B & C & D & F) & ->). rewrite G. cbn [bind].
      apply Z.eqb_neq in A. rewrite A. rewrite B. cbn [Z.eqb negb].
      assert (Cb : Z.abs (t_time rd - now) >? t_fudge rd = false).
      { rewrite Z.gtb_ltb. apply Z.ltb_ge. lia. }
      rewrite Cb, D, F. reflexivity.
  Qed.

  Lemma unimplemented_ok : forall (A : Type) (r : res A) a, unimplemented_is_badalg r = Ok a <-> r = Ok a.
  Proof.
    intros A r a. destruct r as [x|e|e]; cbn; try tauto.
    destruct (e =? eNotImplemented); split; discriminate.
  Qed.

  Lemma ctx_verify_iff : forall c mac, ctx_verify H c mac = Ok tt <-> mac = ctx_sign H c.
  Proof.
    intros. unfold ctx_verify. destruct (zlist_eqb (ctx_sign H c) mac) eqn:E.
    - apply zlist_eqb_eq in E. split; auto.
    - split; [discriminate|]. intros ->. rewrite zlist_eqb_refl in E. discriminate.
  Qed.

  (* validate accepts exactly when the checks pass, the digest can be built, and the MAC in the
     record equals the (possibly truncated) keyed hash of the digested octets *)
  Lemma validate_accepts_iff_lemma : forall wire k owner rd now rmac start ctx multi r,
    validate H wire k owner rd now rmac start ctx multi = Ok r <->
    exists adcount c,
      pre_ok wire k owner rd now adcount
      /\ digest (strip_tsig wire adcount start) k rd None rmac ctx multi = Ok c
      /\ t_mac rd = ctx_sign H c
      /\ maybe_start_digest k (t_mac rd) multi = Ok r.
  Proof.
    intros. unfold validate. split.
    - intros E.
      destruct (validate_pre wire k owner rd now start) as [nw| |] eqn:P; cbn [bind] in E; try discriminate.
      apply validate_pre_iff in P as (ad & P & ->).
      destruct (unimplemented_is_badalg (digest _ k rd None rmac ctx multi)) as [c| |] eqn:D; cbn [bind] in E; try discriminate.
      apply (proj1 (unimplemented_ok _ _ _)) in D.
      destruct (ctx_verify H c (t_mac rd)) as [[]| |] eqn:V; cbn [bind] in E; try discriminate.
      apply ctx_verify_iff in V. apply (proj1 (unimplemented_ok _ _ _)) in E. exists ad, c. auto.
    - intros (ad & c & P & D & M & S).
      assert (P' : validate_pre wire k owner rd now start = Ok (strip_tsig wire ad start))
        by (apply validate_pre_iff; eauto).
      rewrite P'. cbn [bind]. rewrite D. cbn [bind unimplemented_is_badalg].
      apply ctx_verify_iff in M. rewrite M. cbn [bind]. apply unimplemented_ok. exact S.
  Qed.

  (* one-line failure lemmas, in the order of the checks *)
  Lemma peer_error_lemma :
    forall wire k owner rd now rmac start ctx multi adcount,
      get_adcount wire = Ok adcount -> adcount <> 0 ->
      t_error rd <> 0 ->
      validate H wire k owner rd now rmac start ctx multi = Lib (peer_error (t_error rd)).
  Proof.
    intros. unfold validate, validate_pre. rewrite H0. cbn [bind].
    destruct (adcount =? 0) eqn:E; [apply Z.eqb_eq in E; contradiction|].
    destruct (t_error rd =? 0) eqn:E2; [apply Z.eqb_eq in E2; contradiction|].
    reflexivity.
  Qed.

  Lemma bad_time_lemma :
    forall wire k owner rd now rmac start ctx multi adcount,
      get_adcount wire = Ok adcount -> adcount <> 0 -> t_error rd = 0 ->
      ~ rfc_time_ok now (t_time rd) (t_fudge rd) ->
      validate H wire k owner rd now rmac start ctx multi = Lib eBadTime.
  Proof.
    intros until adcount. intros G A B C. unfold validate, validate_pre. rewrite G. cbn [bind].
    apply Z.eqb_neq in A. rewrite A, B. cbn [Z.eqb negb].
    assert (Cb : Z.abs (t_time rd - now) >? t_fudge rd = true).
    { rewrite Z.gtb_ltb. apply Z.ltb_lt. unfold rfc_time_ok in C. lia. }
    now rewrite Cb.
  Qed.

  Lemma bad_key_lemma :
    forall wire k owner rd now rmac start ctx multi adcount,
      get_adcount wire = Ok adcount -> adcount <> 0 -> t_error rd = 0 ->
      rfc_time_ok now (t_time rd) (t_fudge rd) ->
      NameM.name_eqb (kname k) owner = false ->
      validate H wire k owner rd now rmac start ctx multi = Lib eBadKey.
  Proof.
    intros until adcount. intros G A B C D. unfold validate, validate_pre. rewrite G. cbn [bind].
    apply Z.eqb_neq in A. rewrite A, B. cbn [Z.eqb negb].
    assert (Cb : Z.abs (t_time rd - now) >? t_fudge rd = false).
    { rewrite Z.gtb_ltb. apply Z.ltb_ge. unfold rfc_time_ok in C. lia. }
    now rewrite Cb, D.
  Qed.

  Lemma bad_alg_lemma :
    forall wire k owner rd now rmac start ctx multi adcount,
      get_adcount wire = Ok adcount -> adcount <> 0 -> t_error rd = 0 ->
      rfc_time_ok now (t_time rd) (t_fudge rd) ->
      NameM.name_eqb (kname k) owner = true ->
      NameM.name_eqb (kalg k) (t_alg rd) = false ->
      validate H wire k owner rd now rmac start ctx multi = Lib eBadAlgorithm.
  Proof.
    intros until adcount. intros G A B C D F. unfold validate, validate_pre. rewrite G. cbn [bind].
    apply Z.eqb_neq in A. rewrite A, B. cbn [Z.eqb negb].
    assert (Cb : Z.abs (t_time rd - now) >? t_fudge rd = false).
    { rewrite Z.gtb_ltb. apply Z.ltb_ge. unfold rfc_time_ok in C. lia. }
    now rewrite Cb, D, F.
  Qed.

  (* ---------- sign then validate ---------- *)

  (* digest looks at the rdata only through original id, time, fudge, error, other data *)
  Lemma digest_rd_irrelevant : forall wire k rd rd' time time' rmac ctx multi,
    t_oid rd = t_oid rd' -> t_fudge rd = t_fudge rd' -> t_error rd = t_error rd' ->
    t_other rd = t_other rd' -> time_of rd time = time_of rd' time' ->
    digest wire k rd time rmac ctx multi = digest wire k rd' time' rmac ctx multi.
  Proof.
    intros until multi. intros A B C D E. unfold digest.
    unfold time_of in E. rewrite A, B, C, D.
    replace (match time with Some t => t | None => t_time rd end)
       with (match time' with Some t => t | None => t_time rd' end) by (symmetry; exact E).
    reflexivity.
  Qed.

  Lemma mk_tsig_fields : forall a t f m o e ot r,
    mk_tsig a t f m o e ot = Ok r ->
    t_alg r = a /\ t_time r = t /\ t_fudge r = f /\ t_mac r = m /\ t_oid r = o /\ t_error r = e /\ t_other r = ot.
  Proof.
    intros. unfold mk_tsig in H0.
    destruct (negb (in_u48 t)); [discriminate|]. destruct (negb (in_u16 f)); [discriminate|].
    destruct (negb (in_u16 o)); [discriminate|]. destruct (negb _); [discriminate|].
    inversion H0. cbn. repeat split.
  Qed.

  (* every TSIG the library computes validates under the same key: `wire'` is any message that
     contains `wire` up to `start` with ARCOUNT one higher (i.e. wire plus the TSIG RR) *)
  Lemma sign_then_validate_lemma :
    forall wire k rd t rmac ctx multi rd' c' wire' start adcount now,
      sign H wire k rd (Some t) rmac ctx multi = Ok (rd', c') ->
      get_adcount wire' = Ok adcount -> adcount <> 0 ->
      strip_tsig wire' adcount start = wire ->
      t_error rd = 0 ->
      NameM.name_eqb (kalg k) (t_alg rd) = true ->
      rfc_time_ok now t (t_fudge rd) ->
      validate H wire' k (kname k) rd' now rmac start ctx multi = Ok c'.
  Proof.
    intros until now. intros S G A W Er Al Ti.
    unfold sign in S.
    destruct (digest wire k rd (Some t) rmac ctx multi) as [c| |] eqn:D; cbn [bind] in S; try discriminate.
    destruct (mk_tsig _ _ _ _ _ _ _) as [r| |] eqn:M; cbn [bind] in S; try discriminate.
    destruct (maybe_start_digest k (ctx_sign H c) multi) as [cc| |] eqn:MS; cbn [bind] in S; try discriminate.
    inversion S; subst r cc; clear S.
    apply mk_tsig_fields in M as (Fa & Ft & Ff & Fm & Fo & Fe & Fot).
    apply validate_accepts_iff_lemma. exists adcount, c. repeat split; auto.
    - congruence.
    - rewrite Ft, Ff. exact Ti.
    - apply name_eqb_refl.
    - congruence.
    - rewrite W. rewrite <- D. apply digest_rd_irrelevant; try congruence.
      cbn [time_of]. congruence.
    - rewrite Fm. exact MS.
  Qed.
End WithH.

(* ---------- statements in terms of the RFC input ---------- *)

Lemma strip_is_rfc_received : forall wire ad start,
  in_u16 (ad - 1) = true ->
  strip_tsig wire ad start = rfc_received_message wire ad start.
Proof.
  intros. unfold strip_tsig, rfc_received_message, slice. rewrite u16_be by assumption.
  cbn [skipn]. replace (10 - 0)%nat with 10%nat by reflexivity. reflexivity.
Qed.

Lemma get_adcount_range : forall wire ad,
  all_bytes wire = true -> get_adcount wire = Ok ad -> 0 <= ad < 65536.
Proof.
  intros wire ad A G. unfold get_adcount in G.
  destruct (slice wire 10 12) as [|a [|b [|]]] eqn:S; try discriminate.
  ok_inv G.
  assert (In a (slice wire 10 12) /\ In b (slice wire 10 12)) as [Ia Ib] by (rewrite S; cbn; auto).
  unfold slice in Ia, Ib.
  assert (forall (x : Z) n l, In x (firstn n l) -> In x l) as FI.
  { intros x n l. rewrite <- (firstn_skipn n l) at 2. intros. apply in_or_app. now left. }
  apply FI in Ia, Ib.
  assert (forall x n, In x (skipn n wire) -> In x wire) as SK.
  { intros x n. rewrite <- (firstn_skipn n wire) at 2. intros. apply in_or_app. now right. }
  apply SK in Ia, Ib.
  unfold all_bytes in A. rewrite forallb_forall in A.
  pose proof (A _ Ia) as Ba. pose proof (A _ Ib) as Bb.
  unfold is_byte in Ba, Bb. apply andb_true_iff in Ba as [Ba1 Ba2], Bb as [Bb1 Bb2].
  apply Z.leb_le in Ba1, Bb1. apply Z.ltb_lt in Ba2, Bb2. lia.
Qed.

Section WithH2.
  Variable H : hashid -> bytes -> bytes -> bytes.

  (* an accepted first-form TSIG (request, response, first envelope) carries exactly the
     RFC 8945 MAC: the keyed hash of the section 4.3 input, truncated as the algorithm says *)
  Lemma validate_accepts_mac_is_rfc : forall wire k owner rd now rmac start ctx multi r,
    (ctx = None \/ multi = false) ->
    all_bytes wire = true ->
    validate H wire k owner rd now rmac start ctx multi = Ok r ->
    exists adcount h sz,
      pre_ok wire k owner rd now adcount
      /\ assoc_name hashes (kalg k) = Some (h, sz)
      /\ t_mac rd = rfc_truncate (trunc_of sz)
           (H h (ksecret k)
              (rfc8945_input (omac rmac) (t_oid rd) (rfc_received_message wire adcount start)
                 (vars_of k rd (t_time rd)))).
  Proof.
    intros until r. intros F A V.
    apply validate_accepts_iff_lemma in V as (ad & c & P & D & M & S).
    apply digest_first_is_rfc in D as (Dd & Dk & Dh); [|assumption].
    exists ad, (c_hash c), (c_size c). split; [assumption|]. split; [assumption|].
    rewrite M, ctx_sign_spec, Dd, Dk. cbn [time_of].
    rewrite strip_is_rfc_received; [reflexivity|].
    destruct P as (G & NZ & _). pose proof (get_adcount_range _ _ A G). apply in_u16_iff. lia.
  Qed.

  (* and of a subsequent envelope: the running context followed by message and timers *)
  Lemma validate_accepts_mac_subsequent : forall wire k owner rd now rmac start c0 r,
    all_bytes wire = true ->
    validate H wire k owner rd now rmac start (Some c0) true = Ok r ->
    exists adcount,
      pre_ok wire k owner rd now adcount
      /\ t_mac rd = rfc_truncate (trunc_of (c_size c0))
           (H (c_hash c0) (c_key c0)
              (c_data c0 ++ rfc_dns_message (t_oid rd) (rfc_received_message wire adcount start)
                 ++ rfc_tsig_timers (t_time rd) (t_fudge rd)))
      /\ exists c1, r = Some c1 /\ c_data c1 = rfc_request_mac (t_mac rd) /\ c_key c1 = ksecret k
                    /\ assoc_name hashes (kalg k) = Some (c_hash c1, c_size c1).
  Proof.
    intros until r. intros A V.
    apply validate_accepts_iff_lemma in V as (ad & c & P & D & M & S).
    apply digest_subsequent_is_rfc in D as (Dd & Dk & Dh & Ds).
    exists ad. split; [assumption|]. split.
    - rewrite M, ctx_sign_spec, Dd, Dk, Dh, Ds. cbn [time_of].
      rewrite strip_is_rfc_received; [reflexivity|].
      destruct P as (G & NZ & _). pose proof (get_adcount_range _ _ A G). apply in_u16_iff. lia.
    - destruct r as [c1|].
      + exists c1. split; [reflexivity|]. now apply maybe_start_digest_ok.
      + unfold maybe_start_digest in S.
        destruct (get_context k); cbn [bind] in S; try discriminate.
        destruct (pack_u16 _); cbn [bind] in S; discriminate.
  Qed.

  (* the MAC sign computes, first form *)
  Lemma sign_mac_is_rfc : forall wire k rd t rmac ctx multi rd' c',
    (ctx = None \/ multi = false) ->
    sign H wire k rd (Some t) rmac ctx multi = Ok (rd', c') ->
    exists h sz,
      assoc_name hashes (kalg k) = Some (h, sz)
      /\ t_mac rd' = rfc_truncate (trunc_of sz)
           (H h (ksecret k) (rfc8945_input (omac rmac) (t_oid rd) wire (vars_of k rd t)))
      /\ t_time rd' = t /\ t_alg rd' = t_alg rd /\ t_fudge rd' = t_fudge rd
      /\ t_oid rd' = t_oid rd /\ t_error rd' = t_error rd /\ t_other rd' = t_other rd.
  Proof.
    intros until c'. intros F S. unfold sign in S.
    destruct (digest wire k rd (Some t) rmac ctx multi) as [c| |] eqn:D; cbn [bind] in S; try discriminate.
    destruct (mk_tsig _ _ _ _ _ _ _) as [r| |] eqn:M; cbn [bind] in S; try discriminate.
    destruct (maybe_start_digest k (ctx_sign H c) multi) as [cc| |] eqn:MS; cbn [bind] in S; try discriminate.
    assert (r = rd' /\ cc = c') as [-> ->] by (split; congruence). clear S.
    apply mk_tsig_fields in M as (Fa & Ft & Ff & Fm & Fo & Fe & Fot).
    apply digest_first_is_rfc in D as (Dd & Dk & Dh); [|assumption].
    exists (c_hash c), (c_size c). split; [assumption|].
    rewrite Fm, ctx_sign_spec, Dd, Dk. cbn [time_of]. repeat split; auto.
  Qed.

  (* the MAC sign computes for a subsequent envelope, and the context it hands on *)
  Lemma sign_mac_subsequent : forall wire k rd t rmac c0 rd' c',
    sign H wire k rd (Some t) rmac (Some c0) true = Ok (rd', c') ->
    t_mac rd' = rfc_truncate (trunc_of (c_size c0))
        (H (c_hash c0) (c_key c0)
           (c_data c0 ++ rfc_dns_message (t_oid rd) wire ++ rfc_tsig_timers t (t_fudge rd)))
    /\ exists c1, c' = Some c1 /\ c_data c1 = rfc_request_mac (t_mac rd') /\ c_key c1 = ksecret k
                  /\ assoc_name hashes (kalg k) = Some (c_hash c1, c_size c1).
  Proof.
    intros until c'. intros S. unfold sign in S.
    destruct (digest wire k rd (Some t) rmac (Some c0) true) as [c| |] eqn:D; cbn [bind] in S; try discriminate.
    destruct (mk_tsig _ _ _ _ _ _ _) as [r| |] eqn:M; cbn [bind] in S; try discriminate.
    destruct (maybe_start_digest k (ctx_sign H c) true) as [cc| |] eqn:MS; cbn [bind] in S; try discriminate.
    assert (r = rd' /\ cc = c') as [-> ->] by (split; congruence). clear S.
    apply mk_tsig_fields in M as (Fa & Ft & Ff & Fm & Fo & Fe & Fot).
    apply digest_subsequent_is_rfc in D as (Dd & Dk & Dh & Ds).
    split.
    - rewrite Fm, ctx_sign_spec, Dd, Dk, Dh, Ds. reflexivity.
    - destruct c' as [c1|].
      + exists c1. split; [reflexivity|]. rewrite Fm. now apply maybe_start_digest_ok.
      + unfold maybe_start_digest in MS.
        destruct (get_context k); cbn [bind] in MS; try discriminate.
        destruct (pack_u16 _); cbn [bind] in MS; discriminate.
  Qed.
End WithH2.
