(* Lemmas about the TSIG model (coq/Model/TsigM.v). *)
From DV Require Import Base.Prelude.
From DV Require Model.NameM.
From DV Require Import Model.TsigM.
Open Scope Z_scope.

Section WithH.
  Variable H : hashid -> bytes -> bytes -> bytes.

  (* a TSIG that reports an error is never accepted: validate raises the matching Peer* exception
     before looking at time, key or MAC *)
  Lemma peer_error_lemma :
    forall wire k owner rd now rmac start ctx multi adcount,
      get_adcount wire = Ok adcount -> adcount <> 0 ->
      t_error rd <> 0 ->
      validate H wire k owner rd now rmac start ctx multi = Lib (peer_error (t_error rd)).
  Proof.
    intros. unfold validate, validate_pre. rewrite H0. cbn [bind].
    destruct (adcount =? 0) eqn:E; [apply Z.eqb_eq in E; contradiction|].
    destruct (t_error rd =? 0) eqn:E2; [apply Z.eqb_eq in E2; contradiction|].
    reflexivity.
  Qed.
End WithH.
