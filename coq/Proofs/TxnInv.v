(* C10: further invariants - no Python-level exception escapes from the partial operations of the model
   (`del self.nodes[name]`, the assertion in _add), update_serial at the level of the public call. *)
From DV Require Import Base.Prelude Model.NameM Model.TxnM.
From DV Require Import Proofs.NameValid Proofs.NameOrder Proofs.NameRel.
From DV Require Import Proofs.TxnName Proofs.TxnStore Proofs.TxnLow Proofs.TxnSim Proofs.TxnThm Proofs.TxnIrrel Proofs.TxnSpec Proofs.TxnAbs.
Open Scope Z_scope.

Definition not_internal {A} (r : res A) : Prop := forall e, r <> Internal e.

Lemma ni_ok {A} (a : A) : not_internal (Ok a).
Proof. intros e H; discriminate. Qed.
Lemma ni_lib {A} e : not_internal (@Lib A e).
Proof. intros e' H; discriminate. Qed.
Lemma ni_bind {A B} (x : res A) (f : A -> res B) :
  not_internal x -> (forall a, x = Ok a -> not_internal (f a)) -> not_internal (bind x f).
Proof. intros Hx Hf. destruct x; cbn; [apply Hf; reflexivity|apply ni_lib|exfalso; eapply Hx; reflexivity]. Qed.

#[local] Hint Resolve ni_ok ni_lib : ni.

Lemma to_rdataset_ni r : not_internal (to_rdataset r).
Proof. unfold to_rdataset. destruct (r_items r); auto with ni. Qed.

Lemma rdataset_from_args_ni d args : not_internal (rdataset_from_args d args).
Proof.
  unfold rdataset_from_args. destruct args as [|a rest]; [destruct d; auto with ni|].
  assert (forall x : res (Z * arg * list arg), not_internal x ->
            not_internal (do x0 <- x; let '(ttl, a1, rest1) := x0 in
                          match a1 with
                          | ARdata ty body aux cls => Ok (Some (from_rdata ttl ty body aux cls), rest1)
                          | _ => Lib eTypeError
                          end)) as K.
  { intros x Hx. apply ni_bind; [exact Hx|]. intros [[t a1] r1] _. destruct a1; auto with ni. }
  destruct a; try (apply K; destruct d; auto with ni).
  - auto with ni.
  - apply ni_bind; [apply to_rdataset_ni|auto with ni].
  - destruct (z >? MAX_TTL); auto with ni. destruct rest; auto with ni.
Qed.

(* with deleting=False a successful parse always yields an rdataset: the `assert rdataset is not None` *)
Lemma rdataset_from_args_false_some args o rest : rdataset_from_args false args = Ok (o, rest) -> o <> None.
Proof.
  unfold rdataset_from_args. destruct args as [|a r]; [discriminate|].
  assert (forall x : res (Z * arg * list arg),
            (do x0 <- x; let '(ttl, a1, rest1) := x0 in
             match a1 with
             | ARdata ty body aux cls => Ok (Some (from_rdata ttl ty body aux cls), rest1)
             | _ => Lib eTypeError
             end) = Ok (o, rest) -> o <> None) as K.
  { intros x. destruct x as [[[t a1] r1]| |]; cbn [bind]; try discriminate.
    destruct a1; try discriminate. intros H; inversion H; discriminate. }
  destruct a; try apply K.
  - intros H; inversion H; discriminate.
  - destruct (to_rdataset r0); cbn [bind]; intros H; inversion H; discriminate.
Qed.

Lemma add_parse_ni a rest : not_internal (add_parse a rest).
Proof.
  unfold add_parse. destruct a; auto with ni.
  - destruct (rdataset_from_args false rest) as [[o r1]| |] eqn:E; cbn [bind fst snd]; auto with ni.
    + apply rdataset_from_args_false_some in E. destruct o; [auto with ni|contradiction].
    + exfalso. eapply rdataset_from_args_ni; eauto.
  - destruct (rdataset_from_args false rest) as [[o r1]| |] eqn:E; cbn [bind fst snd]; auto with ni.
    + apply rdataset_from_args_false_some in E. destruct o; [auto with ni|contradiction].
    + exfalso. eapply rdataset_from_args_ni; eauto.
  - apply ni_bind; [apply to_rdataset_ni|auto with ni].
Qed.

Lemma make_type_ni a : not_internal (make_type a).
Proof. destruct a; cbn; auto with ni. destruct (_ || _); auto with ni. Qed.

Section NoInternal.
  Context {P S : Type}.
  Variable st : store P S.
  Variable c : cfg.
  Hypothesis N_get : forall s n ty cov, not_internal (s_get st s n ty cov).
  Hypothesis N_put : forall s n r, not_internal (s_put st s n r).
  Hypothesis N_del_name : forall s n, not_internal (s_del_name st s n).
  Hypothesis N_del_rds : forall s n ty cov, not_internal (s_del_rds st s n ty cov).
  Hypothesis N_exists : forall s n, not_internal (s_exists st s n).
  Hypothesis N_node : forall s n, not_internal (s_node st s n).

  Lemma hl_add_ni rep args s : not_internal (hl_add st c rep args s).
  Proof.
    unfold hl_add. destruct args as [|a rest]; auto with ni.
    apply ni_bind; [apply add_parse_ni|]. intros [[n r] rest1] _.
    destruct (negb _); auto with ni. destruct (_ && _); auto with ni. destruct rest1; auto with ni.
    apply ni_bind; [|intros; apply N_put].
    destruct rep; auto with ni. apply ni_bind; [apply N_get|auto with ni].
  Qed.

  Lemma hl_delete_common_ni exact n ord rest s : not_internal (hl_delete_common st exact n ord rest s).
  Proof.
    unfold hl_delete_common. destruct rest; auto with ni.
    assert (not_internal (if exact then do ex <- s_exists st s n; if negb ex then Lib eDeleteNotExact else s_del_name st s n
                          else s_del_name st s n)) as K.
    { destruct exact; [|apply N_del_name]. apply ni_bind; [apply N_exists|]. intros b _. destruct (negb b); auto with ni. }
    destruct ord as [[cls ty cov ttl items]|]; [|exact K]. destruct items; [exact K|].
    destruct (negb _); auto with ni. apply ni_bind; [apply N_get|]. intros ex _.
    destruct ex; [|destruct exact; auto with ni]. destruct (exact && _); auto with ni.
    destruct (r_items _); auto.
  Qed.

  Lemma hl_delete_ni exact args s : not_internal (hl_delete st exact args s).
  Proof.
    unfold hl_delete. destruct args as [|a rest]; auto with ni.
    assert (forall n, not_internal (do y <- rdataset_from_args true rest; hl_delete_common st exact n (fst y) (snd y) s)) as Kc.
    { intros n. apply ni_bind; [apply rdataset_from_args_ni|]. intros; apply hl_delete_common_ni. }
    assert (forall n t rest1, not_internal (hl_delete_bytype st exact n t rest1 s)) as Kt.
    { intros n t rest1. unfold hl_delete_bytype. apply ni_bind; [apply make_type_ni|]. intros ty _.
      apply ni_bind.
      - destruct rest1; auto with ni. apply ni_bind; [apply make_type_ni|auto with ni].
      - intros [cov rest2] _. destruct rest2; auto with ni. apply ni_bind; [apply N_get|].
        intros ex _. destruct ex; [apply N_del_rds|destruct exact; auto with ni]. }
    destruct a; auto with ni.
    - destruct rest as [|t rest1]; [apply Kc|]. destruct (is_type_arg t); [apply Kt|apply Kc].
    - destruct rest as [|t rest1]; [apply Kc|]. destruct (is_type_arg t); [apply Kt|apply Kc].
    - apply hl_delete_common_ni.
  Qed.

  Lemma hl_write_ni f t : (forall s, not_internal (f s)) -> not_internal (hl_write (S:=S) f t).
  Proof.
    intros H. unfold hl_write. destruct (t_ended t); auto with ni. destruct (t_ro t); auto with ni.
    apply ni_bind; [apply H|auto with ni].
  Qed.

  (* calls whose name argument is a Name or a str (anything else is an AttributeError of the caller) *)
  Definition is_name_arg (a : arg) : bool := match a with AName _ | AStr _ => true | _ => false end.
  Definition op_named (o : op) : Prop :=
    match o with
    | OSerial _ _ (Some a) | OGet a _ _ | OExists a | OGetNode a => is_name_arg a = true
    | _ => True
    end.

  Lemma name_of_arg_ni a : is_name_arg a = true -> not_internal (name_of_arg a).
  Proof. destruct a; cbn; intros H; try discriminate; auto with ni. Qed.

  Theorem step_never_internal o z t : op_named o -> not_internal (step st c o z t).
  Proof.
    intros Hn. destruct o; cbn [step op_named] in *.
    1-4: apply ni_bind; [apply hl_write_ni; intros; (apply hl_add_ni || apply hl_delete_ni)|auto with ni].
    - apply ni_bind; [|auto with ni]. unfold hl_update_serial.
      destruct (t_ended t); auto with ni. destruct (value <? 0); auto with ni.
      apply ni_bind; [destruct n; [apply name_of_arg_ni; exact Hn|auto with ni]|]. intros n0 _.
      apply ni_bind; [apply N_get|]. intros ex _. destruct ex as [e0|]; auto with ni.
      destruct (r_items e0) as [|[body serial] ?]; auto with ni.
      apply ni_bind.
      + destruct relative; auto with ni. unfold serial_add. destruct (_ >? _); auto with ni.
      + intros ser _. apply hl_write_ni. intros; apply hl_add_ni.
    - destruct (t_ended t); auto with ni. apply ni_bind; [apply name_of_arg_ni; exact Hn|]. intros n0 _.
      apply ni_bind; [apply make_type_ni|]. intros ty' _. apply ni_bind; [apply make_type_ni|]. intros cov' _.
      apply ni_bind; [apply N_get|auto with ni].
    - destruct (t_ended t); auto with ni. apply ni_bind; [apply name_of_arg_ni; exact Hn|]. intros n0 _.
      apply ni_bind; [apply N_exists|auto with ni].
    - destruct (t_ended t); auto with ni.
    - destruct (t_ended t); auto with ni. destruct (s_count st (t_st t)). auto with ni.
    - destruct (t_ended t); auto with ni. apply ni_bind; [apply name_of_arg_ni; exact Hn|]. intros n0 _.
      apply ni_bind; [apply N_node|auto with ni].
    - apply ni_bind; [|auto with ni]. unfold hl_end. destruct (t_ended t); auto with ni.
    - apply ni_bind; [|auto with ni]. unfold hl_end. destruct (t_ended t); auto with ni.
  Qed.

  Lemma run_manual_ni ops : forall z t, Forall op_named ops -> Forall not_internal (fst (run_manual st c ops z t)).
  Proof.
    induction ops as [|o ops IH]; intros z t F; cbn [run_manual]; [constructor|].
    inversion F as [|? ? Fo Fr]; subst. pose proof (step_never_internal o z t Fo) as Hs.
    destruct (step st c o z t) as [[[x z'] t']|e|e].
    - specialize (IH z' t' Fr). destruct (run_manual st c ops z' t'). cbn in *. constructor; auto with ni.
    - specialize (IH z t Fr). destruct (run_manual st c ops z t). cbn in *. constructor; auto with ni.
    - exfalso. eapply Hs; reflexivity.
  Qed.

  Lemma run_with_ni ops : forall fault z t, Forall op_named ops -> Forall not_internal (fst (run_with st c ops fault z t)).
  Proof.
    induction ops as [|o ops IH]; intros fault z t F.
    - destruct fault as [[|k]|]; cbn; repeat constructor; auto with ni.
    - inversion F as [|? ? Fo Fr]; subst. pose proof (step_never_internal o z t Fo) as Hs.
      destruct fault as [[|k]|]; cbn [run_with]; [cbn; repeat constructor; auto with ni| |].
      + destruct (step st c o z t) as [[[x z'] t']|e|e].
        * specialize (IH (Some k) z' t' Fr). destruct (run_with st c ops (Some k) z' t'). cbn in *. constructor; auto with ni.
        * cbn. repeat constructor; auto with ni.
        * exfalso. eapply Hs; reflexivity.
      + destruct (step st c o z t) as [[[x z'] t']|e|e].
        * specialize (IH None z' t' Fr). destruct (run_with st c ops None z' t'). cbn in *. constructor; auto with ni.
        * cbn. repeat constructor; auto with ni.
        * exfalso. eapply Hs; reflexivity.
  Qed.

  Definition spec_named (x : txnspec) : Prop := Forall op_named (x_ops x).

  Theorem run_hist_ni h : forall z, Forall spec_named h ->
    Forall (fun x => Forall not_internal (fst x)) (run_hist st c h z).
  Proof.
    induction h as [|x h IH]; intros z F; cbn [run_hist]; [constructor|].
    inversion F as [|? ? Fx Fh]; subst.
    destruct (run_txn st c x z) as [outs z'] eqn:E. constructor; [|apply IH; exact Fh].
    unfold run_txn in E. cbn. destruct (x_style x =? 1).
    - pose proof (run_with_ni (x_ops x) (x_fault x) z (open_txn st (x_mode x) z) Fx) as K. rewrite E in K. exact K.
    - pose proof (run_manual_ni (x_ops x) z (open_txn st (x_mode x) z) Fx) as K. rewrite E in K. exact K.
  Qed.
End NoInternal.

(* the reference store never raises a Python-level exception ... *)
Lemma rstore_ni c :
  (forall s n ty cov, not_internal (s_get (rstore c) s n ty cov)) /\
  (forall s n r, not_internal (s_put (rstore c) s n r)) /\
  (forall s n, not_internal (s_del_name (rstore c) s n)) /\
  (forall s n ty cov, not_internal (s_del_rds (rstore c) s n ty cov)) /\
  (forall s n, not_internal (s_exists (rstore c) s n)) /\
  (forall s n, not_internal (s_node (rstore c) s n)).
Proof.
  repeat split; intros; cbn [s_get s_put s_del_name s_del_rds s_exists s_node rstore];
    unfold r_get, r_put, r_del_name, r_del_rds, r_exists, r_node;
    (apply ni_bind; [intros e; apply canon_never_internal|intros; try destruct (existsb _ _); auto with ni]).
Qed.

(* ... hence neither does the zone model: in particular `del self.nodes[name]` in delete_rdataset never
   fails (the KeyError of the defect fixed by 2d6b3bb cannot come back without breaking this theorem),
   and the assertion in _add never fires *)
Theorem impl_never_internal c h z l :
  wfc c -> Forall spec_valid h -> Forall spec_named h -> RP c z l ->
  Forall (fun x => Forall not_internal (fst x)) (impl_hist c h z).
Proof.
  intros W V Nm HP.
  pose proof (refines_hist c h z l W V HP) as Rf.
  destruct (rstore_ni c) as (N1 & N2 & N3 & N4 & N5 & N6).
  pose proof (run_hist_ni (rstore c) c N1 N2 N3 N4 N5 N6 h l Nm) as Ns. fold (spec_hist c h l) in Ns.
  revert Ns. induction Rf as [|x y hx hy [Hxy _] Rf IH]; intros Ns; [constructor|].
  inversion Ns; subst. constructor; [rewrite Hxy; assumption|apply IH; assumption].
Qed.

(* ---------------------------------------------------------------- update_serial as a public call *)
(* On the reference store: when the zone has an SOA at its origin, update_serial(value) (relative, default
   name) succeeds for 0 <= value <= 2^31-1 and afterwards the SOA holds the RFC 1982 sum (1 instead of 0),
   with the TTL and the other fields unchanged. *)
Theorem update_serial_effect c s body serial items ttl value :
  wfc c -> swf (rs_entries s) ->
  r_get c s NameM.empty tSOA 0 = Ok (Some (mkRds cIN tSOA 0 ttl ((body, serial) :: items))) ->
  0 <= value <= 2147483647 ->
  exists s',
    hl_update_serial (rstore c) c value true None (mkTxn s false false) = Ok (mkTxn s' false false) /\
    r_get c s' NameM.empty tSOA 0 =
      Ok (Some (mkRds cIN tSOA 0 ttl [(body, bump ((serial mod 4294967296 + value) mod 4294967296))])).
Proof.
  intros W Hwf G Hv. unfold NameM.empty in *. unfold hl_update_serial. unfold NameM.empty. cbn [t_ended t_st t_ro].
  destruct (value <? 0) eqn:E0; [lia|]. cbn [bind]. cbn [s_get rstore]. rewrite G. cbn [bind r_items].
  unfold serial_add. rewrite Z.abs_eq by lia. destruct (value >? 2147483647) eqn:E1; [lia|]. cbn [bind r_ttl].
  unfold hl_write. cbn [t_ended t_ro t_st].
  set (new := mkRds cIN tSOA 0 ttl [(body, if (serial mod 4294967296 + value) mod 4294967296 =? 0 then 1
                                           else (serial mod 4294967296 + value) mod 4294967296)]).
  unfold hl_add, add_parse. cbn [rdataset_from_args bind fst snd].
  change (r_cls new =? cIN) with true. change (r_ty new =? tSOA) with true. cbn [negb andb].
  assert (origin_ok c [] = true) as Oo.
  { unfold origin_ok, NameM.empty. rewrite (name_eqb_refl []). destruct (name_eqb [] _), (name_eqb [] _); reflexivity. }
  rewrite Oo. cbn [negb bind s_put rstore].
  destruct W as [Vo Ao].
  assert (canon c [] = Ok (c_origin c)) as Ca.
  { unfold canon. cbn [is_absolute app]. rewrite (mk_name_valid _ Vo). reflexivity. }
  destruct (r_put c s [] new) as [s'|e|e] eqn:Rp.
  2,3: unfold r_put in Rp; rewrite Ca in Rp; discriminate.
  cbn [bind with_st t_ro t_ended]. exists s'. split; [reflexivity|].
  rewrite (r_get_put c s [] new s' [] (c_origin c) (c_origin c) tSOA 0 Hwf eq_refl Ca Ca Rp).
  rewrite name_eqb_refl. reflexivity.
Qed.

(* ---------------------------------------------------------------- update_serial: the full table *)
Section SerialTable.
  Variable c : cfg.
  Hypothesis W : wfc c.

  Lemma canon_empty : canon c [] = Ok (c_origin c).
  Proof. destruct W as [Vo _]. unfold canon. cbn [is_absolute app]. rewrite (mk_name_valid _ Vo). reflexivity. Qed.

  Lemma origin_ok_empty : origin_ok c [] = true.
  Proof. unfold origin_ok, NameM.empty. rewrite (name_eqb_refl []). destruct (name_eqb [] _), (name_eqb [] _); reflexivity. Qed.

  (* storing the new SOA at the origin *)
  Lemma replace_soa s ttl body ser :
    swf (rs_entries s) ->
    exists s', hl_add (rstore c) c true [AName []; ARds (mkRds cIN tSOA 0 ttl [(body, ser)])] s = Ok s' /\
               r_get c s' [] tSOA 0 = Ok (Some (mkRds cIN tSOA 0 ttl [(body, ser)])).
  Proof.
    intros Hwf. unfold hl_add, add_parse. cbn [rdataset_from_args bind fst snd r_cls r_ty].
    change (cIN =? cIN) with true. change (tSOA =? tSOA) with true. cbn [negb andb]. rewrite origin_ok_empty.
    cbn [negb bind s_put rstore].
    destruct (r_put c s [] (mkRds cIN tSOA 0 ttl [(body, ser)])) as [s'|e|e] eqn:Rp.
    2,3: unfold r_put in Rp; rewrite canon_empty in Rp; discriminate.
    exists s'. split; [reflexivity|].
    rewrite (r_get_put c s [] (mkRds cIN tSOA 0 ttl [(body, ser)]) s' [] (c_origin c) (c_origin c) tSOA 0 Hwf eq_refl canon_empty canon_empty Rp).
    rewrite name_eqb_refl. reflexivity.
  Qed.

  (* Given a writable, open transaction whose zone has an SOA (body, serial) at the origin, update_serial
     (default name) behaves as follows for EVERY value and both modes. *)
  Theorem update_serial_table s body serial items ttl value relative :
    swf (rs_entries s) ->
    r_get c s [] tSOA 0 = Ok (Some (mkRds cIN tSOA 0 ttl ((body, serial) :: items))) ->
    let t := mkTxn s false false in
    let result := hl_update_serial (rstore c) c value relative None t in
    if value <? 0 then result = Lib eValueError
    else if relative && (value >? 2147483647) then result = Lib eValueError
    else
      let sum := if relative then (serial mod 4294967296 + value) mod 4294967296 else value mod 4294967296 in
      exists s', result = Ok (mkTxn s' false false) /\
                 r_get c s' [] tSOA 0 = Ok (Some (mkRds cIN tSOA 0 ttl [(body, bump sum)])).
  Proof.
    intros Hwf G t result. subst t result. unfold hl_update_serial. cbn [t_ended t_st t_ro]. unfold NameM.empty.
    destruct (value <? 0) eqn:E0; [reflexivity|]. cbn [bind s_get rstore]. rewrite G. cbn [bind r_items r_ttl].
    assert (0 <= value) as Hv by lia.
    destruct relative; cbn [andb].
    - unfold serial_add. rewrite Z.abs_eq by lia. destruct (value >? 2147483647); [reflexivity|]. cbn [bind].
      unfold hl_write. cbn [t_ended t_ro t_st].
      destruct (replace_soa s ttl body (if (serial mod 4294967296 + value) mod 4294967296 =? 0 then 1
                                        else (serial mod 4294967296 + value) mod 4294967296) Hwf) as (s' & H1 & H2).
      rewrite H1. cbn [bind with_st t_ro t_ended]. exists s'. split; [reflexivity|exact H2].
    - cbn [bind]. unfold hl_write. cbn [t_ended t_ro t_st].
      destruct (replace_soa s ttl body (if value mod 4294967296 =? 0 then 1 else value mod 4294967296) Hwf) as (s' & H1 & H2).
      rewrite H1. cbn [bind with_st t_ro t_ended]. exists s'. split; [reflexivity|exact H2].
  Qed.

  (* no SOA at the origin: KeyError; read-only transaction: ReadOnly (after the argument checks); ended:
     AlreadyEnded - for any store *)
  Theorem update_serial_no_soa s value relative :
    0 <= value -> r_get c s [] tSOA 0 = Ok None ->
    hl_update_serial (rstore c) c value relative None (mkTxn s false false) = Lib eKeyError.
  Proof.
    intros Hv G. unfold hl_update_serial. cbn [t_ended t_st]. unfold NameM.empty.
    destruct (value <? 0) eqn:E0; [lia|]. cbn [bind s_get rstore]. rewrite G. reflexivity.
  Qed.
End SerialTable.

(* ---------------------------------------------------------------- changed() is truthful *)
(* As long as changed() is False the private node map of the version is, literally, the map it started
   from: no call that reports success has altered anything without being recorded. *)
Section Changed.
  Variable c : cfg.

  Definition untouched (m0 : nmap) (v : version) : Prop := v_changed v = [] -> v_nodes v = m0.

  Lemma cow_changed v n v1 nd k : maybe_cow c v n = Ok (v1, nd, k) -> v_changed v1 <> [].
  Proof.
    unfold maybe_cow. destruct (validate_name c n) as [k0| |]; cbn [bind]; try discriminate.
    destruct (map_get (v_nodes v) k0).
    - destruct (changed_has (v_changed v) k0) eqn:Ch; intros H; inversion H; subst.
      + intros E. rewrite E in Ch. discriminate.
      + cbn. unfold changed_add. rewrite Ch. destruct (v_changed v); discriminate.
    - intros H; inversion H; subst. cbn. unfold changed_add.
      destruct (changed_has (v_changed v) k) eqn:Ch; [intros E; rewrite E in Ch; discriminate|destruct (v_changed v); discriminate].
  Qed.

  Lemma put_untouched m0 v n r v' : put_rdataset c v n r = Ok v' -> untouched m0 v'.
  Proof.
    unfold put_rdataset. destruct (maybe_cow c v n) as [[[v1 nd] k]| |] eqn:Cw; cbn [bind]; try discriminate.
    intros H; inversion H; subst. intros E. cbn in E. exfalso. eapply cow_changed; eauto.
  Qed.

  Lemma del_rds_untouched m0 v n ty cov v' : delete_rdataset c v n ty cov = Ok v' -> untouched m0 v'.
  Proof.
    unfold delete_rdataset. destruct (maybe_cow c v n) as [[[v1 nd] k]| |] eqn:Cw; cbn [bind]; try discriminate.
    destruct (node_delete nd cIN ty cov).
    - destruct (map_del (v_nodes v1) k); cbn [bind]; try discriminate.
      intros H; inversion H; subst. intros E. cbn in E. exfalso. eapply cow_changed; eauto.
    - intros H; inversion H; subst. intros E. cbn in E. exfalso. eapply cow_changed; eauto.
  Qed.

  Lemma del_name_untouched m0 v n v' : untouched m0 v -> delete_node c v n = Ok v' -> untouched m0 v'.
  Proof.
    intros U. unfold delete_node. destruct (validate_name c n) as [k| |]; cbn [bind]; try discriminate.
    destruct (map_has (v_nodes v) k); intros H; inversion H; subst; [|exact U].
    intros E. cbn in E. exfalso. unfold changed_add in E.
    destruct (changed_has (v_changed v) k) eqn:Ch; [rewrite E in Ch; discriminate|destruct (v_changed v); discriminate].
  Qed.

  Theorem changed_is_truthful mode z ops t' :
    Forall op_valid ops ->
    final_txn (zstore c) c ops z (open_txn (zstore c) mode z) = Some t' ->
    s_changed (zstore c) (t_st t') = false ->
    v_nodes (t_st t') = v_nodes (t_st (open_txn (zstore c) mode z)).
  Proof.
    intros F Hf Hc.
    set (m0 := v_nodes (t_st (open_txn (zstore c) mode z))).
    assert (untouched m0 (t_st t')) as U.
    { assert (untouched m0 (t_st (open_txn (zstore c) mode z))) as U0 by (intros _; reflexivity).
      revert U0 Hf. generalize (open_txn (zstore c) mode z) as t. generalize z as zz.
      induction F as [|o ops Fo Fr IH]; intros zz t U0; cbn [final_txn].
      - intros H; inversion H; subst. exact U0.
      - destruct (step (zstore c) c o zz t) as [[[x z1] t1]| |] eqn:Es; try discriminate.
        intros Hf. apply (IH z1 t1); [|exact Hf].
        destruct (step_inv (zstore c) c (untouched m0) (fun _ => True)) with (o := o) (z := zz) (t := t) (x := x) (z' := z1) (t' := t1) as [_ H]; auto.
        + intros s n ty cov r. apply get_cls.
        + intros s n r s' _ _ _. apply put_untouched.
        + intros s n s' Hs _. apply del_name_untouched; exact Hs.
        + intros s n ty cov s' _ _. apply del_rds_untouched. }
    apply U. cbn [s_changed zstore] in Hc. destruct (v_changed (t_st t')); [reflexivity|discriminate].
  Qed.
End Changed.
