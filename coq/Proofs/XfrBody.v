(* C13 - AXFR: the result is exactly what was received; first record not the zone's SOA. *)
From DV Require Import Base.Prelude Model.XfrM Proofs.XfrSets Proofs.XfrSpec Proofs.XfrZone Proofs.XfrDiff
  Proofs.XfrSafety Proofs.XfrBasic Proofs.XfrRun Proofs.XfrIxfr Proofs.XfrAxfr Proofs.XfrPerm Proofs.XfrOrder
  Proofs.XfrFault Proofs.XfrGlue.

(* Whatever the body is (records of the zone, dropped / altered / repeated records, glue): a response
   SOA, B, SOA is applied as the set union of the in-zone records of B; any division into messages,
   including the parser's merging of records into RRsets. *)
Theorem axfr_body_applied : forall fin B z0 ser ws,
  ttl_ok (v_ttl fin) -> Forall okrec B ->
  chunking tAXFR (soa_rr fin :: B ++ [soa_rr fin]) ws ->
  exists z' n, inbound_xfr z0 tAXFR ser false ws = (Done z', n)
               /\ zeq z' (zput soakey (v_ttl fin, [v_soa fin]) (adds [] (erase B))).
Proof.
  intros fin B z0 ser ws Httl HB Hch.
  apply chunking_first in Hch. destruct Hch as (w & ws' & a & -> & Hr & Hw & Hws & Hcat).
  unfold inbound_xfr, xfr_run. rewrite init_axfr. cbn [Z.eqb tAXFR tIXFR Pos.eqb]. rewrite drive_cons by solve_req.
  rewrite (first_message_axfr z0 ser w (soa_rr fin) a Hw Hr) by (split; reflexivity).
  destruct (cont_full_glue ws' false (map single) a tAXFR z0 [] (match ser with Some sv => sv | None => 0 end) fin
              B parse_single_ok_glue parse_group_ok_glue Httl Hws HB zsorted_nil quiet_nil Hcat)
    as [z' [n [Hn Hz']]].
  exists z', n. split; [exact Hn|exact Hz'].
Qed.

(* the same for the AXFR-style answer to an IXFR request (non-empty body) *)
Theorem axfr_style_body_applied : forall fin r c z0 ser ws,
  ttl_ok (v_ttl fin) -> okrec r -> Forall okrec c ->
  v_serial fin <> ser -> serial_lt (v_serial fin) ser = false ->
  chunking tIXFR (soa_rr fin :: (r :: c) ++ [soa_rr fin]) ws ->
  exists z' n, inbound_xfr z0 tIXFR (Some ser) false ws = (Done z', n)
               /\ zeq z' (zput soakey (v_ttl fin, [v_soa fin]) (adds [] (erase (r :: c)))).
Proof.
  intros fin r c z0 ser ws Httl Hr Hc Hs Hlt Hch.
  apply chunking_first in Hch. destruct Hch as (w & ws' & a & -> & Hrec & Hw & Hws & Hcat).
  unfold inbound_xfr, xfr_run. rewrite init_ixfr. cbn [Z.eqb tIXFR Pos.eqb]. rewrite drive_cons by solve_req.
  rewrite (first_message_ixfr z0 ser false w (soa_rr fin) a Hw Hrec) by (split; reflexivity).
  cbv zeta. change (r_data (soa_rr fin) mod two32) with (v_serial fin).
  apply Z.eqb_neq in Hs. rewrite Hs, Hlt. cbn [andb]. rewrite after_tcp by reflexivity.
  cbn [app] in Hcat.
  destruct (cont_fallback_glue ws' a z0 z0 ser fin r c Httl Hws Hr Hc Hcat) as [z' [n [Hn Hz']]].
  exists z', n. split; [exact Hn|exact Hz'].
Qed.

(* the first record of the first message is not the zone's SOA (e.g. the first SOA was dropped) *)
Theorem first_record_not_soa_rejected : forall z rdt ser udp w ws r0 rest,
  header_ok rdt w -> w_records w = r0 :: rest -> (rdt = tAXFR /\ udp = false \/ rdt = tIXFR /\ ser <> None) ->
  (r_name r0 <> origin \/ r_type r0 <> tSOA) ->
  exists e, (e = eNoAnswer \/ e = eFirstNotSOA) /\
            inbound_xfr z rdt ser udp (w :: ws) = (Error e z, 0%nat).
Proof.
  intros z rdt ser udp w ws r0 rest Hh Hr Hrdt Hbad.
  assert (INIT : exists s, init_t false z rdt ser udp = inl s /\ pub s = z /\ soa s = None /\ req_tsig s = false
                           /\ rdtype s = rdt).
  { unfold init_t. destruct Hrdt as [[-> ->]|[-> Hser]].
    - cbn. eexists. repeat split.
    - destruct ser as [sv|]; [|congruence]. cbn. eexists. repeat split. }
  destruct INIT as (s & Hi & Hp & Hsoa & Hrq & Hrd).
  unfold inbound_xfr, xfr_run. rewrite Hi. rewrite drive_cons by exact Hrq.
  unfold process_message, from_wire. cbn [m_rcode m_question m_answer m_tsig].
  destruct Hh as [Hrc Hq]. rewrite Hrc. cbn [Z.eqb negb].
  set (sx := match txn s with None => set_txn s (Some (if incremental s then pub s else [])) | Some _ => s end).
  assert (Hx : pub sx = z /\ soa sx = None /\ rdtype sx = rdt) by (subst sx; destruct (txn s); cbn; auto).
  destruct Hx as (Hpx & Hsx & Hrx). rewrite Hrx.
  rewrite (header_ok_question rdt w (conj Hrc Hq)). rewrite Hsx.
  (* the first RRset is the RRset of the first record *)
  assert (G : exists rs, group (rdt =? tIXFR) (w_records w) = (if r_type r0 =? tSOA then single r0 else
               hd (single r0) (group (rdt =? tIXFR) (w_records w))) :: rs /\
               s_name (hd (single r0) (group (rdt =? tIXFR) (w_records w))) = r_name r0 /\
               s_type (hd (single r0) (group (rdt =? tIXFR) (w_records w))) = r_type r0).
  { rewrite Hr. unfold group. cbn [group_go].
    destruct ((rdt =? tIXFR) || (r_type r0 =? tSOA)) eqn:Ef.
    - rewrite group_go_true. cbn [app hd]. exists (map single rest). destruct (r_type r0 =? tSOA); auto.
    - apply orb_false_iff in Ef. destruct Ef as [_ Ef]. rewrite Ef. cbn [add_to].
      (* the head of the accumulator keeps owner and type whatever is merged into it *)
      assert (HD : forall x acc s0, s_name s0 = r_name r0 -> s_type s0 = r_type r0 ->
                 exists s1 rs, group_go false (s0 :: acc) x = s1 :: rs /\ s_name s1 = r_name r0 /\ s_type s1 = r_type r0).
      { induction x as [|y x IH]; intros acc s0 Hn0 Ht0; cbn [group_go].
        - eauto.
        - destruct (false || (r_type y =? tSOA)).
          + rewrite group_go_true. cbn [app]. eauto.
          + cbn [add_to]. destruct (same_rrset y s0); [apply IH; cbn; assumption|apply IH; assumption]. }
      destruct (HD rest [] (single r0) eq_refl eq_refl) as (s1 & rs & E & Hn1 & Ht1).
      rewrite E. cbn [hd]. exists rs. auto. }
  destruct G as (rs & Hg & Hn & Ht). rewrite Hg.
  set (h := if r_type r0 =? tSOA then single r0 else hd (single r0) (group (rdt =? tIXFR) (w_records w))) in *.
  assert (Hhn : s_name h = r_name r0) by (subst h; destruct (r_type r0 =? tSOA); [reflexivity|exact Hn]).
  assert (Hht : s_type h = r_type r0) by (subst h; destruct (r_type r0 =? tSOA); [reflexivity|exact Ht]).
  rewrite Hhn, Hht.
  destruct (r_name r0 =? origin) eqn:En; cbn [negb].
  - destruct Hbad as [Hb|Hb]; [apply Z.eqb_eq in En; congruence|].
    apply Z.eqb_neq in Hb. rewrite Hb. cbn [negb cont]. exists eFirstNotSOA. rewrite Hpx. auto.
  - cbn [cont]. exists eNoAnswer. rewrite Hpx. auto.
Qed.
