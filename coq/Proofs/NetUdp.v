(* C18, datagram side: acceptance predicate, source matching, the receive_udp loop and udp(). *)
From DV Require Import Base.Prelude Model.NameM Model.NetM Proofs.NameOrder.
Open Scope Z_scope.

(* ------------------------------------------------------------------ *)
(* small facts                                                          *)

Lemma zlist_eqb_eq : forall a b, zlist_eqb a b = true <-> a = b.
Proof.
  induction a as [|x a IH]; destruct b as [|y b]; cbn; try (split; congruence).
  rewrite andb_true_iff, Z.eqb_eq, IH. split; [intros [-> ->]; reflexivity | intros H; inversion H; auto].
Qed.

Lemma zlist_eqb_refl a : zlist_eqb a a = true.
Proof. apply zlist_eqb_eq. reflexivity. Qed.

(* ------------------------------------------------------------------ *)
(* is_response = the declarative acceptance predicate of the property   *)

(* two question entries denote the same question: same class and type, names equal up to
   ASCII case *)
Definition same_qent (a b : qent) : Prop :=
  ci_equal (q_name a) (q_name b) /\ q_class a = q_class b /\ q_type a = q_type b.

(* the two question sections are equal as sets of questions *)
Definition same_question (a b : list qent) : Prop :=
  (forall n, In n a -> exists n', In n' b /\ same_qent n n') /\
  (forall n, In n b -> exists n', In n' a /\ same_qent n n').

Definition qr_set (m : msg) : Prop := Z.land (m_flags m) fQR <> 0.

(* "a response to the query that was sent (QR set, same id, opcode and question)", with the two
   documented leniencies of Message.is_response: an error rcode with an empty question section,
   and dynamic updates (whose responses need not echo the zone section) *)
Definition genuine (q r : msg) : Prop :=
  qr_set r /\ m_id q = m_id r /\ opcode_of (m_flags q) = opcode_of (m_flags r) /\
  ( (rcode_lenient (rcode_of (m_flags r) (m_ednsflags r)) = true /\ m_question r = [])
    \/ opcode_of (m_flags q) = opUPDATE
    \/ same_question (m_question q) (m_question r) ).

Lemma qent_eqb_iff a b : qent_eqb a b = true <-> same_qent a b.
Proof.
  unfold qent_eqb, same_qent. rewrite !andb_true_iff, !Z.eqb_eq, name_eqb_iff_ci. tauto.
Qed.

Lemma q_in_iff n l : q_in n l = true <-> exists n', In n' l /\ same_qent n n'.
Proof.
  unfold q_in. rewrite existsb_exists. split; intros (x & H1 & H2); exists x; split; auto;
    apply qent_eqb_iff; auto.
Qed.

Lemma q_subset_iff a b :
  q_subset a b = true <-> forall n, In n a -> exists n', In n' b /\ same_qent n n'.
Proof.
  unfold q_subset. rewrite forallb_forall. split; intros H n Hn; apply q_in_iff; auto.
Qed.

Lemma zlen_zero_nil {A} (l : list A) : (zlen l =? 0) = true <-> l = [].
Proof.
  unfold zlen. rewrite Z.eqb_eq. destruct l; cbn [length]; split; intros; try reflexivity; try discriminate; lia.
Qed.

Theorem is_response_iff q r : is_response q r = true <-> genuine q r.
Proof.
  unfold is_response, genuine, qr_set.
  destruct (Z.land (m_flags r) fQR =? 0) eqn:Eqr; cbn [orb].
  { apply Z.eqb_eq in Eqr. split; [discriminate | intros (H & _); contradiction]. }
  apply Z.eqb_neq in Eqr.
  destruct (m_id q =? m_id r) eqn:Eid; cbn [negb orb].
  2:{ apply Z.eqb_neq in Eid. split; [discriminate | intros (_ & H & _); contradiction]. }
  apply Z.eqb_eq in Eid.
  destruct (opcode_of (m_flags q) =? opcode_of (m_flags r)) eqn:Eop; cbn [negb].
  2:{ apply Z.eqb_neq in Eop. split; [discriminate | intros (_ & _ & H & _); contradiction]. }
  apply Z.eqb_eq in Eop.
  destruct (rcode_lenient (rcode_of (m_flags r) (m_ednsflags r))) eqn:Erc; cbn [andb].
  - destruct (zlen (m_question r) =? 0) eqn:Eqs.
    + apply zlen_zero_nil in Eqs. split; auto. intros _. repeat split; auto.
    + assert (Hne : m_question r <> []).
      { intros H. apply zlen_zero_nil in H. congruence. }
      destruct (opcode_of (m_flags q) =? opUPDATE) eqn:Eup.
      * apply Z.eqb_eq in Eup. split; auto. intros _. repeat split; auto.
      * apply Z.eqb_neq in Eup.
        destruct (q_subset (m_question q) (m_question r)) eqn:E1; cbn [negb].
        -- destruct (q_subset (m_question r) (m_question q)) eqn:E2; cbn [negb].
           ++ split; auto. intros _. repeat split; auto. right; right.
              split; apply q_subset_iff; auto.
           ++ split; [discriminate|]. intros (_ & _ & _ & [[_ H] | [H | [_ H]]]); try contradiction.
              apply q_subset_iff in H. congruence.
        -- split; [discriminate|]. intros (_ & _ & _ & [[_ H] | [H | [H _]]]); try contradiction.
           apply q_subset_iff in H. congruence.
  - destruct (opcode_of (m_flags q) =? opUPDATE) eqn:Eup.
    + apply Z.eqb_eq in Eup. split; auto. intros _. repeat split; auto.
    + apply Z.eqb_neq in Eup.
      destruct (q_subset (m_question q) (m_question r)) eqn:E1; cbn [negb].
      * destruct (q_subset (m_question r) (m_question q)) eqn:E2; cbn [negb].
        -- split; auto. intros _. repeat split; auto. right; right.
           split; apply q_subset_iff; auto.
        -- split; [discriminate|]. intros (_ & _ & _ & [[H _] | [H | [_ H]]]); try contradiction; try discriminate.
           apply q_subset_iff in H. congruence.
      * split; [discriminate|]. intros (_ & _ & _ & [[H _] | [H | [H _]]]); try contradiction; try discriminate.
        apply q_subset_iff in H. congruence.
Qed.

(* ------------------------------------------------------------------ *)
(* source matching                                                      *)

(* binary form of an address in the socket's family *)
Definition bin_of (af : Z) (a : addr) : option (list Z) :=
  if af =? AF_INET then a_v4 a else if af =? AF_INET6 then a_v6 a else None.

(* the destination is a multicast address *)
Definition multicast (d : addr) : Prop :=
  match a_v4 d with
  | Some (first :: _) => 224 <= first <= 239
  | Some [] => False
  | None => match a_v6 d with Some (first :: _) => first = 255 | _ => False end
  end.

(* "arrived from the queried address and port": same binary address in the socket's family and
   same remaining tuple components (port, flow, scope); a multicast destination is answered from
   any address with the same port; no destination accepts everything *)
Definition src_ok (af : Z) (from : addr) (dest : option addr) : Prop :=
  match dest with
  | None => True
  | Some d =>
      (exists n, bin_of af from = Some n /\ bin_of af d = Some n /\ a_rest from = a_rest d)
      \/ (multicast d /\ a_rest from = a_rest d)
  end.

(* the situations in which _matches_destination raises nothing of its own: a known family and a
   destination that is an address *)
Definition src_defined (af : Z) (dest : option addr) : Prop :=
  (af = AF_INET \/ af = AF_INET6) /\
  match dest with
  | None => True
  | Some d => match a_v4 d, a_v6 d with
              | Some (_ :: _), _ => True
              | None, Some (_ :: _) => True
              | _, _ => False
              end
  end.

Lemma is_multicast_true d : is_multicast d = Ok true -> multicast d.
Proof.
  unfold is_multicast, multicast.
  destruct (a_v4 d) as [[|f t]|].
  - discriminate.
  - intros H. inversion H as [H1]. apply andb_true_iff in H1. lia.
  - destruct (a_v6 d) as [[|f t]|]; try discriminate.
    intros H. inversion H as [H1]. apply Z.eqb_eq in H1. auto.
Qed.

Lemma multicast_is d : multicast d -> is_multicast d = Ok true.
Proof.
  unfold is_multicast, multicast.
  destruct (a_v4 d) as [[|f t]|].
  - tauto.
  - intros H. f_equal. apply andb_true_iff. lia.
  - destruct (a_v6 d) as [[|f t]|]; try tauto.
    intros ->. reflexivity.
Qed.

Lemma is_multicast_false d : is_multicast d = Ok false -> ~ multicast d.
Proof. intros H M. apply multicast_is in M. congruence. Qed.

Lemma addresses_equal_true af a1 a2 :
  addresses_equal af a1 a2 = Ok true ->
  exists n, bin_of af a1 = Some n /\ bin_of af a2 = Some n /\ a_rest a1 = a_rest a2.
Proof.
  unfold addresses_equal, inet_pton, bin_of.
  destruct (af =? AF_INET); [|destruct (af =? AF_INET6)]; cbn [bind]; try discriminate.
  - destruct (a_v4 a1) as [n1|]; [|discriminate]. destruct (a_v4 a2) as [n2|]; [|discriminate].
    intros H. inversion H as [H1]. apply andb_true_iff in H1. destruct H1 as [E1 E2].
    apply zlist_eqb_eq in E1, E2. subst. eauto.
  - destruct (a_v6 a1) as [n1|]; [|discriminate]. destruct (a_v6 a2) as [n2|]; [|discriminate].
    intros H. inversion H as [H1]. apply andb_true_iff in H1. destruct H1 as [E1 E2].
    apply zlist_eqb_eq in E1, E2. subst. eauto.
Qed.

Lemma addresses_equal_false af a1 a2 :
  addresses_equal af a1 a2 = Ok false ->
  ~ exists n, bin_of af a1 = Some n /\ bin_of af a2 = Some n /\ a_rest a1 = a_rest a2.
Proof.
  unfold addresses_equal, inet_pton, bin_of.
  destruct (af =? AF_INET); [|destruct (af =? AF_INET6)]; cbn [bind]; try discriminate.
  - destruct (a_v4 a1) as [n1|]; [|intros _ (n & H & _); discriminate].
    destruct (a_v4 a2) as [n2|]; [|intros _ (n & _ & H & _); discriminate].
    intros H (n & H1 & H2 & H3). inversion H1; inversion H2; subst.
    rewrite H3, !zlist_eqb_refl in H. discriminate.
  - destruct (a_v6 a1) as [n1|]; [|intros _ (n & H & _); discriminate].
    destruct (a_v6 a2) as [n2|]; [|intros _ (n & _ & H & _); discriminate].
    intros H (n & H1 & H2 & H3). inversion H1; inversion H2; subst.
    rewrite H3, !zlist_eqb_refl in H. discriminate.
Qed.

(* soundness: whatever the flags, a source is only ever accepted when it matches *)
Theorem matches_destination_sound af from dest iu :
  matches_destination af from dest iu = Ok true -> src_ok af from dest.
Proof.
  unfold matches_destination, src_ok. destruct dest as [d|]; auto.
  destruct (addresses_equal af from d) as [[|]| |] eqn:E; cbn [bind]; try discriminate.
  - intros _. left. apply addresses_equal_true. auto.
  - destruct (is_multicast d) as [[|]| |] eqn:M; cbn [bind andb]; try discriminate.
    + destruct (zlist_eqb (a_rest from) (a_rest d)) eqn:R.
      * intros _. right. split; [apply is_multicast_true; auto | apply zlist_eqb_eq; auto].
      * destruct iu; discriminate.
    + destruct iu; discriminate.
Qed.

Lemma is_multicast_not_lib d e : is_multicast d <> Lib e.
Proof.
  unfold is_multicast. destruct (a_v4 d) as [[|]|]; try discriminate.
  destruct (a_v6 d) as [[|]|]; discriminate.
Qed.

Lemma addresses_equal_not_lib af a1 a2 e : addresses_equal af a1 a2 <> Lib e.
Proof.
  unfold addresses_equal, inet_pton.
  destruct (af =? AF_INET); [|destruct (af =? AF_INET6)]; cbn [bind]; try discriminate.
  - destruct (a_v4 a1); [destruct (a_v4 a2)|]; discriminate.
  - destruct (a_v6 a1); [destruct (a_v6 a2)|]; discriminate.
Qed.

(* a rejected source really does not match *)
Theorem matches_destination_reject af from dest iu :
  (matches_destination af from dest iu = Ok false \/
   matches_destination af from dest iu = Lib neUnexpectedSource) ->
  ~ src_ok af from dest.
Proof.
  unfold matches_destination, src_ok. destruct dest as [d|].
  2:{ intros [H|H]; discriminate. }
  destruct (addresses_equal af from d) as [[|]| |] eqn:E; cbn [bind].
  - intros [H|H]; discriminate.
  - apply addresses_equal_false in E.
    destruct (is_multicast d) as [[|]| |] eqn:M; cbn [bind andb].
    + destruct (zlist_eqb (a_rest from) (a_rest d)) eqn:R.
      * intros [H|H]; discriminate.
      * intros _ [H|[_ H]]; [contradiction|]. apply zlist_eqb_eq in H. congruence.
    + apply is_multicast_false in M. intros _ [H|[H _]]; contradiction.
    + exfalso. eapply is_multicast_not_lib; eauto.
    + intros [H|H]; discriminate.
  - exfalso. eapply addresses_equal_not_lib; eauto.
  - intros [H|H]; discriminate.
Qed.

Lemma addresses_equal_defined af a1 a2 :
  af = AF_INET \/ af = AF_INET6 -> exists b, addresses_equal af a1 a2 = Ok b.
Proof.
  intros [->| ->]; unfold addresses_equal, inet_pton; cbn [Z.eqb AF_INET AF_INET6 Pos.eqb bind].
  - destruct (a_v4 a1); [destruct (a_v4 a2)|]; eauto.
  - destruct (a_v6 a1); [destruct (a_v6 a2)|]; eauto.
Qed.

(* completeness: with a known family and an address as destination the outcome is exactly the
   configured one *)
Theorem matches_destination_spec af from dest iu :
  src_defined af dest ->
  (src_ok af from dest -> matches_destination af from dest iu = Ok true) /\
  (~ src_ok af from dest ->
   matches_destination af from dest iu = if iu then Ok false else Lib neUnexpectedSource).
Proof.
  intros [Haf Hd]. destruct dest as [d|].
  2:{ cbn. split; auto. intros H. exfalso. apply H. constructor. }
  destruct (addresses_equal_defined af from d Haf) as [b Hb].
  assert (Hm : exists mb, is_multicast d = Ok mb).
  { unfold is_multicast. destruct (a_v4 d) as [[|f t]|]; [contradiction|eauto|].
    destruct (a_v6 d) as [[|f t]|]; [contradiction|eauto|contradiction]. }
  destruct Hm as [mb Hm].
  unfold matches_destination. rewrite Hb. cbn [bind]. destruct b.
  - split; auto. intros H. exfalso. apply H. left. apply addresses_equal_true. auto.
  - rewrite Hm. cbn [bind]. apply addresses_equal_false in Hb.
    destruct mb; cbn [andb].
    + apply is_multicast_true in Hm.
      destruct (zlist_eqb (a_rest from) (a_rest d)) eqn:R.
      * split; auto. intros H. exfalso. apply H. right. split; auto. apply zlist_eqb_eq; auto.
      * split.
        -- intros [H|[_ H]]; [contradiction|]. apply zlist_eqb_eq in H. congruence.
        -- auto.
    + apply is_multicast_false in Hm. split; auto.
      intros [H|[H _]]; contradiction.
Qed.

(* ------------------------------------------------------------------ *)
(* the end of from_wire                                                 *)

(* a message is only ever handed out for a wire string with a complete header, no section
   error, no unread octets (unless told to ignore them) and, when truncation is to be raised,
   no TC bit *)
Theorem from_wire_ok_wellformed a it rot m :
  from_wire_out a it rot = POk m ->
  p_short a = false /\ p_err a = None /\ m = p_msg a /\
  (p_trailing a = true -> it = true) /\ (rot = true -> has_tc m = false).
Proof.
  unfold from_wire_out. destruct (p_short a); [discriminate|].
  destruct (p_err a) as [e|].
  { destruct (is_formerr e && has_tc (p_msg a) && rot); discriminate. }
  destruct (negb it && p_trailing a) eqn:T.
  { destruct (is_formerr neTrailingJunk && has_tc (p_msg a) && rot); discriminate. }
  destruct (has_tc (p_msg a) && rot) eqn:C; [discriminate|].
  intros H. inversion H; subst.
  split; [reflexivity|]. split; [reflexivity|]. split; [reflexivity|]. split.
  - intros Ht. rewrite Ht in T. destruct it; [reflexivity | discriminate T].
  - intros ->. rewrite andb_true_r in C. exact C.
Qed.

(* when truncation is to be raised, a datagram with a header, the TC bit and at most a
   FormError-class defect is reported as truncated, whatever else is wrong with it *)
Theorem from_wire_truncated a it :
  p_short a = false -> has_tc (p_msg a) = true ->
  (forall e, p_err a = Some e -> is_formerr e = true) ->
  from_wire_out a it true = PTrunc (p_msg a).
Proof.
  intros Hs Htc He. unfold from_wire_out. rewrite Hs.
  destruct (p_err a) as [e|].
  - rewrite (He e eq_refl), Htc. reflexivity.
  - destruct (negb it && p_trailing a); rewrite Htc; reflexivity.
Qed.

(* and never when it is not asked for *)
Theorem from_wire_no_trunc a it m : from_wire_out a it false <> PTrunc m.
Proof.
  unfold from_wire_out. destruct (p_short a); [discriminate|].
  destruct (p_err a) as [e|]; [rewrite andb_false_r; discriminate|].
  destruct (negb it && p_trailing a); rewrite andb_false_r; discriminate.
Qed.

(* ------------------------------------------------------------------ *)
(* _wait_for                                                            *)

Lemma wait_for_before_deadline now e dt now' :
  wait_for now (Some e) dt = Ok now' -> now <= now' < e \/ (now' < now /\ now' < e).
Proof.
  unfold wait_for. destruct (e - now <=? 0) eqn:T; [discriminate|].
  destruct dt as [d|]; [|discriminate].
  destruct (d <? e - now) eqn:D; [|discriminate].
  intros H. inversion H; subst. apply Z.ltb_lt in D. apply Z.leb_gt in T. lia.
Qed.

Theorem wait_for_ok_lt now e dt now' : wait_for now (Some e) dt = Ok now' -> now' < e.
Proof. intros H. apply wait_for_before_deadline in H. lia. Qed.

Theorem wait_for_expired now e dt : e <= now -> wait_for now (Some e) dt = Lib neTimeout.
Proof.
  intros H. unfold wait_for. destruct (e - now <=? 0) eqn:T; auto. apply Z.leb_gt in T. lia.
Qed.

Theorem wait_for_late now e d : e - now <= d -> wait_for now (Some e) (Some d) = Lib neTimeout.
Proof.
  intros H. unfold wait_for. destruct (e - now <=? 0); auto.
  destruct (d <? e - now) eqn:D; auto. apply Z.ltb_lt in D. lia.
Qed.

Lemma wait_for_never_ok_value now exp dt e : wait_for now exp dt = Lib e -> e = neTimeout.
Proof.
  unfold wait_for. destruct exp as [x|].
  - destruct (x - now <=? 0); [intros H; inversion H; auto|].
    destruct dt as [d|]; [destruct (d <? x - now)|]; intros H; inversion H; auto.
  - destruct dt; discriminate.
Qed.

(* ------------------------------------------------------------------ *)
(* receive_udp                                                          *)

Section Udp.
  Variable parse : list Z -> pabs.
  Variables (af : Z) (dest : option addr) (expiration : option Z) (o : uopts) (query : option msg).

  Notation recv := (receive_udp parse af dest expiration o query).
  Notation fw w := (from_wire_out (parse w) (o_ignore_trailing o) (o_raise_on_truncation o)).

  (* the message handed out is the parse of a datagram of the script, read at the position
     reported, from an accepted source; in ignore_errors mode it answers the query *)
  Lemma receive_udp_ok : forall evs now i j m wire t from rest,
    recv evs now i = (j, Ok (m, wire, t, from, rest)) ->
    exists pre, evs = pre ++ UData wire from :: rest /\ j = (i + length pre + 1)%nat /\
      matches_destination af from dest (o_ignore_unexpected o) = Ok true /\
      fw wire = POk m /\
      (o_ignore_errors o = true -> forall q, query = Some q -> is_response q m = true).
  Proof.
    induction evs as [|ev evs IH]; intros now i j m wire t from rest H.
    - cbn [receive_udp] in H. destruct (wait_for now expiration None); inversion H.
    - destruct ev as [w f|dt]; cbn [receive_udp] in H.
      + destruct (matches_destination af f dest (o_ignore_unexpected o)) as [[|]| |] eqn:Em;
          try (inversion H; fail).
        * destruct (fw w) as [m'|m'|e] eqn:Ep.
          -- destruct (o_ignore_errors o &&
                       match query with Some q => negb (is_response q m') | None => false end) eqn:Ei.
             ++ apply IH in H. destruct H as (pre & -> & -> & H).
                exists (UData w f :: pre). cbn [app length]. split; auto. split; [lia|auto].
             ++ inversion H; subst. exists []. cbn [app length]. split; auto. split; [lia|].
                split; auto. split; auto.
                intros Hie q Hq. rewrite Hie, Hq in Ei. cbn [andb] in Ei.
                destruct (is_response q m); [reflexivity | discriminate Ei].
          -- destruct (o_ignore_errors o &&
                       match query with Some q => negb (is_response q m') | None => false end).
             ++ apply IH in H. destruct H as (pre & -> & -> & H).
                exists (UData w f :: pre). cbn [app length]. split; auto. split; [lia|auto].
             ++ inversion H.
          -- destruct (o_ignore_errors o).
             ++ apply IH in H. destruct H as (pre & -> & -> & H).
                exists (UData w f :: pre). cbn [app length]. split; auto. split; [lia|auto].
             ++ unfold err_res in H. destruct (e <? 20); inversion H.
        * apply IH in H. destruct H as (pre & -> & -> & H).
          exists (UData w f :: pre). cbn [app length]. split; auto. split; [lia|auto].
      + destruct (wait_for now expiration dt) as [now'| |]; try (inversion H; fail).
        apply IH in H. destruct H as (pre & -> & -> & H).
        exists (UBlock dt :: pre). cbn [app length]. split; auto. split; [lia|auto].
  Qed.

  (* ---- events that the configuration says to pass over ---- *)

  (* a datagram that is to be ignored: from elsewhere while ignore_unexpected, or - while
     ignore_errors - malformed, or not a response to the query (truncated or not) *)
  Definition ignorable (wire : list Z) (from : addr) : Prop :=
    src_defined af dest /\
    ( (~ src_ok af from dest /\ o_ignore_unexpected o = true)
      \/ (src_ok af from dest /\ o_ignore_errors o = true /\
          ( (exists e, fw wire = PErr e)
            \/ (exists q m, query = Some q /\ (fw wire = POk m \/ fw wire = PTrunc m) /\
                            ~ genuine q m) )) ).

  (* a prefix of the script that is passed over: would-blocks that end before the deadline and
     ignorable datagrams; the clock moves from now to now' *)
  Inductive passes : list uev -> Z -> Z -> Prop :=
  | pass_nil now : passes [] now now
  | pass_block dt r now now' now'' :
      wait_for now expiration dt = Ok now' -> passes r now' now'' -> passes (UBlock dt :: r) now now''
  | pass_data wire from r now now' :
      ignorable wire from -> passes r now now' -> passes (UData wire from :: r) now now'.

  Lemma not_genuine_false q m : ~ genuine q m -> is_response q m = false.
  Proof.
    intros H. destruct (is_response q m) eqn:E; auto. apply is_response_iff in E. contradiction.
  Qed.

  Lemma step_ignorable wire from r now i :
    ignorable wire from -> recv (UData wire from :: r) now i = recv r now (S i).
  Proof.
    intros [Hd [[Hs Hiu] | (Hs & Hie & Hc)]]; cbn [receive_udp].
    - destruct (matches_destination_spec af from dest (o_ignore_unexpected o) Hd) as [_ H].
      rewrite (H Hs), Hiu. reflexivity.
    - destruct (matches_destination_spec af from dest (o_ignore_unexpected o) Hd) as [H _].
      rewrite (H Hs). destruct Hc as [[e He] | (q & m & Hq & Hm & Hg)].
      + rewrite He, Hie. reflexivity.
      + apply not_genuine_false in Hg.
        destruct Hm as [Hm|Hm]; rewrite Hm, Hie, Hq, Hg; reflexivity.
  Qed.

  Theorem passes_skipped : forall pre now now', passes pre now now' ->
    forall evs i, recv (pre ++ evs) now i = recv evs now' (i + length pre)%nat.
  Proof.
    induction 1 as [now | dt r now now' now'' Hw _ IH | wire from r now now' Hi _ IH]; intros evs i.
    - cbn [app length]. f_equal. lia.
    - cbn [app receive_udp length]. rewrite Hw, IH. f_equal. lia.
    - cbn [app length]. rewrite step_ignorable by auto. rewrite IH. f_equal. lia.
  Qed.

  Lemma passes_snoc pre now now' wire from :
    passes pre now now' -> ignorable wire from -> passes (pre ++ [UData wire from]) now now'.
  Proof.
    intros Hp Hi. induction Hp; cbn [app].
    - constructor; [exact Hi | constructor].
    - econstructor; eauto.
    - constructor; auto.
  Qed.

  (* ---- what the first event that is not passed over does ---- *)

  (* a well-formed reply from the queried address that answers the query is returned *)
  Theorem genuine_reply_returned pre now now' wire from rest i m :
    passes pre now now' -> src_defined af dest -> src_ok af from dest ->
    fw wire = POk m ->
    (o_ignore_errors o = true -> forall q, query = Some q -> genuine q m) ->
    recv (pre ++ UData wire from :: rest) now i
    = ((i + length pre + 1)%nat, Ok (m, wire, now', from, rest)).
  Proof.
    intros Hp Hd Hs Hm Hg. rewrite (passes_skipped _ _ _ Hp). cbn [receive_udp].
    destruct (matches_destination_spec af from dest (o_ignore_unexpected o) Hd) as [H _].
    rewrite (H Hs), Hm.
    assert (E : o_ignore_errors o &&
                match query with Some q => negb (is_response q m) | None => false end = false).
    { destruct (o_ignore_errors o) eqn:Ei; auto. destruct query as [q|]; auto.
      cbn [andb]. apply negb_false_iff. apply is_response_iff. auto. }
    rewrite E. f_equal. lia.
  Qed.

  (* a truncated reply (header present, TC set, nothing worse than a FormError in the body) from
     the queried address is reported as Truncated when raise_on_truncation is set, unless it is
     an ignorable non-response *)
  Theorem truncation_reported_recv pre now now' wire from rest i :
    passes pre now now' -> src_defined af dest -> src_ok af from dest ->
    o_raise_on_truncation o = true ->
    p_short (parse wire) = false -> has_tc (p_msg (parse wire)) = true ->
    (forall e, p_err (parse wire) = Some e -> is_formerr e = true) ->
    (o_ignore_errors o = true -> forall q, query = Some q -> genuine q (p_msg (parse wire))) ->
    recv (pre ++ UData wire from :: rest) now i = ((i + length pre + 1)%nat, Lib neTruncated).
  Proof.
    intros Hp Hd Hs Hrot Hsh Htc He Hg. rewrite (passes_skipped _ _ _ Hp). cbn [receive_udp].
    destruct (matches_destination_spec af from dest (o_ignore_unexpected o) Hd) as [H _].
    rewrite (H Hs), Hrot, (from_wire_truncated _ _ Hsh Htc He).
    assert (E : o_ignore_errors o &&
                match query with Some q => negb (is_response q (p_msg (parse wire))) | None => false end = false).
    { destruct (o_ignore_errors o) eqn:Ei; auto. destruct query as [q|]; auto.
      cbn [andb]. apply negb_false_iff. apply is_response_iff. auto. }
    rewrite E. f_equal. lia.
  Qed.

  (* a datagram from elsewhere raises UnexpectedSource unless ignore_unexpected *)
  Theorem unexpected_source_raises pre now now' wire from rest i :
    passes pre now now' -> src_defined af dest -> ~ src_ok af from dest ->
    o_ignore_unexpected o = false ->
    recv (pre ++ UData wire from :: rest) now i = ((i + length pre + 1)%nat, Lib neUnexpectedSource).
  Proof.
    intros Hp Hd Hs Hiu. rewrite (passes_skipped _ _ _ Hp). cbn [receive_udp].
    destruct (matches_destination_spec af from dest (o_ignore_unexpected o) Hd) as [_ H].
    rewrite (H Hs), Hiu. f_equal. lia.
  Qed.

  (* a malformed datagram from the queried address raises its parse error unless ignore_errors *)
  Theorem malformed_raises pre now now' wire from rest i e :
    passes pre now now' -> src_defined af dest -> src_ok af from dest ->
    o_ignore_errors o = false -> fw wire = PErr e ->
    recv (pre ++ UData wire from :: rest) now i = ((i + length pre + 1)%nat, err_res e).
  Proof.
    intros Hp Hd Hs Hie He. rewrite (passes_skipped _ _ _ Hp). cbn [receive_udp].
    destruct (matches_destination_spec af from dest (o_ignore_unexpected o) Hd) as [H _].
    rewrite (H Hs), He, Hie. f_equal. lia.
  Qed.

  (* if everything that arrives is passed over, nothing is returned: the call ends in Timeout
     (or, without a deadline, never ends) *)
  Theorem all_passed_times_out pre now now' i :
    passes pre now now' ->
    recv pre now i = ((i + length pre)%nat,
                      match expiration with Some _ => Lib neTimeout | None => Internal niScriptEnd end).
  Proof.
    intros Hp. rewrite <- (app_nil_r pre) at 1. rewrite (passes_skipped _ _ _ Hp).
    cbn [receive_udp]. unfold wait_for. destruct expiration as [e|]; auto.
    destruct (e - now' <=? 0); auto.
  Qed.

  (* a would-block that outlasts the deadline ends the call with Timeout *)
  Theorem deadline_is_error_recv pre now now' dt rest i e :
    passes pre now now' -> expiration = Some e ->
    (match dt with Some d => e - now' <= d | None => True end) ->
    recv (pre ++ UBlock dt :: rest) now i = ((i + length pre + 1)%nat, Lib neTimeout).
  Proof.
    intros Hp He Hdt. rewrite (passes_skipped _ _ _ Hp). cbn [receive_udp]. rewrite He.
    assert (W : wait_for now' (Some e) dt = Lib neTimeout).
    { unfold wait_for. destruct (e - now' <=? 0); auto. destruct dt as [d|]; auto.
      destruct (d <? e - now') eqn:D; auto. apply Z.ltb_lt in D. lia. }
    rewrite W. f_equal. lia.
  Qed.
End Udp.

(* ------------------------------------------------------------------ *)
(* udp()                                                                *)

Section UdpCall.
  Variable parse : list Z -> pabs.

  Notation fwo o w := (from_wire_out (parse w) (o_ignore_trailing o) (o_raise_on_truncation o)).

  (* THE soundness statement: for every script of socket events and every option combination,
     a message returned by udp() is the parse of a datagram that is in the script at the position
     reported, came from the queried address and port, is well formed, and is a response to the
     query (QR, id, opcode, question) *)
  Theorem udp_returns_genuine q qwire where_ timeout af o sevs evs now i r wire t from rest :
    udp parse q qwire where_ timeout af o sevs evs now = (i, Ok (r, wire, t, from, rest)) ->
    genuine q r /\ src_ok af from (Some where_) /\
    fwo o wire = POk r /\
    exists pre, evs = pre ++ UData wire from :: rest /\ i = (length pre + 1)%nat.
  Proof.
    unfold udp. destruct (negb (where_valid where_)); [intros H; inversion H|].
    destruct (compute_times now timeout) as [begin_time expiration].
    destruct (udp_send expiration (zlen qwire) sevs now) as [[n now1]| |]; try (intros H; inversion H; fail).
    destruct (receive_udp parse af (Some where_) expiration o (Some q) evs now1 0) as [j [x| |]] eqn:E;
      try (intros H; inversion H; fail).
    destruct x as [[[[r0 w0] t0] f0] rest0].
    destruct (negb (o_ignore_errors o || is_response q r0)) eqn:Ec; [intros H; inversion H|].
    intros H. inversion H; subst. clear H.
    apply receive_udp_ok in E. destruct E as (pre & -> & -> & Hm & Hp & Hq).
    split.
    - apply is_response_iff. apply negb_false_iff in Ec. apply orb_true_iff in Ec.
      destruct Ec as [Hie|Hr]; [apply (Hq Hie q eq_refl) | exact Hr].
    - split; [eapply matches_destination_sound; eauto|]. split; auto.
      exists pre. split; auto.
  Qed.

  (* a datagram is forged / unusable when it did not come from the queried address and port, or
     is malformed (or truncated while truncation is to be raised), or does not answer the query *)
  Definition forged (q : msg) (where_ : addr) (af : Z) (o : uopts) (wire : list Z) (from : addr) : Prop :=
    ~ src_ok af from (Some where_) \/
    (forall m, fwo o wire <> POk m) \/
    (exists m, fwo o wire = POk m /\ ~ genuine q m).

  (* no script and no option combination makes udp() return a forged datagram *)
  Theorem forged_never_returned q qwire where_ timeout af o sevs evs now i r wire t from rest :
    udp parse q qwire where_ timeout af o sevs evs now = (i, Ok (r, wire, t, from, rest)) ->
    ~ forged q where_ af o wire from.
  Proof.
    intros H. apply udp_returns_genuine in H. destruct H as (Hg & Hs & Hp & _).
    intros [F | [F | (m & F1 & F2)]].
    - contradiction.
    - apply (F r). auto.
    - rewrite Hp in F1. inversion F1; subst. contradiction.
  Qed.

  (* in particular: if every datagram of the script is forged, udp() returns nothing *)
  Corollary only_forged_never_ok q qwire where_ timeout af o sevs evs now :
    (forall wire from, In (UData wire from) evs -> forged q where_ af o wire from) ->
    forall i x, udp parse q qwire where_ timeout af o sevs evs now <> (i, Ok x).
  Proof.
    intros Hall i [[[[r wire] t] from] rest] H.
    pose proof (forged_never_returned _ _ _ _ _ _ _ _ _ _ _ _ _ _ _ H) as NF.
    apply udp_returns_genuine in H. destruct H as (_ & _ & _ & pre & -> & _).
    apply NF. apply Hall. apply in_or_app. right. left. reflexivity.
  Qed.

  (* ---- the configured outcome of udp() after any passed-over prefix ---- *)

  Lemma udp_unfold q qwire where_ timeout af o evs now :
    where_valid where_ = true ->
    udp parse q qwire where_ timeout af o [] evs now =
      match receive_udp parse af (Some where_) (snd (compute_times now timeout)) o (Some q) evs now 0 with
      | (i, Ok (r, w, received, from, rest)) =>
          if negb (o_ignore_errors o || is_response q r) then (i, Lib neBadResponse)
          else (i, Ok (r, w, received - now, from, rest))
      | other => other
      end.
  Proof.
    intros Hv. unfold udp. rewrite Hv. cbn [negb].
    unfold compute_times. destruct timeout; cbn [udp_send snd]; reflexivity.
  Qed.

  Definition src_defined_where (af : Z) (w : addr) : Prop := src_defined af (Some w).

  Lemma src_defined_valid af w : src_defined af (Some w) -> where_valid w = true.
  Proof.
    intros [_ H]. unfold where_valid. destruct (a_v4 w) as [[|]|]; auto; try contradiction.
    destruct (a_v6 w) as [[|]|]; auto; contradiction.
  Qed.

  (* the genuine reply is returned, whatever ignorable junk precedes it *)
  Theorem udp_genuine_returned q qwire where_ timeout af o pre wire from rest now now' m :
    let exp := snd (compute_times now timeout) in
    passes parse af (Some where_) exp o (Some q) pre now now' ->
    src_defined af (Some where_) -> src_ok af from (Some where_) ->
    fwo o wire = POk m -> genuine q m ->
    udp parse q qwire where_ timeout af o [] (pre ++ UData wire from :: rest) now
    = ((length pre + 1)%nat, Ok (m, wire, now' - now, from, rest)).
  Proof.
    intros exp Hp Hd Hs Hm Hg. rewrite udp_unfold by (eapply src_defined_valid; eauto).
    fold exp.
    rewrite (genuine_reply_returned parse af (Some where_) exp o (Some q) pre now now' wire from rest
               0%nat m Hp Hd Hs Hm) by (intros _ q' Hq; inversion Hq; subst; exact Hg).
    apply is_response_iff in Hg. rewrite Hg, orb_true_r. cbn [negb]. reflexivity.
  Qed.

  (* a well-formed datagram from the right place that does not answer the query is a BadResponse
     unless errors are ignored (then it is passed over, see `ignorable`) *)
  Theorem udp_bad_response_raises q qwire where_ timeout af o pre wire from rest now now' m :
    let exp := snd (compute_times now timeout) in
    passes parse af (Some where_) exp o (Some q) pre now now' ->
    src_defined af (Some where_) -> src_ok af from (Some where_) ->
    fwo o wire = POk m -> ~ genuine q m -> o_ignore_errors o = false ->
    udp parse q qwire where_ timeout af o [] (pre ++ UData wire from :: rest) now
    = ((length pre + 1)%nat, Lib neBadResponse).
  Proof.
    intros exp Hp Hd Hs Hm Hg Hie. rewrite udp_unfold by (eapply src_defined_valid; eauto).
    fold exp.
    rewrite (genuine_reply_returned parse af (Some where_) exp o (Some q) pre now now' wire from rest
               0%nat m Hp Hd Hs Hm) by (intros H; congruence).
    apply not_genuine_false in Hg. rewrite Hg, Hie. reflexivity.
  Qed.

  (* a genuine truncated reply is reported as Truncated when asked *)
  Theorem truncation_reported q qwire where_ timeout af o pre wire from rest now now' :
    let exp := snd (compute_times now timeout) in
    passes parse af (Some where_) exp o (Some q) pre now now' ->
    src_defined af (Some where_) -> src_ok af from (Some where_) ->
    o_raise_on_truncation o = true ->
    p_short (parse wire) = false -> has_tc (p_msg (parse wire)) = true ->
    (forall e, p_err (parse wire) = Some e -> is_formerr e = true) ->
    genuine q (p_msg (parse wire)) ->
    udp parse q qwire where_ timeout af o [] (pre ++ UData wire from :: rest) now
    = ((length pre + 1)%nat, Lib neTruncated).
  Proof.
    intros exp Hp Hd Hs Hrot Hsh Htc He Hg. rewrite udp_unfold by (eapply src_defined_valid; eauto).
    fold exp.
    rewrite (truncation_reported_recv parse af (Some where_) exp o (Some q) pre now now' wire from rest
               0%nat Hp Hd Hs Hrot Hsh Htc He) by (intros _ q' Hq; inversion Hq; subst; exact Hg).
    reflexivity.
  Qed.

  (* raise or skip as configured, for the exchange as a whole *)
  Theorem udp_unexpected_source_raises q qwire where_ timeout af o pre wire from rest now now' :
    let exp := snd (compute_times now timeout) in
    passes parse af (Some where_) exp o (Some q) pre now now' ->
    src_defined af (Some where_) -> ~ src_ok af from (Some where_) ->
    o_ignore_unexpected o = false ->
    udp parse q qwire where_ timeout af o [] (pre ++ UData wire from :: rest) now
    = ((length pre + 1)%nat, Lib neUnexpectedSource).
  Proof.
    intros exp Hp Hd Hs Hiu. rewrite udp_unfold by (eapply src_defined_valid; eauto).
    fold exp.
    rewrite (unexpected_source_raises parse af (Some where_) exp o (Some q) pre now now' wire from rest
               0%nat Hp Hd Hs Hiu).
    reflexivity.
  Qed.

  Theorem udp_malformed_raises q qwire where_ timeout af o pre wire from rest now now' e :
    let exp := snd (compute_times now timeout) in
    passes parse af (Some where_) exp o (Some q) pre now now' ->
    src_defined af (Some where_) -> src_ok af from (Some where_) ->
    o_ignore_errors o = false -> fwo o wire = PErr e ->
    udp parse q qwire where_ timeout af o [] (pre ++ UData wire from :: rest) now
    = ((length pre + 1)%nat, err_res e).
  Proof.
    intros exp Hp Hd Hs Hie He. rewrite udp_unfold by (eapply src_defined_valid; eauto).
    fold exp.
    rewrite (malformed_raises parse af (Some where_) exp o (Some q) pre now now' wire from rest
               0%nat e Hp Hd Hs Hie He).
    unfold err_res. destruct (e <? 20); reflexivity.
  Qed.

  (* with a timeout, a script in which everything is passed over ends in Timeout *)
  Theorem udp_deadline_is_error q qwire where_ t af o pre now now' :
    passes parse af (Some where_) (Some (now + t)) o (Some q) pre now now' ->
    src_defined af (Some where_) ->
    udp parse q qwire where_ (Some t) af o [] pre now = (length pre, Lib neTimeout).
  Proof.
    intros Hp Hd. rewrite udp_unfold by (eapply src_defined_valid; eauto).
    cbn [compute_times snd].
    rewrite (all_passed_times_out parse af (Some where_) (Some (now + t)) o (Some q) pre now now' 0%nat Hp).
    reflexivity.
  Qed.
End UdpCall.

(* raise or skip as configured, in one statement: after any prefix that the configuration says
   to pass over (which udp() indeed passes over), the next datagram is
     - from elsewhere:            UnexpectedSource      unless ignore_unexpected (then passed over)
     - malformed:                 its parse error       unless ignore_errors (then passed over)
     - well formed, no response:  BadResponse           unless ignore_errors (then passed over)
     - a genuine response:        returned                                                     *)
Theorem raise_or_skip_as_configured
        (parse : list Z -> pabs) q qwire where_ timeout af o pre wire from rest now now' :
  let exp := snd (compute_times now timeout) in
  let fw := from_wire_out (parse wire) (o_ignore_trailing o) (o_raise_on_truncation o) in
  let call := udp parse q qwire where_ timeout af o [] (pre ++ UData wire from :: rest) now in
  let pos := (length pre + 1)%nat in
  passes parse af (Some where_) exp o (Some q) pre now now' ->
  src_defined af (Some where_) ->
  (~ src_ok af from (Some where_) -> o_ignore_unexpected o = false ->
     call = (pos, Lib neUnexpectedSource)) /\
  (src_ok af from (Some where_) -> o_ignore_errors o = false -> forall e, fw = PErr e ->
     call = (pos, err_res e)) /\
  (src_ok af from (Some where_) -> o_ignore_errors o = false -> forall m, fw = POk m -> ~ genuine q m ->
     call = (pos, Lib neBadResponse)) /\
  (src_ok af from (Some where_) -> forall m, fw = POk m -> genuine q m ->
     call = (pos, Ok (m, wire, now' - now, from, rest))) /\
  (ignorable parse af (Some where_) o (Some q) wire from ->
     passes parse af (Some where_) exp o (Some q) (pre ++ [UData wire from]) now now').
Proof.
  intros exp fw call pos Hp Hd. repeat split.
  - intros Hs Hiu. eapply udp_unexpected_source_raises; eauto.
  - intros Hs Hie e He. eapply udp_malformed_raises; eauto.
  - intros Hs Hie m Hm Hg. eapply udp_bad_response_raises; eauto.
  - intros Hs m Hm Hg. eapply udp_genuine_returned; eauto.
  - intros Hi. apply passes_snoc; auto.
Qed.

(* ------------------------------------------------------------------ *)
(* errors are raised only as configured, for ALL scripts                *)

Lemma matches_destination_lib af from dest iu e :
  matches_destination af from dest iu = Lib e ->
  e = neUnexpectedSource /\ iu = false /\ ~ src_ok af from dest.
Proof.
  intros H. assert (H' := H). unfold matches_destination in H. destruct dest as [d|]; [|discriminate].
  destruct (addresses_equal af from d) as [[|]| |] eqn:E; cbn [bind] in H; try discriminate.
  - destruct (is_multicast d) as [[|]| |] eqn:M; cbn [bind andb] in H; try discriminate.
    + destruct (zlist_eqb (a_rest from) (a_rest d)); [discriminate|].
      destruct iu; [discriminate|]. inversion H; subst. split; auto. split; auto.
      eapply matches_destination_reject. right. exact H'.
    + destruct iu; [discriminate|]. inversion H; subst. split; auto. split; auto.
      eapply matches_destination_reject. right. exact H'.
    + exfalso. eapply is_multicast_not_lib; eauto.
  - exfalso. eapply addresses_equal_not_lib; eauto.
Qed.

Lemma from_wire_trunc_inv a it rot m :
  from_wire_out a it rot = PTrunc m -> rot = true /\ m = p_msg a /\ has_tc m = true /\ p_short a = false.
Proof.
  destruct rot; [|intros H; exfalso; eapply from_wire_no_trunc; eauto].
  unfold from_wire_out. destruct (p_short a); [discriminate|].
  destruct (p_err a) as [e|].
  - destruct (is_formerr e && has_tc (p_msg a) && true) eqn:C; [|discriminate].
    intros H. inversion H; subst. rewrite andb_true_r in C. apply andb_true_iff in C. tauto.
  - destruct (negb it && p_trailing a).
    + destruct (is_formerr neTrailingJunk && has_tc (p_msg a) && true) eqn:C; [|discriminate].
      intros H. inversion H; subst. rewrite andb_true_r in C. apply andb_true_iff in C. tauto.
    + destruct (has_tc (p_msg a) && true) eqn:C; [|discriminate].
      intros H. inversion H; subst. rewrite andb_true_r in C. tauto.
Qed.

Section UdpErrors.
  Variable parse : list Z -> pabs.
  Variables (af : Z) (dest : option addr) (expiration : option Z) (o : uopts) (query : option msg).

  Notation recv := (receive_udp parse af dest expiration o query).
  Notation fw w := (from_wire_out (parse w) (o_ignore_trailing o) (o_raise_on_truncation o)).

  (* why a documented exception came out of receive_udp *)
  Definition raised_as_configured (e : Z) (wire : list Z) (from : addr) : Prop :=
    (e = neUnexpectedSource /\ o_ignore_unexpected o = false /\ ~ src_ok af from dest)
    \/ (src_ok af from dest /\ e = neTruncated /\ o_raise_on_truncation o = true /\
        has_tc (p_msg (parse wire)) = true /\ fw wire = PTrunc (p_msg (parse wire)) /\
        (o_ignore_errors o = true -> forall q, query = Some q -> genuine q (p_msg (parse wire))))
    \/ (src_ok af from dest /\ o_ignore_errors o = false /\ fw wire = PErr e).

  Theorem receive_udp_error_sound : forall evs now i j e,
    recv evs now i = (j, Lib e) ->
    (e = neTimeout /\ expiration <> None) \/
    exists pre wire from rest, evs = pre ++ UData wire from :: rest /\ j = (i + length pre + 1)%nat /\
                               raised_as_configured e wire from.
  Proof.
    induction evs as [|ev evs IH]; intros now i j e H.
    - cbn [receive_udp] in H. left.
      destruct (wait_for now expiration None) as [x|e'|e'] eqn:W; inversion H; subst.
      split; [eapply wait_for_never_ok_value; eauto|].
      intros ->. cbn in W. discriminate.
    - destruct ev as [w f|dt]; cbn [receive_udp] in H.
      + destruct (matches_destination af f dest (o_ignore_unexpected o)) as [[|]|e'|e'] eqn:Em.
        * assert (Hs : src_ok af f dest) by (eapply matches_destination_sound; eauto).
          destruct (fw w) as [m'|m'|e'] eqn:Ep.
          -- destruct (o_ignore_errors o &&
                       match query with Some q => negb (is_response q m') | None => false end) eqn:Ei.
             ++ apply IH in H. destruct H as [H|(pre & w1 & f1 & r1 & -> & -> & H)]; [left; auto|].
                right. exists (UData w f :: pre), w1, f1, r1. cbn [app length]. split; auto. split; [lia|auto].
             ++ inversion H.
          -- destruct (o_ignore_errors o &&
                       match query with Some q => negb (is_response q m') | None => false end) eqn:Ei.
             ++ apply IH in H. destruct H as [H|(pre & w1 & f1 & r1 & -> & -> & H)]; [left; auto|].
                right. exists (UData w f :: pre), w1, f1, r1. cbn [app length]. split; auto. split; [lia|auto].
             ++ inversion H; subst. right. exists [], w, f, evs. cbn [app length]. split; auto. split; [lia|].
                right. left. destruct (from_wire_trunc_inv _ _ _ _ Ep) as (Hrot & Hm & Htc & _). subst m'.
                split; auto. split; auto. split; auto. split; auto. split.
                { exact Ep. }
                intros Hie q Hq. rewrite Hie, Hq in Ei. cbn [andb] in Ei.
                apply is_response_iff. destruct (is_response q (p_msg (parse w))); [reflexivity|discriminate Ei].
          -- destruct (o_ignore_errors o) eqn:Hie.
             ++ apply IH in H. destruct H as [H|(pre & w1 & f1 & r1 & -> & -> & H)]; [left; auto|].
                right. exists (UData w f :: pre), w1, f1, r1. cbn [app length]. split; auto. split; [lia|auto].
             ++ unfold err_res in H. destruct (e' <? 20); inversion H; subst.
                right. exists [], w, f, evs. cbn [app length]. split; auto. split; [lia|].
                right. right. auto.
        * apply IH in H. destruct H as [H|(pre & w1 & f1 & r1 & -> & -> & H)]; [left; auto|].
          right. exists (UData w f :: pre), w1, f1, r1. cbn [app length]. split; auto. split; [lia|auto].
        * inversion H; subst. apply matches_destination_lib in Em. destruct Em as (-> & Hiu & Hs).
          right. exists [], w, f, evs. cbn [app length]. split; auto. split; [lia|]. left. auto.
        * inversion H.
      + destruct (wait_for now expiration dt) as [now'|e'|e'] eqn:W.
        * apply IH in H. destruct H as [H|(pre & w1 & f1 & r1 & -> & -> & H)]; [left; auto|].
          right. exists (UBlock dt :: pre), w1, f1, r1. cbn [app length]. split; auto. split; [lia|auto].
        * inversion H; subst. left. split; [eapply wait_for_never_ok_value; eauto|].
          intros ->. cbn in W. destruct dt; discriminate.
        * inversion H.
  Qed.
End UdpErrors.

Lemma udp_send_lib exp len : forall sevs now e,
  udp_send exp len sevs now = Lib e -> e = neTimeout /\ exp <> None.
Proof.
  induction sevs as [|ev sevs IH]; intros now e H; cbn [udp_send] in H; [discriminate|].
  destruct ev as [n|dt]; [discriminate|].
  destruct (wait_for now exp dt) as [now'|e'|e'] eqn:W; cbn [bind] in H.
  - eapply IH; eauto.
  - inversion H; subst. split; [eapply wait_for_never_ok_value; eauto|].
    intros ->. cbn in W. destruct dt; discriminate.
  - discriminate.
Qed.

(* the same for the whole exchange, whatever the send side does: every documented exception udp()
   raises is justified by the configuration and by the datagram at the position reported (or is
   the deadline) *)
Theorem udp_error_sound (parse : list Z -> pabs) q qwire where_ timeout af o sevs evs now i e :
  udp parse q qwire where_ timeout af o sevs evs now = (i, Lib e) ->
  (e = neTimeout /\ timeout <> None) \/
  exists pre wire from rest, evs = pre ++ UData wire from :: rest /\ i = (length pre + 1)%nat /\
    ( raised_as_configured parse af (Some where_) o (Some q) e wire from
      \/ (e = neBadResponse /\ o_ignore_errors o = false /\ src_ok af from (Some where_) /\
          exists m, from_wire_out (parse wire) (o_ignore_trailing o) (o_raise_on_truncation o) = POk m
                    /\ ~ genuine q m) ).
Proof.
  unfold udp. destruct (negb (where_valid where_)); [intros H; inversion H|].
  destruct (compute_times now timeout) as [begin_time expiration] eqn:Ct.
  assert (Hexp : expiration <> None -> timeout <> None).
  { intros Hx ->. cbn in Ct. inversion Ct; subst. contradiction. }
  destruct (udp_send expiration (zlen qwire) sevs now) as [[n now1]|e'|e'] eqn:Us.
  2:{ intros H. inversion H; subst. apply udp_send_lib in Us. destruct Us as [-> Hx]. left. auto. }
  2:{ intros H. inversion H. }
  destruct (receive_udp parse af (Some where_) expiration o (Some q) evs now1 0) as [j [x|e'|e']] eqn:E.
  - destruct x as [[[[r0 w0] t0] f0] rest0].
    destruct (negb (o_ignore_errors o || is_response q r0)) eqn:Ec; [|intros H; inversion H].
    intros H. inversion H; subst. right.
    apply receive_udp_ok in E. destruct E as (pre & -> & -> & Hm & Hp & _).
    exists pre, w0, f0, rest0. split; auto. split; auto. right.
    apply negb_true_iff, orb_false_iff in Ec. destruct Ec as [Hie Hr].
    split; auto. split; auto. split; [eapply matches_destination_sound; eauto|].
    exists r0. split; auto. intros G. apply is_response_iff in G. congruence.
  - intros H. inversion H; subst.
    apply receive_udp_error_sound in E. destruct E as [[-> Hx]|(pre & w1 & f1 & r1 & -> & -> & Hc)].
    + left. auto.
    + right. exists pre, w1, f1, r1. split; auto.
  - intros H. inversion H.
Qed.

(* ------------------------------------------------------------------ *)
(* an answer is never handed out after the deadline                      *)

Lemma receive_udp_deadline (parse : list Z -> pabs) af dest e o query :
  forall evs now i j m wire t from rest,
  receive_udp parse af dest (Some e) o query evs now i = (j, Ok (m, wire, t, from, rest)) ->
  t = now \/ t < e.
Proof.
  induction evs as [|ev evs IH]; intros now i j m wire t from rest H.
  - cbn [receive_udp] in H. destruct (wait_for now (Some e) None); inversion H.
  - destruct ev as [w f|dt]; cbn [receive_udp] in H.
    + destruct (matches_destination af f dest (o_ignore_unexpected o)) as [[|]| |]; try (inversion H; fail).
      * destruct (from_wire_out (parse w) (o_ignore_trailing o) (o_raise_on_truncation o)) as [m'|m'|e'].
        -- destruct (o_ignore_errors o && match query with Some q => negb (is_response q m') | None => false end).
           ++ eapply IH; eauto.
           ++ inversion H; subst. auto.
        -- destruct (o_ignore_errors o && match query with Some q => negb (is_response q m') | None => false end).
           ++ eapply IH; eauto.
           ++ inversion H.
        -- destruct (o_ignore_errors o).
           ++ eapply IH; eauto.
           ++ unfold err_res in H. destruct (e' <? 20); inversion H.
      * eapply IH; eauto.
    + destruct (wait_for now (Some e) dt) as [now'| |] eqn:W; try (inversion H; fail).
      apply wait_for_ok_lt in W. apply IH in H. lia.
Qed.

(* udp(q, timeout=T): the elapsed time reported with an answer is 0 (nothing was waited for) or
   strictly less than T *)
Theorem udp_answer_within_timeout (parse : list Z -> pabs) q qwire where_ T af o evs now i r wire t from rest :
  udp parse q qwire where_ (Some T) af o [] evs now = (i, Ok (r, wire, t, from, rest)) ->
  t = 0 \/ t < T.
Proof.
  unfold udp. destruct (negb (where_valid where_)); [intros H; inversion H|].
  cbn [compute_times udp_send].
  destruct (receive_udp parse af (Some where_) (Some (now + T)) o (Some q) evs now 0) as [j [x| |]] eqn:E;
    try (intros H; inversion H; fail).
  destruct x as [[[[r0 w0] t0] f0] rest0].
  destruct (negb (o_ignore_errors o || is_response q r0)); [intros H; inversion H|].
  intros H. inversion H; subst. apply receive_udp_deadline in E. lia.
Qed.

(* ------------------------------------------------------------------ *)
(* the parser used in the correspondence runs: id and flags are the octets of the datagram  *)

Lemma lookup_checked : forall t w,
  p_err (lookup t w) = None ->
  header_ok w (lookup t w) = true /\ question_ok w (lookup t w) = true.
Proof.
  induction t as [|[k a] t IH]; intros w H; cbn [lookup] in *.
  - cbn in H. discriminate.
  - destruct (zlist_eqb k w).
    + destruct (header_ok w a && question_ok w a) eqn:E.
      * apply andb_true_iff in E. exact E.
      * cbn in H. discriminate.
    + apply IH. auto.
Qed.

Lemma lookup_header_ok t w : p_err (lookup t w) = None -> header_ok w (lookup t w) = true.
Proof. intros H. apply lookup_checked in H. tauto. Qed.

Lemma qents_same_eq : forall a b, qents_same a b = true -> a = b.
Proof.
  induction a as [|x a IH]; destruct b as [|y b]; cbn [qents_same]; try discriminate; auto.
  intros H. apply andb_true_iff in H. destruct H as [H Hr].
  apply andb_true_iff in H. destruct H as [H Ht].
  apply andb_true_iff in H. destruct H as [Hn Hc].
  apply Z.eqb_eq in Ht, Hc. apply IH in Hr. subst b.
  assert (En : q_name x = q_name y).
  { clear - Hn. revert Hn. generalize (q_name x) (q_name y).
    induction n as [|l1 m IHm]; destruct n as [|l2 n']; try discriminate; auto.
    intros H. apply andb_true_iff in H. destruct H as [H1 H2].
    apply zlist_eqb_eq in H1. subst. f_equal. apply IHm. exact H2. }
  destruct x, y. cbn in *. subst. reflexivity.
Qed.

(* ... and the question section on the wire (decoded per RFC 1035, compression included) is the
   question section acceptance was decided on *)
Theorem udp_answer_question_on_the_wire tab q qwire where_ timeout af o sevs evs now i r wire t from rest :
  udp (lookup tab) q qwire where_ timeout af o sevs evs now = (i, Ok (r, wire, t, from, rest)) ->
  wire_question_section wire = Some (m_question r) /\ genuine q r.
Proof.
  intros H. apply udp_returns_genuine in H. destruct H as (Hg & _ & Hp & _).
  split; auto.
  apply from_wire_ok_wellformed in Hp. destruct Hp as (Hsh & He & Hm & _).
  destruct (lookup_checked tab wire He) as [_ Hq]. unfold question_ok in Hq.
  rewrite He, Hsh in Hq.
  destruct (wire_question_section wire) as [qs|]; [|discriminate].
  apply qents_same_eq in Hq. subst. reflexivity.
Qed.

(* for every table of datagram descriptions the harness may supply: what udp() returns starts,
   on the wire, with the id of the query and has the QR bit set in its third octet, and is at
   least a full header *)
Theorem udp_answer_on_the_wire tab q qwire where_ timeout af o sevs evs now i r wire t from rest :
  udp (lookup tab) q qwire where_ timeout af o sevs evs now = (i, Ok (r, wire, t, from, rest)) ->
  exists b0 b1 b2 b3 tl, wire = b0 :: b1 :: b2 :: b3 :: tl /\
    b0 * 256 + b1 = m_id q /\ Z.land (b2 * 256 + b3) fQR <> 0 /\ (12 <= length wire)%nat.
Proof.
  intros H. apply udp_returns_genuine in H. destruct H as (Hg & _ & Hp & _).
  apply from_wire_ok_wellformed in Hp. destruct Hp as (Hsh & He & Hm & _).
  pose proof (lookup_header_ok tab wire He) as Hh. unfold header_ok in Hh. rewrite Hsh in Hh.
  apply andb_true_iff in Hh. destruct Hh as [Hl Hh].
  apply negb_true_iff, Nat.ltb_ge in Hl.
  destruct wire as [|b0 [|b1 [|b2 [|b3 tl]]]]; cbn [wire_header] in Hh; try discriminate.
  apply andb_true_iff in Hh. destruct Hh as [Hid Hfl]. apply Z.eqb_eq in Hid, Hfl.
  destruct Hg as (Hqr & Hi & _). unfold qr_set in Hqr. subst r.
  exists b0, b1, b2, b3, tl. split; auto. split; [congruence|]. split; [congruence|auto].
Qed.
