(* Word-level behaviour of Tokenizer.get outside quotes: a run of "safe" characters (no delimiter,
   no backslash) that is followed by a delimiter or the end of input is returned as one IDENTIFIER
   token; concatenate_remaining_identifiers over blank-separated chunks returns their concatenation. *)
From DV Require Import Base.Prelude Model.TokM.
Open Scope Z_scope.

Definition safe (c : Z) : bool := negb (is_delim false c) && negb (c =? 92).
Definition is_blank (c : Z) : bool := (c =? 32) || (c =? 9).

(* the input after a word: end of input or a delimiter *)
Definition word_end (r : list Z) : Prop := r = [] \/ exists c r', r = c :: r' /\ is_delim false c = true.

Lemma gl_safe f wc c r ml tok tt he : safe c = true ->
  get_loop (S f) wc (c :: r) ml false tok tt he = get_loop f wc r ml false (c :: tok) tt he.
Proof.
  unfold safe. intros H. apply andb_true_iff in H as [H1 H2].
  apply negb_true_iff in H1. apply negb_true_iff in H2.
  cbn [get_loop]. rewrite H1, H2. cbn [andb]. reflexivity.
Qed.

Lemma gl_word w : forallb safe w = true -> forall f wc r ml tok tt he,
  get_loop (length w + f) wc (w ++ r) ml false tok tt he
  = get_loop f wc r ml false (rev w ++ tok) tt he.
Proof.
  induction w as [|c w IH]; intros Hw f wc r ml tok tt he; [reflexivity|].
  cbn [forallb] in Hw. apply andb_true_iff in Hw as [Hc Hw].
  cbn [length app Nat.add]. rewrite gl_safe by exact Hc. rewrite IH by exact Hw.
  cbn [rev]. rewrite <- app_assoc. reflexivity.
Qed.

Lemma gl_word_end f wc r ml tok tt he : word_end r -> tok <> [] ->
  get_loop (S f) wc r ml false tok tt he = Ok (mkTok tt (rev tok) he None, (r, ml, false)).
Proof.
  intros Hr Htok. destruct tok as [|x tok]; [congruence|].
  destruct Hr as [->|(c & r' & -> & Hc)].
  - cbn [get_loop is_nil andb]. unfold finish. cbn [is_nil andb bind]. reflexivity.
  - cbn [get_loop]. rewrite Hc. cbn [is_nil andb]. unfold finish. cbn [is_nil andb bind]. reflexivity.
Qed.

Lemma skip_ws_blanks bl r ml : forallb is_blank bl = true ->
  skip_ws ml (bl ++ r) = (length bl + fst (skip_ws ml r), snd (skip_ws ml r))%nat.
Proof.
  induction bl as [|c bl IH]; intros H.
  - cbn [app length Nat.add]. destruct (skip_ws ml r); reflexivity.
  - cbn [forallb] in H. apply andb_true_iff in H as [Hc H]. unfold is_blank in Hc.
    cbn [app skip_ws]. rewrite Hc. rewrite IH by exact H. reflexivity.
Qed.

Lemma skip_ws_safe c r ml : safe c = true -> skip_ws ml (c :: r) = (0%nat, c :: r).
Proof.
  unfold safe, is_delim. intros H. apply andb_true_iff in H as [H _]. apply negb_true_iff in H.
  cbn [skip_ws].
  destruct (c =? 32) eqn:E1; [cbn in H; discriminate|].
  destruct (c =? 9) eqn:E2; [cbn in H; discriminate|].
  destruct (c =? 10) eqn:E3; [cbn in H; discriminate|]. reflexivity.
Qed.

(* one get(): optional blanks, a non-empty safe word, then a delimiter or the end *)
Lemma get0_word bl w r : forallb is_blank bl = true -> forallb safe w = true -> w <> [] -> word_end r ->
  get0 (mkSt (bl ++ w ++ r) 0%nat false None)
  = Ok (mkTok tIDENT w false None, mkSt r 0%nat false None).
Proof.
  intros Hbl Hw Hne Hr. unfold get0, get. cbn [ungot]. unfold get_fresh. cbn [multiline inp quoting].
  rewrite skip_ws_blanks by exact Hbl.
  destruct w as [|c w]; [congruence|].
  cbn [forallb] in Hw. apply andb_true_iff in Hw as [Hc Hw].
  change ((c :: w) ++ r) with (c :: (w ++ r)). rewrite skip_ws_safe by exact Hc.
  cbn [fst snd andb]. unfold get_fuel. cbn [length].
  rewrite gl_safe by exact Hc.
  rewrite app_length.
  replace (S (length w + length r)) with (length w + S (length r))%nat by lia.
  rewrite gl_word by exact Hw.
  rewrite gl_word_end; [|exact Hr|destruct (rev w); discriminate].
  rewrite rev_app_distr. cbn [rev app]. rewrite rev_involutive. reflexivity.
Qed.

(* unescape leaves a token without escapes alone *)
Lemma get_unescaped_word bl w r : forallb is_blank bl = true -> forallb safe w = true -> w <> [] -> word_end r ->
  get_unescaped (mkSt (bl ++ w ++ r) 0%nat false None)
  = Ok (mkTok tIDENT w false None, mkSt r 0%nat false None).
Proof.
  intros. unfold get_unescaped. rewrite get0_word by assumption. reflexivity.
Qed.

(* end of line / end of input after optional blanks *)
Definition line_end (rest : list Z) : Prop := rest = [] \/ exists r, rest = 10 :: r.

Lemma get0_line_end bl rest : forallb is_blank bl = true -> line_end rest ->
  exists t st, is_eol_or_eof t = true /\ is_identifier t = false /\ tesc t = false /\ ungot st = None /\
    get0 (mkSt (bl ++ rest) 0%nat false None) = Ok (t, st).
Proof.
  intros Hbl Hr. unfold get0, get. cbn [ungot]. unfold get_fresh. cbn [multiline inp quoting].
  rewrite skip_ws_blanks by exact Hbl.
  destruct Hr as [->|[r ->]].
  - cbn [skip_ws fst snd andb]. unfold get_fuel. cbn [length get_loop is_nil andb].
    do 2 eexists. repeat split; reflexivity.
  - cbn [skip_ws]. replace (10 =? 32) with false by reflexivity. replace (10 =? 9) with false by reflexivity.
    cbn [orb andb ml_on fst snd]. unfold get_fuel. cbn [length get_loop is_delim].
    replace (10 =? 32) with false by reflexivity. replace (10 =? 9) with false by reflexivity.
    replace (10 =? 10) with true by reflexivity. cbn [orb is_nil andb].
    do 2 eexists. repeat split; reflexivity.
Qed.

(* ---------- blank-separated chunks ---------- *)
(* chunked w t: the text t is the word w cut into non-empty safe pieces with blanks in between
   (and possibly before/after) *)
Inductive chunked : list Z -> list Z -> Prop :=
| ch_nil : chunked [] []
| ch_blank b w t : is_blank b = true -> chunked w t -> chunked w (b :: t)
| ch_word u w t : u <> [] -> forallb safe u = true ->
    (t = [] \/ exists b t', t = b :: t' /\ is_blank b = true) ->
    chunked w t -> chunked (u ++ w) (u ++ t).

Lemma cri_unfold f st acc :
  cri_loop (S f) st acc
  = (do ts <- get_unescaped st;
     let '(t, st1) := ts in
     if is_eol_or_eof t then do st2 <- unget st1 t; Ok (acc, st2)
     else if negb (is_identifier t) then Lib eSyntax
     else cri_loop f st1 (acc ++ tvalue t)).
Proof. reflexivity. Qed.

Lemma blank_is_delim b : is_blank b = true -> is_delim false b = true.
Proof.
  unfold is_blank, is_delim. intros H. apply orb_true_iff in H as [H|H]; rewrite H; cbn;
    repeat rewrite orb_true_r; reflexivity.
Qed.

Lemma chunked_length w t : chunked w t -> (length w <= length t)%nat.
Proof. induction 1; cbn [length]; rewrite ?app_length; lia. Qed.

(* with a run of blanks already seen in front *)
Lemma chunked_cri_gen w t : chunked w t -> forall bl rest fuel acc,
  forallb is_blank bl = true -> line_end rest -> (length t < fuel)%nat ->
  exists te st, is_eol_or_eof te = true /\ ungot st = Some te /\
    cri_loop fuel (mkSt (bl ++ t ++ rest) 0%nat false None) acc = Ok (acc ++ w, st).
Proof.
  induction 1 as [|b w t Hb Hch IH|u w t Hu Hsafe Ht Hch IH]; intros bl rest fuel acc Hbl Hrest Hfuel.
  - destruct fuel as [|f]; [cbn in Hfuel; lia|].
    rewrite cri_unfold. unfold get_unescaped. cbn [app].
    destruct (get0_line_end bl rest Hbl Hrest) as (te & st & H1 & H2 & H3 & H4 & E).
    rewrite E. cbn [bind fst snd]. unfold unescape. rewrite H3. cbn [negb bind]. rewrite H1.
    unfold unget. rewrite H4. cbn [bind].
    do 2 eexists. split; [exact H1|]. split; [|rewrite app_nil_r; reflexivity]. reflexivity.
  - specialize (IH (bl ++ [b]) rest fuel acc).
    rewrite <- app_assoc in IH. cbn [app] in IH. cbn [app]. apply IH.
    + rewrite forallb_app, Hbl. cbn [forallb]. rewrite Hb. reflexivity.
    + exact Hrest.
    + cbn [length] in Hfuel. lia.
  - destruct fuel as [|f]; [cbn in Hfuel; lia|].
    rewrite cri_unfold. rewrite <- app_assoc.
    rewrite get_unescaped_word; [|exact Hbl|exact Hsafe|exact Hu|].
    2:{ destruct Ht as [->|(b & t' & -> & Hb)].
        - cbn [app]. destruct Hrest as [->|[r ->]]; [left; reflexivity|].
          right. exists 10, r. split; reflexivity.
        - right. exists b, (t' ++ rest). split; [reflexivity|]. apply blank_is_delim, Hb. }
    cbn [bind]. unfold is_eol_or_eof, is_identifier. cbn [ttype tvalue].
    replace (tIDENT =? tEOL) with false by reflexivity. replace (tIDENT =? tEOF) with false by reflexivity.
    replace (tIDENT =? tIDENT) with true by reflexivity. cbn [orb negb].
    rewrite app_length in Hfuel.
    destruct (IH [] rest f (acc ++ u) eq_refl Hrest ltac:(destruct u; [congruence|cbn [length] in Hfuel; lia]))
      as (te & st & H1 & H2 & E).
    cbn [app] in E. rewrite E. do 2 eexists. split; [exact H1|]. split; [exact H2|].
    rewrite app_assoc. reflexivity.
Qed.

Lemma chunked_cri w t : chunked w t -> forall rest fuel acc,
  line_end rest -> (length t < fuel)%nat ->
  exists te st, is_eol_or_eof te = true /\ ungot st = Some te /\
    cri_loop fuel (mkSt (t ++ rest) 0%nat false None) acc = Ok (acc ++ w, st).
Proof.
  intros Hch rest fuel acc Hrest Hfuel. apply (chunked_cri_gen w t Hch [] rest fuel acc eq_refl Hrest Hfuel).
Qed.

Theorem concatenate_chunked w t rest allow_empty :
  chunked w t -> line_end rest -> (allow_empty = true \/ w <> []) ->
  exists te st, is_eol_or_eof te = true /\ ungot st = Some te /\
    concatenate_remaining_identifiers (mkSt (t ++ rest) 0%nat false None) allow_empty = Ok (w, st).
Proof.
  intros Hch Hrest Hne. unfold concatenate_remaining_identifiers, rem_fuel. cbn [inp].
  destruct (chunked_cri w t Hch rest (S (S (length (t ++ rest)))) [] Hrest
              ltac:(rewrite app_length; lia)) as (te & st & H1 & H2 & E).
  rewrite E. cbn [bind fst app].
  replace (negb (allow_empty || negb (is_nil w))) with false.
  2:{ destruct Hne as [->|Hw]; [reflexivity|]. destruct w; [congruence|]. cbn. rewrite orb_true_r. reflexivity. }
  do 2 eexists. split; [exact H1|]. split; [exact H2|]. reflexivity.
Qed.
