(* Candidate names: the search-list / ndots rule (_get_qnames_to_try) and the order in which the
   resolution asks them. *)
From DV Require Import Base.Prelude Model.NameM Model.ResolM Proofs.ResolBase Proofs.ResolTrace.
Open Scope Z_scope.

(* ---------- the static rule ---------- *)
Lemma concat_all_spec : forall q sl l,
  concat_all q sl = Ok l -> Forall2 (fun s x => concatenate q s = Ok x) sl l.
Proof.
  induction sl as [|s r IH]; intros l H; simpl in H.
  - inversion H. constructor.
  - destruct (concatenate q s) as [x|e|e] eqn:E; simpl in H; try discriminate.
    destruct (concat_all q r) as [xs|e|e] eqn:E2; simpl in H; try discriminate.
    inversion H; subst. constructor; auto.
Qed.

(* number of dots in the text form of a relative name with at least one label *)
Definition dots (q : name) : Z := zlen q - 1.

Definition effective_search (r : rcfg) (sl : list name) : Prop :=
  (r_search r <> [] -> sl = r_search r) /\
  (r_search r = [] -> name_eqb (r_domain r) root = false -> sl = [r_domain r]) /\
  (r_search r = [] -> name_eqb (r_domain r) root = true -> sl = []).

Lemma search_list_spec : forall r, effective_search r (search_list r).
Proof.
  intros r. unfold effective_search, search_list. destruct (r_search r) as [|x l].
  - split; [congruence|]. split; intros _ H; rewrite H; reflexivity.
  - split; [reflexivity|]. split; intros H; discriminate.
Qed.

Theorem qnames_rule_lemma : forall r qname search l,
  qnames_to_try r qname search = Ok l ->
  let srch := match search with None => r_use_search_by_default r | Some b => b end in
  let nd := match r_ndots r with None => 1 | Some n => n end in
  (is_absolute qname = true -> l = [qname]) /\
  (is_absolute qname = false ->
     exists absq, concatenate qname root = Ok absq /\
       (srch = false -> l = [absq]) /\
       (srch = true ->
          exists sl cands, effective_search r sl /\
            Forall2 (fun s x => concatenate qname s = Ok x) sl cands /\
            (dots qname >= nd -> l = absq :: cands) /\
            (dots qname < nd -> l = cands ++ [absq]))).
Proof.
  intros r qname search l H. unfold qnames_to_try in H. simpl.
  destruct (is_absolute qname) eqn:EA.
  - inversion H; subst. split; [reflexivity|discriminate].
  - split; [discriminate|]. intros _.
    destruct (concatenate qname root) as [absq|e|e] eqn:EC; simpl in H; try discriminate.
    exists absq. split; [reflexivity|].
    destruct (match search with Some b => b | None => r_use_search_by_default r end) eqn:ES.
    + split; [discriminate|]. intros _.
      destruct (concat_all qname (search_list r)) as [cands|e|e] eqn:ECA; simpl in H; try discriminate.
      exists (search_list r), cands. split; [apply search_list_spec|].
      split; [apply concat_all_spec; exact ECA|].
      unfold dots.
      destruct (zlen qname >? match r_ndots r with Some n => n | None => 1 end) eqn:EN; inversion H; subst.
      * split; [reflexivity|]. intros. lia.
      * split; [|reflexivity]. intros. lia.
    + inversion H; subst. split; [reflexivity|discriminate].
Qed.

(* ---------- the order of the queries ---------- *)
Section Order.
Variables (sc : nat -> outcome) (c : cfg) (start : Z).

(* the name asked is the candidate with `ev_left` candidates after it *)
Definition cand_at (ev : event) : Prop :=
  exists done rest, c_qnames c = done ++ ev_qname ev :: rest /\ length rest = ev_left ev.

(* candidates are tried in order; the next one only after an acceptable NXDOMAIN reply *)
Definition cand_rel (a b : event) : Prop :=
  (ev_left b <= ev_left a)%nat /\ ((ev_left b < ev_left a)%nat -> nx_accepts (ev_obs a) <> None).

Definition QInv (old : list event) (s : st) (e : env) : Prop :=
  exists new, e_trace e = old ++ new /\
    (exists done, c_qnames c = done ++ s_qname s :: s_qnames s) /\
    Forall cand_at new /\ adjacent cand_rel new /\
    (forall a, last_opt new = Some a ->
       (length (s_qnames s) <= ev_left a)%nat /\
       ((length (s_qnames s) < ev_left a)%nat -> nx_accepts (ev_obs a) <> None)).

Lemma qinv_new_event : forall s s1 ns tcp backoff T e ob clock2 new,
  (exists done, c_qnames c = done ++ s_qname s :: s_qnames s) ->
  Forall cand_at new -> adjacent cand_rel new ->
  (forall a, last_opt new = Some a ->
       (length (s_qnames s) <= ev_left a)%nat /\
       ((length (s_qnames s) < ev_left a)%nat -> nx_accepts (ev_obs a) <> None)) ->
  s_qnames s1 = s_qnames s -> s_qname s1 = s_qname s ->
  Forall cand_at (new ++ [mk_event s1 ns tcp backoff T e ob clock2]) /\
  adjacent cand_rel (new ++ [mk_event s1 ns tcp backoff T e ob clock2]).
Proof.
  intros s s1 ns tcp backoff T e ob clock2 new (done & HD) HF HA HL N1 N2. split.
  - apply Forall_app. split; auto. constructor; auto.
    exists done, (s_qnames s). simpl. rewrite N1, N2. auto.
  - apply adjacent_snoc; auto. intros a La. unfold cand_rel. simpl. rewrite N1. apply HL. exact La.
Qed.

Lemma qinv_step : forall old s e s' e',
  QInv old s e -> step sc c start s e = inl (s', e') -> QInv old s' e'.
Proof.
  intros old s e s' e' (new & HE & HD & HF & HA & HL) H.
  apply step_inl in H.
  destruct H as (s1 & ns & tcp & backoff & T & ob & clock2 & HN & HT & HO & HE' & HQ).
  apply next_nameserver_ok in HN.
  destruct HN as (N1 & N2 & N3 & N4 & N5 & N6 & N7 & N8 & N9 & N10 & _).
  destruct (qinv_new_event s s1 ns tcp backoff T e ob clock2 new HD HF HA HL N1 N2) as (HF' & HA').
  set (ev := mk_event s1 ns tcp backoff T e ob clock2) in *.
  subst e'. exists (new ++ [ev]). simpl. split; [rewrite HE, app_assoc; reflexivity|].
  destruct HQ as [HQ|(s2 & HQ & HR)].
  - apply query_result_cont in HQ.
    destruct HQ as (ns' & EN & (S1 & S2 & S3 & S4 & S5 & S6 & S7) & _).
    split. { rewrite S1, S2, N1, N2. exact HD. }
    split; [exact HF'|]. split; [exact HA'|].
    intros a La. rewrite last_opt_snoc in La. inversion La; subst a. simpl. rewrite S1. split; [lia|lia].
  - apply query_result_next in HQ.
    destruct HQ as (ns' & m & chx & a & EN & Hr & Hnx & Hacc & HMA & (S1 & S2 & S3 & S4 & S5 & S6 & S7) & _).
    apply next_request_request in HR.
    destruct HR as (q & rest & skipped & s0 & R1 & R2 & R3 & R4 & R5).
    destruct HD as (done & HD).
    split. { exists (done ++ s_qname s :: skipped). subst s'. simpl.
             rewrite HD, <- N1, <- S1, R1, <- app_assoc. reflexivity. }
    split; [exact HF'|]. split; [exact HA'|].
    intros a0 La. rewrite last_opt_snoc in La. inversion La; subst a0. simpl. subst s'. simpl.
    assert (HLEN: (length rest < length (s_qnames s1))%nat).
    { rewrite <- S1, R1, app_length. simpl. lia. }
    split; [lia|]. intros _. subst ob. congruence.
Qed.

Lemma qinv_final : forall old s e f s' e',
  QInv old s e -> step sc c start s e = inr (f, s', e') ->
  exists new, e_trace e' = old ++ new /\ Forall cand_at new /\ adjacent cand_rel new.
Proof.
  intros old s e f s' e' (new & HE & HD & HF & HA & HL) H.
  apply step_inr in H.
  destruct H as [(k & HN & Hf & Hs & He)|[(HN & Hf & He)|[(ns & tcp & backoff & d & HN & HT & Hf & He)|
                 (s1 & ns & tcp & backoff & T & ob & clock2 & HN & HT & HO & He & HQ)]]].
  - subst. exists new. auto.
  - subst. exists new. auto.
  - subst. exists new. auto.
  - apply next_nameserver_ok in HN.
    destruct HN as (N1 & N2 & _).
    destruct (qinv_new_event s s1 ns tcp backoff T e ob clock2 new HD HF HA HL N1 N2) as (HF' & HA').
    subst e'. simpl. exists (new ++ [mk_event s1 ns tcp backoff T e ob clock2]).
    split; [rewrite HE, app_assoc; reflexivity|]. auto.
Qed.
End Order.
