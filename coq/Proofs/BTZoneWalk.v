(* C20, layer D1: WritableVersion.update_glue_flag - the cursor walk over the subtree of a name. *)
From DV Require Import Base.Prelude Model.NameM Model.BTZoneM
     Proofs.BTZoneOrder Proofs.BTZoneList Proofs.BTZoneSpec.
Open Scope Z_scope.

(* ---------- `for ename, node in updates: self.nodes[ename] = node` ---------- *)
Definition apply_updates (ups nodes : nodes_t) : nodes_t :=
  fold_left (fun ns u => al_set (fst u) (snd u) ns) ups nodes.

Lemma apply_updates_spec : forall ups nodes, sorted nodes -> sorted ups ->
    sorted (apply_updates ups nodes) /\
    forall k v, In (k, v) (apply_updates ups nodes) <->
                (In (k, v) ups \/ (In (k, v) nodes /\ ~ In (K k) (keys ups))).
Proof.
  induction ups as [|[k0 v0] ups IH]; intros nodes S Su; cbn [apply_updates fold_left fst snd].
  - split; auto. intros k v. cbn. tauto.
  - apply sorted_cons in Su as [Su1 Su2].
    destruct (IH (al_set k0 v0 nodes) (al_set_sorted _ _ _ S) Su2) as [A B].
    split; [exact A|]. intros k v. unfold apply_updates in B. rewrite B. rewrite al_set_in by auto.
    cbn [In keys map fst]. split.
    + intros [H|[[H|[H Hn]] Hk]]; auto. right. split; auto. intros [E|E]; auto.
    + intros [[H|H]|[H Hk]]; auto.
      * right. split; [left; auto|]. inversion H; subst. intros Hin.
        apply keys_in in Hin as (k' & v' & Hin & E). apply (klt_irrefl (K k)). rewrite <- E at 2. eauto.
      * right. split; [right; split; [auto | intros E; apply Hk; left; auto] | intros E; apply Hk; right; auto].
Qed.

(* ---------- the walk without the `break` ---------- *)
Definition covered (x : option name) (sub : nodes_t) (k : name) : bool :=
  (match x with Some x0 => is_subdomain k x0 | None => false end) ||
  existsb (fun e => has_ns (snd e) && strictly_beneath k (fst e)) sub.

Definition wflags (g : bool) (x : option name) (sub : nodes_t) (e : name * node) : Z :=
  if g then fGLUE
  else if covered x sub (fst e) then fGLUE else if has_ns (snd e) then fDELEGATION else 0.

Fixpoint walk (g : bool) (sub : nodes_t) (x : option name) (d : delegs_t) : delegs_t * nodes_t :=
  match sub with
  | [] => (d, [])
  | (ename, nd) :: r =>
      let '(fl, x', d1) :=
        if g then (fGLUE, x, al_discard ename d)
        else if match x with Some x0 => is_subdomain ename x0 | None => false end then (fGLUE, x, d)
        else if has_ns nd then (fDELEGATION, Some ename, al_set ename tt d)
        else (0, x, d) in
      let '(d2, ups) := walk g r x' d1 in
      (d2, (ename, mkNode fl (nrds nd)) :: ups)
  end.

Lemma ugf_loop_walk : forall n g sub rest x d ch,
    (forall k v, In (k, v) sub -> is_subdomain k n = true) ->
    (match rest with [] => True | (k, _) :: _ => is_subdomain k n = false end) ->
    exists ch', ugf_loop n g (sub ++ rest) x d ch =
                (fst (walk g sub x d), ch', snd (walk g sub x d)).
Proof.
  induction sub as [|[k v] sub IH]; intros rest x d ch Hs Hr; cbn [app ugf_loop walk].
  - destruct rest as [|[k v] rest]; cbn; eauto. rewrite Hr. cbn. eauto.
  - rewrite (Hs k v) by (left; auto). cbn [negb].
    set (t := if g then (fGLUE, x, al_discard k d)
              else if match x with Some x0 => is_subdomain k x0 | None => false end then (fGLUE, x, d)
              else if has_ns v then (fDELEGATION, Some k, al_set k tt d) else (0, x, d)).
    destruct t as [[fl x'] d1].
    destruct (IH rest x' d1 (changed_add k ch)) as [ch' E]; [intros; apply (Hs k0 v0); right; auto|auto|].
    rewrite E. destruct (walk g sub x' d1) as [d2 ups]. cbn. eauto.
Qed.

(* the elements after the cursor split into the subtree of n and the rest *)
Lemma subtree_split : forall (a : nodes_t) n,
    sorted a -> (forall k v, In (k, v) a -> klt (K n) (K k)) ->
    exists sub rest, a = sub ++ rest /\
                     (forall k v, In (k, v) sub -> sbelow (K k) (K n)) /\
                     (forall k v, In (k, v) rest -> ~ below (K k) (K n)).
Proof.
  induction a as [|[k v] a IH]; intros n S H.
  - exists [], []. split; [reflexivity|split; intros ? ? []].
  - apply sorted_cons in S as [S1 S2].
    destruct (is_subdomain k n) eqn:E.
    + destruct (IH n S2) as (sub & rest & E1 & E2 & E3); [intros; eapply H; right; eauto|].
      exists ((k, v) :: sub), rest. split; [cbn; rewrite E1; auto|split; [|auto]].
      intros k' v' [Hin|Hin]; eauto. inversion Hin; subst. apply is_subdomain_below in E.
      split; auto. apply not_eq_sym, klt_neq. eapply H. left; auto.
    + exists [], ((k, v) :: a). split; [reflexivity|split; [intros ? ? []|]].
      apply is_subdomain_false_below in E.
      intros k' v' [Hin|Hin].
      * inversion Hin; subst; auto.
      * unfold below. eapply prefix_past; [apply (H k v); left; auto|exact E|].
        assert (klt (K k) (K k')) by eauto. unfold klt in H0. rewrite H0. discriminate.
Qed.

(* ---------- setting the flag ---------- *)
Lemma walk_true_ups : forall sub x d,
    snd (walk true sub x d) = map (fun e => (fst e, mkNode fGLUE (nrds (snd e)))) sub.
Proof.
  induction sub as [|[k v] sub IH]; intros x d; cbn [walk map]; auto.
  specialize (IH x (al_discard k d)). destruct (walk true sub x (al_discard k d)) as [d2 ups].
  cbn in *. congruence.
Qed.

Lemma walk_true_delegs : forall sub x d, sorted d ->
    sorted (fst (walk true sub x d)) /\
    forall k u, In (k, u) (fst (walk true sub x d)) <-> (In (k, u) d /\ ~ In (K k) (keys sub)).
Proof.
  induction sub as [|[k0 v0] sub IH]; intros x d S; cbn [walk].
  - cbn. split; auto. intros; tauto.
  - destruct (al_discard_spec d k0 S) as [S' H'].
    specialize (IH x (al_discard k0 d) S'). destruct (walk true sub x (al_discard k0 d)) as [d2 ups].
    cbn [fst] in *. destruct IH as [A B]. split; auto. intros k u. rewrite B, H'. cbn [keys map In fst].
    split.
    + intros [[H1 H2] H3]. split; auto. intros [E|E]; auto.
    + intros [H1 H2]. repeat split; auto.
Qed.

(* ---------- clearing the flag: nested NS owners become delegation points ---------- *)
Lemma covered_cons_self : forall x k v sub,
    sorted ((k, v) :: sub) ->
    covered x ((k, v) :: sub) k = match x with Some x0 => is_subdomain k x0 | None => false end.
Proof.
  intros x k v sub S. unfold covered. apply sorted_cons in S as [S1 _].
  replace (existsb _ ((k, v) :: sub)) with false; [apply orb_false_r|].
  symmetry. apply not_true_is_false. intros H. apply existsb_exists in H as ([k' v'] & Hin & H).
  apply andb_true_iff in H as [_ H]. cbn [fst] in H. apply strictly_beneath_iff in H.
  destruct Hin as [Hin|Hin].
  - inversion Hin; subst. eapply sbelow_irrefl; eauto.
  - apply sbelow_klt in H. apply (klt_irrefl (K k)). eapply klt_trans; eauto.
Qed.

Lemma covered_cons_later : forall x k v sub k',
    sorted ((k, v) :: sub) ->
    (match x with Some x0 => klt (K x0) (K k) | None => True end) ->
    (exists v', In (k', v') sub) ->
    covered x ((k, v) :: sub) k' =
    covered (if match x with Some x0 => is_subdomain k x0 | None => false end then x
             else if has_ns v then Some k else x) sub k'.
Proof.
  intros x k v sub k' S Hx [v' Hin]. pose proof S as S0. apply sorted_cons in S as [S1 S2].
  assert (Hlt : klt (K k) (K k')) by eauto.
  unfold covered. cbn [existsb fst snd].
  destruct (match x with Some x0 => is_subdomain k x0 | None => false end) eqn:Ex.
  - (* k is covered by x: anything under k is under x *)
    destruct x as [x0|]; [|discriminate].
    destruct (has_ns v && strictly_beneath k' k) eqn:E; cbn [orb]; auto.
    apply andb_true_iff in E as [_ E]. apply strictly_beneath_iff in E. apply is_subdomain_below in Ex.
    assert (is_subdomain k' x0 = true) by (apply is_subdomain_below; eapply below_trans; [apply sbelow_below|]; eauto).
    rewrite H. reflexivity.
  - destruct (has_ns v) eqn:Ens; cbn [andb].
    + (* k becomes the exposed cut; x does not cover anything later *)
      assert (Hx0 : match x with Some x0 => is_subdomain k' x0 | None => false end = false).
      { destruct x as [x0|]; auto. apply is_subdomain_false_below in Ex. apply is_subdomain_false_below.
        unfold below in *. eapply prefix_past; eauto. unfold klt in Hlt. rewrite Hlt. discriminate. }
      rewrite Hx0. cbn [orb].
      assert (strictly_beneath k' k = is_subdomain k' k).
      { unfold strictly_beneath. replace (name_eqb k' k) with false; [apply andb_true_r|].
        symmetry. apply name_eqb_false_ekey. apply not_eq_sym, klt_neq; auto. }
      rewrite H. reflexivity.
    + reflexivity.
Qed.

Lemma walk_false_ups : forall sub x d,
    sorted sub ->
    (match x with Some x0 => forall k v, In (k, v) sub -> klt (K x0) (K k) | None => True end) ->
    snd (walk false sub x d) = map (fun e => (fst e, mkNode (wflags false x sub e) (nrds (snd e)))) sub.
Proof.
  induction sub as [|[k v] sub IH]; intros x d S Hx; cbn [walk map]; auto.
  pose proof S as S0. apply sorted_cons in S as [S1 S2].
  set (x' := if match x with Some x0 => is_subdomain k x0 | None => false end then x
             else if has_ns v then Some k else x).
  assert (Hx' : match x' with Some x0 => forall k1 v1, In (k1, v1) sub -> klt (K x0) (K k1) | None => True end).
  { unfold x'. destruct (match x with Some x0 => is_subdomain k x0 | None => false end).
    - destruct x; auto. intros; eapply Hx; right; eauto.
    - destruct (has_ns v); [intros; eauto|]. destruct x; auto. intros; eapply Hx; right; eauto. }
  assert (Hfl : wflags false x ((k, v) :: sub) (k, v) =
                if match x with Some x0 => is_subdomain k x0 | None => false end then fGLUE
                else if has_ns v then fDELEGATION else 0).
  { unfold wflags. cbn [fst snd]. rewrite covered_cons_self by auto. reflexivity. }
  assert (Hmap : map (fun e => (fst e, mkNode (wflags false x ((k, v) :: sub) e) (nrds (snd e)))) sub =
                 map (fun e => (fst e, mkNode (wflags false x' sub e) (nrds (snd e)))) sub).
  { apply map_ext_in. intros [k1 v1] Hin. cbn [fst snd]. unfold wflags. cbn [fst snd].
    rewrite (covered_cons_later x k v sub k1); auto.
    - destruct x; auto. eapply Hx. left; eauto.
    - eauto. }
  rewrite Hfl, Hmap. cbn [fst snd].
  destruct (match x with Some x0 => is_subdomain k x0 | None => false end) eqn:Ex.
  - specialize (IH x d S2 Hx'). unfold x' in *. destruct (walk false sub x d) as [d2 ups]. cbn in *. congruence.
  - destruct (has_ns v) eqn:Ens.
    + specialize (IH (Some k) (al_set k tt d) S2 Hx'). unfold x' in *.
      destruct (walk false sub (Some k) (al_set k tt d)) as [d2 ups]. cbn in *. congruence.
    + specialize (IH x d S2 Hx'). unfold x' in *. destruct (walk false sub x d) as [d2 ups]. cbn in *. congruence.
Qed.

Lemma walk_false_delegs : forall sub x d,
    sorted sub -> sorted d ->
    (match x with Some x0 => forall k v, In (k, v) sub -> klt (K x0) (K k) | None => True end) ->
    sorted (fst (walk false sub x d)) /\
    forall y, In y (keys (fst (walk false sub x d))) <->
              (In y (keys d) \/
               exists k v, In (k, v) sub /\ K k = y /\ has_ns v = true /\ covered x sub k = false).
Proof.
  induction sub as [|[k v] sub IH]; intros x d S Sd Hx; cbn [walk].
  - cbn [fst]. split; auto. intros y. split; auto. intros [H|(k & v & [] & _)]; auto.
  - pose proof S as S0. apply sorted_cons in S as [S1 S2].
    set (x' := if match x with Some x0 => is_subdomain k x0 | None => false end then x
               else if has_ns v then Some k else x).
    assert (Hx' : match x' with Some x0 => forall k1 v1, In (k1, v1) sub -> klt (K x0) (K k1) | None => True end).
    { unfold x'. destruct (match x with Some x0 => is_subdomain k x0 | None => false end).
      - destruct x; auto. intros; eapply Hx; right; eauto.
      - destruct (has_ns v); [intros; eauto|]. destruct x; auto. intros; eapply Hx; right; eauto. }
    assert (Hlater : forall k1 v1, In (k1, v1) sub -> covered x ((k, v) :: sub) k1 = covered x' sub k1).
    { intros k1 v1 Hin. unfold x'. apply covered_cons_later; eauto.
      destruct x; auto. eapply Hx. left; eauto. }
    pose proof (covered_cons_self x k v sub S0) as Hself.
    destruct (match x with Some x0 => is_subdomain k x0 | None => false end) eqn:Ex.
    + specialize (IH x d S2 Sd Hx'). unfold x' in *. destruct (walk false sub x d) as [d2 ups].
      cbn [fst] in *. destruct IH as [A B]. split; auto. intros y. rewrite B. split.
      * intros [H|(k1 & v1 & Hin & E & Hn & Hc)]; auto. right. exists k1, v1.
        repeat split; auto. right; auto. rewrite (Hlater k1 v1); auto.
      * intros [H|(k1 & v1 & [Hin|Hin] & E & Hn & Hc)]; auto.
        -- inversion Hin; subst. congruence.
        -- right. exists k1, v1. repeat split; auto. rewrite <- (Hlater k1 v1); auto.
    + destruct (has_ns v) eqn:Ens.
      * specialize (IH (Some k) (al_set k tt d) S2 (al_set_sorted _ _ _ Sd) Hx'). unfold x' in *.
        destruct (walk false sub (Some k) (al_set k tt d)) as [d2 ups].
        cbn [fst] in *. destruct IH as [A B]. split; auto. intros y. rewrite B. split.
        -- intros [H|(k1 & v1 & Hin & E & Hn & Hc)].
           ++ apply keys_in in H as (k1 & u1 & Hin & E). apply al_set_in in Hin; auto.
              destruct Hin as [Hin|[Hin _]].
              ** inversion Hin; subst. right. exists k, v. repeat split; auto. left; auto.
              ** left. subst y. eapply in_keys; eauto.
           ++ right. exists k1, v1. repeat split; auto. right; auto. rewrite (Hlater k1 v1); auto.
        -- intros [H|(k1 & v1 & [Hin|Hin] & E & Hn & Hc)].
           ++ apply keys_in in H as (k1 & u1 & Hin & E).
              destruct (list_eq_dec (list_eq_dec Z.eq_dec) (K k1) (K k)) as [Ek|Ek].
              ** left. subst y. rewrite Ek. apply (in_keys _ k tt). apply al_set_in; auto.
              ** left. subst y. apply (in_keys _ k1 u1). apply al_set_in; auto.
           ++ inversion Hin; subst. left. apply (in_keys _ k1 tt). apply al_set_in; auto.
           ++ right. exists k1, v1. repeat split; auto. rewrite <- (Hlater k1 v1); auto.
      * specialize (IH x d S2 Sd Hx'). unfold x' in *. destruct (walk false sub x d) as [d2 ups].
        cbn [fst] in *. destruct IH as [A B]. split; auto. intros y. rewrite B. split.
        -- intros [H|(k1 & v1 & Hin & E & Hn & Hc)]; auto. right. exists k1, v1.
           repeat split; auto. right; auto. rewrite (Hlater k1 v1); auto.
        -- intros [H|(k1 & v1 & [Hin|Hin] & E & Hn & Hc)]; auto.
           ++ inversion Hin; subst. congruence.
           ++ right. exists k1, v1. repeat split; auto. rewrite <- (Hlater k1 v1); auto.
Qed.

(* ---------- update_glue_flag as a whole ---------- *)
Lemma map_keys_same : forall (sub : nodes_t) (f : name * node -> node),
    keys (map (fun e => (fst e, f e)) sub) = keys sub.
Proof. intros. unfold keys. rewrite map_map. reflexivity. Qed.

(* the version's nodes around n: l = lo ++ sub ++ rest, sub = the nodes strictly beneath n *)
Lemma seek_subtree : forall (nodes : nodes_t) n b a,
    sorted nodes -> c_seek nodes n = (b, a) ->
    exists sub rest, a = sub ++ rest /\ nodes = rev b ++ sub ++ rest /\
      (forall k v, In (k, v) sub -> sbelow (K k) (K n)) /\
      (forall k v, In (k, v) rest -> ~ below (K k) (K n)) /\
      (forall k v, In (k, v) (rev b) -> ~ sbelow (K k) (K n)) /\
      sorted sub.
Proof.
  intros nodes n b a S H. destruct (c_seek_spec _ _ _ _ S H) as (E & Hb & Ha).
  assert (Sa : sorted a) by (rewrite E in S; apply sorted_app in S; tauto).
  destruct (subtree_split a n Sa Ha) as (sub & rest & E1 & E2 & E3).
  exists sub, rest. split; [auto|]. split; [rewrite E, E1; auto|]. split; [auto|]. split; [auto|]. split.
  - intros k v Hin Hs. apply in_rev in Hin. apply (Hb k v Hin). apply kcmp_gt_lt. apply sbelow_klt; auto.
  - rewrite E1 in Sa. apply sorted_app in Sa. tauto.
Qed.

Lemma ugf_eq : forall nodes d ch n g b a sub rest,
    c_seek nodes n = (b, a) -> a = sub ++ rest ->
    (forall k v, In (k, v) sub -> sbelow (K k) (K n)) ->
    (forall k v, In (k, v) rest -> ~ below (K k) (K n)) ->
    exists ch',
      update_glue_flag (mkVer nodes d ch) n g =
      mkVer (apply_updates (snd (walk g sub None d)) nodes) (fst (walk g sub None d)) ch'.
Proof.
  intros nodes d ch n g b a sub rest Hs Ea H1 H2. unfold update_glue_flag. cbn [v_nodes v_delegs v_changed].
  rewrite Hs. subst a.
  destruct (ugf_loop_walk n g sub rest None d ch) as [ch' E].
  - intros k v Hin. apply is_subdomain_below. apply sbelow_below. eauto.
  - destruct rest as [|[k v] rest]; auto. apply is_subdomain_false_below. apply (H2 k v). left; auto.
  - rewrite E. exists ch'. reflexivity.
Qed.
