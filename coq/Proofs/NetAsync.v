(* C18: the dns.asyncquery primitives (backend sockets that wait by themselves + the loops of
   asyncquery.py) compute exactly what the dns.query loops compute.  Hence every theorem about
   net_read / net_write_loop / receive_udp is a theorem about _read_exactly / sendall /
   asyncquery.receive_udp as well. *)
From DV Require Import Base.Prelude Model.NameM Model.NetM Proofs.NameOrder Proofs.NetUdp Proofs.NetStream.
Open Scope Z_scope.

(* would-blocks last a non-negative time (the clock never runs backwards) *)
Definition dt_ok (dt : option Z) : Prop := match dt with Some d => 0 <= d | None => True end.

Definition r_ok (e : rxev) : Prop := match e with RBlock dt => dt_ok dt | _ => True end.
Definition w_ok (e : txev) : Prop := match e with WBlock dt => dt_ok dt | _ => True end.
Definition u_ok (e : uev) : Prop := match e with UBlock dt => dt_ok dt | _ => True end.

(* a backend call that started at now0 <= now with timeout _timeout(expiration) waits exactly
   like _wait_for with the absolute expiration *)
Lemma wait_for_call_deadline now0 now exp dt :
  now0 <= now -> wait_for now (call_deadline now0 exp) dt = wait_for now exp dt.
Proof.
  intros H. destruct exp as [e|]; cbn [call_deadline]; auto.
  destruct (Z.max_spec (e - now0) 0) as [[H1 ->]|[H1 ->]].
  - unfold wait_for.
    assert (E1 : now0 + 0 - now <=? 0 = true) by (apply Z.leb_le; lia).
    assert (E2 : e - now <=? 0 = true) by (apply Z.leb_le; lia).
    rewrite E1, E2. reflexivity.
  - replace (now0 + (e - now0)) with e by lia. reflexivity.
Qed.

Lemma wait_for_mono now exp dt now' : dt_ok dt -> wait_for now exp dt = Ok now' -> now <= now'.
Proof.
  unfold wait_for, dt_ok. destruct exp as [e|].
  - destruct (e - now <=? 0); [discriminate|]. destruct dt as [d|]; [|discriminate].
    destruct (d <? e - now); [|discriminate]. intros H1 H2. inversion H2. lia.
  - destruct dt as [d|]; [|discriminate]. intros H1 H2. inversion H2. lia.
Qed.

(* ------------------------------------------------------------------ *)
(* _read_exactly = _net_read                                            *)

Section ReadEq.
  Variable exp : option Z.

  (* one iteration of _read_exactly whose recv call started at now0 *)
  Definition aread_body (fuel : nat) (now0 : Z) (evs : list rxev) (stream : list Z) (count : nat)
             (s : list Z) (now : Z) : res (list Z * rsock) :=
    match arecv (call_deadline now0 exp) evs stream count now with
    | Ok (n, evs', stream', now') =>
        match n with
        | [] => Lib neEOF
        | _ => aread_exactly fuel exp evs' stream' (count - length n) (s ++ n) now'
        end
    | Lib e => Lib e
    | Internal e => Internal e
    end.

  Lemma aread_exactly_unfold fuel evs stream c s now :
    aread_exactly (S fuel) exp evs stream (S c) s now = aread_body fuel now evs stream (S c) s now.
  Proof. reflexivity. Qed.

  Lemma aread_body_eq : forall evs fuel now0 stream c s now,
    Forall r_ok evs -> now0 <= now -> (length evs + 1 <= fuel)%nat ->
    aread_body fuel now0 evs stream (S c) s now = net_read_loop exp evs stream (S c) s now.
  Proof.
    induction evs as [|ev evs IH]; intros fuel now0 stream c s now Hok Hle Hf.
    - unfold aread_body. cbn [arecv net_read_loop].
      remember (firstn (S c) stream) as n eqn:En.
      destruct n as [|x n'].
      + symmetry in En. apply firstn_nil_inv in En. destruct En as [E|E]; [discriminate|]. subst stream.
        reflexivity.
      + assert (Hlen : length (x :: n') = Nat.min (S c) (length stream)) by (rewrite En; apply firstn_length).
        destruct (Nat.leb (S c) (length stream)) eqn:L.
        * apply Nat.leb_le in L. rewrite Nat.min_l in Hlen by lia. rewrite Hlen, Nat.sub_diag.
          destruct fuel; reflexivity.
        * apply Nat.leb_gt in L. rewrite Nat.min_r in Hlen by lia.
          destruct fuel as [|fuel]; [cbn in Hf; lia|].
          remember (S c - length (x :: n'))%nat as c' eqn:Ec.
          destruct c' as [|c']; [lia|].
          rewrite aread_exactly_unfold. unfold aread_body. cbn [arecv].
          rewrite skipn_all2 by lia. reflexivity.
    - inversion Hok as [|? ? Hev Hrest]; subst.
      destruct fuel as [|fuel]; [cbn in Hf; lia|].
      destruct ev as [k|dt|]; unfold aread_body; cbn [arecv net_read_loop].
      + destruct (firstn (Nat.min k (S c)) stream) as [|x n'] eqn:En; [reflexivity|].
        remember (S c - length (x :: n'))%nat as c' eqn:Ec.
        destruct c' as [|c'].
        * destruct evs; reflexivity.
        * rewrite aread_exactly_unfold. apply IH; auto; try lia. cbn [length] in Hf. lia.
      + rewrite wait_for_call_deadline by auto.
        destruct (wait_for now exp dt) as [now'| |] eqn:W; cbn [bind]; auto.
        assert (now <= now') by (eapply wait_for_mono; eauto).
        specialize (IH (S fuel) now0 stream c s now' Hrest).
        unfold aread_body in IH. apply IH; [lia|]. cbn [length] in Hf. lia.
      + reflexivity.
  Qed.

  Theorem async_read_exactly_eq_net_read sk count :
    Forall r_ok (rs_evs sk) ->
    aread_exactly (length (rs_evs sk) + 2) exp (rs_evs sk) (rs_stream sk) count [] (rs_now sk)
    = net_read exp sk count.
  Proof.
    intros Hok. unfold net_read. destruct count as [|c].
    - destruct (rs_evs sk); reflexivity.
    - replace (length (rs_evs sk) + 2)%nat with (S (length (rs_evs sk) + 1)) by lia.
      rewrite aread_exactly_unfold. apply aread_body_eq; auto; lia.
  Qed.
End ReadEq.

(* ------------------------------------------------------------------ *)
(* sendall = _net_write                                                 *)

Lemma asendall_eq exp : forall evs now0 data sent now,
  Forall w_ok evs -> now0 <= now ->
  asendall (call_deadline now0 exp) evs data sent now = net_write_loop exp evs data sent now.
Proof.
  induction evs as [|ev evs IH]; intros now0 data sent now Hok Hle.
  - destruct data; reflexivity.
  - inversion Hok as [|? ? Hev Hrest]; subst.
    destruct data as [|x data]; [reflexivity|]. cbn [asendall net_write_loop].
    destruct ev as [k|dt].
    + apply IH; auto.
    + rewrite wait_for_call_deadline by auto.
      destruct (wait_for now exp dt) as [now'| |] eqn:W; cbn [bind]; auto.
      apply IH; auto. assert (now <= now') by (eapply wait_for_mono; eauto). lia.
Qed.

Theorem async_sendall_eq_net_write exp evs data now :
  Forall w_ok evs ->
  asendall (call_deadline now exp) evs data [] now = net_write_loop exp evs data [] now.
Proof. intros. apply asendall_eq; auto. lia. Qed.

(* ------------------------------------------------------------------ *)
(* asyncquery.receive_udp = query.receive_udp                           *)

Section UdpEq.
  Variable parse : list Z -> pabs.
  Variables (af : Z) (dest : option addr) (exp : option Z) (o : uopts) (query : option msg).

  (* the rest of an iteration whose recvfrom started at now0 *)
  Definition areceive_body (fuel : nat) (now0 : Z) (evs : list uev) (now : Z) (i : nat) : ures :=
    match arecvfrom (call_deadline now0 exp) evs now i with
    | (j, Lib e) => (j, Lib e)
    | (j, Internal e) => (j, Internal e)
    | (j, Ok (wire, from, r, now')) =>
        match matches_destination af from dest (o_ignore_unexpected o) with
        | Lib e => (j, Lib e)
        | Internal e => (j, Internal e)
        | Ok false => areceive_udp parse fuel af dest exp o query r now' j
        | Ok true =>
            match from_wire_out (parse wire) (o_ignore_trailing o) (o_raise_on_truncation o) with
            | PTrunc m =>
                if o_ignore_errors o
                   && match query with Some q => negb (is_response q m) | None => false end
                then areceive_udp parse fuel af dest exp o query r now' j
                else (j, Lib neTruncated)
            | PErr e =>
                if o_ignore_errors o then areceive_udp parse fuel af dest exp o query r now' j
                else (j, err_res e)
            | POk m =>
                if o_ignore_errors o
                   && match query with Some q => negb (is_response q m) | None => false end
                then areceive_udp parse fuel af dest exp o query r now' j
                else (j, Ok (m, wire, now', from, r))
            end
        end
    end.

  Lemma areceive_udp_unfold fuel evs now i :
    areceive_udp parse (S fuel) af dest exp o query evs now i = areceive_body fuel now evs now i.
  Proof. reflexivity. Qed.

  Lemma areceive_body_eq : forall evs fuel now0 now i,
    Forall u_ok evs -> now0 <= now -> (length evs <= fuel)%nat ->
    areceive_body fuel now0 evs now i = receive_udp parse af dest exp o query evs now i.
  Proof.
    induction evs as [|ev evs IH]; intros fuel now0 now i Hok Hle Hf.
    - unfold areceive_body. cbn [arecvfrom receive_udp].
      rewrite wait_for_call_deadline by auto.
      destruct (wait_for now exp None); reflexivity.
    - inversion Hok as [|? ? Hev Hrest]; subst.
      destruct fuel as [|fuel]; [cbn in Hf; lia|]. cbn [length] in Hf.
      destruct ev as [w f|dt]; unfold areceive_body; cbn [arecvfrom receive_udp].
      + assert (R : forall j, areceive_udp parse (S fuel) af dest exp o query evs now j
                          = receive_udp parse af dest exp o query evs now j).
        { intros j. rewrite areceive_udp_unfold. apply IH; auto; lia. }
        destruct (matches_destination af f dest (o_ignore_unexpected o)) as [[|]| |]; auto.
        destruct (from_wire_out (parse w) (o_ignore_trailing o) (o_raise_on_truncation o)) as [m|m|e].
        * destruct (o_ignore_errors o && match query with Some q => negb (is_response q m) | None => false end); auto.
        * destruct (o_ignore_errors o && match query with Some q => negb (is_response q m) | None => false end); auto.
        * destruct (o_ignore_errors o); auto.
      + rewrite wait_for_call_deadline by auto.
        destruct (wait_for now exp dt) as [now'| |] eqn:W; auto.
        assert (now <= now') by (eapply wait_for_mono; eauto).
        specialize (IH (S fuel) now0 now' (S i) Hrest).
        unfold areceive_body in IH. apply IH; lia.
  Qed.

  Theorem async_receive_udp_eq evs now i :
    Forall u_ok evs ->
    areceive_udp parse (S (length evs)) af dest exp o query evs now i
    = receive_udp parse af dest exp o query evs now i.
  Proof.
    intros Hok. rewrite areceive_udp_unfold. apply areceive_body_eq; auto; lia.
  Qed.
End UdpEq.
