(* C20: dns.zone._validate_name returns names at or beneath the apex, with the zone's relativity. *)
From DV Require Import Base.Prelude Model.NameM Model.BTZoneM
     Proofs.BTZoneOrder Proofs.BTZoneList Proofs.BTZoneSpec Proofs.BTZoneInv Proofs.BTZoneMain
     Proofs.BTZoneBounds2 Proofs.BTZoneBounds3.
Open Scope Z_scope.

(* what the Name constructor guarantees: only the last label may be empty *)
Definition wf_labels (n : name) : Prop := forall l, In l (removelast n) -> l <> [].

Lemma mk_name_ok : forall x y, mk_name x = Ok y -> y = x.
Proof. intros x y H. unfold mk_name in H. destruct (validate_labels x); inversion H; auto. Qed.

Lemma is_absolute_false_nonempty : forall m : name, (forall l, In l m -> l <> []) -> is_absolute m = false.
Proof.
  induction m as [|x m IH]; intros H; auto. cbn. destruct m as [|y m].
  - destruct x; auto. exfalso. apply (H []); [left|]; auto.
  - apply IH. intros l Hl. apply H. right; auto.
Qed.

Lemma firstn_in_removelast : forall (n : name) k l, (k < length n)%nat -> In l (firstn k n) -> In l (removelast n).
Proof.
  induction n as [|x n IH]; intros k l Hk Hin; [cbn in Hk; lia|].
  destruct k as [|k]; [destruct Hin|]. cbn [firstn] in Hin. destruct n as [|y n].
  - cbn in Hk. lia.
  - cbn [removelast]. destruct Hin as [<-|Hin]; [left; auto|]. right. apply (IH k); auto. cbn in *. lia.
Qed.

Lemma is_absolute_app : forall (n o : name), o <> [] -> is_absolute (n ++ o) = is_absolute o.
Proof.
  induction n as [|x n IH]; intros o Ho; auto. cbn [app]. destruct (n ++ o) eqn:E.
  - apply app_eq_nil in E as [_ ->]. congruence.
  - rewrite <- E. cbn. rewrite E. rewrite <- E. apply IH; auto.
Qed.

Lemma below_empty : forall n, below (K n) (K empty) <-> is_absolute n = false.
Proof.
  intros n. rewrite below_split. unfold empty. cbn. split; [tauto|]. intros H. split; auto. exists (lkey n). reflexivity.
Qed.

Theorem validate_valid : forall c n,
    is_absolute (c_origin c) = true -> wf_labels n -> name_ok c n.
Proof.
  intros c n Ho Hwf n' H. unfold validate_name in H. unfold validk, apexkey, apexname.
  pose proof (is_absolute_nonempty _ Ho) as Hlen.
  destruct (is_absolute n) eqn:Ea.
  - destruct (is_subdomain n (c_origin c)) eqn:Es; cbn [negb] in H; [|discriminate].
    destruct (c_rel c).
    + unfold relativize in H. rewrite Es in H. apply mk_name_ok in H. subst n'.
      apply below_empty. unfold drop_last. apply is_absolute_false_nonempty.
      intros l Hl. apply Hwf. eapply firstn_in_removelast; eauto.
      apply is_subdomain_below, below_split in Es as [_ Hp]. apply prefix_length in Hp.
      rewrite !length_lkey in Hp. pose proof (is_absolute_nonempty _ Ea). lia.
    + inversion H; subst. apply is_subdomain_below; auto.
  - unfold derelativize in H. rewrite Ea in H. cbn [negb] in H. unfold concatenate in H. rewrite Ea in H.
    cbn [andb] in H. destruct (mk_name (n ++ c_origin c)) as [y|e|e] eqn:Em.
    + apply mk_name_ok in Em. subst y. destruct (c_rel c); cbn [negb] in H; inversion H; subst n'.
      * apply below_empty; auto.
      * apply below_split. split.
        -- apply is_absolute_app. intros E. rewrite E in Hlen. cbn in Hlen. lia.
        -- unfold lkey. rewrite map_app, rev_app_distr. eexists. reflexivity.
    + destruct (e =? eNameTooLong); discriminate.
    + discriminate.
Qed.

Theorem bounds_eq_spec_hist : forall c h q0 q,
    history_ok c h -> is_absolute (c_origin c) = true ->
    In (apexkey c) (keys (z_nodes (exec c h))) ->
    validate_name c q0 = Ok q -> validk c (ekey q) ->
    exists b, bounds_v c (exec c h) q0 = Ok b /\ bounds_spec c (z_nodes (exec c h)) q b.
Proof. intros c h q0 q Hh. apply bounds_eq_spec_main. apply exec_inv. exact Hh. Qed.

(* histories whose operation names are Name objects are acceptable histories *)
Theorem wf_history_ok : forall c h,
    is_absolute (c_origin c) = true ->
    Forall (fun t => Forall (fun o => wf_labels (top_name o)) (t_ops t)) h -> history_ok c h.
Proof.
  intros c h Ho H. unfold history_ok, txn_ok. eapply Forall_impl; [|exact H].
  intros t Ht. eapply Forall_impl; [|exact Ht]. intros o Hw. apply validate_valid; auto.
Qed.

(* Delegations.get_delegation / is_glue on a committed version *)
Theorem get_delegation_eq_spec_main : forall c h q,
    history_ok c h ->
    let z := exec c h in
    match get_delegation (z_delegs z) q with
    | (Some cut, sub) =>
        In (ekey cut) (map ekey (delegations_of c (z_nodes z))) /\ is_subdomain q cut = true /\
        sub = strictly_beneath q cut
    | (None, sub) =>
        sub = false /\ forall d0, In d0 (delegations_of c (z_nodes z)) -> is_subdomain q d0 = false
    end /\
    deleg_is_glue (z_delegs z) q = glue_name c (z_nodes z) q.
Proof.
  intros c h q Hh z. pose proof (exec_inv c h Hh) as HI. fold z in HI. unfold ZInv in HI.
  pose proof (inv_sd c _ HI) as Sd. cbn [v_delegs] in Sd. split.
  - destruct (get_delegation (z_delegs z) q) as [[cut|] sub] eqn:G.
    + apply gd_sound in G as (Hin & Hb & Hs); auto. split; [|split; auto].
      * apply delegations_of_in. apply (inv_d c _ HI). apply (in_keys _ cut tt); auto.
      * apply is_subdomain_below; auto.
    + assert (Hnone : forall d0, In d0 (delegations_of c (z_nodes z)) -> is_subdomain q d0 = false).
      { intros d0 Hd0. apply not_true_is_false. intros Hs.
        assert (Hk : In (ekey d0) (keys (z_delegs z))).
        { apply (inv_d c _ HI). cbn [v_nodes]. apply delegations_of_in. apply in_map. auto. }
        apply keys_in in Hk as (x & [] & Hinx & Ex).
        destruct (gd_complete (z_delegs z) q x Sd (inv_antichain c _ HI) Hinx) as (x' & _ & G').
        { rewrite Ex. apply is_subdomain_below. auto. }
        rewrite G' in G. discriminate. }
      split; auto. unfold get_delegation in G.
      destruct (c_prev (c_seek (z_delegs z) q)) as [[[g u]|] cur]; [|inversion G; auto].
      destruct ((reln q g =? rSUB) || (reln q g =? rEQUAL)); inversion G; auto.
  - rewrite glue_name_occluded. apply (inv_is_glue c _ HI).
Qed.

Definition names_wf (h : list txn) : Prop :=
  Forall (fun t => Forall (fun o => wf_labels (top_name o)) (t_ops t)) h.

Theorem incremental_eq_spec_names : forall c h,
    is_absolute (c_origin c) = true -> names_wf h ->
    let z := exec c h in
    (forall n nd, In (n, nd) (z_nodes z) -> nflags nd = flags_of c (z_nodes z) (n, nd)) /\
    map ekey (map fst (z_delegs z)) = map ekey (delegations_of c (z_nodes z)) /\
    increasing (map fst (z_nodes z)).
Proof.
  intros c h Ho Hw z. pose proof (wf_history_ok c h Ho Hw) as Hh.
  destruct (incremental_eq_spec_main c h Hh) as [A B]. split; [exact A|]. split; [exact B|].
  apply iteration_canonical_main; auto.
Qed.
