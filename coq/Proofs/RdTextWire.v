(* Accepted from text => encodable, for every field of every modelled type: whatever dns.rdata.from_text
   returns for a schema type satisfies the conditions under which the type's _to_wire cannot fail
   (struct.pack ranges, the `assert l < 256` of counted strings, window / octet counts of type bitmaps,
   address and name conversions that are repeated by _to_wire). *)
From DV Require Import Base.Prelude Model.NameM Model.TokM Model.RdTextM.
From DV Require Import Proofs.NameValid Proofs.TokEsc Proofs.RdTextName Proofs.RdTextAddr Proofs.RdTextBitmap Proofs.RdText Proofs.RdTextRel.
Open Scope Z_scope.

Ltac Zify.zify_post_hook ::= Z.to_euclidean_division_equations.

Definition win_ok (w : bwindow) : Prop := 0 <= fst w <= 255 /\ (1 <= length (snd w) <= 32)%nat.

Definition wire_extra (f : tfield) (v : tval) : Prop :=
  match f, v with
  | FName, VName n => Valid n
  | FNameNoRel, VName n => Valid n
  | FNamesRest, VNames l => Forall Valid l
  | FTxtRest, VStrs l => l <> [] /\ Forall (fun s => zlen s <= 255) l
  | FBitmap, VWindows ws => Forall win_ok ws
  | FAddr v6, VBytes b => exists t, (if v6 then ipv6_aton t else ipv4_aton t) = Ok b
  | FEui n, VBytes b => length b = n
  | FFmtHex, VBytes t => fmthex_ok t = true
  | FGw _, VGw g a gw =>
      0 <= g <= 3 /\ 0 <= a <= 255 /\
      match gw with
      | GwNone => g = 0
      | GwText t => (g = 1 /\ exists b, ipv4_aton t = Ok b) \/ (g = 2 /\ exists b, ipv6_aton t = Ok b)
      | GwName n => g = 3 /\ Valid n
      end
  | FSvcbRec, VSvcb p n _ => 0 <= p <= 65535 /\ Valid n
  | FAplRest, VApl items =>      (* struct "!HBB": family, prefix; `assert l < 128` for the address *)
      Forall (fun it : aplitem => let '(f, _, a, p) := it in 0 <= f <= 65535 /\ 0 <= p <= 255) items
  | _, _ => True
  end.

Definition wire_ok (f : tfield) (v : tval) : Prop := val_encodable f v /\ wire_extra f v.

(* ---------- TXT strings ---------- *)
Lemma txt_strings_len toks : forall l, txt_strings toks = Ok l -> Forall (fun s => zlen s <= 255) l.
Proof.
  induction toks as [|t toks IH]; intros l H; cbn [txt_strings] in H; [inversion H; constructor|].
  destruct (unescape_to_bytes t) as [t'| |]; cbn [bind] in H; try discriminate.
  destruct (negb (is_quoted t' || is_identifier t')); try discriminate.
  destruct (zlen (tvalue t') >? 255) eqn:E; try discriminate.
  destruct (txt_strings toks) as [r| |]; cbn [bind] in H; try discriminate. inversion H; subst.
  constructor; [lia|apply IH; reflexivity].
Qed.

(* ---------- type bitmaps ---------- *)
Lemma assoc_text_in k t v : assoc_text k t = Some v -> In v (map snd t).
Proof.
  induction t as [|[n x] t IH]; cbn [assoc_text]; [discriminate|].
  destruct (zlist_eqb k n); [intros H; inversion H; left; reflexivity|intros H; right; apply IH, H].
Qed.

Lemma rdtype_names_range : forallb (fun v => (0 <=? v) && (v <=? 65535)) (map snd rdtype_names) = true.
Proof. vm_compute. reflexivity. Qed.

Lemma dec_value_nonneg s : forall a, 0 <= a -> forallb is_decimal s = true -> 0 <= dec_value s a.
Proof.
  induction s as [|x s IHs]; intros a Ha Hs; [exact Ha|]. cbn [forallb] in Hs. apply andb_true_iff in Hs as [Hx Hs].
  cbn [dec_value]. apply IHs; [unfold is_decimal in Hx; lia|exact Hs].
Qed.

Lemma rdtype_from_text_range t v : rdtype_from_text t = Ok v -> 0 <= v <= 65535.
Proof.
  unfold rdtype_from_text.
  assert (T : forall k x, assoc_text k rdtype_names = Some x -> 0 <= x <= 65535).
  { intros k x H. apply assoc_text_in in H. pose proof rdtype_names_range as R. rewrite forallb_forall in R.
    specialize (R x H). lia. }
  destruct (assoc_text (map upper_c t) rdtype_names) as [x|] eqn:E1; [intros H; inversion H; subst; eapply T; eauto|].
  destruct (if existsb (Z.eqb 45) (map upper_c t) then assoc_text (replace_char 45 95 (map upper_c t)) rdtype_names else None)
    as [x|] eqn:E2.
  { intros H; inversion H; subst. destruct (existsb (Z.eqb 45) (map upper_c t)); [eapply T; eauto|discriminate]. }
  destruct (starts_with [84; 89; 80; 69] (map upper_c t) && negb (is_nil (skipn 4 (map upper_c t)))
            && forallb is_decimal (skipn 4 (map upper_c t))) eqn:E3; [|discriminate].
  destruct (dec_value (skipn 4 (map upper_c t)) 0 >? 65535) eqn:E4; [discriminate|].
  intros H. assert (Hv : v = dec_value (skipn 4 (map upper_c t)) 0) by congruence. rewrite Hv.
  apply andb_true_iff in E3 as [_ E3]. split; [apply dec_value_nonneg; [lia|exact E3]|lia].
Qed.

Lemma token_types_range toks : forall ts, map_res bitmap_token_type toks = Ok ts -> Forall (fun t => 0 <= t <= 65535) ts.
Proof.
  induction toks as [|t toks IH]; intros ts H; cbn [map_res] in H; [inversion H; constructor|].
  destruct (bitmap_token_type t) as [v| |] eqn:E; cbn [bind] in H; try discriminate.
  destruct (map_res bitmap_token_type toks) as [r| |]; cbn [bind] in H; try discriminate. inversion H; subst.
  constructor; [|apply IH; reflexivity]. unfold bitmap_token_type in E.
  destruct (unescape t) as [u| |]; cbn [bind] in E; try discriminate.
  destruct (rdtype_from_text (tvalue u)) as [x| |] eqn:Er; cbn [bind] in E; try discriminate.
  destruct (x =? 0); [discriminate|]. inversion E; subst. eapply rdtype_from_text_range; eauto.
Qed.

Lemma insert_sorted_forall (P : Z -> Prop) x l : P x -> Forall P l -> Forall P (insert_sorted x l).
Proof.
  intros Hx. induction 1 as [|y l Hy Hl IH]; cbn [insert_sorted]; [repeat constructor; exact Hx|].
  destruct (x <=? y); repeat constructor; auto.
Qed.

Lemma sort_z_forall (P : Z -> Prop) l : Forall P l -> Forall P (sort_z l).
Proof. induction 1 as [|x l Hx Hl IH]; [constructor|]. cbn [sort_z fold_right]. apply insert_sorted_forall; assumption. Qed.

Lemma set_nth_length i f l : length (set_nth i f l) = length l.
Proof. revert i. induction l as [|x l IH]; intros [|i]; cbn [set_nth length]; auto. Qed.

Lemma frt_loop_ok ts : Forall (fun t => 0 <= t <= 65535) ts ->
  forall window octets prior bitmap acc,
  0 <= window <= 255 -> 0 <= octets <= 32 -> length bitmap = 32%nat -> Forall win_ok acc ->
  match frt_loop ts window octets prior bitmap acc with
  | (w, o, b, a) => 0 <= w <= 255 /\ 0 <= o <= 32 /\ length b = 32%nat /\ Forall win_ok a
  end.
Proof.
  induction 1 as [|t ts Ht _ IH]; intros window octets prior bitmap acc Hw Ho Hb Ha; cbn [frt_loop]; [auto|].
  destruct (t =? prior); [apply IH; assumption|]. cbv zeta.
  apply IH.
  - lia.
  - lia.
  - rewrite set_nth_length. destruct (negb (t / 256 =? window)); [apply repeat_length|exact Hb].
  - destruct (negb (t / 256 =? window) && negb (octets =? 0)) eqn:E; [|exact Ha].
    apply Forall_app. split; [exact Ha|]. constructor; [|constructor].
    unfold win_ok. cbn [fst snd]. rewrite firstn_length, Hb. apply andb_true_iff in E as [_ E]. split; lia.
Qed.

Lemma from_rdtypes_ok ts : Forall (fun t => 0 <= t <= 65535) ts -> Forall win_ok (from_rdtypes ts).
Proof.
  intros H. unfold from_rdtypes.
  pose proof (frt_loop_ok (sort_z ts) (sort_z_forall _ _ H) 0 0 0 (repeat 0 32) [] ltac:(lia) ltac:(lia)
                (repeat_length _ _) (Forall_nil _)) as G.
  destruct (frt_loop (sort_z ts) 0 0 0 (repeat 0 32) []) as [[[w o] b] a]. destruct G as (G1 & G2 & G3 & G4).
  destruct (negb (o =? 0)) eqn:E; [|exact G4].
  apply Forall_app. split; [exact G4|]. constructor; [|constructor].
  unfold win_ok. cbn [fst snd]. rewrite firstn_length, G3. split; lia.
Qed.

(* ---------- names ---------- *)
Lemma names_valid c toks : forall ns, map_res (as_name c) toks = Ok ns -> Forall Valid ns.
Proof.
  induction toks as [|t toks IH]; intros ns H; cbn [map_res] in H; [inversion H; constructor|].
  destruct (as_name c t) as [n| |] eqn:E; cbn [bind] in H; try discriminate.
  destruct (map_res (as_name c) toks) as [r| |]; cbn [bind] in H; try discriminate. inversion H; subst.
  constructor; [eapply as_name_valid; eauto|apply IH; reflexivity].
Qed.

Lemma get_name_valid c st n st' : get_name c st = Ok (n, st') -> Valid n.
Proof.
  unfold get_name. destruct (get0 st) as [[t s1]| |]; cbn [bind fst snd]; try discriminate.
  destruct (as_name c t) as [m| |] eqn:E; cbn [bind]; try discriminate. intros H; inversion H; subst.
  eapply as_name_valid; eauto.
Qed.

(* ---------- APL items ---------- *)
Lemma apl_ctor_range f n a p it : apl_ctor f n a p = Ok it -> let '(f', _, _, p') := it in 0 <= f' <= 65535 /\ 0 <= p' <= 255.
Proof.
  unfold apl_ctor. destruct ((f <? 0) || (f >? 65535)) eqn:Ef; [discriminate|].
  destruct (f =? 1).
  - destruct (ipv4_aton a); cbn [bind]; try discriminate. destruct ((p <? 0) || (p >? 32)) eqn:Ep; [discriminate|].
    intros H; inversion H; subst. lia.
  - destruct (f =? 2).
    + destruct (ipv6_aton a); cbn [bind]; try discriminate. destruct ((p <? 0) || (p >? 128)) eqn:Ep; [discriminate|].
      intros H; inversion H; subst. lia.
    + destruct (utf8_encode a) as [e| |]; cbn [bind]; try discriminate. destruct (zlen e >? 127); [discriminate|].
      destruct (unhexlify e); cbn [bind]; try discriminate. destruct ((p <? 0) || (p >? 255)) eqn:Ep; [discriminate|].
      intros H; inversion H; subst. lia.
Qed.

Lemma apl_items_range toks : forall items, map_res apl_item_of_token toks = Ok items ->
  Forall (fun it : aplitem => let '(f, _, a, p) := it in 0 <= f <= 65535 /\ 0 <= p <= 255) items.
Proof.
  induction toks as [|t toks IH]; intros items H; cbn [map_res] in H; [inversion H; constructor|].
  destruct (apl_item_of_token t) as [it| |] eqn:E; cbn [bind] in H; try discriminate.
  destruct (map_res apl_item_of_token toks) as [r| |]; cbn [bind] in H; try discriminate. inversion H; subst.
  constructor; [|apply IH; reflexivity]. unfold apl_item_of_token in E.
  destruct (unescape t) as [u| |]; cbn [bind] in E; try discriminate.
  destruct (tvalue u) as [|c r0]; [discriminate|].
  destruct (split_once 58 (if c =? 33 then r0 else c :: r0)) as [[fam rest]|]; [|discriminate].
  destruct (py_int 10 fam) as [fv|]; [|discriminate].
  destruct (split_once 47 rest) as [[ad pfx]|]; [|discriminate].
  destruct (py_int 10 pfx) as [pv|]; [|discriminate].
  pose proof (apl_ctor_range _ _ _ _ _ E) as G. destruct it as [[[f' n'] a'] p']. exact G.
Qed.

(* ---------- one field ---------- *)
Theorem parse_field_wire c f st raw st' v :
  parse_field c f st = Ok (raw, st') -> ctor_field f raw = Ok v -> wire_ok f v.
Proof.
  intros H Hc. split; [eapply parse_field_encodable; eauto|].
  destruct f; cbn [parse_field] in H; try (destruct v; exact Logic.I).
  - (* FName *)
    destruct (get_name c st) as [[n s1]| |] eqn:E; cbn [bind fst snd] in H; try discriminate.
    inversion H; subst. cbn [ctor_field] in Hc. inversion Hc; subst. cbn [wire_extra]. eapply get_name_valid; eauto.
  - (* FTxtRest *)
    unfold txt_from_text in H.
    destruct (get_remaining st 0) as [[toks s1]| |]; cbn [bind fst snd] in H; try discriminate.
    destruct (txt_strings toks) as [l| |] eqn:E; cbn [bind fst snd] in H; try discriminate.
    destruct (is_nil l) eqn:En; cbn [bind fst snd] in H; try discriminate. inversion H; subst.
    cbn [ctor_field] in Hc. inversion Hc; subst. cbn [wire_extra]. split; [intros ->; discriminate|eapply txt_strings_len; eauto].
  - (* FAddr *)
    destruct (get_identifier st) as [[t s1]| |]; cbn [bind fst snd] in H; try discriminate. inversion H; subst.
    cbn [ctor_field] in Hc.
    destruct (if v6 then ipv6_aton t else ipv4_aton t) as [b| |] eqn:E; cbn [bind] in Hc; try discriminate.
    inversion Hc; subst. cbn [wire_extra]. exists t. exact E.
  - (* FBitmap *)
    destruct (get_remaining st 0) as [[toks s1]| |]; cbn [bind fst snd] in H; try discriminate.
    destruct (map_res bitmap_token_type toks) as [ts| |] eqn:E; cbn [bind fst snd] in H; try discriminate.
    inversion H; subst. cbn [ctor_field] in Hc. inversion Hc; subst. cbn [wire_extra].
    apply from_rdtypes_ok. eapply token_types_range; eauto.
  - (* FEui *)
    destruct (get_string st 0) as [[t s1]| |]; cbn [bind fst snd] in H; try discriminate.
    destruct (eui_from_text n t) as [b| |]; cbn [bind fst snd] in H; try discriminate. inversion H; subst.
    cbn [ctor_field] in Hc. destruct (Nat.eqb (length b) n) eqn:E; cbn [negb] in Hc; try discriminate.
    inversion Hc; subst. cbn [wire_extra]. apply Nat.eqb_eq, E.
  - (* FFmtHex *)
    destruct (get_identifier st) as [[t s1]| |]; cbn [bind fst snd] in H; try discriminate. inversion H; subst.
    cbn [ctor_field] in Hc. destruct (fmthex_ok t) eqn:E; try discriminate. inversion Hc; subst. exact E.
  - (* FNamesRest *)
    destruct (get_remaining st 0) as [[toks s1]| |]; cbn [bind fst snd] in H; try discriminate.
    destruct (map_res (as_name c) toks) as [ns| |] eqn:E; cbn [bind fst snd] in H; try discriminate.
    inversion H; subst. cbn [ctor_field] in Hc. inversion Hc; subst. cbn [wire_extra]. eapply names_valid; eauto.
  - (* FNameNoRel *)
    destruct (get_name (mkPctx None false None) st) as [[n s1]| |] eqn:E; cbn [bind fst snd] in H; try discriminate.
    inversion H; subst. cbn [ctor_field] in Hc. inversion Hc; subst. cbn [wire_extra]. eapply get_name_valid; eauto.
  - (* FGw *)
    destruct (get_uint max8 st 10) as [[g s1]| |] eqn:Eg; cbn [bind fst snd] in H; try discriminate.
    assert (Ha : exists a s2, (if ipsec then get_uint max8 s1 10 else if g >? 127 then Lib eSyntax else Ok (0, s1)) = Ok (a, s2)
                             /\ 0 <= a <= 255).
    { destruct ipsec.
      - destruct (get_uint max8 s1 10) as [[a s2]| |] eqn:Ea; cbn [bind] in H; try discriminate.
        exists a, s2. split; [reflexivity|]. pose proof (get_uint_range _ _ _ _ Ea) as G. unfold max8 in G. lia.
      - destruct (g >? 127); cbn [bind] in H; try discriminate. exists 0, s1. split; [reflexivity|lia]. }
    destruct Ha as (a & s2 & Ea & Har). rewrite Ea in H. cbn [bind fst snd] in H.
    assert (Hv : exists gw, gw_check g a gw = Ok raw /\ match gw with GwName n => Valid n | _ => True end).
    { destruct ((g =? 0) || (g =? 1) || (g =? 2)).
      - destruct (get_string s2 0) as [[t s3]| |]; cbn [bind fst snd] in H; try discriminate.
        destruct (gw_check g a (GwText t)) as [r| |] eqn:Ec; cbn [bind] in H; try discriminate. inversion H; subst.
        exists (GwText t). split; [exact Ec|exact Logic.I].
      - destruct (g =? 3); [|discriminate].
        destruct (get_name c s2) as [[n s3]| |] eqn:En; cbn [bind fst snd] in H; try discriminate.
        destruct (gw_check g a (GwName n)) as [r| |] eqn:Ec; cbn [bind] in H; try discriminate. inversion H; subst.
        exists (GwName n). split; [exact Ec|eapply get_name_valid; eauto]. }
    destruct Hv as (gw & Ec & Hn). cbn [ctor_field] in Hc. inversion Hc; subst v. clear Hc.
    unfold gw_check in Ec.
    destruct (g =? 0) eqn:E0.
    { destruct gw as [|t|n]; try discriminate. destruct (zlist_eqb t [46]); try discriminate. inversion Ec; subst. cbn [wire_extra].
      repeat split; lia. }
    destruct (g =? 1) eqn:E1.
    { destruct gw as [|t|n]; try discriminate. destruct (ipv4_aton t) as [b| |] eqn:Eb; cbn [bind] in Ec; try discriminate.
      inversion Ec; subst. cbn [wire_extra]. split; [lia|]. split; [lia|]. left. split; [lia|]. exists b. exact Eb. }
    destruct (g =? 2) eqn:E2.
    { destruct gw as [|t|n]; try discriminate. destruct (ipv6_aton t) as [b| |] eqn:Eb; cbn [bind] in Ec; try discriminate.
      inversion Ec; subst. cbn [wire_extra]. split; [lia|]. split; [lia|]. right. split; [lia|]. exists b. exact Eb. }
    destruct (g =? 3) eqn:E3; [|discriminate].
    destruct gw as [|t|n]; try discriminate. inversion Ec; subst. cbn [wire_extra].
    split; [lia|]. split; [lia|]. split; [lia|exact Hn].
  - (* FSvcbRec *)
    destruct (svcb_from_text c st) as [[[[p n] ps] s4]| |] eqn:E; cbn [bind] in H; try discriminate. inversion H; subst.
    cbn [ctor_field] in Hc. inversion Hc; subst. cbn [wire_extra].
    unfold svcb_from_text in E.
    destruct (get_uint max16 st 10) as [[p0 s1]| |] eqn:Ep; cbn [bind fst snd] in E; try discriminate.
    destruct (get_name c s1) as [[n0 s2]| |] eqn:En; cbn [bind fst snd] in E; try discriminate.
    match type of E with (do st1 <- ?e; _) = _ => destruct e as [s3| |]; cbn [bind] in E; try discriminate end.
    destruct (svcb_params_loop (rem_fuel s3) s3 []) as [[ps0 s5]| |]; cbn [bind fst snd] in E; try discriminate.
    destruct (svcb_ctor_ok ps0); try discriminate. inversion E; subst.
    split; [pose proof (get_uint_range _ _ _ _ Ep) as G; unfold max16 in G; lia|eapply get_name_valid; eauto].
  - (* FAplRest *)
    destruct (get_remaining st 0) as [[toks s1]| |]; cbn [bind fst snd] in H; try discriminate.
    destruct (map_res apl_item_of_token toks) as [items| |] eqn:E; cbn [bind fst snd] in H; try discriminate.
    inversion H; subst. cbn [ctor_field] in Hc. inversion Hc; subst. cbn [wire_extra]. eapply apl_items_range; eauto.
Qed.

(* ---------- the whole record ---------- *)
Lemma fields_wire c : forall fs st raws st', parse_fields c fs st = Ok (raws, st') ->
  forall vs, ctor_fields fs raws = Ok vs -> Forall2 wire_ok fs vs.
Proof.
  induction fs as [|f fs IH]; intros st raws st' H vs Hc.
  - cbn [parse_fields] in H. inversion H; subst. cbn [ctor_fields] in Hc. inversion Hc. constructor.
  - cbn [parse_fields] in H.
    destruct (parse_field c f st) as [[r s1]| |] eqn:E1; cbn [bind fst snd] in H; try discriminate.
    destruct (parse_fields c fs s1) as [[rs s2]| |] eqn:E2; cbn [bind fst snd] in H; try discriminate.
    inversion H; subst. cbn [ctor_fields] in Hc.
    destruct (ctor_field f r) as [v| |] eqn:E3; cbn [bind] in Hc; try discriminate.
    destruct (ctor_fields fs rs) as [vr| |] eqn:E4; cbn [bind] in Hc; try discriminate.
    inversion Hc; subst. constructor; [eapply parse_field_wire; eauto|eapply IH; eauto].
Qed.

Theorem class_from_text_wire c fs chk st vs st' :
  class_from_text c fs chk st = Ok (vs, st') -> Forall2 wire_ok fs vs.
Proof.
  unfold class_from_text. intros H.
  destruct (parse_fields c fs st) as [[raws s1]| |] eqn:E1; cbn [bind fst snd] in H; try discriminate.
  destruct (ctor_fields fs raws) as [v| |] eqn:E2; cbn [bind fst snd] in H; try discriminate.
  destruct (chk v); cbn [bind] in H; try discriminate. inversion H; subst. eapply fields_wire; eauto.
Qed.

(* ---------- statements used as they are by Props/C05.v ---------- *)
From DV Require Import Proofs.TokWords Proofs.TokHex.

Lemma chunked_wordbreak_roundtrip w chunk sep rest allow_empty :
  forallb safe w = true -> forallb is_blank sep = true ->
  (rest = [] \/ exists r, rest = 10 :: r) -> (allow_empty = true \/ w <> []) ->
  exists te st, is_eol_or_eof te = true /\ ungot st = Some te /\
    concatenate_remaining_identifiers (mkSt (wordbreak w chunk sep ++ rest) 0%nat false None) allow_empty
    = Ok (w, st).
Proof.
  intros Hw Hs Hr Hne.
  apply concatenate_chunked; [apply wordbreak_chunked; assumption|exact Hr|exact Hne].
Qed.

Lemma alphabets_safe d : all_bytes d = true ->
  forallb safe (hexlify d) = true /\ forallb safe (b64encode d) = true.
Proof. intros H. split; [apply (hexlify_safe d H)|apply (b64encode_safe d H)]. Qed.

Lemma schema_table_wf_all rdtype fs : schema_of rdtype = Some fs -> schema_wf fs.
Proof.
  unfold schema_of.
  repeat match goal with
         | |- (if ?b then _ else _) = _ -> _ => destruct b; [intros H; inversion H; subst; cbn; tauto|]
         end.
  discriminate.
Qed.

Lemma record_roundtrip_type rdtype fs sty c vs text vs' rest fw tw :
  schema_of rdtype = Some fs ->
  Forall2 val_ok fs vs -> style_ok sty -> (rest = [] \/ exists r, rest = 10 :: r) ->
  record_to_text sty fs vs = Ok text -> expects sty c fs vs = Ok vs' -> schema_chk rdtype vs' = Ok tt ->
  record_from_text_gen fw tw c fs (schema_chk rdtype) (text ++ rest) = Ok vs'.
Proof.
  intros Hs Hv Hst Hr Hp He Hc.
  exact (record_roundtrip sty c fs (schema_chk rdtype) vs text vs' rest fw tw (schema_table_wf_all rdtype fs Hs) Hv Hst Hr Hp He Hc).
Qed.

Lemma empty_rest_refuted :
  exists fs vs text, schema_of 44 = Some fs /\ record_to_text (mkStyle None false 128 [32] 32 [32] false) fs vs = Ok text /\
    record_from_text (mkPctx None true None) fs (schema_chk 44) (text ++ [10]) <> Ok vs.
Proof.
  exists [u8; u8; FHexRest], [VInt 1; VInt 1; VBytes []], [49; 32; 49; 32].
  split; [reflexivity|]. split; [reflexivity|]. vm_compute. discriminate.
Qed.
