(* Properties of the sequence of queries issued by one resolution:
   - a server that was taken out of the mix is never asked again (whole resolution),
   - a truncated UDP reply is followed by exactly one TCP query to the same server for the same name,
   - list.remove / the assertions of next_nameserver never fail. *)
From DV Require Import Base.Prelude Model.NameM Model.ResolM Proofs.ResolBase Proofs.ResolTerm.
Open Scope Z_scope.

Definition ids (l : list server) : list Z := map sv_id l.

Lemma remove_server_ids : forall x l l',
  remove_server x l = Some l' -> NoDup (ids l) ->
  NoDup (ids l') /\ ~ In (sv_id x) (ids l') /\ (forall i, In i (ids l') -> In i (ids l)) /\
  (forall i, In i (ids l) -> i = sv_id x \/ In i (ids l')).
Proof.
  induction l as [|y r IH]; intros l' H ND; simpl in H; try discriminate.
  simpl in ND. inversion ND as [|? ? NI ND']; subst.
  destruct (sv_id y =? sv_id x) eqn:E.
  - inversion H; subst. apply Z.eqb_eq in E. rewrite <- E. repeat split; auto.
    + intros i Hi. simpl. auto.
    + intros i Hi. simpl in Hi. destruct Hi; auto.
  - destruct (remove_server x r) as [r'|] eqn:ER; try discriminate.
    inversion H; subst. destruct (IH r' eq_refl ND') as (A & B & C & D).
    apply Z.eqb_neq in E. simpl. repeat split.
    + constructor; auto.
    + intros [HI|HI]; auto.
    + intros i [Hi|Hi]; auto.
    + intros i [Hi|Hi]; auto. destruct (D i Hi); auto.
Qed.

Lemma remove_server_some : forall x l, In (sv_id x) (ids l) -> exists l', remove_server x l = Some l'.
Proof.
  induction l as [|y r IH]; intros H; simpl in *; [tauto|].
  destruct (sv_id y =? sv_id x) eqn:E; eauto.
  destruct H as [H|H]; [apply Z.eqb_neq in E; congruence|].
  destruct (IH H) as (l' & ->). eauto.
Qed.

(* ordered pairs of a list extended at the end *)
Lemma FOP_snoc : forall {A} (R : A -> A -> Prop) l x,
  ForallOrdPairs R l -> Forall (fun a => R a x) l -> ForallOrdPairs R (l ++ [x]).
Proof.
  intros A R l x H. induction H as [|a l Ha Hl IH]; intros HF; simpl.
  - constructor; constructor.
  - inversion HF; subst. constructor; auto.
    apply Forall_app. split; auto.
Qed.

(* adjacent pairs *)
Fixpoint adjacent {A} (R : A -> A -> Prop) (l : list A) : Prop :=
  match l with
  | a :: (b :: _) as r => R a b /\ adjacent R r
  | _ => True
  end.

Definition last_opt {A} (l : list A) : option A :=
  match rev l with [] => None | a :: _ => Some a end.

Lemma last_opt_snoc : forall {A} (l : list A) x, last_opt (l ++ [x]) = Some x.
Proof. intros. unfold last_opt. rewrite rev_app_distr. reflexivity. Qed.

Lemma last_opt_cons : forall {A} (a b : A) l, last_opt (a :: b :: l) = last_opt (b :: l).
Proof.
  intros. unfold last_opt. simpl. destruct (rev l ++ [b]) eqn:E.
  - destruct (rev l); discriminate.
  - reflexivity.
Qed.

Lemma adjacent_snoc : forall {A} (R : A -> A -> Prop) l x,
  adjacent R l -> (forall a, last_opt l = Some a -> R a x) -> adjacent R (l ++ [x]).
Proof.
  intros A R. induction l as [|a l IH]; intros x HA HL; simpl; auto.
  destruct l as [|b l].
  - simpl. split; auto.
  - simpl in HA. destruct HA as [HR HA]. simpl. split; auto.
    apply IH; auto. intros a0 H0. apply HL. rewrite last_opt_cons. exact H0.
Qed.

Section Trace.
Variables (sc : nat -> outcome) (c : cfg) (start : Z).

Definition ev_drops (ev : event) : bool := drops c (ev_tcp ev) (ev_obs ev).
Definition ev_trunc_udp (ev : event) : bool := is_trunc (ev_obs ev) && negb (ev_tcp ev).

(* ---------- a broken server is never asked again ---------- *)
Definition never_reasked (tr : list event) : Prop :=
  ForallOrdPairs (fun a b => ev_drops a = true -> ev_server b <> ev_server a) tr.

Definition BInv (old : list event) (s : st) (e : env) : Prop :=
  exists new, e_trace e = old ++ new /\
    s_have_request s = true /\
    NoDup (ids (s_nameservers s)) /\ NoDup (ids (s_current s)) /\
    (forall i, In i (ids (s_current s)) -> In i (ids (s_nameservers s))) /\
    (forall ns, s_nameserver s = Some ns -> ~ In (sv_id ns) (ids (s_current s))) /\
    (s_retry_with_tcp s = true -> exists ns, s_nameserver s = Some ns /\
       In (sv_id ns) (ids (s_nameservers s)) /\ sv_maxsize ns = false) /\
    (forall ev, In ev new -> ev_drops ev = true -> ~ In (ev_server ev) (ids (s_nameservers s))) /\
    never_reasked new.

(* the server chosen by next_nameserver is alive and not in the rest of the round *)
Lemma binv_next_nameserver : forall old s e s1 ns tcp backoff,
  BInv old s e -> next_nameserver c s = NSOk s1 ns tcp backoff ->
  NoDup (ids (s_current s1)) /\
  (forall i, In i (ids (s_current s1)) -> In i (ids (s_nameservers s))) /\
  ~ In (sv_id ns) (ids (s_current s1)) /\ In (sv_id ns) (ids (s_nameservers s)) /\
  (tcp = false -> sv_maxsize ns = false).
Proof.
  intros old s e s1 ns tcp backoff (new & HE & B0 & B1 & B2 & B3 & B4 & B5 & B6 & B7) HN.
  apply next_nameserver_ok in HN.
  destruct HN as (N1 & N2 & N3 & N4 & N5 & N6 & N7 & N8 & N9 & N10 & HN).
  destruct HN as [HN|[HN|HN]].
  - destruct HN as (R1 & R2 & R3 & R4 & _ & R6 & _). rewrite R6.
    destruct (B5 R1) as (n1 & E1 & X & Y). rewrite R2 in E1. inversion E1; subst n1. split; [exact B2|]. split; [exact B3|]. split; [apply B4; exact R2|].
    split; [exact X|]. intros; congruence.
  - destruct HN as (R1 & R2 & _ & R4 & _).
    assert (HT: tcp = false -> sv_maxsize ns = false).
    { intros HT. rewrite HT in R4. symmetry in R4. apply orb_false_iff in R4. tauto. }
    rewrite R2 in B2, B3. simpl in B2, B3.
    inversion B2 as [|x l NI ND]; subst. split; [exact ND|]. split; [intros i Hi; apply B3; right; exact Hi|].
    split; [exact NI|]. split; [apply B3; left; reflexivity|]. exact HT.
  - destruct HN as (R1 & R2 & R3 & _ & R5 & _).
    assert (HT: tcp = false -> sv_maxsize ns = false).
    { intros HT. rewrite HT in R5. symmetry in R5. apply orb_false_iff in R5. tauto. }
    rewrite R3 in B1. simpl in B1.
    inversion B1 as [|x l NI ND]; subst. split; [exact ND|]. split; [intros i Hi; rewrite R3; right; exact Hi|].
    split; [exact NI|]. split; [rewrite R3; left; reflexivity|]. exact HT.
Qed.

Lemma nx_event_no_drop : forall r ch, nx_accepts r = Some ch -> drops c true r = false /\ drops c false r = false /\ is_trunc r = false.
Proof.
  intros r ch H. destruct r as [k|m]; simpl in H; try discriminate.
  unfold drops, is_trunc. destruct (m_rcode m =? rcNXDOMAIN) eqn:E3; try discriminate.
  assert (m_rcode m =? rcNOERROR = false) as ->. { apply Z.eqb_eq in E3. rewrite E3. reflexivity. }
  destruct (resolve_chaining m); try discriminate. auto.
Qed.

Lemma binv_step : forall old s e s' e',
  BInv old s e -> step sc c start s e = inl (s', e') -> BInv old s' e'.
Proof.
  intros old s e s' e' HB H.
  apply step_inl in H.
  destruct H as (s1 & ns & tcp & backoff & T & ob & clock2 & HN & HT & HO & HE' & HQ).
  destruct (binv_next_nameserver _ _ _ _ _ _ _ HB HN) as (C1 & C2 & C3 & C4 & C5).
  destruct HB as (new & HE & B0 & B1 & B2 & B3 & B4 & B5 & B6 & B7).
  apply next_nameserver_ok in HN.
  destruct HN as (N1 & N2 & N3 & N4 & N5 & N6 & N7 & N8 & N9 & N10 & _).
  set (ev := mk_event s1 ns tcp backoff T e ob clock2) in *.
  assert (HNR: never_reasked (new ++ [ev])).
  { apply FOP_snoc; auto. apply Forall_forall. intros a Ha Hd. simpl. intro HX.
    apply (B6 a Ha Hd). rewrite <- HX. exact C4. }
  subst e'. exists (new ++ [ev]). simpl. split; [rewrite HE, app_assoc; reflexivity|].
  destruct HQ as [HQ|(s2 & HQ & HR)].
  - apply query_result_cont in HQ.
    destruct HQ as (ns' & EN & (S1 & S2 & S3 & S4 & S5 & S6 & S7) & _ & _ & HD).
    rewrite N6 in EN. inversion EN; subst ns'. rewrite S3, S4, S6, N6, N9.
    split; [exact B0|].
    destruct HD as [(HDr & nss & HRm & HD1 & HD2)|(HDr & HD1 & HD2)].
    + rewrite N4 in HRm. destruct (remove_server_ids _ _ _ HRm B1) as (A1 & A2 & A3 & A4).
      rewrite HD1, HD2, N8.
      split; [exact A1|]. split; [exact C1|].
      split. { intros i Hi. destruct (A4 i (C2 i Hi)); auto. subst i. tauto. }
      split. { intros n0 Hn0. inversion Hn0; subst. exact C3. }
      split. { intros; discriminate. }
      split; [|exact HNR].
      intros a Ha Hd. apply in_app_or in Ha. destruct Ha as [Ha|[Ha|[]]].
      * intro HI. apply (B6 a Ha Hd). apply A3. exact HI.
      * subst a. simpl. exact A2.
    + rewrite HD1, N4.
      split; [exact B1|]. split; [exact C1|]. split; [exact C2|].
      split. { intros n0 Hn0. inversion Hn0; subst. exact C3. }
      split. { intros Hr. exists ns. split; [reflexivity|]. split; [exact C4|].
               rewrite HD2, N8 in Hr. simpl in Hr.
               apply andb_true_iff in Hr. destruct Hr as [_ Hr]. apply negb_true_iff in Hr.
               apply C5. congruence. }
      split; [|exact HNR].
      intros a Ha Hd. apply in_app_or in Ha. destruct Ha as [Ha|[Ha|[]]].
      * apply B6; auto.
      * subst a. unfold ev_drops in Hd. simpl in Hd. rewrite <- N7 in Hd. congruence.
  - apply query_result_next in HQ.
    destruct HQ as (ns' & m & ch & a & EN & Hr & Hnx & Hacc & _ & (S1 & S2 & S3 & S4 & S5 & S6 & S7) & S8 & S9 & _ & _).
    apply next_request_request in HR.
    destruct HR as (q & rest & skipped & s0 & R1 & R2 & R3 & R4 & R5).
    assert (EH: s_have_request s0 = true) by congruence.
    assert (HC: s_current s' = s_nameservers s /\ s_nameservers s' = s_nameservers s).
    { subst s'. simpl. rewrite EH, R4, S8, N4. auto. }
    destruct HC as [HC1 HC2]. rewrite HC1, HC2.
    split. { subst s'. reflexivity. }
    split; [exact B1|]. split; [exact B1|]. split; [auto|].
    split. { subst s'. simpl. intros; discriminate. }
    split. { subst s'. simpl. intros; discriminate. }
    split; [|exact HNR].
    intros a0 Ha Hd. apply in_app_or in Ha. destruct Ha as [Ha|[Ha|[]]].
    + apply B6; auto.
    + subst a0. unfold ev_drops in Hd. simpl in Hd.
      destruct (nx_event_no_drop _ _ Hnx) as (X1 & X2 & _). destruct tcp; congruence.
Qed.


Lemma binv_final : forall old s e f s' e',
  BInv old s e -> step sc c start s e = inr (f, s', e') ->
  (exists new, e_trace e' = old ++ new /\ never_reasked new) /\ (forall k, f <> FInternal k).
Proof.
  intros old s e f s' e' HB H.
  apply step_inr in H.
  destruct H as [(k & HN & Hf & _ & He)|[(_ & Hf & He)|[(ns & tcp & backoff & d & HN & HT & Hf & He)|
                 (s1 & ns & tcp & backoff & T & ob & clock2 & HN & HT & HO & He & HQ)]]].
  - exfalso. destruct HB as (new & HE & B0 & B1 & B2 & B3 & B4 & B5 & B6 & B7).
    apply next_nameserver_int in HN. destruct HN as [R1 [R2|(n1 & R2 & R3)]].
    + destruct (B5 R1) as (n2 & E & _). congruence.
    + destruct (B5 R1) as (n2 & E & _ & E2). congruence.
  - destruct HB as (new & HE & _ & _ & _ & _ & _ & _ & _ & B7). subst.
    split; [exists new; auto|]. intros; discriminate.
  - destruct HB as (new & HE & _ & _ & _ & _ & _ & _ & _ & B7). subst. simpl.
    split; [exists new; auto|]. intros; discriminate.
  - destruct (binv_next_nameserver _ _ _ _ _ _ _ HB HN) as (C1 & C2 & C3 & C4 & C5).
    destruct HB as (new & HE & B0 & B1 & B2 & B3 & B4 & B5 & B6 & B7).
    apply next_nameserver_ok in HN.
    destruct HN as (N1 & N2 & N3 & N4 & N5 & N6 & N7 & N8 & N9 & N10 & _).
    set (ev := mk_event s1 ns tcp backoff T e ob clock2) in *.
    assert (HNR: never_reasked (new ++ [ev])).
    { apply FOP_snoc; auto. apply Forall_forall. intros a Ha Hd. simpl. intro HX.
      apply (B6 a Ha Hd). rewrite <- HX. exact C4. }
    subst e'. simpl. split; [exists (new ++ [ev]); split; [rewrite HE, app_assoc; reflexivity|exact HNR]|].
    intros k Hk.
    destruct HQ as [(a & _ & Hf)|[(a & _ & Hf)|[(_ & Hf)|[(k' & HQ & Hf & _)|(s2 & _ & [(a & _ & Hf)|[(a & _ & Hf)|(_ & Hf)]])]]]];
      try (subst f; discriminate).
    apply query_result_int in HQ. destruct HQ as [HQ|(n1 & HQ1 & HQ2)]; [congruence|].
    rewrite N6 in HQ1. inversion HQ1; subst n1. rewrite N4 in HQ2.
    destruct (remove_server_some ns _ C4) as (l' & HL). congruence.
Qed.

(* ---------- truncation: one TCP retry on the same server ---------- *)
Definition tc_retry_rel (a b : event) : Prop :=
  ev_trunc_udp a = true ->
  ev_server b = ev_server a /\ ev_tcp b = true /\ ev_backoff b = 0 /\ ev_qname b = ev_qname a.

Definition TCInv (old : list event) (s : st) (e : env) : Prop :=
  exists new, e_trace e = old ++ new /\ adjacent tc_retry_rel new /\
    (forall a, last_opt new = Some a -> ev_trunc_udp a = true ->
       s_retry_with_tcp s = true /\
       (exists ns, s_nameserver s = Some ns /\ sv_id ns = ev_server a /\ sv_maxsize ns = false) /\
       s_qname s = ev_qname a /\ start <= e_clock e /\ e_clock e - start < c_lifetime c).

Lemma observe_trunc : forall o T clock q ob clock2,
  observe o T clock q = (ob, clock2) -> is_trunc ob = true -> clock2 = clock + o_dur o /\ o_dur o < T.
Proof.
  intros o T clock q ob clock2 H HT. unfold observe in H.
  destruct (is_timeout_reply (o_reply o) || (o_dur o >=? T)) eqn:E.
  - inversion H; subst. simpl in HT. discriminate.
  - inversion H; subst. apply orb_false_iff in E. destruct E as [_ E]. split; auto. lia.
Qed.

Hypothesis Hdur : forall i, 0 <= o_dur (sc i).

Lemma tcinv_new_event : forall old s e s1 ns tcp backoff T ob clock2 new,
  e_trace e = old ++ new -> adjacent tc_retry_rel new ->
  (forall a, last_opt new = Some a -> ev_trunc_udp a = true ->
       s_retry_with_tcp s = true /\
       (exists ns, s_nameserver s = Some ns /\ sv_id ns = ev_server a /\ sv_maxsize ns = false) /\
       s_qname s = ev_qname a /\ start <= e_clock e /\ e_clock e - start < c_lifetime c) ->
  next_nameserver c s = NSOk s1 ns tcp backoff ->
  adjacent tc_retry_rel (new ++ [mk_event s1 ns tcp backoff T e ob clock2]).
Proof.
  intros old s e s1 ns tcp backoff T ob clock2 new HE HA HL HN.
  apply adjacent_snoc; auto. intros a La Ta.
  destruct (HL a La Ta) as (R & (n1 & E1 & E2 & E3) & Q & _).
  apply next_nameserver_ok in HN.
  destruct HN as (N1 & N2 & N3 & N4 & N5 & N6 & N7 & N8 & N9 & N10 & [HN|[HN|HN]]).
  - destruct HN as (_ & R2 & _ & R4 & R5 & _). rewrite E1 in R2. inversion R2; subst n1.
    simpl. repeat split; auto; congruence.
  - destruct HN as (R1 & _). congruence.
  - destruct HN as (R1 & _). congruence.
Qed.

Lemma tcinv_step : forall old s e s' e',
  TInv c start s e -> TCInv old s e -> step sc c start s e = inl (s', e') -> TCInv old s' e'.
Proof.
  intros old s e s' e' (I1 & I2 & I3 & I4 & I5) (new & HE & HA & HL) H.
  apply step_inl in H.
  destruct H as (s1 & ns & tcp & backoff & T & ob & clock2 & HN & HT & HO & HE' & HQ).
  pose proof (tcinv_new_event old s e s1 ns tcp backoff T ob clock2 new HE HA HL HN) as HA'.
  apply next_nameserver_ok in HN.
  destruct HN as (N1 & N2 & N3 & N4 & N5 & N6 & N7 & N8 & N9 & N10 & HN).
  assert (HB: 0 <= backoff) by (destruct HN as [HN|[HN|HN]]; lia).
  destruct (compute_timeout_inl _ _ _ _ _ HT ltac:(lia)) as (T1 & T2 & T3).
  destruct (observe_clock _ _ _ _ _ _ HO (Hdur _)) as (O1 & O2).
  set (ev := mk_event s1 ns tcp backoff T e ob clock2) in *.
  subst e'. exists (new ++ [ev]). simpl. split; [rewrite HE, app_assoc; reflexivity|]. split; [exact HA'|].
  intros a La Ta. rewrite last_opt_snoc in La. inversion La; subst a.
  unfold ev_trunc_udp in Ta. simpl in Ta. apply andb_true_iff in Ta. destruct Ta as [Ta1 Ta2].
  apply negb_true_iff in Ta2.
  destruct (observe_trunc _ _ _ _ _ _ HO Ta1) as (O3 & O4).
  destruct HQ as [HQ|(s2 & HQ & HR)].
  - apply query_result_cont in HQ.
    destruct HQ as (ns' & EN & (S1 & S2 & S3 & S4 & S5 & S6 & S7) & _ & _ & HD).
    rewrite N6 in EN. inversion EN; subst ns'.
    destruct HD as [(HDr & _)|(HDr & HD1 & HD2)].
    + exfalso. rewrite N7, Ta2 in HDr. unfold drops in HDr. unfold is_trunc in Ta1.
      destruct ob as [k|m]; try discriminate. destruct (exn_of_class k); discriminate.
    + split. { rewrite HD2, N8, N7, Ta1, Ta2. reflexivity. }
      split. { exists ns. rewrite S4, N6. split; [reflexivity|]. split; [reflexivity|].
               destruct HN as [HN|[HN|HN]].
               - destruct HN as (_ & _ & _ & R4 & _). congruence.
               - destruct HN as (_ & _ & _ & R4 & _). rewrite Ta2 in R4. symmetry in R4. apply orb_false_iff in R4. tauto.
               - destruct HN as (_ & _ & _ & _ & R4 & _). rewrite Ta2 in R4. symmetry in R4. apply orb_false_iff in R4. tauto. }
      split; [rewrite S2; reflexivity|]. pose proof (Hdur (e_pos e)). lia.
  - exfalso. apply query_result_next in HQ.
    destruct HQ as (ns' & m & ch & a & _ & Hr & _). subst ob. simpl in Ta1. discriminate.
Qed.

Lemma tcinv_final : forall old s e f s' e',
  TInv c start s e -> TCInv old s e -> step sc c start s e = inr (f, s', e') ->
  exists new, e_trace e' = old ++ new /\ adjacent tc_retry_rel new /\
    (forall a, last_opt new = Some a -> ev_trunc_udp a = true -> exists k, f = FInternal k).
Proof.
  intros old s e f s' e' (I1 & I2 & I3 & I4 & I5) (new & HE & HA & HL) H.
  apply step_inr in H.
  destruct H as [(k & HN & Hf & _ & He)|[(HN & Hf & He)|[(ns & tcp & backoff & d & HN & HT & Hf & He)|
                 (s1 & ns & tcp & backoff & T & ob & clock2 & HN & HT & HO & He & HQ)]]].
  - subst. exists new. split; auto. split; auto. eauto.
  - subst. exists new. split; auto. split; auto. intros a La Ta. exfalso.
    destruct (HL a La Ta) as (R & _). apply next_nameserver_none in HN. destruct HN as (_ & R1 & _). congruence.
  - subst e'. simpl. exists new. split; auto. split; auto. intros a La Ta. exfalso.
    destruct (HL a La Ta) as (R & _ & _ & C1 & C2).
    apply next_nameserver_ok in HN.
    destruct HN as (_ & _ & _ & _ & _ & _ & _ & _ & _ & _ & [HN|[HN|HN]]).
    + destruct HN as (_ & _ & _ & _ & R5 & _). subst backoff.
      unfold compute_timeout in HT. replace (e_clock e + 0 - start) with (e_clock e - start) in HT by lia.
      destruct (e_clock e - start <? 0) eqn:E1; [lia|].
      destruct (e_clock e - start >=? c_lifetime c) eqn:E2; [lia|discriminate].
    + destruct HN as (R1 & _). congruence.
    + destruct HN as (R1 & _). congruence.
  - pose proof (tcinv_new_event old s e s1 ns tcp backoff T ob clock2 new HE HA HL HN) as HA'.
    subst e'. simpl. exists (new ++ [mk_event s1 ns tcp backoff T e ob clock2]).
    split; [rewrite HE, app_assoc; reflexivity|]. split; [exact HA'|].
    intros a La Ta. rewrite last_opt_snoc in La. inversion La; subst a.
    unfold ev_trunc_udp in Ta. simpl in Ta. apply andb_true_iff in Ta. destruct Ta as [Ta1 Ta2].
    apply negb_true_iff in Ta2.
    apply next_nameserver_ok in HN.
    destruct HN as (N1 & N2 & N3 & N4 & N5 & N6 & N7 & N8 & N9 & N10 & _).
    destruct HQ as [(a & HQ & Hf)|[(a & HQ & Hf)|[(HQ & Hf)|[(k' & HQ & Hf & _)|(s2 & HQ & _)]]]].
    + apply query_result_answer in HQ. destruct HQ as (? & m & ? & _ & Hr & _). subst ob. discriminate.
    + apply query_result_noanswer in HQ. destruct HQ as (? & m & ? & _ & Hr & _). subst ob. discriminate.
    + apply query_result_yx in HQ. destruct HQ as (HQ & _). destruct ob; simpl in *; discriminate.
    + eauto.
    + apply query_result_next in HQ. destruct HQ as (? & m & ? & ? & _ & Hr & _). subst ob. discriminate.
Qed.
End Trace.
