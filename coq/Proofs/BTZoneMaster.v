(* C20, layer D3: three ways in which a change of the node list re-establishes the invariant:
   the occlusion relation is unchanged; a new unoccluded NS owner appears; a delegation point
   loses its NS rdataset (or its node). *)
From DV Require Import Base.Prelude Model.NameM Model.BTZoneM
     Proofs.BTZoneOrder Proofs.BTZoneList Proofs.BTZoneSpec Proofs.BTZoneWalk Proofs.BTZoneInv.
Open Scope Z_scope.

Definition idtr : name -> node -> node := fun _ x => x.

Lemma has_ns_rds : forall a b, nrds a = nrds b -> has_ns a = has_ns b.
Proof. intros a b H. unfold has_ns. rewrite H. reflexivity. Qed.

Lemma occluded_occk_ext : forall c l l' n,
    (forall k, occk c l' k <-> occk c l k) -> occluded c l' n = occluded c l n.
Proof.
  intros c l l' n H. destruct (occluded c l' n) eqn:A; destruct (occluded c l n) eqn:B; auto.
  - apply occluded_iff, H, occluded_iff in A. congruence.
  - apply occluded_iff, H, occluded_iff in B. congruence.
Qed.

Lemma Desc_valid : forall c l l' n en tr,
    Desc l l' n en tr -> validk c (K n) -> (forall k, In k (keys l) -> validk c k) ->
    forall k, In k (keys l') -> validk c k.
Proof.
  intros c l l' n en tr D Hn Hl k Hk. apply (Desc_keys _ _ _ _ _ D) in Hk as [[_ H]|[-> _]]; auto.
Qed.

Lemma Desc_nodup : forall l l' n en tr,
    Desc l l' n en tr -> (forall k nd, nrds (tr k nd) = nrds nd) ->
    (forall k nd, In (k, nd) l -> NoDup (map fst (nrds nd))) ->
    (forall e, en = Some e -> NoDup (map fst (nrds (snd e)))) ->
    forall k nd, In (k, nd) l' -> NoDup (map fst (nrds nd)).
Proof.
  intros l l' n en tr D Htr Hl He k nd Hin. apply D in Hin as [[_ (nd0 & Hin & ->)]|[H _]].
  - rewrite Htr. eauto.
  - apply (He _ H).
Qed.

(* ---------- 1. occlusion unchanged ---------- *)
Lemma Inv_same_occ : forall c l d ch l' d' ch' n en tr,
    Inv c (mkVer l d ch) -> sorted l' -> sorted d' ->
    Desc l l' n en tr -> (forall k nd, nrds (tr k nd) = nrds nd) -> validk c (K n) ->
    (forall k, occk c l' k <-> occk c l k) ->
    (forall k, ~ occk c l k -> (owner c l' k <-> owner c l k)) ->
    (forall k nd, In (k, nd) l -> K k <> K n -> nflags (tr k nd) = nflags nd) ->
    (forall n0 nd0, en = Some (n0, nd0) ->
                    nflags nd0 = if is_apex c n then fORIGIN
                                 else if occluded c l n then fGLUE
                                      else if has_ns nd0 then fDELEGATION else 0) ->
    (forall y, In y (keys d') <-> In y (keys d)) ->
    (forall e, en = Some e -> NoDup (map fst (nrds (snd e)))) ->
    Inv c (mkVer l' d' ch').
Proof.
  intros c l d ch l' d' ch' n en tr HI Sl Sd D Htr Hv Hocc Hown Hfl Hen Hd Hnd.
  constructor; cbn [v_nodes v_delegs]; auto.
  - eapply Desc_valid; eauto. apply (inv_v c _ HI).
  - eapply Desc_nodup; eauto. apply (inv_nd c _ HI).
  - intros k' nd' Hin. rewrite flags_of_eq. rewrite (occluded_occk_ext c l l') by auto.
    apply D in Hin as [[Hk (nd & Hin & ->)]|[He Hk]].
    + rewrite Hfl by auto. rewrite (inv_flags c _ HI k' nd Hin). cbn [v_nodes].
      rewrite (has_ns_rds (tr k' nd) nd) by auto. reflexivity.
    + rewrite (Hen k' nd' He). rewrite (is_apex_ext c k' n) by auto.
      rewrite (occluded_ext c l k' n) by auto. reflexivity.
  - intros y. rewrite Hd. rewrite (inv_d c _ HI). cbn [v_nodes]. split.
    + intros [H1 H2]. split; [apply Hown; auto|]. intros H3. apply H2. apply Hocc; auto.
    + intros [H1 H2]. assert (~ occk c l y) by (intros H3; apply H2; apply Hocc; auto).
      split; auto. apply Hown; auto.
Qed.

(* ---------- 2. a new unoccluded NS owner ---------- *)
Lemma Inv_new_top : forall c l d ch l' d' ch' n n0 nd0 tr,
    Inv c (mkVer l d ch) -> sorted l' -> sorted d' ->
    Desc l l' n (Some (n0, nd0)) tr -> K n0 = K n -> (forall k nd, nrds (tr k nd) = nrds nd) ->
    validk c (K n) -> K n <> apexkey c -> ~ occk c l (K n) ->
    has_ns nd0 = true -> nflags nd0 = fDELEGATION ->
    (forall k nd, In (k, nd) l -> K k <> K n ->
                  nflags (tr k nd) = if strictly_beneath k n then fGLUE else nflags nd) ->
    (forall y, In y (keys d') <-> (y = K n \/ (In y (keys d) /\ ~ sbelow y (K n)))) ->
    NoDup (map fst (nrds nd0)) ->
    Inv c (mkVer l' d' ch').
Proof.
  intros c l d ch l' d' ch' n n0 nd0 tr HI Sl Sd D E0 Htr Hv Hna Hnocc Hns Hf0 Hfl Hd Hnd.
  assert (Hown : forall k, owner c l' k <-> (owner c l k \/ k = K n)).
  { intros k. rewrite (Desc_owner c _ _ _ _ _ D Htr). split.
    - intros [[_ H]|[H _]]; auto.
    - intros [H| ->].
      + destruct (key_eq_dec k (K n)) as [->|Hne]; auto. right. split; auto.
        exists (n0, nd0). repeat split; auto. unfold ns_owner. cbn [fst snd]. rewrite Hns.
        apply negb_true_iff, is_apex_false_key. congruence.
      + right. split; auto. exists (n0, nd0). repeat split; auto. unfold ns_owner. cbn [fst snd]. rewrite Hns.
        apply negb_true_iff, is_apex_false_key. congruence. }
  assert (Hocc : forall k, occk c l' k <-> (occk c l k \/ sbelow k (K n))).
  { intros k. rewrite !occk_occP. apply occP_add_top. exact Hown. }
  assert (Hoccb : forall m, occluded c l' m = occluded c l m || strictly_beneath m n).
  { intros m. destruct (occluded c l' m) eqn:A.
    - apply occluded_iff, Hocc in A. symmetry. apply orb_true_iff.
      destruct A as [A|A]; [left; apply occluded_iff|right; apply strictly_beneath_iff]; auto.
    - symmetry. apply orb_false_iff. split.
      + apply occluded_false_iff. intros H. apply occluded_false_iff in A. apply A, Hocc. auto.
      + apply not_true_is_false. intros H. apply strictly_beneath_iff in H.
        apply occluded_false_iff in A. apply A, Hocc. auto. }
  constructor; cbn [v_nodes v_delegs]; auto.
  - eapply Desc_valid; eauto. apply (inv_v c _ HI).
  - eapply Desc_nodup; eauto; [apply (inv_nd c _ HI)|]. intros e He. inversion He; subst. exact Hnd.
  - intros k' nd' Hin. rewrite flags_of_eq, Hoccb.
    apply D in Hin as [[Hk (nd & Hin & ->)]|[He Hk]].
    + rewrite Hfl by auto. rewrite (has_ns_rds (tr k' nd) nd) by auto.
      rewrite (inv_flags c _ HI k' nd Hin). cbn [v_nodes].
      destruct (strictly_beneath k' n) eqn:Sb.
      * apply strictly_beneath_iff in Sb.
        assert (is_apex c k' = false).
        { apply is_apex_false_key. eapply valid_sbelow_not_apex; eauto. }
        rewrite H, orb_true_r. reflexivity.
      * rewrite orb_false_r. reflexivity.
    + inversion He; subst k' nd'. rewrite Hf0, Hns.
      assert (is_apex c n0 = false) by (apply is_apex_false_key; congruence).
      rewrite H. rewrite (occluded_ext c l n0 n) by auto.
      assert (occluded c l n = false) by (apply occluded_false_iff; auto). rewrite H0.
      assert (strictly_beneath n0 n = false).
      { apply not_true_is_false. intros Hs. apply strictly_beneath_iff in Hs. rewrite E0 in Hs.
        eapply sbelow_irrefl; eauto. }
      rewrite H1. reflexivity.
  - intros y. rewrite Hd, Hown, Hocc. rewrite (inv_d c _ HI). cbn [v_nodes]. split.
    + intros [->|[[H1 H2] H3]].
      * split; auto. intros [H|H]; auto. eapply sbelow_irrefl; eauto.
      * split; auto. intros [H|H]; auto.
    + intros [[H1| ->] H2]; auto. right. split; [split|]; auto.
Qed.

(* ---------- 3. a delegation point goes away ---------- *)
Definition inner (l : nodes_t) (n k : name) : bool :=
  existsb (fun e => has_ns (snd e) && strictly_beneath (fst e) n && strictly_beneath k (fst e)) l.

Lemma inner_iff : forall c l n k, validk c (K n) ->
    (inner l n k = true <-> exists o, owner c l o /\ sbelow o (K n) /\ sbelow (K k) o).
Proof.
  intros c l n k Hv. unfold inner. rewrite existsb_exists. split.
  - intros ([m nd] & Hin & H). cbn [fst snd] in H. apply andb_true_iff in H as [H H3].
    apply andb_true_iff in H as [H1 H2]. apply strictly_beneath_iff in H2, H3.
    exists (K m). repeat split; try apply H2; try apply H3.
    apply owner_unfold. exists m, nd. repeat split; auto. eapply valid_sbelow_not_apex; eauto.
  - intros (o & Ho & H2 & H3). apply owner_unfold in Ho as (m & nd & Hin & <- & Hns & _).
    exists (m, nd). split; auto. cbn [fst snd]. rewrite Hns. cbn [andb].
    apply andb_true_iff. split; apply strictly_beneath_iff; auto.
Qed.

Lemma Inv_del_top : forall c l d ch l' d' ch' n en tr,
    Inv c (mkVer l d ch) -> sorted l' -> sorted d' ->
    Desc l l' n en tr -> (forall k nd, nrds (tr k nd) = nrds nd) -> validk c (K n) ->
    In (K n) (keys d) ->
    (forall e, en = Some e -> has_ns (snd e) = false /\ nflags (snd e) = 0) ->
    (forall k nd, In (k, nd) l -> K k <> K n ->
                  nflags (tr k nd) =
                  if strictly_beneath k n
                  then (if inner l n k then fGLUE else if has_ns nd then fDELEGATION else 0)
                  else nflags nd) ->
    (forall y, In y (keys d') <->
               ((In y (keys d) /\ y <> K n) \/
                exists k nd, In (k, nd) l /\ K k = y /\ sbelow y (K n) /\ has_ns nd = true /\ inner l n k = false)) ->
    (forall e, en = Some e -> NoDup (map fst (nrds (snd e)))) ->
    Inv c (mkVer l' d' ch').
Proof.
  intros c l d ch l' d' ch' n en tr HI Sl Sd D Htr Hv Hnd Hen Hfl Hd Hndp.
  pose proof (proj1 (inv_d c _ HI (K n)) Hnd) as [HnO Hnocc]. cbn [v_nodes] in HnO, Hnocc.
  assert (Hna : K n <> apexkey c) by (apply owner_unfold in HnO as (? & ? & _ & _ & _ & H); auto).
  assert (Hown : forall k, owner c l' k <-> (owner c l k /\ k <> K n)).
  { intros k. rewrite (Desc_owner c _ _ _ _ _ D Htr). split.
    - intros [[H1 H2]|[_ (e & He & _ & Hns)]]; auto.
      exfalso. destruct (Hen e He) as [H _]. unfold ns_owner in Hns. rewrite H in Hns. discriminate.
    - intros [H1 H2]. auto. }
  assert (Hout : forall k, ~ sbelow k (K n) -> (occk c l' k <-> occk c l k)).
  { intros k Hk. rewrite !occk_occP. eapply occP_remove_top_outside; eauto. }
  assert (Hin_ : forall m, sbelow (K m) (K n) -> (occk c l' (K m) <-> inner l n m = true)).
  { intros m Hm. rewrite (inner_iff c l n m Hv). rewrite occk_occP.
    eapply occP_remove_top_inside; eauto. }
  assert (Hoccb : forall m, occluded c l' m = if strictly_beneath m n then inner l n m else occluded c l m).
  { intros m. destruct (strictly_beneath m n) eqn:Sb.
    - apply strictly_beneath_iff in Sb. destruct (inner l n m) eqn:I.
      + apply occluded_iff. apply Hin_; auto.
      + apply occluded_false_iff. intros H. apply Hin_ in H; auto. congruence.
    - assert (~ sbelow (K m) (K n)) by (intros H; apply strictly_beneath_iff in H; congruence).
      destruct (occluded c l m) eqn:O.
      + apply occluded_iff. apply Hout; auto. apply occluded_iff; auto.
      + apply occluded_false_iff. intros H0. apply Hout in H0; auto. apply occluded_iff in H0. congruence. }
  constructor; cbn [v_nodes v_delegs]; auto.
  - eapply Desc_valid; eauto. apply (inv_v c _ HI).
  - eapply Desc_nodup; eauto. apply (inv_nd c _ HI).
  - intros k' nd' Hin. rewrite flags_of_eq, Hoccb.
    apply D in Hin as [[Hk (nd & Hin & ->)]|[He Hk]].
    + rewrite Hfl by auto. rewrite (has_ns_rds (tr k' nd) nd) by auto.
      destruct (strictly_beneath k' n) eqn:Sb.
      * apply strictly_beneath_iff in Sb.
        assert (is_apex c k' = false).
        { apply is_apex_false_key. eapply valid_sbelow_not_apex; eauto. }
        rewrite H. reflexivity.
      * rewrite (inv_flags c _ HI k' nd Hin). reflexivity.
    + destruct (Hen _ He) as [H1 H2]. cbn [snd] in H1, H2. rewrite H1, H2.
      assert (is_apex c k' = false) by (apply is_apex_false_key; congruence). rewrite H.
      assert (strictly_beneath k' n = false).
      { apply not_true_is_false. intros Hs. apply strictly_beneath_iff in Hs. rewrite Hk in Hs.
        eapply sbelow_irrefl; eauto. }
      rewrite H0. rewrite (occluded_ext c l k' n) by auto.
      assert (occluded c l n = false) by (apply occluded_false_iff; auto). rewrite H3. reflexivity.
  - intros y. rewrite Hd, Hown. split.
    + intros [[H1 H2]|(k & nd & Hin & <- & Hs & Hns & Hi)].
      * apply (inv_d c _ HI) in H1 as [H1 H3]. cbn [v_nodes] in *. split; auto.
        assert (~ sbelow y (K n)). { intros Hs. apply H3. exists (K n). auto. }
        intros H4. apply H3. apply Hout; auto.
      * split.
        -- split; [|intros E; rewrite E in Hs; eapply sbelow_irrefl; eauto].
           apply owner_unfold. exists k, nd. repeat split; auto. eapply valid_sbelow_not_apex; eauto.
        -- intros H. apply Hin_ in H; auto. congruence.
    + intros [[H1 H2] H3].
      apply owner_unfold in H1 as (m & nd & Hin & <- & Hns & Hna').
      destruct (strictly_beneath m n) eqn:Sb.
      * apply strictly_beneath_iff in Sb. right. exists m, nd. repeat split; auto; try apply Sb.
        apply not_true_is_false. intros Hi. apply H3. apply Hin_; auto.
      * left. split; auto. apply (inv_d c _ HI). cbn [v_nodes]. split.
        -- apply owner_unfold. exists m, nd. auto.
        -- intros Ho. apply H3. apply Hout; auto. intros Hs. apply strictly_beneath_iff in Hs. congruence.
Qed.
