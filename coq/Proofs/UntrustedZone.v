(* C04 for zone files, on C09's model of the reader (Model/ZoneTextM.v: Reader.read, _rr_line,
   _generate_line, txn.add, check_origin; dns.zonefile.read_rrsets): every character string as
   zone text ends in a zone, in one of the library's documented errors, or in the documented
   zone-semantic ValueError - never in AssertionError, IndexError, ... and never out of fuel. *)
From DV Require Import Base.Prelude Model.NameM Proofs.NameValid.
From DV Require Proofs.UntrustedText Proofs.ZoneTextFuel.
From DV Require Import Model.ZoneTextM.
Open Scope Z_scope.

(* the library errors the reader can raise (codes of ZoneTextM): SyntaxError family (file:line is
   added by Reader.read), NameTooLong from an owner / $ORIGIN name, UnknownOrigin,
   CNAMEAndOtherData, NoSOA, NoNS; eUnmodelled marks input outside the modelled fragment *)
Definition zlib (e : Z) : Prop :=
  e = eSyntax \/ e = eNameTooLongZ \/ e = eUnknownOrigin \/ e = eCNAMEAndOther \/ e = eNoSOA
  \/ e = eNoNS \/ e = eUnmodelled.

(* Ok, a documented library error, the documented ValueError - or (only inside the loops, excluded
   at the end by C09's fuel theorem) the model's fuel marker *)
Definition Nice {A} (r : res A) : Prop :=
  match r with
  | Ok _ => True
  | Lib e => zlib e
  | Internal e => e = iValueError \/ e = iFuelZ
  end.

Lemma nice_ok {A} (a : A) : Nice (Ok a). Proof. exact Logic.I. Qed.
Lemma nice_syntax {A} : Nice (@Lib A eSyntax). Proof. left; reflexivity. Qed.
Lemma nice_bind {A B} (r : res A) (k : A -> res B) :
  Nice r -> (forall a, r = Ok a -> Nice (k a)) -> Nice (bind r k).
Proof. destruct r as [a|e|e]; cbn [bind]; auto. Qed.

Ltac zl := first [ reflexivity | left; reflexivity | right; zl ].

(* Ok or SyntaxError only *)
Definition Syn {A} (r : res A) : Prop :=
  match r with Ok _ => True | Lib e => e = eSyntax | Internal _ => False end.
Lemma syn_nice {A} (r : res A) : Syn r -> Nice r.
Proof. destruct r; cbn; auto; [intros ->; zl|contradiction]. Qed.
Lemma syn_bind {A B} (r : res A) (k : A -> res B) : Syn r -> (forall a, Syn (k a)) -> Syn (bind r k).
Proof. destruct r as [a|e|e]; cbn [bind]; auto. Qed.

Lemma syn_tok_unescape : forall n s, (length s <= n)%nat -> Syn (tok_unescape s).
Proof.
  induction n as [|n IH]; intros s Hl.
  - destruct s; [exact Logic.I|cbn in Hl; lia].
  - destruct s as [|c r]; [exact Logic.I|]. cbn [tok_unescape]. cbn in Hl.
    destruct (c =? 92).
    + destruct r as [|c1 r1]; [reflexivity|].
      destruct (is_digit c1).
      * destruct r1 as [|c2 [|c3 r3]]; try reflexivity.
        destruct (is_digit c2 && is_digit c3); [|reflexivity].
        match goal with |- context [if ?b then _ else _] => destruct b; [reflexivity|] end.
        apply syn_bind; [apply IH; cbn in Hl; lia|intros; exact Logic.I].
      * apply syn_bind; [apply IH; cbn in Hl; lia|intros; exact Logic.I].
    + apply syn_bind; [apply IH; lia|intros; exact Logic.I].
Qed.
Lemma syn_unescape s : Syn (tok_unescape s).
Proof. apply (syn_tok_unescape (length s)); lia. Qed.

Lemma syn_parse_fields : forall ks toks co rel zo, Syn (parse_fields ks toks co rel zo).
Proof.
  induction ks as [|k ks IH]; intros toks co rel zo; cbn [parse_fields].
  - destruct toks; [exact Logic.I|reflexivity].
  - assert (Tail : forall (v : fval) toks', Syn (do rest <- parse_fields ks toks' co rel zo; Ok (v :: rest))).
    { intros. apply syn_bind; [apply IH|intros; exact Logic.I]. }
    destruct k.
    + (* KName *)
      destruct toks as [|t toks']; [reflexivity|]. apply syn_bind; [|intros; apply Tail].
      destruct t; [|reflexivity].
      destruct (as_name false v (Some co) rel (Some zo)); try reflexivity; exact Logic.I.
    + (* KTok *)
      destruct toks as [|t toks']; [reflexivity|]. apply syn_bind; [|intros; apply Tail].
      apply syn_bind; [apply syn_unescape|]. intros u. destruct t; [exact Logic.I|reflexivity].
    + (* KIPv4 *)
      destruct toks as [|t toks']; [reflexivity|]. apply syn_bind; [|intros; apply Tail].
      destruct t; [|reflexivity].
      apply syn_bind; [apply syn_unescape|]. intros u. destruct (ipv4_ok u); [exact Logic.I|reflexivity].
    + (* KU *)
      destruct toks as [|t toks']; [reflexivity|]. apply syn_bind; [|intros; apply Tail].
      destruct t; [|reflexivity].
      apply syn_bind; [apply syn_unescape|]. intros u.
      match goal with |- Syn (if ?b then _ else _) => destruct b; [exact Logic.I|reflexivity] end.
    + (* KTtl *)
      destruct toks as [|t toks']; [reflexivity|]. apply syn_bind; [|intros; apply Tail].
      destruct t; [|reflexivity].
      apply syn_bind; [apply syn_unescape|]. intros u.
      destruct (ttl_from_text u); try reflexivity; exact Logic.I.
    + (* KType *)
      destruct toks as [|t toks']; [reflexivity|]. apply syn_bind; [|intros; apply Tail].
      destruct t; cbn [tokval]; match goal with |- Syn (match ?x with _ => _ end) => destruct x; try reflexivity; exact Logic.I end.
    + (* KStrs *)
      destruct toks as [|t toks']; [reflexivity|].
      apply syn_bind; [|intros; exact Logic.I].
      apply syn_bind; [apply syn_unescape|]. intros b0.
      destruct (zlen b0 >? 255); [reflexivity|].
      apply syn_bind; [|intros; exact Logic.I].
      clear. induction toks' as [|x l IHl]; [exact Logic.I|].
      apply syn_bind; [apply syn_unescape|]. intros b.
      destruct (zlen b >? 255); [reflexivity|].
      apply syn_bind; [exact IHl|intros; exact Logic.I].
    + (* KRest *)
      destruct (all_ids toks) as [[|v vs]|]; try reflexivity; try exact Logic.I.
      destruct allow_empty; [exact Logic.I|reflexivity].
Qed.

Lemma syn_unescape_all : forall vs, Syn (unescape_all vs).
Proof.
  induction vs as [|v r IH]; cbn [unescape_all]; [exact Logic.I|].
  apply syn_bind; [apply syn_unescape|]. intros u. apply syn_bind; [exact IH|intros; exact Logic.I].
Qed.

(* the literal test `token.value == r"\#"` *)
Lemma generic_head {A} (a b : list tok -> A) toks :
  (exists r, toks = TId [92; 35] :: r /\ match toks with TId [92; 35] :: r' => a r' | _ => b toks end = a r)
  \/ match toks with TId [92; 35] :: r' => a r' | _ => b toks end = b toks.
Proof.
  destruct toks as [|[v|v] r]; try (right; reflexivity).
  destruct v as [|z1 v]; try (right; reflexivity).
  destruct z1 as [|p|p]; try (right; reflexivity).
  do 7 (try (destruct p as [p|p|]; try (right; reflexivity))).
  destruct v as [|z2 v]; try (right; reflexivity).
  destruct z2 as [|q|q]; try (right; reflexivity).
  do 6 (try (destruct q as [q|q|]; try (right; reflexivity))).
  destruct v; try (right; reflexivity).
  left. exists r. split; reflexivity.
Qed.

Lemma syn_parse_generic toks : Syn (parse_generic toks).
Proof.
  destruct (generic_head
              (fun r' => match r' with
                         | TId l0 :: rest =>
                             do l <- tok_unescape l0;
                             if all_digits l && negb (zlen l =? 0) then
                               match all_ids rest with
                               | None => Lib eSyntax
                               | Some vs0 =>
                                   do vs <- unescape_all vs0;
                                   let h := concat vs in
                                   if forallb is_hex h && (zlen h =? 2 * int_of_digits l)
                                   then Ok [VTok [92; 35]; VInt (int_of_digits l); VRest (match h with [] => [] | _ => [lower_l h] end)]
                                   else Lib eSyntax
                               end
                             else Lib eSyntax
                         | _ => Lib eSyntax
                         end)
              (fun _ => @Lib rdata eSyntax) toks) as [(r & -> & E)|E].
  - clear E. unfold parse_generic. destruct r as [|[l0|l0] rest]; try reflexivity.
    apply syn_bind; [apply syn_unescape|]. intros l.
    match goal with |- Syn (if ?b then _ else _) => destruct b; [|reflexivity] end.
    destruct (all_ids rest); [|reflexivity].
    apply syn_bind; [apply syn_unescape_all|]. intros vs. cbv zeta.
    match goal with |- Syn (if ?b then _ else _) => destruct b; [exact Logic.I|reflexivity] end.
  - assert (H : parse_generic toks = Lib eSyntax) by exact E. rewrite H. reflexivity.
Qed.

Lemma generic_head_P {A} (P : A -> Prop) (a b : list tok -> A) toks :
  (forall r, P (a r)) -> P (b toks) -> P (match toks with TId [92; 35] :: r' => a r' | _ => b toks end).
Proof. intros Ha Hb. destruct (generic_head a b toks) as [(r & _ & E)|E]; rewrite E; auto. Qed.

(* no fuel marker: Ok, a documented library error or the documented ValueError *)
Definition NiceR {A} (r : res A) : Prop :=
  match r with Ok _ => True | Lib e => zlib e | Internal e => e = iValueError end.
Lemma nicer_nice {A} (r : res A) : NiceR r -> Nice r.
Proof. destruct r; cbn; auto. Qed.
Lemma nicer_bind {A B} (r : res A) (k : A -> res B) :
  NiceR r -> (forall a, NiceR (k a)) -> NiceR (bind r k).
Proof. destruct r as [a|e|e]; cbn [bind]; auto. Qed.
Lemma nicer_of_syn {A} (r : res A) : Syn r -> NiceR r.
Proof. destruct r; cbn; auto; [intros ->; zl|contradiction]. Qed.

(* a known type in generic syntax: the wire layouts of names / integers / IPv4 addresses *)
Ltac nicer_case :=
  repeat match goal with
         | |- NiceR (Ok _) => exact Logic.I
         | |- NiceR (Lib _) => zl
         | |- NiceR (if ?b then _ else _) => destruct b
         | |- NiceR (match ?x with _ => _ end) => destruct x
         | |- NiceR (let '(_, _) := ?x in _) => destruct x
         end.

Lemma nicer_wire_fields : forall ks bs rel zo, NiceR (wire_fields ks bs rel zo).
Proof.
  induction ks as [|k ks IH]; intros bs rel zo; cbn [wire_fields].
  - destruct bs; [exact Logic.I|zl].
  - apply nicer_bind.
    + destruct k; nicer_case.
    + intros [v rest]. apply nicer_bind; [apply IH|intros; exact Logic.I].
Qed.

(* a record's text: parsed, SyntaxError, or outside the modelled fragment *)
Lemma nicer_parse_rdata ty toks lerr co rel zo : NiceR (parse_rdata ty toks lerr co rel zo).
Proof.
  unfold parse_rdata. destruct (tbl_by_code type_table ty) as [[nm ks]|].
  - assert (H : NiceR (do rd <- parse_fields ks toks co rel zo; if lerr then Lib eSyntax else Ok rd)).
    { apply nicer_bind; [apply nicer_of_syn, syn_parse_fields|]. intros rd. destruct lerr; [zl|exact Logic.I]. }
    pose (X := if wire_modelled ks then
                 do g <- parse_generic toks;
                 match g with
                 | [_; _; VRest hs] =>
                     do rd <- wire_fields ks (hex_bytes (concat hs)) rel zo; if lerr then Lib eSyntax else Ok rd
                 | _ => Lib eSyntax
                 end
               else @Lib rdata eUnmodelled).
    assert (G : NiceR X); [unfold X|
      exact (generic_head_P (@NiceR rdata) (fun _ => X)
               (fun toks => do rd <- parse_fields ks toks co rel zo; if lerr then Lib eSyntax else Ok rd) toks
               (fun _ => G) H)].
    destruct (wire_modelled ks); [|zl].
    apply nicer_bind; [apply nicer_of_syn, syn_parse_generic|]. intros g.
    repeat match goal with
           | |- NiceR (match ?x with _ => _ end) => is_var x; destruct x
           | |- NiceR (Lib _) => zl
           end.
    apply nicer_bind; [apply nicer_wire_fields|]. intros rd. destruct lerr; [zl|exact Logic.I].
  - apply nicer_bind; [apply nicer_of_syn, syn_parse_generic|]. intros rd. destruct lerr; [zl|exact Logic.I].
Qed.

Lemma nice_parse_rdata ty toks lerr co rel zo : Nice (parse_rdata ty toks lerr co rel zo).
Proof. apply nicer_nice, nicer_parse_rdata. Qed.

(* ---------- names ---------- *)
Definition name_codes (e : Z) : Prop :=
  e = eBadEscape \/ e = eEmptyLabel \/ e = eLabelTooLong \/ e = eNameTooLong.

Lemma nice_lift_name {A} esc (r : res A) :
  (forall e, r = Lib e -> name_codes e) -> (forall e, r <> Internal e) -> Nice (lift_name esc r).
Proof.
  intros HL HI. destruct r as [a|e|e]; cbn [lift_name]; [exact Logic.I| |exfalso; eapply HI; reflexivity].
  unfold name_err. destruct (HL e eq_refl) as [-> | [-> | [-> | ->]]]; cbn; destruct esc; zl.
Qed.

Lemma from_text_codes v o : (forall e, NameM.from_text v o = Lib e -> name_codes e) /\ (forall e, NameM.from_text v o <> Internal e).
Proof.
  pose proof (UntrustedText.name_from_text_family v o) as F.
  destruct (NameM.from_text v o) as [n|e|e]; split; intros; try discriminate; try contradiction.
  inversion H; subst. exact F.
Qed.

Lemma mk_name_codes ls : (forall e, mk_name ls = Lib e -> name_codes e) /\ (forall e, mk_name ls <> Internal e).
Proof.
  pose proof (UntrustedText.mk_name_family ls) as F.
  destruct (mk_name ls) as [n|e|e]; split; intros; try discriminate; try contradiction.
  inversion H; subst. unfold name_codes. destruct F as [-> | [-> | ->]]; auto.
Qed.

Lemma relativize_codes n o : (forall e, relativize n o = Lib e -> name_codes e) /\ (forall e, relativize n o <> Internal e).
Proof.
  unfold relativize. destruct (is_subdomain n o); [apply mk_name_codes|].
  split; intros; discriminate.
Qed.

Lemma choose_derel_codes n o :
  (forall e, choose_relativity n o false = Lib e -> name_codes e) /\ (forall e, choose_relativity n o false <> Internal e).
Proof.
  unfold choose_relativity. destruct o as [[|x o']|]; try (split; intros; discriminate).
  unfold derelativize. destruct (negb (is_absolute n)) eqn:E; [|split; intros; discriminate].
  unfold concatenate. apply negb_true_iff in E. rewrite E. cbn [andb]. apply mk_name_codes.
Qed.

Lemma nice_as_name_derel esc v o : Nice (as_name esc v o false None).
Proof.
  unfold as_name. apply nice_bind.
  - apply nice_lift_name; apply from_text_codes.
  - intros n _. apply nice_lift_name; apply choose_derel_codes.
Qed.

(* ---------- the transaction ---------- *)
Lemma nice_txn_add zo rel z n ttl ty rd : Nice (txn_add zo rel z n ttl ty rd).
Proof.
  unfold txn_add.
  match goal with |- context [if ?b then Internal iValueError else _] => destruct b; [left; reflexivity|] end.
  apply nice_bind; [|intros; exact Logic.I].
  unfold cname_check. destruct (zfind z n); [|exact Logic.I].
  match goal with |- context [match node_kind ?a with _ => _ end] => destruct (node_kind a) end;
  match goal with |- context [match rds_kind ?a with _ => _ end] => destruct (rds_kind a) | _ => idtac end; cbn; try exact Logic.I; zl.
Qed.

(* ---------- one line ---------- *)
(* the reader's invariant: once there is a current origin there is a zone origin *)
Definition inv (s : rstate) : Prop := corigin s <> None -> zorigin s <> None.
Definition NiceS (s0 : rstate) (r : res rstate) : Prop :=
  Nice r /\ (forall s', r = Ok s' -> corigin s' = corigin s0 /\ zorigin s' = zorigin s0).

Lemma get_ident_nice toks : Nice (get_ident toks).
Proof. destruct toks as [|[v|v] r]; cbn; try exact Logic.I; zl. Qed.

Lemma eol_ok_S lerr s : NiceS s (eol_ok lerr s).
Proof. unfold eol_ok. destruct lerr; split; cbn; try zl; try exact Logic.I; intros; try discriminate. inversion H; auto. Qed.

Ltac keep H := inversion H; subst; cbn; auto.

Lemma rr_fields_S c s co zo n toks lerr : NiceS s (rr_fields c s co zo n toks lerr).
Proof.
  unfold rr_fields.
  destruct (get_ident toks) as [[v1 r1]|e|e] eqn:G1; cbn [bind];
    [|pose proof (get_ident_nice toks) as X; rewrite G1 in X; split; [exact X|intros; discriminate]
     |pose proof (get_ident_nice toks) as X; rewrite G1 in X; split; [exact X|intros; discriminate]].
  set (T := match ttl_from_text v1 with Ok t => (Some t, set_lttl s t, r1) | _ => (None, s, toks) end).
  assert (HT : corigin (snd (fst T)) = corigin s /\ zorigin (snd (fst T)) = zorigin s).
  { unfold T. destruct (ttl_from_text v1); cbn; auto. }
  destruct T as [[ttl s1] toks1]. cbn [fst snd] in HT.
  destruct (get_ident toks1) as [[v2 r2]|e|e] eqn:G2; cbn [bind];
    [|pose proof (get_ident_nice toks1) as X; rewrite G2 in X; split; [exact X|intros; discriminate]
     |pose proof (get_ident_nice toks1) as X; rewrite G2 in X; split; [exact X|intros; discriminate]].
  set (C := match class_from_text v2 with Some k => (k, r2) | None => (c_class c, toks1) end).
  destruct C as [cls toks2].
  destruct (negb (cls =? c_class c)); [split; [zl|intros; discriminate]|].
  match goal with |- NiceS s (bind ?m ?k) =>
    assert (HM : Nice m /\ (forall t3 s2 toks3, m = Ok (t3, s2, toks3) -> corigin s2 = corigin s /\ zorigin s2 = zorigin s)) end.
  { destruct ttl as [t|].
    - split; [exact Logic.I|]. intros t3 s2 toks3 H. inversion H; subst. exact HT.
    - destruct (get_ident toks2) as [[v3 r3]|e|e] eqn:G3; cbn [bind];
        [|pose proof (get_ident_nice toks2) as X; rewrite G3 in X; split; [exact X|intros; discriminate]
         |pose proof (get_ident_nice toks2) as X; rewrite G3 in X; split; [exact X|intros; discriminate]].
      destruct (ttl_from_text v3); (split; [exact Logic.I|]); intros t3 s2 toks3 H; inversion H; subst; cbn; exact HT. }
  destruct HM as [HN HK].
  match goal with |- NiceS s (bind ?m ?k) => destruct m as [[[ttl' s2] toks3]|e|e] end; cbn [bind];
    [|split; [exact HN|intros; discriminate]|split; [exact HN|intros; discriminate]].
  specialize (HK _ _ _ eq_refl).
  destruct (get_ident toks3) as [[v4 toks4]|e|e] eqn:G4; cbn [bind];
    [|pose proof (get_ident_nice toks3) as X; rewrite G4 in X; split; [exact X|intros; discriminate]
     |pose proof (get_ident_nice toks3) as X; rewrite G4 in X; split; [exact X|intros; discriminate]].
  destruct (type_from_text v4) as [ty|]; [|split; [zl|intros; discriminate]].
  pose proof (nice_parse_rdata ty toks4 lerr co (c_rel c) zo) as NP.
  destruct (parse_rdata ty toks4 lerr co (c_rel c) zo) as [rd|e|e]; cbn [bind];
    [|split; [exact NP|intros; discriminate]|split; [exact NP|intros; discriminate]].
  match goal with |- NiceS s (let '(a, b) := ?X in _) =>
    assert (HX : corigin (snd X) = corigin s /\ zorigin (snd X) = zorigin s);
    [|destruct X as [ttl3 s3]] end.
  { destruct (negb (dttl_known s2) && (ty =? tSOA)); [|exact HK].
    destruct (nth_error rd 6) as [[]|]; cbn; exact HK. }
  cbn [snd] in HX.
  destruct ttl3 as [t|]; [|split; [zl|intros; discriminate]].
  pose proof (nice_txn_add zo (c_rel c) (zn s3) n t ty rd) as NA.
  destruct (txn_add zo (c_rel c) (zn s3) n t ty rd) as [z'|e|e]; cbn [bind];
    [|split; [exact NA|intros; discriminate]|split; [exact NA|intros; discriminate]].
  split; [exact Logic.I|]. intros s' H. inversion H; subst. cbn. exact HX.
Qed.

Lemma NiceS_fail s {e} : zlib e -> NiceS s (Lib e).
Proof. intros H. split; [exact H|intros; discriminate]. Qed.

Lemma NiceS_of_nice s (r : res rstate) : Nice r -> (forall s', r <> Ok s') -> NiceS s r.
Proof. intros H N. split; [exact H|]. intros s' E. exfalso. eapply N; eauto. Qed.

Lemma NiceS_trans s0 s1 r :
  corigin s1 = corigin s0 -> zorigin s1 = zorigin s0 -> NiceS s1 r -> NiceS s0 r.
Proof. intros C Z [N K]. split; [exact N|]. intros s' E. destruct (K s' E). split; congruence. Qed.

(* Reader._rr_line *)
Lemma rr_line_S c s lead toks lerr : inv s -> NiceS s (rr_line c s lead toks lerr).
Proof.
  intros I. unfold rr_line. destruct (corigin s) as [co|] eqn:Co; [|apply NiceS_fail; zl].
  match goal with |- NiceS s (bind ?m ?k) =>
    assert (HM : Nice m /\ (forall s1 t b, m = Ok (s1, t, b) -> corigin s1 = corigin s /\ zorigin s1 = zorigin s)) end.
  { destruct lead.
    - destruct toks; (split; [exact Logic.I|]); intros s1 t1 b H; inversion H; auto.
    - destruct toks as [|[v|v] r]; try (split; [zl|intros; discriminate]).
      pose proof (nice_as_name_derel true v (Some co)) as NA.
      destruct (as_name true v (Some co) false None) as [n|e|e]; cbn [bind];
        try (split; [exact NA|intros; discriminate]).
      split; [exact Logic.I|]. intros s1 t1 b H; inversion H; subst; cbn; auto. }
  destruct HM as [HN HK].
  match goal with |- NiceS s (bind ?m ?k) => destruct m as [[[s1 toks1] blank]|e|e] end; cbn [bind];
    [|split; [exact HN|intros; discriminate]|split; [exact HN|intros; discriminate]].
  destruct (HK _ _ _ eq_refl) as [C1 Z1].
  destruct blank.
  { eapply NiceS_trans; [exact C1|exact Z1|apply eol_ok_S]. }
  destruct (lastname s1) as [nm|]; [|apply NiceS_fail; zl].
  destruct (zorigin s1) as [zo|] eqn:Zo.
  2:{ exfalso. apply I; [rewrite Co; discriminate|]. congruence. }
  assert (Z1' : zorigin s1 = zorigin s) by congruence.
  destruct (negb (is_subdomain nm zo)).
  { eapply NiceS_trans; [exact C1|exact Z1'|apply eol_ok_S]. }
  match goal with |- NiceS s (bind ?m ?k) => assert (HR : Nice m) end.
  { destruct (c_rel c); [|exact Logic.I]. apply nice_lift_name; apply relativize_codes. }
  match goal with |- NiceS s (bind ?m ?k) => destruct m as [n|e|e] end; cbn [bind];
    [|split; [exact HR|intros; discriminate]|split; [exact HR|intros; discriminate]].
  eapply NiceS_trans; [exact C1|exact Z1'|apply rr_fields_S].
Qed.

(* the `for i in range(...)` loop of _generate_line *)
Lemma gen_loop_S : forall count i step c s co zo lhs rhs lm rm ttl ty,
  Nice (gen_loop count i step c s co zo lhs rhs lm rm ttl ty) /\
  (forall s' b, gen_loop count i step c s co zo lhs rhs lm rm ttl ty = Ok (s', b) ->
                corigin s' = corigin s /\ zorigin s' = zorigin s).
Proof.
  induction count as [|k IH]; intros i step c s co zo lhs rhs lm rm ttl ty; cbn [gen_loop].
  - split; [exact Logic.I|]. intros s' b H; inversion H; auto.
  - destruct lm as [[[[lmod lneg] loff] lwidth] lbase]. destruct rm as [[[[rmod rneg] roff] rwidth] rbase].
    cbv zeta.
    match goal with |- context [lift_name true (NameM.from_text ?t ?o)] =>
      pose proof (nice_lift_name (A:=name) true (NameM.from_text t o) (proj1 (from_text_codes t o)) (proj2 (from_text_codes t o))) as N1;
      destruct (lift_name true (NameM.from_text t o)) as [nm|e|e] end; cbn [bind];
      [|split; [exact N1|intros; discriminate]|split; [exact N1|intros; discriminate]].
    destruct (negb (is_subdomain nm zo)).
    { split; [exact Logic.I|]. intros s' b H; inversion H; subst; cbn; auto. }
    match goal with |- context [bind ?m _] => assert (HR : Nice m) end.
    { destruct (c_rel c); [|exact Logic.I]. apply nice_lift_name; apply relativize_codes. }
    match goal with |- context [bind ?m _] => destruct m as [n|e|e] end; cbn [bind];
      [|split; [exact HR|intros; discriminate]|split; [exact HR|intros; discriminate]].
    match goal with |- context [lex ?t 0 MSkip []] => destruct (lex t 0 MSkip []) as [[toks term] rest] end.
    match goal with |- context [parse_rdata ?a1 ?a2 ?a3 ?a4 ?a5 ?a6] =>
      pose proof (nice_parse_rdata a1 a2 a3 a4 a5 a6) as NP; destruct (parse_rdata a1 a2 a3 a4 a5 a6) as [rd|e|e] end; cbn [bind];
      [|split; [exact NP|intros; discriminate]|split; [exact NP|intros; discriminate]].
    match goal with |- context [txn_add ?a1 ?a2 ?a3 ?a4 ?a5 ?a6 ?a7] =>
      pose proof (nice_txn_add a1 a2 a3 a4 a5 a6 a7) as NA; destruct (txn_add a1 a2 a3 a4 a5 a6 a7) as [z'|e|e] end; cbn [bind];
      [|split; [exact NA|intros; discriminate]|split; [exact NA|intros; discriminate]].
    match goal with |- context [gen_loop k ?i' step c ?s' co zo lhs rhs ?lm' ?rm' ttl ty] =>
      destruct (IH i' step c s' co zo lhs rhs lm' rm' ttl ty) as [N K] end.
    split; [exact N|]. intros s' b H. destruct (K s' b H) as [A B]. cbn in A, B. auto.
Qed.

Lemma parse_modify_nice side : Nice (parse_modify side).
Proof.
  unfold parse_modify. cbv zeta.
  match goal with |- Nice (if ?b then _ else _) => destruct b; [zl|exact Logic.I] end.
Qed.

(* Reader._generate_line *)
Lemma generate_line_S c s toks lerr : inv s ->
  Nice (generate_line c s toks lerr) /\
  (forall s' l, generate_line c s toks lerr = Ok (s', l) -> corigin s' = corigin s /\ zorigin s' = zorigin s).
Proof.
  intros I. unfold generate_line.
  destruct (corigin s) as [co|] eqn:Co; [|split; [zl|intros; discriminate]].
  destruct toks as [|t0 toks0]; [split; [zl|intros; discriminate]|].
  destruct (grange_from_text (tokval t0)) as [[[start stop] step]|e|e]; try (split; [zl|intros; discriminate]).
  Ltac gi t v r G :=
    destruct (get_ident t) as [[v r]|?|?] eqn:G; cbn [bind];
    [|let X := fresh "X" in pose proof (get_ident_nice t) as X; rewrite G in X; split; [exact X|intros; discriminate]
     |let X := fresh "X" in pose proof (get_ident_nice t) as X; rewrite G in X; split; [exact X|intros; discriminate]].
  gi toks0 lhs toks1 Ga. gi toks1 v1 r1 Gb.
  match goal with |- context [bind ?m _] =>
    assert (HM : Nice m /\ (forall t1 s1 v r, m = Ok (t1, s1, v, r) -> corigin s1 = corigin s /\ zorigin s1 = zorigin s)) end.
  { destruct (ttl_from_text v1) as [t|e|e].
    - destruct (get_ident r1) as [[v r]|e|e] eqn:G; cbn [bind];
        [|pose proof (get_ident_nice r1) as X; rewrite G in X; split; [exact X|intros; discriminate]
         |pose proof (get_ident_nice r1) as X; rewrite G in X; split; [exact X|intros; discriminate]].
      split; [exact Logic.I|]. intros t1 s1 v' r' H; inversion H; subst; cbn; auto.
    - destruct (dttl_known s); [|destruct (lttl_known s)]; (split; [try exact Logic.I; zl|]); intros t1 s1 v' r' H; inversion H; subst; auto.
    - destruct (dttl_known s); [|destruct (lttl_known s)]; (split; [try exact Logic.I; zl|]); intros t1 s1 v' r' H; inversion H; subst; auto. }
  destruct HM as [HN HK].
  match goal with |- context [bind ?m _] => destruct m as [[[[ttl s1] v2] r2]|e|e] end; cbn [bind];
    [|split; [exact HN|intros; discriminate]|split; [exact HN|intros; discriminate]].
  destruct (HK _ _ _ _ eq_refl) as [C1 Z1].
  match goal with |- context [bind ?m _] => assert (HC : Nice m) end.
  { destruct (class_from_text v2); [|exact Logic.I].
    destruct (get_ident r2) as [[v r]|e|e] eqn:G; cbn [bind]; try exact Logic.I;
      pose proof (get_ident_nice r2) as X; rewrite G in X; exact X. }
  match goal with |- context [bind ?m _] => destruct m as [[[cls v3] r3]|e|e] end; cbn [bind];
    [|split; [exact HC|intros; discriminate]|split; [exact HC|intros; discriminate]].
  destruct (negb (cls =? c_class c)); [split; [zl|intros; discriminate]|].
  destruct (type_from_text v3) as [ty|]; [|split; [zl|intros; discriminate]].
  gi r3 rhs r4 Gc.
  pose proof (parse_modify_nice lhs) as P1.
  destruct (parse_modify lhs) as [lm|e|e]; cbn [bind];
    [|split; [exact P1|intros; discriminate]|split; [exact P1|intros; discriminate]].
  pose proof (parse_modify_nice rhs) as P2.
  destruct (parse_modify rhs) as [rm|e|e]; cbn [bind];
    [|split; [exact P2|intros; discriminate]|split; [exact P2|intros; discriminate]].
  destruct (zorigin s1) as [zo|] eqn:Zo.
  2:{ exfalso. apply I; [rewrite Co; discriminate|]. congruence. }
  match goal with |- context [gen_loop ?a1 ?a2 ?a3 ?a4 ?a5 ?a6 ?a7 ?a8 ?a9 ?a10 ?a11 ?a12 ?a13] =>
    destruct (gen_loop_S a1 a2 a3 a4 a5 a6 a7 a8 a9 a10 a11 a12 a13) as [NG KG];
    destruct (gen_loop a1 a2 a3 a4 a5 a6 a7 a8 a9 a10 a11 a12 a13) as [[s2 eaten]|e|e] end; cbn [bind];
    [|split; [exact NG|intros; discriminate]|split; [exact NG|intros; discriminate]].
  destruct (KG _ _ eq_refl) as [C2 Z2].
  destruct eaten; [destruct lerr|]; (split; [try exact Logic.I; zl|]); intros s' l' H; inversion H; subst; split; congruence.
Qed.

(* one logical line of Reader.read: keeps the invariant *)
Lemma process_line_S c s lead toks lerr : inv s ->
  Nice (process_line c s lead toks lerr) /\ (forall s', process_line c s lead toks lerr = Ok s' -> inv s').
Proof.
  intros I. unfold process_line.
  assert (RL : forall s0 l t, inv s0 -> Nice (rr_line c s0 l t lerr) /\ (forall s', rr_line c s0 l t lerr = Ok s' -> inv s')).
  { intros s0 l t I0. destruct (rr_line_S c s0 l t lerr I0) as [N K]. split; [exact N|].
    intros s' H. destruct (K s' H) as [A B]. unfold inv in *. rewrite A, B. exact I0. }
  destruct lead; [apply RL; exact I|].
  destruct toks as [|t rest].
  { destruct (eol_ok_S lerr s) as [N K]. split; [exact N|]. intros s' H. destruct (K s' H) as [A B]. unfold inv in *. rewrite A, B. exact I. }
  destruct (tokval t) as [|ch tl] eqn:TV; [apply RL; exact I|].
  destruct (Z.eq_dec ch 36) as [->|Hne].
  2:{ assert (E : match ch :: tl with 36 :: _ => @Lib rstate 0 | _ => Ok s end = Ok s).
      { destruct ch as [|p|p]; try reflexivity. do 6 (try (destruct p as [p|p|]; try reflexivity)). congruence. }
      (* the `$` test fails: an ordinary record line *)
      assert (X : forall (A : Type) (a b : A), match ch :: tl with 36 :: _ => a | _ => b end = b).
      { intros. destruct ch as [|p|p]; try reflexivity. do 6 (try (destruct p as [p|p|]; try reflexivity)). congruence. }
      rewrite X. apply RL; exact I. }
  repeat match goal with |- context [if zlist_eqb ?a ?b then _ else _] => destruct (zlist_eqb a b) end.
  - (* $TTL *)
    destruct (get_ident rest) as [[v r]|e|e] eqn:G; cbn [bind];
      [|pose proof (get_ident_nice rest) as X; rewrite G in X; split; [exact X|intros; discriminate]
       |pose proof (get_ident_nice rest) as X; rewrite G in X; split; [exact X|intros; discriminate]].
    destruct (ttl_from_text v); try (split; [zl|intros; discriminate]).
    destruct r; [|split; [zl|intros; discriminate]].
    destruct (eol_ok_S lerr (set_dttl s a)) as [N K]. split; [exact N|].
    intros s' H. destruct (K s' H) as [A B]. unfold inv in *. rewrite A, B. exact I.
  - (* $ORIGIN *)
    destruct (get_ident rest) as [[v r]|e|e] eqn:G; cbn [bind];
      [|pose proof (get_ident_nice rest) as X; rewrite G in X; split; [exact X|intros; discriminate]
       |pose proof (get_ident_nice rest) as X; rewrite G in X; split; [exact X|intros; discriminate]].
    pose proof (nice_as_name_derel true v None) as NA.
    destruct (as_name true v None false None) as [o|e|e]; cbn [bind];
      [|split; [exact NA|intros; discriminate]|split; [exact NA|intros; discriminate]].
    destruct r; [|split; [zl|intros; discriminate]].
    destruct lerr; [split; [zl|intros; discriminate]|].
    destruct (is_absolute o); [|split; [zl|intros; discriminate]].
    split; [exact Logic.I|]. intros s' H. inversion H; subst. unfold inv, set_origin. cbn.
    intros _. destruct (zorigin s); discriminate.
  - (* $GENERATE *)
    destruct (generate_line_S c s rest lerr I) as [N K].
    destruct (generate_line c s rest lerr) as [[s1 lft]|e|e]; cbn [bind];
      [|split; [exact N|intros; discriminate]|split; [exact N|intros; discriminate]].
    destruct (K _ _ eq_refl) as [A B].
    assert (I1 : inv s1) by (unfold inv in *; rewrite A, B; exact I).
    destruct lft as [[|x l]|].
    + destruct (eol_ok_S lerr s1) as [N1 K1]. split; [exact N1|].
      intros s' H. destruct (K1 s' H) as [A1 B1]. unfold inv in *. rewrite A1, B1. exact I1.
    + apply RL; exact I1.
    + split; [exact Logic.I|]. intros s' H; inversion H; subst; exact I1.
  - (* $UNICODE *)
    destruct (all_ids rest); [|split; [zl|intros; discriminate]].
    destruct (eol_ok_S lerr s) as [N K]. split; [exact N|].
    intros s' H. destruct (K s' H) as [A B]. unfold inv in *. rewrite A, B. exact I.
  - split; [zl|intros; discriminate].
Qed.

Lemma read_loop_nice c : forall fuel s text, inv s -> Nice (read_loop fuel c s text).
Proof.
  induction fuel as [|f IH]; intros s text I; cbn [read_loop]; [right; reflexivity|].
  destruct (lex text 0 MSkip []) as [[toks term] rest].
  match goal with |- context [process_line c s ?a ?b ?d] =>
    destruct (process_line_S c s a b d I) as [N K]; destruct (process_line c s a b d) as [s'|e|e] end; cbn [bind];
    try exact N.
  destruct term; [apply IH; apply K; reflexivity|exact Logic.I|zl].
Qed.

Lemma inv_init c : inv (init_state c).
Proof. unfold inv, init_state. cbn. auto. Qed.

(* dns.zone.from_text: EVERY character string, every origin / relativize / check_origin setting *)
Theorem zone_from_text_outcome c text :
  match ZoneTextM.from_text c text with
  | Ok _ => True
  | Lib e => zlib e
  | Internal e => e = iValueError
  end.
Proof.
  unfold ZoneTextM.from_text.
  pose proof (read_loop_nice c (S (length text)) (init_state c) text (inv_init c)) as N.
  pose proof (ZoneTextFuel.read_loop_fuel_sufficient_proof c (S (length text)) text (init_state c) (Nat.lt_succ_diag_r _)) as F.
  destruct (read_loop (S (length text)) c (init_state c) text) as [s|e|e]; cbn [bind].
  - set (origin := match zn s with [] => c_origin c | _ => zorigin s end).
    destruct (c_check c); [|exact Logic.I].
    unfold check_origin.
    match goal with |- context [match ?x with None => Lib eNoSOA | Some n => _ end] => destruct x end; cbn [bind]; [|zl].
    repeat match goal with |- context [if ?b then _ else _] => destruct b; cbn [bind]; try zl end;
      try exact Logic.I.
  - exact N.
  - destruct N as [-> | ->]; [reflexivity|]. exfalso. apply F; reflexivity.
Qed.

(* ---------- dns.zonefile.read_rrsets ---------- *)
(* here the fuel marker is excluded directly: each logical line consumes input *)

Lemma nice_no_fuel {A} (r : res A) : Nice r -> (r <> Internal iFuelZ) -> NiceR r.
Proof. destruct r as [a|e|e]; cbn; auto. intros [->| ->] H; [reflexivity|]. exfalso; apply H; reflexivity. Qed.


Lemma nicer_get_ident toks : NiceR (get_ident toks).
Proof. destruct toks as [|[v|v] r]; cbn; try exact Logic.I; zl. Qed.

Lemma nicer_lift_name {A} esc (r : res A) :
  (forall e, r = Lib e -> name_codes e) -> (forall e, r <> Internal e) -> NiceR (lift_name esc r).
Proof.
  intros HL HI. destruct r as [a|e|e]; cbn [lift_name]; [exact Logic.I| |exfalso; eapply HI; reflexivity].
  unfold name_err. destruct (HL e eq_refl) as [-> | [-> | [-> | ->]]]; cbn; destruct esc; zl.
Qed.

Lemma nicer_as_name esc v o : NiceR (as_name esc v o false None).
Proof.
  unfold as_name. apply nicer_bind.
  - apply nicer_lift_name; apply from_text_codes.
  - intros n. apply nicer_lift_name; apply choose_derel_codes.
Qed.

Lemma nicer_rrs_add zo rel st n ttl ty rd : NiceR (rrs_add zo rel st n ttl ty rd).
Proof.
  unfold rrs_add. cbv zeta.
  match goal with |- context [if ?b then Internal iValueError else _] => destruct b; [reflexivity|] end.
  apply nicer_bind; [|intros; exact Logic.I].
  destruct (rrs_node st n); [exact Logic.I|].
  match goal with |- context [match node_kind ?a with _ => _ end] => destruct (node_kind a) end;
  match goal with |- context [match rds_kind ?a with _ => _ end] => destruct (rds_kind a) | _ => idtac end; cbn; try exact Logic.I; zl.
Qed.

Lemma nicer_rrs_fields c zo s last n toks lerr : NiceR (rrs_fields c zo s last n toks lerr).
Proof.
  unfold rrs_fields.
  apply nicer_bind; [apply nicer_get_ident|]. intros [v1 r1].
  destruct (ttl_from_text v1) as [t1|e1|e1]; cbv beta iota.
  all: apply nicer_bind; [apply nicer_get_ident|]; intros [v2 r2].
  all: destruct (class_from_text v2) as [k|]; cbv beta iota.
  all: match goal with |- NiceR (if ?b then _ else _) => destruct b; [zl|] end.
  all: apply nicer_bind;
    [ first [ exact Logic.I
            | apply nicer_bind; [apply nicer_get_ident|]; intros [v3 r3];
              destruct (ttl_from_text v3); exact Logic.I ] | ].
  all: intros [[[ttl2 lt2] ltk2] toksc].
  all: apply nicer_bind; [apply nicer_get_ident|]; intros [v4 toksd].
  all: destruct (type_from_text v4) as [ty|]; [|zl].
  all: apply nicer_bind; [apply nicer_parse_rdata|]; intros rd.
  all: destruct (negb (rr_dttl_known s) && (ty =? tSOA)); [destruct (nth_error rd 6) as [[]|]|]; cbv beta iota.
  all: match goal with |- NiceR (match ?t with Some _ => _ | None => _ end) => destruct t; [|zl] end.
  all: try (apply nicer_bind; [apply nicer_rrs_add|]; intros; exact Logic.I).
Qed.

Lemma nicer_rrs_line c zo s lead toks lerr : NiceR (rrs_line c zo s lead toks lerr).
Proof.
  unfold rrs_line. apply nicer_bind.
  { destruct lead; [destruct toks; exact Logic.I|].
    destruct toks as [|[v|v] r]; try zl.
    apply nicer_bind; [apply nicer_as_name|intros; exact Logic.I]. }
  intros [[last toks1] blank]. cbv zeta.
  destruct blank; [destruct lerr; [zl|exact Logic.I]|].
  destruct last as [nm|]; [|zl].
  destruct (negb (is_subdomain nm zo)); [destruct lerr; [zl|exact Logic.I]|].
  apply nicer_bind.
  { destruct (c_rel c); [|exact Logic.I]. apply nicer_lift_name; apply relativize_codes. }
  intros n. apply nicer_rrs_fields.
Qed.

Lemma nicer_rrs_loop c zo : forall fuel s text, (length text < fuel)%nat -> NiceR (rrs_loop fuel c zo s text).
Proof.
  induction fuel as [|f IH]; intros s text Hl; [lia|]. cbn [rrs_loop].
  destruct (lex text 0 MSkip []) as [[toks term] rest] eqn:L.
  apply ZoneTextFuel.lex_rest in L as [L1 L2]. cbv zeta.
  apply nicer_bind.
  { destruct (starts_ws text); [apply nicer_rrs_line|].
    destruct toks; [destruct term; try exact Logic.I; zl|apply nicer_rrs_line]. }
  intros s'. destruct term; [|exact Logic.I|zl].
  apply IH. specialize (L2 eq_refl). lia.
Qed.

(* dns.zonefile.read_rrsets: EVERY character string *)
Theorem read_rrsets_outcome c zo text :
  match ZoneTextM.read_rrsets c zo text with
  | Ok _ => True
  | Lib e => zlib e
  | Internal e => e = iValueError
  end.
Proof.
  unfold ZoneTextM.read_rrsets.
  pose proof (nicer_rrs_loop c zo (S (length text)) (mkrr (Some zo) 0 false 0 false []) text (Nat.lt_succ_diag_r _)) as N.
  destruct (rrs_loop (S (length text)) c zo (mkrr (Some zo) 0 false 0 false []) text); cbn [bind]; auto.
Qed.
