(* C09: an order-independent statement of zone well-formedness; it implies the (order-dependent)
   hypothesis of zone_roundtrip for every order of the names, in particular the printer's. *)
From DV Require Import Base.Prelude Model.NameM Model.ZoneTextM.
From DV Require Import Proofs.NameOrder.
From DV Require Import Proofs.ZoneTextBase Proofs.ZoneTextAcc Proofs.ZoneTextRecord Proofs.ZoneTextRoundtrip.
From Coq Require Import Permutation.
Open Scope Z_scope.

Lemma name_eqb_sym a b : name_eqb a b = name_eqb b a.
Proof.
  destruct (name_eqb a b) eqn:E1; destruct (name_eqb b a) eqn:E2; try reflexivity.
  - apply name_eqb_iff_ci in E1. assert (H : ci_equal b a) by (symmetry; exact E1).
    apply name_eqb_iff_ci in H. congruence.
  - apply name_eqb_iff_ci in E2. assert (H : ci_equal a b) by (symmetry; exact E2).
    apply name_eqb_iff_ci in H. congruence.
Qed.

(* the names of a zone are pairwise different (dictionary keys) *)
Inductive keys_distinct : zone -> Prop :=
| kd_nil : keys_distinct []
| kd_cons e z : Forall (fun e' => name_eqb (fst e') (fst e) = false) z -> keys_distinct z ->
                keys_distinct (e :: z).

Lemma keys_distinct_perm a b : Permutation a b -> keys_distinct a -> keys_distinct b.
Proof.
  induction 1 as [|x a b Hp IH|x y a|a b c0 H1 IH1 H2 IH2]; intros H.
  - exact H.
  - inversion H; subst. constructor; [|auto].
    eapply Permutation_Forall; eauto.
  - inversion H as [|? ? Hx Hr]; subst. inversion Hr as [|? ? Hy Hr']; subst.
    inversion Hx as [|? ? Hyx Hx']; subst.
    constructor; [constructor; [rewrite name_eqb_sym; exact Hyx|exact Hy]|].
    constructor; [exact Hx'|exact Hr'].
  - auto.
Qed.

Section Wf.
  Variable c : cfg.
  Variable st : style.
  Variable zo : name.

  (* what must hold of one name of the zone, whatever the other names are *)
  Definition node_wf (e : name * node) : Prop :=
    snd e <> [] /\ (exists v nabs, owner_ok c st zo (fst e) v nabs) /\ rdss_wf c st zo (fst e) [] (snd e).

  Definition zone_wf (z : zone) : Prop := keys_distinct z /\ Forall node_wf z.

  Lemma zone_wf_perm a b : Permutation a b -> zone_wf a -> zone_wf b.
  Proof.
    intros Hp [Hk Hn]. split; [eapply keys_distinct_perm; eauto|eapply Permutation_Forall; eauto].
  Qed.

  Lemma nodes_wf_of_zone_wf : forall rest zdone,
    Forall (fun d => Forall (fun e => name_eqb (fst d) (fst e) = false) rest) zdone ->
    zone_wf rest -> nodes_wf c st zo zdone rest.
  Proof.
    induction rest as [|[n nd] rest IH]; intros zdone Hd [Hk Hn]; cbn [nodes_wf]; [exact Logic.I|].
    inversion Hk as [|? ? Hfr Hk']; subst. inversion Hn as [|? ? Hn1 Hn']; subst.
    destruct Hn1 as (Hne & Hown & Hrw). cbn [fst snd] in *.
    split; [|split; [exact Hne|split; [exact Hown|split; [exact Hrw|]]]].
    - unfold key_fresh. eapply Forall_impl; [|exact Hd]. intros d Hdd. inversion Hdd; subst. assumption.
    - apply IH; [|split; assumption].
      apply Forall_app. split.
      + eapply Forall_impl; [|exact Hd]. intros d Hdd. inversion Hdd; subst. assumption.
      + constructor; [|constructor]. cbn [fst].
        eapply Forall_impl; [|exact Hfr]. intros e He. rewrite name_eqb_sym. exact He.
  Qed.

  Lemma nodes_wf_any_order z z' : Permutation z' z -> zone_wf z -> nodes_wf c st zo [] z'.
  Proof.
    intros Hp Hw. apply nodes_wf_of_zone_wf; [constructor|].
    eapply zone_wf_perm; [symmetry; exact Hp|exact Hw].
  Qed.
End Wf.

Lemma printed_order_perm st nodes : Permutation (printed_order st nodes) nodes.
Proof.
  unfold printed_order. destruct (st_sorted st); [apply ZoneTextSweep.zsort_perm|reflexivity].
Qed.
