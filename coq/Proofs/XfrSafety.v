(* C13 - safety: the published zone only changes by the commit at the final SOA, the commit is the
   last thing process_message does, hence every error leaves the zone as it was. *)
From DV Require Import Base.Prelude Model.XfrM.

Ltac brk :=
  repeat match goal with
         | |- context [if ?b then _ else _] => destruct b eqn:?
         | |- context [match ?x with _ => _ end] => destruct x eqn:?
         | H : (_, _) = (_, _) |- _ => inversion H; subst; clear H
         end.

Lemma res_of_pub : forall A s (r : res A) k s' o,
  res_of s r k = (s', o) ->
  (exists a, r = Ok a /\ k a = (s', o)) \/ (s' = s /\ exists e, o = Some e).
Proof.
  intros A s r k s' o H. destruct r; cbn in H.
  - left; eauto.
  - right; inversion H; eauto.
  - right; inversion H; eauto.
Qed.

(* one RRset: either nothing was published, or this was the commit: it was the last RRset of the
   message, no error, and the transfer is done *)
Lemma step_pub : forall (fl : flag) s r s' o,
  step fl s r = (s', o) ->
  (pub s' = pub s /\ (done s' = true -> done s = true))
  \/ (fl <> Mid /\ o = None /\ done s' = true /\ txn s' = None).
Proof.
  intros fl s r s' o H. unfold step in H.
  destruct (done s) eqn:Hd.
  { inversion H; subst. left; auto. }
  destruct (txn s) as [tz|] eqn:Ht.
  2:{ inversion H; subst. left; rewrite Hd; auto. }
  destruct ((s_type r =? tSOA) && (s_name r =? origin)) eqn:Hsoa.
  - cbn [incremental soa set_delmode] in H.
    match type of H with (if ?c then _ else _) = _ => destruct c eqn:Hfin end.
    + destruct (soa_serial r) as [ss|]; [|inversion H; subst; left; cbn; rewrite Hd; auto].
      cbn [expecting incremental serial set_delmode] in H.
      destruct (expecting s); [inversion H; subst; left; cbn; rewrite Hd; auto|].
      match type of H with (if ?c then _ else _) = _ => destruct c end;
        [inversion H; subst; left; cbn; rewrite Hd; auto|].
      assert (COMMIT : fl <> Mid ->
        res_of (set_delmode s (if incremental s then negb (delmode s) else delmode s)) (t_add true tz r)
          (fun tz' => (set_done (set_txn (set_pub (set_delmode s (if incremental s then negb (delmode s) else delmode s)) tz') None) true, None))
        = (s', o) ->
        (pub s' = pub s /\ (done s' = true -> false = true)) \/ (fl <> Mid /\ o = None /\ done s' = true /\ txn s' = None)).
      { intros Hfl HH. apply res_of_pub in HH. destruct HH as [[tz' [_ Hk]]|[-> [e ->]]].
        - inversion Hk; subst. right. cbn. auto.
        - left; cbn; rewrite ?Hd; auto. }
      destruct fl.
      * inversion H; subst; left; cbn; rewrite Hd; auto.
      * cbn [req_tsig set_delmode] in H. rewrite andb_false_r in H. apply COMMIT; [discriminate|exact H].
      * cbn [req_tsig set_delmode] in H. rewrite andb_true_r in H. destruct (req_tsig s).
        -- inversion H; subst; left; cbn; rewrite Hd; auto.
        -- apply COMMIT; [discriminate|exact H].
    + destruct (soa_serial r) as [ss|]; [|inversion H; subst; left; cbn; rewrite Hd; auto].
      cbn [incremental set_expecting set_delmode serial] in H.
      destruct (incremental s).
      * match type of H with (if ?c then _ else _) = _ => destruct c end.
        -- match type of H with (if ?c then _ else _) = _ => destruct c end;
             inversion H; subst; left; cbn; rewrite Hd; auto.
        -- apply res_of_pub in H. destruct H as [[tz' [_ Hk]]|[-> [e ->]]].
           ++ inversion Hk; subst. left; cbn; rewrite Hd; auto.
           ++ left; cbn; rewrite Hd; auto.
      * inversion H; subst; left; cbn; rewrite Hd; auto.
  - destruct (expecting s) eqn:He.
    + match type of H with (if ?c then _ else _) = _ => destruct c end.
      * inversion H; subst. left; cbn; rewrite Hd; auto.
      * cbn [delmode set_txn set_delmode] in H.
        apply res_of_pub in H. destruct H as [[tz' [_ Hk]]|[-> [e ->]]].
        -- inversion Hk; subst. left; cbn; rewrite Hd; auto.
        -- left; cbn; rewrite Hd; auto.
    + match type of H with (if ?c then _ else _) = _ => destruct c end.
      * inversion H; subst. left; rewrite Hd; auto.
      * destruct (delmode s).
        -- apply res_of_pub in H. destruct H as [[tz' [_ Hk]]|[-> [e ->]]].
           ++ inversion Hk; subst. left; cbn; rewrite Hd; auto.
           ++ left; rewrite Hd; auto.
        -- apply res_of_pub in H. destruct H as [[tz' [_ Hk]]|[-> [e ->]]].
           ++ inversion Hk; subst. left; cbn; rewrite Hd; auto.
           ++ left; rewrite Hd; auto.
Qed.

Lemma loop_pub : forall sg rs s s' o,
  loopT sg s rs = (s', o) ->
  pub s' = pub s \/ (o = None /\ done s' = true /\ txn s' = None).
Proof.
  intros sg. induction rs as [|r rest IH]; intros s s' o H; cbn [loopT] in H.
  - inversion H; subst. left; auto.
  - destruct (step (match rest with [] => (if sg then Last else LastNoSig) | _ :: _ => Mid end) s r) as [s1 [e|]] eqn:Hs.
    + inversion H; subst. apply step_pub in Hs. destruct Hs as [[Hp Hd]|[_ [Hn _]]]; [left; auto|discriminate].
    + apply step_pub in Hs. destruct Hs as [[Hp Hd]|[Hl [_ [Hd Ht]]]].
      * apply IH in H. destruct H as [Hp'|H]; [left; congruence|right; auto].
      * destruct rest; [|congruence]. cbn in H. inversion H; subst. right; auto.
Qed.

(* the check made after the loop ("unexpected end of UDP IXFR") cannot fire after a commit *)
Lemma after_pub : forall sa (r : st * option Z) s' o,
  (pub (fst r) = pub sa \/ (snd r = None /\ done (fst r) = true /\ txn (fst r) = None)) ->
  (match r with
   | (s1, Some e) => (s1, Some e)
   | (s1, None) => if is_udp s1 && negb (done s1) then (s1, Some eUDPEnd) else (s1, None)
   end) = (s', o) ->
  pub s' = pub sa \/ (o = None /\ done s' = true /\ txn s' = None).
Proof.
  intros sa [s1 [e|]] s' o Hr Ha; cbn [fst snd] in Hr.
  - inversion Ha; subst. destruct Hr as [?|[? _]]; [left; auto|discriminate].
  - destruct (is_udp s1 && negb (done s1)) eqn:Hu; inversion Ha; subst.
    + destruct Hr as [?|[_ [Hd _]]]; [left; auto|].
      rewrite Hd in Hu. rewrite andb_false_r in Hu. discriminate.
    + destruct Hr as [?|?]; [left; auto|right; auto].
Qed.

(* one call of process_message: either the published zone is untouched, or the call committed,
   returned True and raised nothing *)
Lemma process_message_pub : forall s m s' o,
  process_message s m = (s', o) ->
  pub s' = pub s \/ (o = None /\ done s' = true /\ txn s' = None).
Proof.
  intros s m s' o H. unfold process_message in H.
  set (s0 := match txn s with
             | None => set_txn s (Some (if incremental s then pub s else []))
             | Some _ => s end) in *.
  assert (Hp0 : pub s0 = pub s) by (subst s0; destruct (txn s); reflexivity).
  clearbody s0. rewrite <- Hp0.
  destruct (negb (m_rcode m =? 0)). { inversion H; subst. left; auto. }
  match type of H with (match ?q with Some e => _ | None => _ end) = _ => destruct q end.
  { inversion H; subst. left; auto. }
  destruct (soa s0) eqn:Hsoa.
  - eapply after_pub in H; [exact H|].
    destruct (loopT (m_tsig m) s0 (m_answer m)) as [s1 o1] eqn:Hl. apply loop_pub in Hl. exact Hl.
  - destruct (m_answer m) as [|r0 rest]. { inversion H; subst. left; auto. }
    destruct (negb (s_name r0 =? origin)). { inversion H; subst. left; auto. }
    destruct (negb (s_type r0 =? tSOA)). { inversion H; subst. left; auto. }
    cbn [incremental set_soa] in H.
    destruct (incremental s0).
    + destruct (soa_serial r0) as [ss|]. 2:{ inversion H; subst. left; auto. }
      cbn [serial is_udp set_soa] in H.
      destruct (ss =? serial s0).
      * eapply after_pub with (sa := s0) in H; [exact H|].
        destruct (loopT _ _ rest) as [s1 o1] eqn:Hl. apply loop_pub in Hl. exact Hl.
      * destruct (serial_lt ss (serial s0)). { inversion H; subst. left; auto. }
        match type of H with (if ?c then _ else _) = _ => destruct c end.
        { inversion H; subst. left; auto. }
        eapply after_pub with (sa := s0) in H; [exact H|].
        destruct (loopT _ _ rest) as [s1 o1] eqn:Hl. apply loop_pub in Hl. exact Hl.
    + eapply after_pub with (sa := s0) in H; [exact H|].
      destruct (loopT _ _ rest) as [s1 o1] eqn:Hl. apply loop_pub in Hl. exact Hl.
Qed.

(* ---- require_tsig is constant; with it, a message without TSIG publishes nothing ---- *)
Lemma step_req_tsig : forall (fl : flag) s r s' o, step fl s r = (s', o) -> req_tsig s' = req_tsig s.
Proof.
  intros fl s r s' o H. unfold step, res_of in H.
  repeat match type of H with
         | context [if ?b then _ else _] => destruct b eqn:?
         | context [match ?x with _ => _ end] => destruct x eqn:?
         end; inversion H; subst; reflexivity.
Qed.

Lemma loop_req_tsig : forall sg rs s s' o, loopT sg s rs = (s', o) -> req_tsig s' = req_tsig s.
Proof.
  intros sg. induction rs as [|r rest IH]; intros s s' o H; cbn [loopT] in H.
  - inversion H; reflexivity.
  - destruct (step _ s r) as [s1 [e|]] eqn:Hs.
    + inversion H; subst. eapply step_req_tsig; exact Hs.
    + apply IH in H. apply step_req_tsig in Hs. congruence.
Qed.

Lemma after_fst : forall (r : st * option Z) s' o,
  (match r with
   | (s1, Some e) => (s1, Some e)
   | (s1, None) => if is_udp s1 && negb (done s1) then (s1, Some eUDPEnd) else (s1, None)
   end) = (s', o) -> fst r = s'.
Proof.
  intros [s1 [e|]] s' o H; cbn [fst].
  - inversion H; reflexivity.
  - destruct (is_udp s1 && negb (done s1)); inversion H; reflexivity.
Qed.

Lemma process_req_tsig : forall s m s' o, process_message s m = (s', o) -> req_tsig s' = req_tsig s.
Proof.
  intros s m s' o H. unfold process_message in H.
  set (sx := match txn s with
             | None => set_txn s (Some (if incremental s then pub s else []))
             | Some _ => s end) in *.
  assert (Hr0 : req_tsig sx = req_tsig s) by (subst sx; destruct (txn s); reflexivity).
  clearbody sx. rewrite <- Hr0.
  assert (AFTER : forall sa rs, req_tsig sa = req_tsig sx ->
    (match loopT (m_tsig m) sa rs with
     | (s1, Some e) => (s1, Some e)
     | (s1, None) => if is_udp s1 && negb (done s1) then (s1, Some eUDPEnd) else (s1, None)
     end) = (s', o) -> req_tsig s' = req_tsig sx).
  { intros sa rs Hra HA. pose proof (after_fst _ _ _ HA) as Hf.
    destruct (loopT (m_tsig m) sa rs) as [s1 o1] eqn:Hl. cbn [fst] in Hf. subst s1.
    apply loop_req_tsig in Hl. congruence. }
  destruct (negb (m_rcode m =? 0)); [inversion H; reflexivity|].
  match type of H with (match ?q with Some e => _ | None => _ end) = _ => destruct q end; [inversion H; reflexivity|].
  destruct (soa sx).
  - eapply AFTER; [reflexivity|exact H].
  - destruct (m_answer m) as [|r0 rest]; [inversion H; reflexivity|].
    destruct (negb (s_name r0 =? origin)); [inversion H; reflexivity|].
    destruct (negb (s_type r0 =? tSOA)); [inversion H; reflexivity|].
    cbn [incremental set_soa] in H.
    destruct (incremental sx).
    + destruct (soa_serial r0); [|inversion H; reflexivity].
      cbn [serial is_udp set_soa] in H.
      destruct (z =? serial sx).
      * eapply (AFTER (set_done (set_soa sx (Some r0)) true)); [reflexivity|exact H].
      * destruct (serial_lt z (serial sx)); [inversion H; reflexivity|].
        match type of H with (if ?c then _ else _) = _ => destruct c end; [inversion H; reflexivity|].
        eapply (AFTER (set_expecting (set_soa sx (Some r0)) true)); [reflexivity|exact H].
    + eapply (AFTER (set_soa sx (Some r0))); [reflexivity|exact H].
Qed.

Lemma step_unsigned_pub : forall (fl : flag) s r s' o, req_tsig s = true -> fl <> Last ->
  step fl s r = (s', o) -> pub s' = pub s.
Proof.
  intros fl [p t rd inc se u so d e dm rq] r s' o Hrq Hfl H. cbn in Hrq. subst rq.
  unfold step, res_of in H.
  cbn [pub txn rdtype incremental serial is_udp soa done expecting delmode req_tsig
       set_pub set_txn set_incremental set_serial set_soa set_done set_expecting set_delmode] in H.
  destruct fl; [| congruence |]; cbn [andb] in H;
    repeat match type of H with
           | context [if ?b then _ else _] => destruct b
           | context [match ?x with _ => _ end] => destruct x
           end; inversion H; subst; reflexivity.
Qed.

Lemma loop_unsigned_pub : forall rs s s' o, req_tsig s = true ->
  loopT false s rs = (s', o) -> pub s' = pub s.
Proof.
  induction rs as [|r rest IH]; intros s s' o Hrq H; cbn [loopT] in H.
  - inversion H; reflexivity.
  - destruct (step _ s r) as [s1 [e|]] eqn:Hs.
    + inversion H; subst. eapply step_unsigned_pub; [exact Hrq| |exact Hs]. destruct rest; discriminate.
    + pose proof (step_req_tsig _ _ _ _ _ Hs) as R.
      apply step_unsigned_pub in Hs; [|exact Hrq|destruct rest; discriminate].
      apply IH in H; [|congruence]. congruence.
Qed.

(* one call of process_message on a message without TSIG, when TSIGs are required: nothing is published *)
Theorem unsigned_message_never_applies : forall s m s' o,
  req_tsig s = true -> m_tsig m = false ->
  process_message s m = (s', o) -> pub s' = pub s.
Proof.
  intros s m s' o Hrq Hsig H. unfold process_message in H. rewrite Hsig in H.
  set (sx := match txn s with
             | None => set_txn s (Some (if incremental s then pub s else []))
             | Some _ => s end) in *.
  assert (Hp0 : pub sx = pub s) by (subst sx; destruct (txn s); reflexivity).
  assert (Hr0 : req_tsig sx = true) by (subst sx; destruct (txn s); exact Hrq).
  clearbody sx. rewrite <- Hp0.
  assert (AFTER : forall sa rs, req_tsig sa = true -> pub sa = pub sx ->
    (match loopT false sa rs with
     | (s1, Some e) => (s1, Some e)
     | (s1, None) => if is_udp s1 && negb (done s1) then (s1, Some eUDPEnd) else (s1, None)
     end) = (s', o) -> pub s' = pub sx).
  { intros sa rs Hra Hpa HA. destruct (loopT false sa rs) as [s1 o1] eqn:Hl.
    apply loop_unsigned_pub in Hl; [|exact Hra].
    destruct o1; [inversion HA; subst; congruence|].
    destruct (is_udp s1 && negb (done s1)); inversion HA; subst; congruence. }
  destruct (negb (m_rcode m =? 0)); [inversion H; reflexivity|].
  match type of H with (match ?q with Some e => _ | None => _ end) = _ => destruct q end; [inversion H; reflexivity|].
  destruct (soa sx).
  - eapply AFTER; [exact Hr0|reflexivity|exact H].
  - destruct (m_answer m) as [|r0 rest]; [inversion H; reflexivity|].
    destruct (negb (s_name r0 =? origin)); [inversion H; reflexivity|].
    destruct (negb (s_type r0 =? tSOA)); [inversion H; reflexivity|].
    cbn [incremental set_soa] in H.
    destruct (incremental sx).
    + destruct (soa_serial r0); [|inversion H; reflexivity].
      cbn [serial is_udp set_soa] in H.
      destruct (z =? serial sx).
      * eapply (AFTER (set_done (set_soa sx (Some r0)) true)); [exact Hr0|reflexivity|exact H].
      * destruct (serial_lt z (serial sx)); [inversion H; reflexivity|].
        match type of H with (if ?c then _ else _) = _ => destruct c end; [inversion H; reflexivity|].
        eapply (AFTER (set_expecting (set_soa sx (Some r0)) true)); [exact Hr0|reflexivity|exact H].
    + eapply (AFTER (set_soa sx (Some r0))); [exact Hr0|reflexivity|exact H].
Qed.

Definition zone_of_result (r : result) : zone :=
  match r with Done z => z | Error _ z => z end.

(* the driver: an exception (including EOF before done) means the zone is what it was *)
Lemma drive_error_leaves_zone : forall one_rr ws s e z n,
  drive one_rr s ws = (Error e z, n) -> z = pub s.
Proof.
  induction ws as [|w rest IH]; intros s e z n H; cbn [drive] in H.
  - inversion H; reflexivity.
  - destruct (process_message s (from_wire one_rr w)) as [s' [e'|]] eqn:Hp.
    + inversion H; subst. apply process_message_pub in Hp.
      destruct Hp as [?|[? _]]; [auto|discriminate].
    + destruct (done s') eqn:Hd.
      * (* the check made after the loop: only an unsigned completing message, which published nothing *)
        destruct (req_tsig s' && negb (w_tsig w)) eqn:Hc; [|inversion H].
        inversion H; subst. apply andb_true_iff in Hc. destruct Hc as [Hr Hs].
        apply negb_true_iff in Hs.
        eapply (unsigned_message_never_applies s (from_wire one_rr w)); [|exact Hs|exact Hp].
        rewrite <- (process_req_tsig _ _ _ _ Hp). exact Hr.
      * destruct (drive one_rr s' rest) as [r n'] eqn:Hdr. inversion H; subst.
        apply IH in Hdr. apply process_message_pub in Hp.
        destruct Hp as [?|[_ [Hd' _]]]; [congruence|congruence].
Qed.

Theorem error_leaves_zone_t : forall req z rdt ser udp ws e z' n,
  xfr_run req z rdt ser udp ws = (Error e z', n) -> z' = z.
Proof.
  intros req z rdt ser udp ws e z' n H. unfold xfr_run in H.
  destruct (init_t req z rdt ser udp) as [s|e0] eqn:Hi.
  - apply drive_error_leaves_zone in H. subst z'.
    unfold init_t in Hi.
    destruct (rdt =? tIXFR).
    + destruct ser; inversion Hi; reflexivity.
    + destruct (rdt =? tAXFR); [|discriminate]. destruct udp; inversion Hi; reflexivity.
  - inversion H; reflexivity.
Qed.

Theorem error_leaves_zone : forall z rdt ser udp ws e z' n,
  inbound_xfr z rdt ser udp ws = (Error e z', n) -> z' = z.
Proof. intros z rdt ser udp ws e z' n. apply error_leaves_zone_t. Qed.

(* the same for the public API used without the driver: while no call has returned True the zone is
   untouched, whatever was fed *)
Lemma feed_not_done_leaves_zone : forall ms s l z,
  feed s ms = (l, z) -> ~ In rTrue l -> z = pub s.
Proof.
  induction ms as [|m rest IH]; intros s l z H Hn; cbn [feed] in H.
  - inversion H; reflexivity.
  - destruct (process_message s m) as [s' [e|]] eqn:Hp.
    + inversion H; subst. apply process_message_pub in Hp.
      destruct Hp as [?|[? _]]; [auto|discriminate].
    + destruct (feed s' rest) as [l' z'] eqn:Hf. inversion H; subst.
      apply process_message_pub in Hp.
      destruct (done s') eqn:Hd.
      * exfalso. apply Hn. left; reflexivity.
      * destruct Hp as [?|[_ [Hd' _]]]; [|congruence].
        rewrite <- H0. apply (IH _ _ _ Hf). intros Hin. apply Hn. right; exact Hin.
Qed.
