(* Render-then-parse for dynamic updates: zone section, prerequisite and update sections with the
   empty class-ANY/NONE forms, delete-an-RR form and ordinary records; one record per record set. *)
From DV Require Import Base.Prelude Model.NameM Model.MessageM.
From DV Require Import Proofs.NameOrder Proofs.NameValid Proofs.NameRel Proofs.NameWire Proofs.NameCompress.
From DV Require Import Proofs.MessageName Proofs.MessageRender Proofs.MessageRead Proofs.MessageRoundtrip Proofs.MessageRoundtrip2.
From DV Require Import Proofs.MessageSize Proofs.MessageTrunc Proofs.MessageRoundtrip3.
Open Scope Z_scope.

Section Upd.
Variable o : option name.
Hypothesis OO : org_ok o.
Variable zc : Z.      (* the zone class *)

Definition is_meta (c : Z) : bool := (c =? cANY) || (c =? cNONE).
Definition upd_del (d : rrd) : option Z := if is_meta (d_cl d) then Some (d_cl d) else None.
Definition upd_class (d : rrd) : Z := if is_meta (d_cl d) then zc else d_cl d.
Definition upd_empty (sec : Z) (d : rrd) : bool := is_meta (d_cl d) && ((d_cl d =? cANY) || (sec =? 1)).

Definition ugood (sec : Z) (d : rrd) : Prop :=
  d_ty d <> tOPT /\ d_ty d <> tTSIG /\
  if upd_empty sec d then d_fs d = [] /\ d_rd d = []
  else schema_of (upd_class d) (d_ty d) = Some (d_fs d) /\ 0 <= d_ttl d <= 2147483647.

Definition urrset (sec : Z) (d : rrd) : rrset :=
  if upd_empty sec d then mkRR (d_owner d) (upd_class d) (d_ty d) 0 (upd_del d) 0 []
  else rrset_add (mkRR (d_owner d) (upd_class d) (d_ty d) (rd_covers (d_ty d) (d_rd d)) (upd_del d) 0 [])
                 (d_rd d) (d_ttl d).

Definition apply_u (sec : Z) (m : msg) (d : rrd) : msg :=
  set_sec m sec (get_sec m sec ++ [urrset sec d]).

Lemma get_rr_upd w off abs' d end_ ext sec count i m z zs :
  RRreads o o w off abs' (d_owner d) (d_ty d) (d_cl d) (d_ttl d) (d_fs d) (d_rd d) end_ ->
  ugood sec d -> mq m = z :: zs -> rclass z = zc -> 1 <= sec <= 3 ->
  get_rr (w ++ ext) o po0 true sec count i off true m = Ok (end_, true, apply_u sec m d).
Proof.
  intros (c1 & rdl & A & B & C & D & E) (G1 & G2 & G3) HZ HC Hs.
  destruct (E ext) as (EH & ED). unfold get_rr. rewrite EH. cbn [bind].
  assert (E1 : (d_ty d =? tOPT) = false) by (apply Z.eqb_neq; assumption).
  assert (E2 : (d_ty d =? tTSIG) = false) by (apply Z.eqb_neq; assumption).
  rewrite !E1, !E2. cbn [orb]. unfold parse_rr_header. cbn [negb].
  assert (S0 : (sec =? 0) = false) by (apply Z.eqb_neq; lia). rewrite S0, HZ.
  unfold apply_u, urrset, upd_empty, upd_class, upd_del, is_meta in *. rewrite HC.
  destruct ((d_cl d =? cANY) || (d_cl d =? cNONE)) eqn:EM; cbn [bind andb] in *.
  - destruct ((d_cl d =? cANY) || (sec =? 1)) eqn:EE.
    + (* an empty form *)
      destruct G3 as (F1 & F2).
      specialize (ED []). rewrite F1, F2 in ED. cbn [dec_fields rev app] in ED. injection ED as ED.
      assert (rdl = 0)%nat by lia. subst rdl. cbn [Z.of_nat Z.gtb Z.compare].
      change (p_xfr po0) with false. cbn [andb orb]. unfold find_add.
      replace (c1 + 10)%nat with end_ by lia. reflexivity.
    + destruct G3 as (HS & Httl). rewrite Nat2Z.id.
      destruct (Nat.ltb_spec (length (w ++ ext) - (c1 + 10)) rdl); [rewrite app_length in *; lia|].
      rewrite ?E1, ?E2. unfold dec_rdata. rewrite HS, A, ED. cbn [bind fst snd rev app]. rewrite Nat.eqb_refl. cbn [bind].
      rewrite ?E1, ?E2. destruct (Z.gtb_spec (d_ttl d) 2147483647); [lia|].
      change (p_xfr po0) with false. cbn [andb orb]. unfold find_add, rd_covers.
      destruct (is_sigtype (d_ty d)); reflexivity.
  - destruct G3 as (HS & Httl). rewrite Nat2Z.id.
    destruct (Nat.ltb_spec (length (w ++ ext) - (c1 + 10)) rdl); [rewrite app_length in *; lia|].
    rewrite ?E1, ?E2. unfold dec_rdata. rewrite HS, A, ED. cbn [bind fst snd rev app]. rewrite Nat.eqb_refl. cbn [bind].
    rewrite ?E1, ?E2. destruct (Z.gtb_spec (d_ttl d) 2147483647); [lia|].
    change (p_xfr po0) with false. cbn [andb orb]. unfold find_add, rd_covers.
    destruct (is_sigtype (d_ty d)); reflexivity.
Qed.

Lemma apply_u_mq sec m d : 1 <= sec <= 3 -> mq (apply_u sec m d) = mq m.
Proof.
  intros H. unfold apply_u, set_sec. cbn [mq].
  destruct (Z.eqb_spec sec 0); [lia|reflexivity].
Qed.

Lemma get_section_chain_u w ext sec count z zs : 1 <= sec <= 3 -> rclass z = zc ->
  forall ds off end_ i m,
  Chain o w off ds end_ -> Forall (ugood sec) ds -> mq m = z :: zs ->
  get_section (w ++ ext) o po0 true sec count i (length ds) off true m
  = Ok (end_, true, fold_left (apply_u sec) ds m).
Proof.
  intros Hs HC. induction ds as [|d ds IH]; intros off end_ i m C O HZ.
  - inversion C; subst. reflexivity.
  - inversion C as [|? ? mid ? ? R C']; subst. inversion O as [|? ? G O']; subst.
    cbn [length get_section]. destruct R as (abs' & R).
    rewrite (get_rr_upd w off abs' d mid ext sec count i m z zs R G HZ HC Hs). cbn [bind].
    rewrite (IH mid end_ (S i) _ C' O'); [reflexivity|]. rewrite apply_u_mq by exact Hs. exact HZ.
Qed.
End Upd.

(* ---------- rendering the record sets of an update ---------- *)
Section UpdRender.
Variable o : option name.
Hypothesis OO : org_ok o.
Variable zc : Z.

(* a record set of sections 1..3 of an update, in the normal form the reader produces *)
Definition wf_urrset (sec : Z) (rs : rrset) : Prop :=
  name_wf o (rname rs) /\ rtype rs <> tOPT /\ rtype rs <> tTSIG /\
  ((rrds rs = [] /\ rclass rs = zc /\ rcovers rs = 0 /\ rttl rs = 0 /\
    (rdeleting rs = Some cANY \/ (rdeleting rs = Some cNONE /\ sec = 1)))
   \/
   (exists rd fs, rrds rs = [rd] /\ schema_of (rclass rs) (rtype rs) = Some fs /\
                  Forall (piece_wf o) rd /\ shaped fs rd /\ 0 <= rttl rs <= 2147483647 /\
                  rd_covers (rtype rs) rd = rcovers rs /\
                  ((rdeleting rs = None /\ is_meta (rclass rs) = false)
                   \/ (rdeleting rs = Some cNONE /\ rclass rs = zc /\ sec <> 1)))).

Definition udesc (sec : Z) (rs : rrset) (d : rrd) : Prop :=
  ugood zc sec d /\ rrset_equiv (urrset zc sec d) rs.

Lemma urrset_em_chain sec rs file t em t' :
  TableSound file t -> wf_urrset sec rs ->
  rrset_em rs o true (zlen file) t = Ok (em, t') ->
  TableSound (file ++ em) t' /\
  exists d, Chain o (file ++ em) (length file) [d] (length (file ++ em)) /\ udesc sec rs d /\ rrset_count rs = 1 /\
    (forall tq, tbl_ci tq t ->
       exists tq', rrset_em (urrset zc sec d) o true (zlen file) tq = Ok (em, tq') /\ tbl_ci tq' t').
Proof.
  intros TS (NW & T1 & T2 & K) H.
  destruct (name_wf_full o (rname rs) OO NW) as (Lown & HFo & NOL).
  unfold rrset_em in H.
  destruct K as [(E & EC & ECV & ETT & ED)|(rd & fs & E & HS & PO & SH & TTL & COV & ED)]; rewrite E in H.
  - (* an empty form *)
    destruct (rr_em_read_x o o [] (rname rs) Lown (rtype rs) (wclass rs) 0 [] true true file t em t' OO OO TS HFo NOL
                         (Forall_nil _) sh_nil H)
      as (TS1 & R1 & R2 & R3 & abs' & owner' & rd' & c1 & rdl & CIa & NOa & HX & CI2 & PO2 & S2 & A & B & C & Ex & SL & RE1).
    destruct (name_back_sim o (rname rs) Lown abs' true t OO NW HFo SL NOa) as (x' & X & HX' & CI1 & NO1 & HFX & SX).
    assert (x' = owner') by congruence. subst x'.
    inversion CI2; subst.
    split; [exact TS1|]. exists (mkD owner' (rtype rs) (wclass rs) 0 [] []).
    split.
    { econstructor; [|constructor; lia]. exists abs'. cbn [d_owner d_ty d_cl d_ttl d_fs d_rd].
      exists c1, rdl. split; [exact A|]. split; [lia|]. split; [exact B|]. split; [exact C|]. exact Ex. }
    assert (WC : wclass rs = cANY \/ (wclass rs = cNONE /\ sec = 1)).
    { unfold wclass. destruct ED as [->|(-> & ->)]; auto. }
    assert (UE : upd_empty sec (mkD owner' (rtype rs) (wclass rs) 0 [] []) = true).
    { unfold upd_empty, is_meta. cbn [d_cl]. destruct WC as [->|(-> & ->)]; reflexivity. }
    split; [|split; [unfold rrset_count; rewrite E; reflexivity|]].
    2:{ intros tq TC. destruct (RE1 tq owner' X TC HFX SX) as (tq' & E1 & TC'). exists tq'. split; [|exact TC'].
        unfold urrset. rewrite UE. unfold rrset_em, wclass at 1, upd_del, upd_class, is_meta.
        cbn [rrds rname rtype rclass rdeleting d_owner d_ty d_cl].
        assert (M : (wclass rs =? cANY) || (wclass rs =? cNONE) = true) by (destruct WC as [->|(-> & _)]; reflexivity).
        rewrite M. exact E1. }
    unfold udesc, ugood, urrset. rewrite UE. cbn [d_ty d_fs d_rd d_owner d_cl].
    split; [auto|].
    unfold rrset_equiv, upd_class, upd_del, is_meta. cbn [rname rclass rtype rcovers rdeleting rttl rrds d_cl d_owner d_ty].
    assert (M : (wclass rs =? cANY) || (wclass rs =? cNONE) = true) by (destruct WC as [->|(-> & _)]; reflexivity).
    rewrite M. rewrite E. split; [exact CI1|]. split; [symmetry; exact EC|]. split; [reflexivity|].
    split; [symmetry; exact ECV|]. split; [|split; [symmetry; exact ETT|constructor]].
    unfold wclass. destruct ED as [->|(-> & _)]; reflexivity.
  - (* one record *)
    cbn [rrs_em] in H. apply bind_ok in H. destruct H as ([e1 t1] & H1 & H). cbn [bind fst snd] in H.
    injection H as <- <-. rewrite app_nil_r.
    destruct (rr_em_read_x o o fs (rname rs) Lown (rtype rs) (wclass rs) (rttl rs) rd true true file t e1 t1 OO OO TS HFo NOL PO SH H1)
      as (TS1 & R1 & R2 & R3 & abs' & owner' & rd' & c1 & rdl & CIa & NOa & HX & CI2 & PO2 & S2 & A & B & C & Ex & SL & RE1).
    destruct (name_back_sim o (rname rs) Lown abs' true t OO NW HFo SL NOa) as (x' & X & HX' & CI1 & NO1 & HFX & SX).
    assert (x' = owner') by congruence. subst x'.
    split; [exact TS1|]. exists (mkD owner' (rtype rs) (wclass rs) (rttl rs) fs rd').
    split.
    { econstructor; [|constructor; lia]. exists abs'. cbn [d_owner d_ty d_cl d_ttl d_fs d_rd].
      exists c1, rdl. split; [exact A|]. split; [lia|]. split; [exact B|]. split; [exact C|]. exact Ex. }
    split; [|split; [unfold rrset_count; rewrite E; reflexivity|]].
    2:{ intros tq TC. destruct (RE1 tq owner' X TC HFX SX) as (tq' & E1 & TC'). exists tq'. split; [|exact TC'].
        assert (UE : upd_empty sec (mkD owner' (rtype rs) (wclass rs) (rttl rs) fs rd') = false /\
                     (match upd_del (mkD owner' (rtype rs) (wclass rs) (rttl rs) fs rd') with
                      | Some x => x | None => upd_class zc (mkD owner' (rtype rs) (wclass rs) (rttl rs) fs rd') end) = wclass rs).
        { unfold upd_empty, upd_class, upd_del, is_meta, wclass in *. cbn [d_cl].
          destruct ED as [(-> & M)|(-> & EC & NS)].
          - unfold is_meta in M. rewrite M. auto.
          - change ((cNONE =? cANY) || (cNONE =? cNONE)) with true. change (cNONE =? cANY) with false.
            destruct (Z.eqb_spec sec 1); [contradiction|]. cbn [andb orb]. auto. }
        destruct UE as (U1 & UW).
        unfold urrset. rewrite U1. unfold rrset_add, set_rds.
        cbn [rrds rttl rtype rname rclass rcovers rdeleting existsb app d_owner d_ty d_rd d_ttl].
        unfold rrset_em. cbn [rrds rname rtype rttl]. unfold wclass at 1. cbn [rdeleting rclass].
        rewrite UW. cbn [rrs_em]. rewrite E1. cbn [bind fst snd]. rewrite app_nil_r. reflexivity. }
    assert (UE : upd_empty sec (mkD owner' (rtype rs) (wclass rs) (rttl rs) fs rd') = false /\
                 upd_class zc (mkD owner' (rtype rs) (wclass rs) (rttl rs) fs rd') = rclass rs /\
                 upd_del (mkD owner' (rtype rs) (wclass rs) (rttl rs) fs rd') = rdeleting rs).
    { unfold upd_empty, upd_class, upd_del, is_meta, wclass in *. cbn [d_cl].
      destruct ED as [(-> & M)|(-> & EC & NS)].
      - unfold is_meta in M. rewrite M. auto.
      - change ((cNONE =? cANY) || (cNONE =? cNONE)) with true. change (cNONE =? cANY) with false.
        destruct (Z.eqb_spec sec 1); [contradiction|]. cbn [andb orb]. auto. }
    destruct UE as (U1 & U2 & U3).
    unfold udesc, ugood, urrset. rewrite U1, U2, U3. cbn [d_ty d_fs d_rd d_owner d_cl d_ttl].
    split; [split; [exact T1|split; [exact T2|split; [exact HS|exact TTL]]]|].
    unfold rrset_add. cbn [rrds rttl rtype rname rclass rcovers rdeleting set_rds existsb app].
    unfold rrset_equiv. cbn [rname rclass rtype rcovers rdeleting rttl rrds].
    rewrite E. split; [exact CI1|]. split; [reflexivity|]. split; [reflexivity|].
    split; [rewrite (rd_covers_ci _ _ _ CI2); exact COV|]. split; [reflexivity|]. split; [reflexivity|].
    constructor; [exact CI2|constructor].
Qed.

Lemma add_rrsets_chain_u sec : forall l r r' file,
  1 <= sec <= 3 ->
  zlen file = zlen (out r) -> TableSound file (tbl r) -> TblBelow r -> Forall (wf_urrset sec) l ->
  add_rrsets o sec l r = Ok (false, r') ->
  exists em ds,
    out r' = out r ++ em /\ TableSound (file ++ em) (tbl r') /\ TblBelow r' /\
    Chain o (file ++ em) (length file) ds (length (file ++ em)) /\ Forall2 (udesc sec) l ds /\
    count_of r' sec = count_of r sec + zlen ds /\
    (forall s, 0 <= s <= 3 -> s <> sec -> count_of r' s = count_of r s) /\
    rflags r' = rflags r /\ maxsz r' = maxsz r /\ reserved r' = reserved r /\ padded r' = padded r /\
    rsec r <= rsec r' <= Z.max (rsec r) sec /\
    (forall l2 tq, l2 = map (urrset zc sec) ds -> tbl_ci tq (tbl r) ->
       exists tq', add_rrsets o sec l2 (with_tbl r tq) = Ok (false, with_tbl r' tq') /\ tbl_ci tq' (tbl r')).
Proof.
  induction l as [|rs l IH]; intros r r' file Hsec Hz TS TB WF H.
  - injection H as <-. exists [], []. rewrite !app_nil_r.
    split; [reflexivity|]. split; [exact TS|]. split; [exact TB|].
    split; [constructor; lia|]. split; [constructor|].
    split; [change (zlen (@nil rrd)) with 0; lia|].
    split; [reflexivity|]. split; [reflexivity|]. split; [reflexivity|]. split; [reflexivity|]. split; [reflexivity|].
    split; [lia|].
    intros l2 tq -> TC. exists tq. split; [|exact TC]. cbn [map add_rrsets]. destruct r; reflexivity.
  - cbn [add_rrsets] in H. apply bind_ok in H. destruct H as ([b1 r1] & H1 & H). cbn [fst snd] in H.
    destruct b1; [discriminate|]. inversion WF as [|? ? W1 WF']; subst.
    rewrite add_rrset_tracked in H1.
    destruct (tracked_spec _ _ _ _ _ _ (ext_rrset_em _ _ _) TB H1) as (Hs & em1 & new & HE & F & [(_ & Hfit & ->)|(Hb & _)]);
      [|discriminate].
    rewrite <- Hz in HE.
    destruct (urrset_em_chain sec rs file (tbl r) em1 _ TS W1 HE) as (TS1 & d & CH1 & UD & Hcnt & RE1).
    set (r1 := inc_count (set_out (set_rsec r sec) (out r ++ em1) (tbl r ++ new)) sec (rrset_count rs)) in *.
    assert (Hz1 : zlen (file ++ em1) = zlen (out r1)).
    { unfold r1. cbn [out inc_count set_out]. rewrite !zlen_app'. lia. }
    assert (TB1 : TblBelow r1).
    { unfold TblBelow, r1. cbn [out tbl inc_count set_out].
      rewrite zlen_app'. apply Forall_app. split.
      - eapply Forall_impl; [|exact TB]. cbn beta. intros kv Hk. pose proof (zlen_nn em1). nlia.
      - eapply Forall_impl; [|exact F]. cbn beta. intros kv (Hk & _). nlia. }
    destruct (IH r1 r' (file ++ em1) Hsec Hz1 TS1 TB1 WF' H) as (em2 & ds2 & O2 & TS2 & TB2 & CH2 & SD2 & C2 & C2' & FL & MX & RV & PD & RS & RE2).
    exists (em1 ++ em2), ([d] ++ ds2).
    rewrite <- app_assoc in TS2, CH2.
    split; [rewrite O2; unfold r1; cbn [out inc_count set_out]; rewrite <- app_assoc; reflexivity|].
    split; [exact TS2|]. split; [exact TB2|].
    split.
    { eapply Chain_app; [|exact CH2].
      rewrite app_assoc. apply Chain_app_w. exact CH1. }
    split; [constructor; assumption|].
    assert (Hc1 : count_of r1 sec = count_of r sec + rrset_count rs).
    { unfold count_of, r1. cbn [cq can cau cad inc_count set_out set_rsec].
      assert (sec = 1 \/ sec = 2 \/ sec = 3) as [Hx|[Hx|Hx]] by lia; subst sec; cbn [Z.eqb Pos.eqb]; lia. }
    split; [rewrite C2, Hc1, Hcnt, zlen_app'; change (zlen [d]) with 1; lia|].
    split.
    { intros s Hr Hne. rewrite (C2' s Hr Hne). unfold count_of, r1. cbn [cq can cau cad inc_count set_out set_rsec].
      destruct (Z.eqb_spec sec 0); destruct (Z.eqb_spec sec 1); destruct (Z.eqb_spec sec 2); destruct (Z.eqb_spec sec 3);
        destruct (Z.eqb_spec s 0); destruct (Z.eqb_spec s 1); destruct (Z.eqb_spec s 2); try lia; reflexivity. }
    split; [rewrite FL; reflexivity|]. split; [rewrite MX; reflexivity|]. split; [rewrite RV; reflexivity|].
    split; [rewrite PD; reflexivity|].
    split; [unfold r1 in RS; cbn [rsec inc_count set_out set_rsec] in RS; lia|].
    intros l2 tq -> TC. rewrite Hz in RE1.
    destruct (tracked_sim (rrset_em (urrset zc sec d) o true) _ _ _ _ _ tq H1 TC) as (tq1 & T1 & TC1).
    { intros em0 t0 HE0. rewrite <- Hz in HE0. assert (em0 = em1 /\ t0 = tbl r ++ new) as (-> & ->) by (split; congruence).
      apply RE1. exact TC. }
    destruct (RE2 _ tq1 eq_refl TC1) as (tq' & T2 & TC').
    exists tq'. split; [|exact TC']. cbn [app map add_rrsets]. rewrite add_rrset_tracked.
    assert (Ecnt : rrset_count (urrset zc sec d) = rrset_count rs).
    { rewrite Hcnt. destruct UD as (G & _). unfold urrset, ugood in *. destruct G as (_ & _ & G).
      destruct (upd_empty sec d); [reflexivity|]. unfold rrset_add, set_rds. cbn [rrds]. reflexivity. }
    rewrite Ecnt. rewrite T1. cbn [bind fst snd]. exact T2.
Qed.



End UpdRender.

(* ---------- the whole update message ---------- *)
Section UpdMsg.
Variable o : option name.
Hypothesis OO : org_ok o.

Record WfUpd (m : msg) (z : rrset) : Prop := mkWfU {
  wu_update : (opcode_from_flags (mflags m) =? 5) = true;
  wu_zone : mq m = [z];
  wu_zname : name_wf o (rname z);
  wu_ztype : rtype z = tSOA;
  wu_zclass : is_metaclass (rclass z) = false;
  wu_an : Forall (wf_urrset o (rclass z) 1) (man m);
  wu_au : Forall (wf_urrset o (rclass z) 2) (mau m);
  wu_ad : Forall (wf_urrset o (rclass z) 3) (mad m);
  wu_opt : match mopt m with Some oo => opts_ok (oopts oo) /\ name_wf o [[]] | None => True end }.

Definition read_result_u (zc id fl : Z) (q : qd) (ds1 ds2 ds3 : list rrd) (oo : option optrec)
           (t : option (name * rdata)) : msg :=
  let m1 := add_q (mkMsg id fl [] [] [] [] None None) q in
  let m2 := fold_left (apply_u zc 1) ds1 m1 in
  let m3 := fold_left (apply_u zc 2) ds2 m2 in
  let m4 := fold_left (apply_u zc 3) ds3 m3 in
  let m5 := match oo with Some o' => set_opt m4 o' | None => m4 end in
  match t with Some (kn, rd) => set_tsig m5 kn rd | None => m5 end.

Lemma apply_u_keeps zc sec m d : 1 <= sec <= 3 ->
  mopt (apply_u zc sec m d) = mopt m /\ mq (apply_u zc sec m d) = mq m /\
  mtsig (apply_u zc sec m d) = mtsig m /\ mid (apply_u zc sec m d) = mid m /\
  mflags (apply_u zc sec m d) = mflags m /\
  get_sec (apply_u zc sec m d) sec = get_sec m sec ++ [urrset zc sec d] /\
  (forall s, 1 <= s <= 3 -> s <> sec -> get_sec (apply_u zc sec m d) s = get_sec m s).
Proof.
  intros Hs. split; [reflexivity|]. split; [apply apply_u_mq; exact Hs|]. split; [reflexivity|].
  split; [reflexivity|]. split; [reflexivity|]. split.
  - unfold apply_u. apply get_set_sec. lia.
  - intros s Hr Hne. unfold apply_u, get_sec, set_sec. cbn [mq man mau mad].
    assert (s = 1 \/ s = 2 \/ s = 3) as [Hx|[Hx|Hx]] by lia; subst s; cbn [Z.eqb Pos.eqb];
      destruct (Z.eqb_spec sec 0); destruct (Z.eqb_spec sec 1); destruct (Z.eqb_spec sec 2); destruct (Z.eqb_spec sec 3);
      try lia; reflexivity.
Qed.

Lemma fold_apply_u_keeps zc sec ds : 1 <= sec <= 3 -> forall m,
  mopt (fold_left (apply_u zc sec) ds m) = mopt m /\ mq (fold_left (apply_u zc sec) ds m) = mq m /\
  mtsig (fold_left (apply_u zc sec) ds m) = mtsig m /\ mid (fold_left (apply_u zc sec) ds m) = mid m /\
  mflags (fold_left (apply_u zc sec) ds m) = mflags m /\
  get_sec (fold_left (apply_u zc sec) ds m) sec = get_sec m sec ++ map (urrset zc sec) ds /\
  (forall s, 1 <= s <= 3 -> s <> sec -> get_sec (fold_left (apply_u zc sec) ds m) s = get_sec m s).
Proof.
  intros Hs. induction ds as [|d ds IH]; intros m; cbn [fold_left map].
  - rewrite app_nil_r. repeat split; reflexivity.
  - destruct (IH (apply_u zc sec m d)) as (A & B & C & D & E & F & G).
    destruct (apply_u_keeps zc sec m d Hs) as (A' & B' & C' & D' & E' & F' & G').
    rewrite A, B, C, D, E, F, A', B', C', D', E', F'. rewrite <- app_assoc. cbn [app].
    repeat split; try reflexivity.
    intros s Hr Hne. rewrite (G s Hr Hne). apply G'; assumption.
Qed.

Lemma read_structure_u zc id fl q ds1 ds2 ds3 (oo : option optrec) (t : option (name * rdata)) owner' wb body
      (e0 e1 e2 e3 e4 : nat) :
  let w := hdr_bytes id fl 1 (zlen ds1) (zlen ds2) (zlen ds3 + opt_count oo + opt_count t) ++ body in
  0 <= id <= 65535 -> 0 <= fl <= 65535 -> zlen ds1 <= 65535 -> zlen ds2 <= 65535 ->
  zlen ds3 + opt_count oo + opt_count t <= 65535 ->
  (opcode_from_flags fl =? 5) = true ->
  QChain o w 12 [q] e0 -> q_ty q = tSOA -> is_metaclass (q_cl q) = false -> q_cl q = zc ->
  Chain o w e0 ds1 e1 -> Chain o w e1 ds2 e2 -> Chain o w e2 ds3 e3 ->
  Forall (ugood zc 1) ds1 -> Forall (ugood zc 2) ds2 -> Forall (ugood zc 3) ds3 ->
  match oo with
  | Some o' => (exists abs', RRreads o o w e3 abs' owner' tOPT (opayload o') (oflags o') [FRest] [PB wb] e4) /\
               ci_equal owner' [[]] /\ opts_wire (oopts o') = Ok wb /\ opts_ok (oopts o')
  | None => e4 = e3
  end ->
  match t with
  | Some (kn', rd') => exists x, RRreads o None w e4 kn' x tTSIG cANY 0 tsig_fs rd' (length w)
  | None => e4 = length w
  end ->
  from_wire w o po0 = Ok (read_result_u zc id fl q ds1 ds2 ds3 oo t).
Proof.
  intros w Hid Hfl H1 H2 H3 Hop QC QT QM QZ C1 C2 C3 O1 O2 O3 HO HT.
  pose proof (zlen_nn ds1). pose proof (zlen_nn ds2). pose proof (zlen_nn ds3).
  assert (Hoc : 0 <= opt_count oo <= 1) by (destruct oo; cbn; lia).
  assert (Htc : 0 <= opt_count t <= 1) by (destruct t; cbn; lia).
  destruct (hdr_read id fl 1 (zlen ds1) (zlen ds2) (zlen ds3 + opt_count oo + opt_count t) body) as (R0 & R2 & R4 & R6 & R8 & R10);
    try lia.
  fold w in R0, R2, R4, R6, R8, R10.
  assert (Hl : (12 <= length w)%nat).
  { unfold w, hdr_bytes. rewrite !app_length. cbn [length MessageM.u16]. lia. }
  unfold from_wire. destruct (Nat.ltb_spec (length w) 12); [lia|].
  rewrite R0, R2, R4, R6, R8, R10. cbn [bind]. rewrite Hop.
  change (p_question_only po0) with false. cbv iota.
  change (Z.to_nat 1) with 1%nat.
  (* the zone section *)
  set (m0 := mkMsg id fl [] [] [] [] None None).
  assert (GQ : get_question w o true 1 12 m0 = Ok (e0, add_q m0 q)).
  { inversion QC as [|? ? mid ? ? R QC']; subst. inversion QC'; subst. cbn [get_question].
    destruct R as (_ & _ & R). destruct (R []) as (c1 & Hc & Hn & Ht & Hcl). rewrite app_nil_r in *.
    rewrite Hn. cbn [bind fst snd]. rewrite Ht, Hcl. cbn [bind].
    unfold parse_rr_header. cbn [negb Z.eqb]. rewrite QM, QT. change (tSOA =? tSOA) with true.
    cbn [negb orb mq m0 bind]. replace (c1 + 4)%nat with e0 by lia. unfold add_q, find_add. rewrite ?QT. reflexivity. }
  rewrite GQ. cbn [bind fst snd]. rewrite !zlen_to_nat.
  set (m1 := add_q m0 q).
  set (zr := mkRR (q_name q) (q_cl q) (q_ty q) 0 None 0 []).
  assert (Z1 : mq m1 = [zr]) by reflexivity.
  assert (QZ' : rclass zr = zc) by exact QZ.
  pose proof (get_section_chain_u o zc w [] 1 (length ds1) zr [] ltac:(lia) QZ' ds1 e0 e1 0%nat m1 C1 O1 Z1) as G1.
  rewrite app_nil_r in G1. rewrite G1. cbn [bind fst snd].
  set (m2 := fold_left (apply_u zc 1) ds1 m1).
  destruct (fold_apply_u_keeps zc 1 ds1 ltac:(lia) m1) as (K1o & K1q & _).
  pose proof (get_section_chain_u o zc w [] 2 (length ds2) zr [] ltac:(lia) QZ' ds2 e1 e2 0%nat m2 C2 O2 (eq_trans K1q Z1)) as G2.
  rewrite app_nil_r in G2. rewrite G2. cbn [bind fst snd].
  set (m3 := fold_left (apply_u zc 2) ds2 m2).
  destruct (fold_apply_u_keeps zc 2 ds2 ltac:(lia) m2) as (K2o & K2q & _).
  set (cnt := Z.to_nat (zlen ds3 + opt_count oo + opt_count t)).
  set (m4 := fold_left (apply_u zc 3) ds3 m3).
  destruct (fold_apply_u_keeps zc 3 ds3 ltac:(lia) m3) as (K3o & K3q & _).
  assert (HM : mopt m4 = None).
  { unfold m4. rewrite K3o. unfold m3. rewrite K2o. unfold m2. rewrite K1o. reflexivity. }
  set (no := Z.to_nat (opt_count oo)). set (nt := Z.to_nat (opt_count t)).
  assert (Hcnt : cnt = (length ds3 + (no + nt))%nat) by (unfold cnt, no, nt, zlen; lia).
  rewrite Hcnt. rewrite get_section_split.
  pose proof (get_section_chain_u o zc w [] 3 (length ds3 + (no + nt)) zr [] ltac:(lia) QZ' ds3 e2 e3 0%nat m3 C3 O3
                                  (eq_trans K2q (eq_trans K1q Z1))) as G3.
  rewrite app_nil_r in G3. rewrite G3. cbn [bind fst snd]. fold m4.
  rewrite get_section_split.
  assert (GO : get_section w o po0 true 3 (length ds3 + (no + nt)) (0 + length ds3) no e3 true m4
               = Ok (e4, true, match oo with Some o' => set_opt m4 o' | None => m4 end)).
  { destruct oo as [o'|].
    - destruct HO as ((abso & RO) & CI & HW & OK).
      assert (Hno : no = 1%nat) by reflexivity. rewrite Hno. cbn [get_section].
      pose proof (get_rr_opt o true w e3 abso owner' (opayload o') (oflags o') wb (oopts o') e4 [] (length ds3 + (1 + nt))
                             (0 + length ds3) true m4 RO CI HW OK HM) as G.
      rewrite app_nil_r in G. rewrite G. cbn [bind]. destruct o'; reflexivity.
    - subst e4. assert (Hno : no = 0%nat) by reflexivity. rewrite Hno. reflexivity. }
  rewrite GO. cbn [bind fst snd].
  set (m5 := match oo with Some o' => set_opt m4 o' | None => m4 end).
  destruct t as [[kn' rd']|].
  - assert (Hnt : nt = 1%nat) by reflexivity. rewrite Hnt. cbn [get_section].
    destruct HT as (x & HT).
    pose proof (get_rr_tsig o true w e4 kn' x rd' (length w) [] (length ds3 + (no + 1)) (0 + length ds3 + no) true m5 HT) as G.
    rewrite app_nil_r in G. rewrite G by lia. cbn [bind fst snd].
    change (p_ignore_trailing po0) with false. change (p_raise_on_trunc po0) with false.
    cbn [negb andb]. rewrite Nat.eqb_refl. cbn [negb andb]. rewrite andb_false_r.
    unfold read_result_u. fold m0 m1 m2 m3 m4 m5. reflexivity.
  - assert (Hnt : nt = 0%nat) by reflexivity. rewrite Hnt. cbn [get_section bind fst snd]. subst e4.
    change (p_ignore_trailing po0) with false. change (p_raise_on_trunc po0) with false.
    cbn [negb andb]. rewrite Nat.eqb_refl. cbn [negb andb]. rewrite andb_false_r.
    unfold read_result_u. fold m0 m1 m2 m3 m4 m5. reflexivity.
Qed.
End UpdMsg.

Section UpdFinal.
Variable o : option name.
Hypothesis OO : org_ok o.

Lemma udesc_lists zc sec : 1 <= sec <= 3 -> forall l ds, Forall2 (udesc zc sec) l ds ->
  Forall (ugood zc sec) ds /\ Forall2 rrset_equiv (map (urrset zc sec) ds) l.
Proof.
  intros Hs. induction 1 as [|rs d l ds (G & E) _ (IH1 & IH2)]; [split; constructor|].
  split; [constructor; assumption|]. cbn [map]. constructor; assumption.
Qed.

(* dynamic updates: zone section, prerequisites and updates in all their forms (RRset exists value
   independent / dependent, name in use / not in use, RRset does not exist; add, delete an RRset,
   delete all RRsets of a name, delete an RR), additional records, EDNS and TSIG *)
Theorem update_roundtrip_rerender_lemma m z ms rp w :
  WfUpd o m z -> wf_tsig m -> to_wire m o ms rp false 0 = Ok w ->
  exists m', from_wire w o po0 = Ok m' /\ msg_equiv_t m' m /\ to_wire m' o ms rp false 0 = Ok w.
Proof.
  intros [WU WZ WN WT WC WA WUu WD WO] WTS H.
  set (zc := rclass z) in *.
  assert (WQ : Forall (fun rs => name_wf o (rname rs)) (mq m)) by (rewrite WZ; constructor; [exact WN|constructor]).
  destruct (layout_final o OO (wf_urrset o zc) (fun sec l ds => Forall2 (udesc zc sec) l ds)
                         (fun sec (l : list rrset) ds l2 => l2 = map (urrset zc sec) ds)
                         (fun sec l r r' file => add_rrsets_chain_u o OO zc sec l r r' file) m ms rp w WQ WA WUu WD WO WTS H)
    as (qs & ds1 & ds2 & ds3 & owner' & wb & body & e0 & e1 & e2 & e3 & e4 & t' & Ew & Hid & Hfl & L0 & L1 & L2 & L3 &
        QC & C1 & C2 & C3 & QD & SD1 & SD2 & SD3 & HO & HT & TE & RR).
  rewrite WZ in QD. inversion QD as [|? q ? qs' (Q1 & Q2 & Q3 & Q4) QD']; subst. inversion QD'; subst.
  destruct (udesc_lists zc 1 ltac:(lia) _ _ SD1) as (G1 & E1).
  destruct (udesc_lists zc 2 ltac:(lia) _ _ SD2) as (G2 & E2).
  destruct (udesc_lists zc 3 ltac:(lia) _ _ SD3) as (G3 & E3).
  exists (read_result_u zc (mid m) (mflags m) q ds1 ds2 ds3 (mopt m) t').
  split.
  - change (zlen [q]) with 1 in *.
    eapply (read_structure_u o zc); try eassumption.
    + rewrite Q3. exact WT.
    + rewrite Q4. exact WC.
  - unfold read_result_u.
    set (m0 := mkMsg (mid m) (mflags m) [] [] [] [] None None).
    set (m1 := add_q m0 q).
    destruct (fold_apply_u_keeps zc 1 ds1 ltac:(lia) m1) as (A1 & B1 & C1' & D1 & F1 & S1 & O1).
    set (m2 := fold_left (apply_u zc 1) ds1 m1) in *.
    destruct (fold_apply_u_keeps zc 2 ds2 ltac:(lia) m2) as (A2 & B2 & C2' & D2 & F2 & S2 & O2).
    set (m3 := fold_left (apply_u zc 2) ds2 m2) in *.
    destruct (fold_apply_u_keeps zc 3 ds3 ltac:(lia) m3) as (A3 & B3 & C3' & D3 & F3 & S3 & O3).
    set (m4 := fold_left (apply_u zc 3) ds3 m3) in *.
    assert (X : mid m4 = mid m /\ mflags m4 = mflags m /\ mq m4 = [mkRR (q_name q) (q_cl q) (q_ty q) 0 None 0 []] /\
                man m4 = map (urrset zc 1) ds1 /\ mau m4 = map (urrset zc 2) ds2 /\ mad m4 = map (urrset zc 3) ds3 /\
                mopt m4 = None /\ mtsig m4 = None).
    { rewrite D3, D2, D1, F3, F2, F1, B3, B2, B1, A3, A2, A1, C3', C2', C1'.
      pose proof (O3 1 ltac:(lia) ltac:(lia)) as P1. pose proof (O3 2 ltac:(lia) ltac:(lia)) as P2.
      pose proof (O2 1 ltac:(lia) ltac:(lia)) as P3.
      unfold get_sec in *. cbn [Z.eqb Pos.eqb] in *.
      rewrite P1, P3, S1. rewrite P2, S2. rewrite S3.
      pose proof (O2 3 ltac:(lia) ltac:(lia)) as P4. pose proof (O1 3 ltac:(lia) ltac:(lia)) as P5.
      pose proof (O1 2 ltac:(lia) ltac:(lia)) as P6. unfold get_sec in *. cbn [Z.eqb Pos.eqb] in *.
      rewrite P4, P5, P6. cbn [man mau mad m1 m0 add_q set_sec mq Z.eqb app]. repeat split; reflexivity. }
    destruct X as (X1 & X2 & X3 & X4 & X5 & X6 & X7 & X8).
    assert (QE : Forall2 q_equiv [mkRR (q_name q) (q_cl q) (q_ty q) 0 None 0 []] [z]).
    { constructor; [|constructor]. unfold q_equiv. cbn [rname rclass rtype rcovers rdeleting rttl rrds]. auto 10. }
    split.
    2:{ apply RR; destruct (mopt m) as [o'|]; destruct t' as [[kn' rd']|];
          cbn [mid mflags mq man mau mad mopt mtsig set_opt set_tsig];
          rewrite ?X1, ?X2, ?X3, ?X4, ?X5, ?X6, ?X7, ?X8; try reflexivity; try (destruct o'; reflexivity). }
    unfold msg_equiv_t, msg_equiv.
    destruct (mopt m) as [o'|] eqn:EO; destruct t' as [[kn' rd']|];
      cbn [mid mflags mq man mau mad mopt mtsig set_opt set_tsig tsig_equiv];
      rewrite ?X1, ?X2, ?X3, ?X4, ?X5, ?X6, ?X7, ?X8, ?WZ.
    + split; [repeat split; try assumption; destruct o'; reflexivity|]. destruct (mtsig m) as [[kn rd]|]; [exact TE|contradiction].
    + split; [repeat split; try assumption; destruct o'; reflexivity|]. destruct (mtsig m) as [[kn rd]|]; [contradiction|exact Logic.I].
    + split; [repeat split; assumption|]. destruct (mtsig m) as [[kn rd]|]; [exact TE|contradiction].
    + split; [repeat split; assumption|]. destruct (mtsig m) as [[kn rd]|]; [contradiction|exact Logic.I].
Qed.

Theorem update_roundtrip_pad_lemma pad m z ms rp w :
  WfUpd o m z -> wf_tsig m -> to_wire m o ms rp false pad = Ok w ->
  exists m', from_wire w o po0 = Ok m' /\ msg_equiv_p pad m' m.
Proof.
  intros [WU WZ WN WT WC WA WUu WD WO] WTS H.
  set (zc := rclass z) in *.
  assert (WQ : Forall (fun rs => name_wf o (rname rs)) (mq m)) by (rewrite WZ; constructor; [exact WN|constructor]).
  destruct (layout_final_p o OO (wf_urrset o zc) (fun sec l ds => Forall2 (udesc zc sec) l ds)
                         (fun sec (l : list rrset) ds l2 => l2 = map (urrset zc sec) ds)
                         (fun sec l r r' file => add_rrsets_chain_u o OO zc sec l r r' file) pad m ms rp w WQ WA WUu WD WO WTS H)
    as (qs & ds1 & ds2 & ds3 & owner' & wb & body & e0 & e1 & e2 & e3 & e4 & t' & Ew & Hid & Hfl & L0 & L1 & L2 & L3 &
        QC & C1 & C2 & C3 & QD & SD1 & SD2 & SD3 & HO0 & HT & TE & _ & _).
  assert (X : exists oo, opt_rel pad oo (mopt m) /\ opt_count oo = opt_count (mopt m) /\
              match oo with
              | Some o' => (exists abs', RRreads o o w e3 abs' owner' tOPT (opayload o') (oflags o') [FRest] [PB wb] e4) /\
                           ci_equal owner' [[]] /\ opts_wire (oopts o') = Ok wb /\ opts_ok (oopts o')
              | None => e4 = e3
              end).
  { destruct (mopt m) as [o1|].
    - destruct HO0 as (sz & HO0). exists (Some (pad_opt o1 pad sz)). split; [exists sz; reflexivity|]. split; [reflexivity|exact HO0].
    - exists None. split; [reflexivity|]. split; [reflexivity|exact HO0]. }
  destruct X as (oo & OR & OC & HO). rewrite <- OC in *. clear HO0.
  rewrite WZ in QD. inversion QD as [|? q ? qs' (Q1 & Q2 & Q3 & Q4) QD']; subst. inversion QD'; subst.
  destruct (udesc_lists zc 1 ltac:(lia) _ _ SD1) as (G1 & E1).
  destruct (udesc_lists zc 2 ltac:(lia) _ _ SD2) as (G2 & E2).
  destruct (udesc_lists zc 3 ltac:(lia) _ _ SD3) as (G3 & E3).
  exists (read_result_u zc (mid m) (mflags m) q ds1 ds2 ds3 oo t').
  split.
  - change (zlen [q]) with 1 in *.
    eapply (read_structure_u o zc); try eassumption.
    + rewrite Q3. exact WT.
    + rewrite Q4. exact WC.
  - unfold read_result_u.
    set (m0 := mkMsg (mid m) (mflags m) [] [] [] [] None None).
    set (m1 := add_q m0 q).
    destruct (fold_apply_u_keeps zc 1 ds1 ltac:(lia) m1) as (A1 & B1 & C1' & D1 & F1 & S1 & O1).
    set (m2 := fold_left (apply_u zc 1) ds1 m1) in *.
    destruct (fold_apply_u_keeps zc 2 ds2 ltac:(lia) m2) as (A2 & B2 & C2' & D2 & F2 & S2 & O2).
    set (m3 := fold_left (apply_u zc 2) ds2 m2) in *.
    destruct (fold_apply_u_keeps zc 3 ds3 ltac:(lia) m3) as (A3 & B3 & C3' & D3 & F3 & S3 & O3).
    set (m4 := fold_left (apply_u zc 3) ds3 m3) in *.
    assert (X : mid m4 = mid m /\ mflags m4 = mflags m /\ mq m4 = [mkRR (q_name q) (q_cl q) (q_ty q) 0 None 0 []] /\
                man m4 = map (urrset zc 1) ds1 /\ mau m4 = map (urrset zc 2) ds2 /\ mad m4 = map (urrset zc 3) ds3 /\
                mopt m4 = None /\ mtsig m4 = None).
    { rewrite D3, D2, D1, F3, F2, F1, B3, B2, B1, A3, A2, A1, C3', C2', C1'.
      pose proof (O3 1 ltac:(lia) ltac:(lia)) as P1. pose proof (O3 2 ltac:(lia) ltac:(lia)) as P2.
      pose proof (O2 1 ltac:(lia) ltac:(lia)) as P3.
      unfold get_sec in *. cbn [Z.eqb Pos.eqb] in *.
      rewrite P1, P3, S1. rewrite P2, S2. rewrite S3.
      pose proof (O2 3 ltac:(lia) ltac:(lia)) as P4. pose proof (O1 3 ltac:(lia) ltac:(lia)) as P5.
      pose proof (O1 2 ltac:(lia) ltac:(lia)) as P6. unfold get_sec in *. cbn [Z.eqb Pos.eqb] in *.
      rewrite P4, P5, P6. cbn [man mau mad m1 m0 add_q set_sec mq Z.eqb app]. repeat split; reflexivity. }
    destruct X as (X1 & X2 & X3 & X4 & X5 & X6 & X7 & X8).
    assert (QE : Forall2 q_equiv [mkRR (q_name q) (q_cl q) (q_ty q) 0 None 0 []] [z]).
    { constructor; [|constructor]. unfold q_equiv. cbn [rname rclass rtype rcovers rdeleting rttl rrds]. auto 10. }
    unfold msg_equiv_p.
    destruct oo as [o'|]; destruct t' as [[kn' rd']|];
      cbn [mid mflags mq man mau mad mopt mtsig set_opt set_tsig tsig_equiv];
      rewrite ?X1, ?X2, ?X3, ?X4, ?X5, ?X6, ?X7, ?X8, ?WZ.
    + repeat (split; [first [assumption|reflexivity|exact OR]|]). destruct (mtsig m) as [[kn rd]|]; [exact TE|contradiction].
    + repeat (split; [first [assumption|reflexivity|exact OR]|]). destruct (mtsig m) as [[kn rd]|]; [contradiction|exact Logic.I].
    + repeat (split; [first [assumption|reflexivity|exact OR]|]). destruct (mtsig m) as [[kn rd]|]; [exact TE|contradiction].
    + repeat (split; [first [assumption|reflexivity|exact OR]|]). destruct (mtsig m) as [[kn rd]|]; [contradiction|exact Logic.I].
Qed.


Theorem update_roundtrip_lemma m z ms rp w :
  WfUpd o m z -> wf_tsig m -> to_wire m o ms rp false 0 = Ok w ->
  exists m', from_wire w o po0 = Ok m' /\ msg_equiv_t m' m.
Proof.
  intros WF WT H. destruct (update_roundtrip_rerender_lemma m z ms rp w WF WT H) as (m' & A & B & _).
  exists m'. split; assumption.
Qed.

Theorem update_rerender_lemma m z ms rp w m' :
  WfUpd o m z -> wf_tsig m -> to_wire m o ms rp false 0 = Ok w -> from_wire w o po0 = Ok m' ->
  to_wire m' o ms rp false 0 = Ok w.
Proof.
  intros WF WT H HF. destruct (update_roundtrip_rerender_lemma m z ms rp w WF WT H) as (m2 & A & _ & B).
  assert (m2 = m') by congruence. subst m2. exact B.
Qed.
End UpdFinal.
