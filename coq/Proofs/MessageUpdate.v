(* Render-then-parse for dynamic updates: zone section, prerequisite and update sections with the
   empty class-ANY/NONE forms, delete-an-RR form and ordinary records; one record per record set. *)
From DV Require Import Base.Prelude Model.NameM Model.MessageM.
From DV Require Import Proofs.NameOrder Proofs.NameValid Proofs.NameRel Proofs.NameWire Proofs.NameCompress.
From DV Require Import Proofs.MessageName Proofs.MessageRender Proofs.MessageRead Proofs.MessageRoundtrip Proofs.MessageRoundtrip2.
From DV Require Import Proofs.MessageSize Proofs.MessageTrunc Proofs.MessageRoundtrip3.
Open Scope Z_scope.

Section Upd.
Variable o : option name.
Hypothesis OO : org_ok o.
Variable zc : Z.      (* the zone class *)

Definition is_meta (c : Z) : bool := (c =? cANY) || (c =? cNONE).
Definition upd_del (d : rrd) : option Z := if is_meta (d_cl d) then Some (d_cl d) else None.
Definition upd_class (d : rrd) : Z := if is_meta (d_cl d) then zc else d_cl d.
Definition upd_empty (sec : Z) (d : rrd) : bool := is_meta (d_cl d) && ((d_cl d =? cANY) || (sec =? 1)).

Definition ugood (sec : Z) (d : rrd) : Prop :=
  d_ty d <> tOPT /\ d_ty d <> tTSIG /\
  if upd_empty sec d then d_fs d = [] /\ d_rd d = []
  else schema_of (upd_class d) (d_ty d) = Some (d_fs d) /\ 0 <= d_ttl d <= 2147483647.

Definition urrset (sec : Z) (d : rrd) : rrset :=
  if upd_empty sec d then mkRR (d_owner d) (upd_class d) (d_ty d) 0 (upd_del d) 0 []
  else rrset_add (mkRR (d_owner d) (upd_class d) (d_ty d) (rd_covers (d_ty d) (d_rd d)) (upd_del d) 0 [])
                 (d_rd d) (d_ttl d).

Definition apply_u (sec : Z) (m : msg) (d : rrd) : msg :=
  set_sec m sec (get_sec m sec ++ [urrset sec d]).

Lemma get_rr_upd w off abs' d end_ ext sec count i m z zs :
  RRreads o o w off abs' (d_owner d) (d_ty d) (d_cl d) (d_ttl d) (d_fs d) (d_rd d) end_ ->
  ugood sec d -> mq m = z :: zs -> rclass z = zc -> 1 <= sec <= 3 ->
  get_rr (w ++ ext) o po0 true sec count i off true m = Ok (end_, true, apply_u sec m d).
Proof.
  intros (c1 & rdl & A & B & C & D & E) (G1 & G2 & G3) HZ HC Hs.
  destruct (E ext) as (EH & ED). unfold get_rr. rewrite EH. cbn [bind].
  assert (E1 : (d_ty d =? tOPT) = false) by (apply Z.eqb_neq; assumption).
  assert (E2 : (d_ty d =? tTSIG) = false) by (apply Z.eqb_neq; assumption).
  rewrite !E1, !E2. cbn [orb]. unfold parse_rr_header. cbn [negb].
  assert (S0 : (sec =? 0) = false) by (apply Z.eqb_neq; lia). rewrite S0, HZ.
  unfold apply_u, urrset, upd_empty, upd_class, upd_del, is_meta in *. rewrite HC.
  destruct ((d_cl d =? cANY) || (d_cl d =? cNONE)) eqn:EM; cbn [bind andb] in *.
  - destruct ((d_cl d =? cANY) || (sec =? 1)) eqn:EE.
    + (* an empty form *)
      destruct G3 as (F1 & F2).
      specialize (ED []). rewrite F1, F2 in ED. cbn [dec_fields rev app] in ED. injection ED as ED.
      assert (rdl = 0)%nat by lia. subst rdl. cbn [Z.of_nat Z.gtb Z.compare].
      change (p_xfr po0) with false. cbn [andb orb]. unfold find_add.
      replace (c1 + 10)%nat with end_ by lia. reflexivity.
    + destruct G3 as (HS & Httl). rewrite Nat2Z.id.
      destruct (Nat.ltb_spec (length (w ++ ext) - (c1 + 10)) rdl); [rewrite app_length in *; lia|].
      rewrite ?E1, ?E2. unfold dec_rdata. rewrite HS, A, ED. cbn [bind fst snd rev app]. rewrite Nat.eqb_refl. cbn [bind].
      rewrite ?E1, ?E2. destruct (Z.gtb_spec (d_ttl d) 2147483647); [lia|].
      change (p_xfr po0) with false. cbn [andb orb]. unfold find_add, rd_covers.
      destruct (d_ty d =? tRRSIG); reflexivity.
  - destruct G3 as (HS & Httl). rewrite Nat2Z.id.
    destruct (Nat.ltb_spec (length (w ++ ext) - (c1 + 10)) rdl); [rewrite app_length in *; lia|].
    rewrite ?E1, ?E2. unfold dec_rdata. rewrite HS, A, ED. cbn [bind fst snd rev app]. rewrite Nat.eqb_refl. cbn [bind].
    rewrite ?E1, ?E2. destruct (Z.gtb_spec (d_ttl d) 2147483647); [lia|].
    change (p_xfr po0) with false. cbn [andb orb]. unfold find_add, rd_covers.
    destruct (d_ty d =? tRRSIG); reflexivity.
Qed.

Lemma apply_u_mq sec m d : 1 <= sec <= 3 -> mq (apply_u sec m d) = mq m.
Proof.
  intros H. unfold apply_u, set_sec. cbn [mq].
  destruct (Z.eqb_spec sec 0); [lia|reflexivity].
Qed.

Lemma get_section_chain_u w ext sec count z zs : 1 <= sec <= 3 -> rclass z = zc ->
  forall ds off end_ i m,
  Chain o w off ds end_ -> Forall (ugood sec) ds -> mq m = z :: zs ->
  get_section (w ++ ext) o po0 true sec count i (length ds) off true m
  = Ok (end_, true, fold_left (apply_u sec) ds m).
Proof.
  intros Hs HC. induction ds as [|d ds IH]; intros off end_ i m C O HZ.
  - inversion C; subst. reflexivity.
  - inversion C as [|? ? mid ? ? R C']; subst. inversion O as [|? ? G O']; subst.
    cbn [length get_section]. destruct R as (abs' & R).
    rewrite (get_rr_upd w off abs' d mid ext sec count i m z zs R G HZ HC Hs). cbn [bind].
    rewrite (IH mid end_ (S i) _ C' O'); [reflexivity|]. rewrite apply_u_mq by exact Hs. exact HZ.
Qed.
End Upd.

(* ---------- rendering the record sets of an update ---------- *)
Section UpdRender.
Variable o : option name.
Hypothesis OO : org_ok o.
Variable zc : Z.

(* a record set of sections 1..3 of an update, in the normal form the reader produces *)
Definition wf_urrset (sec : Z) (rs : rrset) : Prop :=
  name_wf o (rname rs) /\ rtype rs <> tOPT /\ rtype rs <> tTSIG /\
  ((rrds rs = [] /\ rclass rs = zc /\ rcovers rs = 0 /\ rttl rs = 0 /\
    (rdeleting rs = Some cANY \/ (rdeleting rs = Some cNONE /\ sec = 1)))
   \/
   (exists rd fs, rrds rs = [rd] /\ schema_of (rclass rs) (rtype rs) = Some fs /\
                  Forall (piece_wf o) rd /\ shaped fs rd /\ 0 <= rttl rs <= 2147483647 /\
                  rd_covers (rtype rs) rd = rcovers rs /\
                  ((rdeleting rs = None /\ is_meta (rclass rs) = false)
                   \/ (rdeleting rs = Some cNONE /\ rclass rs = zc /\ sec <> 1)))).

Definition udesc (sec : Z) (rs : rrset) (d : rrd) : Prop :=
  ugood zc sec d /\ rrset_equiv (urrset zc sec d) rs.

Lemma urrset_em_chain sec rs file t em t' :
  TableSound file t -> wf_urrset sec rs ->
  rrset_em rs o true (zlen file) t = Ok (em, t') ->
  TableSound (file ++ em) t' /\
  exists d, Chain o (file ++ em) (length file) [d] (length (file ++ em)) /\ udesc sec rs d /\ rrset_count rs = 1.
Proof.
  intros TS (NW & T1 & T2 & K) H.
  destruct (name_wf_full o (rname rs) OO NW) as (Lown & HFo & NOL).
  unfold rrset_em in H.
  destruct K as [(E & EC & ECV & ETT & ED)|(rd & fs & E & HS & PO & SH & TTL & COV & ED)]; rewrite E in H.
  - (* an empty form *)
    destruct (rr_em_read o o [] (rname rs) Lown (rtype rs) (wclass rs) 0 [] true true file t em t' OO OO TS HFo NOL
                         (Forall_nil _) sh_nil H)
      as (TS1 & R1 & R2 & R3 & abs' & owner' & rd' & c1 & rdl & CIa & NOa & HX & CI2 & PO2 & S2 & A & B & C & Ex).
    destruct (name_back o (rname rs) Lown abs' OO NW HFo CIa NOa) as (x' & HX' & CI1 & NO1).
    assert (x' = owner') by congruence. subst x'.
    inversion CI2; subst.
    split; [exact TS1|]. exists (mkD owner' (rtype rs) (wclass rs) 0 [] []).
    split.
    { econstructor; [|constructor; lia]. exists abs'. cbn [d_owner d_ty d_cl d_ttl d_fs d_rd].
      exists c1, rdl. split; [exact A|]. split; [lia|]. split; [exact B|]. split; [exact C|]. exact Ex. }
    split; [|unfold rrset_count; rewrite E; reflexivity].
    assert (WC : wclass rs = cANY \/ (wclass rs = cNONE /\ sec = 1)).
    { unfold wclass. destruct ED as [->|(-> & ->)]; auto. }
    assert (UE : upd_empty sec (mkD owner' (rtype rs) (wclass rs) 0 [] []) = true).
    { unfold upd_empty, is_meta. cbn [d_cl]. destruct WC as [->|(-> & ->)]; reflexivity. }
    unfold udesc, ugood, urrset. rewrite UE. cbn [d_ty d_fs d_rd d_owner d_cl].
    split; [auto|].
    unfold rrset_equiv, upd_class, upd_del, is_meta. cbn [rname rclass rtype rcovers rdeleting rttl rrds d_cl d_owner d_ty].
    assert (M : (wclass rs =? cANY) || (wclass rs =? cNONE) = true) by (destruct WC as [->|(-> & _)]; reflexivity).
    rewrite M. rewrite E. split; [exact CI1|]. split; [symmetry; exact EC|]. split; [reflexivity|].
    split; [symmetry; exact ECV|]. split; [|split; [symmetry; exact ETT|constructor]].
    unfold wclass. destruct ED as [->|(-> & _)]; reflexivity.
  - (* one record *)
    cbn [rrs_em] in H. apply bind_ok in H. destruct H as ([e1 t1] & H1 & H). cbn [bind fst snd] in H.
    injection H as <- <-. rewrite app_nil_r.
    destruct (rr_em_read o o fs (rname rs) Lown (rtype rs) (wclass rs) (rttl rs) rd true true file t e1 t1 OO OO TS HFo NOL PO SH H1)
      as (TS1 & R1 & R2 & R3 & abs' & owner' & rd' & c1 & rdl & CIa & NOa & HX & CI2 & PO2 & S2 & A & B & C & Ex).
    destruct (name_back o (rname rs) Lown abs' OO NW HFo CIa NOa) as (x' & HX' & CI1 & NO1).
    assert (x' = owner') by congruence. subst x'.
    split; [exact TS1|]. exists (mkD owner' (rtype rs) (wclass rs) (rttl rs) fs rd').
    split.
    { econstructor; [|constructor; lia]. exists abs'. cbn [d_owner d_ty d_cl d_ttl d_fs d_rd].
      exists c1, rdl. split; [exact A|]. split; [lia|]. split; [exact B|]. split; [exact C|]. exact Ex. }
    split; [|unfold rrset_count; rewrite E; reflexivity].
    assert (UE : upd_empty sec (mkD owner' (rtype rs) (wclass rs) (rttl rs) fs rd') = false /\
                 upd_class zc (mkD owner' (rtype rs) (wclass rs) (rttl rs) fs rd') = rclass rs /\
                 upd_del (mkD owner' (rtype rs) (wclass rs) (rttl rs) fs rd') = rdeleting rs).
    { unfold upd_empty, upd_class, upd_del, is_meta, wclass in *. cbn [d_cl].
      destruct ED as [(-> & M)|(-> & EC & NS)].
      - unfold is_meta in M. rewrite M. auto.
      - change ((cNONE =? cANY) || (cNONE =? cNONE)) with true. change (cNONE =? cANY) with false.
        destruct (Z.eqb_spec sec 1); [contradiction|]. cbn [andb orb]. auto. }
    destruct UE as (U1 & U2 & U3).
    unfold udesc, ugood, urrset. rewrite U1, U2, U3. cbn [d_ty d_fs d_rd d_owner d_cl d_ttl].
    split; [split; [exact T1|split; [exact T2|split; [exact HS|exact TTL]]]|].
    unfold rrset_add. cbn [rrds rttl rtype rname rclass rcovers rdeleting set_rds existsb app].
    unfold rrset_equiv. cbn [rname rclass rtype rcovers rdeleting rttl rrds].
    rewrite E. split; [exact CI1|]. split; [reflexivity|]. split; [reflexivity|].
    split; [rewrite (rd_covers_ci _ _ _ CI2); exact COV|]. split; [reflexivity|]. split; [reflexivity|].
    constructor; [exact CI2|constructor].
Qed.

Lemma add_rrsets_chain_u sec : forall l r r' file,
  1 <= sec <= 3 ->
  zlen file = zlen (out r) -> TableSound file (tbl r) -> TblBelow r -> Forall (wf_urrset sec) l ->
  add_rrsets o sec l r = Ok (false, r') ->
  exists em ds,
    out r' = out r ++ em /\ TableSound (file ++ em) (tbl r') /\ TblBelow r' /\
    Chain o (file ++ em) (length file) ds (length (file ++ em)) /\ Forall2 (udesc sec) l ds /\
    count_of r' sec = count_of r sec + zlen ds /\
    (forall s, 0 <= s <= 3 -> s <> sec -> count_of r' s = count_of r s) /\
    rflags r' = rflags r /\ maxsz r' = maxsz r /\ reserved r' = reserved r /\ padded r' = padded r /\
    rsec r <= rsec r' <= Z.max (rsec r) sec.
Proof.
  induction l as [|rs l IH]; intros r r' file Hsec Hz TS TB WF H.
  - injection H as <-. exists [], []. rewrite !app_nil_r.
    split; [reflexivity|]. split; [exact TS|]. split; [exact TB|].
    split; [constructor; lia|]. split; [constructor|].
    split; [change (zlen (@nil rrd)) with 0; lia|].
    split; [reflexivity|]. repeat split; lia.
  - cbn [add_rrsets] in H. apply bind_ok in H. destruct H as ([b1 r1] & H1 & H). cbn [fst snd] in H.
    destruct b1; [discriminate|]. inversion WF as [|? ? W1 WF']; subst.
    rewrite add_rrset_tracked in H1.
    destruct (tracked_spec _ _ _ _ _ _ (ext_rrset_em _ _ _) TB H1) as (Hs & em1 & new & HE & F & [(_ & Hfit & ->)|(Hb & _)]);
      [|discriminate].
    rewrite <- Hz in HE.
    destruct (urrset_em_chain sec rs file (tbl r) em1 _ TS W1 HE) as (TS1 & d & CH1 & UD & Hcnt).
    set (r1 := inc_count (set_out (set_rsec r sec) (out r ++ em1) (tbl r ++ new)) sec (rrset_count rs)) in *.
    assert (Hz1 : zlen (file ++ em1) = zlen (out r1)).
    { unfold r1. cbn [out inc_count set_out]. rewrite !zlen_app'. lia. }
    assert (TB1 : TblBelow r1).
    { unfold TblBelow, r1. cbn [out tbl inc_count set_out].
      rewrite zlen_app'. apply Forall_app. split.
      - eapply Forall_impl; [|exact TB]. cbn beta. intros kv Hk. pose proof (zlen_nn em1). nlia.
      - eapply Forall_impl; [|exact F]. cbn beta. intros kv (Hk & _). nlia. }
    destruct (IH r1 r' (file ++ em1) Hsec Hz1 TS1 TB1 WF' H) as (em2 & ds2 & O2 & TS2 & TB2 & CH2 & SD2 & C2 & C2' & FL & MX & RV & PD & RS).
    exists (em1 ++ em2), ([d] ++ ds2).
    rewrite <- app_assoc in TS2, CH2.
    split; [rewrite O2; unfold r1; cbn [out inc_count set_out]; rewrite <- app_assoc; reflexivity|].
    split; [exact TS2|]. split; [exact TB2|].
    split.
    { eapply Chain_app; [|exact CH2].
      rewrite app_assoc. apply Chain_app_w. exact CH1. }
    split; [constructor; assumption|].
    assert (Hc1 : count_of r1 sec = count_of r sec + rrset_count rs).
    { unfold count_of, r1. cbn [cq can cau cad inc_count set_out set_rsec].
      assert (sec = 1 \/ sec = 2 \/ sec = 3) as [Hx|[Hx|Hx]] by lia; subst sec; cbn [Z.eqb Pos.eqb]; lia. }
    split; [rewrite C2, Hc1, Hcnt, zlen_app'; change (zlen [d]) with 1; lia|].
    split.
    { intros s Hr Hne. rewrite (C2' s Hr Hne). unfold count_of, r1. cbn [cq can cau cad inc_count set_out set_rsec].
      destruct (Z.eqb_spec sec 0); destruct (Z.eqb_spec sec 1); destruct (Z.eqb_spec sec 2); destruct (Z.eqb_spec sec 3);
        destruct (Z.eqb_spec s 0); destruct (Z.eqb_spec s 1); destruct (Z.eqb_spec s 2); try lia; reflexivity. }
    unfold r1 in *. cbn [rflags maxsz reserved padded rsec inc_count set_out set_rsec] in *.
    repeat split; try assumption; lia.
Qed.
End UpdRender.
