(* QueryMessage.resolve_chaining: the CNAME walk is a path in the answer section of bounded
   length, the minimum TTL is the minimum over the path and the answer (or the covering SOA). *)
From DV Require Import Base.Prelude Model.NameM Model.ResolM Proofs.NameOrder.
Open Scope Z_scope.

Section Chain.
Variables (ans : list rrset) (cls ty : Z).

(* following CNAMEs from n: each step is a CNAME RRset at the current name, taken only when there
   is no RRset of the wanted type there *)
Inductive chain_path : name -> list rrset -> name -> Prop :=
| cp_nil : forall n, chain_path n [] n
| cp_cons : forall n c rest n',
    find_rrset ans n cls ty = None -> find_rrset ans n cls tCNAME = Some c ->
    chain_path (first_target c n) rest n' -> chain_path n (c :: rest) n'.

Lemma chain_path_snoc : forall n p n' c,
  chain_path n p n' -> find_rrset ans n' cls ty = None -> find_rrset ans n' cls tCNAME = Some c ->
  chain_path n (p ++ [c]) (first_target c n').
Proof.
  intros n p n' c H. induction H as [n|n c0 rest n' F1 F2 HP IH]; intros G1 G2; simpl.
  - econstructor; eauto. constructor.
  - econstructor; eauto.
Qed.

Definition min_over (base : Z) (p : list rrset) : Z := fold_left (fun acc c => Z.min acc (rs_ttl c)) p base.

Lemma min_over_snoc : forall base p c, min_over base (p ++ [c]) = Z.min (min_over base p) (rs_ttl c).
Proof. intros. unfold min_over. rewrite fold_left_app. reflexivity. Qed.

(* where the walk stops *)
Definition stops_at (n : name) (answer : option rrset) : Prop :=
  match answer with
  | Some a => find_rrset ans n cls ty = Some a
  | None => find_rrset ans n cls ty = None /\ (ty = tCNAME \/ find_rrset ans n cls tCNAME = None)
  end.

Lemma chain_loop_spec : forall k n0 p n base answer n' ttl cnames exhausted,
  chain_path n0 p n ->
  chain_loop k ans cls ty n (min_over base p) p = (answer, n', ttl, cnames, exhausted) ->
  chain_path n0 cnames n' /\ (length cnames <= length p + k)%nat /\
  (exhausted = true -> answer = None /\ length cnames = (length p + k)%nat /\ ttl = min_over base cnames) /\
  (exhausted = false -> (length cnames < length p + k)%nat /\ stops_at n' answer /\
     ttl = match answer with Some a => Z.min (min_over base cnames) (rs_ttl a) | None => min_over base cnames end).
Proof.
  induction k as [|k IH]; intros n0 p n base answer n' ttl cnames exhausted HP H; simpl in H.
  - inversion H; subst. split; [exact HP|]. split; [lia|]. split; [intros _; repeat split; lia|discriminate].
  - destruct (find_rrset ans n cls ty) as [a|] eqn:EF.
    + inversion H; subst. split; [exact HP|]. split; [lia|]. split; [discriminate|].
      intros _. split; [lia|]. split; [exact EF|reflexivity].
    + destruct (negb (ty =? tCNAME)) eqn:ET.
      * destruct (find_rrset ans n cls tCNAME) as [cn|] eqn:EC.
        -- rewrite <- min_over_snoc in H.
           apply (IH n0 (p ++ [cn])) in H; [|apply chain_path_snoc; auto].
           rewrite app_length in H. simpl in H.
           destruct H as (H1 & H2 & H3 & H4). split; [exact H1|]. split; [lia|]. split.
           ++ intros HE. destruct (H3 HE) as (A & B & C). repeat split; auto. lia.
           ++ intros HE. destruct (H4 HE) as (A & B & C). repeat split; auto. lia.
        -- inversion H; subst. split; [exact HP|]. split; [lia|]. split; [discriminate|].
           intros _. split; [lia|]. split; [|reflexivity]. split; auto.
      * inversion H; subst. split; [exact HP|]. split; [lia|]. split; [discriminate|].
        intros _. split; [lia|]. split; [|reflexivity]. split; auto.
        left. apply negb_false_iff in ET. apply Z.eqb_eq in ET. exact ET.
Qed.
End Chain.

(* ---------- the covering SOA of a negative reply ---------- *)
Section Soa.
Variables (auth : list rrset) (cls : Z).

Inductive soa_at : name -> option rrset -> Prop :=
| sa_here : forall n s, find_rrset auth n cls tSOA = Some s -> soa_at n (Some s)
| sa_up : forall n p r, find_rrset auth n cls tSOA = None -> parent n = Ok p -> soa_at p r -> soa_at n r
| sa_none : forall n, find_rrset auth n cls tSOA = None -> (forall p, parent n <> Ok p) -> soa_at n None.

Lemma parent_shorter : forall n p, parent n = Ok p -> (length p < length n)%nat.
Proof.
  intros n p H. unfold parent in H.
  destruct (name_eqb n root || name_eqb n empty) eqn:E; [discriminate|].
  apply orb_false_iff in E. destruct E as [_ E].
  destruct n as [|l r].
  - unfold empty in E. rewrite (proj2 (name_eqb_iff_ci [] []) eq_refl) in E. discriminate.
  - unfold mk_name in H. simpl in H. destruct (validate_labels r); try discriminate.
    inversion H; subst. simpl. lia.
Qed.

Lemma soa_walk_spec : forall fuel n base, (length n < fuel)%nat ->
  exists r, soa_at n r /\
    soa_walk fuel auth cls n base =
      match r with Some s => Z.min (Z.min base (rs_ttl s)) (soa_minimum s) | None => base end.
Proof.
  induction fuel as [|fuel IH]; intros n base HL; [lia|]. simpl.
  destruct (find_rrset auth n cls tSOA) as [s|] eqn:EF.
  - exists (Some s). split; [constructor; exact EF|reflexivity].
  - destruct (parent n) as [p|e|e] eqn:EP.
    + pose proof (parent_shorter _ _ EP) as HS.
      destruct (IH p base ltac:(lia)) as (r & R1 & R2).
      exists r. split; [eapply sa_up; eauto|exact R2].
    + exists None. split; [|reflexivity]. apply sa_none; auto. intros p HP. congruence.
    + exists None. split; [|reflexivity]. apply sa_none; auto. intros p HP. congruence.
Qed.
End Soa.

(* ---------- resolve_chaining ---------- *)
Theorem chain_spec_lemma : forall m ch,
  resolve_chaining m = Ok ch ->
  exists q, m_question m = [q] /\ m_qr m = true /\
    chain_path (m_answer m) (q_class q) (q_type q) (q_name q) (ch_cnames ch) (ch_canonical ch) /\
    (length (ch_cnames ch) < MAX_CHAIN)%nat /\
    stops_at (m_answer m) (q_class q) (q_type q) (ch_canonical ch) (ch_answer ch) /\
    match ch_answer ch with
    | Some a => m_rcode m <> rcNXDOMAIN /\ ch_min_ttl ch = Z.min (min_over MAX_TTL (ch_cnames ch)) (rs_ttl a)
    | None =>
        exists r, soa_at (m_authority m) (q_class q) (ch_canonical ch) r /\
          ch_min_ttl ch = match r with
                          | Some s => Z.min (Z.min (min_over MAX_TTL (ch_cnames ch)) (rs_ttl s)) (soa_minimum s)
                          | None => min_over MAX_TTL (ch_cnames ch)
                          end
    end.
Proof.
  intros m ch H. unfold resolve_chaining in H.
  destruct (negb (m_qr m)) eqn:EQ; [discriminate|].
  destruct (m_question m) as [|q [|q2 l]] eqn:EM; try discriminate.
  destruct (chain_loop MAX_CHAIN (m_answer m) (q_class q) (q_type q) (q_name q) MAX_TTL []) as [[[[answer n'] ttl] cnames] exhausted] eqn:EL.
  destruct exhausted; [discriminate|].
  pose proof (chain_loop_spec (m_answer m) (q_class q) (q_type q) MAX_CHAIN (q_name q) [] (q_name q) MAX_TTL
                answer n' ttl cnames false (cp_nil _ _ _ _) EL) as (P1 & P2 & _ & P4).
  destruct (P4 eq_refl) as (L1 & L2 & L3). simpl in L1.
  exists q. split; [reflexivity|]. split; [apply negb_false_iff; exact EQ|].
  destruct ((m_rcode m =? rcNXDOMAIN) && match answer with Some _ => true | None => false end) eqn:EN; [discriminate|].
  inversion H; subst ch; clear H. simpl.
  split; [exact P1|]. split; [exact L1|]. split; [exact L2|].
  destruct answer as [a|].
  - split; [|exact L3]. rewrite andb_true_r in EN. apply Z.eqb_neq. exact EN.
  - destruct (soa_walk_spec (m_authority m) (q_class q) (S (length n')) n' ttl ltac:(lia)) as (r & R1 & R2).
    exists r. split; [exact R1|]. simpl in R2. simpl. rewrite R2, L3. reflexivity.
Qed.

(* a reply is refused as ChainTooLong exactly when MAX_CHAIN CNAMEs can be followed *)
Theorem chain_too_long_lemma : forall m,
  resolve_chaining m = Lib eChainTooLong ->
  exists q p n, m_question m = [q] /\
    chain_path (m_answer m) (q_class q) (q_type q) (q_name q) p n /\ length p = MAX_CHAIN.
Proof.
  intros m H. unfold resolve_chaining in H.
  destruct (negb (m_qr m)) eqn:EQ; [discriminate|].
  destruct (m_question m) as [|q [|q2 l]] eqn:EM; try discriminate.
  destruct (chain_loop MAX_CHAIN (m_answer m) (q_class q) (q_type q) (q_name q) MAX_TTL []) as [[[[answer n'] ttl] cnames] exhausted] eqn:EL.
  pose proof (chain_loop_spec (m_answer m) (q_class q) (q_type q) MAX_CHAIN (q_name q) [] (q_name q) MAX_TTL
                answer n' ttl cnames exhausted (cp_nil _ _ _ _) EL) as (P1 & P2 & P3 & _).
  destruct exhausted.
  - destruct (P3 eq_refl) as (A & B & C). exists q, cnames, n'. auto.
  - destruct ((m_rcode m =? rcNXDOMAIN) && match answer with Some _ => true | None => false end); discriminate.
Qed.

(* resolve_chaining never fails with a Python-level exception *)
Theorem chain_no_internal : forall m e, resolve_chaining m <> Internal e.
Proof.
  intros m e H. unfold resolve_chaining in H.
  destruct (negb (m_qr m)); [discriminate|].
  destruct (m_question m) as [|q [|q2 l]]; try discriminate.
  destruct (chain_loop _ _ _ _ _ _ _) as [[[[answer n'] ttl] cnames] exhausted].
  destruct exhausted; [discriminate|].
  destruct ((m_rcode m =? rcNXDOMAIN) && match answer with Some _ => true | None => false end); discriminate.
Qed.
