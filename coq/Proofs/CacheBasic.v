(* C17 - step-local facts about Cache and LRUCache lookups. *)
From DV Require Import Base.Prelude Model.CacheM.

(* a lookup only ever returns an answer whose expiration is strictly after the clock reading it
   compared against, and that reading is the last one the call made (now of the resulting clock) *)
Lemma cache_get_fresh : forall key c k v c' k',
  cache_step (Get key) c k = Ok (RAns v, c', k') -> now k' < a_exp v.
Proof.
  intros key c k v c' k'. unfold cache_step.
  destruct (maybe_clean c k) as [c1 k1].
  destruct (dget (c_data c1) key) as [v0|]; [|discriminate].
  destruct (tick k1) as [t k2] eqn:Et.
  destruct (a_exp v0 <=? t) eqn:Ex; [discriminate|].
  intros H; inversion H; subst.
  apply Z.leb_gt in Ex.
  unfold tick in Et. destruct (pend k1); inversion Et; subst; cbn; lia.
Qed.

Lemma lru_get_fresh : forall key c k v c' k',
  lru_step (Get key) c k = Ok (RAns v, c', k') -> now k' < a_exp v.
Proof.
  intros key c k v c' k'. unfold lru_step.
  destruct (dget (l_dict c) key) as [i|]; [|discriminate].
  destruct (unlink (l_store c) i) as [s1| |]; cbn [bind]; try discriminate.
  destruct (getn s1 i) as [n| |]; cbn [bind]; try discriminate.
  destruct (n_val n) as [v0|]; [|discriminate].
  destruct (tick k) as [t k1] eqn:Et.
  destruct (a_exp v0 <=? t) eqn:Ex.
  - destruct (drop_node c s1 i); cbn [bind]; discriminate.
  - destruct (link_after s1 i sentinel) as [s2| |]; cbn [bind]; try discriminate.
    destruct (getn s2 i) as [n2| |]; cbn [bind]; try discriminate.
    destruct (set_hits s2 i (n_hits n2 + 1)) as [s3| |]; cbn [bind]; try discriminate.
    intros H; inversion H; subst. apply Z.leb_gt in Ex.
    unfold tick in Et. destruct (pend k); inversion Et; subst; cbn; lia.
Qed.
