(* C10: check_put_rdataset / check_delete_rdataset / check_delete_name.  The checks are a store transformer
   (`hooked`), so atomicity, the refusals of ended / read-only transactions etc. hold with checks installed
   (those theorems are about an arbitrary store); here: the refinement lifts, and a veto is a veto. *)
From DV Require Import Base.Prelude Model.NameM Model.TxnM.
From DV Require Import Proofs.NameValid Proofs.TxnName Proofs.TxnStore Proofs.TxnLow Proofs.TxnSim Proofs.TxnThm.
Open Scope Z_scope.

Section Hooks.
  Variable c : cfg.
  Hypothesis W : wfc c.

  (* the checks see the same thing on the zone model and on the reference store *)
  Lemma hooks_sim l v s n ty ttl :
    R c v s -> Valid n -> run_hooks (zstore c) l v n ty ttl = run_hooks (rstore c) l s n ty ttl.
  Proof.
    intros HR Vn. induction l as [|h l IH]; [reflexivity|]. cbn [run_hooks].
    assert (run_hook (zstore c) v n ty ttl h = run_hook (rstore c) s n ty ttl h) as ->.
    { destruct h; cbn [run_hook]; try reflexivity. cbn [s_get zstore rstore]. rewrite (sim_get c W v s n ty0 0 HR Vn). reflexivity. }
    destruct (run_hook (rstore c) s n ty ttl h); cbn [bind]; auto.
  Qed.

  (* The refinement with any check functions installed: same results (vetoes included), related zones. *)
  Theorem refines_hooked hk h z l :
    Forall spec_valid h -> RP c z l ->
    Forall2 (ROut (RP c)) (run_hist (hooked (zstore c) hk) c h z) (run_hist (hooked (rstore c) hk) c h l).
  Proof.
    intros F HP.
    apply (sim_run_hist (hooked (zstore c) hk) (hooked (rstore c) hk) c c EV (R c) (RP c) false); auto using hist_valid_rel.
    - split; [reflexivity|apply Valid_nil].
    - intros n1 n2 [-> _]. reflexivity.
    - intros; apply sim_begin; auto.
    - intros; apply sim_publish; auto.
    - intros s1 s2 n1 n2 ty cov HR [-> Vn]. apply sim_get; auto.
    - intros s2 n ty cov r. apply r_get_cls.
    - intros s1 s2 n1 n2 r HR [-> Vn] Hc. cbn [s_put hooked]. rewrite (hooks_sim _ s1 s2 n2 _ _ HR Vn).
      destruct (run_hooks (rstore c) (hk_put hk) s2 n2 (r_ty r) (r_ttl r)); cbn [bind res_rel]; auto. apply sim_put; auto.
    - intros s1 s2 n1 n2 HR [-> Vn]. cbn [s_del_name hooked]. rewrite (hooks_sim _ s1 s2 n2 _ _ HR Vn).
      destruct (run_hooks (rstore c) (hk_del_name hk) s2 n2 0 0); cbn [bind res_rel]; auto. apply sim_del_name; auto.
    - intros s1 s2 n1 n2 ty cov HR [-> Vn]. cbn [s_del_rds hooked]. rewrite (hooks_sim _ s1 s2 n2 _ _ HR Vn).
      destruct (run_hooks (rstore c) (hk_del_rds hk) s2 n2 ty 0); cbn [bind res_rel]; auto. apply sim_del_rds; auto.
    - intros s1 s2 n1 n2 HR [-> Vn]. apply sim_exists; auto.
    - intros s1 s2 n1 n2 HR [-> Vn]. apply sim_node; auto.
    - intros; apply sim_changed; auto.
    - discriminate.
  Qed.
End Hooks.

(* a check that objects stops the operation before the store is touched, with the check's own exception *)
Theorem put_check_vetoes {P S} (st : store P S) hk s n r e :
  run_hooks st (hk_put hk) s n (r_ty r) (r_ttl r) = Lib e -> s_put (hooked st hk) s n r = Lib e.
Proof. intros H. cbn [s_put hooked]. rewrite H. reflexivity. Qed.

(* checks that all pass are transparent *)
Theorem passing_checks_are_transparent {P S} (st : store P S) hk s n r :
  run_hooks st (hk_put hk) s n (r_ty r) (r_ttl r) = Ok tt -> s_put (hooked st hk) s n r = s_put st s n r.
Proof. intros H. cbn [s_put hooked]. rewrite H. reflexivity. Qed.

(* with no checks registered the transformer is the identity on every operation *)
Theorem no_checks_no_change {P S} (st : store P S) s n r ty cov :
  s_put (hooked st (mkHooks [] [] [])) s n r = s_put st s n r /\
  s_del_rds (hooked st (mkHooks [] [] [])) s n ty cov = s_del_rds st s n ty cov /\
  s_del_name (hooked st (mkHooks [] [] [])) s n = s_del_name st s n.
Proof. repeat split. Qed.
