(* C13 - convergence for responses whose sections / body list their records in any order. *)
From DV Require Import Base.Prelude Model.XfrM Proofs.XfrSets Proofs.XfrSpec Proofs.XfrZone Proofs.XfrDiff
  Proofs.XfrSafety Proofs.XfrBasic Proofs.XfrRun Proofs.XfrIxfr Proofs.XfrAxfr Proofs.XfrPerm.
From Coq Require Import Sorting.Permutation.

Lemma zput_zeq : forall k e a b, zeq a b -> zeq (zput k e a) (zput k e b).
Proof. intros k e a b H k'. rewrite !look_zput, H. reflexivity. Qed.

Lemma zsorted_zput_one : forall k t d z, zsorted z -> zsorted (zput k (t, [d]) z).
Proof.
  intros k t d z Hz k'. rewrite look_zput. destruct (key_eqb k' k); [apply ssorted_one|apply Hz].
Qed.

Lemma zsorted_zone_of : forall v, version_wf v -> zsorted (zone_of v).
Proof.
  intros v [_ Hwf] k. rewrite look_zone_of. destruct (key_eqb k soakey); [apply ssorted_one|].
  destruct (look (v_rest v) k) as [[t ds]|] eqn:E; [|exact Logic.I].
  destruct (rest_wf_entry _ _ _ _ Hwf E) as (_ & Hs & _). exact Hs.
Qed.

(* one difference sequence, records of each section in any order *)
Lemma section_run_perm : forall u p tz vn a b e D A,
  version_wf a -> version_wf b -> v_soa a <> v_soa vn -> zsorted tz ->
  (forall k, k <> soakey -> look tz k = look (v_rest a) k) ->
  Permutation D (zminus (v_rest a) (v_rest b)) -> same_set A (zminus (v_rest b) (v_rest a)) ->
  exists tz',
    loopn (ist u p tz (v_serial a) (single (soa_rr vn)) e false) (map single (soa_rr a :: D ++ soa_rr b :: A)) =
    (ist u p tz' (v_serial b) (single (soa_rr vn)) false false, None)
    /\ zeq tz' (zone_of b).
Proof.
  intros u p tz vn a b e D A [Hta Ha] [Htb Hb] Hne Hs Hz PD PA.
  destruct (diff_apply (v_rest a) (v_rest b) tz Ha Hb Hz) as [z1 [Hd [_ Hadd]]].
  destruct (dels_perm _ D tz z1 (Permutation_sym PD) Hs Hd) as [z1' [Hd' Hz1]].
  assert (PlD : Forall plain D).
  { eapply Permutation_Forall; [apply Permutation_sym, PD|apply zminus_plain, Ha]. }
  assert (PlA : Forall plain A).
  { apply Forall_forall. intros r Hr. apply PA in Hr.
    pose proof (zminus_plain (v_rest b) (v_rest a) Hb) as Hp. rewrite Forall_forall in Hp. apply Hp, Hr. }
  assert (Hq : quiet tz) by (apply (agree_quiet (v_rest a)); assumption).
  assert (Hq1 : quiet z1') by (apply (quiet_dels _ _ _ Hd' Hq)).
  assert (Hq2 : quiet (zput soakey (v_ttl b, [v_soa b]) z1')) by (apply quiet_zput; [exact Hq1|discriminate]).
  exists (adds (zput soakey (v_ttl b, [v_soa b]) z1') A). split.
  - cbn [map loopn]. rewrite step_del_start by assumption.
    rewrite map_app, loopn_app.
    unfold ist at 1. rewrite (loopn_dels _ _ _ z1') by assumption.
    cbn [map loopn]. fold (ist u p z1' (v_serial a) (single (soa_rr vn)) false true).
    rewrite step_add_start by assumption.
    unfold ist at 1. rewrite loopn_adds by assumption. reflexivity.
  - assert (S1 : zsorted z1').
    { intros k. pose proof (look_dels_fd _ _ _ Hd' k) as F.
      clear - F Hs. revert F. generalize (look z1' k). generalize (Hs k). generalize (look tz k).
      induction D as [|r D IH]; intros e0 He0 e1 F; cbn [fd] in F.
      - inversion F; subst; exact He0.
      - destruct (key_eqb (rkey r) k); [|eapply IH; eassumption].
        destruct (del1 e0 (r_data r)) as [e'|] eqn:E; cbn [bindo] in F; [|discriminate].
        eapply IH; [|exact F]. eapply wf_e_del1; eassumption. }
    eapply zeq_trans; [apply adds_same_set; [exact PA|apply zsorted_zput_one, S1]|].
    eapply zeq_trans; [apply adds_zeq, zput_zeq, Hz1|].
    intros k. rewrite Hadd, look_zone_of. reflexivity.
Qed.

Lemma chain_run_perm : forall u chain p tz vn v0 e mid,
  ixfr_seqs v0 chain mid ->
  chain <> [] -> version_wf v0 -> Forall version_wf chain -> zsorted tz ->
  (forall v, In v (v0 :: removelast chain) -> v_soa v <> v_soa vn) ->
  (forall k, k <> soakey -> look tz k = look (v_rest v0) k) ->
  exists tz',
    loopn (ist u p tz (v_serial v0) (single (soa_rr vn)) e false) (map single mid) =
    (ist u p tz' (v_serial (last chain v0)) (single (soa_rr vn)) false false, None)
    /\ zeq tz' (zone_of (last chain v0)).
Proof.
  intros u chain p tz vn v0 e mid HS. revert p tz e.
  induction HS as [v|v w rest D A tail PD PA HS IH]; intros p tz e Hne Hv0 Hch Hs Hd Hz; [congruence|].
  inversion Hch as [|? ? Hw Hch']; subst.
  destruct (section_run_perm u p tz vn v w e D A Hv0 Hw (Hd v (or_introl eq_refl)) Hs Hz PD PA) as [tz1 [Hr1 Hz1]].
  assert (E : soa_rr v :: D ++ soa_rr w :: A ++ tail = (soa_rr v :: D ++ soa_rr w :: A) ++ tail).
  { cbn [app]. f_equal. rewrite <- app_assoc. reflexivity. }
  rewrite E, map_app, loopn_app, Hr1.
  destruct rest as [|w2 rest].
  - inversion HS; subst. cbn [map loopn last]. exists tz1. auto.
  - assert (H1 : w2 :: rest <> []) by discriminate.
    assert (H2 : forall x, In x (w :: removelast (w2 :: rest)) -> v_soa x <> v_soa vn).
    { intros x Hin. apply Hd. right. exact Hin. }
    assert (H3 : forall k, k <> soakey -> look tz1 k = look (v_rest w) k).
    { intros k Hk. rewrite Hz1, look_zone_of. apply key_eqb_neq in Hk. rewrite Hk. reflexivity. }
    assert (S1 : zsorted tz1) by (eapply zsorted_zeq; [exact Hz1|apply zsorted_zone_of, Hw]).
    destruct (IH p tz1 false H1 Hw Hch' S1 H2 H3) as [tz2 [Hr2 Hz2]].
    change (last (w :: w2 :: rest) v) with (last (w2 :: rest) v).
    rewrite (last_default (w2 :: rest) v w H1).
    exists tz2. split; [exact Hr2|exact Hz2].
Qed.

Lemma ixfr_records_perm : forall u v0 chain z0 mid,
  chain_ok v0 chain -> zeq z0 (zone_of v0) -> ixfr_seqs v0 chain mid ->
  exists s1 s2,
    loopn (ist u z0 z0 (v_serial v0) (single (soa_rr (last chain v0))) true false) (map single mid) = (s1, None)
    /\ done s1 = false
    /\ step Last s1 (single (soa_rr (last chain v0))) = (s2, None)
    /\ done s2 = true /\ zeq (pub s2) (zone_of (last chain v0)).
Proof.
  intros u v0 chain z0 mid Hok Hz HS.
  pose proof Hok as (Hne & Hv0 & Hch & _ & _).
  destruct (chain_run_perm u chain z0 z0 (last chain v0) v0 true mid HS Hne Hv0 Hch) as [tz' [Hr Hz']].
  { eapply zsorted_zeq; [exact Hz|apply zsorted_zone_of, Hv0]. }
  { apply chain_ok_soa, Hok. }
  { intros k Hk. rewrite Hz, look_zone_of. apply key_eqb_neq in Hk. rewrite Hk. reflexivity. }
  pose proof (version_wf_last chain v0 Hv0 Hch) as Hvn. pose proof Hvn as [Httl _].
  eexists. eexists. split; [exact Hr|]. split; [reflexivity|].
  split; [apply step_final; [exact Httl|exact (zeq_zone_of_quiet _ _ Hvn Hz')]|]. split; [reflexivity|].
  cbn [pub]. intros k. rewrite look_zput, look_zone_of.
  destruct (key_eqb k soakey) eqn:E; [reflexivity|]. rewrite Hz', look_zone_of, E. reflexivity.
Qed.

(* multi-step incremental chains, records of every section in any order, any division into messages *)
Theorem ixfr_converges_any_order : forall v0 chain z0 recs ws,
  chain_ok v0 chain -> zeq z0 (zone_of v0) -> ixfr_response v0 chain recs -> chunking tIXFR recs ws ->
  exists z' n, inbound_xfr z0 tIXFR (Some (v_serial v0)) false ws = (Done z', n)
               /\ zeq z' (zone_of (last chain v0)).
Proof.
  intros v0 chain z0 recs ws Hok Hz [mid [HS ->]] Hch.
  apply chunking_first in Hch. destruct Hch as (w & ws' & a & -> & Hr & Hw & Hws & Hcat).
  destruct (ixfr_records_perm false v0 chain z0 mid Hok Hz HS) as (s1 & s2 & Hl & Hd1 & Hf & Hd2 & Hz2).
  pose proof Hok as (_ & _ & _ & Hser & Hlt).
  unfold inbound_xfr, xfr_run. rewrite init_ixfr. cbn [Z.eqb tIXFR Pos.eqb]. rewrite drive_cons by solve_req.
  rewrite (first_message_ixfr z0 (v_serial v0) false w (soa_rr (last chain v0)) a Hw Hr) by (split; reflexivity).
  cbv zeta. change (r_data (soa_rr (last chain v0)) mod two32) with (v_serial (last chain v0)).
  assert (Hne : (v_serial (last chain v0) =? v_serial v0) = false).
  { apply Z.eqb_neq. intros E. apply (Hser v0 (or_introl eq_refl)). symmetry. exact E. }
  rewrite Hne, Hlt. cbn [andb]. rewrite after_tcp by reflexivity.
  assert (Hrun : running (ist false z0 z0 (v_serial v0) (single (soa_rr (last chain v0))) true false)).
  { repeat split; try reflexivity; discriminate. }
  destruct (cont_records ws' a (ist false z0 z0 (v_serial v0) (single (soa_rr (last chain v0))) true false)
              mid (soa_rr (last chain v0)) s1 s2 Hrun Hws Hcat Hl Hd1 Hf Hd2) as [n Hn].
  exists (pub s2), n. split; [exact Hn|exact Hz2].
Qed.

(* AXFR with the body in any order *)
Theorem axfr_converges_any_order : forall v z0 ser recs ws,
  version_wf v -> axfr_response v recs -> chunking tAXFR recs ws ->
  exists z' n, inbound_xfr z0 tAXFR ser false ws = (Done z', n) /\ zeq z' (zone_of v).
Proof.
  intros v z0 ser recs ws Hv [B [PB ->]] Hch.
  apply chunking_first in Hch. destruct Hch as (w & ws' & a & -> & Hr & Hw & Hws & Hcat).
  unfold inbound_xfr, xfr_run. rewrite init_axfr. cbn [Z.eqb tAXFR tIXFR Pos.eqb]. rewrite drive_cons by solve_req.
  rewrite (first_message_axfr z0 ser w (soa_rr v) a Hw Hr) by (split; reflexivity).
  pose proof Hv as [Httl Hwf].
  assert (PlB : Forall plain B).
  { apply Forall_forall. intros r0 Hr0. apply PB in Hr0.
    pose proof (body_plain _ Hwf) as Hp. rewrite Forall_forall in Hp. apply Hp, Hr0. }
  destruct (cont_full ws' false (map single) a tAXFR z0 [] (match ser with Some sv => sv | None => 0 end) v
              B parse_single_ok parse_group_ok Httl Hws PlB zsorted_nil quiet_nil Hcat)
    as [z' [n [Hn Hz']]].
  exists z', n. split; [exact Hn|]. apply full_target; [exact Hv|].
  eapply zeq_trans; [exact Hz'|]. apply zput_zeq, adds_same_set; [exact PB|apply zsorted_nil].
Qed.

(* AXFR-style answer to an IXFR request, body in any order *)
Theorem axfr_style_ixfr_converges_any_order : forall v z0 ser recs ws,
  version_wf v -> v_rest v <> [] -> axfr_response v recs ->
  v_serial v <> ser -> serial_lt (v_serial v) ser = false ->
  chunking tIXFR recs ws ->
  exists z' n, inbound_xfr z0 tIXFR (Some ser) false ws = (Done z', n) /\ zeq z' (zone_of v).
Proof.
  intros v z0 ser recs ws Hv Hne [B [PB ->]] Hs Hlt Hch.
  apply chunking_first in Hch. destruct Hch as (w & ws' & a & -> & Hr & Hw & Hws & Hcat).
  pose proof Hv as [Httl Hwf].
  assert (PlB : Forall plain B).
  { apply Forall_forall. intros r0 Hr0. apply PB in Hr0.
    pose proof (body_plain _ Hwf) as Hp. rewrite Forall_forall in Hp. apply Hp, Hr0. }
  destruct B as [|r c].
  { exfalso.
    destruct (v_rest v) as [|[k [t ds]] rest]; [congruence|].
    destruct Hwf as [_ Hf]. inversion Hf as [|? ? He _]; subst.
    destruct k as [[n ty] cv]. cbn in He. destruct He as (_ & _ & _ & Hds & _).
    destruct ds as [|d ds]; [congruence|].
    apply (proj2 (PB (mkRR n cIN ty cv t d))). unfold body. cbn [flat_map]. apply in_or_app. left.
    cbn. left. reflexivity. }
  inversion PlB as [|? ? Hpr Hpc]; subst.
  unfold inbound_xfr, xfr_run. rewrite init_ixfr. cbn [Z.eqb tIXFR Pos.eqb]. rewrite drive_cons by solve_req.
  rewrite (first_message_ixfr z0 ser false w (soa_rr v) a Hw Hr) by (split; reflexivity).
  cbv zeta. change (r_data (soa_rr v) mod two32) with (v_serial v).
  apply Z.eqb_neq in Hs. rewrite Hs, Hlt. cbn [andb]. rewrite after_tcp by reflexivity.
  destruct (cont_fallback ws' a z0 z0 ser v r c Httl Hws Hpr Hpc Hcat) as [z' [n [Hn Hz']]].
  exists z', n. split; [exact Hn|].
  apply full_target; [exact Hv|].
  eapply zeq_trans; [exact Hz'|]. apply zput_zeq, adds_same_set; [exact PB|apply zsorted_nil].
Qed.

(* the canonical streams of XfrSpec are instances *)
Lemma ixfr_seqs_canonical : forall chain v0, ixfr_seqs v0 chain (diff_seqs v0 chain).
Proof.
  induction chain as [|w chain IH]; intros v0; cbn [diff_seqs]; [constructor|].
  unfold diff_seq. cbn [app]. rewrite <- app_assoc. cbn [app].
  apply seqs_cons; [apply Permutation_refl|intros r; reflexivity|apply IH].
Qed.
