(* C19 - the two models agree on every history: the store-level model run by the harness
   (BTreeStoreM.run: value-level world and store world side by side, compared at every store
   operation) never reports a difference, and equals the value-level run, for every history of
   the operations of BTreeHistory.vop. *)
From DV Require Import Base.Prelude Model.BTreeM Model.BTreeStoreM Proofs.BTreeBase Proofs.BTreeWf Proofs.BTreeInsert
  Proofs.BTreeLookup Proofs.BTreeDelete Proofs.BTreeTop Proofs.BTreeCursor Proofs.BTreeHistory
  Proofs.BTreeStore Proofs.BTreeIsolation Proofs.BTreeRefine Proofs.BTreeRefine4 Proofs.BTreeRefine5.

Lemma zlist_eqb_refl l : zlist_eqb l l = true.
Proof. induction l; cbn; [reflexivity|]. now rewrite Z.eqb_refl. Qed.

Lemma obs_eqb_refl : forall a, obs_eqb a a = true.
Proof.
  fix IH 1. destruct a; cbn; try apply Z.eqb_refl; try apply zlist_eqb_refl; try reflexivity.
  revert l. fix IHl 1. destruct l; [reflexivity|]. rewrite IH. cbn. apply IHl.
Qed.

Lemma set_nth_set_nth {A} i (x y : A) l : set_nth i y (set_nth i x l) = set_nth i y l.
Proof. revert i. induction l; intros [|i]; cbn; try reflexivity. now rewrite IHl. Qed.

(* ---------------------------------------------------------------- mutate / v_mutate *)

Lemma mutate_v w i b r :
  w_trees (fst (mutate w i b r)) = fst (v_mutate (w_trees w) i r) /\ snd (mutate w i b r) = snd (v_mutate (w_trees w) i r).
Proof. destruct r as [(b' & o)| |]; cbn; auto. Qed.

Lemma v_mutate_wrap {A} ts i (c : res (btree * A)) (f g : A -> obs) :
  fst (v_mutate ts i (do (b', o) <- c; Ok (b', f o))) = fst (v_mutate ts i (do (b', o) <- c; Ok (b', g o))).
Proof. destruct c as [(b' & o)| |]; reflexivity. Qed.

(* ---------------------------------------------------------------- reads *)

Lemma v_first_spec ts i b : nth_error ts i = Some b -> bwf b -> v_first ts (Z.of_nat i) = hd_error (elements (b_root b)).
Proof.
  intros H Hb. unfold v_first. rewrite Nat2Z.id, H. rewrite (minimum_root (b_t b) (b_root b) (proj1 Hb)).
  destruct (elements (b_root b)); reflexivity.
Qed.

Lemma v_lookup_spec ts i b k : nth_error ts i = Some b -> bwf b -> v_lookup ts (Z.of_nat i) k = find_sorted k (elements (b_root b)).
Proof. intros H Hb. unfold v_lookup. rewrite Nat2Z.id, H. now rewrite (get_element_spec b k Hb). Qed.

Lemma v_del2 ts i b k : nth_error ts i = Some b ->
  vexec_prim ts (SDel (Z.of_nat i) k None 2) = v_mutate ts i (do (b', o) <- delete_btree b k None; Ok (b', N)).
Proof. intros H. cbn [vexec_prim]. unfold v_with. rewrite Nat2Z.id, H. reflexivity. Qed.

(* ---------------------------------------------------------------- clear *)

Lemma v_clear_frozen i : forall fuel ts b, nth_error ts i = Some b -> b_immut b = true -> v_clear fuel ts (Z.of_nat i) = ts.
Proof.
  induction fuel as [|f IH]; intros ts b H Him; [reflexivity|]. cbn [v_clear].
  destruct (v_first ts (Z.of_nat i)) as [e|]; [|reflexivity].
  rewrite (v_del2 ts i b _ H). unfold delete_btree. rewrite Him. cbn [bind v_mutate fst]. eapply IH; eauto.
Qed.

Lemma v_clear_mut i : forall l fuel ts b,
  nth_error ts i = Some b -> bwf b -> b_immut b = false -> elements (b_root b) = l -> (length l < fuel)%nat ->
  exists b', clear_loop fuel b = Ok b' /\ sclear_loop fuel b = Ok b' /\
             (l <> [] -> v_clear fuel ts (Z.of_nat i) = set_nth i b' ts) /\
             (l = [] -> v_clear fuel ts (Z.of_nat i) = ts /\ b' = b).
Proof.
  induction l as [|x l IH]; intros fuel ts b H Hb Him He Hf; (destruct fuel as [|f]; [cbn in Hf; lia|]);
    cbn [clear_loop sclear_loop v_clear]; rewrite (v_first_spec ts i b H Hb), (first_element_spec b Hb), He; cbn [bind hd_error].
  - exists b. split; [reflexivity|]. split; [reflexivity|]. split; [congruence|auto].
  - rewrite (get_element_spec b _ Hb), He, find_sorted_hd. cbn [bind].
    destruct (delete_btree_spec_proof b (fst x) None Hb Him) as (b1 & Hd & Hb1 & He1 & Him1 & Ht1).
    rewrite He, find_sorted_hd in Hd, He1. cbn [dspec after_del] in Hd, He1. rewrite del_sorted_hd in He1.
    rewrite Hd. cbn [bind]. rewrite (v_del2 ts i b _ H), Hd. cbn [bind v_mutate fst].
    assert (Hi : (i < length ts)%nat) by (apply nth_error_Some; congruence).
    destruct (IH f (set_nth i b1 ts) b1 (nth_set_nth_eq _ _ _ Hi) Hb1 Him1 He1 ltac:(cbn in Hf; lia)) as (b' & Hc & Hsc & Hne & Hnil).
    exists b'. split; [assumption|]. split; [assumption|]. split; [|discriminate]. intros _.
    destruct l as [|y l].
    + destruct (Hnil eq_refl) as (-> & ->). reflexivity.
    + rewrite Hne by discriminate. apply set_nth_set_nth.
Qed.

(* ---------------------------------------------------------------- one step of the value-level world *)

Ltac mv :=
  match goal with |- context [mutate ?w ?i ?b ?r] =>
    let E1 := fresh "E" in let E2 := fresh "E" in
    destruct (mutate_v w i b r) as (E1 & E2); rewrite E1, E2; clear E1 E2 end.

Ltac nostore := let H := fresh in intros H; vm_compute in H; discriminate H.

Ltac ro :=
  split; [|reflexivity]; unfold with_tree, with_cursor;
  repeat (match goal with |- context [match ?e with _ => _ end] => destruct e end); reflexivity.

Lemma step_vexec x w : (forall i b, nth_error (w_trees w) i = Some b -> bwf b) ->
  match decode (enc x) with
  | Some y => w_trees (fst (step w (enc x))) = fst (vexec (w_trees w) y) /\
              (is_store_op (enc x) = true -> snd (step w (enc x)) = snd (vexec (w_trees w) y))
  | None => w_trees (fst (step w (enc x))) = w_trees w /\ is_store_op (enc x) = false
  end.
Proof.
  intros Hb. destruct x; unfold enc, nz, bz; cbv beta iota delta [decode step is_store_op];
    try (ro; fail);
    cbn [vexec vexec_prim];
    try (unfold new_btree; rewrite Nat2Z.id; destruct (t <? 3)%nat; cbn; auto; fail);
    unfold with_tree, v_with; rewrite ?Nat2Z.id;
    (destruct (nth_error (w_trees w) ti) as [b|] eqn:Eb;
       [pose proof (Hb _ _ Eb) as Hbw|
        try (split; [reflexivity|intros _; reflexivity]);
        try (unfold v_lookup, v_first, v_size; rewrite Nat2Z.id, Eb; split; [try reflexivity|nostore])]);
    try (mv; split; [reflexivity|first [intros _; reflexivity|nostore]]; fail);
    try (split; [reflexivity|intros _; reflexivity]; fail);
    try (unfold clone_btree; destruct (b_immut b); split; [reflexivity|intros _; reflexivity]; fail).
  - unfold clone_btree. destruct (b_immut b); split; [reflexivity|intros _; reflexivity|reflexivity|intros _; reflexivity].
  - unfold clone_btree. destruct (b_immut b); split; [reflexivity|intros _; reflexivity|reflexivity|intros _; reflexivity].
  - (* pop *)
    rewrite (get_element_spec b k Hbw), (v_lookup_spec _ _ _ k Eb Hbw).
    destruct (find_sorted k (elements (b_root b))); [mv|]; (split; [|nostore]); [apply v_mutate_wrap|reflexivity].
  - (* popitem *)
    rewrite (first_element_spec b Hbw), (v_first_spec _ _ _ Eb Hbw).
    destruct (elements (b_root b)) as [|x l] eqn:He; cbn [hd_error]; [split; [reflexivity|nostore]|].
    rewrite (get_element_spec b _ Hbw), He, find_sorted_hd. mv. split; [apply v_mutate_wrap|nostore].
  - (* clear *)
    split; [|nostore]. cbn [fst]. rewrite (first_element_spec b Hbw).
    assert (Hsz : v_size (w_trees w) (Z.of_nat ti) = Z.to_nat (b_size b)) by (unfold v_size; now rewrite Nat2Z.id, Eb).
    rewrite Hsz. pose proof Hbw as (_ & Hz). unfold zlen in Hz.
    destruct (b_immut b) eqn:Him.
    + rewrite (v_clear_frozen ti _ _ b Eb Him).
      destruct (elements (b_root b)) as [|x l] eqn:He; cbn [hd_error]; [reflexivity|].
      rewrite (proj1 (clear_frozen b x l _ Hbw Him He)). reflexivity.
    + destruct (v_clear_mut ti (elements (b_root b)) (S (Z.to_nat (b_size b))) (w_trees w) b Eb Hbw Him eq_refl ltac:(lia))
        as (b' & Hc & _ & Hne & Hnil).
      destruct (elements (b_root b)) as [|x l] eqn:He; cbn [hd_error].
      * now rewrite (proj1 (Hnil eq_refl)).
      * rewrite Hc. cbn [bind mutate fst w_trees]. now rewrite Hne by discriminate.
  - (* clear on a missing tree *)
    cbn [v_clear]. unfold v_first. now rewrite Nat2Z.id, Eb.
  - (* setdefault *)
    rewrite (get_element_spec b k Hbw), (v_lookup_spec _ _ _ k Eb Hbw).
    destruct (find_sorted k (elements (b_root b))); [split; [reflexivity|nostore]|].
    mv. split; [apply v_mutate_wrap|nostore].
  - (* set.remove *)
    rewrite (get_element_spec b k Hbw), (v_lookup_spec _ _ _ k Eb Hbw).
    destruct (find_sorted k (elements (b_root b))); [mv|]; (split; [|nostore]); [apply v_mutate_wrap|reflexivity].
  - (* set.pop *)
    rewrite (first_element_spec b Hbw), (v_first_spec _ _ _ Eb Hbw).
    destruct (elements (b_root b)) as [|x l] eqn:He; cbn [hd_error]; [split; [reflexivity|nostore]|].
    mv. split; [apply v_mutate_wrap|nostore].
  - (* set.clear *)
    split; [|nostore]. cbn [fst]. rewrite (first_element_spec b Hbw).
    assert (Hsz : v_size (w_trees w) (Z.of_nat ti) = Z.to_nat (b_size b)) by (unfold v_size; now rewrite Nat2Z.id, Eb).
    rewrite Hsz. pose proof Hbw as (_ & Hz). unfold zlen in Hz.
    destruct (b_immut b) eqn:Him.
    + rewrite (v_clear_frozen ti _ _ b Eb Him).
      destruct (elements (b_root b)) as [|x l] eqn:He; cbn [hd_error]; [reflexivity|].
      rewrite (proj2 (clear_frozen b x l _ Hbw Him He)). reflexivity.
    + destruct (v_clear_mut ti (elements (b_root b)) (S (Z.to_nat (b_size b))) (w_trees w) b Eb Hbw Him eq_refl ltac:(lia))
        as (b' & _ & Hc & Hne & Hnil).
      destruct (elements (b_root b)) as [|x l] eqn:He; cbn [hd_error].
      * now rewrite (proj1 (Hnil eq_refl)).
      * rewrite Hc. cbn [bind mutate fst w_trees]. now rewrite Hne by discriminate.
  - cbn [v_clear]. unfold v_first. now rewrite Nat2Z.id, Eb.
Qed.

(* ---------------------------------------------------------------- all histories *)

Lemma steps2_cons sw w x r :
  steps2 sw w (enc x :: r) =
  let '(w', o) := step w (enc x) in
  let '(sw', so) := sstep sw (enc x) in
  (if is_store_op (enc x) then (if obs_eqb o so then o else Prelude.E eStoreDiffers) else o) :: steps2 sw' w' r.
Proof. cbn [steps2]. destruct (step w (enc x)) as (w' & o). destruct (sstep sw (enc x)) as (sw' & so). destruct x; reflexivity. Qed.

Lemma SR_bwf sw ts i b : SR sw ts -> nth_error ts i = Some b -> bwf b.
Proof.
  intros HSR H. pose proof (SR_tree sw ts i HSR) as Ht. rewrite H in Ht.
  destruct (nth_error (sw_trees sw) i); [|contradiction]. apply Ht.
Qed.

Lemma steps2_steps xs : forall sw w, SR sw (w_trees w) -> steps2 sw w (map enc xs) = steps w (map enc xs).
Proof.
  induction xs as [|x r IH]; intros sw w HSR; [reflexivity|]. cbn [map]. rewrite steps2_cons. cbn [steps].
  pose proof (step_vexec x w (fun i b => SR_bwf sw _ i b HSR)) as Hv.
  destruct (step w (enc x)) as (w' & o) eqn:Es. destruct (sstep sw (enc x)) as (sw' & so) eqn:Ess.
  unfold sstep in Ess. cbn [fst snd] in Hv.
  destruct (decode (enc x)) as [y|].
  - destruct Hv as (Htr & Hout). destruct (exec_sim _ _ _ _ _ HSR Ess) as (HSR' & Hso).
    rewrite <- Htr in HSR'. rewrite (IH sw' w' HSR'). f_equal.
    destruct (is_store_op (enc x)); [|reflexivity]. rewrite Hso, <- (Hout eq_refl). now rewrite obs_eqb_refl.
  - destruct Hv as (Htr & Hno). inversion Ess; subst sw' so. rewrite Hno.
    rewrite <- Htr in HSR. now rewrite (IH sw w' HSR).
Qed.

(* the store-level model run by the harness never reports a difference (eStoreDiffers) between
   the store world and the value-level world, and its observations are those of the value-level
   model - hence (history_refines) those of the sorted-list reference *)
Theorem store_run_proof xs :
  BTreeStoreM.run (L (I 0 :: map enc xs)) = BTreeM.run (L (I 0 :: map enc xs)).
Proof.
  unfold BTreeStoreM.run, BTreeM.run. f_equal. apply steps2_steps.
  cbn [w_trees]. apply SR_empty.
Qed.

Theorem store_run_reference_proof xs :
  BTreeStoreM.run (L (I 0 :: map enc xs)) = L (rsteps (mkRW [] []) xs).
Proof. rewrite store_run_proof. unfold BTreeM.run. now rewrite history_refines_proof. Qed.
