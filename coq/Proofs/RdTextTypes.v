(* Type mnemonics (dns/rdatatype.py) and the text form of type bitmaps (NSEC, CSYNC):
   RdataType.from_text (RdataType.to_text v) = v for all 65536 values (finite sweep), the mnemonics are
   tokenizer words, and the tokens of Bitmap.to_text are read back by Bitmap.from_text as the windows. *)
From DV Require Import Base.Prelude Model.NameM Model.TokM Model.RdTextM.
From DV Require Import Proofs.TokEsc Proofs.TokTxt Proofs.TokWords Proofs.TokHex Proofs.TokShape Proofs.TokGeneric
     Proofs.RdTextAddr Proofs.RdTextBitmap.
Open Scope Z_scope.
Set Warnings "-abstract-large-number".

(* ---------- mnemonic-or-number fields: finite sweeps per kind ---------- *)
Definition enum_ok (k : enum_kind) (v : Z) : bool :=
  match enum_print k v with
  | Ok w => negb (is_nil w) && forallb safe w
            && match enum_parse k w with Ok v' => v' =? v | _ => false end
  | _ => false
  end.

Lemma enum_ok_type : forallb (enum_ok KType) (zrange 65536 0) = true.
Proof. vm_compute. reflexivity. Qed.
Lemma enum_ok_ctype : forallb (enum_ok KCtype) (zrange 65536 0) = true.
Proof. vm_compute. reflexivity. Qed.
Lemma enum_ok_scheme : forallb (enum_ok KScheme) (zrange 256 0) = true.
Proof. vm_compute. reflexivity. Qed.
Lemma enum_ok_alg : forallb (enum_ok KAlgMn) (zrange 256 0) = true.
Proof. vm_compute. reflexivity. Qed.
Lemma enum_ok_algnum : forallb (enum_ok KAlgNum) (zrange 256 0) = true.
Proof. vm_compute. reflexivity. Qed.
Lemma enum_ok_rcode : forallb (enum_ok KRcode) (zrange 4096 0) = true.
Proof. vm_compute. reflexivity. Qed.

Theorem enum_facts k v : 0 <= v <= enum_max k ->
  exists w, enum_print k v = Ok w /\ w <> [] /\ forallb safe w = true /\ enum_parse k w = Ok v /\ enum_ctor k v = Ok v.
Proof.
  intros Hv.
  assert (H : enum_ok k v = true).
  { destruct k; cbn [enum_max] in Hv.
    - pose proof enum_ok_type as G. rewrite forallb_forall in G. apply G. apply zrange_in.
      assert (E : Z.of_nat 65536 = 65536) by (vm_compute; reflexivity). rewrite E. lia.
    - pose proof enum_ok_scheme as G. rewrite forallb_forall in G. apply G. apply zrange_in.
      assert (E : Z.of_nat 256 = 256) by (vm_compute; reflexivity). rewrite E. lia.
    - pose proof enum_ok_ctype as G. rewrite forallb_forall in G. apply G. apply zrange_in.
      assert (E : Z.of_nat 65536 = 65536) by (vm_compute; reflexivity). rewrite E. lia.
    - pose proof enum_ok_alg as G. rewrite forallb_forall in G. apply G. apply zrange_in.
      assert (E : Z.of_nat 256 = 256) by (vm_compute; reflexivity). rewrite E. lia.
    - pose proof enum_ok_algnum as G. rewrite forallb_forall in G. apply G. apply zrange_in.
      assert (E : Z.of_nat 256 = 256) by (vm_compute; reflexivity). rewrite E. lia.
    - pose proof enum_ok_rcode as G. rewrite forallb_forall in G. apply G. apply zrange_in.
      assert (E : Z.of_nat 4096 = 4096) by (vm_compute; reflexivity). rewrite E. lia. }
  unfold enum_ok in H. destruct (enum_print k v) as [w| |]; try discriminate. exists w.
  apply andb_true_iff in H as [H H3]. apply andb_true_iff in H as [H1 H2].
  destruct (enum_parse k w) as [v'| |]; try discriminate. apply Z.eqb_eq in H3. subst v'.
  split; [reflexivity|]. split; [intros E; rewrite E in H1; discriminate|]. split; [exact H2|]. split; [reflexivity|].
  unfold enum_ctor. replace ((v <? 0) || (v >? enum_max k)) with false by lia. reflexivity.
Qed.


(* CH A: the 16-bit address printed in octal reads back through get_uint16(base=8): finite sweep *)
Definition oct_ok (v : Z) : bool :=
  let w := print_base 8 v in
  negb (is_nil w) && forallb safe w
  && match as_uint max16 (mkTok tIDENT w false None) 8 with Ok v' => v' =? v | _ => false end.

Lemma oct_ok_all : forallb oct_ok (zrange 65536 0) = true.
Proof. vm_compute. reflexivity. Qed.

Theorem octal_facts v : 0 <= v <= 65535 ->
  print_base 8 v <> [] /\ forallb safe (print_base 8 v) = true /\
  as_uint max16 (mkTok tIDENT (print_base 8 v) false None) 8 = Ok v.
Proof.
  intros Hv. pose proof oct_ok_all as G. rewrite forallb_forall in G. specialize (G v).
  assert (Hin : In v (zrange 65536 0)).
  { apply zrange_in. assert (E : Z.of_nat 65536 = 65536) by (vm_compute; reflexivity). rewrite E. lia. }
  specialize (G Hin). unfold oct_ok in G. cbv zeta in G.
  apply andb_true_iff in G as [G G3]. apply andb_true_iff in G as [G1 G2].
  split; [intros E; rewrite E in G1; discriminate|]. split; [exact G2|].
  destruct (as_uint max16 (mkTok tIDENT (print_base 8 v) false None) 8) as [v'| |]; try discriminate.
  apply Z.eqb_eq in G3. subst. reflexivity.
Qed.

(* dns.rdatatype.to_text / from_text: the KType instance *)
Theorem rdtype_facts v : 0 <= v < 65536 ->
  exists n, rdtype_to_text v = Ok n /\ n <> [] /\ forallb safe n = true /\ rdtype_from_text n = Ok v.
Proof.
  intros Hv. destruct (enum_facts KType v ltac:(cbn [enum_max]; lia)) as (w & E1 & E2 & E3 & E4 & _).
  exists w. repeat split; assumption.
Qed.

(* ---------- the text of a bitmap is a sequence of blank-prefixed words ---------- *)
Definition spaced (names : list (list Z)) : list Z := flat_map (fun n => 32 :: n) names.

Lemma join_sp_spaced names : names <> [] -> 32 :: join_sp names = spaced names.
Proof.
  induction names as [|n names IH]; intros Hne; [congruence|]. destruct names as [|n2 names].
  - cbn [join_sp spaced flat_map]. rewrite app_nil_r. reflexivity.
  - change (join_sp (n :: n2 :: names)) with (n ++ 32 :: join_sp (n2 :: names)).
    rewrite IH by discriminate. unfold spaced. cbn [flat_map]. reflexivity.
Qed.

Definition names_of (types : list Z) (names : list (list Z)) : Prop :=
  Forall2 (fun t n => n <> [] /\ forallb safe n = true /\ rdtype_from_text n = Ok t) types names.

Lemma map_res_names types : Forall (fun t => 0 <= t < 65536) types ->
  exists names, map_res rdtype_to_text types = Ok names /\ names_of types names.
Proof.
  induction 1 as [|t types Ht _ IH]; [exists []; split; [reflexivity|constructor]|].
  destruct IH as (names & E & F). destruct (rdtype_facts t Ht) as (n & E1 & N1 & S1 & R1).
  exists (n :: names). cbn [map_res]. rewrite E1. cbn [bind]. rewrite E. cbn [bind].
  split; [reflexivity|constructor; auto].
Qed.

Lemma names_of_app a b na nb : names_of a na -> names_of b nb -> names_of (a ++ b) (na ++ nb).
Proof. unfold names_of. apply Forall2_app. Qed.

Lemma bitmap_text_shape ws lo : canon_from lo ws -> -1 <= lo ->
  exists names, bitmap_to_text ws = Ok (spaced names) /\ names_of (bitmap_types ws) names.
Proof.
  revert lo. induction ws as [|[w bm] ws IH]; intros lo Hc Hlo; [exists []; split; [reflexivity|constructor]|].
  cbn [canon_from fst] in Hc. destruct Hc as (Hlt & (Hr & Hne & Hl32 & Hb & Hlast) & Hc). cbn [fst snd] in *.
  destruct (IH w Hc ltac:(lia)) as (names2 & E2 & F2).
  destruct (window_types_facts w bm 0) as [_ Hrange].
  assert (Hty : Forall (fun t => 0 <= t < 65536) (window_types w 0 bm)).
  { apply Forall_forall. intros t Ht. specialize (Hrange t Ht). unfold zlen in *. lia. }
  destruct (map_res_names _ Hty) as (names1 & E1 & F1).
  pose proof (window_types_nonempty w bm Hne Hb Hlast 0) as Hwt.
  exists (names1 ++ names2). cbn [bitmap_to_text fst snd]. rewrite E1. cbn [bind]. rewrite E2. cbn [bind]. split.
  - assert (names1 <> []) by (intros ->; inversion F1 as [Hx|]; congruence).
    change (32 :: join_sp names1 ++ spaced names2) with ((32 :: join_sp names1) ++ spaced names2).
    rewrite join_sp_spaced by assumption. unfold spaced. rewrite flat_map_app. reflexivity.
  - cbn [bitmap_types flat_map fst snd]. apply names_of_app; assumption.
Qed.

(* ---------- get_remaining over blank-prefixed words ---------- *)
Definition word_tok (n : list Z) : token := mkTok tIDENT n false None.

Lemma spaced_word_end names rest : line_end rest -> word_end (spaced names ++ rest).
Proof.
  intros Hr. destruct names as [|n names].
  - cbn. destruct Hr as [->|[r ->]]; [left; reflexivity|right; exists 10, r; split; reflexivity].
  - right. exists 32, (n ++ spaced names ++ rest). split; [|reflexivity].
    unfold spaced. cbn [flat_map app]. rewrite <- app_assoc. reflexivity.
Qed.

Lemma grl_words names : Forall (fun n => n <> [] /\ forallb safe n = true) names ->
  forall q rest fuel acc, line_end rest -> (length names < fuel)%nat ->
  exists te st, is_eol_or_eof te = true /\ ungot st = Some te /\
    get_remaining_loop fuel (stq q (spaced names ++ rest)) 0 acc = Ok (rev acc ++ map word_tok names, st).
Proof.
  induction 1 as [|n names [Hne Hs] _ IH]; intros q rest fuel acc Hrest Hfuel.
  - destruct fuel as [|f]; [cbn in Hfuel; lia|].
    destruct (get0_end_q q [] rest eq_refl Hrest) as (t & st & Ht & _ & _ & Hu & E). cbn [app] in E.
    cbn [spaced flat_map app]. rewrite grl_unfold. rewrite E. cbn [bind]. rewrite Ht. unfold unget. rewrite Hu. cbn [bind].
    do 2 eexists. split; [exact Ht|]. split; [|cbn [map]; rewrite app_nil_r; reflexivity]. reflexivity.
  - destruct fuel as [|f]; [cbn in Hfuel; lia|]. cbn [length] in Hfuel.
    unfold spaced. cbn [flat_map]. fold (spaced names).
    replace (((32 :: n) ++ spaced names) ++ rest) with ([32] ++ n ++ (spaced names ++ rest))
      by (cbn [app]; rewrite <- app_assoc; reflexivity).
    rewrite grl_unfold.
    rewrite (get0_word_q q [32] n (spaced names ++ rest) eq_refl (units_safe n Hs) Hne (spaced_word_end names rest Hrest)).
    cbn [bind]. unfold is_eol_or_eof at 1. cbn [ttype]. change (tIDENT =? tEOL) with false. change (tIDENT =? tEOF) with false.
    cbn [orb]. rewrite has_bs_safe by exact Hs.
    destruct (IH false rest f (word_tok n :: acc) Hrest ltac:(lia)) as (te & st & H1 & H2 & E).
    fold (word_tok n). rewrite E. exists te, st. split; [exact H1|]. split; [exact H2|].
    cbn [rev map]. rewrite <- app_assoc. reflexivity.
Qed.

Lemma token_types types names : names_of types names -> Forall (fun t => t <> 0) types ->
  map_res bitmap_token_type (map word_tok names) = Ok types.
Proof.
  intros H. induction H as [|t n types names (Hne & Hs & Hr) _ IH]; intros Hnz; [reflexivity|].
  inversion Hnz; subst. cbn [map map_res]. unfold bitmap_token_type at 1. unfold word_tok at 1. unfold unescape.
  cbn [tesc negb bind tvalue].
  rewrite Hr. cbn [bind]. replace (t =? 0) with false by lia. rewrite IH by assumption. reflexivity.
Qed.

(* the printed types are not 0 when type 0 is not set *)
Lemma bitmap_types_nonzero ws : canon_from (-1) ws -> no_type0 ws -> Forall (fun t => t <> 0) (bitmap_types ws).
Proof.
  intros Hc H0. destruct ws as [|[w bm] ws]; [constructor|].
  cbn [canon_from fst] in Hc. destruct Hc as (Hlt & (Hr & Hne & Hl32 & Hb & Hlast) & Hc). cbn [fst snd] in *.
  cbn [bitmap_types flat_map fst snd]. apply Forall_app. split.
  - destruct (Z.eq_dec w 0) as [->|Hw].
    + destruct bm as [|b bm']; [congruence|]. cbn [no_type0] in H0. specialize (H0 eq_refl).
      cbn [window_types]. apply Forall_app. split.
      * apply Forall_forall. intros t Ht. unfold byte_types in Ht. apply in_flat_map in Ht as (j & Hj & Ht).
        destruct (bit_set b j) eqn:Eb; [|contradiction]. destruct Ht as [<-|[]].
        cbn in Hj. intros E. assert (j = 0) by lia. subst j. congruence.
      * destruct (window_types_facts 0 bm' (0 + 1)) as [_ Hrange]. apply Forall_forall. intros t Ht.
        specialize (Hrange t Ht). lia.
    + destruct (window_types_facts w bm 0) as [_ Hrange]. apply Forall_forall. intros t Ht. specialize (Hrange t Ht). lia.
  - destruct (bitmap_types_sorted ws w Hc) as [_ Hlow]. apply Forall_forall. intros t Ht.
    specialize (Hlow t Ht). lia.
Qed.


(* ---------- NSAP ---------- *)
Lemma hexdigit_not_dot v : 0 <= v < 16 -> (hexdigit v =? 46) = false.
Proof. intros Hv. unfold hexdigit. destruct (v <? 10); lia. Qed.

Lemma hexlify_nsap b : all_bytes b = true ->
  filter (fun c => negb (c =? 46)) (hexlify b) = hexlify b /\ Nat.even (length (hexlify b)) = true.
Proof.
  induction b as [|x b IH]; intros Hb; [split; reflexivity|].
  cbn [all_bytes forallb] in Hb. apply andb_true_iff in Hb as [Hx Hb]. apply is_byte_range in Hx.
  destruct (IH Hb) as [I1 I2]. unfold hexlify in *. cbn [flat_map app filter length].
  rewrite !hexdigit_not_dot by lia. cbn [negb]. rewrite I1. split; [reflexivity|exact I2].
Qed.

Theorem nsap_roundtrip b : all_bytes b = true ->
  nsap_from_text ([48; 120] ++ hexlify b) = Ok b /\ forallb safe ([48; 120] ++ hexlify b) = true.
Proof.
  intros Hb. destruct (hexlify_nsap b Hb) as [F E]. destruct (Proofs.TokHex.hexlify_safe b Hb) as [S A]. split.
  - unfold nsap_from_text. cbn [app]. change (starts_with [48; 120] (48 :: 120 :: hexlify b)) with true.
    cbn [negb skipn]. rewrite F, E. cbn [negb]. rewrite utf8_ascii by exact A. cbn [bind].
    apply Proofs.TokHex.unhexlify_hexlify, Hb.
  - cbn [app forallb]. rewrite S. reflexivity.
Qed.
