(* C19 - refinement, continued: split / adopt / in-order optimisation / insert_nonfull. *)
From DV Require Import Base.Prelude Model.BTreeM Model.BTreeStoreM Proofs.BTreeBase Proofs.BTreeWf Proofs.BTreeStore
  Proofs.BTreeRefine.

Lemma reps_firstn s ids trs fps j : reps s ids trs fps -> reps s (firstn j ids) (firstn j trs) (firstn j fps).
Proof. intros H. revert j. induction H; intros [|j]; cbn; constructor; auto. Qed.

Lemma reps_skipn s ids trs fps j : reps s ids trs fps -> reps s (skipn j ids) (skipn j trs) (skipn j fps).
Proof. intros H. revert j. induction H; intros [|j]; cbn; try constructor; auto. Qed.

Lemma concat_firstn_skipn {A} (l : list (list A)) k : concat l = concat (firstn k l) ++ concat (skipn k l).
Proof. rewrite <- concat_app. now rewrite firstn_skipn. Qed.

Lemma rep_build s id n lf es kids fps :
  nth_error s id = Some n -> s_leaf n = lf -> s_elts n = es -> (lf = true -> s_kids n = []) ->
  reps s (s_kids n) kids fps -> NoDup (id :: concat fps) ->
  rep s id (Node lf es kids) (id :: concat fps).
Proof. intros Hn <- <- Hlk Hr Hnd. now constructor. Qed.

Lemma list_match_ne {A X} (l : list A) (a b : X) : l <> [] -> match l with [] => a | _ :: _ => b end = b.
Proof. destruct l; [contradiction|reflexivity]. Qed.

Section SIM2.
Variable c : nat.
Notation own := (ownc c).

(* ---------------------------------------------------------------- split *)

Lemma split_sim t s id n fp l m r :
  rep s id n fp -> own s id -> split_node t n = Ok (l, m, r) ->
  exists s' fl frr,
    s_split t s id = Ok (s', m, length s) /\
    rep s' id l fl /\ rep s' (length s) r frr /\ NoDup (fl ++ frr) /\
    (forall x, In x (fl ++ frr) -> In x fp \/ x = length s) /\
    fr s s' [id] /\ own s' id /\ own s' (length s) /\ length s' = S (length s).
Proof.
  intros Hr (n0 & Hn0 & Hc0) Hv. destruct n as [lf es ks].
  apply rep_inv in Hr as (nn & fps & Hn & Hl & He & Hks & -> & Hnd & Hlk). assert (n0 = nn) by congruence. subst n0.
  unfold split_node in Hv. rewrite is_maximal_eq in Hv. cbn [n_elts] in Hv.
  destruct (is_maximal_l t (length es)) as [mx| |] eqn:Emx; cbn [bind] in Hv; try discriminate.
  destruct mx; cbn [negb] in Hv; try discriminate.
  destruct (nth_error es (t_min t)) as [mid|] eqn:Emid; try discriminate. inversion Hv; subst l m r. clear Hv.
  unfold s_split. rewrite (sget_some _ _ _ Hn). cbn [bind]. rewrite He, Emx. cbn [bind negb]. unfold alloc.
  rewrite Emid.
  set (rn := mkS (s_cr nn) (s_leaf nn) (skipn (S (t_min t)) es) (if s_leaf nn then [] else skipn (S (t_min t)) (s_kids nn))).
  assert (Hn1 : nth_error (s ++ [rn]) id = Some nn) by (rewrite nth_error_app1; [assumption|apply nth_error_Some; congruence]).
  rewrite (upd_some _ _ _ _ Hn1). cbn [bind].
  set (ln := mkS (s_cr nn) (s_leaf nn) (firstn (t_min t) (s_elts nn)) (if s_leaf nn then s_kids nn else firstn (S (t_min t)) (s_kids nn))).
  set (s' := sset (s ++ [rn]) id ln).
  assert (Hvid : (id < length s)%nat) by (apply nth_error_Some; congruence).
  assert (Hlen1 : length (s ++ [rn]) = S (length s)) by (rewrite app_length; cbn; lia).
  assert (Hid' : nth_error s' id = Some ln) by (unfold s'; apply nth_sset_eq; lia).
  assert (Hrid' : nth_error s' (length s) = Some rn) by (unfold s'; rewrite nth_sset_ne by lia; apply nth_alloc).
  assert (Hfr : fr s s' [id]).
  { split; [unfold s'; rewrite length_sset; lia|]. split.
    - intros x Hx Hni. unfold s'. rewrite nth_sset_ne by (intros ->; apply Hni; now left). now rewrite nth_error_app1.
    - intros x m Hm. destruct (Nat.eq_dec x id) as [->|Hne].
      + exists ln. split; [assumption|]. cbn. congruence.
      + exists m. split; [|reflexivity]. unfold s'. rewrite nth_sset_ne by assumption. rewrite nth_error_app1; [assumption|apply nth_error_Some; congruence]. }
  assert (Hkf : reps s' (s_kids nn) ks fps).
  { eapply reps_fr; [exact Hks|exact Hfr|]. intros x Hx [<-|[]]. apply NoDup_cons_iff' in Hnd as (Hni & _). contradiction. }
  set (k := S (t_min t)).
  exists s', (id :: concat (firstn k fps)), (length s :: concat (skipn k fps)).
  split; [reflexivity|].
  assert (Hlkk : lf = true -> s_kids nn = [] /\ ks = [] /\ fps = []).
  { intros Hlf. destruct (Hlk Hlf) as (H1 & H2). subst ks. rewrite H1 in Hks. apply reps_nil_inv in Hks as (_ & ->). auto. }
  pose proof Hnd as Hnd0. apply NoDup_cons_iff' in Hnd0 as (Hni & Hndk). rewrite (concat_firstn_skipn fps k) in Hni, Hndk.
  apply NoDup_app_iff in Hndk as (Hnf & Hns & Hdfs).
  assert (Hval : forall x, In x (concat fps) -> (x < length s)%nat) by (eapply reps_valid; eauto).
  split; [|split; [|split; [|split; [|split; [assumption|split; [|split]]]]]].
  - (* the left half stays in the old node *)
    apply (rep_build s' id ln); [exact Hid'|exact Hl|cbn; now rewrite He| | |].
    + cbn [s_kids ln]. intros Hlf. rewrite Hl, Hlf. now destruct (Hlkk Hlf).
    + cbn [s_kids ln]. rewrite Hl. destruct lf.
      * destruct (Hlkk eq_refl) as (H1 & H2 & H3). subst ks fps. rewrite ?H1, ?firstn_nil. constructor.
      * exact (reps_firstn _ _ _ _ k Hkf).
    + apply NoDup_cons_iff'. split; [|assumption]. intros Hi. apply Hni. apply in_app_iff. now left.
  - (* the right half in the new node *)
    apply (rep_build s' (length s) rn); [exact Hrid'|exact Hl|reflexivity| | |].
    + cbn [s_kids rn]. intros Hlf. rewrite Hl, Hlf. reflexivity.
    + cbn [s_kids rn]. rewrite Hl. destruct lf.
      * destruct (Hlkk eq_refl) as (H1 & H2 & H3). subst ks fps. rewrite ?H1, ?skipn_nil. constructor.
      * exact (reps_skipn _ _ _ _ k Hkf).
    + apply NoDup_cons_iff'. split; [|assumption]. intros Hi. assert (length s < length s)%nat; [|lia].
      apply Hval. rewrite (concat_firstn_skipn fps k). apply in_app_iff. now right.
  - (* disjoint *)
    change ((id :: concat (firstn k fps)) ++ length s :: concat (skipn k fps)) with (id :: (concat (firstn k fps) ++ length s :: concat (skipn k fps))).
    apply NoDup_cons_iff'. split.
    + intros Hi. apply in_app_iff in Hi as [Hi|[Hi|Hi]]; [apply Hni; apply in_app_iff; now left|lia|apply Hni; apply in_app_iff; now right].
    + apply NoDup_app_iff. split; [assumption|]. split.
      * apply NoDup_cons_iff'. split; [|assumption]. intros Hi. assert (length s < length s)%nat; [|lia].
        apply Hval. rewrite (concat_firstn_skipn fps k). apply in_app_iff. now right.
      * intros x Hx [Hx2|Hx2]; [subst x; assert (length s < length s)%nat; [|lia]; apply Hval; rewrite (concat_firstn_skipn fps k); apply in_app_iff; now left|apply (Hdfs x Hx Hx2)].
  - intros x Hx. apply in_app_iff in Hx as [[<-|Hx]|[<-|Hx]]; [left; now left|left; right; rewrite (concat_firstn_skipn fps k); apply in_app_iff; now left|now right|left; right; rewrite (concat_firstn_skipn fps k); apply in_app_iff; now right].
  - exists ln. split; [assumption|cbn; assumption].
  - exists rn. split; [assumption|cbn; assumption].
  - unfold s'. rewrite length_sset. assumption.
Qed.

(* ---------------------------------------------------------------- in-order optimisation *)

Lemma kid_root s pid p fp i k ka ck kb :
  rep s pid p fp -> kid_at s pid i k -> split_at i (n_kids p) = Ok (ka, ck, kb) ->
  exists nk fk, nth_error s k = Some nk /\ s_elts nk = n_elts ck /\ s_leaf nk = n_leaf ck /\ rep s k ck fk.
Proof.
  intros Hr (n & Hn & Hk) Hsp. destruct p as [lf es ks]. cbn [n_kids] in Hsp. apply split_at_inv in Hsp as (-> & Hi).
  apply rep_inv in Hr as (n0 & fps & Hn0 & _ & _ & Hks & _). assert (n0 = n) by congruence. subst n0.
  apply reps_mid in Hks as (ia & cid & ib & fa & fc & fb & Hids & -> & Hra & Hrc & Hrb & Lia & Lfa).
  rewrite Hids in Hk. rewrite <- Hi, <- Lia, nth_error_app_mid in Hk. inversion Hk; subst cid.
  destruct ck as [clf ces cks]. destruct (rep_root _ _ _ _ _ _ Hrc) as (nk & Hnk & Hl & He). exists nk, fc. cbn. auto.
Qed.

Lemma opt_loop_sim t : forall fuel s pid p fp lid li p',
  rep s pid p fp -> own s pid -> own s lid -> kid_at s pid li lid ->
  opt_loop fuel t p li = Ok p' ->
  exists s' fp', s_opt_loop fuel t s lid pid li = Ok s' /\ rep s' pid p' fp' /\ sub s fp fp' /\ fr s s' fp /\ own s' pid.
Proof.
  induction fuel as [|f IH]; intros s pid p fp lid li p' Hr Hop Hol Hk Hv; [discriminate|].
  cbn [opt_loop] in Hv. cbn [s_opt_loop].
  destruct (split_at li (n_kids p)) as [((ka & lft) & kb)| |] eqn:Esp; cbn [bind] in Hv; try discriminate.
  destruct (kid_root _ _ _ _ _ _ _ _ _ Hr Hk Esp) as (nl & fk & Hnl & Hel & Hll & _).
  rewrite (sget_some _ _ _ Hnl). cbn [bind]. rewrite Hel.
  destruct (length (n_elts lft) <? t_max t)%nat.
  - destruct (try_right_steal t p li) as [(p1 & ok)| |] eqn:E; cbn [bind] in Hv; try discriminate.
    destruct (right_steal_sim c t s pid p fp lid li p1 ok Hr Hop Hol Hk E) as (s1 & fp1 & Hs1 & Hr1 & Hsub1 & Hfr1 & Hop1 & Hol1 & Hk1).
    rewrite Hs1. cbn [bind]. destruct ok.
    + destruct (IH s1 pid p1 fp1 lid li p' Hr1 Hop1 Hol1 Hk1 Hv) as (s2 & fp2 & Hs2 & Hr2 & Hsub2 & Hfr2 & Hop2).
      destruct (fr_step _ _ _ _ _ _ Hfr1 Hsub1 Hfr2 Hsub2). exists s2, fp2. auto.
    + inversion Hv; subst p'. exists s1, fp1. auto.
  - inversion Hv; subst p'. exists s, fp. split; [reflexivity|]. split; [assumption|]. split; [apply sub_refl|]. split; [apply fr_refl|assumption].
Qed.

Lemma optimize_sim t s pid p fp index p' :
  rep s pid p fp -> own s pid ->
  optimize_in_order_insertion t p index = Ok p' ->
  exists s' fp', s_optimize t s pid index = Ok s' /\ rep s' pid p' fp' /\ sub s fp fp' /\ fr s s' fp /\ own s' pid.
Proof.
  intros Hr Hop Hv. unfold optimize_in_order_insertion in Hv. unfold s_optimize.
  destruct index as [|li].
  { inversion Hv; subst p'. exists s, fp. split; [reflexivity|]. split; [assumption|]. split; [apply sub_refl|]. split; [apply fr_refl|assumption]. }
  destruct (split_at li (n_kids p)) as [((ka & lft) & kb)| |] eqn:Esp; cbn [bind] in Hv; try discriminate.
  destruct p as [plf pes pks]. cbn [n_kids] in Esp. pose proof Esp as Esp0. apply split_at_inv in Esp as (-> & Hka).
  destruct (rep_open _ _ _ _ _ _ _ _ _ Hr Hop) as (ia & lid0 & ib & fa & fl0 & fb & Hopen & -> & ->).
  pose proof Hopen as (n & Hn & Hcn & Hln & Hen & Hkn & Hra & Hrl0 & Hrb & Hlia & Hnd).
  rewrite (sget_some _ _ _ Hn). cbn [bind]. rewrite Hkn. rewrite split_at_app by congruence. cbn [bind].
  destruct lft as [llf les lks]. destruct (rep_root _ _ _ _ _ _ Hrl0) as (l0 & Hl0 & Hll0 & Hel0).
  rewrite (sget_some _ _ _ Hl0). cbn [bind]. rewrite Hel0. cbn [n_elts] in Hv.
  destruct (length les =? t_max t)%nat.
  { inversion Hv; subst p'. exists s, (pid :: concat (fa ++ fl0 :: fb)). split; [reflexivity|]. split; [assumption|]. split; [apply sub_refl|]. split; [apply fr_refl|assumption]. }
  destruct (cow_child_ok _ _ _ _ _ _ _ _ _ Hr Hka) as (s1 & lid & Ecow). rewrite Ecow. cbn [bind].
  destruct (cow_child_sim _ _ _ _ _ _ _ _ _ _ _ _ Hr Hka Hop Ecow)
    as (n1 & ia1 & ib1 & fa1 & fl & fb1 & Hn1 & Hcn1 & Hln1 & Hen1 & Hkn1 & Hra1 & Hrl & Hrb1 & Hlia1 & Hnd1 & Hol & Hfr1 & Hsub1 & Hoth).
  assert (Hopen1 : opened c s1 pid pes ia1 lid ib1 ka (Node llf les lks) kb fa1 fl fb1).
  { exists n1. repeat split; try assumption. congruence. }
  destruct (opened_close _ _ _ _ _ _ _ _ _ _ _ _ _ Hopen1) as (Hr1 & Hop1).
  assert (Hk1 : kid_at s1 pid li lid).
  { exists n1. split; [assumption|]. rewrite Hkn1, <- Hlia1. apply nth_error_app_mid. }
  destruct (opt_loop_sim t _ s1 pid _ _ lid li p' Hr1 Hop1 Hol Hk1 Hv) as (s2 & fp2 & Hs2 & Hr2 & Hsub2 & Hfr2 & Hop2).
  rewrite Hs2.
  assert (Hfr1' : fr s s1 (pid :: concat (fa ++ fl0 :: fb))) by (eapply fr_weaken; [exact Hfr1|]; intros x [<-|[]]; now left).
  destruct (fr_step _ _ _ _ _ _ Hfr1' Hsub1 Hfr2 Hsub2). exists s2, fp2. auto.
Qed.

(* ---------------------------------------------------------------- insert_nonfull *)

Definition rec_sim (rec : tree -> res (tree * option elt)) (srec : store -> nat -> res (store * option elt)) : Prop :=
  forall s cid ck fc ck' o, rep s cid ck fc -> own s cid -> rec ck = Ok (ck', o) ->
    exists s' fc', srec s cid = Ok (s', o) /\ rep s' cid ck' fc' /\ sub s fc fc' /\ fr s s' fc /\ own s' cid.

Definition again_sim (again : tree -> res (tree * option elt)) (sagain : store -> res (store * option elt)) (id : nat) : Prop :=
  forall s n fp n' o, rep s id n fp -> own s id -> again n = Ok (n', o) ->
    exists s' fp', sagain s = Ok (s', o) /\ rep s' id n' fp' /\ sub s fp fp' /\ fr s s' fp /\ own s' id.

Lemma write_elts_sim s id lf es kids fp n es' :
  rep s id (Node lf es kids) fp -> nth_error s id = Some n -> own s id ->
  rep (sset s id (w_elts n es')) id (Node lf es' kids) fp /\ fr s (sset s id (w_elts n es')) fp /\
  own (sset s id (w_elts n es')) id.
Proof.
  intros Hr Hn (n0 & Hn0 & Hc0). assert (n0 = n) by congruence. subst n0.
  split; [|split].
  - apply (rep_write_root s id lf es kids fp n (w_elts n es')); auto.
  - eapply fr_weaken; [apply (sset_fr s id n (w_elts n es')); auto|]. intros x [<-|[]]. eapply rep_root_in; eauto.
  - exists (w_elts n es'). split; [|cbn; assumption]. apply nth_sset_eq. apply nth_error_Some. congruence.
Qed.

Lemma ins_iter_sim t io rec again srec sagain s id n fp e n' o :
  rec_sim rec srec -> again_sim again sagain id -> rep s id n fp -> own s id ->
  ins_iter t io rec again n e = Ok (n', o) ->
  exists s' fp', s_ins_iter t io srec sagain s id e = Ok (s', o) /\
     rep s' id n' fp' /\ sub s fp fp' /\ fr s s' fp /\ own s' id.
Proof.
  intros Hrec Hagain Hr Hop Hv. destruct n as [lf es ks]. unfold ins_iter in Hv. unfold s_ins_iter.
  destruct (rep_root _ _ _ _ _ _ Hr) as (nn & Hnn & Hl & He).
  rewrite (sget_some _ _ _ Hnn). cbn [bind]. rewrite He.
  destruct (search (fst e) es) as [(i & eq)| |] eqn:Es; cbn [bind] in Hv |- *; try discriminate.
  destruct eq.
  { destruct (split_at i es) as [((a & old) & b)| |]; cbn [bind] in Hv |- *; try discriminate.
    inversion Hv; subst n' o. destruct (write_elts_sim s id lf es ks fp nn (a ++ e :: b) Hr Hnn Hop) as (H1 & H2 & H3).
    eexists _, fp. split; [reflexivity|]. split; [assumption|]. split; [apply sub_refl|]. auto. }
  rewrite Hl. destruct lf.
  { inversion Hv; subst n' o. destruct (write_elts_sim s id true es ks fp nn (insert_at i e es) Hr Hnn Hop) as (H1 & H2 & H3).
    eexists _, fp. split; [reflexivity|]. split; [assumption|]. split; [apply sub_refl|]. auto. }
  destruct (split_at i ks) as [((ka & child) & kb)| |] eqn:Esp; cbn [bind] in Hv; try discriminate.
  apply split_at_inv in Esp as (-> & Hka). subst i.
  destruct (cow_child_ok _ _ _ _ _ _ _ _ _ Hr eq_refl) as (s1 & cid & Ecow). rewrite Ecow. cbn [bind].
  destruct (cow_child_sim _ _ _ _ _ _ _ _ _ _ _ _ Hr eq_refl Hop Ecow)
    as (n1 & ia & ib & fa & fc & fb & Hn1 & Hcn1 & Hln1 & Hen1 & Hkn1 & Hra & Hrc & Hrb & Hlia & Hnd1 & Hoc & Hfr1 & Hsub1 & _).
  assert (Hopen1 : opened c s1 id es ia cid ib ka child kb fa fc fb).
  { exists n1. repeat split; try assumption; try congruence. }
  assert (Hfr1' : fr s s1 fp) by (eapply fr_weaken; [exact Hfr1|]; intros x [<-|[]]; eapply rep_root_in; eauto).
  destruct child as [clf ces cks]. destruct (rep_root _ _ _ _ _ _ Hrc) as (cn & Hcnn & Hcl & Hce).
  rewrite (sget_some _ _ _ Hcnn). cbn [bind]. rewrite Hce. rewrite is_maximal_eq in Hv. cbn [n_elts] in Hv.
  destruct (is_maximal_l t (length ces)) as [mx| |]; cbn [bind] in Hv |- *; try discriminate.
  destruct mx.
  - (* split the full child, adopt the two halves, go round the loop once more *)
    destruct (split_node t (Node clf ces cks)) as [((l & m) & r)| |] eqn:Espl; cbn [bind] in Hv; try discriminate.
    destruct (split_sim t s1 cid _ fc l m r Hrc Hoc Espl) as (s2 & fl & frr & Hs2 & Hrl & Hrr & Hndlr & Hinlr & Hfr2 & Hoc2 & Hor2 & Hlen2).
    rewrite Hs2. cbn [bind].
    destruct (adopt t (Node false es (ka ++ l :: kb)) l m r (length ka)) as [n1'| |] eqn:Ead; cbn [bind] in Hv; try discriminate.
    (* the parent node is untouched by the split *)
    pose proof (opened_valid _ _ _ _ _ _ _ _ _ _ _ _ _ Hopen1) as Hval1.
    assert (Hflat : NoDup (id :: concat fa ++ fc ++ concat fb)) by (rewrite concat_mid in Hnd1; exact Hnd1).
    apply NoDup_cons_iff' in Hflat as (Hidn & Hflat). apply NoDup_app_iff in Hflat as (Hnfa & Hncb & Hdab). apply NoDup_app_iff in Hncb as (Hnfc & Hnfb & Hdcb).
    assert (Hidc : id <> cid).
    { intros ->. apply Hidn. rewrite !in_app_iff. right. left. eapply rep_root_in; eauto. }
    assert (Hn1_2 : nth_error s2 id = Some n1).
    { destruct Hfr2 as (_ & F & _). rewrite F; [assumption|apply Hval1; now left|]. intros [Hx|[]]. congruence. }
    unfold adopt in Ead. rewrite is_maximal_eq in Ead. cbn [n_elts] in Ead.
    unfold s_adopt. rewrite (sget_some _ _ _ Hn1_2). cbn [bind]. rewrite Hen1.
    destruct (is_maximal_l t (length es)) as [mx| |]; cbn [bind] in Ead |- *; try discriminate.
    destruct mx; try discriminate. rewrite Hln1.
    destruct (search (fst m) es) as [(i' & eq')| |]; cbn [bind] in Ead |- *; try discriminate.
    destruct eq'; try discriminate.
    destruct (ka ++ l :: kb) as [|k0 krest] eqn:Ekl; [destruct ka; discriminate|]. rewrite <- Ekl in Ead. clear Ekl k0 krest.
    destruct (nth_error (ka ++ l :: kb) i') eqn:Enk; try discriminate.
    destruct (Nat.eqb_spec i' (length ka)) as [->|Hne]; try discriminate. inversion Ead; subst n1'. clear Ead.
    rewrite Hkn1. rewrite list_match_ne by (destruct ia; discriminate).
    rewrite (nth_error_app_mid' ia cid ib (length ka) Hlia). rewrite Nat.eqb_refl.
    set (nd := mkS (s_cr n1) false (insert_at (length ka) m es) (insert_at (S (length ka)) (length s1) (ia ++ cid :: ib))).
    set (s3 := sset s2 id nd).
    assert (Hvid2 : (id < length s2)%nat) by (apply nth_error_Some; congruence).
    assert (Hfr3 : fr s2 s3 [id]) by (apply (sset_fr s2 id n1 nd Hn1_2); reflexivity).
    (* the new representation *)
    assert (Hkids : insert_at (S (length ka)) (length s1) (ia ++ cid :: ib) = ia ++ cid :: length s1 :: ib).
    { replace (ia ++ cid :: ib) with ((ia ++ [cid]) ++ ib) by (now rewrite <- app_assoc).
      rewrite insert_at_app by (rewrite app_length; cbn; lia). now rewrite <- app_assoc. }
    assert (Htrees : insert_at (S (length ka)) r (ka ++ l :: kb) = ka ++ l :: r :: kb).
    { replace (ka ++ l :: kb) with ((ka ++ [l]) ++ kb) by (now rewrite <- app_assoc).
      rewrite insert_at_app by (rewrite app_length; cbn; lia). now rewrite <- app_assoc. }
    rewrite Htrees in Hv.
    assert (Hnew : forall x, In x (fl ++ frr) -> (In x fc \/ x = length s1)) by exact Hinlr.
    assert (Hcc : concat (fa ++ fl :: frr :: fb) = concat (fa ++ (fl ++ frr) :: fb)).
    { rewrite !concat_mid. cbn [concat]. now rewrite <- app_assoc. }
    assert (Hnd3 : NoDup (id :: concat (fa ++ fl :: frr :: fb))).
    { rewrite Hcc. eapply (nodup_replace s1 id fa fc (fl ++ frr) fb); [exact Hnd1|exact Hndlr| |exact Hval1].
      intros x Hx. destruct (Hnew x Hx) as [Hq|Hq]; [now left|right; lia]. }
    assert (Hr3 : rep s3 id (Node false (insert_at (length ka) m es) (ka ++ l :: r :: kb)) (id :: concat (fa ++ fl :: frr :: fb))).
    { apply (rep_build s3 id nd); [unfold s3; now apply nth_sset_eq|reflexivity|reflexivity|discriminate| |exact Hnd3].
      cbn [s_kids nd]. rewrite Hkids.
      assert (Hidnot : forall x, In x (concat (fa ++ fl :: frr :: fb)) -> ~ In x [id]).
      { intros x Hx [<-|[]]. apply NoDup_cons_iff' in Hnd3 as (Hq & _). contradiction. }
      apply reps_app.
      - eapply reps_fr; [eapply reps_fr; [exact Hra|exact Hfr2|]|exact Hfr3|].
        + intros x Hx [<-|[]]. apply (Hdab cid Hx). apply in_app_iff. left. eapply rep_root_in; eauto.
        + intros x Hx. apply Hidnot. rewrite concat_mid, in_app_iff. tauto.
      - constructor; [|constructor].
        + eapply rep_fr; [exact Hrl|exact Hfr3|]. intros x Hx. apply Hidnot. rewrite concat_mid, !in_app_iff. tauto.
        + eapply rep_fr; [exact Hrr|exact Hfr3|]. intros x Hx. apply Hidnot. rewrite concat_mid. cbn [concat]. rewrite !in_app_iff. tauto.
        + eapply reps_fr; [eapply reps_fr; [exact Hrb|exact Hfr2|]|exact Hfr3|].
          * intros x Hx [<-|[]]. apply (Hdcb cid); [eapply rep_root_in; eauto|assumption].
          * intros x Hx. apply Hidnot. rewrite concat_mid. cbn [concat]. rewrite !in_app_iff. tauto. }
    assert (Hop3 : own s3 id) by (exists nd; split; [unfold s3; now apply nth_sset_eq|cbn; assumption]).
    destruct (Hagain s3 _ _ n' o Hr3 Hop3 Hv) as (s4 & fp4 & Hs4 & Hr4 & Hsub4 & Hfr4 & Hop4).
    exists s4, fp4. split; [exact Hs4|]. split; [assumption|].
    (* frames *)
    assert (Hsub13 : sub s1 (id :: concat (fa ++ fc :: fb)) (id :: concat (fa ++ fl :: frr :: fb))).
    { intros x [<-|Hx]; [left; now left|]. rewrite concat_mid in Hx. cbn [concat] in Hx. rewrite !in_app_iff in Hx.
      destruct Hx as [Hx|[Hx|[Hx|Hx]]].
      - left. right. rewrite concat_mid, !in_app_iff. tauto.
      - destruct (Hnew x) as [Hq|Hq]; [apply in_app_iff; now left|left; right; rewrite concat_mid, !in_app_iff; tauto|right; lia].
      - destruct (Hnew x) as [Hq|Hq]; [apply in_app_iff; now right|left; right; rewrite concat_mid, !in_app_iff; tauto|right; lia].
      - left. right. rewrite concat_mid, !in_app_iff. tauto. }
    assert (Hfr13 : fr s1 s3 (id :: concat (fa ++ fc :: fb))).
    { eapply fr_trans; [eapply fr_weaken; [exact Hfr2|]|apply sub_refl|eapply fr_weaken; [exact Hfr3|]].
      - intros x [<-|[]]. right. rewrite concat_mid, !in_app_iff. right. left. eapply rep_root_in; eauto.
      - intros x [<-|[]]. now left. }
    destruct (fr_step _ _ _ _ _ _ Hfr1' Hsub1 Hfr13 Hsub13) as (Hfr03 & Hsub03).
    destruct (fr_step _ _ _ _ _ _ Hfr03 Hsub03 Hfr4 Hsub4) as (Hfr04 & Hsub04). auto.
  - (* descend *)
    destruct (rec (Node clf ces cks)) as [(c' & o')| |] eqn:Erec; cbn [bind] in Hv; try discriminate.
    destruct (Hrec s1 cid _ fc c' o' Hrc Hoc Erec) as (s2 & fc' & Hs2 & Hrc' & Hsubc & Hfrc & Hoc').
    rewrite Hs2. cbn [bind].
    destruct (child_step _ _ _ _ _ _ _ _ _ _ _ _ _ _ _ _ Hopen1 Hrc' Hfrc Hsubc) as (Hopen2 & Hsub12).
    destruct (opened_close _ _ _ _ _ _ _ _ _ _ _ _ _ Hopen2) as (Hr2 & Hop2).
    assert (Hfr12 : fr s1 s2 (id :: concat (fa ++ fc :: fb))).
    { eapply fr_weaken; [exact Hfrc|]. intros x Hx. right. rewrite concat_mid, !in_app_iff. tauto. }
    destruct (fr_step _ _ _ _ _ _ Hfr1' Hsub1 Hfr12 Hsub12) as (Hfr02 & Hsub02).
    destruct io.
    + destruct (optimize_in_order_insertion t (Node false es (ka ++ c' :: kb)) (length ka)) as [n''| |] eqn:Eopt; cbn [bind] in Hv; try discriminate.
      inversion Hv; subst n' o.
      destruct (optimize_sim t s2 id _ _ (length ka) n'' Hr2 Hop2 Eopt) as (s3 & fp3 & Hs3 & Hr3 & Hsub3 & Hfr3 & Hop3).
      rewrite Hs3. cbn [bind]. destruct (fr_step _ _ _ _ _ _ Hfr02 Hsub02 Hfr3 Hsub3). exists s3, fp3. auto.
    + inversion Hv; subst n' o. exists s2, (id :: concat (fa ++ fc' :: fb)). auto.
Qed.

Lemma ins_sim t io e : forall fuel, rec_sim (fun n => ins t fuel io n e) (fun s id => s_ins t fuel io s id e).
Proof.
  induction fuel as [|f IH]; intros s id n fp n' o Hr Hop Hv; [discriminate|].
  cbn [ins] in Hv. cbn [s_ins].
  destruct n as [lf es ks]. destruct (rep_root _ _ _ _ _ _ Hr) as (nn & Hnn & Hl & He).
  rewrite (sget_some _ _ _ Hnn). cbn [bind]. rewrite He. rewrite is_maximal_eq in Hv. cbn [n_elts] in Hv.
  destruct (is_maximal_l t (length es)) as [mx| |]; cbn [bind] in Hv |- *; try discriminate.
  destruct mx; try discriminate.
  eapply (ins_iter_sim t io _ _ (fun s c => s_ins t f io s c e)); [exact IH| |exact Hr|exact Hop|exact Hv].
  intros s1 n1 fp1 n1' o1 Hr1 Hop1 Hv1.
  eapply (ins_iter_sim t io _ _ (fun s c => s_ins t f io s c e)); [exact IH| |exact Hr1|exact Hop1|exact Hv1].
  intros ? ? ? ? ? _ _ Hd. discriminate.
Qed.

End SIM2.
