(* Facts about the canonical name order used by the NSEC chain and ZONEMD proofs:
   sorted(names), subtrees are contiguous intervals of the canonical order. *)
From Coq Require Import Permutation Sorted.
From DV Require Import Base.Prelude Model.NameM Model.DnssecM.
From DV Require Import Proofs.NameOrder Proofs.NameValid Proofs.NameRel Proofs.DnssecRef Proofs.DnssecSort.
Open Scope Z_scope.

Definition name_le (a b : name) : Prop := order a b <= 0.

Lemma name_lt_le a b : name_lt a b = true -> name_le a b.
Proof. unfold name_lt, name_le. lia. Qed.
Lemma name_nlt_ge a b : name_lt a b = false -> name_le b a.
Proof.
  unfold name_lt, name_le. intros H. assert (order a b >= 0) by lia.
  destruct (Z.eq_dec (order a b) 0) as [E|E].
  - apply eq_iff_ci in E. assert (ci_equal b a) by (unfold ci_equal in *; congruence).
    apply eq_iff_ci in H1. lia.
  - assert (order a b > 0) by lia. apply order_antisym_lt in H1. lia.
Qed.
Lemma name_le_trans a b c : name_le a b -> name_le b c -> name_le a c.
Proof. apply order_trans. Qed.

Lemma sort_names_perm l : Permutation l (sort_names l).
Proof. exact (py_sorted_perm name_lt name_le name_lt_le name_nlt_ge name_le_trans l). Qed.
Lemma sort_names_sorted l : StronglySorted name_le (sort_names l).
Proof. exact (py_sorted_sorted name_lt name_le name_lt_le name_nlt_ge name_le_trans l). Qed.

(* keys of a dict of names: no two entries are equal as names *)
Definition ci_distinct (l : list name) : Prop :=
  NoDup l /\ forall x y, In x l -> In y l -> ci_equal x y -> x = y.

Lemma ci_distinct_perm l l' : Permutation l l' -> ci_distinct l -> ci_distinct l'.
Proof.
  intros P [N D]. split; [eapply Permutation_NoDup; eauto|].
  intros x y Hx Hy. apply D; eapply Permutation_in; try apply Permutation_sym; eauto.
Qed.

(* the canonical order of pairwise distinct names is unique *)
Lemma sorted_names_unique : forall l1 l2,
  ci_distinct l1 -> StronglySorted name_le l1 -> StronglySorted name_le l2 -> Permutation l1 l2 -> l1 = l2.
Proof.
  induction l1 as [|x r IH]; intros l2 D S1 S2 P.
  - apply Permutation_nil in P. now subst.
  - destruct l2 as [|y r2]; [apply Permutation_sym, Permutation_nil in P; discriminate|].
    inversion S1 as [|? ? Sr Hx]; subst. inversion S2 as [|? ? Sr2 Hy]; subst.
    assert (x = y).
    { assert (In x (y :: r2)) as [->|Hin] by (eapply Permutation_in; [exact P|now left]); [reflexivity|].
      assert (In y (x :: r)) as [->|Hin2] by (eapply Permutation_in; [symmetry; exact P|now left]); [reflexivity|].
      rewrite Forall_forall in Hx, Hy. destruct D as [_ D]. apply D; [now left|now right|].
      apply order_antisym_le; [apply Hx|apply Hy]; assumption. }
    subst y. f_equal. apply IH; auto.
    + destruct D as [N D]. inversion N; subst. split; [assumption|]. intros a b Ha Hb. apply D; now right.
    + eapply Permutation_cons_inv; eauto.
Qed.

(* ---------- subdomain = key prefix ---------- *)
Lemma ci_key_length n : length (ci_key n) = length n.
Proof. unfold ci_key. now rewrite rev_length, map_length. Qed.

Lemma is_subdomain_key a d :
  is_subdomain a d = true <-> is_absolute a = is_absolute d /\ exists q, ci_key a = ci_key d ++ q.
Proof.
  rewrite is_subdomain_iff, <- common_suffix_full. unfold common_suffix.
  rewrite <- (ci_key_length d), lcp_full_r. reflexivity.
Qed.

Lemma is_subdomain_trans a b c : is_subdomain a b = true -> is_subdomain b c = true -> is_subdomain a c = true.
Proof.
  rewrite !is_subdomain_key. intros (E1 & q1 & K1) (E2 & q2 & K2). split; [congruence|].
  exists (q2 ++ q1). rewrite K1, K2. now rewrite app_assoc.
Qed.

Lemma is_subdomain_refl a : is_subdomain a a = true.
Proof. apply is_subdomain_key. split; [reflexivity|]. exists []. now rewrite app_nil_r. Qed.

(* ---------- lexicographic order and prefixes ---------- *)
Lemma lex_prefix_between : forall (kd kx q : list label),
  lex cmp_bytes kd kx <> Gt -> lex cmp_bytes kx (kd ++ q) <> Gt -> exists q', kx = kd ++ q'.
Proof.
  induction kd as [|h t IH]; intros kx q H1 H2; [exists kx; reflexivity|].
  destruct kx as [|y kx]; [cbn in H1; congruence|].
  cbn [lex app] in H1, H2. rewrite (cmp_bytes_anti h y) in H2.
  destruct (cmp_bytes h y) eqn:E; cbn in H2; try congruence.
  apply cmp_bytes_eq in E. subst y. destruct (IH kx q H1 H2) as [q' ->]. exists q'. reflexivity.
Qed.

Lemma lex_prefix_le : forall (k q : list label), lex cmp_bytes k (k ++ q) <> Gt.
Proof.
  induction k as [|h t IH]; intros q; cbn [lex app]; [destruct q; discriminate|].
  rewrite cmp_bytes_refl. apply IH.
Qed.

Lemma lex_prefix_lt : forall (k q : list label), q <> [] -> lex cmp_bytes k (k ++ q) = Lt.
Proof.
  induction k as [|h t IH]; intros q Hq; cbn [lex app]; [destruct q; congruence|].
  rewrite cmp_bytes_refl. now apply IH.
Qed.

Lemma name_le_cmp a b : name_le a b <-> canon_cmp a b <> Gt.
Proof. unfold name_le. rewrite <- order_spec. rewrite Z.compare_gt_iff. lia. Qed.

Lemma canon_cmp_same_abs a b :
  is_absolute a = is_absolute b -> canon_cmp a b = lex cmp_bytes (ci_key a) (ci_key b).
Proof. intros E. unfold canon_cmp. rewrite E. destruct (is_absolute b); reflexivity. Qed.

(* the names at or below d form an interval of the canonical order *)
Lemma subtree_contiguous d x a :
  is_absolute d = is_absolute x -> is_absolute x = is_absolute a ->
  name_le d x -> name_le x a -> is_subdomain a d = true -> is_subdomain x d = true.
Proof.
  intros E1 E2 H1 H2 Hs. apply is_subdomain_key in Hs as (_ & q & K).
  apply name_le_cmp in H1, H2. rewrite canon_cmp_same_abs in H1, H2 by assumption.
  rewrite K in H2. destruct (lex_prefix_between _ _ _ H1 H2) as [q' K'].
  apply is_subdomain_key. split; [congruence|]. now exists q'.
Qed.

(* an ancestor sorts before (or is equal to) its descendants; a proper one strictly before *)
Lemma ancestor_le a d : is_subdomain a d = true -> name_le d a.
Proof.
  intros Hs. apply is_subdomain_key in Hs as (E & q & K).
  apply name_le_cmp. rewrite canon_cmp_same_abs by congruence. rewrite K. apply lex_prefix_le.
Qed.

Lemma proper_ancestor_lt a d : is_subdomain a d = true -> name_eqb d a = false -> order d a < 0.
Proof.
  intros Hs Hne. apply is_subdomain_key in Hs as (E & q & K).
  apply order_lt. rewrite canon_cmp_same_abs by congruence. rewrite K. apply lex_prefix_lt.
  intros ->. rewrite app_nil_r in K.
  assert (ci_equal d a) by (apply ci_key_eq; congruence).
  apply name_eqb_iff_ci in H. congruence.
Qed.

(* the empty (relative) name is the least name *)
Lemma name_le_nil x : is_absolute x = false -> name_le x [] -> x = [].
Proof.
  intros E H. apply name_le_cmp in H. rewrite canon_cmp_same_abs in H by (rewrite E; reflexivity).
  unfold ci_key in H at 2. cbn in H. destruct (ci_key x) eqn:K; [|cbn in H; congruence].
  apply (f_equal (@length _)) in K. rewrite ci_key_length in K. destruct x; [reflexivity|discriminate].
Qed.

(* sortedness of an append *)
Lemma sorted_app_inv {A} (le : A -> A -> Prop) : forall l1 l2,
  StronglySorted le (l1 ++ l2) ->
  StronglySorted le l1 /\ StronglySorted le l2 /\ forall x y, In x l1 -> In y l2 -> le x y.
Proof.
  induction l1 as [|a l1 IH]; intros l2 H; cbn [app] in H.
  - repeat split; [constructor|exact H|intros x y []].
  - inversion H as [|? ? Hs Ha]; subst. destruct (IH l2 Hs) as (S1 & S2 & C).
    apply Forall_app in Ha as [Ha1 Ha2]. repeat split; [constructor; assumption|exact S2|].
    intros x y [<-|Hx] Hy; [rewrite Forall_forall in Ha2; now apply Ha2|now apply C].
Qed.
