(* C17 - "never serve an answer at or after its expiration time", tied to how the expiration is
   derived from the response message and the clock:
     Answer.expiration = (clock reading when the Answer is built) + minimum_ttl,
     minimum_ttl = QueryMessage.resolve_chaining (Model/ResolM.v; chain_spec of property C16).
   So whatever a cache lookup returns is younger than the TTL of every CNAME RRset followed, of
   the answer RRset, and - for a negative answer - than the TTL and the MINIMUM of the enclosing
   SOA. *)
From DV Require Import Base.Prelude Model.NameM.
From DV Require Model.ResolM Proofs.ResolChain.
From DV Require Import Model.CacheM Model.CacheAnsM Proofs.CacheBasic.

Import ResolM.

Lemma min_over_le_base : forall p base, ResolChain.min_over base p <= base.
Proof.
  unfold ResolChain.min_over. induction p as [|c p IH]; intros base; cbn; [lia|].
  specialize (IH (Z.min base (rs_ttl c))). lia.
Qed.

Lemma min_over_le_in : forall p base c, In c p -> ResolChain.min_over base p <= rs_ttl c.
Proof.
  unfold ResolChain.min_over. induction p as [|x p IH]; intros base c H; [destruct H|]. cbn.
  destruct H as [->|H].
  - pose proof (min_over_le_base p (Z.min base (rs_ttl c))) as L. unfold ResolChain.min_over in L. lia.
  - apply IH. exact H.
Qed.

(* the lifetime bound of an answer built from message m at clock reading t *)
Definition within_record_lifetimes (m : msg) (t : Z) (limit : Z) : Prop :=
  exists ch q,
    resolve_chaining m = Ok ch /\ m_question m = [q] /\
    limit <= t + ch_min_ttl ch /\
    limit <= t + MAX_TTL /\
    (forall c, In c (ch_cnames ch) -> limit <= t + rs_ttl c) /\
    match ch_answer ch with
    | Some a => limit <= t + rs_ttl a
    | None => forall s, ResolChain.soa_at (m_authority m) (q_class q) (ch_canonical ch) (Some s) ->
                        limit <= t + rs_ttl s /\ limit <= t + soa_minimum s
    end.

Lemma soa_at_functional : forall auth cls n r1 r2,
  ResolChain.soa_at auth cls n r1 -> ResolChain.soa_at auth cls n r2 -> r1 = r2.
Proof.
  intros auth cls n r1 r2 H1. revert r2.
  induction H1 as [n s F|n p r F P H IH|n F P]; intros r2 H2;
    inversion H2 as [n' s' F'|n' p' r' F' P' H'|n' F' P']; subst; try congruence.
  all: try (exfalso; eapply P'; exact P); try (exfalso; eapply P; exact P').
  all: try (apply IH; assert (p' = p) by congruence; subst p'; exact H').
Qed.

Lemma answer_expiration_spec : forall m vid t v,
  answer_of_msg m vid t = Ok v ->
  a_id v = vid /\ within_record_lifetimes m t (a_exp v).
Proof.
  intros m vid t v H. unfold answer_of_msg in H.
  destruct (resolve_chaining m) as [ch|e|e] eqn:E; try discriminate. inversion H; subst v. cbn [a_id a_exp].
  split; [reflexivity|].
  destruct (ResolChain.chain_spec_lemma m ch E) as [q [HQ [_ [_ [_ [_ HT]]]]]].
  exists ch, q. split; [exact E|]. split; [exact HQ|]. split; [lia|].
  pose proof (min_over_le_base (ch_cnames ch) MAX_TTL) as LB.
  assert (Hmin : ch_min_ttl ch <= ResolChain.min_over MAX_TTL (ch_cnames ch)).
  { destruct (ch_answer ch) as [a|].
    - destruct HT as [_ ->]. lia.
    - destruct HT as [r [_ ->]]. destruct r; lia. }
  split; [lia|]. split.
  - intros c Hc. pose proof (min_over_le_in _ MAX_TTL c Hc). lia.
  - destruct (ch_answer ch) as [a|].
    + destruct HT as [_ ->]. lia.
    + destruct HT as [r [Hr Heq]]. intros s Hs.
      pose proof (soa_at_functional _ _ _ _ _ Hr Hs) as ->. rewrite Heq. lia.
Qed.

(* a lookup that returns the answer built from m at reading t happens strictly before
   t + the lifetime of every record the answer rests on *)
Lemma lru_serves_within_lifetimes : forall m vid t v key c k c' k',
  answer_of_msg m vid t = Ok v ->
  lru_step (Get key) c k = Ok (RAns v, c', k') ->
  within_record_lifetimes m t (now k' + 1).
Proof.
  intros m vid t v key c k c' k' HA HG.
  pose proof (lru_get_fresh _ _ _ _ _ _ HG) as Hf.
  destruct (answer_expiration_spec _ _ _ _ HA) as [_ [ch [q [E [HQ [H1 [H2 [H3 H4]]]]]]]].
  exists ch, q. split; [exact E|]. split; [exact HQ|]. split; [lia|]. split; [lia|]. split.
  - intros x Hx. specialize (H3 x Hx). lia.
  - destruct (ch_answer ch); [lia|]. intros s Hs. destruct (H4 s Hs). lia.
Qed.

Lemma cache_serves_within_lifetimes : forall m vid t v key c k c' k',
  answer_of_msg m vid t = Ok v ->
  cache_step (Get key) c k = Ok (RAns v, c', k') ->
  within_record_lifetimes m t (now k' + 1).
Proof.
  intros m vid t v key c k c' k' HA HG.
  pose proof (cache_get_fresh _ _ _ _ _ _ HG) as Hf.
  destruct (answer_expiration_spec _ _ _ _ HA) as [_ [ch [q [E [HQ [H1 [H2 [H3 H4]]]]]]]].
  exists ch, q. split; [exact E|]. split; [exact HQ|]. split; [lia|]. split; [lia|]. split.
  - intros x Hx. specialize (H3 x Hx). lia.
  - destruct (ch_answer ch); [lia|]. intros s Hs. destruct (H4 s Hs). lia.
Qed.
