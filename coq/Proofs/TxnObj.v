(* C10: the rdataset-object level.  Frame theorem: whatever a transaction does, every rdataset object and every
   node object that existed when it began is untouched - all in-place methods are applied to objects created
   by the transaction itself (the clone made by Set.union/intersection/difference, the Rdataset copy of an
   ImmutableRdataset in _add, the copy-on-write node).  An edit of a published rdataset in place (e.g.
   `existing.difference_update(...)`) is therefore excluded for this model by a theorem, and the model is
   compared with the real objects (identity and mutability of every rdataset of the universe) on every run. *)
From DV Require Import Base.Prelude Model.NameM Model.TxnM.
From DV Require Import Proofs.NameValid Proofs.TxnName Proofs.TxnStore Proofs.TxnSim Proofs.TxnThm Proofs.TxnHeap.
Open Scope Z_scope.

(* ---------------------------------------------------------------- list cells *)
Lemma lset_length {A} (l : list A) i x : length (lset l i x) = length l.
Proof. revert i. induction l as [|y l IH]; intros [|i]; cbn; auto. Qed.

Lemma nth_lset_other {A} (l : list A) i x j d : i <> j -> nth j (lset l i x) d = nth j l d.
Proof. revert i j. induction l as [|y l IH]; intros [|i] [|j] H; cbn; auto; congruence. Qed.

Lemma nth_app_below {A} (l : list A) x j d : (j < length l)%nat -> nth j (l ++ x) d = nth j l d.
Proof. intros H. apply app_nth1. exact H. Qed.

(* ---------------------------------------------------------------- the frame *)
Section Frame.
  Variable br : nat.          (* number of rdataset objects when the transaction began *)
  Variable rh0 : rheap.
  Variable bn : nat.          (* number of node objects *)
  Variable nh0 : list onode.

  Definition RF (h : rheap) : Prop :=
    (br <= length h)%nat /\ forall i, (i < br)%nat -> nth i h robj0 = nth i rh0 robj0.

  Definition NF (v : over) : Prop :=
    (forall k nid, changed_has (ov_changed v) k = true -> amap_get (ov_nodes v) k = Some nid -> (bn <= nid)%nat) /\
    (bn <= length (ov_nh v))%nat /\
    (forall i, (i < bn)%nat -> nth i (ov_nh v) [] = nth i nh0 []).

  Definition OI (v : over) : Prop := NF v /\ RF (ov_rh v).

  Lemma ralloc_RF h x imm : RF h -> RF (fst (ralloc h x imm)) /\ (br <= snd (ralloc h x imm))%nat.
  Proof.
    intros [H1 H2]. unfold ralloc. cbn [fst snd]. split; [split|exact H1].
    - rewrite app_length. lia.
    - intros i Hi. rewrite nth_app_below by lia. auto.
  Qed.

  Lemma inplace_RF h id f h' : RF h -> (br <= id)%nat -> o_inplace h id f = Ok h' -> RF h'.
  Proof.
    intros [H1 H2] Hid. unfold o_inplace. destruct (rimm h id); [discriminate|]. intros H; inversion H; subst.
    split; [rewrite lset_length; exact H1|]. intros i Hi. rewrite nth_lset_other by lia. auto.
  Qed.

  Lemma setop_RF f h a h' id : RF h -> o_setop f h a = Ok (h', id) -> RF h'.
  Proof.
    intros Hh. unfold o_setop, o_clone.
    destruct (ralloc_RF h (rval h a) false Hh) as [H1 H2].
    destruct (ralloc h (rval h a) false) as [h1 cid] eqn:E. cbn [fst snd] in *.
    destruct (o_inplace h1 cid f) as [h2| |] eqn:Ei; cbn [bind]; try discriminate.
    pose proof (inplace_RF h1 cid f h2 H1 H2 Ei) as H3.
    destruct (rimm h a); intros H; inversion H; subst; [|exact H3].
    apply (ralloc_RF h2 (rval h2 cid) true H3).
  Qed.

  (* ---------------------------------------------------------------- node level (as for the node-object model) *)
  Lemma cow_NF c v n v1 nid k :
    NF v -> o_maybe_cow c v n = Ok (v1, nid, k) -> NF v1 /\ (bn <= nid)%nat /\ ov_rh v1 = ov_rh v.
  Proof.
    intros (Hfresh & Hb & Hfr). unfold o_maybe_cow.
    destruct (validate_name c n) as [k0| |]; cbn [bind]; try discriminate.
    destruct (amap_get (ov_nodes v) k0) as [id0|] eqn:G.
    - destruct (changed_has (ov_changed v) k0) eqn:Ch; intros H; inversion H; subst; clear H.
      + split; [split; [|split]; auto|]. split; [eapply Hfresh; eauto|reflexivity].
      + cbn [ov_rh ov_nh ov_nodes ov_changed]. split; [|split; [exact Hb|reflexivity]].
        split; [|split]; cbn [ov_rh ov_nh ov_nodes ov_changed].
        * intros k' id' Hc Hg. cbn [ov_nodes ov_changed] in *. rewrite changed_has_add in Hc. rewrite amap_get_set in Hg.
          destruct (name_eqb k k') eqn:E; [inversion Hg; lia|]. rewrite orb_false_r in Hc. eapply Hfresh; eauto.
        * rewrite app_length. lia.
        * intros i Hi. rewrite nth_app_below by lia. auto.
    - intros H; inversion H; subst; clear H.
      cbn [ov_rh ov_nh ov_nodes ov_changed]. split; [|split; [exact Hb|reflexivity]].
      split; [|split]; cbn [ov_rh ov_nh ov_nodes ov_changed].
      * intros k' id' Hc Hg. cbn [ov_nodes ov_changed] in *. rewrite changed_has_add in Hc. rewrite amap_get_set in Hg.
        destruct (name_eqb k k') eqn:E; [inversion Hg; lia|]. rewrite orb_false_r in Hc. eapply Hfresh; eauto.
      * rewrite app_length. lia.
      * intros i Hi. rewrite nth_app_below by lia. auto.
  Qed.

  Lemma NF_lset v nid nd rh :
    NF v -> (bn <= nid)%nat -> NF (mkOver rh (lset (ov_nh v) nid nd) (ov_nodes v) (ov_changed v)).
  Proof.
    intros (Hfresh & Hb & Hfr) Hid. split; [|split]; cbn [ov_nh ov_nodes ov_changed].
    - exact Hfresh.
    - rewrite lset_length. exact Hb.
    - intros i Hi. rewrite nth_lset_other by lia. auto.
  Qed.

  Lemma NF_remove v k ch nh :
    NF (mkOver (ov_rh v) nh (ov_nodes v) (ov_changed v)) ->
    (forall k', changed_has ch k' = true -> name_eqb k k' = false -> changed_has (ov_changed v) k' = true) ->
    NF (mkOver (ov_rh v) nh (amap_remove (ov_nodes v) k) ch).
  Proof.
    intros (Hfresh & Hb & Hfr) Hch. split; [|split]; cbn [ov_nh ov_nodes ov_changed] in *; auto.
    intros k' id' Hc Hg. rewrite amap_get_remove in Hg. destruct (name_eqb k k') eqn:E; [discriminate|].
    eapply Hfresh; eauto.
  Qed.

  Lemma NF_with_rh v rh : NF v -> NF (with_rh v rh).
  Proof. intros H. exact H. Qed.

  Lemma put_OI c v n rid v' : OI v -> o_put_rdataset c v n rid = Ok v' -> OI v'.
  Proof.
    intros [Hn Hr]. unfold o_put_rdataset.
    destruct (o_maybe_cow c v n) as [[[v1 nid] k]| |] eqn:Cw; cbn [bind]; try discriminate.
    destruct (cow_NF c v n v1 nid k Hn Cw) as (H1 & Hid & Er).
    intros H; inversion H; subst. split; [apply NF_lset; auto|]. cbn [ov_rh]. rewrite Er. exact Hr.
  Qed.

  Lemma del_rds_OI c v n ty cov v' : OI v -> o_delete_rdataset c v n ty cov = Ok v' -> OI v'.
  Proof.
    intros [Hn Hr]. unfold o_delete_rdataset.
    destruct (o_maybe_cow c v n) as [[[v1 nid] k]| |] eqn:Cw; cbn [bind]; try discriminate.
    destruct (cow_NF c v n v1 nid k Hn Cw) as (H1 & Hid & Er).
    pose proof (NF_lset v1 nid (onode_delete (ov_rh v1) (onode_of v1 nid) cIN ty cov) (ov_rh v1) H1 Hid) as H2.
    destruct (onode_delete (ov_rh v1) (onode_of v1 nid) cIN ty cov) as [|x nd'].
    - unfold amap_del. destruct (amap_has (ov_nodes v1) k); cbn [bind]; [|discriminate].
      intros H; inversion H; subst. split; [|cbn [ov_rh]; rewrite Er; exact Hr].
      apply (NF_remove v1 k (ov_changed v1) (lset (ov_nh v1) nid []) H2). intros k' Hc _. exact Hc.
    - intros H; inversion H; subst. split; [exact H2|cbn [ov_rh]; rewrite Er; exact Hr].
  Qed.

  Lemma del_name_OI c v n v' : OI v -> o_delete_node c v n = Ok v' -> OI v'.
  Proof.
    intros [Hn Hr]. unfold o_delete_node. destruct (validate_name c n) as [k| |]; cbn [bind]; try discriminate.
    destruct (amap_has (ov_nodes v) k); intros H; inversion H; subst; [|split; assumption].
    split; [|exact Hr]. destruct v as [rh nh m ch]. cbn [ov_rh ov_nh ov_nodes ov_changed] in *.
    apply (NF_remove (mkOver rh nh m ch) k (changed_add ch k) nh Hn).
    intros k' Hc E. cbn [ov_changed]. rewrite changed_has_add, E, orb_false_r in Hc. exact Hc.
  Qed.

  (* ---------------------------------------------------------------- the front end *)
  Lemma add_OI c rep args v v' : OI v -> o_add c rep args v = Ok v' -> OI v'.
  Proof.
    intros [Hn Hr]. unfold o_add. destruct args as [|a rest]; [discriminate|].
    destruct (add_parse a rest) as [[[n r] rest1]| |]; cbn [bind]; try discriminate.
    destruct (negb _); [discriminate|]. destruct (_ && _); [discriminate|]. destruct rest1; [|discriminate].
    destruct (ralloc_RF (ov_rh v) r false Hr) as [Hr1 Hid1].
    destruct (ralloc (ov_rh v) r false) as [rh1 rid] eqn:Ea. cbn [fst snd] in *.
    destruct rep; cbn [bind].
    - apply put_OI. split; [exact Hn|exact Hr1].
    - destruct (o_get_rdataset c (with_rh v rh1) n (r_ty r) (r_cov r)) as [ex| |]; cbn [bind]; try discriminate.
      destruct ex as [e|]; cbn [bind fst snd]; [|apply put_OI; split; [exact Hn|exact Hr1]].
      assert (forall rh4 e', RF rh4 ->
                (do u <- o_union rh4 e' (rval rh4 rid); Ok (with_rh v (fst u), snd u)) = Ok (fst (with_rh v rh4, e'), snd (with_rh v rh4, e')) \/ True) as _ by auto.
      destruct (rimm rh1 e).
      + destruct (ralloc_RF rh1 (mkRds (r_cls (rval rh1 e)) (r_ty (rval rh1 e)) (r_cov (rval rh1 e)) 0 []) false Hr1) as [Hr2 Hid2].
        destruct (ralloc rh1 (mkRds (r_cls (rval rh1 e)) (r_ty (rval rh1 e)) (r_cov (rval rh1 e)) 0 []) false) as [rh2 t] eqn:Et.
        cbn [fst snd] in *.
        destruct (o_inplace rh2 t _) as [rh3| |] eqn:Ei; cbn [bind]; try discriminate.
        pose proof (inplace_RF rh2 t _ rh3 Hr2 Hid2 Ei) as Hr3.
        destruct (o_union rh3 t (rval rh3 rid)) as [[rh5 u]| |] eqn:Eu; cbn [bind fst snd]; try discriminate.
        apply put_OI. split; [exact Hn|]. cbn [ov_rh with_rh]. eapply setop_RF; eauto.
      + cbn [bind].
        destruct (o_union rh1 e (rval rh1 rid)) as [[rh5 u]| |] eqn:Eu; cbn [bind fst snd]; try discriminate.
        apply put_OI. split; [exact Hn|]. cbn [ov_rh with_rh]. eapply setop_RF; eauto.
  Qed.

  Lemma delete_common_OI c exact n ord rest v v' : OI v -> o_delete_common c exact n ord rest v = Ok v' -> OI v'.
  Proof.
    intros [Hn Hr]. unfold o_delete_common. destruct rest; [|discriminate].
    assert ((if exact then do on <- o_get_node c v n; match on with None => Lib eDeleteNotExact | Some _ => o_delete_node c v n end
             else o_delete_node c v n) = Ok v' -> OI v') as K.
    { destruct exact; [|apply del_name_OI; split; assumption].
      destruct (o_get_node c v n) as [on| |]; cbn [bind]; try discriminate.
      destruct on; [apply del_name_OI; split; assumption|discriminate]. }
    destruct ord as [[cls ty cov ttl items]|]; [|exact K]. destruct items as [|i items]; [exact K|].
    destruct (negb _); [discriminate|].
    destruct (o_get_rdataset c v n ty cov) as [ex| |]; cbn [bind]; try discriminate.
    destruct ex as [e|]; [|destruct exact; [discriminate|intros H; inversion H; subst; split; assumption]].
    assert (exists y, (if exact then
               do w <- o_intersection (ov_rh v) e (mkRds cls ty cov ttl (i :: items));
               if negb (rds_eqb (rval (fst w) (snd w)) (mkRds cls ty cov ttl (i :: items))) then Lib eDeleteNotExact else Ok (fst w)
             else Ok (ov_rh v)) = y /\ (forall rhy, y = Ok rhy -> RF rhy)) as (y & -> & Hy).
    { eexists. split; [reflexivity|]. destruct exact; [|intros rhy H; inversion H; subst; exact Hr].
      destruct (o_intersection (ov_rh v) e _) as [[rhw w]| |] eqn:Ew; cbn [bind fst snd]; try discriminate.
      destruct (negb _); [discriminate|]. intros rhy H; inversion H; subst. eapply setop_RF; eauto. }
    destruct y as [rhy| |]; cbn [bind]; try discriminate. specialize (Hy rhy eq_refl).
    destruct (o_difference rhy e _) as [[rhd d]| |] eqn:Ed; cbn [bind fst snd]; try discriminate.
    pose proof (setop_RF _ rhy e rhd d Hy Ed) as Hrd.
    destruct (r_items (rval rhd d)).
    - apply del_rds_OI. split; [exact Hn|exact Hrd].
    - apply put_OI. split; [exact Hn|exact Hrd].
  Qed.

  Lemma delete_OI c exact args v v' : OI v -> o_delete c exact args v = Ok v' -> OI v'.
  Proof.
    intros Hv. unfold o_delete. destruct args as [|a rest]; [discriminate|].
    assert (forall n, (do y <- rdataset_from_args true rest; o_delete_common c exact n (fst y) (snd y) v) = Ok v' -> OI v') as Kc.
    { intros n. destruct (rdataset_from_args true rest) as [[o r1]| |]; cbn [bind]; try discriminate.
      apply delete_common_OI; exact Hv. }
    assert (forall n t rest1, o_delete_bytype c exact n t rest1 v = Ok v' -> OI v') as Kt.
    { intros n t rest1. unfold o_delete_bytype. destruct (make_type t) as [ty| |]; cbn [bind]; try discriminate.
      destruct (match rest1 with [] => _ | _ :: _ => _ end) as [[cov rest2]| |]; cbn [bind]; try discriminate.
      destruct rest2; [|discriminate].
      destruct (o_get_rdataset c v n ty cov) as [ex| |]; cbn [bind]; try discriminate.
      destruct ex; [apply del_rds_OI; exact Hv|destruct exact; [discriminate|intros H; inversion H; subst; exact Hv]]. }
    destruct a; try discriminate.
    - destruct rest as [|t rest1]; [apply Kc|]. destruct (is_type_arg t); [apply Kt|apply Kc].
    - destruct rest as [|t rest1]; [apply Kc|]. destruct (is_type_arg t); [apply Kt|apply Kc].
    - apply delete_common_OI; exact Hv.
  Qed.

  Lemma write_OI f (t t' : txn (S:=over)) :
    (forall s s', OI s -> f s = Ok s' -> OI s') -> OI (t_st t) -> o_write f t = Ok t' -> OI (t_st t').
  Proof.
    intros Hf Ht. unfold o_write. destruct (t_ended t); [discriminate|]. destruct (t_ro t); [discriminate|].
    destruct (f (t_st t)) eqn:E; cbn [bind]; try discriminate. intros H; inversion H; subst. cbn. eauto.
  Qed.

  (* every successful public call keeps the frame *)
  Lemma step_OI c o z (t : txn (S:=over)) x z' t' : OI (t_st t) -> o_step c o z t = Ok (x, z', t') -> OI (t_st t').
  Proof.
    intros Ht. destruct o; cbn [o_step].
    1-2: destruct (o_write _ t) as [t1| |] eqn:Ew; cbn [bind]; try discriminate; intros H; inversion H; subst;
         eapply write_OI; [|exact Ht|exact Ew]; intros s s' Hs Hf; eapply add_OI; eauto.
    1-2: destruct (o_write _ t) as [t1| |] eqn:Ew; cbn [bind]; try discriminate; intros H; inversion H; subst;
         eapply write_OI; [|exact Ht|exact Ew]; intros s s' Hs Hf; eapply delete_OI; eauto.
    - destruct (o_update_serial c value relative n t) as [t1| |] eqn:Eu; cbn [bind]; try discriminate.
      intros H; inversion H; subst. unfold o_update_serial in Eu.
      destruct (t_ended t); [discriminate|]. destruct (value <? 0); [discriminate|].
      destruct (match n with None => _ | Some a => _ end); cbn [bind] in Eu; try discriminate.
      destruct (o_get_rdataset _ _ _ _ _) as [ex| |]; cbn [bind] in Eu; try discriminate. destruct ex as [e0|]; [|discriminate].
      destruct (r_items _) as [|[body serial] ?]; [discriminate|].
      destruct (if relative then _ else _); cbn [bind] in Eu; try discriminate.
      eapply write_OI; [|exact Ht|exact Eu]. intros s s' Hs Hf. eapply add_OI; eauto.
    - destruct (t_ended t); [discriminate|]. destruct (name_of_arg n); cbn [bind]; try discriminate.
      destruct (make_type (AInt ty)); cbn [bind]; try discriminate.
      destruct (make_type (AInt cov)); cbn [bind]; try discriminate.
      destruct (o_get_rdataset _ _ _ _ _); cbn [bind]; intros H; inversion H; subst; auto.
    - destruct (t_ended t); [discriminate|]. destruct (name_of_arg n); cbn [bind]; try discriminate.
      destruct (o_get_node _ _ _); cbn [bind]; intros H; inversion H; subst; auto.
    - destruct (t_ended t); [discriminate|]. intros H; inversion H; subst; auto.
    - destruct (t_ended t); [discriminate|]. intros H; inversion H; subst; auto.
    - destruct (t_ended t); [discriminate|]. destruct (name_of_arg n); cbn [bind]; try discriminate.
      destruct (o_get_node _ _ _); cbn [bind]; intros H; inversion H; subst; auto.
    - unfold o_end. destruct (t_ended t); cbn [bind]; [discriminate|]. intros H; inversion H; subst. exact Ht.
    - unfold o_end. destruct (t_ended t); cbn [bind]; [discriminate|]. intros H; inversion H; subst. exact Ht.
  Qed.
End Frame.

(* the state after the calls of a transaction, when none of them raised *)
Fixpoint o_final (c : cfg) (ops : list op) (z : ozone) (t : txn (S:=over)) : option (txn (S:=over)) :=
  match ops with
  | [] => Some t
  | o :: r => match o_step c o z t with
              | Ok (_, z', t') => o_final c r z' t'
              | _ => None
              end
  end.

Lemma OI_begin mode rh nh m :
  OI (length rh) rh (length nh) nh (t_st (o_open mode (rh, nh, m))).
Proof.
  unfold o_open. destruct (mode =? 2); cbn [t_st o_begin];
    (split; [split; [intros k nid H; discriminate|split; [cbn; lia|auto]]|split; [cbn; lia|auto]]).
Qed.

Lemma o_final_OI br rh0 bn nh0 c ops : forall zz (t t' : txn (S:=over)),
  OI br rh0 bn nh0 (t_st t) -> o_final c ops zz t = Some t' -> OI br rh0 bn nh0 (t_st t').
Proof.
  induction ops as [|o ops IH]; intros zz t t' H0; cbn [o_final].
  - intros H; inversion H; subst. exact H0.
  - destruct (o_step c o zz t) as [[[x z1] t1]| |] eqn:Es; try discriminate.
    intros Hf. apply (IH z1 t1 t'); [|exact Hf]. eapply step_OI; eauto.
Qed.

(* Whatever calls succeed inside a transaction opened on the published zone (rh, nh, m), every rdataset
   object (value AND mutability flag) and every node object that existed when it began is exactly as it was.
   Commit, rollback, exception exit do not write objects at all (the wrappers made by a versioned commit are
   new objects), so this is all-or-nothing for the published zone and for every older version. *)
Theorem published_rdatasets_never_mutated c rh nh m mode ops t' :
  o_final c ops (rh, nh, m) (o_open mode (rh, nh, m)) = Some t' ->
  (forall i, (i < length rh)%nat -> nth i (ov_rh (t_st t')) robj0 = nth i rh robj0) /\
  (forall i, (i < length nh)%nat -> nth i (ov_nh (t_st t')) [] = nth i nh []).
Proof.
  intros Hf.
  pose proof (o_final_OI _ _ _ _ c ops _ _ t' (OI_begin mode rh nh m) Hf) as ((_ & _ & H1) & (_ & H2)).
  split; assumption.
Qed.

(* publishing (commit of a versioned / B-tree zone wraps the changed nodes) only allocates *)
Lemma wrap_keeps rh ids : forall rh' ids', o_wrap_rdatasets rh ids = (rh', ids') ->
  (length rh <= length rh')%nat /\ forall i, (i < length rh)%nat -> nth i rh' robj0 = nth i rh robj0.
Proof.
  revert rh. induction ids as [|x ids IH]; intros rh rh' ids'; cbn [o_wrap_rdatasets].
  - intros H; inversion H; subst. auto.
  - unfold ralloc. destruct (o_wrap_rdatasets (rh ++ [mkRobj (rval rh x) true]) ids) as [rh2 js] eqn:E.
    intros H; inversion H; subst. destruct (IH _ _ _ E) as [L1 L2]. rewrite app_length in L1. cbn in L1.
    split; [lia|]. intros i Hi. rewrite L2 by (rewrite app_length; lia). apply nth_app_below. exact Hi.
Qed.

Theorem publish_never_mutates c v :
  let '(rh', nh', _) := o_publish c v in
  (forall i, (i < length (ov_rh v))%nat -> nth i rh' robj0 = nth i (ov_rh v) robj0) /\
  (forall i, (i < length (ov_nh v))%nat -> nth i nh' [] = nth i (ov_nh v) []).
Proof.
  unfold o_publish. destruct (c_kind c =? 0); [auto|].
  assert (forall names rh nh m,
            let '(rh', nh', _) := o_make_immutable names (rh, nh, m) in
            ((length rh <= length rh')%nat /\ forall i, (i < length rh)%nat -> nth i rh' robj0 = nth i rh robj0) /\
            ((length nh <= length nh')%nat /\ forall i, (i < length nh)%nat -> nth i nh' [] = nth i nh [])) as K.
  { induction names as [|k names IH]; intros rh nh m; cbn [o_make_immutable]; [auto|].
    destruct (amap_get m k) as [nid|]; [|apply IH].
    destruct (nth nid nh []) as [|x ids] eqn:En; [apply IH|].
    destruct (o_wrap_rdatasets rh (x :: ids)) as [rh1 ids'] eqn:Ew.
    destruct (wrap_keeps _ _ _ _ Ew) as [W1 W2].
    specialize (IH rh1 (nh ++ [ids']) (amap_set m k (length nh))).
    destruct (o_make_immutable names (rh1, nh ++ [ids'], amap_set m k (length nh))) as [[rh' nh'] m'].
    destruct IH as [[A1 A2] [B1 B2]]. rewrite app_length in B1. cbn in B1. split; split; try lia.
    - intros i Hi. rewrite A2 by lia. apply W2. exact Hi.
    - intros i Hi. rewrite B2 by (rewrite app_length; lia). apply nth_app_below. exact Hi. }
  specialize (K (ov_changed v) (ov_rh v) (ov_nh v) (ov_nodes v)).
  destruct (o_make_immutable (ov_changed v) (ov_rh v, ov_nh v, ov_nodes v)) as [[rh' nh'] m'].
  destruct K as [[_ A] [_ B]]. auto.
Qed.

(* ---------------------------------------------------------------- all-or-nothing and refusals, object level *)
Lemma o_step_keeps_zone c o z (t : txn (S:=over)) x z' t' :
  is_commit o = false -> o_step c o z t = Ok (x, z', t') -> z' = z.
Proof.
  intros Hc. destruct o; cbn [o_step]; try discriminate Hc;
    try (destruct (o_write _ _); cbn [bind]; intros H; inversion H; reflexivity).
  - destruct (o_update_serial _ _ _ _ _); cbn [bind]; intros H; inversion H; reflexivity.
  - destruct (t_ended t); [discriminate|]. destruct (name_of_arg n); cbn [bind]; try discriminate.
    destruct (make_type (AInt ty)); cbn [bind]; try discriminate.
    destruct (make_type (AInt cov)); cbn [bind]; try discriminate.
    destruct (o_get_rdataset _ _ _ _ _); cbn [bind]; intros H; inversion H; reflexivity.
  - destruct (t_ended t); [discriminate|]. destruct (name_of_arg n); cbn [bind]; try discriminate.
    destruct (o_get_node _ _ _); cbn [bind]; intros H; inversion H; reflexivity.
  - destruct (t_ended t); [discriminate|]. intros H; inversion H; reflexivity.
  - destruct (t_ended t); [discriminate|]. intros H; inversion H; reflexivity.
  - destruct (t_ended t); [discriminate|]. destruct (name_of_arg n); cbn [bind]; try discriminate.
    destruct (o_get_node _ _ _); cbn [bind]; intros H; inversion H; reflexivity.
  - unfold o_end. destruct (t_ended t); cbn [bind]; [discriminate|].
    rewrite andb_false_r. cbn. intros H; inversion H; reflexivity.
Qed.

Lemma o_exit_rollback_keeps c z t : o_exit c false z t = z.
Proof. unfold o_exit, o_end. destruct (t_ended t); [reflexivity|]. rewrite andb_false_r. reflexivity. Qed.

(* an exception injected after any number of calls, or raised by a call, leaves the published triple
   (rdataset objects, node objects, node map) exactly as it was *)
Theorem o_atomic_crash_point c ops : forall k z t, no_commit ops -> snd (o_run_with c ops (Some k) z t) = z.
Proof.
  induction ops as [|o ops IH]; intros k z t Hn.
  - destruct k; cbn; apply o_exit_rollback_keeps.
  - inversion Hn as [|? ? Ho Hr]; subst. destruct k as [|k]; cbn [o_run_with]; [cbn; apply o_exit_rollback_keeps|].
    destruct (o_step c o z t) as [[[x z1] t1]| |] eqn:Es.
    + pose proof (o_step_keeps_zone c o z t x z1 t1 Ho Es). subst z1.
      specialize (IH k z t1 Hr). destruct (o_run_with c ops (Some k) z t1). cbn in *. exact IH.
    + cbn. apply o_exit_rollback_keeps.
    + cbn. apply o_exit_rollback_keeps.
Qed.

Theorem o_atomic_no_commit c ops : forall z t, no_commit ops -> snd (o_run_manual c ops z t) = z.
Proof.
  induction ops as [|o ops IH]; intros z t Hn; cbn [o_run_manual]; [cbn; apply o_exit_rollback_keeps|].
  inversion Hn as [|? ? Ho Hr]; subst.
  destruct (o_step c o z t) as [[[x z1] t1]| |] eqn:Es.
  - pose proof (o_step_keeps_zone c o z t x z1 t1 Ho Es). subst z1.
    specialize (IH z t1 Hr). destruct (o_run_manual c ops z t1). cbn in *. exact IH.
  - specialize (IH z t Hr). destruct (o_run_manual c ops z t). cbn in *. exact IH.
  - specialize (IH z t Hr). destruct (o_run_manual c ops z t). cbn in *. exact IH.
Qed.

Theorem o_ended_refuses c o z (t : txn (S:=over)) : t_ended t = true -> o_step c o z t = Lib eAlreadyEnded.
Proof.
  intros He. destruct o; cbn [o_step]; unfold o_write, o_update_serial, o_end; rewrite He; reflexivity.
Qed.
