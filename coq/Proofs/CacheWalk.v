(* C17 - the ring as the harness observes it: walking .next from the sentinel visits exactly the
   recency list, walking .prev visits its reverse, and prev (next n) = n on the ring. *)
From DV Require Import Base.Prelude Model.CacheM Model.CacheSpecM Proofs.CacheRing Proofs.CacheDict Proofs.CacheLru
  Proofs.CacheSpec Proofs.CacheThm.

Lemma walk_next : forall s l a fuel,
  path s a l sentinel -> ~ In sentinel l -> (length l < fuel)%nat ->
  walk fuel s true (hd sentinel l) = Some l.
Proof.
  intros s. induction l as [|x r IH]; intros a fuel Hp Hn Hf; (destruct fuel as [|f]; [cbn in Hf; lia|]).
  - reflexivity.
  - cbn [walk hd]. destruct (Nat.eqb x sentinel) eqn:E0.
    { apply Nat.eqb_eq in E0. exfalso. apply Hn. left. auto. }
    cbn [path] in Hp. destruct Hp as [_ Hp].
    assert (Hnx : nxt s x = Some (hd sentinel r)).
    { destruct r as [|y r']; cbn [path hd] in *; apply Hp. }
    destruct (nxt_some _ _ _ Hnx) as [n [Hg Hnn]]. rewrite Hg, Hnn.
    rewrite (IH x f Hp); [reflexivity| |cbn in Hf; lia].
    intros H. apply Hn. right. exact H.
Qed.

Lemma walk_prev : forall s l b fuel,
  path s sentinel l b -> ~ In sentinel l -> (length l < fuel)%nat ->
  walk fuel s false (last l sentinel) = Some (rev l).
Proof.
  intros s l. induction l as [|p l' IH] using rev_ind; intros b fuel Hp Hn Hf;
    (destruct fuel as [|f]; [lia|]).
  - reflexivity.
  - rewrite last_last, rev_app_distr. cbn [rev app walk].
    destruct (Nat.eqb p sentinel) eqn:E0.
    { apply Nat.eqb_eq in E0. exfalso. apply Hn. apply in_or_app. right. left. auto. }
    rewrite path_snoc in Hp. destruct Hp as [Hp _].
    assert (Hpv : prv s p = Some (last l' sentinel)).
    { destruct (@exists_last_or_nil _ l') as [->|[l'' [q ->]]].
      - cbn [path last] in *. apply Hp.
      - rewrite last_last. rewrite path_snoc in Hp. apply Hp. }
    destruct (prv_some _ _ _ Hpv) as [n [Hg Hnn]]. rewrite Hg, Hnn.
    rewrite app_length in Hf. cbn in Hf.
    rewrite (IH p f Hp); [reflexivity| |lia].
    intros H. apply Hn. apply in_or_app. left. exact H.
Qed.

Lemma cyc_prev_next : forall s m n, cyc s m -> In n m ->
  exists x, nxt s n = Some x /\ prv s x = Some n /\ In x m.
Proof.
  intros s m n Hc Hin. apply in_split in Hin. destruct Hin as [l1 [l2 ->]].
  apply cyc_rot in Hc. cbn [app cyc] in Hc.
  destruct (l2 ++ l1) as [|x r] eqn:E.
  - cbn [path] in Hc. exists n. destruct Hc. repeat split; auto. apply in_or_app. right. left. auto.
  - cbn [path] in Hc. destruct Hc as [[H1 H2] _]. exists x. repeat split; auto.
    assert (Hx : In x (l2 ++ l1)) by (rewrite E; left; auto).
    apply in_app_or in Hx. apply in_or_app. destruct Hx; [right; right; auto|left; auto].
Qed.

Lemma ring_walks : forall c a zs, R c a zs ->
  ring_ids (l_store c) true = Some (map fst zs) /\
  ring_ids (l_store c) false = Some (rev (map fst zs)).
Proof.
  intros c a zs HR. pose proof (R_cyc _ _ _ HR) as Hc. pose proof (R_nodup _ _ _ HR) as Hnd.
  pose proof (ring_fits_store _ _ Hc Hnd) as Hfit. cbn [length] in Hfit.
  set (ids := map fst zs) in *.
  assert (Hn0 : ~ In sentinel ids) by (apply NoDup_cons_iff in Hnd; tauto).
  assert (Hnx : nxt (l_store c) sentinel = Some (hd sentinel ids)).
  { destruct ids as [|x r]; cbn [cyc path hd] in *; apply Hc. }
  assert (Hpv : prv (l_store c) sentinel = Some (last ids sentinel)).
  { destruct (@exists_last_or_nil _ ids) as [E|[l' [q E]]]; rewrite E in *.
    - cbn [cyc path last] in *. apply Hc.
    - rewrite last_last. eapply cyc_prv_last. exact Hc. }
  destruct (nxt_some _ _ _ Hnx) as [sen [Hs Hsn]].
  destruct (prv_some _ _ _ Hpv) as [sen' [Hs' Hsp]]. rewrite Hs in Hs'. inversion Hs'; subst sen'.
  unfold ring_ids. rewrite Hs, Hsn, Hsp. cbn [cyc] in Hc. split.
  - eapply walk_next; [exact Hc|exact Hn0|lia].
  - eapply walk_prev; [exact Hc|exact Hn0|lia].
Qed.

(* the ring invariant of every reachable LRUCache state *)
Lemma ring_invariant_l : forall m t0 its g w, mono its -> lru_reach m t0 its g w ->
  exists ids,
    ring_ids (l_store (fst w)) true = Some ids /\
    ring_ids (l_store (fst w)) false = Some (rev ids) /\
    NoDup (sentinel :: ids) /\
    (forall n, In n (sentinel :: ids) ->
       exists x, nxt (l_store (fst w)) n = Some x /\ prv (l_store (fst w)) x = Some n /\ In x (sentinel :: ids)) /\
    length ids = length (l_dict (fst w)) /\
    (forall key i, dget (l_dict (fst w)) key = Some i ->
       In i ids /\ exists nd, sget (l_store (fst w)) i = Some nd /\ n_key nd = Some key).
Proof.
  intros m t0 its g w Hm Hr. destruct (reach_inv _ _ _ _ _ Hm Hr) as [a [zs [HR _]]].
  destruct (ring_walks _ _ _ HR) as [W1 W2].
  exists (map fst zs). split; [exact W1|]. split; [exact W2|]. split; [apply (R_nodup _ _ _ HR)|].
  split; [|split].
  - intros n Hn. eapply cyc_prev_next; [apply (R_cyc _ _ _ HR)|exact Hn].
  - rewrite map_length. symmetry. apply (R_len _ _ _ HR).
  - intros key i Hd. rewrite (R_dict _ _ _ HR) in Hd.
    destruct (zfind key zs) as [z|] eqn:Ez; [|discriminate]. cbn in Hd. inversion Hd; subst i.
    destruct (zfind_split _ _ _ Ez) as [z1 [z2 [E [Hk _]]]]. subst zs.
    split; [apply in_map; apply in_or_app; right; left; reflexivity|].
    destruct (node_val _ z (node_ok_in _ _ _ _ _ HR)) as [nd [Hg [Hnk _]]].
    exists nd. rewrite Hk in Hnk. auto.
Qed.

(* set_max_size: the limit becomes max(1, m) and the bound holds immediately afterwards *)
Lemma lru_setmax_l : forall m t0 its g w mx ds r w',
  mono its -> lru_reach m t0 its g w -> nonneg ds ->
  wstep lru_step (Call (SetMax mx) ds) w = Ok (Some r, w') ->
  l_max (fst w') = Z.max 1 mx /\ zlen (l_dict (fst w')) <= Z.max 1 mx.
Proof.
  intros m t0 its g [c t] mx ds r [c1 t1] Hm Hr Hn E.
  destruct (reach_inv _ _ _ _ _ Hm Hr) as [a [zs [HR [HB [HJ [HC [HS HK]]]]]]]. cbn [fst snd] in *.
  destruct (linv_call (SetMax mx) ds c t g a zs HR HB HJ HC HS HK Hn) as [c' [zs' [E' [HR' [HB' _]]]]].
  cbn [wstep fst snd] in E. rewrite E' in E. inversion E; subst.
  destruct HB' as [B1 B2]. unfold zlen in *.
  rewrite (R_len _ _ _ HR'), (R_max _ _ _ HR').
  rewrite (R_list _ _ _ HR'), map_length in B1.
  cbn [alru_step fst snd a_max] in *.
  assert (Hmx : (if mx <? 1 then 1 else mx) = Z.max 1 mx).
  { destruct (mx <? 1) eqn:E1; [apply Z.ltb_lt in E1|apply Z.ltb_ge in E1]; lia. }
  rewrite Hmx in *. split; [reflexivity|exact B1].
Qed.

(* put evicts only what the limit forces it to: afterwards the cache holds the new entry plus as
   many of the other old entries as fit *)
Lemma length_aremove_has : forall l k,
  Z.of_nat (length (aremove l k)) = Z.of_nat (length l) - (match afind l k with Some _ => 1 | None => 0 end).
Proof.
  induction l as [|e l IH]; intros k; cbn; [reflexivity|].
  destruct (e_key e =? k); cbn [length]; [lia|]. rewrite Nat2Z.inj_succ, IH. lia.
Qed.

Lemma lru_put_size_l : forall m t0 its g w key v ds r w',
  mono its -> lru_reach m t0 its g w -> nonneg ds ->
  wstep lru_step (Call (Put key v) ds) w = Ok (Some r, w') ->
  zlen (l_dict (fst w')) =
  Z.min (l_max (fst w)) (zlen (l_dict (fst w)) - (if has (fst w) key then 1 else 0) + 1).
Proof.
  intros m t0 its g [c t] key v ds r [c1 t1] Hm Hr Hn E.
  destruct (reach_inv _ _ _ _ _ Hm Hr) as [a [zs [HR [HB [HJ [HC [HS HK]]]]]]]. cbn [fst snd] in *.
  destruct (linv_call (Put key v) ds c t g a zs HR HB HJ HC HS HK Hn) as [c' [zs' [E' [HR' _]]]].
  assert (L1 : length (l_dict c') = length (a_list (snd (fst (alru_step (Put key v) a (mkClk t ds)))))).
  { rewrite (R_len _ _ _ HR'), (R_list _ _ _ HR'), map_length. reflexivity. }
  assert (L0 : length (l_dict c) = length (a_list a)).
  { rewrite (R_len _ _ _ HR), (R_list _ _ _ HR), map_length. reflexivity. }
  cbn [wstep fst snd] in E. rewrite E' in E. injection E as _ Ec _. subst c1.
  unfold zlen. rewrite L1, L0, (R_max _ _ _ HR).
  rewrite (has_R _ _ _ key HR). unfold ahas.
  rewrite put_length. pose proof (length_aremove_has (a_list a) key) as L.
  destruct HB as [B1 B2]. unfold zlen in B1.
  destruct (afind (a_list a) key); lia.
Qed.

(* how a call can change the key set of the dict *)
Lemma lru_keyset_l : forall m t0 its g w cl ds r w' x,
  mono its -> lru_reach m t0 its g w -> nonneg ds ->
  wstep lru_step (Call cl ds) w = Ok (Some r, w') ->
  keyset_rule cl (has (fst w)) (has (fst w')) x.
Proof.
  intros m t0 its g [c t] cl ds r [c1 t1] x Hm Hr Hn E.
  destruct (reach_inv _ _ _ _ _ Hm Hr) as [a [zs [HR [HB [HJ [HC [HS HK]]]]]]]. cbn [fst snd] in *.
  destruct (linv_call cl ds c t g a zs HR HB HJ HC HS HK Hn) as [c' [zs' [E' [HR' _]]]].
  cbn [wstep fst snd] in E. rewrite E' in E. injection E as _ Ec _. subst c1.
  pose proof (keyset_step cl a (mkClk t ds) x (R_akeys_nodup _ _ _ HR)) as K.
  destruct cl as [key|key v|[key|]|mx|key| | | |]; cbn [keyset_rule] in *;
    rewrite ?(has_R _ _ _ _ HR), ?(has_R _ _ _ _ HR'); exact K.
Qed.

(* the ring, read through the node keys, is sorted by last use: most recently used first *)
From Coq Require Import Sorting.Sorted.

Lemma ring_sorted_l : forall m t0 its g w, mono its -> lru_reach m t0 its g w ->
  exists ids keys,
    ring_ids (l_store (fst w)) true = Some ids /\
    Forall2 (fun i k => exists nd, sget (l_store (fst w)) i = Some nd /\ n_key nd = Some k) ids keys /\
    StronglySorted (younger (snd g)) keys /\
    (forall k, In k keys <-> has (fst w) k = true).
Proof.
  intros m t0 its g w Hm Hr.
  destruct (reach_inv _ _ _ _ _ Hm Hr) as [a [zs [HR [_ [_ [[HS _] _]]]]]].
  destruct (ring_walks _ _ _ HR) as [W1 _].
  exists (map fst zs), (map zkey zs). split; [exact W1|]. split; [|split].
  - pose proof (R_nodes _ _ _ HR) as Hn. clear -Hn. induction zs as [|z zs IH]; cbn; [constructor|].
    apply Forall_cons_iff in Hn. destruct Hn as [Hz Hn]. constructor; [|auto].
    destruct (node_val _ z Hz) as [nd [Hg [Hk _]]]. eauto.
  - rewrite (R_list _ _ _ HR) in HS. unfold akeys in HS. rewrite map_map in HS. exact HS.
  - intros k. rewrite (has_R _ _ _ k HR), ahas_in, (R_list _ _ _ HR). unfold akeys. rewrite map_map. tauto.
Qed.

(* nothing is lost early: an answer that was stored, not flushed, not evicted and has not yet
   expired is in the dict, on a node carrying exactly that answer *)
Lemma lru_live_present_l : forall m t0 its g w key v, mono its -> lru_reach m t0 its g w ->
  fst g key = Some v -> snd w < a_exp v ->
  exists i nd, dget (l_dict (fst w)) key = Some i /\ sget (l_store (fst w)) i = Some nd /\
               n_key nd = Some key /\ n_val nd = Some v.
Proof.
  intros m t0 its g [c t] key v Hm Hr Hi Hx. cbn [fst snd] in *.
  destruct (reach_inv _ _ _ _ _ Hm Hr) as [a [zs [HR [_ [HJ _]]]]]. cbn [fst snd] in *.
  destruct (J_out _ _ _ HJ _ _ Hi) as [[e [He Hv]]|Hle]; [|lia].
  rewrite (afind_R _ _ _ key HR) in He.
  destruct (zfind key zs) as [z|] eqn:Ez; [|discriminate]. cbn in He. inversion He; subst e.
  destruct (zfind_split _ _ _ Ez) as [z1 [z2 [E [Hk _]]]]. subst zs.
  destruct (node_val _ z (node_ok_in _ _ _ _ _ HR)) as [nd [Hg [Hnk [Hnv _]]]].
  exists (fst z), nd. rewrite (R_dict _ _ _ HR), Ez. cbn. rewrite Hk in Hnk. rewrite Hv in Hnv. auto.
Qed.
