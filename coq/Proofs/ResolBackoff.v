(* The back-off law: within one candidate name the rounds are separated by sleeps of
   0.1, 0.2, 0.4, 0.8, 1.6, 2, 2, ... seconds; every new candidate starts again at 0.1 s; no other
   query is delayed. *)
From DV Require Import Base.Prelude Model.NameM Model.ResolM Proofs.ResolBase Proofs.ResolTrace.
Open Scope Z_scope.

Section Backoff.
Variables (sc : nat -> outcome) (c : cfg) (start : Z).

(* consecutive queries a, b *)
Definition bo_rel (a b : event) : Prop :=
  if Nat.eqb (ev_left b) (ev_left a) then
    (* same candidate name: either no sleep, or the sleep announced by a, doubled (capped) for later *)
    (ev_backoff b = 0 /\ ev_level b = ev_level a) \/
    (ev_backoff b = ev_level a /\ ev_level b = Z.min (ev_level a * 2) 2000)
  else ev_backoff b = 0 /\ ev_level b = 100.

Definition bo_first (ev : event) : Prop := ev_backoff ev = 0 /\ ev_level ev = 100.

Definition fresh (s : st) : Prop :=
  s_retry_with_tcp s = false /\ s_current s = s_nameservers s /\ s_backoff s = 100.

Definition KInv (old : list event) (s : st) (e : env) : Prop :=
  exists new, e_trace e = old ++ new /\
    adjacent bo_rel new /\ (forall a l, new = a :: l -> bo_first a) /\
    (new = [] -> fresh s) /\
    (forall a, last_opt new = Some a ->
       (length (s_qnames s) = ev_left a /\ s_backoff s = ev_level a) \/
       (length (s_qnames s) <> ev_left a /\ fresh s)).

Lemma fresh_next : forall s s1 ns tcp backoff,
  fresh s -> next_nameserver c s = NSOk s1 ns tcp backoff -> backoff = 0 /\ s_backoff s1 = 100.
Proof.
  intros s s1 ns tcp backoff (F1 & F2 & F3) HN. apply next_nameserver_ok in HN.
  destruct HN as (_ & _ & _ & _ & _ & _ & _ & _ & _ & _ & [HN|[HN|HN]]).
  - destruct HN as (R1 & _). congruence.
  - destruct HN as (_ & _ & R3 & _ & R5). split; congruence.
  - destruct HN as (_ & R2 & R3 & _). rewrite F2, R3 in R2. discriminate.
Qed.

Lemma kinv_new_event : forall s s1 ns tcp backoff T e ob clock2 new,
  adjacent bo_rel new -> (forall a l, new = a :: l -> bo_first a) -> (new = [] -> fresh s) ->
  (forall a, last_opt new = Some a ->
       (length (s_qnames s) = ev_left a /\ s_backoff s = ev_level a) \/
       (length (s_qnames s) <> ev_left a /\ fresh s)) ->
  next_nameserver c s = NSOk s1 ns tcp backoff ->
  adjacent bo_rel (new ++ [mk_event s1 ns tcp backoff T e ob clock2]) /\
  (forall a l, new ++ [mk_event s1 ns tcp backoff T e ob clock2] = a :: l -> bo_first a).
Proof.
  intros s s1 ns tcp backoff T e ob clock2 new HA HH HE HL HN. split.
  - apply adjacent_snoc; auto. intros a La. unfold bo_rel. simpl.
    pose proof HN as HN'. apply next_nameserver_ok in HN'.
    destruct HN' as (N1 & _ & _ & _ & _ & _ & _ & _ & _ & _ & HC).
    rewrite N1. destruct (HL a La) as [(L1 & L2)|(L1 & L2)].
    + rewrite L1, Nat.eqb_refl. rewrite <- L2.
      destruct HC as [HC|[HC|HC]].
      * destruct HC as (_ & _ & _ & _ & R5 & _ & R7). left. split; congruence.
      * destruct HC as (_ & _ & R3 & _ & R5). left. split; congruence.
      * destruct HC as (_ & _ & _ & R4 & _ & R6). right. split; congruence.
    + apply Nat.eqb_neq in L1. rewrite L1. apply (fresh_next _ _ _ _ _ L2 HN).
  - intros a l H. destruct new as [|x new'].
    + simpl in H. inversion H; subst. unfold bo_first. simpl. apply (fresh_next _ _ _ _ _ (HE eq_refl) HN).
    + simpl in H. inversion H; subst. apply (HH a new' eq_refl).
Qed.

Lemma kinv_step : forall old s e s' e',
  KInv old s e -> step sc c start s e = inl (s', e') -> KInv old s' e'.
Proof.
  intros old s e s' e' (new & HE & HA & HH & HF & HL) H.
  apply step_inl in H.
  destruct H as (s1 & ns & tcp & backoff & T & ob & clock2 & HN & HT & HO & HE' & HQ).
  destruct (kinv_new_event s s1 ns tcp backoff T e ob clock2 new HA HH HF HL HN) as (HA' & HH').
  apply next_nameserver_ok in HN.
  destruct HN as (N1 & N2 & N3 & N4 & N5 & N6 & N7 & N8 & N9 & N10 & _).
  set (ev := mk_event s1 ns tcp backoff T e ob clock2) in *.
  subst e'. exists (new ++ [ev]). simpl. split; [rewrite HE, app_assoc; reflexivity|].
  split; [exact HA'|]. split; [exact HH'|].
  split. { intros HX. destruct new; discriminate. }
  intros a La. rewrite last_opt_snoc in La. inversion La; subst a. simpl.
  destruct HQ as [HQ|(s2 & HQ & HR)].
  - apply query_result_cont in HQ.
    destruct HQ as (ns' & EN & (S1 & S2 & S3 & S4 & S5 & S6 & S7) & _).
    left. split; congruence.
  - apply query_result_next in HQ.
    destruct HQ as (ns' & m & chx & a & EN & Hr & Hnx & Hacc & HMA & (S1 & S2 & S3 & S4 & S5 & S6 & S7) & _).
    apply next_request_request in HR.
    destruct HR as (q & rest & skipped & s0 & R1 & R2 & R3 & R4 & R5).
    right. subst s'. simpl. split.
    + assert (HLEN: (length rest < length (s_qnames s1))%nat) by (rewrite <- S1, R1, app_length; simpl; lia).
      lia.
    + unfold fresh. simpl. auto.
Qed.

Lemma kinv_final : forall old s e f s' e',
  KInv old s e -> step sc c start s e = inr (f, s', e') ->
  exists new, e_trace e' = old ++ new /\ adjacent bo_rel new /\ (forall a l, new = a :: l -> bo_first a).
Proof.
  intros old s e f s' e' (new & HE & HA & HH & HF & HL) H.
  apply step_inr in H.
  destruct H as [(k & HN & Hf & Hs & He)|[(HN & Hf & He)|[(ns & tcp & backoff & d & HN & HT & Hf & He)|
                 (s1 & ns & tcp & backoff & T & ob & clock2 & HN & HT & HO & He & HQ)]]].
  - subst. exists new. auto.
  - subst. exists new. auto.
  - subst. exists new. auto.
  - destruct (kinv_new_event s s1 ns tcp backoff T e ob clock2 new HA HH HF HL HN) as (HA' & HH').
    subst e'. simpl. exists (new ++ [mk_event s1 ns tcp backoff T e ob clock2]).
    split; [rewrite HE, app_assoc; reflexivity|]. auto.
Qed.
End Backoff.

Theorem backoff_law_resolve : forall sc c ch fuel e f s' e',
  resolve_with fuel sc c ch e = (f, s', e') -> f <> FFuel ->
  exists new, e_trace e' = e_trace e ++ new /\ adjacent bo_rel new /\ (forall a l, new = a :: l -> bo_first a).
Proof.
  intros sc c ch fuel e f s' e' H HF. unfold resolve_with in H.
  destruct (next_request c (init_st c ch) (c_qnames c) (e_clock e)) as [s1|s1 a|s1 a|s1] eqn:ENR; simpl in H.
  - apply next_request_request in ENR.
    destruct ENR as (q & rest & skipped & s0 & R1 & R2 & R3 & R4 & R5).
    refine (loop_ind sc c (e_clock e) (KInv (e_trace e))
              (fun f s' e' => exists new, e_trace e' = e_trace e ++ new /\ adjacent bo_rel new /\ (forall a l, new = a :: l -> bo_first a))
              _ _ fuel s1 e f s' e' _ H HF).
    + intros. eapply kinv_step; eauto.
    + intros. eapply kinv_final; eauto.
    + exists []. rewrite app_nil_r. split; [reflexivity|]. split; [exact Logic.I|].
      split; [intros; discriminate|]. split; [|intros a0 La; discriminate].
      intros _. subst s1. unfold fresh. simpl. auto.
  - injection H as Hf Hs He. subst. exists []. rewrite app_nil_r. split; [reflexivity|]. split; [exact Logic.I|intros; discriminate].
  - injection H as Hf Hs He. subst. exists []. rewrite app_nil_r. split; [reflexivity|]. split; [exact Logic.I|intros; discriminate].
  - injection H as Hf Hs He. subst. exists []. rewrite app_nil_r. split; [reflexivity|]. split; [exact Logic.I|intros; discriminate].
Qed.
