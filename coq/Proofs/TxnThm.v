(* C10: top-level theorems about zone transactions. *)
From DV Require Import Base.Prelude Model.NameM Model.TxnM.
From DV Require Import Proofs.NameValid Proofs.NameOrder Proofs.NameRel.
From DV Require Import Proofs.TxnName Proofs.TxnStore Proofs.TxnLow Proofs.TxnSim.
Open Scope Z_scope.

(* ---------------------------------------------------------------- refinement *)

(* Every history of transactions (any operations, argument forms, commit / rollback / exception exits),
   run on the zone model and on the reference store from related published states, gives the same
   result for every call (values and exception classes) and related published states after every
   transaction. *)
Theorem refines_hist c h z l :
  wfc c -> Forall spec_valid h -> RP c z l ->
  Forall2 (ROut (RP c)) (impl_hist c h z) (spec_hist c h l).
Proof.
  intros W F HP. unfold impl_hist, spec_hist.
  apply (sim_run_hist (zstore c) (rstore c) c c EV (R c) (RP c) false); auto using hist_valid_rel; try discriminate.
  - split; [reflexivity|apply Valid_nil].
  - intros n1 n2 [-> _]. reflexivity.
  - intros; apply sim_begin; auto.
  - intros; apply sim_publish; auto.
  - intros s1 s2 n1 n2 ty cov HR [-> Vn]. apply sim_get; auto.
  - intros s2 n ty cov r. apply r_get_cls.
  - intros s1 s2 n1 n2 r HR [-> Vn] Hc. apply sim_put; auto.
  - intros s1 s2 n1 n2 HR [-> Vn]. apply sim_del_name; auto.
  - intros s1 s2 n1 n2 ty cov HR [-> Vn]. apply sim_del_rds; auto.
  - intros s1 s2 n1 n2 HR [-> Vn]. apply sim_exists; auto.
  - intros s1 s2 n1 n2 HR [-> Vn]. apply sim_node; auto.
  - intros; apply sim_changed; auto.
Qed.

(* what "related published states" means for an observer of the zone: Zone.get_node(name) returns,
   for every owner name, exactly the rdatasets the reference store holds for it (same order), and
   never an empty node *)
Definition ref_node (c : cfg) (l : list entry) (n : name) : option node :=
  match canon c n with
  | Ok a => match entries_at a l with [] => None | x => Some x end
  | _ => None
  end.

Theorem RP_observe c z l n :
  wfc c -> Valid n -> RP c z l -> zone_get_node c z n = ref_node c l n.
Proof.
  intros W Vn HP. pose proof (sim_node c W (mkVer z []) (mkRst l false) n HP Vn) as H.
  unfold get_node, r_node, zone_get_node, ref_node in *. cbn [v_nodes rs_entries] in H.
  destruct (validate_name c n), (canon c n); cbn [bind] in H; try discriminate; try reflexivity.
  inversion H as [H1]. exact H1.
Qed.

Corollary RP_no_empty_node c z l n nd :
  wfc c -> Valid n -> RP c z l -> zone_get_node c z n = Some nd -> nd <> [].
Proof.
  intros W Vn HP H. rewrite (RP_observe c z l n W Vn HP) in H. unfold ref_node in H.
  destruct (canon c n); try discriminate. destruct (entries_at _ _); inversion H; discriminate.
Qed.

(* the empty zone and the empty store are related: the theorem is not vacuous *)
Lemma RP_empty c : RP c [] [].
Proof. apply RP_nil. Qed.

(* ---------------------------------------------------------------- atomicity (any store) *)
Section Atomic.
  Context {P S : Type}.
  Variable st : store P S.
  Variable c : cfg.

  Definition is_commit (o : op) : bool := match o with OCommit => true | _ => false end.
  Definition no_commit (ops : list op) : Prop := Forall (fun o => is_commit o = false) ops.

  Definition is_err (r : res out) : bool := match r with Ok _ => false | _ => true end.

  Lemma step_keeps_zone o z t x z' t' :
    is_commit o = false -> step st c o z t = Ok (x, z', t') -> z' = z.
  Proof.
    intros Hc. destruct o; cbn [step]; try discriminate Hc;
      try (destruct (hl_write _ _); cbn [bind]; intros H; inversion H; reflexivity).
    - destruct (hl_update_serial _ _ _ _ _ _); cbn [bind]; intros H; inversion H; reflexivity.
    - destruct (t_ended t); [discriminate|]. destruct (name_of_arg n); cbn [bind]; try discriminate.
      destruct (make_type (AInt ty)); cbn [bind]; try discriminate.
      destruct (make_type (AInt cov)); cbn [bind]; try discriminate.
      destruct (s_get _ _ _ _ _); cbn [bind]; intros H; inversion H; reflexivity.
    - destruct (t_ended t); [discriminate|]. destruct (name_of_arg n); cbn [bind]; try discriminate.
      destruct (s_exists _ _ _); cbn [bind]; intros H; inversion H; reflexivity.
    - destruct (t_ended t); [discriminate|]. intros H; inversion H; reflexivity.
    - destruct (t_ended t); [discriminate|]. destruct (s_count st (t_st t)). intros H; inversion H; reflexivity.
    - destruct (t_ended t); [discriminate|]. destruct (name_of_arg n); cbn [bind]; try discriminate.
      destruct (s_node _ _ _); cbn [bind]; intros H; inversion H; reflexivity.
    - unfold hl_end. destruct (t_ended t); cbn [bind]; [discriminate|].
      rewrite andb_false_r. cbn. intros H; inversion H; reflexivity.
  Qed.

  Lemma exit_rollback_keeps z t : hl_exit st false z t = z.
  Proof.
    unfold hl_exit, hl_end. destruct (t_ended t); [reflexivity|]. rewrite andb_false_r. reflexivity.
  Qed.

  (* a with-block that is left through an exception - raised by an operation or by the caller after any
     number of operations - leaves the published zone exactly as it was *)
  Theorem atomic_with_abort ops : forall fault z t outs z',
    no_commit ops ->
    run_with st c ops fault z t = (outs, z') ->
    existsb is_err outs = true -> z' = z.
  Proof.
    induction ops as [|o ops IH]; intros fault z t outs z' Hn.
    - destruct fault as [[|k]|]; cbn [run_with]; intros H; inversion H; subst; cbn;
        try discriminate; intros _; apply exit_rollback_keeps.
    - inversion Hn as [|? ? Ho Hr]; subst.
      destruct fault as [[|k]|]; cbn [run_with].
      + intros H; inversion H; subst. intros _. apply exit_rollback_keeps.
      + destruct (step st c o z t) as [[[x z1] t1]|e|e] eqn:Es.
        * pose proof (step_keeps_zone o z t x z1 t1 Ho Es). subst z1.
          destruct (run_with st c ops (Some k) z t1) as [outs1 zf] eqn:Er.
          intros H; inversion H; subst. cbn [existsb is_err orb]. intros He. eapply IH; eauto.
        * intros H; inversion H; subst. intros _. apply exit_rollback_keeps.
        * intros H; inversion H; subst. intros _. apply exit_rollback_keeps.
      + destruct (step st c o z t) as [[[x z1] t1]|e|e] eqn:Es.
        * pose proof (step_keeps_zone o z t x z1 t1 Ho Es). subst z1.
          destruct (run_with st c ops None z t1) as [outs1 zf] eqn:Er.
          intros H; inversion H; subst. cbn [existsb is_err orb]. intros He. eapply IH; eauto.
        * intros H; inversion H; subst. intros _. apply exit_rollback_keeps.
        * intros H; inversion H; subst. intros _. apply exit_rollback_keeps.
  Qed.

  (* an injected fault always produces an error entry, whatever the index *)
  Lemma with_fault_errs ops : forall k z t outs z',
    run_with st c ops (Some k) z t = (outs, z') -> existsb is_err outs = true.
  Proof.
    induction ops as [|o ops IH]; intros k z t outs z'.
    - destruct k; cbn [run_with]; intros H; inversion H; reflexivity.
    - destruct k as [|k]; cbn [run_with]; [intros H; inversion H; reflexivity|].
      destruct (step st c o z t) as [[[x z1] t1]|e|e].
      + destruct (run_with st c ops (Some k) z1 t1) as [outs1 zf] eqn:Er.
        intros H; inversion H; subst. cbn. eapply IH; eauto.
      + intros H; inversion H; reflexivity.
      + intros H; inversion H; reflexivity.
  Qed.

  Corollary atomic_crash_point ops k z t :
    no_commit ops -> snd (run_with st c ops (Some k) z t) = z.
  Proof.
    intros Hn. destruct (run_with st c ops (Some k) z t) as [outs z'] eqn:E. cbn.
    eapply atomic_with_abort; eauto. eapply with_fault_errs; eauto.
  Qed.

  (* without commit() the caller-driven style never publishes either (rollback or abandon) *)
  Theorem atomic_manual_no_commit ops : forall z t,
    no_commit ops -> snd (run_manual st c ops z t) = z.
  Proof.
    induction ops as [|o ops IH]; intros z t Hn; cbn [run_manual].
    - cbn. apply exit_rollback_keeps.
    - inversion Hn as [|? ? Ho Hr]; subst.
      destruct (step st c o z t) as [[[x z1] t1]|e|e] eqn:Es.
      + pose proof (step_keeps_zone o z t x z1 t1 Ho Es). subst z1.
        specialize (IH z t1 Hr). destruct (run_manual st c ops z t1). cbn in *. exact IH.
      + specialize (IH z t Hr). destruct (run_manual st c ops z t). cbn in *. exact IH.
      + specialize (IH z t Hr). destruct (run_manual st c ops z t). cbn in *. exact IH.
  Qed.

  (* ------------------------------------------------------------ and a clean exit publishes *)
  Definition is_end (o : op) : bool := match o with OCommit | ORollback => true | _ => false end.
  Definition no_end (ops : list op) : Prop := Forall (fun o => is_end o = false) ops.

  (* the transaction state after the calls of a with-block, when none of them raised *)
  Fixpoint final_txn (ops : list op) (z : P) (t : txn (S:=S)) : option (txn (S:=S)) :=
    match ops with
    | [] => Some t
    | o :: r => match step st c o z t with
                | Ok (_, z', t') => final_txn r z' t'
                | _ => None
                end
    end.

  Lemma step_keeps_open o z t x z' t' :
    is_end o = false -> step st c o z t = Ok (x, z', t') -> z' = z /\ t_ended t' = t_ended t /\ t_ro t' = t_ro t.
  Proof.
    intros Hc. destruct o; cbn [step]; try discriminate Hc.
    1-2: unfold hl_write; destruct (t_ended t) eqn:?; cbn [bind]; try discriminate;
         destruct (t_ro t) eqn:?; cbn [bind]; try discriminate;
         destruct (hl_add st c _ a (t_st t)); cbn [bind]; try discriminate;
         intros H; injection H as _ Hz Ht; rewrite <- Hz, <- Ht; cbn; auto.
    1-2: unfold hl_write; destruct (t_ended t) eqn:?; cbn [bind]; try discriminate;
         destruct (t_ro t) eqn:?; cbn [bind]; try discriminate;
         destruct (hl_delete st _ a (t_st t)); cbn [bind]; try discriminate;
         intros H; injection H as _ Hz Ht; rewrite <- Hz, <- Ht; cbn; auto.
    - unfold hl_update_serial. destruct (t_ended t) eqn:Ee; cbn [bind]; try discriminate.
      destruct (value <? 0); cbn [bind]; try discriminate.
      destruct (match n with None => _ | Some a => _ end); cbn [bind]; try discriminate.
      destruct (s_get _ _ _ _ _) as [ex| |]; cbn [bind]; try discriminate. destruct ex as [e0|]; cbn [bind]; try discriminate.
      destruct (r_items e0) as [|[body serial] ?]; cbn [bind]; try discriminate.
      destruct (if relative then _ else _); cbn [bind]; try discriminate.
      unfold hl_write. rewrite Ee. destruct (t_ro t) eqn:Er; cbn [bind]; try discriminate.
      match goal with |- context [hl_add ?a1 ?a2 ?a3 ?a4 ?a5] => destruct (hl_add a1 a2 a3 a4 a5) end; cbn [bind]; try discriminate.
      intros H; injection H as _ Hz Ht; rewrite <- Hz, <- Ht; cbn; repeat split; auto; congruence.
    - destruct (t_ended t) eqn:Ee; [discriminate|]. destruct (name_of_arg n); cbn [bind]; try discriminate.
      destruct (make_type (AInt ty)); cbn [bind]; try discriminate.
      destruct (make_type (AInt cov)); cbn [bind]; try discriminate.
      destruct (s_get _ _ _ _ _); cbn [bind]; intros H; inversion H; subst; auto; repeat split; congruence.
    - destruct (t_ended t) eqn:Ee; [discriminate|]. destruct (name_of_arg n); cbn [bind]; try discriminate.
      destruct (s_exists _ _ _); cbn [bind]; intros H; inversion H; subst; auto; repeat split; congruence.
    - destruct (t_ended t) eqn:Ee; [discriminate|]. intros H; inversion H; subst; auto; repeat split; congruence.
    - destruct (t_ended t) eqn:Ee; [discriminate|]. destruct (s_count st (t_st t)). intros H; inversion H; subst; auto; repeat split; congruence.
    - destruct (t_ended t) eqn:Ee; [discriminate|]. destruct (name_of_arg n); cbn [bind]; try discriminate.
      destruct (s_node _ _ _); cbn [bind]; intros H; inversion H; subst; auto; repeat split; congruence.
  Qed.

  (* a with-block whose calls all succeed commits on exit: the published zone becomes the private state of
     the transaction (what its own reads saw) if the transaction changed anything, and stays otherwise *)
  Theorem clean_exit_commits ops : forall z t outs z',
    no_end ops -> t_ended t = false ->
    run_with st c ops None z t = (outs, z') -> existsb is_err outs = false ->
    exists t', final_txn ops z t = Some t' /\
               z' = if negb (t_ro t') && s_changed st (t_st t') then s_publish st (t_st t') else z.
  Proof.
    induction ops as [|o ops IH]; intros z t outs z' Hn He.
    - cbn [run_with final_txn]. intros H _. inversion H; subst. exists t. split; [reflexivity|].
      unfold hl_exit, hl_end. rewrite He. cbn. rewrite andb_true_r. reflexivity.
    - inversion Hn as [|? ? Ho Hr]; subst. cbn [run_with final_txn].
      destruct (step st c o z t) as [[[x z1] t1]|e|e] eqn:Es.
      + destruct (step_keeps_open o z t x z1 t1 Ho Es) as (-> & He1 & _).
        destruct (run_with st c ops None z t1) as [outs1 zf] eqn:Er.
        intros H; inversion H; subst. cbn [existsb is_err orb]. intros Hx.
        apply (IH z t1 outs1 z' Hr); auto. congruence.
      + intros H; inversion H; subst. cbn. discriminate.
      + intros H; inversion H; subst. cbn. discriminate.
  Qed.

  (* ------------------------------------------------------------ ended / read-only transactions refuse *)
  Theorem ended_refuses o z t : t_ended t = true -> step st c o z t = Lib eAlreadyEnded.
  Proof.
    intros He. destruct o; cbn [step]; unfold hl_write, hl_update_serial, hl_end; rewrite He; reflexivity.
  Qed.

  Definition is_write (o : op) : bool :=
    match o with OAdd _ | OReplace _ | ODelete _ | ODeleteExact _ => true | _ => false end.

  Theorem readonly_refuses o z t :
    t_ended t = false -> t_ro t = true -> is_write o = true -> step st c o z t = Lib eReadOnly.
  Proof.
    intros He Hr Hw. destruct o; try discriminate Hw; cbn [step]; unfold hl_write; rewrite He, Hr; reflexivity.
  Qed.

  (* no call on a read-only transaction changes its state or the zone (update_serial fails too) *)
  Theorem readonly_never_changes o z t x z' t' :
    t_ro t = true -> step st c o z t = Ok (x, z', t') -> z' = z /\ t_st t' = t_st t /\ t_ro t' = true.
  Proof.
    intros Hr. destruct o; cbn [step].
    1-4: unfold hl_write; destruct (t_ended t); [discriminate|]; rewrite Hr; discriminate.
    - unfold hl_update_serial. destruct (t_ended t); [discriminate|]. destruct (value <? 0); [discriminate|].
      destruct (match n with None => _ | Some a => _ end); cbn [bind]; try discriminate.
      destruct (s_get _ _ _ _ _) as [ex| |]; cbn [bind]; try discriminate. destruct ex as [e0|]; [|discriminate].
      destruct (r_items e0) as [|[body serial] ?]; [discriminate|].
      destruct (if relative then _ else _); cbn [bind]; try discriminate.
      unfold hl_write. destruct (t_ended t); [discriminate|]. rewrite Hr. discriminate.
    - destruct (t_ended t); [discriminate|]. destruct (name_of_arg n); cbn [bind]; try discriminate.
      destruct (make_type (AInt ty)); cbn [bind]; try discriminate.
      destruct (make_type (AInt cov)); cbn [bind]; try discriminate.
      destruct (s_get _ _ _ _ _); cbn [bind]; intros H; inversion H; subst; auto.
    - destruct (t_ended t); [discriminate|]. destruct (name_of_arg n); cbn [bind]; try discriminate.
      destruct (s_exists _ _ _); cbn [bind]; intros H; inversion H; subst; auto.
    - destruct (t_ended t); [discriminate|]. intros H; inversion H; subst; auto.
    - destruct (t_ended t); [discriminate|]. destruct (s_count st (t_st t)). intros H; inversion H; subst; auto.
    - destruct (t_ended t); [discriminate|]. destruct (name_of_arg n); cbn [bind]; try discriminate.
      destruct (s_node _ _ _); cbn [bind]; intros H; inversion H; subst; auto.
    - unfold hl_end. destruct (t_ended t); cbn [bind]; [discriminate|]. rewrite Hr. cbn.
      intros H; inversion H; subst; auto.
    - unfold hl_end. destruct (t_ended t); cbn [bind]; [discriminate|]. rewrite Hr. cbn.
      intros H; inversion H; subst; auto.
  Qed.

  (* commit() / rollback() end the transaction, so that every later call refuses *)
  Theorem end_ends commit z t z' t' : hl_end st commit z t = Ok (z', t') -> t_ended t' = true.
  Proof. unfold hl_end. destruct (t_ended t); [discriminate|]. intros H; inversion H; reflexivity. Qed.
End Atomic.
