(* C13 - full transfers.  Part 1: merging the records of one message into RRsets
   (dns.message with one_rr_per_rrset=False) and adding the RRsets has, entry by entry, the same
   effect as adding the records one by one. *)
From DV Require Import Base.Prelude Model.XfrM Proofs.XfrSets Proofs.XfrSpec Proofs.XfrZone Proofs.XfrDiff
  Proofs.XfrSafety Proofs.XfrBasic Proofs.XfrRun Proofs.XfrIxfr.

Definition tmin (a b : Z) : Z := if a <? b then a else b.

Definition merge (e : option entry) (t : Z) (D : list Z) : entry :=
  match e with
  | None => (t, D)
  | Some (t0, S0) => (tmin t t0, union S0 D)
  end.

(* effect on the entry at key k of adding the RRsets l / the records x, in order *)
Definition fm (k : key) (e : option entry) (l : list rrset) : option entry :=
  fold_left (fun e s => if key_eqb (skey s) k then Some (merge e (s_ttl s) (s_data s)) else e) l e.

Definition fa (k : key) (e : option entry) (x : list rr) : option entry :=
  fold_left (fun e r => if key_eqb (rkey r) k then Some (add1 e (r_ttl r) (r_data r)) else e) x e.

Definition wf_e (e : option entry) : Prop :=
  match e with Some (_, S0) => ssorted S0 | None => True end.

Definition rs_ok (s : rrset) : Prop :=
  s_class s = cIN /\ s_type s <> tSOA /\ 0 <= s_name s /\ s_data s <> [] /\ ssorted (s_data s) /\
  is_singleton (s_type s) = false /\ kind_of (s_type s) (s_covers s) <> 2.

Definition acc_ok (acc : list rrset) : Prop := Forall rs_ok acc /\ NoDup (map skey acc).

Lemma same_rrset_key : forall r s, r_class r = cIN -> s_class s = cIN ->
  same_rrset r s = key_eqb (rkey r) (skey s).
Proof.
  intros r s Hr Hs. unfold same_rrset, key_eqb, rkey, skey. rewrite Hr, Hs. cbn [Z.eqb cIN Pos.eqb].
  rewrite andb_true_r. reflexivity.
Qed.

Lemma skey_rrset_add : forall s r, skey (rrset_add s r) = skey s.
Proof. reflexivity. Qed.

Lemma skey_single : forall r, skey (single r) = rkey r.
Proof. reflexivity. Qed.

Lemma fm_cons : forall k e s l,
  fm k e (s :: l) = fm k (if key_eqb (skey s) k then Some (merge e (s_ttl s) (s_data s)) else e) l.
Proof. reflexivity. Qed.

Lemma fm_notin : forall k l e, ~ In k (map skey l) -> fm k e l = e.
Proof.
  unfold fm. induction l as [|s l IH]; intros e H; cbn [fold_left]; [reflexivity|].
  destruct (key_eqb (skey s) k) eqn:E.
  - apply key_eqb_eq in E. exfalso. apply H. left. exact E.
  - apply IH. intros Hin. apply H. right. exact Hin.
Qed.

Lemma tmin_assoc : forall a b c, tmin (tmin a b) c = tmin a (tmin b c).
Proof.
  intros a b c. unfold tmin.
  destruct (a <? b) eqn:E1; destruct (b <? c) eqn:E2; destruct (a <? c) eqn:E3;
    rewrite ?E1, ?E2, ?E3; try reflexivity;
    apply Z.ltb_lt in E1 || apply Z.ltb_ge in E1; apply Z.ltb_lt in E2 || apply Z.ltb_ge in E2;
    apply Z.ltb_lt in E3 || apply Z.ltb_ge in E3; try lia.
Qed.

Lemma union_ins_comm : forall S0 Ss d, ssorted S0 ->
  union S0 (ins d Ss) = ins d (union S0 Ss).
Proof.
  intros S0 Ss d H0. apply ssorted_ext.
  - apply union_sorted, H0.
  - apply ins_sorted, union_sorted, H0.
  - intros x. rewrite union_In, !ins_In, union_In. tauto.
Qed.

(* merging one more record r into the RRset s, or adding s and then r: the same entry *)
Lemma merge_rrset_add : forall e s r, wf_e e -> rs_ok s -> plain r ->
  merge e (s_ttl (rrset_add s r)) (s_data (rrset_add s r)) =
  add1 (Some (merge e (s_ttl s) (s_data s))) (r_ttl r) (r_data r).
Proof.
  intros e s r He (_ & _ & _ & Hne & Hs & Hsg & _) (_ & _ & _ & Httl & _).
  unfold rrset_add. cbn [s_ttl s_data]. rewrite (clamp_ok _ Httl), (rds_add_plain _ _ _ Hsg).
  destruct (s_data s) as [|d0 ds] eqn:Ed; [congruence|]. rewrite <- Ed in *.
  destruct e as [[t0 S0]|]; cbn [merge add1].
  - fold (tmin (r_ttl r) (s_ttl s)). fold (tmin (r_ttl r) (tmin (s_ttl s) t0)).
    rewrite tmin_assoc. f_equal. apply union_ins_comm. exact He.
  - reflexivity.
Qed.

Lemma add_to_effect : forall k r acc e, plain r -> acc_ok acc -> wf_e e ->
  fm k e (add_to r acc) =
  if key_eqb (rkey r) k then Some (add1 (fm k e acc) (r_ttl r) (r_data r)) else fm k e acc.
Proof.
  intros k r acc. induction acc as [|s acc IH]; intros e Hp [Hok Hnd] He.
  - cbn [add_to]. unfold fm. cbn [fold_left]. rewrite skey_single.
    destruct (key_eqb (rkey r) k); [|reflexivity].
    destruct Hp as (_ & _ & _ & Httl & _). unfold single. cbn [s_ttl s_data]. rewrite (clamp_ok _ Httl).
    destruct e as [[t0 S0]|]; reflexivity.
  - inversion Hok as [|? ? Hs Hok']; subst. inversion Hnd as [|? ? Hni Hnd']; subst.
    cbn [add_to]. pose proof Hp as (Hc & _). destruct Hs as (Hsc & Hrest).
    rewrite (same_rrset_key r s Hc Hsc).
    destruct (key_eqb (rkey r) (skey s)) eqn:Ers.
    + apply key_eqb_eq in Ers. rewrite !fm_cons, skey_rrset_add.
      destruct (key_eqb (skey s) k) eqn:Esk.
      * apply key_eqb_eq in Esk. rewrite Ers, Esk, key_eqb_refl.
        rewrite !fm_notin by (rewrite <- Esk; exact Hni).
        f_equal. apply merge_rrset_add; [exact He|split; assumption|exact Hp].
      * rewrite Ers, Esk. reflexivity.
    + rewrite !fm_cons.
      destruct (key_eqb (skey s) k) eqn:Esk.
      * apply IH; [exact Hp|split; assumption|].
        destruct Hrest as (_ & _ & _ & Hss & _). destruct e as [[t0 S0]|]; cbn [merge wf_e]; [apply union_sorted, He|exact Hss].
      * apply IH; [exact Hp|split; assumption|exact He].
Qed.

Lemma add_to_keys : forall r acc, plain r -> Forall rs_ok acc -> forall k,
  In k (map skey (add_to r acc)) <-> k = rkey r \/ In k (map skey acc).
Proof.
  intros r acc Hp. induction acc as [|s acc IH]; intros Hok k; cbn [add_to].
  - cbn. rewrite skey_single. intuition.
  - inversion Hok as [|? ? Hs Hok']; subst. destruct Hp as (Hc & _). destruct Hs as (Hsc & _).
    rewrite (same_rrset_key r s Hc Hsc). destruct (key_eqb (rkey r) (skey s)) eqn:E.
    + apply key_eqb_eq in E. cbn [map In]. rewrite skey_rrset_add. rewrite E. intuition.
    + cbn [map In]. rewrite IH by assumption. intuition.
Qed.

Lemma add_to_ok : forall r acc, plain r -> acc_ok acc -> acc_ok (add_to r acc).
Proof.
  intros r acc Hp. induction acc as [|s acc IH]; intros [Hok Hnd]; cbn [add_to].
  - split; [constructor; [|constructor]|constructor; [intros []|constructor]].
    destruct Hp as (Hc & Ht & Hn & Httl & Hsg & Hkd). unfold rs_ok, single. cbn. repeat split; auto; [discriminate|apply ssorted_one].
  - inversion Hok as [|? ? Hs Hok']; subst. inversion Hnd as [|? ? Hni Hnd']; subst.
    pose proof Hp as (Hc & Ht & Hn & Httl & Hsg & Hkd). pose proof Hs as (Hsc & Hst & Hsn & Hsne & Hss & Hssg & Hskd).
    rewrite (same_rrset_key r s Hc Hsc). destruct (key_eqb (rkey r) (skey s)) eqn:E.
    + split.
      * constructor; [|assumption]. unfold rs_ok, rrset_add. cbn [s_class s_type s_name s_data].
        rewrite (rds_add_plain _ _ _ Hssg).
        repeat split; auto.
        -- intros Hnil. assert (In (r_data r) (ins (r_data r) (s_data s))) by (apply ins_In; auto).
           rewrite Hnil in H. destruct H.
        -- apply ins_sorted, Hss.
      * cbn [map]. rewrite skey_rrset_add. constructor; assumption.
    + destruct (IH (conj Hok' Hnd')) as [Hok2 Hnd2]. split.
      * constructor; assumption.
      * cbn [map]. constructor; [|assumption]. intros Hin. apply (add_to_keys r acc Hp Hok') in Hin.
        destruct Hin as [Hin|Hin]; [|auto]. apply key_eqb_neq in E. auto.
Qed.

Lemma group_go_plain : forall x acc, Forall plain x ->
  group_go false acc x = fold_left (fun a r => add_to r a) x acc.
Proof.
  induction x as [|r x IH]; intros acc Hf; cbn [group_go fold_left]; [reflexivity|].
  inversion Hf as [|? ? Hp Hf']; subst. destruct Hp as (_ & Ht & _).
  apply Z.eqb_neq in Ht. rewrite Ht. cbn [orb]. apply IH, Hf'.
Qed.

Lemma group_effect : forall k x acc e, Forall plain x -> acc_ok acc -> wf_e e ->
  fm k e (group_go false acc x) = fa k (fm k e acc) x /\ acc_ok (group_go false acc x).
Proof.
  intros k x. induction x as [|r x IH]; intros acc e Hf Hacc He.
  - cbn [group_go]. unfold fa. cbn. auto.
  - inversion Hf as [|? ? Hp Hf']; subst.
    assert (E : group_go false acc (r :: x) = group_go false (add_to r acc) x).
    { cbn [group_go]. destruct Hp as (_ & Ht & _). apply Z.eqb_neq in Ht. rewrite Ht. reflexivity. }
    rewrite E. destruct (IH (add_to r acc) e Hf' (add_to_ok r acc Hp Hacc) He) as [H1 H2].
    split; [|exact H2]. rewrite H1, (add_to_effect k r acc e Hp Hacc He).
    unfold fa at 2. cbn [fold_left]. reflexivity.
Qed.

(* ---- Part 2: zone level ---- *)
Fixpoint addrs (z : zone) (l : list rrset) : zone :=
  match l with
  | [] => z
  | s :: t => addrs (zput (skey s) (merge (look z (skey s)) (s_ttl s) (s_data s)) z) t
  end.

Lemma look_addrs : forall l z k, look (addrs z l) k = fm k (look z k) l.
Proof.
  induction l as [|s l IH]; intros z k; cbn [addrs]; [reflexivity|].
  rewrite IH, fm_cons, look_zput. rewrite (key_eqb_sym k (skey s)).
  destruct (key_eqb (skey s) k) eqn:E; [|reflexivity].
  apply key_eqb_eq in E. subst k. reflexivity.
Qed.

Lemma look_adds_fa : forall x z k, look (adds z x) k = fa k (look z k) x.
Proof.
  induction x as [|r x IH]; intros z k; cbn [adds]; [reflexivity|].
  rewrite IH. unfold fa at 2. cbn [fold_left]. rewrite look_zput. rewrite (key_eqb_sym k (rkey r)).
  destruct (key_eqb (rkey r) k) eqn:E; [|reflexivity].
  apply key_eqb_eq in E. subst k. reflexivity.
Qed.

Definition zsorted (z : zone) : Prop := forall k, wf_e (look z k).

Lemma zsorted_nil : zsorted []. Proof. intros k. exact Logic.I. Qed.

Lemma zsorted_zeq : forall a b, zeq a b -> zsorted b -> zsorted a.
Proof. intros a b H Hb k. rewrite H. apply Hb. Qed.

Lemma adds_sorted : forall x z, zsorted z -> zsorted (adds z x).
Proof.
  induction x as [|r x IH]; intros z Hz; cbn [adds]; [exact Hz|].
  apply IH. intros k. rewrite look_zput. destruct (key_eqb k (rkey r)); [|apply Hz].
  pose proof (Hz (rkey r)) as H. destruct (look z (rkey r)) as [[t0 S0]|]; cbn [add1 wf_e] in *.
  - apply ins_sorted, H.
  - apply ssorted_one.
Qed.

Lemma adds_zeq : forall x a b, zeq a b -> zeq (adds a x) (adds b x).
Proof.
  intros x a b H k. rewrite !look_adds_fa, H. reflexivity.
Qed.

Lemma t_add_rs : forall z s, rs_ok s -> quiet z ->
  t_add false z s = Ok (zput (skey s) (merge (look z (skey s)) (s_ttl s) (s_data s)) z).
Proof.
  intros z s (Hc & Ht & _ & Hne & _ & Hsg & Hkd) Hq. unfold t_add.
  rewrite node_put_id by (apply quiet_addable; [exact Hq|exact Hkd]).
  destruct (s_data s) as [|d ds] eqn:Ed; [congruence|]. rewrite <- Ed.
  rewrite Hc. cbn [Z.eqb cIN Pos.eqb negb].
  apply Z.eqb_neq in Ht. rewrite Ht. cbn [andb]. unfold merge, tmin.
  destruct (look z (skey s)) as [[t0 S0]|]; [|reflexivity].
  rewrite (fold_rds_add_union _ _ _ Hsg). reflexivity.
Qed.

(* the state of a full transfer in progress (AXFR, or IXFR after the AXFR-style fallback) *)
Definition ast (u : bool) (rdt : Z) (p tz : zone) (ser : Z) (s0 : rrset) : st :=
  mkSt p (Some tz) rdt false ser u (Some s0) false false false false.

Lemma step_rs_add : forall l u rdt p tz ser s0 s, rs_ok s -> quiet tz ->
  step l (ast u rdt p tz ser s0) s =
  (ast u rdt p (zput (skey s) (merge (look tz (skey s)) (s_ttl s) (s_data s)) tz) ser s0, None).
Proof.
  intros l u rdt p tz ser s0 s Hs Hq. pose proof Hs as (Hc & Ht & Hn & _).
  unfold ast, step. cbn [done txn expecting delmode].
  assert (E : (s_type s =? tSOA) = false) by (apply Z.eqb_neq; exact Ht).
  rewrite E. cbn [andb].
  assert (Z : in_zone (s_name s) = true) by (apply Z.leb_le; exact Hn).
  rewrite Z. cbn [negb]. rewrite (t_add_rs tz s Hs Hq). reflexivity.
Qed.

Lemma loopn_addrs : forall l u rdt p tz ser s0, Forall rs_ok l -> quiet tz ->
  loopn (ast u rdt p tz ser s0) l = (ast u rdt p (addrs tz l) ser s0, None).
Proof.
  induction l as [|s l IH]; intros u rdt p tz ser s0 Hf Hq; cbn [loopn addrs]; [reflexivity|].
  inversion Hf as [|? ? Hs Hf']; subst. rewrite (step_rs_add _ _ _ _ _ _ _ _ Hs Hq).
  apply IH; [exact Hf'|]. apply quiet_zput; [exact Hq|apply Hs].
Qed.

Lemma quiet_addrs : forall l tz, Forall rs_ok l -> quiet tz -> quiet (addrs tz l).
Proof.
  induction l as [|s l IH]; intros tz Hf Hq; cbn [addrs]; [exact Hq|].
  inversion Hf as [|? ? Hs Hf']; subst. apply IH; [exact Hf'|]. apply quiet_zput; [exact Hq|apply Hs].
Qed.

Lemma single_ok : forall r, plain r -> rs_ok (single r).
Proof.
  intros r (Hc & Ht & Hn & Httl & Hsg & Hkd). unfold rs_ok, single. cbn. repeat split; auto; [discriminate|apply ssorted_one].
Qed.

(* how the records x of one message reach the zone: g = map single (IXFR, first AXFR message)
   or g = group false (later AXFR messages) *)
Definition msg_parse_ok (g : list rr -> list rrset) : Prop :=
  (forall x r, Forall plain x -> r_type r = tSOA -> g (x ++ [r]) = g x ++ [single r]) /\
  (forall x, Forall plain x -> Forall rs_ok (g x)) /\
  (forall x tz, Forall plain x -> zsorted tz -> zeq (addrs tz (g x)) (adds tz x)).

Lemma addrs_singles : forall x tz, Forall plain x -> addrs tz (map single x) = adds tz x.
Proof.
  induction x as [|r x IH]; intros tz Hf; cbn [map addrs adds]; [reflexivity|].
  inversion Hf as [|? ? Hp Hf']; subst. rewrite <- IH by assumption. f_equal.
  rewrite skey_single. f_equal. destruct Hp as (_ & _ & _ & Httl & _).
  unfold single. cbn [s_ttl s_data]. rewrite (clamp_ok _ Httl).
  unfold merge, add1, tmin. destruct (look tz (rkey r)) as [[t0 S0]|]; reflexivity.
Qed.

Lemma parse_single_ok : msg_parse_ok (map single).
Proof.
  split; [|split].
  - intros x r _ _. rewrite map_app. reflexivity.
  - intros x Hf. apply Forall_forall. intros s Hs. apply in_map_iff in Hs. destruct Hs as [r [<- Hr]].
    apply single_ok. rewrite Forall_forall in Hf. auto.
  - intros x tz Hf _. rewrite addrs_singles by assumption. apply zeq_refl.
Qed.

Lemma group_go_snoc_soa : forall x acc f r, r_type r = tSOA ->
  group_go f acc (x ++ [r]) = group_go f acc x ++ [single r].
Proof.
  induction x as [|y x IH]; intros acc f r Hr; cbn [app group_go].
  - rewrite Hr. cbn [Z.eqb tSOA Pos.eqb]. rewrite orb_true_r. reflexivity.
  - apply IH, Hr.
Qed.

Lemma parse_group_ok : msg_parse_ok (group false).
Proof.
  assert (A0 : acc_ok []) by (split; constructor).
  split; [|split].
  - intros x r _ Hr. unfold group. apply group_go_snoc_soa, Hr.
  - intros x Hf. destruct (group_effect soakey x [] None Hf A0 Logic.I) as [_ [H _]]. exact H.
  - intros x tz Hf Hz k. rewrite look_addrs, look_adds_fa.
    destruct (group_effect k x [] (look tz k) Hf A0 (Hz k)) as [H _]. exact H.
Qed.

Lemma step_final_full : forall u rdt p tz ser v, ttl_ok (v_ttl v) -> quiet tz ->
  step Last (ast u rdt p tz ser (single (soa_rr v))) (single (soa_rr v)) =
  (mkSt (zput soakey (v_ttl v, [v_soa v]) tz) None rdt false ser u (Some (single (soa_rr v))) true false false false, None).
Proof.
  intros u rdt p tz ser v Httl Hq. unfold step, ast. cbn [done txn incremental delmode soa set_delmode negb].
  change ((s_type (single (soa_rr v)) =? tSOA) && (s_name (single (soa_rr v)) =? origin)) with true. cbv iota.
  rewrite soa_eqb, Z.eqb_refl. cbn [andb orb negb].
  rewrite soa_serial_single. cbn [expecting incremental negb andb].
  rewrite t_add_soa by assumption. reflexivity.
Qed.

Lemma running_ast : forall rdt p tz ser s0, running (ast false rdt p tz ser s0).
Proof. intros. repeat split; try reflexivity; discriminate. Qed.

(* the driver on a full transfer, message by message *)
Lemma cont_full : forall ws one_rr g a rdt p tz ser v c,
  msg_parse_ok g -> msg_parse_ok (group one_rr) -> ttl_ok (v_ttl v) ->
  Forall (header_ok rdt) ws -> Forall plain c -> zsorted tz -> quiet tz ->
  a ++ concat (map w_records ws) = c ++ [soa_rr v] ->
  exists z' n, cont one_rr (loop (ast false rdt p tz ser (single (soa_rr v))) (g a)) ws = (Done z', n)
    /\ zeq z' (zput soakey (v_ttl v, [v_soa v]) (adds tz c)).
Proof.
  induction ws as [|w ws IH]; intros one_rr g a rdt p tz ser v c Hg Hg1 Httl Hh Hc Hz Hq Hcat.
  - cbn [map concat] in Hcat. rewrite app_nil_r in Hcat. subst a.
    destruct Hg as (G1 & G2 & G3). rewrite (G1 c (soa_rr v) Hc eq_refl).
    rewrite loop_snoc, (loopn_addrs _ _ _ _ _ _ _ (G2 c Hc) Hq), (step_final_full _ _ _ _ _ _ Httl (quiet_addrs _ _ (G2 c Hc) Hq)).
    cbn [cont done pub]. eexists. eexists. split; [reflexivity|].
    intros k. rewrite !look_zput. destruct (key_eqb k soakey); [reflexivity|apply G3; assumption].
  - apply app_snoc_split in Hcat. destruct Hcat as [[c' [-> Hrest]]|[-> Hrest]].
    + apply Forall_app in Hc. destruct Hc as [Ha Hc'].
      destruct Hg as (G1 & G2 & G3).
      rewrite (loop_loopn _ _ _ (loopn_addrs _ _ _ _ _ _ _ (G2 a Ha) Hq)).
      cbn [cont]. unfold ast at 1. cbn [done]. fold (ast false rdt p (addrs tz (g a)) ser (single (soa_rr v))).
      inversion Hh as [|? ? Hw Hws]; subst.
      rewrite drive_cons by solve_req. unfold from_wire.
      rewrite process_running; [|apply running_ast|apply Hw|apply Hw]. cbn [m_answer].
      cbn [map concat] in Hrest.
      assert (Hz1 : zsorted (addrs tz (g a))).
      { eapply zsorted_zeq; [apply G3; assumption|apply adds_sorted, Hz]. }
      destruct (IH one_rr (group one_rr) (w_records w) rdt p (addrs tz (g a)) ser v c' Hg1 Hg1 Httl Hws Hc' Hz1 (quiet_addrs _ _ (G2 a Ha) Hq) Hrest)
        as [z' [n [Hn Hz']]].
      rewrite Hn. exists z', (S n). split; [reflexivity|].
      eapply zeq_trans; [exact Hz'|]. intros k. rewrite !look_zput.
      destruct (key_eqb k soakey); [reflexivity|]. rewrite adds_app.
      apply adds_zeq. apply G3; assumption.
    + destruct Hg as (G1 & G2 & G3). rewrite (G1 c (soa_rr v) Hc eq_refl).
      rewrite loop_snoc, (loopn_addrs _ _ _ _ _ _ _ (G2 c Hc) Hq), (step_final_full _ _ _ _ _ _ Httl (quiet_addrs _ _ (G2 c Hc) Hq)).
      cbn [cont done pub]. eexists. eexists. split; [reflexivity|].
      intros k. rewrite !look_zput. destruct (key_eqb k soakey); [reflexivity|apply G3; assumption].
Qed.

(* adding all records of a well-formed zone to the empty zone gives that zone *)
Lemma body_sel : forall z, body z = recs_sel (fun _ e => snd e) z.
Proof.
  unfold body, recs_sel. induction z as [|[k [t ds]] z IH]; cbn [flat_map]; [reflexivity|].
  rewrite IH, rrs_of_entry_mk. reflexivity.
Qed.

Lemma adds_body : forall z, rest_wf z -> zeq (adds [] (body z)) z.
Proof.
  intros z Hwf k. rewrite body_sel, look_adds_entries by (destruct Hwf; assumption).
  destruct (look z k) as [[t ds]|] eqn:E; [|reflexivity].
  destruct (rest_wf_entry z k t ds Hwf E) as (Hne & Hs & _).
  cbn [look fst snd]. rewrite add_all_none. destruct ds; [congruence|].
  f_equal. f_equal. apply union_nil_sorted, Hs.
Qed.

Lemma full_target : forall v z', version_wf v ->
  zeq z' (zput soakey (v_ttl v, [v_soa v]) (adds [] (body (v_rest v)))) -> zeq z' (zone_of v).
Proof.
  intros v z' [_ Hwf] H k. rewrite H, look_zput, look_zone_of.
  destruct (key_eqb k soakey); [reflexivity|apply adds_body, Hwf].
Qed.

Lemma first_message_axfr : forall z ser w r0 rest,
  header_ok tAXFR w -> w_records w = r0 :: rest -> apex_soa r0 ->
  process_message (axfr_init z ser) (from_wire false w) =
  loop (ast false tAXFR z [] (match ser with Some sv => sv | None => 0 end) (single r0)) (map single rest).
Proof.
  intros z ser w r0 rest Hh Hr [Hn Ht].
  unfold process_message. cbn [txn axfr_init incremental pub set_txn rdtype].
  unfold from_wire. cbn [m_rcode m_question m_answer].
  destruct Hh as [Hrc Hq]. rewrite Hrc. cbn [Z.eqb negb].
  rewrite (header_ok_question tAXFR w (conj Hrc Hq)).
  rewrite Hr, (group_soa_first false r0 rest Ht). cbn [map].
  cbn -[loopT single]. cbn [single s_name s_type]. rewrite Hn, Ht. cbn -[loopT single].
  rewrite (loopT_nosig _ _ (w_tsig w)) by reflexivity.
  apply after_tcp. reflexivity.
Qed.

(* AXFR: any server zone, any client zone, any division into messages (records of later messages
   are merged into RRsets by the message parser) *)
Theorem axfr_converges : forall v z0 ser ws,
  version_wf v -> chunking tAXFR (axfr_stream v) ws ->
  exists z' n, inbound_xfr z0 tAXFR ser false ws = (Done z', n) /\ zeq z' (zone_of v).
Proof.
  intros v z0 ser ws Hv Hch. unfold axfr_stream in Hch.
  apply chunking_first in Hch. destruct Hch as (w & ws' & a & -> & Hr & Hw & Hws & Hcat).
  unfold inbound_xfr, xfr_run. rewrite init_axfr. cbn [Z.eqb tAXFR tIXFR Pos.eqb]. rewrite drive_cons by solve_req.
  rewrite (first_message_axfr z0 ser w (soa_rr v) a Hw Hr) by (split; reflexivity).
  destruct Hv as [Httl Hwf].
  destruct (cont_full ws' false (map single) a tAXFR z0 [] (match ser with Some sv => sv | None => 0 end) v
              (body (v_rest v)) parse_single_ok parse_group_ok Httl Hws (body_plain _ Hwf) zsorted_nil quiet_nil Hcat)
    as [z' [n [Hn Hz']]].
  exists z', n. split; [exact Hn|]. apply full_target; [split; assumption|exact Hz'].
Qed.

(* ---- AXFR-style answer to an IXFR request ---- *)
Lemma parse_group_true_ok : msg_parse_ok (group true).
Proof.
  destruct parse_single_ok as (G1 & G2 & G3).
  split; [|split]; intros; rewrite ?group_true; auto.
Qed.

(* the first non-SOA record after the initial SOA: roll back, replacement transaction, add it *)
Lemma step_fallback : forall l p tz ser s0 r, plain r ->
  step l (ist false p tz ser s0 true false) (single r) =
  (ast false tIXFR p (adds [] [r]) ser s0, None).
Proof.
  intros l p tz ser s0 r Hp. pose proof Hp as (Hc & Ht & Hn & Httl & Hsg).
  unfold step, ist. cbn [done txn expecting].
  assert (E : (s_type (single r) =? tSOA) = false) by (apply Z.eqb_neq; exact Ht).
  rewrite E. cbn [andb].
  assert (Z : in_zone (s_name (single r)) = true) by (apply Z.leb_le; exact Hn).
  rewrite Z. cbn [negb delmode set_txn set_delmode set_expecting set_incremental].
  rewrite (t_add_single [] r Hp quiet_nil). reflexivity.
Qed.

Lemma cont_fallback : forall ws a p tz ser v r c,
  ttl_ok (v_ttl v) -> Forall (header_ok tIXFR) ws -> plain r -> Forall plain c ->
  a ++ concat (map w_records ws) = r :: c ++ [soa_rr v] ->
  exists z' n, cont true (loop (ist false p tz ser (single (soa_rr v)) true false) (map single a)) ws = (Done z', n)
    /\ zeq z' (zput soakey (v_ttl v, [v_soa v]) (adds [] (r :: c))).
Proof.
  induction ws as [|w ws IH]; intros a p tz ser v r c Httl Hh Hr Hc Hcat.
  - cbn [map concat] in Hcat. rewrite app_nil_r in Hcat. subst a.
    cbn [map]. assert (L : forall rest, loop (ist false p tz ser (single (soa_rr v)) true false) (single r :: rest)
                             = loop (ast false tIXFR p (adds [] [r]) ser (single (soa_rr v))) rest).
    { intros rest. cbn [loopT]. rewrite step_fallback by assumption. reflexivity. }
    rewrite L.
    destruct (cont_full [] true (map single) (c ++ [soa_rr v]) tIXFR p (adds [] [r]) ser v c
                parse_single_ok parse_group_true_ok Httl Hh Hc) as [z' [n [Hn Hz']]].
    { apply adds_sorted, zsorted_nil. }
    { apply quiet_adds; [constructor; [exact Hr|constructor]|exact quiet_nil]. }
    { cbn. rewrite app_nil_r. reflexivity. }
    exists z', n. split; [exact Hn|exact Hz'].
  - destruct a as [|y a].
    + cbn [map loopT cont ist done]. inversion Hh as [|? ? Hw Hws]; subst.
      rewrite drive_cons by solve_req. unfold from_wire. rewrite group_true.
      rewrite process_running; [|repeat split; try reflexivity; discriminate|apply Hw|apply Hw]. cbn [m_answer].
      cbn [app map concat] in Hcat.
      destruct (IH (w_records w) p tz ser v r c Httl Hws Hr Hc Hcat) as [z' [n [Hn Hz']]].
      fold (ist false p tz ser (single (soa_rr v)) true false). rewrite Hn.
      exists z', (S n). split; [reflexivity|exact Hz'].
    + cbn [app] in Hcat. inversion Hcat; subst.
      cbn [map]. assert (L : forall rest, loop (ist false p tz ser (single (soa_rr v)) true false) (single r :: rest)
                             = loop (ast false tIXFR p (adds [] [r]) ser (single (soa_rr v))) rest).
      { intros rest. cbn [loopT]. rewrite step_fallback by assumption. reflexivity. }
      rewrite L.
      destruct (cont_full (w :: ws) true (map single) a tIXFR p (adds [] [r]) ser v c
                  parse_single_ok parse_group_true_ok Httl Hh Hc) as [z' [n [Hn Hz']]].
      { apply adds_sorted, zsorted_nil. }
      { apply quiet_adds; [constructor; [exact Hr|constructor]|exact quiet_nil]. }
      { assumption. }
      exists z', n. split; [exact Hn|exact Hz'].
Qed.

(* AXFR-style answer to an IXFR request: any client zone and serial (the server's is newer), any
   division into messages; the zone ends up equal to the server's version *)
Theorem axfr_style_ixfr_converges : forall v z0 ser ws,
  version_wf v -> v_rest v <> [] ->
  v_serial v <> ser -> serial_lt (v_serial v) ser = false ->
  chunking tIXFR (axfr_stream v) ws ->
  exists z' n, inbound_xfr z0 tIXFR (Some ser) false ws = (Done z', n) /\ zeq z' (zone_of v).
Proof.
  intros v z0 ser ws Hv Hne Hs Hlt Hch. unfold axfr_stream in Hch.
  apply chunking_first in Hch. destruct Hch as (w & ws' & a & -> & Hr & Hw & Hws & Hcat).
  pose proof Hv as [Httl Hwf].
  pose proof (body_plain _ Hwf) as Hpl.
  destruct (body (v_rest v)) as [|r c] eqn:Eb.
  { exfalso. destruct (v_rest v) as [|[k [t ds]] rest]; [congruence|].
    destruct Hwf as [_ Hf]. inversion Hf as [|? ? He _]; subst.
    unfold body in Eb. cbn [flat_map] in Eb. apply app_eq_nil in Eb. destruct Eb as [Eb _].
    rewrite rrs_of_entry_mk in Eb. destruct k as [[n ty] cv]. cbn in He.
    destruct He as (_ & _ & _ & Hds & _). destruct ds; [congruence|discriminate]. }
  inversion Hpl as [|? ? Hpr Hpc]; subst.
  unfold inbound_xfr, xfr_run. rewrite init_ixfr. cbn [Z.eqb tIXFR Pos.eqb]. rewrite drive_cons by solve_req.
  rewrite (first_message_ixfr z0 ser false w (soa_rr v) a Hw Hr) by (split; reflexivity).
  cbv zeta. change (r_data (soa_rr v) mod two32) with (v_serial v).
  apply Z.eqb_neq in Hs. rewrite Hs, Hlt. cbn [andb]. rewrite after_tcp by reflexivity.
  destruct (cont_fallback ws' a z0 z0 ser v r c Httl Hws Hpr Hpc Hcat) as [z' [n [Hn Hz']]].
  exists z', n. split; [exact Hn|].
  apply full_target; [exact Hv|]. rewrite Eb. exact Hz'.
Qed.
