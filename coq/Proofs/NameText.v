(* C01: Name.to_text / dns.name.from_text are exact inverses; from_text never raises a
   Python-level exception. *)
From DV Require Import Base.Prelude Model.NameM Proofs.NameValid.
Open Scope Z_scope.

Ltac Zify.zify_post_hook ::= Z.to_euclidean_division_equations.

Definition AllBytes (n : name) : Prop := Forall (fun l => Forall (fun c => 0 <= c < 256) l) n.

(* ---------- the escape state machine ---------- *)

(* outside an escape the digit counter and the running total are dead *)
Lemma ft_irrel : forall t L lab ed tot ed' tot',
  ft_loop t L lab false ed tot = ft_loop t L lab false ed' tot'.
Proof.
  induction t as [|c t IH]; intros; [reflexivity|].
  cbn [ft_loop]. destruct (c =? 46).
  - destruct lab; [reflexivity|apply IH].
  - destruct (c =? 92); [reflexivity|apply IH].
Qed.

Lemma escaped_not_digit c : escaped c = true -> is_digit c = false.
Proof.
  unfold escaped, is_digit. intros H.
  repeat (apply orb_true_iff in H; destruct H as [H|H]); apply Z.eqb_eq in H; subst; reflexivity.
Qed.

Lemma escaped_false c : escaped c = false -> c <> 46 /\ c <> 92 /\ c <> 64.
Proof.
  unfold escaped. intros H. repeat (apply orb_false_iff in H; destruct H as [H ?]).
  repeat split; intros ->; discriminate.
Qed.

(* one octet: parsing its escaped form appends exactly that octet (every value 0..255) *)
Lemma ft_octet c t L lab : 0 <= c < 256 ->
  ft_loop (esc_octet c ++ t) L lab false 0%nat 0 = ft_loop t L (c :: lab) false 0%nat 0.
Proof.
  intros Hc. unfold esc_octet.
  destruct (escaped c) eqn:E.
  - cbn [app ft_loop]. change (92 =? 46) with false. change (92 =? 92) with true. cbn iota.
    rewrite (escaped_not_digit _ E). reflexivity.
  - destruct (escaped_false _ E) as (H46 & H92 & _).
    destruct ((c >? 32) && (c <? 127)) eqn:P.
    + cbn [app ft_loop].
      replace (c =? 46) with false by (symmetry; apply Z.eqb_neq; exact H46).
      replace (c =? 92) with false by (symmetry; apply Z.eqb_neq; exact H92). reflexivity.
    + cbn [app ft_loop]. change (92 =? 46) with false. change (92 =? 92) with true. cbn iota.
      assert (is_digit (48 + c / 100) = true) as -> by (unfold is_digit; lia).
      assert (is_digit (48 + (c / 10) mod 10) = true) as -> by (unfold is_digit; lia).
      assert (is_digit (48 + c mod 10) = true) as -> by (unfold is_digit; lia).
      cbn [negb].
      replace (((48 + c / 100 - 48) * 10 + (48 + (c / 10) mod 10 - 48)) * 10 + (48 + c mod 10 - 48))
        with c by lia.
      replace (c >? 255) with false by lia.
      apply ft_irrel.
Qed.

Lemma ft_label : forall l t L lab, Forall (fun c => 0 <= c < 256) l ->
  ft_loop (escapify l ++ t) L lab false 0%nat 0 = ft_loop t L (rev l ++ lab) false 0%nat 0.
Proof.
  induction l as [|c l IH]; intros t L lab H; [reflexivity|].
  inversion H; subst. unfold escapify. cbn [flat_map]. rewrite <- app_assoc.
  rewrite ft_octet by assumption. fold (escapify l). rewrite IH by assumption.
  cbn [rev]. rewrite <- app_assoc. reflexivity.
Qed.

Lemma ft_dot t L lab : lab <> [] ->
  ft_loop (46 :: t) L lab false 0%nat 0 = ft_loop t (rev lab :: L) [] false 0%nat 0.
Proof. intros H. cbn [ft_loop]. change (46 =? 46) with true. cbn iota. destruct lab; [congruence|reflexivity]. Qed.

Lemma rev_ne {A} (l : list A) : l <> [] -> rev l <> [].
Proof. destruct l; [congruence|]. intros _ H. apply (f_equal (@length _)) in H. rewrite rev_length in H. discriminate. Qed.

(* all labels of a name joined with dots *)
Lemma ft_join : forall (n : name) L, n <> [] -> AllBytes n ->
  Forall (fun l => l <> []) (removelast n) ->
  ft_loop (join_dot (map escapify n)) L [] false 0%nat 0 =
    Ok (rev (removelast n) ++ L, rev (last n []), false).
Proof.
  induction n as [|x n IH]; intros L Hn HB HE; [congruence|].
  inversion HB; subst.
  destruct n as [|y r].
  - cbn [map join_dot removelast last rev app].
    rewrite <- (app_nil_r (escapify x)). rewrite ft_label by assumption. rewrite app_nil_r. reflexivity.
  - rewrite removelast_cons2 in HE. inversion HE; subst.
    change (join_dot (map escapify (x :: y :: r)))
      with (escapify x ++ 46 :: join_dot (map escapify (y :: r))).
    rewrite ft_label by assumption. rewrite app_nil_r.
    rewrite ft_dot by (apply rev_ne; assumption). rewrite rev_involutive.
    rewrite IH by (try discriminate; assumption).
    rewrite removelast_cons2. cbn [rev]. rewrite <- app_assoc. reflexivity.
Qed.

(* ---------- from_text in a form without the literal patterns ---------- *)

Lemma at_match (text : list Z) : text <> [64] -> match text with [64] => [] | _ => text end = text.
Proof.
  intros H. destruct text as [|z l]; [reflexivity|].
  destruct l as [|z2 l].
  - destruct z as [|p|p]; try reflexivity.
    do 7 (destruct p as [p|p|]; try reflexivity). congruence.
  - destruct z as [|p|p]; try reflexivity.
    do 7 (destruct p as [p|p|]; try reflexivity).
Qed.

Lemma dot_match {B} (text : list Z) (x y : B) : text <> [46] ->
  match text with [46] => x | _ => y end = y.
Proof.
  intros H. destruct text as [|z l]; [reflexivity|].
  destruct l as [|z2 l].
  - destruct z as [|p|p]; try reflexivity.
    do 6 (destruct p as [p|p|]; try reflexivity). congruence.
  - destruct z as [|p|p]; try reflexivity.
    do 6 (destruct p as [p|p|]; try reflexivity).
Qed.

Definition finish (labels : name) (origin : option name) : res name :=
  mk_name (if negb (ends_with_root labels)
           then match origin with Some o => labels ++ o | None => labels end
           else labels).

Lemma from_text_generic text origin : text <> [64] -> text <> [46] -> text <> [] ->
  from_text text origin =
    match ft_loop text [] [] false 0%nat 0 with
    | Ok (labels, lab, esc) => if esc then Lib eBadEscape else finish (rev (rev lab :: labels)) origin
    | Lib e => Lib e
    | Internal e => Internal e
    end.
Proof.
  intros H64 H46 Hne. unfold from_text. cbv zeta.
  rewrite at_match by assumption. rewrite dot_match by assumption.
  destruct text as [|h t]; [congruence|].
  destruct (ft_loop (h :: t) [] [] false 0%nat 0) as [[[labels lab] esc]|e|e]; try reflexivity.
  destruct esc; reflexivity.
Qed.

Lemma ends_with_root_abs (n : name) : ends_with_root n = is_absolute n.
Proof.
  unfold ends_with_root. destruct n as [|l n] using rev_ind; [reflexivity|].
  rewrite rev_app_distr, is_absolute_last. cbn. destruct l; reflexivity.
Qed.

(* the first character of the text of a non-empty label *)
Lemma esc_octet_head c : exists h r, esc_octet c = h :: r /\ h <> 64 /\ h <> 46.
Proof.
  unfold esc_octet. destruct (escaped c) eqn:E.
  - exists 92, [c]. repeat split; discriminate.
  - destruct (_ && _).
    + destruct (escaped_false _ E) as (? & ? & ?). exists c, []. auto.
    + eexists 92, _. repeat split; discriminate.
Qed.

Lemma join_head (x : label) (n : name) : x <> [] ->
  exists h r, join_dot (map escapify (x :: n)) = h :: r /\ h <> 64 /\ h <> 46.
Proof.
  intros Hx. destruct x as [|c x]; [congruence|].
  destruct (esc_octet_head c) as (h & r & E & H1 & H2).
  destruct n as [|y n].
  - cbn [map join_dot]. unfold escapify. cbn [flat_map]. rewrite E. cbn [app]. eauto.
  - change (join_dot (map escapify ((c :: x) :: y :: n)))
      with (escapify (c :: x) ++ 46 :: join_dot (map escapify (y :: n))).
    unfold escapify at 1. cbn [flat_map]. rewrite E. cbn [app]. eauto.
Qed.

(* ---------- the round trip ---------- *)

Theorem text_roundtrip_origin (n : name) (origin : option name) :
  Valid n -> AllBytes n ->
  from_text (to_text n) origin =
    if is_absolute n then Ok n
    else match origin with Some o => mk_name (n ++ o) | None => Ok n end.
Proof.
  intros V HB. unfold name, label in *.
  destruct n as [|x n].
  { (* the empty name prints as "@" *)
    cbn. destruct origin; reflexivity. }
  destruct x as [|c x].
  { (* an empty first label: only the root name is valid *)
    destruct n as [|y n]; [reflexivity|]. exfalso. eapply Valid_head_nonempty; eauto. }
  change (to_text ((c :: x) :: n)) with (join_dot (map escapify ((c :: x) :: n))).
  destruct (join_head (c :: x) n) as (h & r & E & H64 & H46); [discriminate|].
  remember (join_dot (map escapify ((c :: x) :: n))) as text eqn:ET in *.
  assert (text = h :: r) as E' by (rewrite ET; exact E).
  rewrite from_text_generic by (rewrite E'; intros X; inversion X; congruence).
  subst text.
  destruct V as (V1 & V2 & V3).
  rewrite ft_join by (try discriminate; assumption).
  rewrite app_nil_r, rev_involutive.
  change (last ((c :: x) :: n) [] :: rev (removelast ((c :: x) :: n)))
    with (rev [last ((c :: x) :: n) []] ++ rev (removelast ((c :: x) :: n))).
  rewrite <- rev_app_distr, rev_involutive, <- app_removelast_last by discriminate.
  unfold finish. rewrite ends_with_root_abs.
  assert (Valid ((c :: x) :: n)) as V by (repeat split; assumption).
  destruct (is_absolute ((c :: x) :: n)); cbn [negb].
  - apply mk_name_valid, V.
  - destruct origin; [reflexivity|]. apply mk_name_valid, V.
Qed.

Theorem text_roundtrip (n : name) : Valid n -> AllBytes n -> from_text (to_text n) None = Ok n.
Proof. intros V HB. rewrite text_roundtrip_origin by assumption. destruct (is_absolute n); reflexivity. Qed.

(* ---------- no Python-level exception ---------- *)

Lemma ft_loop_no_internal : forall t L lab esc ed tot e, ft_loop t L lab esc ed tot <> Internal e.
Proof.
  induction t as [|c t IH]; intros; [discriminate|].
  cbn [ft_loop]. destruct esc.
  - destruct ed as [|ed'].
    + destruct (is_digit c); apply IH.
    + destruct (negb (is_digit c)); [discriminate|].
      destruct ed' as [|[|?]]; try apply IH.
      destruct (_ >? 255); [discriminate|apply IH].
  - destruct (c =? 46); [destruct lab; [discriminate|apply IH]|].
    destruct (c =? 92); apply IH.
Qed.

Theorem from_text_no_internal text origin e : from_text text origin <> Internal e.
Proof.
  unfold from_text.
  set (t := match text with [64] => [] | _ => text end).
  assert (forall X, (do labels <- X;
             mk_name (if negb (ends_with_root labels)
                      then match origin with Some o => labels ++ o | None => labels end
                      else labels)) = Internal e -> exists e', X = Internal e') as B.
  { intros X. destruct X; cbn [bind]; intros H; [|discriminate|eauto].
    exfalso. eapply mk_name_never_internal; eauto. }
  assert (forall (B0 : Type) (x y : res B0), (x <> Internal e) -> (y <> Internal e) ->
            match t with [46] => x | _ => y end <> Internal e) as M.
  { intros B0 x y Hx Hy. destruct (list_eq_dec Z.eq_dec t [46]) as [->|Hn]; [exact Hx|].
    rewrite dot_match by assumption. exact Hy. }
  apply M; [apply mk_name_never_internal|].
  intros H. apply B in H. destruct H as [e' H].
  destruct t as [|h t']; [discriminate|].
  pose proof (ft_loop_no_internal (h :: t') [] [] false 0%nat 0) as NI.
  destruct (ft_loop (h :: t') [] [] false 0%nat 0) as [[[labels lab] esc]|e0|e0].
  - destruct esc; discriminate.
  - discriminate.
  - eapply NI; reflexivity.
Qed.

(* ---------- omit_final_dot ---------- *)

Lemma AllBytes_app_l (a b : name) : AllBytes (a ++ b) -> AllBytes a.
Proof. unfold AllBytes. intros H. apply Forall_app in H. tauto. Qed.

(* the text without the final dot, read back against the root origin, is the name again *)
Theorem text_roundtrip_omit (n : name) :
  Valid n -> AllBytes n -> is_absolute n = true ->
  from_text (to_text_omit n) (Some root) = Ok n.
Proof.
  intros V HB A. apply is_absolute_true in A. destruct A as [p ->].
  destruct p as [|x p]; [reflexivity|].
  assert (Valid (x :: p)) as Vp by (eapply Valid_prefix; exact V).
  assert (AllBytes (x :: p)) as Bp by (eapply AllBytes_app_l; exact HB).
  assert (is_absolute (x :: p) = false) as Ap by (eapply (Valid_prefix_relative (x :: p) [] []); exact V).
  assert (to_text_omit ((x :: p) ++ [[]]) = to_text (x :: p)) as ->.
  { unfold to_text_omit. rewrite is_absolute_last, removelast_last.
    assert (x <> []) as Hx.
    { destruct V as (_ & _ & V3). rewrite removelast_last in V3. inversion V3; assumption. }
    destruct x as [|c x]; [congruence|].
    cbn [app]. destruct (p ++ [[]]) eqn:E; [destruct p; discriminate|].
    destruct p as [|y p]; reflexivity. }
  rewrite text_roundtrip_origin by assumption. rewrite Ap.
  apply mk_name_valid. exact V.
Qed.

(* ---------- parse / print / parse is stable ---------- *)

Definition byte_l (l : list Z) : Prop := Forall (fun c => 0 <= c < 256) l.

Lemma ft_loop_bytes : forall t L lab esc ed tot L' lab' esc',
  byte_l t -> Forall byte_l L -> byte_l lab ->
  (esc = true -> ed <> 0%nat -> 0 <= tot) ->
  ft_loop t L lab esc ed tot = Ok (L', lab', esc') ->
  Forall byte_l L' /\ byte_l lab'.
Proof.
  induction t as [|c t IH]; intros L lab esc ed tot L' lab' esc' Ht HL Hlab Htot H.
  - cbn in H. inversion H; subst. auto.
  - inversion Ht as [|? ? Hc Ht']; subst. cbn [ft_loop] in H.
    assert (byte_l (c :: lab)) as Hclab by (constructor; assumption).
    destruct esc.
    + destruct ed as [|ed'].
      * destruct (is_digit c) eqn:D.
        -- apply (IH _ _ _ _ _ _ _ _ Ht' HL Hlab) in H; [exact H|].
           intros _ _. unfold is_digit in D. lia.
        -- apply (IH _ _ _ _ _ _ _ _ Ht' HL Hclab) in H; [exact H|]. intros; discriminate.
      * destruct (negb (is_digit c)) eqn:D; [discriminate|].
        apply negb_false_iff in D. unfold is_digit in D.
        assert (0 <= tot) as T by (apply Htot; [reflexivity|discriminate]).
        destruct ed' as [|[|ed'']].
        -- apply (IH _ _ _ _ _ _ _ _ Ht' HL Hlab) in H; [exact H|]. intros _ _. lia.
        -- destruct (tot * 10 + (c - 48) >? 255) eqn:G; [discriminate|].
           assert (byte_l ((tot * 10 + (c - 48)) :: lab)) as Hn by (constructor; [lia|assumption]).
           apply (IH _ _ _ _ _ _ _ _ Ht' HL Hn) in H; [exact H|]. intros; discriminate.
        -- apply (IH _ _ _ _ _ _ _ _ Ht' HL Hlab) in H; [exact H|]. intros _ _. lia.
    + destruct (c =? 46).
      * destruct lab as [|x lab0] eqn:El; [discriminate|].
        assert (Forall byte_l (rev (x :: lab0) :: L)) as HL2
          by (constructor; [apply Forall_rev; exact Hlab|exact HL]).
        apply (IH _ _ _ _ _ _ _ _ Ht' HL2 (Forall_nil _)) in H; [exact H|]. intros; discriminate.
      * destruct (c =? 92).
        -- apply (IH _ _ _ _ _ _ _ _ Ht' HL Hlab) in H; [exact H|]. intros _ Hn. congruence.
        -- apply (IH _ _ _ _ _ _ _ _ Ht' HL Hclab) in H; [exact H|]. intros; discriminate.
Qed.

Lemma AllBytes_iff (n : name) : AllBytes n <-> Forall byte_l n.
Proof. reflexivity. Qed.

Theorem from_text_bytes text origin n :
  byte_l text -> (forall o, origin = Some o -> AllBytes o) ->
  from_text text origin = Ok n -> AllBytes n.
Proof.
  intros Ht Ho H. unfold from_text in H. cbv zeta in H.
  set (t := match text with [64] => [] | _ => text end) in H.
  assert (byte_l t) as Htt.
  { destruct (list_eq_dec Z.eq_dec text [64]) as [->|Hn]; [constructor|].
    unfold t. rewrite at_match by assumption. exact Ht. }
  destruct (list_eq_dec Z.eq_dec t [46]) as [Et|Et].
  { rewrite Et in H. apply mk_name_ok in H. destruct H as [-> _]. repeat constructor. }
  rewrite dot_match in H by assumption.
  assert (forall labels : name, AllBytes labels ->
            mk_name (if negb (ends_with_root labels)
                     then match origin with Some o => labels ++ o | None => labels end
                     else labels) = Ok n -> AllBytes n) as Fin.
  { intros labels HB M. apply mk_name_ok in M. destruct M as [-> _].
    destruct (negb (ends_with_root labels)); [|exact HB].
    destruct origin as [o|]; [|exact HB]. apply Forall_app. split; [exact HB|apply Ho; reflexivity]. }
  destruct t as [|h t'].
  { cbn [bind] in H. apply (Fin [] ); [constructor|exact H]. }
  destruct (ft_loop (h :: t') [] [] false 0%nat 0) as [[[labels lab] esc]| |] eqn:E; cbn [bind] in H; try discriminate.
  destruct esc; cbn [bind] in H; [discriminate|].
  assert (false = true -> 0%nat <> 0%nat -> 0 <= 0) as H00 by (intros; lia).
  destruct (ft_loop_bytes _ _ _ _ _ _ _ _ _ Htt (Forall_nil _) (Forall_nil _) H00 E) as [HL Hlab].
  apply (Fin (rev (rev lab :: labels))); [|exact H].
  apply Forall_rev. constructor; [apply Forall_rev; exact Hlab|exact HL].
Qed.

(* any text the library accepts yields a name whose printed form parses back to that name *)
Theorem text_normal_form text origin n :
  byte_l text -> (forall o, origin = Some o -> AllBytes o) ->
  from_text text origin = Ok n ->
  AllBytes n /\ from_text (to_text n) None = Ok n.
Proof.
  intros Ht Ho H. pose proof (from_text_bytes _ _ _ Ht Ho H) as HB. split; [exact HB|].
  apply text_roundtrip; [|exact HB].
  unfold from_text in H. cbv zeta in H.
  set (t := match text with [64] => [] | _ => text end) in H.
  destruct (list_eq_dec Z.eq_dec t [46]) as [Et|Et].
  - rewrite Et in H. apply mk_name_ok in H. destruct H as [-> V]. exact V.
  - rewrite dot_match in H by assumption. unfold bind in H.
    destruct (match t with [] => Ok [] | _ :: _ => _ end) as [labels| |]; try discriminate.
    apply mk_name_ok in H. destruct H as [-> V]. exact V.
Qed.
