(* EUI48 / EUI64 (dns/rdtypes/euibase.py): the octets printed as hex pairs joined by "-" are read back
   (length check, dash positions, dashes removed, unhexlify) as the same octets, for every length. *)
From DV Require Import Base.Prelude Model.NameM Model.TokM Model.RdTextM.
From DV Require Import Proofs.TokEsc Proofs.TokWords Proofs.TokHex.
Open Scope Z_scope.

Ltac Zify.zify_post_hook ::= Z.to_euclidean_division_equations.

Definition hexpair (x : Z) : list Z := [hexdigit (x / 16); hexdigit (x mod 16)].

Lemma hexlify_cons x b : hexlify (x :: b) = hexpair x ++ hexlify b.
Proof. reflexivity. Qed.

Lemma chunks_hex b : forall f, (length (hexlify b) <= f)%nat -> chunks_fuel f 2 (hexlify b) = map hexpair b.
Proof.
  induction b as [|x b IH]; intros f Hf.
  - destruct f; reflexivity.
  - rewrite hexlify_cons in *. cbn [app hexpair length] in Hf. destruct f as [|f]; [lia|].
    cbn [chunks_fuel hexpair app firstn skipn map]. f_equal. apply IH. lia.
Qed.

Lemma eui_text_eq b : eui_to_text b = join_sep [45] (map hexpair b).
Proof.
  unfold eui_to_text, wordbreak. change (2 <=? 0) with false. cbv iota.
  change (Z.to_nat 2) with 2%nat. rewrite chunks_hex by lia. reflexivity.
Qed.

Lemma hexdigit_ne45 v : 0 <= v < 16 -> (hexdigit v =? 45) = false.
Proof. intros Hv. unfold hexdigit. destruct (v <? 10); lia. Qed.

Lemma join_pairs_cons x y b :
  join_sep [45] (map hexpair (x :: y :: b))
  = hexdigit (x / 16) :: hexdigit (x mod 16) :: 45 :: join_sep [45] (map hexpair (y :: b)).
Proof. reflexivity. Qed.

Lemma eui_text_facts b : forall x, all_bytes (x :: b) = true ->
  let t := join_sep [45] (map hexpair (x :: b)) in
  length t = (3 * length (x :: b) - 1)%nat /\ eui_dashes_ok t = true /\
  filter (fun c => negb (c =? 45)) t = hexlify (x :: b) /\ forallb safe t = true.
Proof.
  induction b as [|y b IH]; intros x Hb; cbn [all_bytes forallb] in Hb; apply andb_true_iff in Hb as [Hx Hb];
    apply is_byte_range in Hx;
    pose proof (hexdigit_ne45 (x / 16) ltac:(lia)) as N1; pose proof (hexdigit_ne45 (x mod 16) ltac:(lia)) as N2;
    destruct (hexdigit_safe (x / 16) ltac:(lia)) as [S1 _]; destruct (hexdigit_safe (x mod 16) ltac:(lia)) as [S2 _].
  - cbv zeta. cbn [map join_sep hexpair length eui_dashes_ok filter forallb]. rewrite N1, N2, S1, S2.
    cbn [negb]. repeat split; reflexivity.
  - cbv zeta. rewrite join_pairs_cons. destruct (IH y Hb) as (I1 & I2 & I3 & I4). cbv zeta in I1, I2, I3, I4.
    cbn [length eui_dashes_ok filter forallb]. rewrite N1, N2, S1, S2, I2, I3, I4. rewrite I1.
    change (45 =? 45) with true. cbn [negb andb]. split; [cbn [length]; lia|]. split; [reflexivity|].
    split; [|reflexivity]. rewrite (hexlify_cons x (y :: b)). reflexivity.
Qed.

Theorem eui_roundtrip n b : all_bytes b = true -> length b = n -> (0 < n)%nat ->
  eui_from_text n (eui_to_text b) = Ok b /\ forallb safe (eui_to_text b) = true /\ eui_to_text b <> [].
Proof.
  intros Hb Hl Hn. destruct b as [|x b]; [cbn in Hl; lia|].
  destruct (eui_text_facts b x Hb) as (F1 & F2 & F3 & F4). cbv zeta in F1, F2, F3, F4.
  rewrite eui_text_eq. split; [|split].
  - unfold eui_from_text. rewrite F1, Hl, Nat.eqb_refl, F2, F3. cbn [negb].
    destruct (hexlify_safe (x :: b) Hb) as [_ Ha]. rewrite utf8_ascii by exact Ha. cbn [bind].
    rewrite unhexlify_hexlify by exact Hb. reflexivity.
  - exact F4.
  - intros E. rewrite E in F1. cbn [length] in F1. lia.
Qed.
