(* NSEC3 next hashed owner name: base32hex without padding, as printed by NSEC3._next_text and read
   back by NSEC3.from_text (upper-casing, translation to the standard alphabet, re-padding,
   base64.b32decode): decode (encode d) = d for every octet string. *)
From DV Require Import Base.Prelude Model.NameM Model.TokM Model.RdTextM.
From DV Require Import Proofs.TokEsc Proofs.TokWords Proofs.RdTextAddr.
Open Scope Z_scope.

Ltac Zify.zify_post_hook ::= Z.to_euclidean_division_equations.

Definition b32_digit_ok (v : Z) : bool :=
  match b32hex_val (hexdigit v) with Some v' => v' =? v | None => false end
  && negb (hexdigit v =? 61) && safe (hexdigit v) && (0 <=? hexdigit v) && (hexdigit v <? 128).

Lemma b32_digit_all : forallb b32_digit_ok (map Z.of_nat (seq 0 32)) = true.
Proof. vm_compute. reflexivity. Qed.

Lemma b32_digit v : 0 <= v < 32 ->
  b32hex_val (hexdigit v) = Some v /\ hexdigit v <> 61 /\ safe (hexdigit v) = true /\ 0 <= hexdigit v < 128.
Proof.
  intros Hv. pose proof b32_digit_all as H. rewrite forallb_forall in H. specialize (H v).
  assert (Hin : In v (map Z.of_nat (seq 0 32))).
  { rewrite <- (Z2Nat.id v) by lia. apply in_map. apply in_seq. lia. }
  specialize (H Hin). unfold b32_digit_ok in H.
  apply andb_true_iff in H as [H A5]. apply andb_true_iff in H as [H A4]. apply andb_true_iff in H as [H A3].
  apply andb_true_iff in H as [A1 A2]. destruct (b32hex_val (hexdigit v)) as [v'|]; [|discriminate].
  apply Z.eqb_eq in A1. subst v'. apply negb_true_iff in A2. repeat split; try assumption; lia.
Qed.

Fixpoint list_ind5 {A} (P : list A -> Prop) (H0 : P []) (H1 : forall a, P [a]) (H2 : forall a b, P [a; b])
         (H3 : forall a b c, P [a; b; c]) (H4 : forall a b c d, P [a; b; c; d])
         (H5 : forall a b c d e r, P r -> P (a :: b :: c :: d :: e :: r)) (l : list A) : P l :=
  match l with
  | [] => H0
  | [a] => H1 a
  | [a; b] => H2 a b
  | [a; b; c] => H3 a b c
  | [a; b; c; d] => H4 a b c d
  | a :: b :: c :: d :: e :: r => H5 a b c d e r (list_ind5 P H0 H1 H2 H3 H4 H5 r)
  end.

Definition v32 (v : Z) : Prop := 0 <= v < 32.

Lemma b32_group_range b0 b1 b2 b3 b4 : 0 <= b0 < 256 -> 0 <= b1 < 256 -> 0 <= b2 < 256 -> 0 <= b3 < 256 -> 0 <= b4 < 256 ->
  Forall v32 (b32_group b0 b1 b2 b3 b4) /\
  b32_bytes (b0 / 8) ((b0 mod 8) * 4 + b1 / 64) ((b1 / 2) mod 32) ((b1 mod 2) * 16 + b2 / 16)
            ((b2 mod 16) * 2 + b3 / 128) ((b3 / 4) mod 32) ((b3 mod 4) * 8 + b4 / 32) (b4 mod 32)
  = [b0; b1; b2; b3; b4].
Proof.
  intros. split.
  - unfold b32_group, v32. repeat constructor; lia.
  - unfold b32_bytes. repeat f_equal; lia.
Qed.

Lemma bytes5 d : all_bytes d = true -> Forall (fun b => 0 <= b < 256) d.
Proof.
  unfold all_bytes. rewrite forallb_forall. intros H. apply Forall_forall. intros x Hx. apply is_byte_range, H, Hx.
Qed.

Theorem b32_values_roundtrip d : all_bytes d = true ->
  Forall v32 (b32_values d) /\ b32_decode_values (b32_values d) = Ok d.
Proof.
  induction d as [|a|a b|a b c|a b c e|a b c e f r IH] using list_ind5; intros Hd; apply bytes5 in Hd.
  - split; [constructor|reflexivity].
  - inversion Hd; subst. cbn [b32_values firstn b32_group].
    split; [unfold v32; repeat constructor; lia|]. cbn [b32_decode_values b32_bytes firstn]. f_equal. f_equal. lia.
  - inversion Hd as [|? ? Ha Hd1]; inversion Hd1; subst. cbn [b32_values firstn b32_group].
    split; [unfold v32; repeat constructor; lia|]. cbn [b32_decode_values b32_bytes firstn]. f_equal. repeat f_equal; lia.
  - inversion Hd as [|? ? Ha Hd1]; inversion Hd1 as [|? ? Hb Hd2]; inversion Hd2; subst. cbn [b32_values firstn b32_group].
    split; [unfold v32; repeat constructor; lia|]. cbn [b32_decode_values b32_bytes firstn]. f_equal. repeat f_equal; lia.
  - inversion Hd as [|? ? Ha Hd1]; inversion Hd1 as [|? ? Hb Hd2]; inversion Hd2 as [|? ? Hc Hd3]; inversion Hd3; subst.
    cbn [b32_values firstn b32_group].
    split; [unfold v32; repeat constructor; lia|]. cbn [b32_decode_values b32_bytes firstn]. f_equal. repeat f_equal; lia.
  - inversion Hd as [|? ? Ha Hd1]; inversion Hd1 as [|? ? Hb Hd2]; inversion Hd2 as [|? ? Hc Hd3];
      inversion Hd3 as [|? ? He Hd4]; inversion Hd4 as [|? ? Hf Hr]; subst.
    assert (Hr' : all_bytes r = true).
    { unfold all_bytes. rewrite forallb_forall. rewrite Forall_forall in Hr. intros x Hx. specialize (Hr x Hx). unfold is_byte. lia. }
    destruct (IH Hr') as [I1 I2]. destruct (b32_group_range a b c e f Ha Hb Hc He Hf) as [G1 G2].
    change (b32_values (a :: b :: c :: e :: f :: r)) with (b32_group a b c e f ++ b32_values r). split.
    + apply Forall_app. split; assumption.
    + unfold b32_group at 1. cbn [app b32_decode_values]. rewrite I2. cbn [bind]. rewrite G2. reflexivity.
Qed.

Lemma opt_map_digits vs : Forall v32 vs -> opt_map b32hex_val (map hexdigit vs) = Some vs.
Proof.
  induction 1 as [|v vs Hv _ IH]; [reflexivity|]. cbn [map opt_map].
  destruct (b32_digit v Hv) as (E & _). rewrite E, IH. reflexivity.
Qed.

Lemma ends_with_no61 l : Forall (fun c => c <> 61) l -> ends_with [61] l = false.
Proof.
  intros H. unfold ends_with, starts_with. cbn [rev app length].
  destruct (rev l) as [|x r] eqn:E; [reflexivity|].
  assert (Hx : x <> 61).
  { rewrite Forall_forall in H. apply H. apply in_rev. rewrite E. left. reflexivity. }
  cbn [firstn zlist_eqb]. replace (x =? 61) with false by lia. reflexivity.
Qed.

Theorem b32hex_roundtrip d : all_bytes d = true -> b32hex_decode (b32hex_encode d) = Ok d.
Proof.
  intros Hd. destruct (b32_values_roundtrip d Hd) as [Hv Hr]. unfold b32hex_decode, b32hex_encode.
  assert (Hasc : forallb (fun c => (0 <=? c) && (c <? 128)) (map hexdigit (b32_values d)) = true).
  { apply forallb_forall. intros c Hc. apply in_map_iff in Hc as (v & <- & Hin). rewrite Forall_forall in Hv.
    destruct (b32_digit v (Hv v Hin)) as (_ & _ & _ & R). lia. }
  rewrite Hasc. cbn [negb].
  rewrite ends_with_no61.
  2:{ apply Forall_forall. intros c Hc. apply in_map_iff in Hc as (v & <- & Hin). rewrite Forall_forall in Hv.
      destruct (b32_digit v (Hv v Hin)) as (_ & N & _). exact N. }
  rewrite opt_map_digits by exact Hv. exact Hr.
Qed.

(* the printed hash is one tokenizer word *)
Lemma b32hex_word d : all_bytes d = true -> d <> [] ->
  forallb safe (b32hex_encode d) = true /\ b32hex_encode d <> [].
Proof.
  intros Hd Hne. destruct (b32_values_roundtrip d Hd) as [Hv _]. unfold b32hex_encode. split.
  - apply forallb_forall. intros c Hc. apply in_map_iff in Hc as (v & <- & Hin). rewrite Forall_forall in Hv.
    destruct (b32_digit v (Hv v Hin)) as (_ & _ & S & _). exact S.
  - destruct d as [|a [|b [|c [|e [|f r]]]]]; try congruence; cbn; discriminate.
Qed.
