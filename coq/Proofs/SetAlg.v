(* Set algebra of the dns.set.Set model (Model/SetM.v, section SetAlg), for an arbitrary element
   type whose == is an equivalence relation. *)
From Coq Require Import Permutation.
From DV Require Import Base.Prelude Model.SetM.
Open Scope Z_scope.

Lemma filter_filter_and {A} (f g : A -> bool) l :
  filter f (filter g l) = filter (fun x => f x && g x) l.
Proof.
  induction l as [|a l IH]; [reflexivity|]. cbn. destruct (g a); cbn.
  - rewrite andb_true_r. destruct (f a); rewrite IH; reflexivity.
  - rewrite andb_false_r. exact IH.
Qed.

Lemma filter_true {A} (l : list A) : filter (fun _ => true) l = l.
Proof. induction l; cbn; congruence. Qed.

Section SetAlgProofs.
  Variable A : Type.
  Variable eqb : A -> A -> bool.
  Hypothesis eqb_refl : forall x, eqb x x = true.
  Hypothesis eqb_sym : forall x y, eqb x y = eqb y x.
  Hypothesis eqb_trans : forall x y z, eqb x y = true -> eqb y z = true -> eqb x z = true.

  Notation mem := (mem eqb).
  Notation sadd := (sadd eqb).
  Notation sdel := (sdel eqb).

  (* no two members are equal *)
  Inductive NoDupE : list A -> Prop :=
  | ND_nil : NoDupE []
  | ND_cons : forall x s, mem x s = false -> NoDupE s -> NoDupE (x :: s).

  (* f does not distinguish equal elements *)
  Definition compat (f : A -> bool) : Prop := forall a b, eqb a b = true -> f a = f b.

  Lemma eqb_false_l x y z : eqb x y = true -> eqb x z = false -> eqb y z = false.
  Proof.
    intros H1 H2. destruct (eqb y z) eqn:E; [|reflexivity].
    rewrite (eqb_trans _ _ _ H1 E) in H2. discriminate.
  Qed.

  Lemma eqb_congr_r x y z : eqb x y = true -> eqb z x = eqb z y.
  Proof.
    intros H. destruct (eqb z x) eqn:E1, (eqb z y) eqn:E2; try reflexivity.
    - rewrite (eqb_trans _ _ _ E1 H) in E2. discriminate.
    - rewrite eqb_sym in H. rewrite (eqb_trans _ _ _ E2 H) in E1. discriminate.
  Qed.

  Lemma mem_true_iff x s : mem x s = true <-> exists k, In k s /\ eqb k x = true.
  Proof. unfold SetM.mem. rewrite existsb_exists. reflexivity. Qed.

  Lemma mem_false_iff x s : mem x s = false <-> forall k, In k s -> eqb k x = false.
  Proof.
    split.
    - intros H k Hk. destruct (eqb k x) eqn:E; [|reflexivity].
      assert (mem x s = true) by (apply mem_true_iff; eauto). congruence.
    - intros H. destruct (mem x s) eqn:E; [|reflexivity].
      apply mem_true_iff in E as (k & Hk & E). rewrite (H k Hk) in E. discriminate.
  Qed.

  Lemma mem_congr x y s : eqb x y = true -> mem x s = mem y s.
  Proof.
    intros H. unfold SetM.mem. induction s as [|k r IH]; cbn; [reflexivity|].
    rewrite IH, (eqb_congr_r _ _ k H). reflexivity.
  Qed.

  Lemma mem_compat s : compat (fun x => mem x s).
  Proof. intros a b H. apply mem_congr, H. Qed.

  Lemma mem_app x s t : mem x (s ++ t) = mem x s || mem x t.
  Proof. unfold SetM.mem. apply existsb_app. Qed.

  Lemma mem_cons x k s : mem x (k :: s) = eqb k x || mem x s.
  Proof. reflexivity. Qed.

  Lemma mem_In x s : In x s -> mem x s = true.
  Proof. intros H. apply mem_true_iff. exists x. auto. Qed.

  Lemma mem_sadd x y s : mem x (sadd y s) = mem x s || eqb y x.
  Proof.
    unfold SetM.sadd. destruct (mem y s) eqn:E.
    - destruct (eqb y x) eqn:E2; [|rewrite orb_false_r; reflexivity].
      rewrite <- (mem_congr _ _ s E2), E. reflexivity.
    - rewrite mem_app. cbn. rewrite orb_false_r. reflexivity.
  Qed.

  (* ---------- NoDupE ---------- *)

  Lemma nodup_snoc s x : NoDupE s -> mem x s = false -> NoDupE (s ++ [x]).
  Proof.
    induction 1 as [|k r Hk Hr IH]; intros Hx; cbn.
    - constructor; [reflexivity|constructor].
    - rewrite mem_cons in Hx. apply orb_false_iff in Hx as [Hkx Hxr].
      constructor; [|apply IH, Hxr].
      rewrite mem_app, Hk. cbn. rewrite eqb_sym, Hkx. reflexivity.
  Qed.

  Lemma nodup_sadd x s : NoDupE s -> NoDupE (sadd x s).
  Proof.
    intros H. unfold SetM.sadd. destruct (mem x s) eqn:E; [exact H|apply nodup_snoc; assumption].
  Qed.

  Lemma mem_filter f x s : compat f -> mem x (filter f s) = mem x s && f x.
  Proof.
    intros Hf. induction s as [|k r IH]; [reflexivity|]. cbn [filter].
    destruct (f k) eqn:Fk; rewrite !mem_cons, ?IH.
    - destruct (eqb k x) eqn:E; cbn; [|reflexivity]. rewrite <- (Hf _ _ E), Fk. reflexivity.
    - destruct (eqb k x) eqn:E; cbn; [|reflexivity]. rewrite <- (Hf _ _ E), Fk.
      rewrite andb_false_r. reflexivity.
  Qed.

  Lemma mem_filter_false f x s : mem x s = false -> mem x (filter f s) = false.
  Proof.
    rewrite !mem_false_iff. intros H k Hk. apply filter_In in Hk as [Hk _]. auto.
  Qed.

  Lemma nodup_filter f s : NoDupE s -> NoDupE (filter f s).
  Proof.
    induction 1 as [|k r Hk Hr IH]; cbn; [constructor|].
    destruct (f k); [constructor; [apply mem_filter_false, Hk|exact IH]|exact IH].
  Qed.

  Lemma nodup_app_l s t : NoDupE (s ++ t) -> NoDupE s.
  Proof.
    induction s as [|k r IH]; cbn; intros H; [constructor|].
    inversion H as [|? ? Hk Hr]; subst. constructor; [|apply IH, Hr].
    rewrite mem_app in Hk. apply orb_false_iff in Hk. tauto.
  Qed.

  Lemma nodup_app s t :
    NoDupE s -> NoDupE t -> (forall x, In x t -> mem x s = false) -> NoDupE (s ++ t).
  Proof.
    intros Hs Ht. revert s Hs. induction Ht as [|x t Hx Ht IH]; intros s Hs H.
    - rewrite app_nil_r. exact Hs.
    - change (s ++ x :: t) with (s ++ [x] ++ t). rewrite app_assoc. apply IH.
      + apply nodup_snoc; [exact Hs|]. apply H. left. reflexivity.
      + intros y Hy. rewrite mem_app. rewrite (H y (or_intror Hy)). cbn.
        rewrite orb_false_r. rewrite mem_false_iff in Hx. rewrite eqb_sym. apply Hx, Hy.
  Qed.

  (* del self.items[x] on a duplicate-free key list removes every key equal to x *)
  Lemma sdel_filter x s : NoDupE s -> sdel x s = filter (fun k => negb (eqb k x)) s.
  Proof.
    induction 1 as [|k r Hk Hr IH]; [reflexivity|]. cbn.
    destruct (eqb k x) eqn:E; cbn; [|rewrite IH; reflexivity].
    symmetry. rewrite (mem_congr _ _ r E) in Hk. rewrite mem_false_iff in Hk.
    rewrite <- (filter_ext_in (fun _ => true)).
    - clear. induction r; cbn; congruence.
    - intros a Ha. rewrite (Hk a Ha). reflexivity.
  Qed.

  Lemma neq_compat x : compat (fun k => negb (eqb k x)).
  Proof.
    intros a b H. f_equal. rewrite !(eqb_sym _ x). apply eqb_congr_r, H.
  Qed.

  Lemma nodup_sdel x s : NoDupE s -> NoDupE (sdel x s).
  Proof. intros H. rewrite sdel_filter by exact H. apply nodup_filter, H. Qed.

  Lemma mem_sdel x y s : NoDupE s -> mem y (sdel x s) = mem y s && negb (eqb y x).
  Proof.
    intros H. rewrite sdel_filter by exact H. apply (mem_filter _ y s (neq_compat x)).
  Qed.

  (* without the duplicate-freeness: members not equal to x survive *)
  Lemma mem_sdel_other x y s : mem y s = true -> eqb x y = false -> mem y (sdel x s) = true.
  Proof.
    induction s as [|k r IH]; [discriminate|]. cbn [SetM.sdel]. rewrite mem_cons.
    intros H Hxy. destruct (eqb k x) eqn:E.
    - destruct (eqb k y) eqn:E2; [|exact H].
      rewrite eqb_sym in E. rewrite (eqb_trans _ _ _ E E2) in Hxy. discriminate.
    - rewrite mem_cons. destruct (eqb k y); [reflexivity|]. apply IH; assumption.
  Qed.

  Lemma length_sdel x s : mem x s = true -> S (length (sdel x s)) = length s.
  Proof.
    induction s as [|k r IH]; cbn; [discriminate|].
    destruct (eqb k x); [reflexivity|]. cbn. intros H. rewrite IH by exact H. reflexivity.
  Qed.

  (* ---------- update / union ---------- *)

  Lemma nodup_supdate o s : NoDupE s -> NoDupE (supdate eqb s o).
  Proof.
    unfold SetM.supdate. revert s. induction o as [|x o IH]; intros s H; cbn; [exact H|].
    apply IH, nodup_sadd, H.
  Qed.

  Lemma mem_supdate x o s : mem x (supdate eqb s o) = mem x s || mem x o.
  Proof.
    unfold SetM.supdate. revert s. induction o as [|y o IH]; intros s; cbn [fold_left].
    - cbn. rewrite orb_false_r. reflexivity.
    - rewrite IH, mem_sadd, mem_cons. rewrite <- orb_assoc. reflexivity.
  Qed.

  (* first-insertion order of a merge *)
  Lemma supdate_order o s :
    NoDupE o -> supdate eqb s o = s ++ filter (fun x => negb (mem x s)) o.
  Proof.
    unfold SetM.supdate. intros Ho. revert s.
    induction Ho as [|x o Hx Ho IH]; intros s; cbn [fold_left filter].
    - rewrite app_nil_r. reflexivity.
    - rewrite IH. unfold SetM.sadd. destruct (mem x s) eqn:E; cbn [negb].
      + reflexivity.
      + rewrite <- app_assoc. cbn. f_equal. f_equal.
        apply filter_ext_in. intros y Hy. rewrite mem_app. cbn.
        rewrite mem_false_iff in Hx. rewrite eqb_sym, (Hx y Hy), !orb_false_r. reflexivity.
  Qed.

  (* ---------- intersection ---------- *)

  Lemma inter_fold o l acc :
    NoDupE acc ->
    fold_left (fun acc x => if mem x o then acc else sdel x acc) l acc
    = filter (fun k => mem k o || negb (mem k l)) acc.
  Proof.
    revert acc. induction l as [|x l IH]; intros acc Hacc; cbn [fold_left].
    - rewrite <- (filter_ext (fun _ => true)).
      + clear. induction acc; cbn; congruence.
      + intros a. cbn. rewrite orb_true_r. reflexivity.
    - destruct (mem x o) eqn:E.
      + rewrite IH by exact Hacc. apply filter_ext. intros k. rewrite mem_cons.
        destruct (eqb x k) eqn:E2; cbn; [|reflexivity].
        rewrite <- (mem_congr _ _ o E2), E. reflexivity.
      + rewrite IH by (apply nodup_sdel, Hacc). rewrite sdel_filter by exact Hacc.
        rewrite filter_filter_and. apply filter_ext. intros k. rewrite mem_cons.
        rewrite (eqb_sym k x).
        destruct (eqb x k) eqn:E2; cbn.
        * rewrite <- (mem_congr _ _ o E2), E, andb_false_r. reflexivity.
        * rewrite andb_true_r. reflexivity.
  Qed.

  Lemma sinter_order s o :
    NoDupE s -> sinter_update eqb s o false = filter (fun x => mem x o) s.
  Proof.
    intros H. unfold SetM.sinter_update. rewrite inter_fold by exact H.
    apply filter_ext_in. intros k Hk. rewrite (mem_In _ _ Hk). cbn. apply orb_false_r.
  Qed.

  (* ---------- difference ---------- *)

  Lemma sdiff_order s o :
    NoDupE s -> sdiff_update eqb s o false = filter (fun x => negb (mem x o)) s.
  Proof.
    unfold SetM.sdiff_update, SetM.sdiscard. revert s.
    induction o as [|x o IH]; intros s H; cbn [fold_left].
    - rewrite <- (filter_ext (fun _ => true)); [|reflexivity].
      clear. induction s; cbn; congruence.
    - rewrite IH by (apply nodup_sdel, H). rewrite sdel_filter by exact H.
      rewrite filter_filter_and. apply filter_ext. intros k.
      rewrite mem_cons, negb_orb, (eqb_sym x k). apply andb_comm.
  Qed.

  (* ---------- symmetric difference ---------- *)

  Lemma ssym_order s o :
    NoDupE s -> NoDupE o ->
    ssym_update eqb s o false
    = filter (fun x => negb (mem x o)) s ++ filter (fun x => negb (mem x s)) o.
  Proof.
    intros Hs Ho. unfold SetM.ssym_update, SetM.sclone, SetM.sunion_update.
    rewrite sinter_order by exact Hs. rewrite supdate_order by exact Ho.
    rewrite sdiff_order.
    2:{ rewrite <- supdate_order by exact Ho. apply nodup_supdate, Hs. }
    rewrite filter_app. f_equal.
    - apply filter_ext_in. intros k Hk.
      rewrite (mem_filter _ k s (mem_compat o)), (mem_In _ _ Hk). reflexivity.
    - rewrite filter_filter_and. apply filter_ext. intros k.
      rewrite (mem_filter _ k s (mem_compat o)).
      destruct (mem k s); cbn; [rewrite andb_false_r|]; reflexivity.
  Qed.

  (* ---------- the four algorithms: duplicate-freeness, membership, order ---------- *)

  Definition salg_g (a : alg) (s o : list A) (same : bool) : list A :=
    match a with
    | AUnion => sunion_update eqb s o same
    | AInter => sinter_update eqb s o same
    | ADiff => sdiff_update eqb s o same
    | ASym => ssym_update eqb s o same
    end.

  (* the set-theoretic connective of each algorithm *)
  Definition alg_bool (a : alg) (p q : bool) : bool :=
    match a with
    | AUnion => p || q
    | AInter => p && q
    | ADiff => p && negb q
    | ASym => xorb p q
    end.

  (* the first-insertion-order normal form of each algorithm *)
  Definition alg_order (a : alg) (s o : list A) : list A :=
    match a with
    | AUnion => s ++ filter (fun x => negb (mem x s)) o
    | AInter => filter (fun x => mem x o) s
    | ADiff => filter (fun x => negb (mem x o)) s
    | ASym => filter (fun x => negb (mem x o)) s ++ filter (fun x => negb (mem x s)) o
    end.

  Lemma salg_order a s o :
    NoDupE s -> NoDupE o -> salg_g a s o false = alg_order a s o.
  Proof.
    intros Hs Ho. destruct a; cbn.
    - apply supdate_order, Ho.
    - apply sinter_order, Hs.
    - apply sdiff_order, Hs.
    - apply ssym_order; assumption.
  Qed.

  (* `self is other`: the aliased in-place forms *)
  Lemma salg_same a s :
    salg_g a s s true = match a with AUnion | AInter => s | ADiff | ASym => [] end.
  Proof. destruct a; reflexivity. Qed.

  Lemma negb_mem_compat s : compat (fun x => negb (mem x s)).
  Proof. intros a b H. f_equal. apply mem_congr, H. Qed.

  Lemma mem_alg_order a s o x :
    mem x (alg_order a s o) = alg_bool a (mem x s) (mem x o).
  Proof.
    destruct a; cbn [alg_order alg_bool].
    - rewrite mem_app, (mem_filter _ x o (negb_mem_compat s)).
      destruct (mem x s), (mem x o); reflexivity.
    - apply (mem_filter _ x s (mem_compat o)).
    - apply (mem_filter _ x s (negb_mem_compat o)).
    - rewrite mem_app, (mem_filter _ x s (negb_mem_compat o)), (mem_filter _ x o (negb_mem_compat s)).
      destruct (mem x s), (mem x o); reflexivity.
  Qed.

  Lemma nodup_alg_order a s o : NoDupE s -> NoDupE o -> NoDupE (alg_order a s o).
  Proof.
    intros Hs Ho. destruct a; cbn [alg_order].
    - apply nodup_app; [exact Hs|apply nodup_filter, Ho|].
      intros x Hx. apply filter_In in Hx as [_ Hx]. apply negb_true_iff, Hx.
    - apply nodup_filter, Hs.
    - apply nodup_filter, Hs.
    - apply nodup_app; [apply nodup_filter, Hs|apply nodup_filter, Ho|].
      intros x Hx. apply filter_In in Hx as [_ Hx]. apply negb_true_iff in Hx.
      apply mem_filter_false, Hx.
  Qed.

  (* In-characterisation of union / intersection / difference / symmetric difference, in-place
     form with the aliasing flag: `same = true` is only ever passed with o = s *)
  Theorem salg_mem a s o same x :
    NoDupE s -> NoDupE o -> (same = true -> o = s) ->
    mem x (salg_g a s o same) = alg_bool a (mem x s) (mem x o).
  Proof.
    intros Hs Ho Hsame. destruct same.
    - rewrite (Hsame eq_refl), salg_same. destruct a; cbn; destruct (mem x s); reflexivity.
    - rewrite salg_order by assumption. apply mem_alg_order.
  Qed.

  Theorem salg_nodup a s o same :
    NoDupE s -> NoDupE o -> (same = true -> o = s) -> NoDupE (salg_g a s o same).
  Proof.
    intros Hs Ho Hsame. destruct same.
    - rewrite (Hsame eq_refl), salg_same. destruct a; first [exact Hs|constructor].
    - rewrite salg_order by assumption. apply nodup_alg_order; assumption.
  Qed.

  (* ---------- predicates ---------- *)

  Definition subset (s o : list A) : Prop := forall x, mem x s = true -> mem x o = true.

  Theorem sissubset_spec s o : sissubset eqb s o = true <-> subset s o.
  Proof.
    unfold SetM.sissubset. rewrite forallb_forall. split.
    - intros H x Hx. apply mem_true_iff in Hx as (k & Hk & E).
      rewrite <- (mem_congr _ _ o E). apply H, Hk.
    - intros H x Hx. apply H, mem_In, Hx.
  Qed.

  Theorem sissuperset_spec s o : sissuperset eqb s o = true <-> subset o s.
  Proof. apply (sissubset_spec o s). Qed.

  Theorem sisdisjoint_spec s o :
    sisdisjoint eqb s o = true <-> forall x, mem x s = true -> mem x o = true -> False.
  Proof.
    unfold SetM.sisdisjoint. rewrite forallb_forall. split.
    - intros H x Hs Ho. apply mem_true_iff in Ho as (k & Hk & E).
      specialize (H k Hk). rewrite (mem_congr _ _ s E), Hs in H. discriminate.
    - intros H x Hx. destruct (mem x s) eqn:E; [|reflexivity].
      exfalso. apply (H x E), mem_In, Hx.
  Qed.

  (* ---------- equality ignores order ---------- *)

  Lemma subset_length s o : NoDupE s -> subset s o -> (length s <= length o)%nat.
  Proof.
    intros Hs. revert o. induction Hs as [|x s Hx Hs IH]; intros o H; cbn; [lia|].
    assert (Hxo : mem x o = true) by (apply H; rewrite mem_cons, eqb_refl; reflexivity).
    rewrite <- (length_sdel x o Hxo).
    apply le_n_S, IH. intros y Hy.
    apply mem_sdel_other; [apply H; rewrite mem_cons, Hy; apply orb_true_r|].
    destruct (eqb x y) eqn:E; [|reflexivity].
    rewrite (mem_congr _ _ s E), Hy in Hx. discriminate.
  Qed.

  Lemma subset_full s o :
    NoDupE s -> subset s o -> length s = length o -> subset o s.
  Proof.
    intros Hs H Hlen y Hy. destruct (mem y s) eqn:E; [reflexivity|exfalso].
    assert (Hsub : subset s (sdel y o)).
    { intros x Hx. apply mem_sdel_other; [apply H, Hx|].
      destruct (eqb y x) eqn:E2; [|reflexivity].
      rewrite (mem_congr _ _ s E2), Hx in E. discriminate. }
    apply subset_length in Hsub; [|exact Hs].
    pose proof (length_sdel y o Hy). lia.
  Qed.

  Theorem seq_spec s o :
    NoDupE s -> NoDupE o -> (seq eqb s o = true <-> forall x, mem x s = mem x o).
  Proof.
    intros Hs Ho. unfold SetM.seq. rewrite andb_true_iff, Nat.eqb_eq.
    change (forallb (fun x => mem x o) s) with (sissubset eqb s o). rewrite sissubset_spec.
    split.
    - intros [Hlen Hsub] x.
      pose proof (subset_full s o Hs Hsub Hlen) as Hsup.
      destruct (mem x s) eqn:E1, (mem x o) eqn:E2; try reflexivity.
      + rewrite (Hsub x E1) in E2. discriminate.
      + rewrite (Hsup x E2) in E1. discriminate.
    - intros H. assert (S1 : subset s o) by (intros x Hx; rewrite <- H; exact Hx).
      assert (S2 : subset o s) by (intros x Hx; rewrite H; exact Hx).
      split; [|exact S1].
      pose proof (subset_length s o Hs S1). pose proof (subset_length o s Ho S2). lia.
  Qed.

  Lemma mem_perm s s' x : Permutation s s' -> mem x s = mem x s'.
  Proof.
    induction 1; try congruence.
    - rewrite !mem_cons. congruence.
    - rewrite !mem_cons. destruct (eqb y x), (eqb x0 x); reflexivity.
  Qed.

  (* ---------- the remaining methods keep the keys duplicate-free ---------- *)

  Lemma nodup_sof_list l : NoDupE (sof_list eqb l).
  Proof. apply nodup_supdate. constructor. Qed.

  Lemma spop_snoc (s : list A) x s' : spop s = Ok (x, s') -> s = s' ++ [x].
  Proof.
    revert x s'. induction s as [|k r IH]; intros x s'; cbn; [discriminate|].
    destruct r as [|k2 r2].
    - intros H; inversion H; subst. reflexivity.
    - destruct (spop (k2 :: r2)) as [[y r']| |] eqn:E; try discriminate.
      intros H; inversion H; subst. cbn. f_equal. apply IH. reflexivity.
  Qed.

  Lemma nodup_spop (s : list A) x s' : NoDupE s -> spop s = Ok (x, s') -> NoDupE s'.
  Proof. intros H E. apply spop_snoc in E. subst. eapply nodup_app_l, H. Qed.

  Lemma nodup_fold_sdel l s : NoDupE s -> NoDupE (fold_left (fun acc x => sdel x acc) l s).
  Proof.
    revert s. induction l as [|x l IH]; intros s H; cbn; [exact H|]. apply IH, nodup_sdel, H.
  Qed.

  (* ---------- value semantics: the algorithms respect == ---------- *)

  Definition R (x y : A) : Prop := eqb x y = true.

  Lemma eqb_congr2 k k' x x' : R k k' -> R x x' -> eqb k x = eqb k' x'.
  Proof.
    unfold R. intros H1 H2. rewrite (eqb_congr_r _ _ k H2).
    rewrite (eqb_sym k x'), (eqb_sym k' x'). apply eqb_congr_r, H1.
  Qed.

  Lemma mem_F2 s s' x x' : Forall2 R s s' -> R x x' -> mem x s = mem x' s'.
  Proof.
    intros H Hx. induction H as [|k k' s s' Hk Hs IH]; [reflexivity|].
    rewrite !mem_cons, IH, (eqb_congr2 _ _ _ _ Hk Hx). reflexivity.
  Qed.

  Lemma filter_F2 (f f' : A -> bool) s s' :
    Forall2 R s s' -> (forall a a', R a a' -> f a = f' a') ->
    Forall2 R (filter f s) (filter f' s').
  Proof.
    intros H Hf. induction H as [|k k' s s' Hk Hs IH]; cbn; [constructor|].
    rewrite (Hf _ _ Hk). destruct (f' k'); [constructor; assumption|assumption].
  Qed.

  Lemma nodup_F2 s s' : Forall2 R s s' -> NoDupE s -> NoDupE s'.
  Proof.
    intros H. induction H as [|k k' s s' Hk Hs IH]; intros Hn; [constructor|].
    inversion Hn as [|? ? Hm Hn']; subst. constructor; [|apply IH, Hn'].
    rewrite <- (mem_F2 s s' k k' Hs Hk). exact Hm.
  Qed.

  Lemma alg_order_F2 a s s' o o' :
    Forall2 R s s' -> Forall2 R o o' -> Forall2 R (alg_order a s o) (alg_order a s' o').
  Proof.
    intros Hs Ho.
    assert (Fo : forall x x', R x x' -> mem x o = mem x' o') by (intros; apply mem_F2; assumption).
    assert (Fs : forall x x', R x x' -> mem x s = mem x' s') by (intros; apply mem_F2; assumption).
    destruct a; cbn [alg_order].
    - apply Forall2_app; [exact Hs|]. apply filter_F2; [exact Ho|]. intros; f_equal; auto.
    - apply filter_F2; [exact Hs|auto].
    - apply filter_F2; [exact Hs|]. intros; f_equal; auto.
    - apply Forall2_app; apply filter_F2; try assumption; intros; f_equal; auto.
  Qed.

  (* replacing every member of the operands by an equal element (another spelling of the same
     record) changes the result only by the same replacement, position by position *)
  Theorem salg_value_semantics a s s' o o' :
    NoDupE s -> NoDupE o -> Forall2 R s s' -> Forall2 R o o' ->
    Forall2 R (salg_g a s o false) (salg_g a s' o' false).
  Proof.
    intros Hs Ho Rs Ro.
    rewrite !salg_order; try assumption; try (eapply nodup_F2; eassumption).
    apply alg_order_F2; assumption.
  Qed.
End SetAlgProofs.
