(* C09: how txn_add rebuilds a zone record by record when the records arrive grouped by
   name / rdataset, as the printer writes them. *)
From DV Require Import Base.Prelude Model.NameM Model.ZoneTextM Proofs.ZoneTextBase Proofs.ZoneTextInv.
Open Scope Z_scope.

(* ---------- dict operations on a zone whose last key is the current name ---------- *)
Definition key_fresh (z : zone) (n : name) : Prop := Forall (fun e => name_eqb (fst e) n = false) z.

Lemma zfind_fresh z n : key_fresh z n -> zfind z n = None.
Proof. induction 1 as [|[k nd] z H _ IH]; cbn; [reflexivity|]. cbn in H. rewrite H. exact IH. Qed.

Lemma zfind_last z n nd : key_fresh z n -> zfind (z ++ [(n, nd)]) n = Some nd.
Proof.
  induction 1 as [|[k nd'] z H _ IH]; cbn.
  - rewrite name_eqb_refl. reflexivity.
  - cbn in H. rewrite H. exact IH.
Qed.

Lemma zset_last z n nd nd' : key_fresh z n -> zset (z ++ [(n, nd)]) n nd' = z ++ [(n, nd')].
Proof.
  induction 1 as [|[k nd0] z H _ IH]; cbn.
  - rewrite name_eqb_refl. reflexivity.
  - cbn in H. rewrite H, IH. reflexivity.
Qed.

(* ---------- node operations when the (type, covers) pair is new / is the last rdataset ---------- *)
Definition rds_fresh (nd : node) (ty cov : Z) : Prop := Forall (fun r => rds_match r ty cov = false) nd.

Lemma nfind_fresh nd ty cov : rds_fresh nd ty cov -> nfind nd ty cov = None.
Proof. induction 1 as [|r nd H _ IH]; cbn; [reflexivity|]. rewrite H. exact IH. Qed.

Lemma nfind_last nd r ty cov :
  rds_fresh nd ty cov -> rds_match r ty cov = true -> nfind (nd ++ [r]) ty cov = Some r.
Proof. induction 1 as [|r0 nd H _ IH]; cbn; intros Hm; [rewrite Hm; reflexivity|]. rewrite H. auto. Qed.

Lemma nremove_fresh nd ty cov : rds_fresh nd ty cov -> nremove nd ty cov = nd.
Proof. induction 1 as [|r nd H _ IH]; cbn; [reflexivity|]. rewrite H, IH. reflexivity. Qed.

Lemma nremove_last nd r ty cov :
  rds_fresh nd ty cov -> rds_match r ty cov = true -> nremove (nd ++ [r]) ty cov = nd.
Proof.
  induction 1 as [|r0 nd H _ IH]; cbn; intros Hm; [rewrite Hm; reflexivity|]. rewrite H, IH by exact Hm. reflexivity.
Qed.

(* ---------- kinds ---------- *)
(* a node that can take an rdataset of kind k without anything being displaced *)
Definition compat (nd : node) (k : nkind) : Prop :=
  match k with
  | KCname => has_kind KRegular nd = false
  | KRegular => has_kind KCname nd = false
  | KNeutral => True
  end.

Lemma filter_id {A} (p : A -> bool) l : forallb p l = true -> filter p l = l.
Proof.
  induction l as [|x l IH]; cbn; [reflexivity|]. intros H. apply andb_true_iff in H as [H1 H2].
  rewrite H1, IH by exact H2. reflexivity.
Qed.

Lemma has_kind_false_forallb k nd :
  has_kind k nd = false -> forallb (fun x => negb (nkind_eqb (rds_kind x) k)) nd = true.
Proof.
  unfold has_kind. induction nd as [|r nd IH]; cbn; [reflexivity|].
  intros H. apply orb_false_iff in H as [H1 H2]. rewrite H1, IH by exact H2. reflexivity.
Qed.

Lemma append_compat nd r : compat nd (rds_kind r) -> append_rdataset nd r = nd ++ [r].
Proof.
  unfold append_rdataset, compat. destruct nd as [|r0 nd0]; [reflexivity|].
  destruct (rds_kind r); intros H; [| reflexivity |].
  - rewrite (filter_id _ _ (has_kind_false_forallb _ _ H)). reflexivity.
  - rewrite (filter_id _ _ (has_kind_false_forallb _ _ H)). reflexivity.
Qed.

Lemma node_kind_has nd k : node_kind nd = k -> k <> KNeutral -> has_kind k nd = true.
Proof.
  unfold has_kind. induction nd as [|r nd IH]; cbn; intros H Hn; [congruence|].
  destruct (rds_kind r) eqn:E; subst; cbn; try reflexivity.
  rewrite IH by auto. apply orb_true_r.
Qed.

Lemma cname_check_compat z n nd r :
  zfind z n = Some nd -> compat nd (rds_kind r) -> cname_check z n r = Ok tt.
Proof.
  unfold cname_check, compat. intros -> H.
  destruct (node_kind nd) eqn:Ek; destruct (rds_kind r); try reflexivity.
  - rewrite (node_kind_has nd KRegular Ek) in H by discriminate. discriminate.
  - rewrite (node_kind_has nd KCname Ek) in H by discriminate. discriminate.
Qed.

Lemma compat_app nd r k : compat (nd ++ [r]) k <-> compat nd k /\ compat [r] k.
Proof.
  unfold compat. destruct k; rewrite ?has_kind_app; cbn [has_kind existsb]; rewrite ?orb_false_r;
    try tauto; rewrite orb_false_iff; tauto.
Qed.

(* ---------- the three shapes of txn_add during a grouped load ---------- *)
Definition soa_ok (zo : name) (rel : bool) (n : name) (ty : Z) : Prop :=
  ty = tSOA -> name_eqb n (if rel then [] else zo) = true.

Lemma soa_guard zo rel n ty :
  soa_ok zo rel n ty ->
  (ty =? tSOA) && negb (name_eqb n (if rel then [] else zo)) &&
  (negb (name_eqb n zo) && negb (name_eqb n [])) = false.
Proof.
  intros H. destruct (Z.eqb_spec ty tSOA) as [E|E]; [|reflexivity].
  rewrite (H E). reflexivity.
Qed.

Ltac use_soa Hs :=
  match goal with
  | |- context [if ?b then Internal iValueError else _] =>
      replace b with false by (symmetry; exact (soa_guard _ _ _ _ Hs))
  end.

(* first record of a name that is not yet in the zone *)
Lemma add_new_node zo rel z n ttl ty rd :
  key_fresh z n -> soa_ok zo rel n ty ->
  txn_add zo rel z n ttl ty rd = Ok (z ++ [(n, [mkrds ty (covers_of ty rd) ttl [rd]])]).
Proof.
  intros Hf Hs. unfold txn_add; cbv zeta. use_soa Hs. rewrite (zfind_fresh _ _ Hf).
  unfold cname_check, zput. rewrite (zfind_fresh _ _ Hf). reflexivity.
Qed.

(* first record of a new rdataset at the current (last) name *)
Lemma add_new_rds zo rel z n nd ttl ty rd :
  key_fresh z n -> soa_ok zo rel n ty ->
  rds_fresh nd ty (covers_of ty rd) ->
  compat nd (classify ty (covers_of ty rd)) ->
  txn_add zo rel (z ++ [(n, nd)]) n ttl ty rd =
  Ok (z ++ [(n, nd ++ [mkrds ty (covers_of ty rd) ttl [rd]])]).
Proof.
  intros Hf Hs Hr Hc. unfold txn_add; cbv zeta.
  use_soa Hs. rewrite (zfind_last _ _ _ Hf), (nfind_fresh _ _ _ Hr).
  rewrite (cname_check_compat _ _ nd _ (zfind_last _ _ _ Hf)) by exact Hc. cbn [bind].
  unfold zput. rewrite (zfind_last _ _ _ Hf), (zset_last _ _ _ _ Hf).
  unfold replace_rdataset. cbn [rtype rcovers]. rewrite (nremove_fresh _ _ _ Hr).
  rewrite append_compat by exact Hc. reflexivity.
Qed.

(* a further record of the current (last) rdataset at the current name *)
Lemma add_more_rd zo rel z n nd ttl ty cov rs rd :
  key_fresh z n -> soa_ok zo rel n ty ->
  rds_fresh nd ty cov ->
  compat nd (classify ty cov) ->
  covers_of ty rd = cov ->
  rs <> [] -> is_singleton ty = false ->
  existsb (rdata_eqb (canon_names ty) rd) rs = false ->
  txn_add zo rel (z ++ [(n, nd ++ [mkrds ty cov ttl rs])]) n ttl ty rd =
  Ok (z ++ [(n, nd ++ [mkrds ty cov ttl (rs ++ [rd])])]).
Proof.
  intros Hf Hs Hr Hc Hcov Hne Hsing Hdup. unfold txn_add; cbv zeta. rewrite Hcov.
  assert (Hm : rds_match (mkrds ty cov ttl rs) ty cov = true).
  { unfold rds_match. cbn. rewrite !Z.eqb_refl. reflexivity. }
  use_soa Hs. rewrite (zfind_last _ _ _ Hf), (nfind_last _ _ _ _ Hr Hm).
  unfold rds_union. cbn [rtype rcovers rttl rdatas]. rewrite Hsing, Hdup. cbn [andb].
  destruct rs as [|r0 rs']; [congruence|].
  rewrite Z.ltb_irrefl.
  set (r' := mkrds ty cov ttl ((r0 :: rs') ++ [rd])).
  assert (Hk : rds_kind r' = classify ty cov) by reflexivity.
  rewrite (cname_check_compat _ _ (nd ++ [mkrds ty cov ttl (r0 :: rs')]) _ (zfind_last _ _ _ Hf)).
  2:{ rewrite Hk. apply compat_app. split; [exact Hc|].
      unfold compat, has_kind. cbn [existsb]. unfold rds_kind. cbn [rtype rcovers].
      destruct (classify ty cov); cbn; auto. }
  cbn [bind]. unfold zput. rewrite (zfind_last _ _ _ Hf), (zset_last _ _ _ _ Hf).
  unfold replace_rdataset. subst r'. cbn [rtype rcovers]. rewrite (nremove_last _ _ _ _ Hr Hm).
  rewrite append_compat by exact Hc. reflexivity.
Qed.
