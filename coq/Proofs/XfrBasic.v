(* C13 - the first message of a transfer: serial comparison (RFC 1982), up-to-date answer,
   "use TCP", and basic facts about the section grouping. *)
From DV Require Import Base.Prelude Model.XfrM Proofs.XfrSpec Proofs.XfrSafety.

Ltac Zify.zify_post_hook ::= Z.to_euclidean_division_equations.

(* dns.serial.Serial.__lt__ is RFC 1982 section 3.2 "s1 < s2" for SERIAL_BITS = 32 *)
Lemma serial_lt_rfc1982 : forall a b,
  serial_lt a b = true <-> 0 < (b - a) mod two32 < two31.
Proof.
  intros a b. unfold serial_lt, two32, two31.
  rewrite orb_true_iff, !andb_true_iff, !Z.ltb_lt, !Z.gtb_lt. lia.
Qed.

Lemma serial_lt_irrefl : forall a, serial_lt a a = false.
Proof.
  intros a. destruct (serial_lt a a) eqn:H; [|reflexivity].
  apply serial_lt_rfc1982 in H. rewrite Z.sub_diag in H. unfold two32, two31 in H. cbn in H. lia.
Qed.

Lemma serial_lt_asym : forall a b, serial_lt a b = true -> serial_lt b a = false.
Proof.
  intros a b H. destruct (serial_lt b a) eqn:H2; [|reflexivity].
  apply serial_lt_rfc1982 in H. apply serial_lt_rfc1982 in H2. unfold two32, two31 in *. lia.
Qed.

(* with one_rr_per_rrset (IXFR) every record is its own RRset *)
Lemma group_go_true : forall rs acc, group_go true acc rs = acc ++ map single rs.
Proof.
  induction rs as [|r rs IH]; intros acc; cbn [group_go map].
  - rewrite app_nil_r. reflexivity.
  - cbn [orb]. rewrite IH, <- app_assoc. reflexivity.
Qed.

Lemma group_true : forall rs, group true rs = map single rs.
Proof. intros rs. unfold group. rewrite group_go_true. reflexivity. Qed.

(* an answer section that starts with an SOA is not merged at all (force_unique sticks) *)
Lemma group_soa_first : forall f r rs, r_type r = tSOA -> group f (r :: rs) = map single (r :: rs).
Proof.
  intros f r rs H. unfold group. cbn [group_go]. rewrite H. cbn [Z.eqb tSOA Pos.eqb orb].
  rewrite orb_true_r. rewrite group_go_true. reflexivity.
Qed.

(* without require_tsig the signature flag of a message is irrelevant *)
Lemma step_nosig : forall s r, req_tsig s = false -> step LastNoSig s r = step Last s r.
Proof.
  intros s r H. unfold step. cbn [req_tsig set_delmode]. rewrite H. reflexivity.
Qed.

Lemma loopT_nosig : forall rs s sg, req_tsig s = false -> loopT sg s rs = loop s rs.
Proof.
  induction rs as [|r rest IH]; intros s sg H; cbn [loopT]; [reflexivity|].
  assert (E : step (match rest with [] => (if sg then Last else LastNoSig) | _ :: _ => Mid end) s r =
              step (match rest with [] => Last | _ :: _ => Mid end) s r).
  { destruct rest; [|reflexivity]. destruct sg; [reflexivity|apply step_nosig, H]. }
  rewrite E. destruct (step (match rest with [] => Last | _ :: _ => Mid end) s r) as [s1 [e|]] eqn:Hs; [reflexivity|].
  apply IH. rewrite (step_req_tsig _ _ _ _ _ Hs). exact H.
Qed.

Lemma header_ok_question : forall rdt w, header_ok rdt w ->
  (match w_question w with
   | (qn, qt) :: _ => if negb (qn =? origin) then Some eQName else if negb (qt =? rdt) then Some eQType else None
   | [] => None
   end) = None.
Proof.
  intros rdt w [_ [H|[q H]]]; rewrite H; [reflexivity|].
  rewrite !Z.eqb_refl. reflexivity.
Qed.

Lemma init_ixfr : forall z ser udp, init_t false z tIXFR (Some ser) udp = inl (ixfr_init z ser udp).
Proof. reflexivity. Qed.

Lemma init_axfr : forall z ser, init_t false z tAXFR ser false = inl (axfr_init z ser).
Proof. reflexivity. Qed.

(* The first message of an IXFR whose first record is the apex SOA r0 *)
Lemma first_message_ixfr : forall z ser udp w r0 rest,
  header_ok tIXFR w -> w_records w = r0 :: rest -> apex_soa r0 ->
  process_message (ixfr_init z ser udp) (from_wire true w) =
  let s := set_soa (set_txn (ixfr_init z ser udp) (Some z)) (Some (single r0)) in
  let after (r : st * option Z) :=
    match r with
    | (s', Some e) => (s', Some e)
    | (s', None) => if is_udp s' && negb (done s') then (s', Some eUDPEnd) else (s', None)
    end in
  let ss := r_data r0 mod two32 in
  if ss =? ser then after (loop (set_done s true) (map single rest))
  else if serial_lt ss ser then (s, Some eBackwards)
  else if udp && (match rest with [] => true | _ => false end) then (s, Some eUseTCP)
  else after (loop (set_expecting s true) (map single rest)).
Proof.
  intros z ser udp w r0 rest Hh Hr [Hn Ht].
  unfold process_message. cbn [txn ixfr_init incremental pub set_txn rdtype].
  unfold from_wire. cbn [m_rcode m_question m_answer].
  destruct Hh as [Hrc Hq]. rewrite Hrc. cbn [Z.eqb negb].
  rewrite (header_ok_question tIXFR w (conj Hrc Hq)).
  rewrite Hr, group_true. cbn [map].
  cbn -[loopT serial_lt two32 single]. cbn [single s_name s_type s_data].
  rewrite Hn, Ht. cbn -[loopT serial_lt two32 single].
  rewrite !(loopT_nosig _ _ (w_tsig w)) by reflexivity.
  change (soa_serial (single r0)) with (Some (r_data r0 mod two32)). cbv iota beta.
  destruct (r_data r0 mod two32 =? ser); [reflexivity|].
  destruct (serial_lt (r_data r0 mod two32) ser); [reflexivity|].
  destruct rest; reflexivity.
Qed.

(* "goes backwards in RFC 1982 serial arithmetic": rejected, zone untouched *)
Theorem serial_backwards_rejected : forall z ser udp w ws r0 rest,
  header_ok tIXFR w -> w_records w = r0 :: rest -> apex_soa r0 ->
  serial_lt (r_data r0 mod two32) ser = true ->
  inbound_xfr z tIXFR (Some ser) udp (w :: ws) = (Error eBackwards z, 0%nat).
Proof.
  intros z ser udp w ws r0 rest Hh Hr Ha Hlt.
  unfold inbound_xfr, xfr_run. rewrite init_ixfr. cbn [Z.eqb tIXFR Pos.eqb drive].
  rewrite (first_message_ixfr z ser udp w r0 rest Hh Hr Ha). cbv zeta.
  destruct (r_data r0 mod two32 =? ser) eqn:He.
  - apply Z.eqb_eq in He. rewrite He, serial_lt_irrefl in Hlt. discriminate.
  - rewrite Hlt. reflexivity.
Qed.

(* the already-up-to-date answer: a single SOA with our serial; done, nothing changes *)
Theorem uptodate_noop : forall z ser udp w ws r0,
  header_ok tIXFR w -> w_records w = [r0] -> apex_soa r0 ->
  r_data r0 mod two32 = ser ->
  inbound_xfr z tIXFR (Some ser) udp (w :: ws) = (Done z, 1%nat).
Proof.
  intros z ser udp w ws r0 Hh Hr Ha He.
  unfold inbound_xfr, xfr_run. rewrite init_ixfr. cbn [Z.eqb tIXFR Pos.eqb drive].
  rewrite (first_message_ixfr z ser udp w r0 [] Hh Hr Ha). cbv zeta.
  rewrite He, Z.eqb_refl. cbn. rewrite andb_false_r. reflexivity.
Qed.

(* UDP: the server only sent its SOA (newer than ours): UseTCP, zone untouched *)
Theorem use_tcp_signalled : forall z ser w ws r0,
  header_ok tIXFR w -> w_records w = [r0] -> apex_soa r0 ->
  r_data r0 mod two32 <> ser -> serial_lt (r_data r0 mod two32) ser = false ->
  inbound_xfr z tIXFR (Some ser) true (w :: ws) = (Error eUseTCP z, 0%nat).
Proof.
  intros z ser w ws r0 Hh Hr Ha Hne Hlt.
  unfold inbound_xfr, xfr_run. rewrite init_ixfr. cbn [Z.eqb tIXFR Pos.eqb drive].
  rewrite (first_message_ixfr z ser true w r0 [] Hh Hr Ha). cbv zeta.
  apply Z.eqb_neq in Hne. rewrite Hne, Hlt. reflexivity.
Qed.

(* the other comparisons and the addition of dns.serial.Serial *)
Lemma serial_gt_lt : forall a b, serial_gt a b = serial_lt b a.
Proof.
  intros a b. unfold serial_gt, serial_lt.
  rewrite orb_comm. f_equal; f_equal; rewrite ?Z.gtb_ltb; reflexivity.
Qed.

(* RFC 1982 3.1/3.2: adding 0 < d < 2^31 gives a serial that is greater *)
Lemma serial_add_greater : forall a d v, 0 < d < two31 -> serial_add a d = Ok v -> serial_lt a v = true.
Proof.
  intros a d v Hd H. unfold serial_add in H.
  destruct (Z.abs d >? two31 - 1) eqn:E; [discriminate|]. inversion H; subst.
  apply serial_lt_rfc1982. unfold two31, two32 in *. lia.
Qed.
