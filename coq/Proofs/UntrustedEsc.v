(* Token.unescape / Token.unescape_to_bytes with the digit test the code really uses
   (str.isdecimal(), int(c)): for EVERY classifier dval - whatever characters it accepts as decimal
   digits and whatever values it gives them - the decoders return a value, SyntaxError or
   UnexpectedEnd (unescape_to_bytes: or UnicodeEncodeError on a lone surrogate); the conversion
   int(c) can never fail because it is only applied where dval is defined.  With the ASCII classifier
   they are the decoders of the shared TokM.v. *)
From DV Require Import Base.Prelude Model.NameM Model.ParserM Model.UntrustedM.
From DV Require Model.TokM Proofs.UntrustedText.
Open Scope Z_scope.

Section Esc.
  Variable dval : Z -> option Z.
  Import UntrustedText.

  Lemma ue_loop_g_family : forall n v acc, (length v <= n)%nat ->
    match ue_loop_g dval v acc with
    | Ok _ => True
    | Lib e => isEscErr e
    | Internal _ => False
    end.
  Proof.
    induction n as [|n IH]; intros v acc Hl.
    - destruct v; [exact Logic.I|cbn in Hl; lia].
    - destruct v as [|c r]; [exact Logic.I|]. cbn [ue_loop_g]. cbn in Hl.
      destruct (c =? 92).
      + destruct r as [|c1 r1]; [left; reflexivity|].
        destruct (dval c1) as [d1|].
        * destruct r1 as [|c2 r2]; [left; reflexivity|].
          destruct r2 as [|c3 r3]; [left; reflexivity|].
          destruct (dval c2) as [d2|]; [|right; reflexivity].
          destruct (dval c3) as [d3|]; [|right; reflexivity]. cbv zeta.
          match goal with |- context [if ?b then _ else _] => destruct b; [right; reflexivity|] end.
          apply IH. cbn in Hl. lia.
        * apply IH. cbn in Hl. lia.
      + apply IH. lia.
  Qed.

  Lemma ub_loop_g_family : forall n v acc, (length v <= n)%nat ->
    match ub_loop_g dval v acc with
    | Ok _ => True
    | Lib e => isEscErr e
    | Internal e => e = TokM.iUnicodeEncode /\ ~ Forall no_surrogate v
    end.
  Proof.
    induction n as [|n IH]; intros v acc Hl.
    - destruct v; [exact Logic.I|cbn in Hl; lia].
    - destruct v as [|c r]; [exact Logic.I|]. cbn [ub_loop_g]. cbn in Hl.
      assert (Cp : forall c0, match TokM.utf8_cp c0 with Ok _ => True | Lib _ => False | Internal e => e = TokM.iUnicodeEncode /\ ~ no_surrogate c0 end).
      { intros c0. unfold TokM.utf8_cp, no_surrogate.
        destruct (c0 <? 128); [exact Logic.I|]. destruct (c0 <? 2048); [exact Logic.I|].
        destruct ((55296 <=? c0) && (c0 <=? 57343)) eqn:E; [split; [reflexivity|lia]|].
        destruct (c0 <? 65536); exact Logic.I. }
      assert (Tl : forall (r' : list Z) acc', (length r' <= n)%nat -> (Forall no_surrogate (c :: r) -> Forall no_surrogate r') ->
                   match ub_loop_g dval r' acc' with
                   | Ok _ => True | Lib e => isEscErr e
                   | Internal e => e = TokM.iUnicodeEncode /\ ~ Forall no_surrogate (c :: r) end).
      { intros r' acc' Hr Hs. specialize (IH r' acc' Hr).
        destruct (ub_loop_g dval r' acc'); auto. destruct IH as [E N]. split; [exact E|]. intros F. apply N, Hs, F. }
      destruct (c =? 92).
      + destruct r as [|c1 r1]; [left; reflexivity|].
        destruct (dval c1) as [d1|].
        * destruct r1 as [|c2 r2]; [left; reflexivity|].
          destruct r2 as [|c3 r3]; [left; reflexivity|].
          destruct (dval c2) as [d2|]; [|right; reflexivity].
          destruct (dval c3) as [d3|]; [|right; reflexivity]. cbv zeta.
          match goal with |- context [if ?b then _ else _] => destruct b; [right; reflexivity|] end.
          apply Tl; [cbn in Hl; lia|]. intros F. inversion F as [|? ? _ F1]; inversion F1 as [|? ? _ F2];
            inversion F2 as [|? ? _ F3]; inversion F3; assumption.
        * pose proof (Cp c1) as C1. destruct (TokM.utf8_cp c1) as [b|e|e]; [|contradiction|].
          -- apply Tl; [cbn in Hl; lia|]. intros F. inversion F as [|? ? _ F1]; inversion F1; assumption.
          -- destruct C1 as [E N]. split; [exact E|]. intros F. inversion F as [|? ? _ F1]; inversion F1; auto.
      + pose proof (Cp c) as C0. destruct (TokM.utf8_cp c) as [b|e|e]; [|contradiction|].
        * apply Tl; [lia|]. intros F. inversion F; assumption.
        * destruct C0 as [E N]. split; [exact E|]. intros F. inversion F; auto.
  Qed.
End Esc.

(* Token.unescape's value loop: every classifier, every string *)
Theorem unescape_g_family dval v :
  match ue_loop_g dval v [] with
  | Ok _ => True
  | Lib e => e = TokM.eUnexpectedEnd \/ e = TokM.eSyntax
  | Internal _ => False
  end.
Proof. apply (ue_loop_g_family dval (length v)). lia. Qed.

Theorem unescape_to_bytes_g_family dval v :
  match ub_loop_g dval v [] with
  | Ok _ => True
  | Lib e => e = TokM.eUnexpectedEnd \/ e = TokM.eSyntax
  | Internal e => e = TokM.iUnicodeEncode /\ ~ Forall UntrustedText.no_surrogate v
  end.
Proof. apply (ub_loop_g_family dval (length v)). lia. Qed.

(* with the ASCII classifier these are the decoders of the shared model *)
Lemma ue_ascii_agrees : forall v acc, ue_loop_g dval_ascii v acc = TokM.ue_loop v acc.
Proof.
  intros v. remember (length v) as n eqn:Hn. revert v Hn.
  induction n as [n IH] using lt_wf_ind. intros v Hn acc.
  destruct v as [|c r]; [reflexivity|]. cbn [ue_loop_g TokM.ue_loop].
  destruct (c =? 92).
  - destruct r as [|c1 r1]; [reflexivity|]. unfold dval_ascii at 1.
    destruct (TokM.is_decimal c1).
    + destruct r1 as [|c2 r2]; [reflexivity|]. destruct r2 as [|c3 r3]; [reflexivity|].
      unfold dval_ascii. destruct (TokM.is_decimal c2); destruct (TokM.is_decimal c3); cbn [andb negb]; try reflexivity.
      cbv zeta. destruct (_ >? 255); [reflexivity|]. eapply IH; [|reflexivity]. subst n. cbn. lia.
    + eapply IH; [|reflexivity]. subst n. cbn. lia.
  - eapply IH; [|reflexivity]. subst n. cbn. lia.
Qed.

Lemma ub_ascii_agrees : forall v acc, ub_loop_g dval_ascii v acc = TokM.ub_loop v acc.
Proof.
  intros v. remember (length v) as n eqn:Hn. revert v Hn.
  induction n as [n IH] using lt_wf_ind. intros v Hn acc.
  destruct v as [|c r]; [reflexivity|]. cbn [ub_loop_g TokM.ub_loop].
  destruct (c =? 92).
  - destruct r as [|c1 r1]; [reflexivity|]. unfold dval_ascii at 1.
    destruct (TokM.is_decimal c1).
    + destruct r1 as [|c2 r2]; [reflexivity|]. destruct r2 as [|c3 r3]; [reflexivity|].
      unfold dval_ascii. destruct (TokM.is_decimal c2); destruct (TokM.is_decimal c3); cbn [andb negb]; try reflexivity.
      cbv zeta. destruct (_ >? 255); [reflexivity|]. eapply IH; [|reflexivity]. subst n. cbn. lia.
    + destruct (TokM.utf8_cp c1); try reflexivity. eapply IH; [|reflexivity]. subst n. cbn. lia.
  - destruct (TokM.utf8_cp c); try reflexivity. eapply IH; [|reflexivity]. subst n. cbn. lia.
Qed.

Theorem unescape_ascii_agrees v :
  ue_loop_g dval_ascii v [] = TokM.ue_loop v [] /\ ub_loop_g dval_ascii v [] = TokM.ub_loop v [].
Proof. split; [apply ue_ascii_agrees|apply ub_ascii_agrees]. Qed.
