(* Rdata.to_digestable (model, driven by the generated table) = RFC 4034 6.2 canonical RDATA. *)
From DV Require Import Base.Prelude Model.NameM Model.DnssecM.
From DV Require Export Proofs.DnssecRef.
Open Scope Z_scope.

Lemma wire_labels_rfc canon n : wire_labels canon n = rfc_name_wire canon n.
Proof. reflexivity. Qed.

Lemma rfc_name_wire_app low a b : rfc_name_wire low (a ++ b) = rfc_name_wire low a ++ rfc_name_wire low b.
Proof. unfold rfc_name_wire. apply flat_map_app. Qed.

(* Name.to_wire without a file/compression table: expansion, then the uncompressed form *)
Lemma to_wire_rfc n origin canon :
  to_wire n origin canon = (do a <- rfc_expand n origin; Ok (rfc_name_wire canon a)).
Proof.
  unfold to_wire, rfc_expand.
  destruct (is_absolute n); [reflexivity|].
  destruct origin as [o|]; [|reflexivity].
  destruct (is_absolute o); cbn; [|reflexivity].
  destruct (wire_length n + wire_length o >? 255); cbn; [reflexivity|].
  now rewrite !wire_labels_rfc, rfc_name_wire_app.
Qed.

Lemma find_entry_spec tbl cls ty e :
  find_entry tbl cls ty = Some e -> In e tbl /\ e_type e = ty.
Proof.
  induction tbl as [|x r IH]; cbn; [discriminate|].
  destruct ((e_class x =? cls) && (e_type x =? ty)) eqn:E.
  - intros H; inversion H; subst. apply andb_true_iff in E as [_ E]. apply Z.eqb_eq in E. auto.
  - intros H. destruct (IH H). auto.
Qed.

Lemma lookup_spec tbl cls ty e : lookup tbl cls ty = Some e -> In e tbl /\ e_type e = ty.
Proof.
  unfold lookup. destruct (find_entry tbl cls ty) eqn:E1.
  - intros H; inversion H; subst. eapply find_entry_spec; eauto.
  - apply find_entry_spec.
Qed.

Lemma dig_fields_rfc ty origin loop :
  (match loop with Some c => call_ok ty c = true | None => True end) ->
  forall fs calls,
    forallb (call_ok ty) calls = true ->
    (Nat.leb (count_names fs) (length calls) || (match loop with Some _ => true | None => false end)) = true ->
    dig_fields calls loop fs origin = rfc4034_canonical_rdata ty fs origin.
Proof.
  intros Hloop. induction fs as [|f r IH]; intros calls Hc Ha; [reflexivity|].
  destruct f as [b|n].
  - cbn [dig_fields rfc4034_canonical_rdata]. rewrite (IH calls Hc); [reflexivity|exact Ha].
  - cbn [dig_fields rfc4034_canonical_rdata].
    assert (Hstep : forall c cs, call_ok ty c = true ->
              dig_fields cs loop r origin = rfc4034_canonical_rdata ty r origin ->
              (if negb (c_none c) then Internal iCompress
               else do w <- to_wire n origin (c_canon c);
                    do rest <- dig_fields cs loop r origin; Ok (w ++ rest))
              = (do a <- rfc_expand n origin;
                 do rest <- rfc4034_canonical_rdata ty r origin;
                 Ok (rfc_name_wire (rfc_downcased ty) a ++ rest))).
    { intros c cs Hok Hr. unfold call_ok in Hok. apply andb_true_iff in Hok as [Hn Hz].
      rewrite Hn. cbn [negb]. apply eqb_prop in Hz. rewrite Hz, to_wire_rfc, Hr.
      destruct (rfc_expand n origin); reflexivity. }
    destruct calls as [|c cs].
    + destruct loop as [c|].
      * apply Hstep; [exact Hloop|]. apply IH; [reflexivity|]. now rewrite orb_true_r.
      * cbn in Ha. unfold count_names in Ha. cbn in Ha. discriminate.
    + cbn in Hc. apply andb_true_iff in Hc as [Hc1 Hc2].
      apply Hstep; [exact Hc1|]. apply IH; [exact Hc2|].
      unfold count_names in *. cbn [filter is_fname length] in Ha. exact Ha.
Qed.

Theorem digestable_eq_rfc (tbl : list entry) :
  forallb flag_ok tbl = true ->
  forall cls ty fs origin,
    arity_ok tbl cls ty fs = true ->
    digestable tbl cls ty fs origin = rfc4034_canonical_rdata ty fs origin.
Proof.
  intros Htbl cls ty fs origin Ha. unfold digestable, arity_ok in *.
  destruct (lookup tbl cls ty) as [e|] eqn:E.
  - apply lookup_spec in E as [Hin Hty]. rewrite forallb_forall in Htbl.
    specialize (Htbl e Hin). unfold flag_ok in Htbl. rewrite Hty in Htbl.
    apply andb_true_iff in Htbl as [H1 H2].
    apply dig_fields_rfc; [destruct (e_loop e); auto | exact H1 | exact Ha].
  - apply dig_fields_rfc; [exact Logic.I | reflexivity | ].
    apply Nat.eqb_eq in Ha. rewrite Ha. reflexivity.
Qed.

(* the reference never compresses and keeps the case of every name of an unlisted type:
   restated on the octets for a single-name rdata (used as a readable corollary) *)
Corollary digestable_single_name (tbl : list entry) :
  forallb flag_ok tbl = true ->
  forall cls ty pre n post,
    arity_ok tbl cls ty [FRaw pre; FName n; FRaw post] = true ->
    is_absolute n = true ->
    digestable tbl cls ty [FRaw pre; FName n; FRaw post] None
    = Ok (pre ++ rfc_name_wire (rfc_downcased ty) n ++ post ++ []).
Proof.
  intros Ht cls ty pre n post Ha Hn. rewrite (digestable_eq_rfc tbl Ht) by exact Ha.
  cbn. unfold rfc_expand. rewrite Hn. reflexivity.
Qed.
