(* Key tag (RFC 4034 appendix B), DS digest input (5.1.4), NSEC3 hash (RFC 5155 5, RFC 4648 7). *)
From DV Require Import Base.Prelude Model.NameM Model.DnssecM.
From DV Require Import Proofs.NameValid Proofs.NameOrder Proofs.DnssecRef Proofs.DnssecCanon.
Open Scope Z_scope.
Ltac Zify.zify_post_hook ::= Z.to_euclidean_division_equations.

(* ------------------------------------------------------------------ key tag *)
Fixpoint ksum (w : bytes) : Z :=
  match w with
  | a :: b :: r => (a * 256 + b) + ksum r
  | [a] => a * 256
  | [] => 0
  end.

Lemma pair_ind (P : bytes -> Prop) :
  P [] -> (forall a, P [a]) -> (forall a b r, P r -> P (a :: b :: r)) -> forall w, P w.
Proof.
  intros H0 H1 H2. fix IH 1. intros [|a [|b r]]; [exact H0|apply H1|apply H2, IH].
Qed.

Lemma rfc_ac_ksum : forall w i, Nat.even i = true -> rfc_ac w i = ksum w.
Proof.
  induction w as [| a | a b r IH] using pair_ind; intros i Hi.
  - reflexivity.
  - cbn. rewrite <- Nat.negb_even, Hi. cbn. lia.
  - cbn [rfc_ac ksum]. rewrite <- !Nat.negb_even. rewrite Nat.even_succ, <- Nat.negb_even, Hi.
    cbn [negb]. rewrite IH; [lia|]. now rewrite Nat.even_succ_succ.
Qed.

Lemma kid_loop_shift a b w : forall n i total,
  kid_loop n (S i) (a :: b :: w) total = kid_loop n i w total.
Proof.
  induction n as [|n IH]; intros i total; [reflexivity|].
  cbn [kid_loop]. unfold idx.
  replace (2 * S i)%nat with (S (S (2 * i))) by lia.
  replace (S (S (2 * i)) + 1)%nat with (S (S (2 * i + 1))) by lia.
  cbn [nth_error].
  destruct (nth_error w (2 * i)); [|reflexivity]. cbn [bind].
  destruct (nth_error w (2 * i + 1)); [|reflexivity]. cbn [bind]. apply IH.
Qed.

Lemma div2_SS n : Nat.div (S (S n)) 2 = S (Nat.div n 2).
Proof. replace (S (S n)) with (n + 1 * 2)%nat by lia. rewrite Nat.div_add by lia. lia. Qed.
Lemma mod2_SS n : Nat.modulo (S (S n)) 2 = Nat.modulo n 2.
Proof. replace (S (S n)) with (n + 1 * 2)%nat by lia. now rewrite Nat.mod_add by lia. Qed.

Definition kid_total (w : bytes) (total : Z) : res Z :=
  do t <- kid_loop (Nat.div (length w) 2) 0%nat w total;
  if negb (Nat.eqb (Nat.modulo (length w) 2) 0)
  then do l <- idx w (length w - 1)%nat; Ok (t + Z.shiftl l 8)
  else Ok t.

Lemma kid_total_ksum : forall w total, kid_total w total = Ok (total + ksum w).
Proof.
  induction w as [| a | a b r IH] using pair_ind; intros total.
  - cbn. f_equal. lia.
  - cbn. f_equal. lia.
  - unfold kid_total in *. cbn [length]. rewrite div2_SS, mod2_SS.
    cbn [kid_loop]. unfold idx at 1 2. cbn [Nat.mul Nat.add nth_error bind].
    rewrite kid_loop_shift. rewrite Z.shiftl_mul_pow2 by lia. change (2 ^ 8) with 256.
    specialize (IH (total + (a * 256 + b))).
    destruct (kid_loop (Nat.div (length r) 2) 0%nat r (total + (a * 256 + b))) as [t| |]; cbn [bind] in *;
      try discriminate.
    destruct (negb (Nat.eqb (Nat.modulo (length r) 2) 0)) eqn:E.
    + assert (Hl : (length r <> 0)%nat).
      { intros Z0. rewrite Z0 in E. cbn in E. discriminate. }
      replace (S (S (length r)) - 1)%nat with (S (S (length r - 1))) by lia.
      unfold idx in *. cbn [nth_error].
      destruct (nth_error r (length r - 1)); cbn [bind] in *; [|discriminate].
      rewrite IH. f_equal. cbn [ksum]. lia.
    + rewrite IH. f_equal. cbn [ksum]. lia.
Qed.

Lemma key_id_wire_sum alg w :
  (alg =? 1) = false -> key_id_wire alg w = Ok (rfc_keytag w).
Proof.
  intros Ha. unfold key_id_wire. rewrite Ha.
  pose proof (kid_total_ksum w 0) as H. unfold kid_total in H.
  destruct (kid_loop (Nat.div (length w) 2) 0%nat w 0) as [t| |]; cbn [bind] in *; try discriminate.
  assert (Hfin : forall T, T = ksum w ->
            Ok (Z.land (T + Z.land (Z.shiftr T 16) 65535) 65535) = Ok (rfc_keytag w)).
  { intros T ->. unfold rfc_keytag. rewrite rfc_ac_ksum by reflexivity.
    change 65535 with (Z.ones 16). rewrite !Z.land_ones by lia. rewrite Z.shiftr_div_pow2 by lia.
    reflexivity. }
  destruct (negb (Nat.eqb (Nat.modulo (length w) 2) 0)).
  - destruct (idx w (length w - 1)) as [l| |]; cbn [bind] in *; try discriminate.
    apply Hfin. assert (HH : t + Z.shiftl l 8 = 0 + ksum w) by congruence. exact HH.
  - cbn [bind]. apply Hfin. assert (HH : t = 0 + ksum w) by congruence. exact HH.
Qed.

(* algorithm 1: wire[-3], wire[-2] *)
Lemma be_int_app a b : be_int (a ++ b) = fold_left (fun acc x => acc * 256 + x) b (be_int a).
Proof. unfold be_int. apply fold_left_app. Qed.

Lemma key_id_wire_alg1 p a b c :
  0 <= a < 256 -> 0 <= b < 256 -> 0 <= c < 256 ->
  key_id_wire 1 (p ++ [a; b; c]) = Ok (rfc_keytag_alg1 (p ++ [a; b; c])).
Proof.
  intros Ha Hb Hc. unfold key_id_wire. cbn [Z.eqb Pos.eqb].
  unfold idx_end, idx. rewrite app_length. cbn [length].
  replace (Nat.ltb (length p + 3) 3) with false by (symmetry; apply Nat.ltb_ge; lia).
  replace (Nat.ltb (length p + 3) 2) with false by (symmetry; apply Nat.ltb_ge; lia).
  replace (length p + 3 - 3)%nat with (length p + 0)%nat by lia.
  replace (length p + 3 - 2)%nat with (length p + 1)%nat by lia.
  rewrite !nth_error_app2 by lia.
  replace (length p + 0 - length p)%nat with 0%nat by lia.
  replace (length p + 1 - length p)%nat with 1%nat by lia.
  cbn [nth_error bind]. f_equal.
  unfold rfc_keytag_alg1. rewrite be_int_app. cbn [fold_left].
  rewrite Z.shiftl_mul_pow2 by lia. change (2 ^ 8) with 256. lia.
Qed.

Lemma u16_bytes v : 0 <= v < 65536 -> forall x, In x (u16 v) -> 0 <= x < 256.
Proof. intros Hv x [<-|[<-|[]]]; lia. Qed.

(* a list of length >= 3 splits off its last three elements *)
Lemma last3 {A} (l : list A) : (3 <= length l)%nat -> exists p a b c, l = p ++ [a; b; c].
Proof.
  intros H. exists (firstn (length l - 3) l).
  pose proof (firstn_skipn (length l - 3) l) as E.
  assert (L : length (skipn (length l - 3) l) = 3%nat) by (rewrite skipn_length; lia).
  destruct (skipn (length l - 3) l) as [|a [|b [|c [|d r]]]]; try discriminate.
  exists a, b, c. now symmetry.
Qed.

Definition bytes_ok (l : bytes) : Prop := Forall (fun x => 0 <= x < 256) l.

(* DNSKEYBase.key_id == RFC 4034 appendix B, both branches *)
Theorem key_id_eq_rfc flags protocol alg key :
  0 <= flags < 65536 -> 0 <= protocol < 256 -> 0 <= alg < 256 -> bytes_ok key ->
  key_id flags protocol alg key =
  Ok (let rdata := u16 flags ++ [protocol; alg] ++ key in
      if alg =? 1 then rfc_keytag_alg1 rdata else rfc_keytag rdata).
Proof.
  intros Hf Hp Ha Hk. unfold key_id, as_uint, in_range.
  replace ((0 <=? flags) && (flags <? 65536)) with true by lia.
  replace ((0 <=? protocol) && (protocol <? 256)) with true by lia.
  replace ((0 <=? alg) && (alg <? 256)) with true by lia.
  cbn [bind]. unfold dnskey_wire. cbv zeta.
  destruct (alg =? 1) eqn:E.
  - apply Z.eqb_eq in E. subst alg.
    set (w := u16 flags ++ [protocol; 1] ++ key).
    assert (Hw : Forall (fun x => 0 <= x < 256) w).
    { unfold w. apply Forall_app; split.
      - apply Forall_forall. apply u16_bytes. exact Hf.
      - repeat constructor; try lia. exact Hk. }
    destruct (last3 w) as (p & a & b & c & Ew).
    { unfold w. rewrite !app_length. cbn. lia. }
    rewrite Ew in *. apply Forall_app in Hw as [_ Hw].
    inversion Hw as [|? ? Ha' Hw1]; subst. inversion Hw1 as [|? ? Hb' Hw2]; subst.
    inversion Hw2 as [|? ? Hc' _]; subst.
    apply key_id_wire_alg1; assumption.
  - apply key_id_wire_sum. exact E.
Qed.

(* out-of-range constructor arguments are refused with ValueError, never an Internal error *)
Lemma key_id_never_internal flags protocol alg key e :
  bytes_ok key -> key_id flags protocol alg key <> Internal e.
Proof.
  intros Hk. unfold key_id, as_uint.
  destruct (in_range flags 65536) eqn:E1; [|discriminate].
  destruct (in_range protocol 256) eqn:E2; [|discriminate].
  destruct (in_range alg 256) eqn:E3; [|discriminate].
  cbn [bind]. unfold in_range in *.
  pose proof (key_id_eq_rfc flags protocol alg key) as H.
  unfold key_id, as_uint, in_range in H. rewrite E1, E2, E3 in H. cbn [bind] in H.
  rewrite H; [discriminate|lia|lia|lia|exact Hk].
Qed.

(* ------------------------------------------------------------------ canonical owner names *)
Lemma lower_l_len l : zlen (lower_l l) = zlen l.
Proof. unfold zlen, lower_l. now rewrite map_length. Qed.

Lemma wire_length_lower n : wire_length (map lower_l n) = wire_length n.
Proof. induction n as [|l n IH]; [reflexivity|]. cbn [map]. rewrite !wire_length_cons, lower_l_len, IH. reflexivity. Qed.

Lemma removelast_map {A B} (f : A -> B) l : removelast (map f l) = map f (removelast l).
Proof. induction l as [|x [|y l] IH]; [reflexivity|reflexivity|]. cbn [map removelast] in *. now rewrite IH. Qed.

Lemma Valid_lower n : Valid n -> Valid (map lower_l n).
Proof.
  intros (H1 & H2 & H3). repeat split.
  - apply Forall_map. eapply Forall_impl; [|exact H1]. intros l Hl. cbn. now rewrite lower_l_len.
  - now rewrite wire_length_lower.
  - rewrite removelast_map. apply Forall_map. eapply Forall_impl; [|exact H3].
    intros l Hl. destruct l; [congruence|discriminate].
Qed.

Lemma canonicalize_ok n : Valid n -> canonicalize n = Ok (map lower_l n).
Proof. intros H. unfold canonicalize. apply mk_name_valid. now apply Valid_lower. Qed.

Lemma rfc_name_wire_lower n : rfc_name_wire false (map lower_l n) = rfc_name_wire true n.
Proof.
  unfold rfc_name_wire. induction n as [|l n IH]; [reflexivity|].
  cbn [map flat_map]. rewrite IH, lower_l_len. reflexivity.
Qed.

(* name.canonicalize().to_wire() *)
Lemma canonical_wire n :
  Valid n -> is_absolute n = true ->
  (do c <- canonicalize n; to_wire c None false) = Ok (rfc_name_wire true n).
Proof.
  intros Hv Ha. rewrite canonicalize_ok by exact Hv. cbn [bind].
  unfold to_wire. rewrite is_absolute_lower, Ha. rewrite wire_labels_rfc, rfc_name_wire_lower. reflexivity.
Qed.

(* ------------------------------------------------------------------ DS *)
Theorem make_ds_eq_rfc owner flags protocol alg key dtype :
  Valid owner -> is_absolute owner = true ->
  0 <= flags < 65536 -> 0 <= protocol < 256 -> 0 <= alg < 256 -> bytes_ok key ->
  dtype = 1 \/ dtype = 2 \/ dtype = 4 ->
  make_ds owner flags protocol alg key dtype =
  Ok (rfc_ds_input owner flags protocol alg key,
      (let rdata := u16 flags ++ [protocol; alg] ++ key in
       if alg =? 1 then rfc_keytag_alg1 rdata else rfc_keytag rdata),
      alg, dtype).
Proof.
  intros Hv Habs Hf Hp Ha Hk Hd. unfold make_ds, as_uint, in_range.
  replace ((0 <=? flags) && (flags <? 65536)) with true by lia.
  replace ((0 <=? protocol) && (protocol <? 256)) with true by lia.
  replace ((0 <=? alg) && (alg <? 256)) with true by lia.
  cbn [bind].
  replace (negb ((dtype =? 1) || (dtype =? 2) || (dtype =? 4))) with false
    by (destruct Hd as [->|[->| ->]]; reflexivity).
  pose proof (canonical_wire owner Hv Habs) as Hw.
  destruct (canonicalize owner) as [c| |]; cbn [bind] in *; try discriminate.
  rewrite Hw. cbn [bind].
  pose proof (key_id_eq_rfc flags protocol alg key Hf Hp Ha Hk) as Hkid.
  unfold key_id, as_uint, in_range in Hkid.
  replace ((0 <=? flags) && (flags <? 65536)) with true in Hkid by lia.
  replace ((0 <=? protocol) && (protocol <? 256)) with true in Hkid by lia.
  replace ((0 <=? alg) && (alg <? 256)) with true in Hkid by lia.
  cbn [bind] in Hkid. rewrite Hkid. cbn [bind]. reflexivity.
Qed.

(* owner given as text: the name the text denotes under the origin is the one that is digested *)
Theorem make_ds_text_eq_rfc text origin owner flags protocol alg key dtype :
  from_text text origin = Ok owner ->
  Valid owner -> is_absolute owner = true ->
  0 <= flags < 65536 -> 0 <= protocol < 256 -> 0 <= alg < 256 -> bytes_ok key ->
  dtype = 1 \/ dtype = 2 \/ dtype = 4 ->
  make_ds_text text origin flags protocol alg key dtype =
  Ok (rfc_ds_input owner flags protocol alg key,
      (let rdata := u16 flags ++ [protocol; alg] ++ key in
       if alg =? 1 then rfc_keytag_alg1 rdata else rfc_keytag rdata),
      alg, dtype).
Proof.
  intros Ht Hv Habs Hf Hp Ha Hk Hd. unfold make_ds_text, as_uint, in_range.
  replace ((0 <=? flags) && (flags <? 65536)) with true by lia.
  replace ((0 <=? protocol) && (protocol <? 256)) with true by lia.
  replace ((0 <=? alg) && (alg <? 256)) with true by lia.
  cbn [bind].
  replace (negb ((dtype =? 1) || (dtype =? 2) || (dtype =? 4))) with false
    by (destruct Hd as [->|[->| ->]]; reflexivity).
  rewrite Ht. cbn [bind]. now apply make_ds_eq_rfc.
Qed.

(* unsupported digest types are refused before anything is computed *)
Lemma make_ds_unsupported owner flags protocol alg key dtype :
  0 <= flags < 65536 -> 0 <= protocol < 256 -> 0 <= alg < 256 ->
  dtype <> 1 -> dtype <> 2 -> dtype <> 4 ->
  make_ds owner flags protocol alg key dtype = Lib eUnsupportedAlgorithm.
Proof.
  intros Hf Hp Ha H1 H2 H4. unfold make_ds, as_uint, in_range.
  replace ((0 <=? flags) && (flags <? 65536)) with true by lia.
  replace ((0 <=? protocol) && (protocol <? 256)) with true by lia.
  replace ((0 <=? alg) && (alg <? 256)) with true by lia.
  cbn [bind].
  replace (negb ((dtype =? 1) || (dtype =? 2) || (dtype =? 4))) with true by lia.
  reflexivity.
Qed.

(* ------------------------------------------------------------------ NSEC3 *)
Lemma b32_translate_std v : 0 <= v < 32 -> b32_translate (b32_std v) = b32_hex v.
Proof.
  intros Hv. unfold b32_translate, b32_std, b32_hex.
  destruct (v <? 26) eqn:E1; destruct (v <? 10) eqn:E2;
    repeat match goal with
           | |- context [if ?b then _ else _] => let E := fresh "E" in destruct b eqn:E
           end; lia.
Qed.

Lemma b32_translate_pad : b32_translate 61 = 61.
Proof. reflexivity. Qed.

Lemma quintets_range a b c d e : Forall (fun v => 0 <= v < 32) (quintets a b c d e).
Proof. unfold quintets. repeat constructor; lia. Qed.

Lemma in_firstn {A} (x : A) : forall k l, In x (firstn k l) -> In x l.
Proof. induction k as [|k IH]; intros [|y l]; cbn; try tauto. intros [->|H]; auto. Qed.

Lemma enc_translate k q :
  Forall (fun v => 0 <= v < 32) q ->
  map b32_translate (enc b32_std k q) = enc b32_hex k q.
Proof.
  intros Hq. unfold enc. rewrite map_app, map_map. f_equal.
  - apply map_ext_in. intros v Hv. apply b32_translate_std.
    rewrite Forall_forall in Hq. apply Hq. eapply in_firstn; eauto.
  - induction (8 - k)%nat as [|m IH]; [reflexivity|]. cbn [repeat map]. now rewrite IH.
Qed.

Lemma b32_translate_encode : forall l,
  map b32_translate (b32encode b32_std l) = b32encode b32_hex l.
Proof.
  fix IH 1. intros [|a [|b [|c [|d [|e r]]]]].
  - reflexivity.
  - cbn [b32encode]. apply enc_translate, quintets_range.
  - cbn [b32encode]. apply enc_translate, quintets_range.
  - cbn [b32encode]. apply enc_translate, quintets_range.
  - cbn [b32encode]. apply enc_translate, quintets_range.
  - cbn [b32encode]. rewrite map_app, IH. f_equal. apply enc_translate, quintets_range.
Qed.

Section N3.
  Variable H : bytes -> bytes.

  Lemma n3_iter_IH salt x : forall n k,
    n3_iter H n (rfc_IH H salt x k) salt = rfc_IH H salt x (k + n).
  Proof.
    induction n as [|n IHn]; intros k.
    - now rewrite Nat.add_0_r.
    - cbn [n3_iter]. change (H (rfc_IH H salt x k ++ salt)) with (rfc_IH H salt x (S k)).
      rewrite IHn. f_equal. lia.
  Qed.

  (* nsec3_hash == RFC 5155 section 5 for every hash function, salt and iteration count *)
  Theorem nsec3_hash_eq_rfc domain salt iterations :
    Valid domain -> is_absolute domain = true ->
    nsec3_hash H domain salt iterations 1 = Ok (rfc_nsec3_hash H domain salt (Z.to_nat iterations)).
  Proof.
    intros Hv Ha. unfold nsec3_hash. cbn [Z.eqb Pos.eqb negb].
    pose proof (canonical_wire domain Hv Ha) as Hw.
    destruct (canonicalize domain) as [c| |]; cbn [bind] in *; try discriminate.
    rewrite Hw. cbn [bind]. f_equal. unfold rfc_nsec3_hash.
    rewrite b32_translate_encode. f_equal.
    change (H (rfc_name_wire true domain ++ salt)) with (rfc_IH H salt (rfc_name_wire true domain) 0).
    now rewrite n3_iter_IH.
  Qed.

  Lemma nsec3_hash_bad_alg domain salt iterations alg :
    alg <> 1 -> nsec3_hash H domain salt iterations alg = Lib eValueError.
  Proof. intros Ha. unfold nsec3_hash. replace (alg =? 1) with false by lia. reflexivity. Qed.
End N3.
