(* C20, layer E: ImmutableVersion.bounds returns the documented bounds. *)
From DV Require Import Base.Prelude Model.NameM Model.BTZoneM
     Proofs.BTZoneOrder Proofs.BTZoneList Proofs.BTZoneSpec Proofs.BTZoneWalk Proofs.BTZoneInv
     Proofs.BTZoneMaster Proofs.BTZoneMain.
Open Scope Z_scope.

(* ---------- glue flag = occluded, visible names ---------- *)
Lemma apex_not_occk : forall c v, Inv c v -> ~ occk c (v_nodes v) (apexkey c).
Proof.
  intros c v HI (o & Ho & Hs). destruct Ho as (m & nd & Hin & _ & E).
  assert (validk c o) by (apply (inv_v c v HI); rewrite <- E; eapply in_keys; eauto).
  eapply sbelow_irrefl. eapply sbelow_below_trans; eauto.
Qed.

Lemma inv_node_glue : forall c v n nd, Inv c v -> In (n, nd) (v_nodes v) ->
    node_is_glue nd = occluded c (v_nodes v) n.
Proof.
  intros c v n nd HI Hin. unfold node_is_glue.
  pose proof (flag_cases (is_apex c n) (occluded c (v_nodes v) n) (has_ns nd)) as (_ & _ & F).
  cbn zeta in F. rewrite <- (inv_flags c v HI n nd Hin) in F. rewrite F.
  destruct (is_apex c n) eqn:Ea; cbn [negb andb]; auto.
  symmetry. apply occluded_false_iff. apply is_apex_key in Ea. rewrite Ea. apply apex_not_occk; auto.
Qed.

Lemma visible_in : forall c l x,
    In x (visible c l) <-> exists nd, In (x, nd) l /\ occluded c l x = false.
Proof.
  intros c l x. unfold visible. rewrite in_map_iff. split.
  - intros ([k nd] & <- & Hin). apply filter_In in Hin as [Hin H]. cbn [fst] in *.
    rewrite glue_name_occluded in H. apply negb_true_iff in H. eauto.
  - intros (nd & Hin & H). exists (x, nd). split; auto. apply filter_In. split; auto. cbn [fst].
    rewrite glue_name_occluded, H. reflexivity.
Qed.

(* ---------- first non-glue element of a list of entries ---------- *)
Definition all_glue (g : nodes_t) : Prop := forall e, In e g -> node_is_glue (snd e) = true.

Lemma skip_glue_right_spec : forall a,
    match skip_glue_right a with
    | Some r => exists gl rest, a = gl ++ r :: rest /\ all_glue gl /\ node_is_glue (snd r) = false
    | None => all_glue a
    end.
Proof.
  induction a as [|e a IH]; cbn.
  - intros ? [].
  - destruct (node_is_glue (snd e)) eqn:G.
    + destruct (skip_glue_right a) as [r|].
      * destruct IH as (gl & rest & E & Hg & Hr). exists (e :: gl), rest. split; [cbn; congruence|].
        split; auto. intros x [<-|Hx]; auto.
      * intros x [<-|Hx]; auto.
    + exists [], a. split; auto. split; auto. intros ? [].
Qed.

Lemma skip_glue_right_app : forall gl a, all_glue gl -> skip_glue_right (gl ++ a) = skip_glue_right a.
Proof.
  induction gl as [|e gl IH]; intros a H; cbn; auto.
  rewrite (H e) by (left; auto). apply IH. intros x Hx. apply H. right; auto.
Qed.

Lemma skip_glue_left_spec : forall before lft after,
    (exists e, In e (lft :: before) /\ node_is_glue (snd e) = false) ->
    exists gl x rest,
      lft :: before = gl ++ x :: rest /\ all_glue gl /\ node_is_glue (snd x) = false /\
      skip_glue_left lft (before, lft :: after) before = Ok (x, (rest, x :: rev gl ++ after)).
Proof.
  induction before as [|e before IH]; intros lft after Hex.
  - destruct Hex as (e & [<-|[]] & He). exists [], lft, []. cbn. rewrite He. repeat split; auto. intros ? [].
  - cbn [skip_glue_left]. destruct (node_is_glue (snd lft)) eqn:G.
    + destruct (IH e (lft :: after)) as (gl & x & rest & E & Hg & Hx & Hs).
      { destruct Hex as (y & [<-|Hy] & Hy'); [congruence|]. exists y. auto. }
      cbn [snd]. rewrite Hs. exists (lft :: gl), x, rest. split; [cbn; congruence|].
      split; [intros y [<-|Hy]; auto|]. split; auto.
      cbn [rev]. rewrite <- app_assoc. reflexivity.
    + exists [], lft, (e :: before). cbn. repeat split; auto. intros ? [].
Qed.

(* ---------- left / right neighbours around a target key ---------- *)
Section Neighbours.
  Variable l : nodes_t.
  Variable G : name -> bool.       (* the glue predicate on names *)
  Hypothesis S : sorted l.
  Hypothesis HG : forall k nd, In (k, nd) l -> node_is_glue nd = G k.
  Variable t : name.
  Variables b a : nodes_t.
  Hypothesis Hseek : c_seek l t = (b, a).

  Lemma Hl : l = rev b ++ a.
  Proof. exact (proj1 (c_seek_spec l t b a S Hseek)). Qed.
  Lemma Hb : forall k v, In (k, v) b -> kcmp (K k) (K t) <> Gt.
  Proof. exact (proj1 (proj2 (c_seek_spec l t b a S Hseek))). Qed.
  Lemma Ha : forall k v, In (k, v) a -> klt (K t) (K k).
  Proof. exact (proj2 (proj2 (c_seek_spec l t b a S Hseek))). Qed.

  Lemma nb_in_b : forall k v, In (k, v) l -> kcmp (K k) (K t) <> Gt -> In (k, v) b.
  Proof.
    intros k v Hin Hle. rewrite Hl in Hin. apply in_app_or in Hin as [H|H]; [apply in_rev; auto|].
    exfalso. apply Ha in H. unfold klt in H. apply kcmp_gt_lt in H. auto.
  Qed.

  Lemma nb_in_a : forall k v, In (k, v) l -> klt (K t) (K k) -> In (k, v) a.
  Proof.
    intros k v Hin Hlt. rewrite Hl in Hin. apply in_app_or in Hin as [H|H]; auto.
    exfalso. apply in_rev in H. apply Hb in H. unfold klt in Hlt. apply kcmp_gt_lt in Hlt. auto.
  Qed.

  (* b is in decreasing order *)
  Lemma nb_b_decreasing : forall gl x rest k v,
      b = gl ++ x :: rest -> In (k, v) rest -> klt (K k) (K (fst x)).
  Proof.
    intros gl [kx vx] rest k v E Hin. pose proof S as S'. rewrite Hl, E in S'.
    rewrite rev_app_distr in S'. cbn [rev] in S'. rewrite <- !app_assoc in S'.
    apply sorted_app in S' as (_ & _ & S3).
    cbn [fst]. eapply S3; [apply in_rev; rewrite rev_involutive; exact Hin|left; reflexivity].
  Qed.

  Lemma nb_left : forall gl x rest,
      b = gl ++ x :: rest -> all_glue gl -> node_is_glue (snd x) = false ->
      In x l /\ G (fst x) = false /\ kcmp (K (fst x)) (K t) <> Gt /\
      forall k v, In (k, v) l -> G k = false -> kcmp (K k) (K t) <> Gt -> kcmp (K k) (K (fst x)) <> Gt.
  Proof.
    intros gl [kx vx] rest E Hgl Hx. cbn [fst snd] in *.
    assert (Hinb : In (kx, vx) b) by (rewrite E; apply in_or_app; right; left; auto).
    assert (Hinl : In (kx, vx) l) by (rewrite Hl; apply in_or_app; left; apply in_rev; rewrite rev_involutive; auto).
    split; auto. split; [rewrite <- (HG kx vx); auto|]. split; [eapply Hb; eauto|].
    intros k v Hin Hg Hle. pose proof (nb_in_b k v Hin Hle) as Hkb. rewrite E in Hkb.
    apply in_app_or in Hkb as [H|[H|H]].
    - apply Hgl in H. cbn [snd] in H. rewrite (HG k v Hin) in H. congruence.
    - inversion H; subst. rewrite kcmp_refl. discriminate.
    - pose proof (nb_b_decreasing gl (kx, vx) rest k v E H) as Hlt. cbn [fst] in Hlt.
      unfold klt in Hlt. rewrite Hlt. discriminate.
  Qed.

  Lemma nb_right_some : forall gl r rest,
      a = gl ++ r :: rest -> all_glue gl -> node_is_glue (snd r) = false ->
      In r l /\ G (fst r) = false /\ klt (K t) (K (fst r)) /\
      forall k v, In (k, v) l -> G k = false -> klt (K t) (K k) -> kcmp (K (fst r)) (K k) <> Gt.
  Proof.
    intros gl [kr vr] rest E Hgl Hr. cbn [fst snd] in *.
    assert (Hina : In (kr, vr) a) by (rewrite E; apply in_or_app; right; left; auto).
    assert (Hinl : In (kr, vr) l) by (rewrite Hl; apply in_or_app; right; auto).
    split; auto. split; [rewrite <- (HG kr vr); auto|]. split; [eapply Ha; eauto|].
    intros k v Hin Hg Hlt. pose proof (nb_in_a k v Hin Hlt) as Hka. rewrite E in Hka.
    apply in_app_or in Hka as [H|[H|H]].
    - apply Hgl in H. cbn [snd] in H. rewrite (HG k v Hin) in H. congruence.
    - inversion H; subst. rewrite kcmp_refl. discriminate.
    - pose proof S as S'. rewrite Hl, E in S'. apply sorted_app in S' as (_ & S2 & _).
      apply sorted_app in S2 as (_ & S3 & _). apply sorted_cons in S3 as [S4 _].
      specialize (S4 k v H). unfold klt in S4. rewrite S4. discriminate.
  Qed.

  Lemma nb_right_none : all_glue a -> forall k v, In (k, v) l -> klt (K t) (K k) -> G k = true.
  Proof.
    intros Hgl k v Hin Hlt. pose proof (nb_in_a k v Hin Hlt) as Hka. apply Hgl in Hka. cbn [snd] in Hka.
    rewrite <- (HG k v Hin). auto.
  Qed.
End Neighbours.
