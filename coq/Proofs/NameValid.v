(* _validate_labels decides the DNS limits; basic facts about valid names. *)
From DV Require Import Base.Prelude Model.NameM.
Open Scope Z_scope.

(* The DNS limits, stated declaratively: every label at most 63 octets, the encoded length
   (one length octet per label plus the label octets) at most 255, the empty (root) label
   only in last position. *)
Definition Valid (n : name) : Prop :=
  Forall (fun l => zlen l <= 63) n /\
  wire_length n <= 255 /\
  Forall (fun l => l <> []) (removelast n).

Fixpoint first_empty (ls : name) (j : nat) : option nat :=
  match ls with
  | [] => None
  | l :: r => match l with [] => Some j | _ => first_empty r (S j) end
  end.

Lemma zlen_nil_iff {A} (l : list A) : (zlen l =? 0) = true <-> l = [].
Proof. unfold zlen. destruct l; cbn; split; try congruence; try lia. Qed.

Lemma zlen_cons {A} (x : A) l : zlen (x :: l) = zlen l + 1.
Proof. unfold zlen. cbn [length]. lia. Qed.

Lemma zlen_app {A} (a b : list A) : zlen (a ++ b) = zlen a + zlen b.
Proof. unfold zlen. rewrite app_length. lia. Qed.

Lemma zlen_nonneg {A} (l : list A) : 0 <= zlen l.
Proof. unfold zlen. lia. Qed.

Lemma wire_length_cons l n : wire_length (l :: n) = zlen l + 1 + wire_length n.
Proof. reflexivity. Qed.

Lemma wire_length_app a b : wire_length (a ++ b) = wire_length a + wire_length b.
Proof. induction a as [|l a IH]; [cbn [app]; change (wire_length []) with 0; lia|]. cbn [app]. rewrite !wire_length_cons, IH. lia. Qed.

Lemma wire_length_nonneg n : 0 <= wire_length n.
Proof. induction n as [|l n IH]; [cbn; lia|]. rewrite wire_length_cons. pose proof (zlen_nonneg l). lia. Qed.

Lemma wire_length_ge_len n : zlen n <= wire_length n.
Proof.
  induction n as [|l n IH]; [cbn; lia|]. rewrite wire_length_cons, zlen_cons.
  pose proof (zlen_nonneg l). lia.
Qed.

Lemma vl_loop_ok : forall ls total i j,
  Forall (fun l => zlen l <= 63) ls ->
  vl_loop ls total i j =
    Ok (total + wire_length ls, match i with Some k => Some k | None => first_empty ls j end).
Proof.
  induction ls as [|l r IH]; intros total i j H.
  - cbn. destruct i; f_equal; f_equal; lia.
  - inversion H; subst. cbn [vl_loop].
    destruct (zlen l >? 63) eqn:E; [lia|].
    rewrite IH by assumption. rewrite wire_length_cons. f_equal. f_equal; [lia|].
    destruct i; [reflexivity|]. cbn [first_empty].
    destruct l; [reflexivity|]. reflexivity.
Qed.

Lemma vl_loop_long : forall ls total i j,
  ~ Forall (fun l => zlen l <= 63) ls -> vl_loop ls total i j = Lib eLabelTooLong.
Proof.
  induction ls as [|l r IH]; intros total i j H.
  - exfalso. apply H. constructor.
  - cbn [vl_loop]. destruct (zlen l >? 63) eqn:E; [reflexivity|].
    apply IH. intros Hr. apply H. constructor; [lia|assumption].
Qed.

Lemma first_empty_spec : forall ls j,
  (first_empty ls j = None \/ first_empty ls j = Some (j + length ls - 1)%nat)
  <-> Forall (fun l => l <> []) (removelast ls).
Proof.
  induction ls as [|l r IH]; intros j.
  - cbn. split; auto.
  - cbn [first_empty].
    destruct l as [|c l].
    + destruct r as [|l2 r].
      * cbn. split; [constructor|]. intros _. right. f_equal. lia.
      * split.
        -- intros [H|H]; [discriminate|]. inversion H. cbn [length] in *. lia.
        -- intros H. cbn [removelast] in H. inversion H. congruence.
    + specialize (IH (S j)).
      destruct r as [|l2 r].
      * cbn. split; auto.
      * change label with (list Z) in *.
        replace (j + length ((c :: l) :: l2 :: r) - 1)%nat with (S j + length (l2 :: r) - 1)%nat
          by (cbn [length]; lia).
        rewrite IH. change (removelast ((c :: l) :: l2 :: r)) with ((c :: l) :: removelast (l2 :: r)).
        split; intros H.
        -- constructor; [discriminate|assumption].
        -- inversion H; assumption.
Qed.

Lemma Forall_dec_len (ls : name) :
  {Forall (fun l => zlen l <= 63) ls} + {~ Forall (fun l => zlen l <= 63) ls}.
Proof. apply Forall_dec. intros l. destruct (Z_le_dec (zlen l) 63); auto. Qed.

Theorem validate_iff n : validate_labels n = Ok tt <-> Valid n.
Proof.
  unfold validate_labels, Valid.
  destruct (Forall_dec_len n) as [H|H].
  - rewrite vl_loop_ok by assumption. rewrite Z.add_0_l.
    destruct (wire_length n >? 255) eqn:E.
    + split; [discriminate|]. intros (_ & ? & _). lia.
    + pose proof (first_empty_spec n 0) as S. cbn [Nat.add] in S.
      destruct (first_empty n 0) as [k|] eqn:F.
      * destruct (Nat.eqb_spec k (length n - 1)) as [->|Hk].
        -- split; [|reflexivity]. intros _. repeat split; try assumption; try lia. apply S. auto.
        -- split; [discriminate|]. intros (_ & _ & Hne). apply S in Hne.
           destruct Hne as [?|Hs]; [discriminate|]. inversion Hs. congruence.
      * split; [|reflexivity]. intros _. repeat split; try assumption; try lia. apply S. auto.
  - rewrite vl_loop_long by assumption. split; [discriminate|]. intros (? & _). contradiction.
Qed.

(* which error, in the order the code checks them *)
Theorem validate_error n e :
  validate_labels n = Lib e ->
  (e = eLabelTooLong /\ ~ Forall (fun l => zlen l <= 63) n) \/
  (e = eNameTooLong /\ Forall (fun l => zlen l <= 63) n /\ wire_length n > 255) \/
  (e = eEmptyLabel /\ Forall (fun l => zlen l <= 63) n /\ wire_length n <= 255 /\
     ~ Forall (fun l => l <> []) (removelast n)).
Proof.
  unfold validate_labels.
  destruct (Forall_dec_len n) as [H|H].
  - rewrite vl_loop_ok by assumption. rewrite Z.add_0_l.
    destruct (wire_length n >? 255) eqn:E.
    + intros X; inversion X. right; left. repeat split; auto. lia.
    + pose proof (first_empty_spec n 0) as S. cbn [Nat.add] in S.
      destruct (first_empty n 0) as [k|] eqn:F; [|discriminate].
      destruct (Nat.eqb_spec k (length n - 1)) as [->|Hk]; [discriminate|].
      intros X; inversion X. right; right. repeat split; auto; try lia.
      intros Hne. apply S in Hne. destruct Hne as [?|Hs]; [discriminate|]. inversion Hs. congruence.
  - rewrite vl_loop_long by assumption. intros X; inversion X. left. auto.
Qed.

Lemma validate_never_internal n e : validate_labels n <> Internal e.
Proof.
  unfold validate_labels.
  destruct (Forall_dec_len n) as [H|H].
  - rewrite vl_loop_ok by assumption. rewrite Z.add_0_l.
    destruct (wire_length n >? 255); [discriminate|].
    destruct (first_empty n 0); [destruct (Nat.eqb _ _)|]; discriminate.
  - rewrite vl_loop_long by assumption. discriminate.
Qed.

Lemma mk_name_ok n m : mk_name n = Ok m <-> (m = n /\ Valid n).
Proof.
  unfold mk_name. destruct (validate_labels n) as [[]| |] eqn:E.
  - apply validate_iff in E. split; [intros X; inversion X; subst; auto|intros [-> _]; reflexivity].
  - split; [discriminate|]. intros [_ V]. apply validate_iff in V. congruence.
  - split; [discriminate|]. intros [_ V]. apply validate_iff in V. congruence.
Qed.

Lemma mk_name_valid n : Valid n -> mk_name n = Ok n.
Proof. intros V. apply mk_name_ok. auto. Qed.

Lemma mk_name_never_internal n e : mk_name n <> Internal e.
Proof.
  unfold mk_name. pose proof (validate_never_internal n) as H.
  destruct (validate_labels n); try discriminate. intros X; inversion X; subst. eapply H; reflexivity.
Qed.

(* ---------- structure of valid names ---------- *)

Lemma removelast_cons2 {A} (x y : A) l : removelast (x :: y :: l) = x :: removelast (y :: l).
Proof. reflexivity. Qed.

Lemma Valid_nil : Valid [].
Proof. repeat split; try constructor. cbn. lia. Qed.

Lemma Valid_root : Valid [[]].
Proof. repeat split; try constructor; cbn; try lia. constructor. Qed.

Lemma Valid_tl l n : Valid (l :: n) -> Valid n.
Proof.
  intros (H1 & H2 & H3). inversion H1; subst. rewrite wire_length_cons in H2.
  pose proof (zlen_nonneg l). repeat split; auto; try lia.
  destruct n as [|y n]; [constructor|]. rewrite removelast_cons2 in H3. inversion H3; assumption.
Qed.

Lemma Valid_skipn k n : Valid n -> Valid (skipn k n).
Proof.
  revert n. induction k as [|k IH]; intros n V; [exact V|].
  destruct n as [|l n]; [exact V|]. cbn [skipn]. apply IH. eapply Valid_tl; eauto.
Qed.

Lemma Valid_app_r a b : Valid (a ++ b) -> Valid b.
Proof.
  intros V. replace b with (skipn (length a) (a ++ b)); [apply Valid_skipn; exact V|].
  rewrite skipn_app, skipn_all, Nat.sub_diag. reflexivity.
Qed.

Lemma Valid_head_nonempty l y n : Valid (l :: y :: n) -> l <> [].
Proof. intros (_ & _ & H). rewrite removelast_cons2 in H. inversion H; assumption. Qed.

Lemma removelast_app_cons {A} (a : list A) x b : removelast (a ++ x :: b) = a ++ removelast (x :: b).
Proof. apply removelast_app. discriminate. Qed.

Lemma Valid_app_l_nonempty a x b : Valid (a ++ x :: b) -> Forall (fun l => l <> []) a.
Proof.
  intros (_ & _ & H). rewrite removelast_app_cons in H. apply Forall_app in H. tauto.
Qed.

Lemma is_absolute_cons l y n : is_absolute (l :: y :: n) = is_absolute (y :: n).
Proof. reflexivity. Qed.

Lemma is_absolute_app (a : name) x b : is_absolute (a ++ x :: b) = is_absolute (x :: b).
Proof.
  induction a as [|l a IH]; [reflexivity|]. cbn [app].
  destruct (a ++ x :: b) eqn:E; [destruct a; discriminate|]. rewrite is_absolute_cons. exact IH.
Qed.

Lemma is_absolute_last (n : name) l : is_absolute (n ++ [l]) = match l with [] => true | _ => false end.
Proof. rewrite is_absolute_app. reflexivity. Qed.

Lemma is_absolute_true n : is_absolute n = true -> exists p, n = p ++ [[]].
Proof.
  destruct n as [|l n] using rev_ind; [discriminate|].
  rewrite is_absolute_last. destruct l; [|discriminate]. eauto.
Qed.

(* a prefix (all but a non-empty suffix) of a valid name is relative *)
Lemma Valid_prefix_relative a x b : Valid (a ++ x :: b) -> is_absolute a = false.
Proof.
  intros V. apply Valid_app_l_nonempty in V.
  destruct a as [|l a] using rev_ind; [reflexivity|].
  rewrite is_absolute_last. apply Forall_app in V. destruct V as [_ V]. inversion V; subst.
  destruct l; congruence.
Qed.

Lemma Valid_prefix a b : Valid (a ++ b) -> Valid a.
Proof.
  intros (H1 & H2 & H3). apply Forall_app in H1. destruct H1 as [H1 _].
  rewrite wire_length_app in H2. pose proof (wire_length_nonneg b).
  repeat split; auto; try lia.
  destruct b as [|x b]; [rewrite app_nil_r in H3; exact H3|].
  rewrite removelast_app_cons in H3. apply Forall_app in H3. destruct H3 as [H3 _].
  clear -H3. induction a as [|l a IH]; [constructor|].
  destruct a as [|y a]; [constructor|]. rewrite removelast_cons2. inversion H3; subst.
  constructor; auto.
Qed.
